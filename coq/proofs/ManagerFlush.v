(* C05: the flush at the outermost unlock.  One pack of the model (applyCommandPack: final mask, one move, the assigned
   temporaries move-constructed into the archetype) reaches the state the specification reaches by applying the
   commands of the pack one at a time; packs in log order, buffers in thread order. *)
Require Import Coq.Lists.List Coq.NArith.NArith Coq.ZArith.ZArith Coq.Arith.Arith Coq.Bool.Bool Coq.micromega.Lia.
From Mustache Require Import Res Manager MgrSpec Refine.
From Mustache Require Skeleton.
From Mustache Require Import SkelSpec.
From Mustache.proofs Require Import ListLemmas SkelBasics SkelInv SkelSteps SkelRefine SkelLocked SkelFlush SkelMove SkelMoveRem ClosureProofs
  ManagerBasics ManagerMoves ManagerProj ManagerInv ManagerMain ManagerLInv ManagerPack.
From Mustache.proofs Require ManagerDeferred.
Import ListNotations.

(* the creations among the remaining commands of the specification's buffers, as the Skeleton invariant reads them *)
Definition xrem (l : list xcmd) : list scmd :=
  filter_map (fun c => match c with XCreate k m _ => Some (SCreate k m) | _ => None end) l.

Lemma xrem_app l1 l2 : xrem (l1 ++ l2) = xrem l1 ++ xrem l2.
Proof. apply filter_map_app. Qed.

Lemma xrem_nocreate l : Forall (fun xc => x_is_create xc = false) l -> xrem l = [].
Proof. induction 1 as [|xc t Hc Ht IH]; [reflexivity|]. destruct xc; try discriminate; exact IH. Qed.

Lemma pend_xrem l k : pend (xrem l) k <-> exists m sh, In (XCreate k m sh) l.
Proof.
  unfold pend, xrem. induction l as [|c t IH]; simpl; [split; [intros (key & [])|intros (m & sh & [])]|].
  destruct c as [k' m' sh'|k'|k'|k' c' v'|k' c']; simpl; rewrite ?IH;
    try (split; [intros (m & sh & Hin); exists m, sh; right; exact Hin|intros (m & sh & [E|Hin]); [discriminate|exists m, sh; exact Hin]]).
  split.
  - intros (key & [E|Hin]); [injection E as E1 E2; exists m', sh'; left; rewrite E1; reflexivity|].
    assert (Hp : exists key, In (SCreate k key) (filter_map (fun c => match c with XCreate k m _ => Some (SCreate k m) | _ => None end) t)) by (exists key; exact Hin).
    apply IH in Hp. destruct Hp as (m & sh & Hin'). exists m, sh. right. exact Hin'.
  - intros (m & sh & [E|Hin]); [injection E as E1 E2 E3; exists m; left; rewrite E1, E2; reflexivity|].
    assert (Hp : exists m sh, In (XCreate k m sh) t) by (exists m, sh; exact Hin). apply IH in Hp. destruct Hp as (key & Hin'). exists key. right. exact Hin'.
Qed.

(* ---- the flush invariant ---- *)
Record FInv (cis : list cinfo) (s : mst) (hs : list handle) (x : xst) (rem : list scmd) : Prop := {
  f_inv : exists al, LInv cis s hs al rem x;
  f_created : NoDup (created rem);
  f_mr : MR hs (marked s) (x_marked x);
  f_ids : forall h, In h hs -> N.to_nat (fst h) < length hs
}.

Lemma cell_le_refl v : cell_le v v = true.
Proof. destruct v as [z|]; [apply cell_le_refl_some|reflexivity]. Qed.

Definition asg_ok (c : acmd) : Prop := match c with AAssign _ cid _ => cid < MASK_BITS | _ => True end.

Lemma crel_asg_ok cis hs tl t xt : Forall2 (crel cis hs tl) t xt -> Forall asg_ok t.
Proof.
  induction 1 as [|c xc t xt Hc Ht IH]; constructor; [|exact IH].
  destruct c, xc; simpl in *; try contradiction; try exact I. tauto.
Qed.

(* ---- the common tail of a pack: the assigned temporaries are written at the slot of the (live) entity ---- *)
Lemma finish_write cis tid tl h s5 hs al rem x5 k key ai a5 idx p e' s6 :
  LInv cis s5 hs al rem x5 -> In (k, key) al -> hnd hs k = h ->
  nth_error (archs s5) ai = Some a5 -> nth_error (am_ents a5) idx = Some h ->
  nth_error (locs s5) (N.to_nat (fst h)) = Some {| l_arch := Some ai; l_idx := idx |} ->
  nth_error (tmps s5) tid = Some tl -> Forall asg_ok p ->
  e_k e' = k -> map fst (e_comps e') = mitems (am_mask a5) -> e_shared e' = [] ->
  (forall c v, In (c, v) (e_comps e') -> match last_asg tl p c with Some w => v = w | None => cell_le v (acell a5 c idx) = true end) ->
  (do l <- nth_res (locs s5) (N.to_nat (fst h)); do a <- nth_res (archs s5) ai; fold_res (wr_step tid h ai a (l_idx l)) p s5) = Ok s6 ->
  LInv cis s6 hs al rem (xput x5 e') /\ fr1 s6 = fr1 s5.
Proof.
  intros HI Hin Eh Ha Hent Hloc Htl Hp Hek Hkeys Hsh Hvals H.
  rewrite (nth_res_some _ _ _ Hloc), bind_Ok, (nth_res_some _ _ _ Ha), bind_Ok in H. simpl l_idx in H.
  destruct (awf_nth _ _ _ (li_awf _ _ _ _ _ _ HI) Ha) as (_ & _ & Wc).
  destruct (wr_fold tid h ai a5 idx tl s5 a5 Ha eq_refl Wc Htl p s5 a5 s6 Hp (cells_of_refl _ _ _ _ Ha) H) as (a6 & Hc6 & Hv6).
  pose proof Hc6 as (F6 & A6 & Hab6 & Hcl6 & Hoth6).
  split; [|exact F6].
  apply (LInv_rewrite cis s5 hs al rem x5 k key e' ai idx a5 a6 s6 HI Hin Hek Ha); try assumption.
  - rewrite Eh. exact Hent.
  - apply ab1_ab2. exact Hab6.
  - assert (Em : am_mask a6 = am_mask a5) by (apply ab1_ab2 in Hab6; destruct (ab2_fields _ _ Hab6) as (E & _); exact E).
    split; [rewrite Em; exact Hkeys|]. split; [exact Hsh|]. intros c v Hcv.
    assert (Hc128 : c < MASK_BITS).
    { assert (Hi : In c (mitems (am_mask a5))) by (rewrite <- Hkeys; apply in_map_iff; exists (c, v); auto). apply mitems_in in Hi. tauto. }
    rewrite (Hv6 c Hc128). specialize (Hvals c v Hcv). destruct (last_asg tl p c) as [w|]; [subst v; apply cell_le_refl|exact Hvals].
Qed.

Lemma extra_nil s m : deps s = [] -> extra_components s m = Ok 0%N.
Proof. intros H. unfold extra_components. rewrite H. reflexivity. Qed.

Lemma fr3_set_marked s s' m : fr3 s' = fr3 (set_marked s m) -> fr4 s' = fr4 s.
Proof. intros H. rewrite <- (fr4_set_marked s m). apply fr3_fr4. exact H. Qed.

Lemma in_default_comps cis (l : list nat) c v : In (c, v) (map (fun c => (c, default_cell cis c)) l) -> v = default_cell cis c /\ In c l.
Proof. intros H. apply in_map_iff in H. destruct H as (c0 & E & H). inversion E; subst. auto. Qed.

Lemma e_comps_mk k cs sh : e_comps {| e_k := k; e_comps := cs; e_shared := sh |} = cs.
Proof. reflexivity. Qed.
Lemma e_shared_mk k cs sh : e_shared {| e_k := k; e_comps := cs; e_shared := sh |} = sh.
Proof. reflexivity. Qed.
Lemma e_k_mk k cs sh : e_k {| e_k := k; e_comps := cs; e_shared := sh |} = k.
Proof. reflexivity. Qed.
Lemma map_fst_pair {A} (f : nat -> A) l : map fst (map (fun c => (c, f c)) l) = l.
Proof. rewrite map_map. simpl. apply map_id. Qed.

Lemma x_marked_create x k m sh : x_marked (x_create x k m sh) = x_marked x.
Proof. unfold x_create. destruct (widen x k _) as [cs att]. reflexivity. Qed.

(* stated in this direction on purpose: checked the other way round the kernel unfolds x_create (down to mitems) first *)
Lemma x_cmd_create x k m sh : x_cmd x (XCreate k m sh) = x_create x k m sh.
Proof. reflexivity. Qed.

(* ---- a pack that begins with the creation of its entity ---- *)
Lemma F_pack_create cis tid tl s hs x k m ha sh h t xt rem' s' :
  FInv cis s hs x (SCreate k m :: rem') -> cis_ok cis -> nth_error (tmps s) tid = Some tl ->
  k < length hs -> hnd hs k = h -> sh = si_null -> ha = negb (m =? 0)%N ->
  Forall2 (crel cis hs tl) t xt -> Forall (fun c => cmd_handle c = h) t -> Forall (fun c => is_create c = false) t ->
  x_viol (fold_left x_cmd xt (x_cmd x (XCreate k m []))) = x_viol x ->
  apply_pack tid s (ACreate h ha m sh :: t) = Ok s' ->
  FInv cis s' hs (fold_left x_cmd xt (x_cmd x (XCreate k m []))) rem' /\ fr4 s' = fr4 s.
Proof.
  intros [(al & HI) Hcr Hmr Hids] Hok Htl Hk Eh -> Eha HR Hall Hnc Hviol H.
  rewrite (x_cmd_create x k m []) in Hviol |- *.
  pose proof HI as [HG Hawf Hdp Hc Hxd Hxc Hcnt Hsl Hal Hv].
  set (rem := SCreate k m :: rem') in *.
  assert (Hpk : pend rem k) by (exists m; left; reflexivity).
  change (created rem) with (k :: created rem') in Hcr. inversion Hcr as [|x0 l0 Hknot Hcr']; subst x0 l0.
  assert (Hp : forall k', pend rem' k' <-> pend rem k' /\ k' <> k).
  { intros k'. unfold rem. split.
    - intros Hp'. split; [destruct Hp' as (key' & Hi'); exists key'; right; exact Hi'|]. intros ->. apply Hknot. apply created_in. exact Hp'.
    - intros ((key' & [E|Hi']) & Hne); [inversion E; congruence|exists key'; exact Hi']. }
  destruct (g_pend HG k Hpk) as (_ & Hna & Hv0 & _ & _).
  destruct h as [i v]. rewrite Eh in Hv0. simpl in Hv0. subst v.
  assert (Hfk0 : find_ent x k = None).
  { apply alive_x_false. destruct (alive_x x k) eqn:E; [|reflexivity]. exfalso. apply Hna. apply Hal. exact E. }
  (* the model *)
  rewrite apply_pack_create_eq in H. bd H s2 Hinst.
  assert (Eex : (if ha then extra_components s m else Ok 0%N) = Ok 0%N) by (destruct ha; [apply extra_nil; exact Hdp|reflexivity]).
  rewrite Eex, bind_Ok in H.
  assert (Em0 : (if ha then munion m 0%N else 0%N) = m).
  { destruct ha; [apply munion_zero|]. symmetry in Eha. apply negb_false_iff in Eha. apply N.eqb_eq in Eha. congruence. }
  assert (Esh0 : (if ha then si_null else si_null) = si_null) by (destruct ha; reflexivity).
  rewrite Em0, Esh0 in H. bd H r Hloop. destruct r as (((s3, final), assigned), fin).
  assert (Hlen : length (locs s) = length (slots s)).
  { pose proof (g_len HG) as E. simpl in E. rewrite !map_length in E. exact E. }
  destruct (minstall_facts s (i, 0%N) s2 Hlen Hinst) as (I1 & I2 & I3 & I4 & I5 & I6 & I7 & In2 & Ie2 & Ia2 & If2 & Im2).
  simpl fst in *. simpl snd in *.
  (* the specification *)
  destruct (x_create_eq x k m [] Hxd) as (Fx & Ex). rewrite Hxc in Ex.
  remember {| e_k := k; e_comps := map (fun c => (c, default_cell cis c)) (mitems m); e_shared := [] |} as e0 eqn:Ee0 in *.
  set (x1 := x_create x k m []) in *.
  assert (Hf1 : forall k', find_ent x1 k' = if Nat.eqb k' k then Some e0 else find_ent x k').
  { intros k'. rewrite find_ent_findk, Ex, findk_put. rewrite Ee0 at 1. rewrite e_k_mk. reflexivity. }
  destruct (xfr_fields _ _ Fx) as (X1 & X2 & X3 & X4 & X5).
  assert (Hkeys0 : map fst (e_comps e0) = mitems m) by (rewrite Ee0, e_comps_mk; apply map_fst_pair).
  assert (Hmr1 : MR hs (marked s2) (x_marked x1)).
  { rewrite Im2. unfold x1. rewrite x_marked_create. exact Hmr. }
  assert (Hviol1 : x_viol (fold_left x_cmd xt x1) = x_viol x1) by (unfold x1 at 2; rewrite x_viol_create; exact Hviol).
  destruct (pack_loop_sim cis hs tl true (i, 0%N) k (g_hs_nodup HG) Hk Eh t xt s2 m 0%N s3 final assigned fin x1 e0 HR Hall Hnc)
    as (Hsame & m' & Hm' & Hff & Hft); [congruence|congruence|rewrite Hf1, Nat.eqb_refl; reflexivity|exact Hkeys0|exact Hmr1|exact Hviol1|exact Hloop|].
  set (x' := fold_left x_cmd xt x1) in *.
  destruct Hsame as (Fm & Hoth). destruct (xfm_fields _ _ Fm) as (Y1 & Y2 & Y3 & Y4 & Y5 & Y6 & Y7).
  assert (Hi_lt : N.to_nat i < length (slots s2)) by (apply nth_error_Some; congruence).
  assert (Hslots_bound : length (slots s2) <= length hs).
  { rewrite I7. assert (Hin : In (i, 0%N) hs) by (rewrite <- Eh; apply nth_In_hnd; exact Hk). pose proof (Hids _ Hin) as Hb. simpl in Hb. lia. }
  destruct (fr4_fields _ _ If2) as (_ & D2 & C2 & _).
  destruct fin.
  - (* destroyed in the same pack *)
    destruct (Hft eq_refl) as (Es3 & Hdead). inversion H; subst s'; clear H. subst s3.
    assert (Hb : (N.to_nat i <? length (slots s2)) = true) by (apply Nat.ltb_lt; exact Hi_lt).
    assert (HI' : LInv cis (release_id (set_marked s2 m') (i, 0%N)) hs al rem' x).
    { eapply (LInv_stillborn cis s _ hs al rem rem' x k i HI Hpk Hp Eh); unfold release_id; simpl; rewrite ?Hb, ?upd_length.
      - exact I1.
      - exact I2.
      - exact Hslots_bound.
      - rewrite nth_error_upd_same by exact Hi_lt. rewrite Ie2, In2. reflexivity.
      - intros j Hj Hjl. rewrite nth_error_upd_other by congruence. apply I4; assumption.
      - intros j Hj H1 H2. rewrite nth_error_upd_other by congruence. apply I5; assumption.
      - reflexivity.
      - rewrite Ie2. reflexivity.
      - exact Ia2.
      - intros j _ Hj. apply I6. exact Hj.
      - exact D2.
      - exact C2. }
    split; [constructor|].
    + exists al. eapply LInv_ext; [exact HI'|congruence|congruence|congruence|].
      intros k'. destruct (Nat.eq_dec k' k) as [->|Hne]; [congruence|]. rewrite (Hoth k' Hne), Hf1. apply Nat.eqb_neq in Hne. rewrite Hne. reflexivity.
    + exact Hcr'.
    + unfold release_id. simpl. exact Hm'.
    + exact Hids.
    + rewrite fr4_release, fr4_set_marked. exact If2.
  - (* it enters its archetype *)
    destruct (Hff eq_refl) as (Es3 & e' & He' & Hk' & Hsh' & Has & Hvals). subst s3.
    bd H ra Hga. destruct ra as (s4, ai). cbv beta iota in H. bd H s5 Hins.
    destruct (LInv_get_arch_indep cis s hs al rem x (set_marked s2 m') final s4 ai HI) as (F4 & sa & HIa & Ea4 & Fa & _ & a & Ha & Hma);
      [simpl; exact Ia2|simpl; congruence|exact Hga|].
    assert (Ha4 : nth_error (archs s4) ai = Some a) by (rewrite Ea4; exact Ha).
    destruct (awf_nth _ _ _ (li_awf _ _ _ _ _ _ HIa) Ha) as (Wsh & Wsz & Wcl).
    destruct (arch_insert_ok _ _ _ _ _ _ Ha4 Wcl Hins) as (a3 & F5 & A5 & Hlt5 & L5 & Hab & He & Hz & Hcl & Hcells & Hdef).
    simpl fst in *.
    destruct (fr2_slots _ _ (fr1_fr2 _ _ F4)) as (S4 & N4 & E4). simpl in S4, N4, E4.
    pose proof (fr1_locs _ _ F4) as L4. simpl in L4.
    destruct (fr2_slots _ _ F5) as (S5 & N5 & E5).
    destruct (fr2_slots _ _ (fr1_fr2 _ _ Fa)) as (Sa & Na & Ea). pose proof (fr1_locs _ _ Fa) as La.
    destruct (fr3_ctl _ _ (fr2_fr3 _ _ (fr1_fr2 _ _ Fa))) as (_ & Da & Ca & _).
    destruct (fr3_ctl _ _ (fr2_fr3 _ _ F5)) as (_ & D5 & C5 & _).
    destruct (fr3_ctl _ _ (fr2_fr3 _ _ (fr1_fr2 _ _ F4))) as (_ & D4 & C4 & _). simpl in D4, C4.
    destruct (ab3_fields _ _ Hab) as (Em3 & _).
    set (e_ins := {| e_k := k; e_comps := map (fun c => (c, @None Z)) (mitems final); e_shared := [] |}).
    assert (HI5 : LInv cis s5 hs (al ++ [(k, am_mask a)]) rem' (xput x e_ins)).
    { apply (LInv_activate cis sa s5 hs al rem rem' x k i ai a a3 e_ins HIa Hpk Hp Eh); rewrite ?S5, ?S4, ?N5, ?N4, ?E5, ?E4, ?Sa, ?Na, ?Ea, ?La; try assumption.
      - rewrite L5, upd_length, L4. exact I1.
      - rewrite A5, Ea4. reflexivity.
      - rewrite L5, L4. apply nth_error_upd_same. rewrite L4 in Hlt5. exact Hlt5.
      - intros j Hj Hjl. rewrite L5, L4, nth_error_upd_other by congruence. apply I6. exact Hjl.
      - congruence.
      - congruence.
      - reflexivity.
      - split; [simpl; rewrite map_map, Em3, Hma; simpl; apply map_id|]. split; [reflexivity|].
        simpl. intros c v Hin. apply in_map_iff in Hin. destruct Hin as (c0 & E & _). inversion E; subst. reflexivity. }
    assert (Hin5 : In (k, am_mask a) (al ++ [(k, am_mask a)])) by (apply in_or_app; right; left; reflexivity).
    assert (Ha5 : nth_error (archs s5) ai = Some a3) by (rewrite A5; apply nth_error_upd_same; apply nth_error_Some; congruence).
    assert (Hent5 : nth_error (am_ents a3) (length (am_ents a)) = Some (i, 0%N)) by (rewrite He; apply nth_error_app_last).
    assert (Hloc5 : nth_error (locs s5) (N.to_nat i) = Some {| l_arch := Some ai; l_idx := length (am_ents a) |}).
    { rewrite L5. apply nth_error_upd_same. exact Hlt5. }
    assert (Htl5 : nth_error (tmps s5) tid = Some tl).
    { destruct (fr4_fields _ _ (fr2_fr4 _ _ F5)) as (_ & _ & _ & _ & _ & _ & T5 & _).
      destruct (fr4_fields _ _ (fr1_fr4 _ _ F4)) as (_ & _ & _ & _ & _ & _ & T4 & _). simpl in T4.
      destruct (fr4_fields _ _ If2) as (_ & _ & _ & _ & _ & _ & T2 & _). congruence. }
    assert (Hek' : e_k e' = k) by (apply (findk_key _ _ _ He')).
    destruct (finish_write cis tid tl (i, 0%N) s5 hs _ rem' (xput x e_ins) k (am_mask a) ai a3 (length (am_ents a)) (ACreate (i, 0%N) ha m si_null :: t) e' s' HI5 Hin5 Eh Ha5 Hent5 Hloc5 Htl5)
      as (HI6 & F6); [constructor; [exact I|eapply crel_asg_ok; exact HR]|exact Hek'|rewrite Em3, Hma; exact Hk'|rewrite Hsh', Ee0; reflexivity| |exact H|].
    { intros c v Hcv. specialize (Hvals c v Hcv). simpl last_asg. pose proof (Has c) as Hasc.
      destruct (last_asg tl t c) as [w|]; [exact Hvals|]. rewrite mhas_zero in Hasc. cbn [is_some orb] in Hasc.
      rewrite Ee0, e_comps_mk in Hvals. apply in_default_comps in Hvals. destruct Hvals as (-> & Hc0).
      assert (Hi : In c (mitems (am_mask a))).
      { rewrite Hma, <- Hk'. apply in_map_iff. exists (c, default_cell cis c). auto. }
      apply In_nth_error in Hi. destruct Hi as (ci & Hci).
      unfold acell. rewrite Em3, (nth_cindex _ _ _ Hci).
      destruct (nth_error cis c) as [inf|] eqn:Einf; [|unfold default_cell; rewrite Einf; reflexivity].
      apply (default_cell_ok cis c inf _ Hok Einf). apply (Hdef ci c inf Hci Hasc). congruence. }
    split; [constructor|].
    + eexists. eapply LInv_ext; [exact HI6|simpl; congruence|simpl; congruence|simpl; congruence|].
      intros k'. rewrite !xput_find, Hek'. simpl e_k. destruct (Nat.eqb_spec k' k) as [->|Hne]; [exact He'|].
      rewrite (Hoth k' Hne), Hf1. apply Nat.eqb_neq in Hne. rewrite Hne. reflexivity.
    + exact Hcr'.
    + rewrite (fr3_marked _ _ (fr2_fr3 _ _ (fr1_fr2 _ _ F6))), (fr3_marked _ _ (fr2_fr3 _ _ F5)), (fr3_marked _ _ (fr2_fr3 _ _ (fr1_fr2 _ _ F4))). simpl. exact Hm'.
    + exact Hids.
    + rewrite (fr1_fr4 _ _ F6), (fr2_fr4 _ _ F5), (fr1_fr4 _ _ F4), fr4_set_marked. exact If2.
Qed.

(* an entity with the given component set and indeterminate values: matches any cells *)
Definition blank_ent (k : nat) (m : mask) : ent := {| e_k := k; e_comps := map (fun c => (c, @None Z)) (mitems m); e_shared := [] |}.
Lemma blank_vmatch k m a idx : am_mask a = m -> vmatch (blank_ent k m) a idx.
Proof.
  intros <-. unfold blank_ent. split; [rewrite e_comps_mk; apply map_fst_pair|]. split; [reflexivity|].
  intros c v Hin. rewrite e_comps_mk in Hin. apply in_map_iff in Hin. destruct Hin as (c0 & E & _). inversion E; subst. reflexivity.
Qed.

Lemma loc_arch_some s h ai idx : nth_error (locs s) (N.to_nat (fst h)) = Some {| l_arch := Some ai; l_idx := idx |} -> loc_arch s h = Ok (ai, idx).
Proof. intros H. unfold loc_arch. rewrite (nth_res_some _ _ _ H), bind_Ok. reflexivity. Qed.

(* ---- a pack on an entity that exists already (or a handle that is not alive any more) ---- *)
Lemma F_pack_other cis tid tl s hs x k h c0 t xp rem' s' :
  FInv cis s hs x rem' -> within (length hs) -> nth_error (tmps s) tid = Some tl ->
  k < length hs -> hnd hs k = h ->
  Forall2 (crel cis hs tl) (c0 :: t) xp -> Forall (fun c => cmd_handle c = h) (c0 :: t) -> Forall (fun c => is_create c = false) (c0 :: t) ->
  x_viol (fold_left x_cmd xp x) = x_viol x ->
  apply_pack tid s (c0 :: t) = Ok s' ->
  FInv cis s' hs (fold_left x_cmd xp x) rem' /\ fr4 s' = fr4 s.
Proof.
  intros [(al & HI) Hcr Hmr Hids] Hb Htl Hk Eh HR Hall Hnc Hviol H.
  pose proof HI as [HG Hawf Hdp Hc Hxd Hxc Hcnt Hsl Hal Hv].
  assert (Hc0 : cmd_handle c0 = h) by (inversion Hall; assumption).
  assert (Hc0c : is_create c0 = false) by (inversion Hnc; assumption).
  rewrite (apply_pack_other_eq _ _ _ _ Hc0c), Hc0 in H.
  pose proof (crel_on cis hs tl h k (g_hs_nodup HG) Hk Eh _ _ HR Hall Hnc) as Hon.
  destruct (is_valid s h) eqn:Ev.
  2:{ (* not alive: the pack is skipped and its commands mean nothing *)
      inversion H; subst s'. rewrite <- Eh in Ev. pose proof (dead_find_l _ _ _ _ _ _ _ HI Hk Ev) as Hfd.
      rewrite (x_fold_dead k xp x Hon Hfd). split; [constructor; eauto|reflexivity]. }
  rewrite <- Eh in Ev. destruct (valid_find_l _ _ _ _ _ _ _ HI Ev) as (_ & Ha & _). destruct (alive_in _ _ Ha) as (key & Hin).
  destruct (live_vmatch_l _ _ _ _ _ _ _ _ HI Hin) as (_ & e0 & pai & pidx & pa & Hfe & Hloc & Hpa & Hkey & Hent & Hvm).
  rewrite Eh in Hloc, Hent.
  rewrite (loc_arch_some _ _ _ _ Hloc), bind_Ok in H. simpl fst in H. rewrite (nth_res_some _ _ _ Hpa), bind_Ok in H.
  bd H r Hloop. destruct r as (((s3, final), assigned), fin).
  destruct Hvm as (Hkeys0 & Hsh0 & Hvals0).
  destruct (pack_loop_sim cis hs tl false h k (g_hs_nodup HG) Hk Eh (c0 :: t) xp s (am_mask pa) 0%N s3 final assigned fin x e0 HR Hall Hnc Hxd Hxc Hfe Hkeys0 Hmr Hviol Hloop)
    as (Hsame & m' & Hm' & Hff & Hft).
  set (x' := fold_left x_cmd xp x) in *.
  destruct Hsame as (Fm & Hoth). destruct (xfm_fields _ _ Fm) as (Y1 & Y2 & Y3 & Y4 & Y5 & Y6 & Y7).
  assert (HIm : LInv cis (set_marked s m') hs al rem' x) by (eapply LInv_frame; [| | | | | | |exact HI]; reflexivity).
  destruct fin.
  - (* destroyed by the pack *)
    destruct (Hft eq_refl) as (Hd & Hdead). inversion H; subst s3; clear H. rewrite <- Eh in Hd.
    destruct (LInv_destroy_now cis (set_marked s m') hs al rem' x k s' HIm Hb Hk Hd) as (HI' & F' & M').
    destruct (x_kill_eq x k) as (_ & Hfk).
    split; [constructor|rewrite F'; apply fr4_set_marked].
    + eexists. eapply LInv_ext; [exact HI'| | | |].
      * rewrite Y2. unfold x_kill. destruct (find_ent x k); reflexivity.
      * rewrite Y3. unfold x_kill. destruct (find_ent x k); reflexivity.
      * rewrite Y4. unfold x_kill. destruct (find_ent x k); reflexivity.
      * intros k'. rewrite Hfk. destruct (Nat.eqb_spec k' k) as [->|Hne]; [exact Hdead|apply Hoth; exact Hne].
    + exact Hcr.
    + rewrite M'. exact Hm'.
    + exact Hids.
  - destruct (Hff eq_refl) as (Es3 & e' & He' & Hk' & Hsh' & Has & Hvals). subst s3.
    destruct (awf_nth _ _ _ Hawf Hpa) as (Wsh & _). rewrite Wsh in H.
    bd H ra Hga. destruct ra as (s4, ai). cbv beta iota in H. bd H s5 Hmv.
    destruct (LInv_get_arch cis _ hs al rem' x final s4 ai HIm Hga) as (HI4 & F4 & Hkeep & a_t & Hat & Hmt).
    assert (Hpa4 : nth_error (archs s4) pai = Some pa) by (apply Hkeep; exact Hpa).
    assert (Hloc4 : nth_error (locs s4) (N.to_nat (fst h)) = Some {| l_arch := Some pai; l_idx := pidx |}) by (rewrite (fr1_locs _ _ F4); exact Hloc).
    assert (Htl4 : nth_error (tmps s4) tid = Some tl) by (rewrite (fr1_tmps _ _ F4); exact Htl).
    assert (Hek' : e_k e' = k) by (apply (findk_key _ _ _ He')).
    assert (Hasg : Forall asg_ok (c0 :: t)) by (eapply crel_asg_ok; exact HR).
    assert (Hm4 : marked s4 = m') by (rewrite (fr3_marked _ _ (fr2_fr3 _ _ (fr1_fr2 _ _ F4))); reflexivity).
    assert (Ff4 : fr4 s4 = fr4 s) by (rewrite (fr1_fr4 _ _ F4); apply fr4_set_marked).
    assert (Hextx : forall al5 s6 x5, LInv cis s6 hs al5 rem' (xput x5 e') -> x_deps x5 = [] -> x_cinfos x5 = cis -> x_count x5 = length hs ->
              (forall k', k' <> k -> find_ent x5 k' = find_ent x k') -> exists al6, LInv cis s6 hs al6 rem' x').
    { intros al5 s6 x5 HI6 Z1 Z2 Z3 Z4. exists al5. eapply LInv_ext; [exact HI6|simpl; congruence|simpl; congruence|simpl; congruence|].
      intros k'. rewrite xput_find, Hek'. destruct (Nat.eqb_spec k' k) as [->|Hne]; [exact He'|]. rewrite (Hoth k' Hne), (Z4 k' Hne). reflexivity. }
    destruct (N.eqb_spec (am_mask pa) final) as [Emf|Emf]; simpl negb in Hmv; cbv iota in Hmv.
    + (* the component set is unchanged: the assigned values are written in place *)
      inversion Hmv; subst s5; clear Hmv.
      assert (ai = pai).
      { pose proof (g_arch_keys (li_G _ _ _ _ _ _ HI4)) as Hnd. simpl in Hnd.
        apply (arch_key_index _ ai pai (parch a_t) (parch pa) Hnd); [apply map_nth_error; exact Hat|apply map_nth_error; exact Hpa4|simpl; congruence]. }
      subst ai. rewrite Hpa4 in Hat. inversion Hat; subst a_t.
      destruct (finish_write cis tid tl h s4 hs al rem' x k key pai pa pidx (c0 :: t) e' s' HI4 Hin Eh Hpa4 Hent Hloc4 Htl4 Hasg Hek')
        as (HI6 & F6); [rewrite Emf; exact Hk'|congruence| |exact H|].
      { intros c v Hcv. specialize (Hvals c v Hcv). destruct (last_asg tl (c0 :: t) c); [exact Hvals|]. apply Hvals0. exact Hvals. }
      split; [constructor|rewrite (fr1_fr4 _ _ F6); exact Ff4].
      * apply (Hextx al s' x HI6 Hxd Hxc Hcnt). reflexivity.
      * exact Hcr.
      * rewrite (fr3_marked _ _ (fr2_fr3 _ _ (fr1_fr2 _ _ F6))), Hm4. exact Hm'.
      * exact Hids.
    + (* the entity moves to the archetype of the final component set *)
      rewrite (loc_arch_some _ _ _ _ Hloc4), bind_Ok in Hmv. simpl fst in Hmv. simpl snd in Hmv.
      destruct (Nat.eqb_spec pai ai) as [<-|Hnai].
      { exfalso. rewrite Hpa4 in Hat. inversion Hat; subst a_t. congruence. }
      rewrite <- Eh in Hmv, Hloc4, Hent.
      destruct (LInv_move cis s4 hs al rem' x k key ai a_t pai pidx pa final s5 (blank_ent k final) HI4 Hin eq_refl Hloc4 Hpa4 Hent Hat Hmv)
        as (HI5 & F5 & a2 & Ha2 & Em2 & Hent2 & Hloc2 & Hcopy).
      { intros a2 Em2 _. apply blank_vmatch. congruence. }
      rewrite Eh in Hent2, Hloc2.
      assert (Htl5 : nth_error (tmps s5) tid = Some tl).
      { destruct (fr4_fields _ _ (fr2_fr4 _ _ F5)) as (_ & _ & _ & _ & _ & _ & T5 & _). congruence. }
      destruct (finish_write cis tid tl h s5 hs _ rem' (xput x (blank_ent k final)) k (am_mask a_t) ai a2 (length (am_ents a_t)) (c0 :: t) e' s'
                  HI5 (retag_same _ _ _ _ Hin) Eh Ha2 Hent2 Hloc2 Htl5 Hasg Hek')
        as (HI6 & F6); [rewrite Em2, Hmt; exact Hk'|congruence| |exact H|].
      { intros c v Hcv. specialize (Hvals c v Hcv). destruct (last_asg tl (c0 :: t) c); [exact Hvals|].
        pose proof (Hvals0 c v Hvals) as Hle.
        assert (Hip : In c (mitems (am_mask pa))) by (rewrite <- Hkeys0; apply in_map_iff; exists (c, v); auto).
        assert (Hit : In c (mitems (am_mask a_t))) by (rewrite Hmt, <- Hk'; apply in_map_iff; exists (c, v); auto).
        apply In_nth_error in Hip. destruct Hip as (pci & Hpci). apply In_nth_error in Hit. destruct Hit as (ci & Hci).
        unfold acell in *. rewrite Em2, (nth_cindex _ _ _ Hci). rewrite (nth_cindex _ _ _ Hpci) in Hle.
        rewrite (Hcopy ci c Hci pci (nth_cindex _ _ _ Hpci)). exact Hle. }
      split; [constructor|rewrite (fr1_fr4 _ _ F6), (fr2_fr4 _ _ F5); exact Ff4].
      * apply (Hextx _ s' (xput x (blank_ent k final)) HI6 Hxd Hxc Hcnt). intros k' Hne. rewrite xput_find. simpl e_k.
        apply Nat.eqb_neq in Hne. rewrite Hne. reflexivity.
      * exact Hcr.
      * rewrite (fr3_marked _ _ (fr2_fr3 _ _ (fr1_fr2 _ _ F6))), (fr3_marked _ _ (fr2_fr3 _ _ F5)), Hm4. exact Hm'.
      * exact Hids.
Qed.

(* ---------------------------------------------------------------------------------------- *)
(* in a buffer no command mentions a handle before the command that creates it *)
Definition mcf (b : list acmd) : Prop :=
  forall b1 h ha m sh b2, b = b1 ++ ACreate h ha m sh :: b2 -> forall c, In c b1 -> cmd_handle c <> h.

Lemma mcf_app_l a b : mcf (a ++ b) -> mcf a.
Proof. intros H b1 h ha m sh b2 E c Hin. apply (H b1 h ha m sh (b2 ++ b)); [rewrite E, <- app_assoc; reflexivity|assumption]. Qed.
Lemma mcf_app_r a b : mcf (a ++ b) -> mcf b.
Proof. intros H b1 h ha m sh b2 E c Hin. apply (H (a ++ b1) h ha m sh b2); [rewrite E, <- app_assoc; reflexivity|apply in_or_app; right; assumption]. Qed.

Definition allh (h : handle) (l : list acmd) : Prop := Forall (fun c => cmd_handle c = h) l.

Lemma mcf_tail c0 t h : mcf (c0 :: t) -> allh h (c0 :: t) -> Forall (fun c => is_create c = false) t.
Proof.
  intros Hcf Hall. apply Forall_forall. intros c Hin. destruct c as [h' ha m sh|h'|h'|h' c|h' c n]; try reflexivity. exfalso.
  apply in_split in Hin. destruct Hin as (l1 & l2 & ->).
  apply (Hcf (c0 :: l1) h' ha m sh l2 eq_refl c0); [left; reflexivity|].
  inversion Hall as [|? ? E0 Ht]; subst. apply Forall_app in Ht. destruct Ht as (_ & Ht). inversion Ht; subst. simpl in *. congruence.
Qed.

Lemma handle_null_dec (h : handle) : {h = null_handle} + {h <> null_handle}.
Proof.
  destruct h as [a b]. destruct (N.eq_dec a NULL_ID) as [->|Ha]; [|right; intros E; inversion E; contradiction].
  destruct (N.eq_dec b NULL_VER) as [->|Hb]; [left; reflexivity|right; intros E; inversion E; contradiction].
Qed.

Lemma fold_left_cons {A B} (f : A -> B -> A) b l a : fold_left f (b :: l) a = fold_left f l (f a b).
Proof. reflexivity. Qed.
Lemma xrem_create k m sh l : xrem (XCreate k m sh :: l) = SCreate k m :: xrem l.
Proof. reflexivity. Qed.

(* ---- one pack ---- *)
Lemma F_pack cis tid tl s hs x h p xp rem' s' :
  FInv cis s hs x (xrem xp ++ rem') -> cis_ok cis -> within (length hs) -> nth_error (tmps s) tid = Some tl ->
  p <> [] -> allh h p -> brel cis hs tl p xp -> mcf p ->
  x_viol (fold_left x_cmd xp x) = x_viol x ->
  apply_pack tid s p = Ok s' ->
  FInv cis s' hs (fold_left x_cmd xp x) rem' /\ fr4 s' = fr4 s.
Proof.
  intros HF Hok Hb Htl Hne Hall HB Hcf Hviol H. destruct p as [|c0 t]; [congruence|].
  pose proof HF as [(al & HI) _ _ _]. pose proof (li_G _ _ _ _ _ _ HI) as HG.
  destruct (handle_null_dec h) as [->|Hnn].
  - (* commands through the null handle *)
    assert (Exp : xp = []) by (eapply brel_null; eassumption). subst xp.
    assert (Hc0 : is_create c0 = false) by (inversion HB; assumption).
    assert (Eh0 : cmd_handle c0 = null_handle) by (inversion Hall; assumption).
    rewrite (apply_pack_other_eq _ _ _ _ Hc0), Eh0, is_valid_null_m in H. inversion H; subst s'. split; [exact HF|reflexivity].
  - pose proof (brel_issued cis hs tl h Hnn _ _ Hall HB) as HR.
    inversion HR as [|c' xc0 t' xt Hc0 HRt]; subst c' t' xp.
    destruct (crel_key _ _ _ _ _ Hc0) as (Hk & Eh & Ecr).
    assert (Eh0 : cmd_handle c0 = h) by (inversion Hall; assumption). rewrite Eh0 in Eh.
    pose proof (mcf_tail _ _ _ Hcf Hall) as Hnct.
    assert (Hallt : allh h t) by (inversion Hall; assumption).
    pose proof (crel_on cis hs tl h (xkey xc0) (g_hs_nodup HG) Hk Eh _ _ HRt Hallt Hnct) as Hont.
    assert (Ext : xrem xt = []).
    { apply xrem_nocreate. eapply Forall_impl; [|exact Hont]. simpl. intros a (A & _). exact A. }
    destruct c0 as [h' ha m sh|h'|h'|h' c|h' c n].
    + destruct xc0 as [k m0 sh0|k|k|k c1 v1|k c1]; simpl in Hc0; try contradiction.
      destruct Hc0 as (_ & _ & -> & -> & -> & Eha). simpl in Eh0. subst h'. simpl xkey in *.
      rewrite fold_left_cons in Hviol |- *. rewrite xrem_create, Ext in HF. rewrite <- app_comm_cons, app_nil_l in HF.
      apply (F_pack_create cis tid tl s hs x k m ha si_null h t xt rem' s' HF Hok Htl Hk Eh eq_refl Eha HRt Hallt Hnct Hviol H).
    + assert (Hnc : Forall (fun c => is_create c = false) (ADestroy h' :: t)) by (constructor; [reflexivity|exact Hnct]).
      assert (Exp : xrem (xc0 :: xt) = []).
      { apply xrem_nocreate. constructor; [simpl in Ecr; exact Ecr|]. eapply Forall_impl; [|exact Hont]. simpl. intros a (A & _). exact A. }
      rewrite Exp in HF. simpl app in HF. apply (F_pack_other cis tid tl s hs x (xkey xc0) h _ t _ rem' s' HF Hb Htl Hk Eh HR Hall Hnc Hviol H).
    + assert (Hnc : Forall (fun c => is_create c = false) (ADestroyNow h' :: t)) by (constructor; [reflexivity|exact Hnct]).
      assert (Exp : xrem (xc0 :: xt) = []).
      { apply xrem_nocreate. constructor; [simpl in Ecr; exact Ecr|]. eapply Forall_impl; [|exact Hont]. simpl. intros a (A & _). exact A. }
      rewrite Exp in HF. simpl app in HF. apply (F_pack_other cis tid tl s hs x (xkey xc0) h _ t _ rem' s' HF Hb Htl Hk Eh HR Hall Hnc Hviol H).
    + assert (Hnc : Forall (fun c => is_create c = false) (ARemove h' c :: t)) by (constructor; [reflexivity|exact Hnct]).
      assert (Exp : xrem (xc0 :: xt) = []).
      { apply xrem_nocreate. constructor; [simpl in Ecr; exact Ecr|]. eapply Forall_impl; [|exact Hont]. simpl. intros a (A & _). exact A. }
      rewrite Exp in HF. simpl app in HF. apply (F_pack_other cis tid tl s hs x (xkey xc0) h _ t _ rem' s' HF Hb Htl Hk Eh HR Hall Hnc Hviol H).
    + assert (Hnc : Forall (fun c => is_create c = false) (AAssign h' c n :: t)) by (constructor; [reflexivity|exact Hnct]).
      assert (Exp : xrem (xc0 :: xt) = []).
      { apply xrem_nocreate. constructor; [simpl in Ecr; exact Ecr|]. eapply Forall_impl; [|exact Hont]. simpl. intros a (A & _). exact A. }
      rewrite Exp in HF. simpl app in HF. apply (F_pack_other cis tid tl s hs x (xkey xc0) h _ t _ rem' s' HF Hb Htl Hk Eh HR Hall Hnc Hviol H).
Qed.

(* ---- the packs of one buffer, in log order ---- *)
Lemma F_packs cis tid tl hs : forall ps s x xb rem' s',
  Forall (fun p => p <> [] /\ exists h, allh h p) ps -> mcf (concat ps) -> brel cis hs tl (concat ps) xb ->
  cis_ok cis -> within (length hs) -> nth_error (tmps s) tid = Some tl ->
  FInv cis s hs x (xrem xb ++ rem') -> x_viol (fold_left x_cmd xb x) = x_viol x ->
  fold_res (apply_pack tid) ps s = Ok s' ->
  FInv cis s' hs (fold_left x_cmd xb x) rem' /\ fr4 s' = fr4 s.
Proof.
  induction ps as [|p ps IH]; intros s x xb rem' s' Hu Hcf HB Hok Hb Htl HF Hviol H.
  - simpl in *. inversion H; subst s'. inversion HB; subst xb. simpl in *. split; [exact HF|reflexivity].
  - simpl in H. bd H s1 Hp. inversion Hu as [|p' ps' (Hne & h & Hall) Hu']; subst p' ps'. simpl in Hcf, HB.
    destruct (brel_app_inv _ _ _ _ _ _ HB) as (xp & xr & -> & HBp & HBr).
    rewrite xrem_app, <- app_assoc in HF. destruct (viol_app _ _ _ Hviol) as (V1 & V2). rewrite fold_left_app.
    destruct (F_pack cis tid tl s hs x h p xp (xrem xr ++ rem') s1 HF Hok Hb Htl Hne Hall HBp (mcf_app_l _ _ Hcf) V1 Hp) as (HF1 & F1).
    assert (Htl1 : nth_error (tmps s1) tid = Some tl).
    { destruct (fr4_fields _ _ F1) as (_ & _ & _ & _ & _ & _ & T & _). congruence. }
    destruct (IH s1 _ xr rem' s' Hu' (mcf_app_r _ _ Hcf) HBr Hok Hb Htl1 HF1 V2 H) as (HF2 & F2).
    split; [exact HF2|congruence].
Qed.

Lemma uniform_allh p : p <> [] -> ManagerDeferred.uniform p -> exists h, allh h p.
Proof.
  intros Hne Hu. destruct p as [|c0 t]; [congruence|]. exists (cmd_handle c0). apply Forall_forall. intros c Hin.
  apply ManagerDeferred.handle_eqb_eq. apply Hu; [exact Hin|left; reflexivity].
Qed.

Lemma destroy_tmps_olog tid b s s' : ManagerDeferred.destroy_tmps tid b s = Ok s' -> olog s s'.
Proof.
  unfold ManagerDeferred.destroy_tmps. apply fold_olog. intros st c st' Hc. destruct c; simpl in Hc; try (inversion Hc; apply olog_refl).
  bd Hc inf Hinf. inversion Hc. apply olog_if.
Qed.

(* ---- applyStorage ---- *)
Lemma F_storage cis tid tl hs b s x xb rem' s' :
  mcf b -> brel cis hs tl b xb -> cis_ok cis -> within (length hs) -> nth_error (tmps s) tid = Some tl ->
  FInv cis s hs x (xrem xb ++ rem') -> x_viol (fold_left x_cmd xb x) = x_viol x ->
  apply_storage s (tid, b) = Ok s' ->
  FInv cis s' hs (fold_left x_cmd xb x) rem' /\ fr4 s' = fr4 s.
Proof.
  intros Hcf HB Hok Hb Htl HF Hviol H. rewrite ManagerDeferred.apply_storage_unfold in H. bd H s1 Hp.
  destruct (ManagerDeferred.split_packs_correct b) as (Ec & Hu & _).
  assert (Hu' : Forall (fun p => p <> [] /\ exists h, allh h p) (split_packs b [])).
  { eapply Forall_impl; [|exact Hu]. simpl. intros p (Hne & Hun). split; [exact Hne|apply uniform_allh; assumption]. }
  rewrite <- Ec in Hcf, HB.
  destruct (F_packs cis tid tl hs _ s x xb rem' s1 Hu' Hcf HB Hok Hb Htl HF Hviol Hp) as (HF1 & F1).
  destruct (destroy_tmps_olog _ _ _ _ H) as (Fo & Ao).
  split; [|rewrite (fr1_fr4 _ _ Fo); exact F1].
  destruct HF1 as [(al & HI1) C1 M1 I1]. constructor; [exists al; eapply LInv_fr1; eassumption|exact C1| |exact I1].
  rewrite (fr3_marked _ _ (fr2_fr3 _ _ (fr1_fr2 _ _ Fo))). exact M1.
Qed.

(* ---- all buffers, in thread order ---- *)
Inductive F3 {A B C} (R : A -> B -> C -> Prop) : list A -> list B -> list C -> Prop :=
| F3_nil : F3 R [] [] []
| F3_cons a b c la lb lc : R a b c -> F3 R la lb lc -> F3 R (a :: la) (b :: lb) (c :: lc).

Lemma F_buffers cis hs : forall bs tls xbs n s x s',
  F3 (brel cis hs) tls bs xbs -> Forall mcf bs ->
  (forall j tl, nth_error tls j = Some tl -> nth_error (tmps s) (n + j) = Some tl) ->
  cis_ok cis -> within (length hs) ->
  FInv cis s hs x (xrem (concat xbs)) -> x_viol (fold_left (fun st b => fold_left x_cmd b st) xbs x) = x_viol x ->
  fold_res apply_storage (combine (seq n (length bs)) bs) s = Ok s' ->
  FInv cis s' hs (fold_left (fun st b => fold_left x_cmd b st) xbs x) [] /\ fr4 s' = fr4 s.
Proof.
  induction bs as [|b bs IH]; intros tls xbs n s x s' H3 Hcf Ht Hok Hb HF Hviol H.
  - inversion H3; subst. simpl in *. inversion H; subst s'. split; [exact HF|reflexivity].
  - inversion H3 as [|tl b' xb tls' bs' xbs' HB H3']; subst. inversion Hcf as [|? ? Hcfb Hcfr]; subst.
    cbn [length seq combine fold_res] in H. bd H s1 Hst. cbn [fold_left concat] in HF, Hviol |- *. rewrite xrem_app in HF.
    assert (V : x_viol (fold_left x_cmd xb x) = x_viol x /\
                x_viol (fold_left (fun st b => fold_left x_cmd b st) xbs' (fold_left x_cmd xb x)) = x_viol (fold_left x_cmd xb x)).
    { pose proof (x_viol_fold_le xb x). pose proof (x_viol_bufs_le xbs' (fold_left x_cmd xb x)). lia. }
    destruct V as (V1 & V2).
    assert (Htl : nth_error (tmps s) n = Some tl) by (rewrite <- (Nat.add_0_r n); apply Ht; reflexivity).
    destruct (F_storage cis n tl hs b s x xb _ s1 Hcfb HB Hok Hb Htl HF V1 Hst) as (HF1 & F1).
    destruct (IH tls' xbs' (S n) s1 (fold_left x_cmd xb x) s' H3' Hcfr) as (HF2 & F2); try assumption.
    + intros j tl' Hj. destruct (fr4_fields _ _ F1) as (_ & _ & _ & _ & _ & _ & T & _). rewrite T.
      replace (S n + j) with (n + S j) by lia. apply Ht. exact Hj.
    + split; [exact HF2|congruence].
Qed.
