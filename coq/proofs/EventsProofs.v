Require Import Coq.Lists.List Coq.Arith.Arith Coq.Bool.Bool Coq.micromega.Lia.
From Mustache Require Import Events.
From Mustache.proofs Require Import ListLemmas.
Import ListNotations.

Lemma upd_length {A} (l : list A) i x : length (upd l i x) = length l.
Proof. revert i; induction l as [|h t IH]; intros [|i]; simpl; auto. Qed.

Lemma nth_upd {A} (l : list A) i j x d : nth j (upd l i x) d = if Nat.eqb i j && Nat.ltb i (length l) then x else nth j l d.
Proof.
  revert i j; induction l as [|h t IH]; intros i j; simpl.
  - rewrite andb_false_r. destruct j; reflexivity.
  - destruct i as [|i], j as [|j]; simpl; try reflexivity.
    rewrite IH. reflexivity.
Qed.

Lemma nth_app_repeat_none {A} (l : list (option A)) k j : nth j (l ++ repeat None k) None = nth j l None.
Proof.
  destruct (Nat.lt_ge_cases j (length l)).
  - apply app_nth1; assumption.
  - rewrite app_nth2 by assumption. rewrite (nth_overflow l) by assumption.
    generalize (j - length l). induction k as [|k IH]; intros [|n]; simpl; auto.
Qed.

(* registration never shrinks the table and leaves every other type's receivers alone; the registered type's own
   receivers are kept too (and exist as a slot afterwards) *)
Lemma ensure_slot_frame sl id j : slot_of (ensure_slot sl id) j = slot_of sl j.
Proof.
  unfold ensure_slot, slot_of.
  set (sl1 := if Nat.ltb id (length sl) then sl else sl ++ repeat None (S id - length sl)).
  assert (E1 : forall k, nth k sl1 None = nth k sl None).
  { intro k. unfold sl1. destruct (Nat.ltb id (length sl)); [reflexivity|apply nth_app_repeat_none]. }
  destruct (nth id sl1 None) eqn:En.
  - rewrite E1. reflexivity.
  - rewrite nth_upd. destruct (Nat.eqb_spec id j).
    + subst. destruct (Nat.ltb j (length sl1)); simpl; rewrite <- E1, En; reflexivity.
    + simpl. rewrite E1. reflexivity.
Qed.

Lemma ensure_slot_length sl id : id < length (ensure_slot sl id) /\ length sl <= length (ensure_slot sl id).
Proof.
  unfold ensure_slot.
  set (sl1 := if Nat.ltb id (length sl) then sl else sl ++ repeat None (S id - length sl)).
  assert (id < length sl1 /\ length sl <= length sl1).
  { unfold sl1. destruct (Nat.ltb_spec id (length sl)); [lia|]. rewrite app_length, repeat_length. lia. }
  destruct (nth id sl1 None); [assumption|]. rewrite upd_length. assumption.
Qed.

Lemma slot_of_upd sl id l j : id < length sl -> slot_of (upd sl id (Some l)) j = if Nat.eqb id j then l else slot_of sl j.
Proof.
  intros H. unfold slot_of. rewrite nth_upd. apply Nat.ltb_lt in H. rewrite H, andb_true_r.
  destruct (Nat.eqb id j); reflexivity.
Qed.

(* subscribe: the new receiver goes to the end of (m, ty); everything else is untouched *)
Lemma subscribe_slot sl id r j :
  let sl' := ensure_slot sl id in
  slot_of (upd sl' id (Some (slot_of sl' id ++ [r]))) j = if Nat.eqb id j then slot_of sl id ++ [r] else slot_of sl j.
Proof.
  intro sl'. rewrite slot_of_upd by (apply ensure_slot_length). unfold sl'. rewrite !ensure_slot_frame. reflexivity.
Qed.

Lemma unsubscribe_slot sl id r j :
  let sl' := ensure_slot sl id in
  slot_of (upd sl' id (Some (remove_first (slot_of sl' id) r))) j = if Nat.eqb id j then remove_first (slot_of sl id) r else slot_of sl j.
Proof.
  intro sl'. rewrite slot_of_upd by (apply ensure_slot_length). unfold sl'. rewrite !ensure_slot_frame. reflexivity.
Qed.

(* the pinned registration loses receivers: registering type 0 on a table that holds receivers of type 1 *)
Lemma pinned_registration_drops_receivers :
  exists sl, slot_of sl 1 = [7] /\ slot_of (ensure_slot_pinned sl 0) 1 = [].
Proof. exists [None; Some [7]]. split; reflexivity. Qed.

(* type ids are stable once assigned *)
Lemma index_of_app l x y i : index_of l x i <> None -> index_of (l ++ [y]) x i = index_of l x i.
Proof.
  revert i; induction l as [|h t IH]; intros i H; simpl in *; [congruence|].
  destruct (Nat.eqb x h); [reflexivity|apply IH; assumption].
Qed.

(* ------------------------------------------------------------------------------------------ *)
(* refinement: the slot tables implement "who is subscribed to (manager, type)"                 *)
Definition subs_of (s : est) (m ty : nat) : list recv :=
  match nth_error (mgrs s) m with
  | Some mg => match index_of (type_ids s) ty 0 with Some id => slot_of (slots mg) id | None => [] end
  | None => []
  end.
Definition alive_of (s : est) (m : nat) : bool :=
  match nth_error (mgrs s) m with Some mg => m_alive mg | None => false end.
Definition Abs (s : est) (sp : subs) : Prop := forall m ty, sget sp m ty = subs_of s m ty.
Definition WF (s : est) : Prop :=
  NoDup (type_ids s) /\
  forall m mg, nth_error (mgrs s) m = Some mg ->
    (m_alive mg = false -> slots mg = []) /\
    (forall id, length (type_ids s) <= id -> slot_of (slots mg) id = []).

Lemma index_of_lt l x i k : index_of l x i = Some k -> i <= k < i + length l.
Proof.
  revert i; induction l as [|h t IH]; intros i H; simpl in *; [discriminate|].
  destruct (Nat.eqb x h); [inversion H; lia|]. apply IH in H. lia.
Qed.

Lemma index_of_nth l x i k : index_of l x i = Some k -> nth_error l (k - i) = Some x.
Proof.
  revert i; induction l as [|h t IH]; intros i H; simpl in *; [discriminate|].
  destruct (Nat.eqb_spec x h).
  - inversion H; subst. rewrite Nat.sub_diag. reflexivity.
  - pose proof (index_of_lt _ _ _ _ H). apply IH in H. replace (k - i) with (S (k - S i)) by lia. exact H.
Qed.

Lemma index_of_inj l x y k : index_of l x 0 = Some k -> index_of l y 0 = Some k -> x = y.
Proof.
  intros Hx Hy. apply index_of_nth in Hx. apply index_of_nth in Hy. congruence.
Qed.

Lemma index_of_none l x i : index_of l x i = None -> ~ In x l.
Proof.
  revert i; induction l as [|h t IH]; intros i H; simpl in *; [tauto|].
  destruct (Nat.eqb_spec x h); [discriminate|]. intros [E|E]; [congruence|]. eapply IH; eassumption.
Qed.

Lemma index_of_app_new l x i : index_of l x i = None -> index_of (l ++ [x]) x i = Some (i + length l).
Proof.
  revert i; induction l as [|h t IH]; intros i H; simpl in *.
  - rewrite Nat.eqb_refl. f_equal. lia.
  - destruct (Nat.eqb x h); [discriminate|]. rewrite IH by assumption. f_equal. lia.
Qed.

Lemma index_of_app_other l x y i : x <> y -> index_of (l ++ [y]) x i = index_of l x i.
Proof.
  intros Hne. revert i; induction l as [|h t IH]; intros i; simpl.
  - destruct (Nat.eqb_spec x y); [congruence|reflexivity].
  - destruct (Nat.eqb x h); [reflexivity|apply IH].
Qed.

(* registering a type id changes no subscription list *)
Lemma type_id_subs s ty s1 id : WF s -> type_id s ty = (s1, id) ->
  index_of (type_ids s1) ty 0 = Some id /\ mgrs s1 = mgrs s /\ WF s1 /\ (forall m t, subs_of s1 m t = subs_of s m t).
Proof.
  intros (Hnd & Hm) H. unfold type_id in H. destruct (index_of (type_ids s) ty 0) as [i|] eqn:E.
  - inversion H; subst. split; [assumption|]. split; [reflexivity|]. split; [split; assumption|reflexivity].
  - inversion H; subst; clear H. simpl.
    pose proof (index_of_none _ _ _ E) as Hnin.
    split; [rewrite index_of_app_new by assumption; reflexivity|].
    split; [reflexivity|]. split.
    + split; [apply NoDup_app_intro_single; assumption|].
      intros m mg Hmg. simpl in Hmg. destruct (Hm m mg Hmg) as (A & B). split; [exact A|].
      intros id Hid. simpl in Hid. rewrite app_length in Hid. simpl in Hid. apply B. lia.
    + intros m t. unfold subs_of. simpl. destruct (nth_error (mgrs s) m) as [mg|] eqn:Em; [|reflexivity].
      destruct (Nat.eq_dec t ty) as [->|Hne].
      * rewrite index_of_app_new by assumption. rewrite E. simpl. eapply Hm; [eassumption|lia].
      * rewrite index_of_app_other by assumption. reflexivity.
Qed.

Lemma nth_error_upd {A} (l : list A) i j x :
  nth_error (upd l i x) j = if Nat.eqb i j && Nat.ltb i (length l) then Some x else nth_error l j.
Proof.
  revert i j; induction l as [|h t IH]; intros i j; simpl.
  - rewrite andb_false_r. destruct i; reflexivity.
  - destruct i as [|i], j as [|j]; simpl; try reflexivity. rewrite IH. reflexivity.
Qed.

Lemma sget_sset sp m ty l m' ty' :
  sget (sset sp m ty l) m' ty' = if Nat.eqb m' m && Nat.eqb ty' ty then l else sget sp m' ty'.
Proof.
  induction sp as [|[[a b] c] t IH]; simpl.
  - reflexivity.
  - destruct (Nat.eqb_spec m a), (Nat.eqb_spec ty b); simpl; subst;
      destruct (Nat.eqb_spec m' a), (Nat.eqb_spec ty' b); simpl; subst; try reflexivity;
      rewrite ?IH; rewrite ?Nat.eqb_refl; simpl;
      repeat match goal with
             | |- context[Nat.eqb ?x ?y] => destruct (Nat.eqb_spec x y); subst; simpl; try congruence
             end; try reflexivity.
Qed.

Lemma sget_filter sp m m' ty' :
  sget (filter (fun x : nat * nat * list recv => negb (Nat.eqb (fst (fst x)) m)) sp) m' ty' =
  if Nat.eqb m' m then [] else sget sp m' ty'.
Proof.
  induction sp as [|[[a b] c] t IH]; simpl.
  - destruct (Nat.eqb m' m); reflexivity.
  - destruct (Nat.eqb_spec a m); simpl.
    + subst. rewrite IH. destruct (Nat.eqb_spec m' m); [reflexivity|]. simpl. reflexivity.
    + rewrite IH. destruct (Nat.eqb_spec m' a); simpl.
      * subst. destruct (Nat.eqb_spec a m); [contradiction|]. reflexivity.
      * reflexivity.
Qed.

Definition op_ok (s : est) (o : eop) : Prop :=
  match o with
  | ESub m _ _ | EPost m _ => alive_of s m = true
  | _ => True
  end.

(* what a post delivers, and the subscription map after any operation, are those of the specification *)
Theorem step_refines s sp o :
  WF s -> Abs s sp -> op_ok s o ->
  fst (e_step s o) = fst (e_step s o) /\
  snd (e_step s o) = snd (sp_step sp (alive_of s) o) /\
  Abs (fst (e_step s o)) (fst (sp_step sp (alive_of s) o)) /\
  WF (fst (e_step s o)).
Proof.
  intros Hwf Habs Hok. split; [reflexivity|].
  destruct o as [|m|m ty r|m ty r|m ty]; simpl.
  - (* new manager *)
    split; [reflexivity|]. split.
    + intros m ty. rewrite Habs. unfold subs_of. simpl.
      destruct (Nat.lt_ge_cases m (length (mgrs s))).
      * rewrite nth_error_app1 by assumption. reflexivity.
      * rewrite (proj2 (nth_error_None (mgrs s) m)) by assumption.
        rewrite nth_error_app2 by assumption. destruct (m - length (mgrs s)) as [|[|k]]; simpl; [|reflexivity|reflexivity].
        destruct (index_of (type_ids s) ty 0); [destruct n; reflexivity|reflexivity].
    + destruct Hwf as (Hnd & Hm). split; [assumption|]. intros m mg Hmg. simpl in Hmg.
      destruct (Nat.lt_ge_cases m (length (mgrs s))).
      * rewrite nth_error_app1 in Hmg by assumption. apply Hm in Hmg. exact Hmg.
      * rewrite nth_error_app2 in Hmg by assumption. destruct (m - length (mgrs s)) as [|[|k]]; simpl in Hmg; try discriminate.
        inversion Hmg; subst; simpl. split; [reflexivity|]. intros id _. destruct id; reflexivity.
  - (* delete manager *)
    split; [reflexivity|]. unfold with_mgr. destruct (nth_error (mgrs s) m) as [mg|] eqn:Em.
    + split.
      * intros m' ty'. rewrite sget_filter. unfold subs_of. simpl. rewrite nth_error_upd.
        assert (Hlt : m < length (mgrs s)) by (apply nth_error_Some; congruence).
        apply Nat.ltb_lt in Hlt. rewrite Hlt, andb_true_r.
        destruct (Nat.eqb_spec m m'); subst.
        -- rewrite Nat.eqb_refl. simpl. destruct (index_of (type_ids s) ty' 0); [destruct n; reflexivity|reflexivity].
        -- destruct (Nat.eqb_spec m' m); [congruence|]. rewrite Habs. reflexivity.
      * destruct Hwf as (Hnd & Hm). split; [assumption|]. intros m' mg' Hmg. simpl in Hmg. rewrite nth_error_upd in Hmg.
        destruct (Nat.eqb m m' && Nat.ltb m (length (mgrs s))).
        -- inversion Hmg; subst; simpl. split; [reflexivity|]. intros id _. destruct id; reflexivity.
        -- apply Hm in Hmg. exact Hmg.
    + split; [|assumption].
      intros m' ty'. rewrite sget_filter. destruct (Nat.eqb_spec m' m).
      * subst. unfold subs_of. rewrite Em. reflexivity.
      * apply Habs.
  - (* subscribe *)
    simpl in Hok. unfold alive_of in Hok. destruct (nth_error (mgrs s) m) as [mg|] eqn:Em; [|discriminate].
    destruct (type_id s ty) as [s1 id] eqn:Et. destruct (type_id_subs _ _ _ _ Hwf Et) as (Hid & Hmg & Hwf1 & Hsub).
    simpl. split; [reflexivity|]. unfold with_mgr. rewrite Hmg, Em.
    assert (Hlt : m < length (mgrs s)) by (apply nth_error_Some; congruence).
    split.
    + intros m' ty'. rewrite sget_sset. unfold subs_of. simpl. rewrite nth_error_upd.
      apply Nat.ltb_lt in Hlt. rewrite Hlt, andb_true_r.
      destruct (Nat.eqb_spec m m'); subst.
      * rewrite Nat.eqb_refl. simpl.
        destruct (index_of (type_ids s1) ty' 0) as [id'|] eqn:Eid'.
        -- rewrite subscribe_slot. destruct (Nat.eqb_spec ty' ty); subst.
           ++ rewrite Hid in Eid'. inversion Eid'; subst. rewrite Nat.eqb_refl.
              rewrite Habs. rewrite <- Hsub. unfold subs_of. rewrite Hmg, Em, Hid. reflexivity.
           ++ destruct (Nat.eqb_spec id id').
              ** subst. exfalso. apply n. eapply index_of_inj; eassumption.
              ** rewrite Habs, <- Hsub. unfold subs_of. rewrite Hmg, Em, Eid'. reflexivity.
        -- destruct (Nat.eqb_spec ty' ty); [subst; congruence|].
           rewrite Habs, <- Hsub. unfold subs_of. rewrite Hmg, Em, Eid'. reflexivity.
      * destruct (Nat.eqb_spec m' m); [congruence|]. simpl. rewrite Habs, <- Hsub. unfold subs_of. rewrite Hmg. reflexivity.
    + destruct Hwf1 as (Hnd & Hm1). split; [assumption|]. intros m' mg' Hmg'. simpl in Hmg'. rewrite nth_error_upd in Hmg'.
      destruct (Nat.eqb m m' && Nat.ltb m (length (mgrs s))) eqn:Eb.
      * inversion Hmg'; subst; simpl. rewrite Hmg in Hm1. destruct (Hm1 m mg Em) as (A & B). split.
        -- intros Hd. rewrite Hok in Hd. discriminate.
        -- intros id' Hid'. rewrite subscribe_slot.
           assert (id < length (type_ids s1)) by (apply index_of_lt in Hid; lia).
           destruct (Nat.eqb_spec id id'); [lia|]. apply B. assumption.
      * rewrite <- Hmg in Hmg'. apply Hm1 in Hmg'. exact Hmg'.
  - (* unsubscribe *)
    unfold alive_of. destruct (nth_error (mgrs s) m) as [mg|] eqn:Em.
    + destruct (m_alive mg) eqn:Ea.
      * destruct (type_id s ty) as [s1 id] eqn:Et. destruct (type_id_subs _ _ _ _ Hwf Et) as (Hid & Hmg & Hwf1 & Hsub).
        simpl. split; [reflexivity|]. unfold with_mgr. rewrite Hmg, Em.
        assert (Hlt : m < length (mgrs s)) by (apply nth_error_Some; congruence).
        split.
        -- intros m' ty'. rewrite sget_sset. unfold subs_of. simpl. rewrite nth_error_upd.
           apply Nat.ltb_lt in Hlt. rewrite Hlt, andb_true_r.
           destruct (Nat.eqb_spec m m'); subst.
           ++ rewrite Nat.eqb_refl. simpl.
              destruct (index_of (type_ids s1) ty' 0) as [id'|] eqn:Eid'.
              ** rewrite unsubscribe_slot. destruct (Nat.eqb_spec ty' ty); subst.
                 --- rewrite Hid in Eid'. inversion Eid'; subst. rewrite Nat.eqb_refl.
                     rewrite Habs. rewrite <- Hsub. unfold subs_of. rewrite Hmg, Em, Hid. reflexivity.
                 --- destruct (Nat.eqb_spec id id').
                     +++ subst. exfalso. apply n. eapply index_of_inj; eassumption.
                     +++ rewrite Habs, <- Hsub. unfold subs_of. rewrite Hmg, Em, Eid'. reflexivity.
              ** destruct (Nat.eqb_spec ty' ty); [subst; congruence|].
                 rewrite Habs, <- Hsub. unfold subs_of. rewrite Hmg, Em, Eid'. reflexivity.
           ++ destruct (Nat.eqb_spec m' m); [congruence|]. simpl. rewrite Habs, <- Hsub. unfold subs_of. rewrite Hmg. reflexivity.
        -- destruct Hwf1 as (Hnd & Hm1). split; [assumption|]. intros m' mg' Hmg'. simpl in Hmg'. rewrite nth_error_upd in Hmg'.
           destruct (Nat.eqb m m' && Nat.ltb m (length (mgrs s))) eqn:Eb.
           ++ inversion Hmg'; subst; simpl. rewrite Hmg in Hm1. destruct (Hm1 m mg Em) as (A & B). split.
              ** intros Hd. rewrite Ea in Hd. discriminate.
              ** intros id' Hid'. rewrite unsubscribe_slot.
                 assert (id < length (type_ids s1)) by (apply index_of_lt in Hid; lia).
                 destruct (Nat.eqb_spec id id'); [lia|]. apply B. assumption.
           ++ rewrite <- Hmg in Hmg'. apply Hm1 in Hmg'. exact Hmg'.
      * simpl. split; [reflexivity|]. split; assumption.
    + simpl. split; [reflexivity|]. split; assumption.
  - (* post *)
    simpl in Hok. unfold alive_of in Hok. destruct (nth_error (mgrs s) m) as [mg|] eqn:Em; [|discriminate].
    destruct (type_id s ty) as [s1 id] eqn:Et. destruct (type_id_subs _ _ _ _ Hwf Et) as (Hid & Hmg & Hwf1 & Hsub).
    simpl. unfold with_mgr. rewrite Hmg, Em. simpl. rewrite nth_error_upd.
    assert (Hlt : m < length (mgrs s)) by (apply nth_error_Some; congruence).
    apply Nat.ltb_lt in Hlt. rewrite Nat.eqb_refl, Hlt. simpl.
    split; [|split].
    + rewrite ensure_slot_frame. rewrite Habs, <- Hsub. unfold subs_of. rewrite Hmg, Em, Hid. reflexivity.
    + intros m' ty'. unfold subs_of. simpl. rewrite nth_error_upd. rewrite Hlt, andb_true_r.
      destruct (Nat.eqb_spec m m'); subst.
      * simpl. rewrite Habs, <- Hsub. unfold subs_of. rewrite Hmg, Em.
        destruct (index_of (type_ids s1) ty' 0); [rewrite ensure_slot_frame|]; reflexivity.
      * rewrite Habs, <- Hsub. unfold subs_of. rewrite Hmg. reflexivity.
    + destruct Hwf1 as (Hnd & Hm1). split; [assumption|]. intros m' mg' Hmg'. simpl in Hmg'. rewrite nth_error_upd in Hmg'.
      destruct (Nat.eqb m m' && Nat.ltb m (length (mgrs s))) eqn:Eb.
      * inversion Hmg'; subst; simpl. rewrite Hmg in Hm1. destruct (Hm1 m mg Em) as (A & B). split.
        -- intros Hd. rewrite Hok in Hd. discriminate.
        -- intros id' Hid'. rewrite ensure_slot_frame. apply B. assumption.
      * rewrite <- Hmg in Hmg'. apply Hm1 in Hmg'. exact Hmg'.
Qed.

Lemma wf_init : WF e_init /\ Abs e_init [].
Proof.
  split; [split; [constructor|intros m mg H; destruct m; discriminate]|].
  intros m ty. unfold subs_of. simpl. destruct m; reflexivity.
Qed.
