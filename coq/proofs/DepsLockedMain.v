(* C13 / C05: the refinement theorem for the Manager over the alphabet with lock / unlock and dependency declarations:
   scripts (by DepsLocked.DLR_run), what queries observe at the end, the statement of Refine.v, and the closure of every
   live entity under the table -- in particular after an unlock that applied recorded creations and assignments. *)
Require Import Coq.Lists.List Coq.NArith.NArith Coq.ZArith.ZArith Coq.Arith.Arith Coq.Bool.Bool Coq.micromega.Lia.
From Mustache Require Import Res Manager MgrSpec Refine.
From Mustache Require Skeleton.
From Mustache Require Import SkelSpec.
From Mustache.proofs Require Import ListLemmas SkelBasics SkelInv SkelSteps SkelRefine SkelLocked SkelFlush SkelMove SkelMoveRem SkelMain ClosureProofs
  ManagerBasics ManagerMoves ManagerProj ManagerInv ManagerMain ManagerWorlds ManagerLInv ManagerPack ManagerFlush ManagerLocked ManagerLockedMain
  DepsFrame DepsClosure DepsInv DepsMain DepsTotal DepsAlgebra DepsPack DepsFlush DepsLocked.
Import ListNotations.

(* the relation holds after every script of the alphabet that satisfies the side conditions *)
Theorem locked_deps_run_related typed n cis ops s hs :
  cis_ok cis -> forallb (alphaL_d cis) ops = true -> sched_ok (x_init n cis) ops = true ->
  mrun typed n cis ops = Ok (s, hs) -> x_viol (xrun n cis ops) = 0 -> within (length hs) ->
  DLR cis s hs (xrun n cis ops).
Proof.
  intros Hok Ha Hso Hrun Hviol Hb. unfold mrun in Hrun. unfold xrun in *.
  apply (DLR_run cis typed ops _ _ _ _ _ (DLR_init n cis) Hok Ha Hso eq_refl Hviol Hrun Hb).
Qed.

Theorem locked_deps_refinement typed n cis ops s hs :
  cis_ok cis -> forallb (alphaL_d cis) ops = true -> sched_ok (x_init n cis) ops = true ->
  mrun typed n cis ops = Ok (s, hs) -> x_viol (xrun n cis ops) = 0 -> within (length hs) ->
  length hs = x_count (xrun n cis ops) /\
  forall k,
    match find_ent (xrun n cis ops) k with
    | Some e => exists e', abs_ent s k (nth k hs null_handle) = Some e' /\ ent_match e e' = true
    | None => abs_ent s k (nth k hs null_handle) = None
    end.
Proof.
  intros Hok Ha Hso Hrun Hviol Hb. pose proof (locked_deps_run_related typed n cis ops s hs Hok Ha Hso Hrun Hviol Hb) as HD.
  destruct (lr_inv _ _ _ _ (dr_L _ _ _ _ HD)) as (al & HI).
  split; [symmetry; exact (li_count _ _ _ _ _ _ HI)|]. intros k.
  destruct (find_ent (xrun n cis ops) k) as [e|] eqn:Hfe.
  - rewrite <- abs_ent_nd. apply (LInv_abs_alive _ _ _ _ _ _ _ _ HI). exact Hfe.
  - rewrite <- abs_ent_nd. apply (LInv_abs_dead _ _ _ _ _ _ _ HI). exact Hfe.
Qed.

(* ---- the entity table of the specification never holds two entities with one issue number ---- *)
Lemma xnodup_step cis x o : ManagerLockedMain.xnd x -> alphaL_d cis o = true -> ManagerLockedMain.xnd (x_step x o).
Proof.
  intros H Ha. destruct o; try (apply (xnd_step cis x _ H); simpl in *; exact Ha).
  - apply (xnd_step cis x _ H). simpl in *. apply andb_true_iff in Ha. tauto.
  - unfold x_step. simpl. exact H.
Qed.

Lemma xnodup_run cis : forall ops x, ManagerLockedMain.xnd x -> forallb (alphaL_d cis) ops = true -> ManagerLockedMain.xnd (fold_left x_step ops x).
Proof.
  induction ops as [|o t IH]; intros x H Ha; simpl in *; [exact H|]. apply andb_true_iff in Ha. destruct Ha as (Ho & Ht).
  apply IH; [apply (xnodup_step cis); assumption|exact Ht].
Qed.

(* the statement of Refine.v for the alphabet with lock / unlock and declarations *)
Theorem locked_deps_refines_on typed n cis ops s hs :
  cis_ok cis -> forallb (alphaL_d cis) ops = true -> sched_ok (x_init n cis) ops = true ->
  mrun typed n cis ops = Ok (s, hs) -> x_viol (xrun n cis ops) = 0 -> within (length hs) ->
  refines_on typed n cis ops = true.
Proof.
  intros Hok Ha Hso Hrun Hviol Hb. destruct (locked_deps_refinement typed n cis ops s hs Hok Ha Hso Hrun Hviol Hb) as (Hcnt & Hpt).
  unfold refines_on. rewrite Hrun, Hviol. simpl. unfold worlds_match.
  assert (Hnd : ManagerLockedMain.xnd (xrun n cis ops)) by (apply (xnodup_run cis); [constructor|exact Ha]).
  assert (Hlt : forall e, In e (x_ents (xrun n cis ops)) -> e_k e < x_count (xrun n cis ops)).
  { intros e He. pose proof (findk_nodup _ _ Hnd He) as Hf. specialize (Hpt (e_k e)). unfold find_ent in Hpt. fold (findk (x_ents (xrun n cis ops)) (e_k e)) in Hpt.
    rewrite Hf in Hpt. destruct Hpt as (e' & Habs & _). rewrite <- Hcnt.
    destruct (Nat.lt_ge_cases (e_k e) (length hs)) as [Hk|Hk]; [exact Hk|].
    rewrite nth_overflow in Habs by exact Hk. unfold abs_ent in Habs. rewrite is_valid_null_m in Habs. discriminate. }
  rewrite (sorted_is_ordered_l _ Hnd Hlt), <- Hcnt. apply Forall2_worlds. unfold abs. apply abs_from_match.
  intros j Hj. simpl. apply Hpt.
Qed.

(* ---- every live entity has all direct and transitive dependents of each of its components: at every point of the
   script, in particular after an unlock that applied recorded creations and assignments of masters ---- *)
Theorem locked_deps_entities_closed typed n cis ops s hs :
  cis_ok cis -> forallb (alphaL_d cis) ops = true -> sched_ok (x_init n cis) ops = true ->
  mrun typed n cis ops = Ok (s, hs) -> x_viol (xrun n cis ops) = 0 -> within (length hs) ->
  deps s = x_deps (xrun n cis ops) /\
  forall k e, find_ent (xrun n cis ops) k = Some e ->
  forall c dm, c < MASK_BITS -> dep_find (deps s) c = Some dm -> has_comp (e_comps e) c = true ->
  forall c', mhas dm c' = true -> has_comp (e_comps e) c' = true.
Proof.
  intros Hok Ha Hso Hrun Hviol Hb. pose proof (locked_deps_run_related typed n cis ops s hs Hok Ha Hso Hrun Hviol Hb) as HD.
  generalize dependent (xrun n cis ops). intros X _ HD.
  split; [exact (dr_deps _ _ _ _ HD)|]. intros k e Hfe c dm Hc Hdf Hh c' Hc'.
  destruct (lr_inv _ _ _ _ (dr_L _ _ _ _ HD)) as (al & HI).
  assert (Hak : alive al k) by (apply (li_alive _ _ _ _ _ _ HI); apply alive_x_find; change (find_ent (xnd X) k) with (find_ent X k); congruence).
  destruct (alive_in _ _ Hak) as (key & Hin).
  destruct (live_vmatch_l _ _ _ _ _ _ _ _ HI Hin) as (_ & e0 & ai & idx & a & Hfe0 & _ & _ & Hkey & _ & (Hm & _)).
  change (find_ent (xnd X) k) with (find_ent X k) in Hfe0. rewrite Hfe in Hfe0. inversion Hfe0; subst e0.
  destruct (keys_of_KO _ _ _ _ _ _ HI (dr_ko _ _ _ _ HD) k key Hin) as (Hcl & Hlow).
  assert (Ecm : comp_mask (e_comps e) = key) by (apply comp_mask_keys; [rewrite Hm, Hkey; reflexivity|exact Hlow]).
  rewrite <- comp_mask_has in *. rewrite Ecm in *. apply (Hcl c dm Hc Hdf Hh c' Hc').
Qed.

(* ---------------------------------------------------------------------------------------- *)
(* when no removeComponent is recorded under lock the pack condition holds for free: the declared dependencies hold for
   every creation and assignment made through a deferred command *)
Definition xnorm (xc : xcmd) : Prop := match xc with XRemove _ _ => False | _ => True end.
Definition NR (x : xst) : Prop := Forall (Forall xnorm) (x_bufs x).

Lemma buf_ok_norm d : forall l prev, Forall xnorm l -> buf_ok d prev [] l = true.
Proof.
  induction l as [|xc t IH]; intros prev Hl; [reflexivity|]. inversion Hl as [|? ? Hx Ht]; subst. simpl.
  assert (E : match prev with Some k => if Nat.eqb k (xkey xc) then @nil nat else [] | None => [] end = []) by (destruct prev as [k|]; [destruct (Nat.eqb k (xkey xc))|]; reflexivity).
  rewrite E. destruct xc; simpl in Hx |- *; try contradiction; apply IH; exact Ht.
Qed.

Definition op_ok_nr (x : xst) (o : xop) : bool :=
  match o with
  | XoDep _ _ => Nat.eqb (x_lock x) 0 && ents_closed (x_step x o)
  | XoCreate _ m _ via => Nat.eqb (x_lock x) 0 || negb via || N.eqb (closure (x_deps x) m) m
  | XoRemove _ _ _ _ => Nat.eqb (x_lock x) 0
  | _ => true
  end.
Fixpoint sched_nr (x : xst) (ops : list xop) : bool :=
  match ops with [] => true | o :: t => op_ok_nr x o && sched_nr (x_step x o) t end.

Lemma NR_push x tid xc : NR x -> xnorm xc -> NR (x_push x tid xc).
Proof.
  intros HB Hc. unfold NR, x_push. simpl. apply Forall_upd; [exact HB|]. apply Forall_app. split; [|constructor; [exact Hc|constructor]].
  destruct (nth_in_or_default tid (x_bufs x) []) as [Hin|E]; [exact (proj1 (Forall_forall _ _) HB _ Hin)|rewrite E; constructor].
Qed.
Lemma NR_same x x' : x_bufs x' = x_bufs x -> NR x -> NR x'.
Proof. unfold NR. intros ->. auto. Qed.

Lemma NR_step cis x o : alphaL_d cis o = true -> op_ok_nr x o = true -> NR x -> NR (x_step x o).
Proof.
  intros Ha Hop HB. unfold x_step. destruct (out_of_contract x o); [exact HB|].
  destruct o; simpl in Ha; try discriminate; unfold x_step_in.
  - destruct (x_lock x).
    + eapply NR_same; [|exact HB]. pose proof (xctl_create (xw_count x (S (x_count x))) (x_count x) m (map (fun sid => (sid, 0%Z)) sids)) as E.
      apply xctl_fields in E. destruct E as (_ & E & _). exact E.
    + apply NR_push; [exact HB|exact I].
  - destruct (negb (issued_b x k)); [exact HB|]. destruct (x_lock x); [exact HB|apply NR_push; [exact HB|exact I]].
  - destruct (negb (issued_b x k)); [exact HB|]. destruct (x_lock x); [|apply NR_push; [exact HB|exact I]].
    eapply NR_same; [|exact HB]. apply (xctl_fields _ _ (xctl_kill x k)).
  - eapply NR_same; [|exact HB]. pose proof (xfr_fold_kill (x_marked x) x) as F. apply (f_equal x_bufs) in F. exact F.
  - destruct (x_lock x); [|exact HB]. unfold NR. simpl. apply Forall_resize; [exact HB|constructor].
  - destruct (x_lock (xw_lock x (pred (x_lock x)))); [|exact HB]. unfold NR, x_flush. simpl.
    eapply Forall_impl; [|apply (all_nil_map_nil (x_bufs (fold_left (fun st b => fold_left x_cmd b st) (x_bufs x) (xw_lock x (pred (x_lock x))))))].
    simpl. intros b ->. constructor.
  - destruct (negb (issued_b x k)); [exact HB|]. destruct (x_lock x); [|apply NR_push; [exact HB|exact I]].
    eapply NR_same; [|exact HB]. apply (xctl_fields _ _ (xctl_assign x k c v)).
  - destruct (negb (issued_b x k)); [exact HB|]. simpl in Hop. destruct (x_lock x); [|discriminate].
    eapply NR_same; [|exact HB]. apply (xctl_fields _ _ (xctl_remove x k c)).
  - destruct (find_ent x k) as [e|]; [|exact HB]. destruct (has_comp (e_comps e) c); exact HB.
  - exact HB.
Qed.

Lemma sched_ok_of_nr cis : forall ops x, NR x -> forallb (alphaL_d cis) ops = true -> sched_nr x ops = true -> sched_ok x ops = true.
Proof.
  induction ops as [|o t IH]; intros x HN Ha Hs; [reflexivity|]. simpl in *. apply andb_true_iff in Ha. destruct Ha as (Ho & Ht).
  apply andb_true_iff in Hs. destruct Hs as (Hs1 & Hs2). rewrite (IH _ (NR_step cis x o Ho Hs1 HN) Ht Hs2), andb_true_r.
  destruct o; simpl in Hs1 |- *; try reflexivity; try exact Hs1.
  apply orb_true_iff. right. apply forallb_forall. intros b Hb. apply buf_ok_norm. unfold NR in HN. rewrite Forall_forall in HN. exact (HN b Hb).
Qed.

Theorem no_recorded_removal_refines typed n cis ops s hs :
  cis_ok cis -> forallb (alphaL_d cis) ops = true -> sched_nr (x_init n cis) ops = true ->
  mrun typed n cis ops = Ok (s, hs) -> x_viol (xrun n cis ops) = 0 -> within (length hs) ->
  refines_on typed n cis ops = true.
Proof.
  intros Hok Ha Hs. apply (locked_deps_refines_on typed n cis ops s hs Hok Ha). apply (sched_ok_of_nr cis); [constructor|exact Ha|exact Hs].
Qed.

(* ---------------------------------------------------------------------------------------- *)
(* without declarations every side condition holds: the theorem contains the locked refinement of C05 (for creation
   masks inside the 128 bits) *)
Lemma x_deps_create x k m sh : x_deps (x_create x k m sh) = x_deps x.
Proof. unfold x_create. destruct (widen x k _) as [cs att]. reflexivity. Qed.
Lemma x_deps_kill x k : x_deps (x_kill x k) = x_deps x.
Proof. unfold x_kill. destruct (find_ent x k); reflexivity. Qed.
Lemma x_deps_assign x k c v : x_deps (x_assign x k c v) = x_deps x.
Proof.
  unfold x_assign. destruct (find_ent x k) as [e|]; [|reflexivity]. destruct (has_comp (e_comps e) c); [reflexivity|].
  destruct (widen x k _) as [cs att]. reflexivity.
Qed.
Lemma x_deps_remove x k c : x_deps (x_remove x k c) = x_deps x.
Proof.
  unfold x_remove. destruct (find_ent x k) as [e|]; [|reflexivity]. destruct (negb (has_comp (e_comps e) c)); [reflexivity|].
  destruct (mhas _ c); reflexivity.
Qed.
Lemma x_deps_cmd x c : x_deps (x_cmd x c) = x_deps x.
Proof.
  destruct c.
  - rewrite (x_cmd_create x k m sh). apply x_deps_create.
  - simpl. destruct (alive_x x k); reflexivity.
  - apply x_deps_kill.
  - apply x_deps_assign.
  - apply x_deps_remove.
Qed.
Lemma x_deps_fold : forall l x, x_deps (fold_left x_cmd l x) = x_deps x.
Proof. induction l as [|c t IH]; intros x; simpl; [reflexivity|]. rewrite IH. apply x_deps_cmd. Qed.
Lemma x_deps_bufs : forall l x, x_deps (fold_left (fun st b => fold_left x_cmd b st) l x) = x_deps x.
Proof. induction l as [|b t IH]; intros x; simpl; [reflexivity|]. rewrite IH. apply x_deps_fold. Qed.

Definition not_dep (o : xop) : bool := match o with XoDep _ _ => false | _ => true end.

Lemma x_deps_step_nodep cis x o : alphaL_d cis o = true -> not_dep o = true -> x_deps (x_step x o) = x_deps x.
Proof.
  intros Ha Hn. unfold x_step. destruct (out_of_contract x o); [reflexivity|].
  destruct o; simpl in Ha, Hn; try discriminate; unfold x_step_in.
  - destruct (x_lock x); [rewrite x_deps_create; reflexivity|reflexivity].
  - destruct (negb (issued_b x k)); [reflexivity|]. destruct (x_lock x); reflexivity.
  - destruct (negb (issued_b x k)); [reflexivity|]. destruct (x_lock x); [apply x_deps_kill|reflexivity].
  - pose proof (xfr_fold_kill (x_marked x) x) as F. apply (f_equal x_deps) in F. exact F.
  - destruct (x_lock x); reflexivity.
  - destruct (x_lock (xw_lock x (pred (x_lock x)))); [|reflexivity]. unfold x_flush. simpl. rewrite x_deps_bufs. reflexivity.
  - destruct (negb (issued_b x k)); [reflexivity|]. destruct (x_lock x); [apply x_deps_assign|reflexivity].
  - destruct (negb (issued_b x k)); [reflexivity|]. destruct (x_lock x); [apply x_deps_remove|reflexivity].
  - destruct (find_ent x k) as [e|]; [|reflexivity]. destruct (has_comp (e_comps e) c); reflexivity.
Qed.

Lemma req_nil m y : req [] m y = Nat.eqb y m.
Proof. unfold req. rewrite closure_nil. apply mhas_bit. Qed.

Lemma cmd_ok_nil X xc : cmd_ok [] X xc = true.
Proof.
  destruct xc; try reflexivity; simpl; apply forallb_forall; intros y _; rewrite req_nil; destruct (Nat.eqb y c); reflexivity.
Qed.

Lemma buf_ok_nil : forall l prev X, buf_ok [] prev X l = true.
Proof. induction l as [|xc t IH]; intros prev X; simpl; [reflexivity|]. rewrite cmd_ok_nil. apply IH. Qed.

Lemma sched_ok_nodeps cis : forall ops x, x_deps x = [] -> forallb (alphaL_d cis) ops = true -> forallb not_dep ops = true -> sched_ok x ops = true.
Proof.
  induction ops as [|o t IH]; intros x Hd Ha Hn; [reflexivity|]. simpl in *. apply andb_true_iff in Ha. destruct Ha as (Ho & Ht).
  apply andb_true_iff in Hn. destruct Hn as (Hn1 & Hn2).
  rewrite IH; [|rewrite (x_deps_step_nodep cis x o Ho Hn1); exact Hd|exact Ht|exact Hn2]. rewrite andb_true_r.
  destruct o; simpl in Hn1 |- *; try reflexivity; try discriminate.
  - rewrite Hd, closure_nil, N.eqb_refl. apply orb_true_r.
  - apply orb_true_iff. right. apply forallb_forall. intros b _. rewrite Hd. apply buf_ok_nil.
Qed.

Theorem locked_nodeps_refines_on typed n cis ops s hs :
  cis_ok cis -> forallb (alphaL_d cis) ops = true -> forallb not_dep ops = true ->
  mrun typed n cis ops = Ok (s, hs) -> x_viol (xrun n cis ops) = 0 -> within (length hs) ->
  refines_on typed n cis ops = true.
Proof.
  intros Hok Ha Hn. apply (locked_deps_refines_on typed n cis ops s hs Hok Ha). apply (sched_ok_nodeps cis); [reflexivity|exact Ha|exact Hn].
Qed.
