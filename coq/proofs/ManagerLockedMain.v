(* C05: the refinement theorem for the Manager over the alphabet with lock / unlock: the flush at the outermost unlock
   (flush_faithful), one step (LR_step), scripts (LR_run), and what queries observe at the end (locked_refinement,
   locked_refines_on = the statement of Refine.v). *)
Require Import Coq.Lists.List Coq.NArith.NArith Coq.ZArith.ZArith Coq.Arith.Arith Coq.Bool.Bool Coq.micromega.Lia Coq.Sorting.Permutation.
Require Import Coq.Sorting.Sorted.
From Mustache Require Import Res Manager MgrSpec Refine.
From Mustache Require Skeleton.
From Mustache Require Import SkelSpec.
From Mustache.proofs Require Import ListLemmas SkelBasics SkelInv SkelSteps SkelRefine SkelLocked SkelFlush SkelMove SkelMoveRem SkelMain ClosureProofs
  ManagerBasics ManagerMoves ManagerProj ManagerInv ManagerMain ManagerWorlds ManagerLInv ManagerPack ManagerFlush ManagerLocked.
From Mustache.proofs Require ManagerDeferred.
Import ListNotations.

(* ---- the specification's control fields along a flush ---- *)
Definition xc3 (x : xst) := (x_lock x, x_bufs x, x_nthr x).
Lemma xc3_cmd x c : xc3 (x_cmd x c) = xc3 x.
Proof.
  destruct c; simpl.
  - pose proof (xctl_create x k m sh) as E. unfold xctl in E. inversion E. unfold xc3. congruence.
  - destruct (alive_x x k); reflexivity.
  - pose proof (xctl_kill x k) as E. unfold xctl in E. inversion E. unfold xc3. congruence.
  - pose proof (xctl_assign x k c v) as E. unfold xctl in E. inversion E. unfold xc3. congruence.
  - pose proof (xctl_remove x k c) as E. unfold xctl in E. inversion E. unfold xc3. congruence.
Qed.
Lemma xc3_fold : forall l x, xc3 (fold_left x_cmd l x) = xc3 x.
Proof. induction l as [|c t IH]; intros x; simpl; [reflexivity|]. rewrite IH. apply xc3_cmd. Qed.
Lemma xc3_bufs : forall l x, xc3 (fold_left (fun st b => fold_left x_cmd b st) l x) = xc3 x.
Proof. induction l as [|b t IH]; intros x; simpl; [reflexivity|]. rewrite IH. apply xc3_fold. Qed.

Lemma xrem_map_nil {A} (l : list A) : xrem (concat (map (fun _ => []) l)) = [].
Proof. rewrite (all_nil_concat' _ (all_nil_map_nil l)). reflexivity. Qed.

(* ---------------------------------------------------------------------------------------- *)
(* THE FLUSH: from a related pair of states, the flush of the recorded buffers reaches the state the specification's
   x_flush reaches (every buffer's commands one at a time, buffers in thread order), provided no command of the
   flush leaves the contract *)
Theorem flush_faithful cis s hs x s' :
  LR cis s hs x -> cis_ok cis -> within (length hs) -> x_viol (x_flush (xw_lock x 0)) = x_viol x ->
  flush (set_lock s 0) = Ok s' -> LR cis s' hs (x_flush (xw_lock x 0)).
Proof.
  intros HR Hok Hb Hviol H. pose proof HR as [(al & HI) Hlk Hn H3 Hux Hum Hcr Hmr He Hcf].
  unfold flush in H. bd H s1 Hfold. inversion H; subst s'; clear H.
  change (bufs (set_lock s 0)) with (bufs s) in Hfold.
  set (x1 := xw_lock x 0) in *. unfold x_flush in *. change (x_bufs x1) with (x_bufs x) in *.
  set (xf := fold_left (fun st b => fold_left x_cmd b st) (x_bufs x) x1) in *.
  assert (Hids : forall h, In h hs -> N.to_nat (fst h) < length hs).
  { intros h Hin. destruct (Nat.eq_dec (x_lock x) 0) as [E0|Hne].
    - rewrite (LR_rem_nil _ _ _ _ HR E0) in HI. destruct (In_hnd _ _ Hin) as (k & Hk & <-).
      pose proof (ids_in_range _ hs _ k (li_G _ _ _ _ _ _ HI) Hk) as Hr. simpl in Hr. rewrite map_length in Hr.
      pose proof (li_slots _ _ _ _ _ _ HI) as Hsl. exact (Nat.lt_le_trans _ _ _ Hr Hsl).
    - destruct (He Hne) as (_ & E2 & E3). pose proof (E3 h Hin) as E4. clear - E2 E4. lia. }
  assert (HF : FInv cis (set_lock s 0) hs x1 (xrem (concat (x_bufs x)))).
  { constructor; [|exact Hcr|exact Hmr|exact Hids].
    exists al. eapply LInv_ext; [eapply LInv_frame; [| | | | | | |exact HI]; reflexivity| | | |]; reflexivity. }
  assert (Hv1 : x_viol xf = x_viol x1) by exact Hviol.
  destruct (F_buffers cis hs (bufs s) (tmps s) (x_bufs x) 0 (set_lock s 0) x1 s1 H3 Hcf) as (HF1 & F1); try assumption.
  { intros j tl Hj. exact Hj. }
  fold xf in HF1. destruct HF1 as [(al1 & HI1) _ Hmr1 _].
  pose proof (xc3_bufs (x_bufs x) x1) as Ex. fold xf in Ex. unfold xc3 in Ex. inversion Ex as [[X1 X2 X3]].
  destruct (fr4_fields _ _ F1) as (E1 & _ & _ & _ & E5 & E6 & E7 & _).
  destruct (F3_length _ _ _ _ H3) as (L1 & L2).
  constructor; simpl.
  - exists al1. rewrite xrem_map_nil. eapply LInv_ext; [eapply LInv_frame; [| | | | | | |exact HI1]; reflexivity| | | |]; reflexivity.
  - rewrite E1, X1. reflexivity.
  - rewrite E5, X3. exact Hn.
  - apply brel_nil_all; rewrite ?map_length; [rewrite E7, E6; exact L1|rewrite E6, X2; exact L2|apply all_nil_map_nil|apply all_nil_map_nil].
  - intros _. apply all_nil_map_nil.
  - intros _. apply all_nil_map_nil.
  - rewrite xrem_map_nil. constructor.
  - exact Hmr1.
  - rewrite X1. simpl. intros E. congruence.
  - apply all_nil_mcf. apply all_nil_map_nil.
Qed.

Lemma LR_unlock_flush cis typed s hs x s' hs' :
  LR cis s hs x -> cis_ok cis -> pred (x_lock x) = 0 -> within (length hs) ->
  x_viol (x_step x XoUnlock) = x_viol x ->
  mstep typed (s, hs) XoUnlock = Ok (s', hs') -> hs' = hs /\ LR cis s' hs (x_step x XoUnlock).
Proof.
  intros HR Hok Hp Hb Hv H. unfold mstep in H. cbn [concretize] in H. bd H r Hst. destruct r as (s1, out).
  unfold step in Hst. bd Hst r Hd. inversion Hst; subst r; clear Hst. unfold do_unlock in Hd. cbn [lockc set_lock] in Hd.
  rewrite (lr_lock _ _ _ _ HR), Hp in Hd. bd Hd s2 Hfl. inversion Hd; subst s1 out; clear Hd. inversion H; subst s' hs'; clear H.
  split; [reflexivity|].
  assert (Ex : x_step x XoUnlock = x_flush (xw_lock x 0)).
  { unfold x_step. simpl out_of_contract. cbv iota. unfold x_step_in. rewrite Hp. reflexivity. }
  rewrite Ex in *.
  pose proof (flush_faithful cis s hs x s2 HR Hok Hb Hv Hfl) as HR2.
  destruct HR2 as [(al & HI) Hlk Hn H3 Hux Hum Hcr Hmr He Hcf]. constructor; try assumption. exists al. apply LInv_set_log. exact HI.
Qed.

(* ---------------------------------------------------------------------------------------- *)
(* the alphabet: the C02 operations (creation without shared ids, destroyNow, assign, removeComponent, write through
   getComponent<T>), destroy(), update(), lock(), unlock(); no dependencies, no shared components *)
Definition alphaL_b (cis : list cinfo) (o : xop) : bool :=
  match o with
  | XoCreate _ _ sids _ => match sids with [] => true | _ => false end
  | XoDestroy _ _ | XoDestroyNow _ _ | XoUpdate | XoLock | XoUnlock => true
  | XoAssign _ _ c v =>
    Nat.ltb c MASK_BITS &&
    match v with None => true | Some _ => match nth_error cis c with Some inf => ci_hasval inf | None => true end end
  | XoRemove _ _ c _ => Nat.ltb c MASK_BITS
  | XoSet _ c _ => Nat.ltb c MASK_BITS
  | _ => false
  end.

Lemma x_viol_stepL_mono cis x o : alphaL_b cis o = true -> x_viol x <= x_viol (x_step x o).
Proof.
  intros Ha. unfold x_step. destruct (out_of_contract x o); [simpl; lia|].
  destruct o; simpl in Ha; try discriminate; unfold x_step_in.
  - destruct (x_lock x); [rewrite x_viol_create|rewrite x_viol_push]; simpl; lia.
  - destruct (negb (issued_b x k)); [lia|]. destruct (x_lock x); [simpl; lia|rewrite x_viol_push; lia].
  - destruct (negb (issued_b x k)); [lia|]. destruct (x_lock x); [rewrite x_viol_kill|rewrite x_viol_push]; lia.
  - pose proof (xfr_fold_kill (x_marked x) x) as E. apply (f_equal x_viol) in E. simpl in E |- *. lia.
  - destruct (x_lock x); simpl; lia.
  - destruct (x_lock (xw_lock x (pred (x_lock x)))); [|simpl; lia]. unfold x_flush.
    pose proof (x_viol_bufs_le (x_bufs (xw_lock x (pred (x_lock x)))) (xw_lock x (pred (x_lock x)))) as E. simpl in E |- *. lia.
  - destruct (negb (issued_b x k)); [lia|]. destruct (x_lock x); [apply x_viol_assign|rewrite x_viol_push; lia].
  - destruct (negb (issued_b x k)); [lia|]. destruct (x_lock x); [rewrite x_viol_remove|rewrite x_viol_push]; lia.
  - destruct (find_ent x k) as [e|]; [|lia]. destruct (has_comp (e_comps e) c); simpl; lia.
Qed.

Lemma x_viol_runL_mono cis : forall ops x, forallb (alphaL_b cis) ops = true -> x_viol x <= x_viol (fold_left x_step ops x).
Proof.
  induction ops as [|o t IH]; intros x Ha; simpl in *; [lia|]. apply andb_true_iff in Ha. destruct Ha as (Ho & Ht).
  pose proof (x_viol_stepL_mono cis x o Ho). pose proof (IH (x_step x o) Ht). lia.
Qed.

(* ---- one step ---- *)
Lemma LR_step cis typed s hs x o s' hs' :
  LR cis s hs x -> cis_ok cis -> alphaL_b cis o = true -> x_viol x = 0 -> x_viol (x_step x o) = 0 ->
  mstep typed (s, hs) o = Ok (s', hs') -> within (length hs') -> LR cis s' hs' (x_step x o).
Proof.
  intros HR Hok Ha Hv0 Hv1 H Hb.
  assert (Hb0 : within (length hs)) by (eapply within_le; [eapply mstep_mono; exact H|exact Hb]).
  assert (Hve : x_viol (x_step x o) = x_viol x) by congruence.
  destruct (x_lock x) as [|n] eqn:El.
  - (* not locked *)
    destruct o; simpl in Ha; try discriminate.
    + eapply LR_unlocked_c02; eassumption.
    + destruct (LR_destroy_unlocked cis typed s hs x tid k s' hs' HR El H) as (-> & HR'). exact HR'.
    + eapply LR_unlocked_c02; eassumption.
    + destruct (LR_update cis typed s hs x s' hs' HR El Hb0 H) as (-> & HR'). exact HR'.
    + destruct (LR_lock cis typed s hs x s' hs' HR H) as (-> & HR'). exact HR'.
    + destruct (LR_unlock_flush cis typed s hs x s' hs' HR Hok) as (-> & HR'); try assumption. rewrite El. reflexivity.
    + eapply LR_unlocked_c02; eassumption.
    + eapply LR_unlocked_c02; eassumption.
    + apply Nat.ltb_lt in Ha. destruct (LR_set cis typed s hs x k c v s' hs' HR Ha H) as (-> & HR'). exact HR'.
  - (* locked *)
    destruct o; simpl in Ha; try discriminate.
    + destruct sids; [|discriminate]. eapply LR_create_locked; eassumption.
    + destruct (LR_destroy_locked cis typed s hs x tid k s' hs' n HR El Hve H) as (-> & HR'). exact HR'.
    + destruct (LR_destroy_now_locked cis typed s hs x tid k s' hs' n HR El Hve H) as (-> & HR'). exact HR'.
    + exfalso. unfold x_step in Hv1. simpl out_of_contract in Hv1. rewrite El in Hv1. simpl in Hv1. lia.
    + destruct (LR_lock cis typed s hs x s' hs' HR H) as (-> & HR'). exact HR'.
    + destruct n as [|n].
      * destruct (LR_unlock_flush cis typed s hs x s' hs' HR Hok) as (-> & HR'); try assumption. rewrite El. reflexivity.
      * destruct (LR_unlock_nested cis typed s hs x s' hs' n HR El H) as (-> & HR'). exact HR'.
    + apply andb_true_iff in Ha. destruct Ha as (Hc & Hhv). apply Nat.ltb_lt in Hc.
      destruct (LR_assign_locked cis typed s hs x tid k c v s' hs' n HR El Hc) as (-> & HR'); try assumption.
      intros z inf -> Hinf. rewrite Hinf in Hhv. exact Hhv.
    + apply Nat.ltb_lt in Ha. destruct (LR_remove_locked cis typed s hs x tid k c typed0 s' hs' n HR El Ha Hve H) as (-> & HR'). exact HR'.
    + apply Nat.ltb_lt in Ha. destruct (LR_set cis typed s hs x k c v s' hs' HR Ha H) as (-> & HR'). exact HR'.
Qed.

Lemma LR_run cis typed : forall ops s hs x s' hs',
  LR cis s hs x -> cis_ok cis -> forallb (alphaL_b cis) ops = true -> x_viol x = 0 ->
  x_viol (fold_left x_step ops x) = 0 ->
  fold_res (mstep typed) ops (s, hs) = Ok (s', hs') -> within (length hs') ->
  LR cis s' hs' (fold_left x_step ops x).
Proof.
  induction ops as [|o t IH]; intros s hs x s' hs' HR Hok Ha Hv0 Hv1 H Hb; simpl in *.
  - inversion H; subst. exact HR.
  - apply andb_true_iff in Ha. destruct Ha as (Ho & Ht). bd H r H1. destruct r as (s1, hs1).
    assert (Hv1' : x_viol (x_step x o) = 0).
    { pose proof (x_viol_runL_mono cis t (x_step x o) Ht). lia. }
    assert (HR1 : LR cis s1 hs1 (x_step x o)).
    { apply (LR_step cis typed s hs x o s1 hs1 HR Hok Ho Hv0 Hv1' H1). eapply within_le; [|exact Hb]. eapply mrun_mono. exact H. }
    apply (IH s1 hs1 (x_step x o) s' hs' HR1 Hok Ht Hv1' Hv1 H Hb).
Qed.

Lemma LR_init n cis : LR cis (init n cis) [] (x_init n cis).
Proof.
  constructor; simpl.
  - exists []. apply LInv_of_MInv. apply MInv_init.
  - reflexivity.
  - reflexivity.
  - constructor.
  - intros _. constructor.
  - intros _. constructor.
  - constructor.
  - split; [intros h []|]. split; [intros k []|]. intros k Hk. inversion Hk.
  - intros E. congruence.
  - constructor.
Qed.

(* ---------------------------------------------------------------------------------------- *)
(* what queries observe *)
Lemma LInv_abs_alive cis s hs al rem x k e : LInv cis s hs al rem x -> find_ent x k = Some e ->
  exists e', abs_ent s k (hnd hs k) = Some e' /\ ent_match e e' = true.
Proof.
  intros HI Hfe. assert (Ha : alive al k) by (apply (li_alive _ _ _ _ _ _ HI); apply alive_x_find; congruence).
  destruct (alive_in _ _ Ha) as (key & Hin).
  destruct (live_vmatch_l _ _ _ _ _ _ _ _ HI Hin) as (Hk & e0 & ai & idx & a & Hfe0 & Hloc & Harch & Hkey & Hent & Hm & Hs & Hv).
  rewrite Hfe in Hfe0. inversion Hfe0; subst e0.
  assert (Ev : is_valid s (hnd hs k) = true) by (apply (valid_l _ _ _ _ _ (li_G _ _ _ _ _ _ HI) Hk); exact Ha).
  destruct (awf_nth _ _ _ (li_awf _ _ _ _ _ _ HI) Harch) as (Wsh & _).
  unfold abs_ent. rewrite Ev, Hloc. simpl l_arch. cbv iota. rewrite Harch. simpl l_idx. rewrite Wsh. simpl combine. simpl sort_shared.
  eexists. split; [reflexivity|]. unfold ent_match. simpl.
  rewrite (findk_key _ _ _ Hfe), Nat.eqb_refl, Hs. simpl. rewrite andb_true_r.
  rewrite abs_comps_acell. apply comps_match_ok; [exact Hm|exact Hv].
Qed.

Lemma LInv_abs_dead cis s hs al rem x k : LInv cis s hs al rem x -> find_ent x k = None -> abs_ent s k (hnd hs k) = None.
Proof.
  intros HI Hfe. unfold abs_ent. destruct (is_valid s (hnd hs k)) eqn:Ev; [|reflexivity].
  destruct (valid_find_l _ _ _ _ _ _ _ HI Ev) as (_ & _ & e & He). congruence.
Qed.

Theorem locked_refinement typed n cis ops s hs :
  cis_ok cis -> forallb (alphaL_b cis) ops = true ->
  mrun typed n cis ops = Ok (s, hs) -> x_viol (xrun n cis ops) = 0 -> within (length hs) ->
  length hs = x_count (xrun n cis ops) /\
  forall k,
    match find_ent (xrun n cis ops) k with
    | Some e => exists e', abs_ent s k (nth k hs null_handle) = Some e' /\ ent_match e e' = true
    | None => abs_ent s k (nth k hs null_handle) = None
    end.
Proof.
  intros Hok Ha Hrun Hviol Hb. unfold mrun in Hrun. unfold xrun in *.
  pose proof (LR_run cis typed ops _ _ _ _ _ (LR_init n cis) Hok Ha eq_refl Hviol Hrun Hb) as HR.
  destruct (lr_inv _ _ _ _ HR) as (al & HI).
  split; [symmetry; apply (li_count _ _ _ _ _ _ HI)|]. intros k.
  destruct (find_ent (fold_left x_step ops (x_init n cis)) k) as [e|] eqn:Hfe.
  - apply (LInv_abs_alive _ _ _ _ _ _ _ _ HI Hfe).
  - apply (LInv_abs_dead _ _ _ _ _ _ _ HI Hfe).
Qed.

(* ---- the entity table of the specification never holds two entities with one issue number ---- *)
Definition xnd (x : xst) : Prop := NoDup (map e_k (x_ents x)).

Lemma xnd_create x k m sh : xnd x -> xnd (x_create x k m sh).
Proof. intros H. unfold x_create. destruct (widen x k _) as [cs att]. unfold xnd. simpl. apply put_ent_nodup. exact H. Qed.
Lemma xnd_kill x k : xnd x -> xnd (x_kill x k).
Proof. intros H. unfold x_kill. destruct (find_ent x k); [|exact H]. unfold xnd. simpl. rewrite drop_ent_keys. apply NoDup_filter. exact H. Qed.
Lemma xnd_assign x k c v : xnd x -> xnd (x_assign x k c v).
Proof.
  intros H. unfold x_assign. destruct (find_ent x k) as [e|]; [|exact H]. destruct (has_comp (e_comps e) c); [exact H|].
  destruct (widen x k _) as [cs att]. unfold xnd. simpl. apply put_ent_nodup. exact H.
Qed.
Lemma xnd_remove x k c : xnd x -> xnd (x_remove x k c).
Proof.
  intros H. unfold x_remove. destruct (find_ent x k) as [e|]; [|exact H]. destruct (negb (has_comp (e_comps e) c)); [exact H|].
  destruct (mhas _ c); [exact H|]. unfold xnd. simpl. apply put_ent_nodup. exact H.
Qed.
Lemma xnd_cmd x c : xnd x -> xnd (x_cmd x c).
Proof.
  intros H. destruct c; simpl; [apply xnd_create|destruct (alive_x x k)|apply xnd_kill|apply xnd_assign|apply xnd_remove]; exact H.
Qed.
Lemma xnd_fold : forall l x, xnd x -> xnd (fold_left x_cmd l x).
Proof. induction l as [|c t IH]; intros x H; simpl; [exact H|]. apply IH. apply xnd_cmd. exact H. Qed.
Lemma xnd_bufs : forall l x, xnd x -> xnd (fold_left (fun st b => fold_left x_cmd b st) l x).
Proof. induction l as [|b t IH]; intros x H; simpl; [exact H|]. apply IH. apply xnd_fold. exact H. Qed.
Lemma xnd_kills : forall l x, xnd x -> xnd (fold_left x_kill l x).
Proof. induction l as [|k t IH]; intros x H; simpl; [exact H|]. apply IH. apply xnd_kill. exact H. Qed.

Lemma xnd_step cis x o : xnd x -> alphaL_b cis o = true -> xnd (x_step x o).
Proof.
  intros H Ha. unfold x_step. destruct (out_of_contract x o); [exact H|].
  destruct o; simpl in Ha; try discriminate; unfold x_step_in.
  - destruct (x_lock x); [apply xnd_create|]; exact H.
  - destruct (negb (issued_b x k)); [exact H|]. destruct (x_lock x); exact H.
  - destruct (negb (issued_b x k)); [exact H|]. destruct (x_lock x); [apply xnd_kill|]; exact H.
  - apply (xnd_kills (x_marked x) x H).
  - destruct (x_lock x); exact H.
  - destruct (x_lock (xw_lock x (pred (x_lock x)))); [|exact H]. unfold x_flush.
    exact (xnd_bufs (x_bufs (xw_lock x (pred (x_lock x)))) (xw_lock x (pred (x_lock x))) H).
  - destruct (negb (issued_b x k)); [exact H|]. destruct (x_lock x); [apply xnd_assign|]; exact H.
  - destruct (negb (issued_b x k)); [exact H|]. destruct (x_lock x); [apply xnd_remove|]; exact H.
  - destruct (find_ent x k) as [e|]; [|exact H]. destruct (has_comp (e_comps e) c); [|exact H]. unfold xnd. simpl. apply put_ent_nodup. exact H.
Qed.

Lemma xnd_run cis : forall ops x, xnd x -> forallb (alphaL_b cis) ops = true -> xnd (fold_left x_step ops x).
Proof.
  induction ops as [|o t IH]; intros x H Ha; simpl in *; [exact H|]. apply andb_true_iff in Ha. destruct Ha as (Ho & Ht).
  apply IH; [apply (xnd_step cis); assumption|exact Ht].
Qed.

Lemma sorted_is_ordered_l x : xnd x -> (forall e, In e (x_ents x) -> e_k e < x_count x) ->
  sort_ents (x_ents x) = ordered_from x 0 (x_count x).
Proof.
  intros Hnd Hlt. destruct (sort_ents_spec _ Hnd) as (S & M).
  apply SS_unique; [exact S|apply ordered_SS|]. intros e. rewrite M, ordered_in. split.
  - intros He. exists (e_k e). split; [pose proof (Hlt e He); lia|]. apply findk_nodup; assumption.
  - intros (k & _ & Hf). unfold find_ent in Hf. apply find_some in Hf. tauto.
Qed.

(* the statement of Refine.v for the alphabet with lock / unlock *)
Theorem locked_refines_on typed n cis ops s hs :
  cis_ok cis -> forallb (alphaL_b cis) ops = true ->
  mrun typed n cis ops = Ok (s, hs) -> x_viol (xrun n cis ops) = 0 -> within (length hs) ->
  refines_on typed n cis ops = true.
Proof.
  intros Hok Ha Hrun Hviol Hb. destruct (locked_refinement typed n cis ops s hs Hok Ha Hrun Hviol Hb) as (Hcnt & Hpt).
  unfold refines_on. rewrite Hrun, Hviol. simpl. unfold worlds_match.
  assert (Hnd : xnd (xrun n cis ops)) by (apply (xnd_run cis); [constructor|exact Ha]).
  assert (Hlt : forall e, In e (x_ents (xrun n cis ops)) -> e_k e < x_count (xrun n cis ops)).
  { intros e He. pose proof (findk_nodup _ _ Hnd He) as Hf. specialize (Hpt (e_k e)). unfold find_ent in Hpt. fold (findk (x_ents (xrun n cis ops)) (e_k e)) in Hpt.
    rewrite Hf in Hpt. destruct Hpt as (e' & Habs & _). rewrite <- Hcnt.
    destruct (Nat.lt_ge_cases (e_k e) (length hs)) as [Hk|Hk]; [exact Hk|].
    rewrite nth_overflow in Habs by exact Hk. unfold abs_ent in Habs. rewrite is_valid_null_m in Habs. discriminate. }
  rewrite (sorted_is_ordered_l _ Hnd Hlt), <- Hcnt. apply Forall2_worlds. unfold abs. apply abs_from_match.
  intros j Hj. simpl. apply Hpt.
Qed.

(* the relation holds after every script of the alphabet (the theorems above read the world off it) *)
Theorem locked_run_related typed n cis ops s hs :
  cis_ok cis -> forallb (alphaL_b cis) ops = true ->
  mrun typed n cis ops = Ok (s, hs) -> x_viol (xrun n cis ops) = 0 -> within (length hs) ->
  LR cis s hs (xrun n cis ops).
Proof.
  intros Hok Ha Hrun Hviol Hb. unfold mrun in Hrun. unfold xrun in *.
  apply (LR_run cis typed ops _ _ _ _ _ (LR_init n cis) Hok Ha eq_refl Hviol Hrun Hb).
Qed.

(* from the relation to the invariant the flush starts from *)
Lemma LR_FInv cis s hs x : LR cis s hs x -> FInv cis (set_lock s 0) hs (xw_lock x 0) (xrem (concat (x_bufs x))).
Proof.
  intros HR. pose proof HR as [(al & HI) Hlk Hn H3 Hux Hum Hcr Hmr He Hcf].
  constructor; [|exact Hcr|exact Hmr|].
  - exists al. eapply LInv_ext; [eapply LInv_frame; [| | | | | | |exact HI]; reflexivity| | | |]; reflexivity.
  - intros h Hin. destruct (Nat.eq_dec (x_lock x) 0) as [E0|Hne].
    + rewrite (LR_rem_nil _ _ _ _ HR E0) in HI. destruct (In_hnd _ _ Hin) as (k & Hk & <-).
      pose proof (ids_in_range _ hs _ k (li_G _ _ _ _ _ _ HI) Hk) as Hr. simpl in Hr. rewrite map_length in Hr.
      pose proof (li_slots _ _ _ _ _ _ HI) as Hsl. exact (Nat.lt_le_trans _ _ _ Hr Hsl).
    + destruct (He Hne) as (_ & E2 & E3). pose proof (E3 h Hin) as E4. clear - E2 E4. lia.
Qed.

(* the alphabet of C02 is part of this one *)
Lemma alpha_b_alphaL cis o : alpha_b cis o = true -> alphaL_b cis o = true.
Proof. destruct o; simpl; auto. Qed.
