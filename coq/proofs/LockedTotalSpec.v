(* C05 / C02: the contract of LockedTotalMain.v (pack_ar at every flush) read off the SPECIFICATION's buffers -- no run of
   the model needed -- and the totality / refinement theorems with that contract.

   Two decidable script-level conditions:
   (E) xare_script, the exact one: (i) every handle used while locked has been issued (xiss_guard: a command through a
       handle the script has not been given yet is recorded by the implementation through the null handle and SPLITS the
       pack of the commands around it -- see the example C05_unissued_handle_splits_pack in Properties_C05.v), and
       (ii) at every unlock that flushes, in every maximal run of one buffer's commands on one issue number (xsplit: then
       exactly the packs of the model), every component that is assigned is assigned by the last command of the run
       that names it (xar_ok), unless the run destroys its entity at once (xhas_dnow).
   (P) xar_script, plain and without (i): in no run a component is assigned and removed afterwards (closed under
       splitting, hence sound whatever the null handle does). *)
Require Import Coq.Lists.List Coq.NArith.NArith Coq.ZArith.ZArith Coq.Arith.Arith Coq.Bool.Bool Coq.micromega.Lia.
From Mustache Require Import Res Manager MgrSpec Refine.
From Mustache Require Skeleton.
From Mustache Require Import SkelSpec.
From Mustache.proofs Require Import ListLemmas SkelBasics SkelInv SkelSteps SkelRefine SkelLocked SkelFlush SkelMove SkelMoveRem SkelMain ClosureProofs
  ManagerBasics ManagerMoves ManagerProj ManagerInv ManagerMain ManagerWorlds ManagerTotal ManagerLInv ManagerPack ManagerFlush ManagerLocked
  ManagerLockedMain LockedTotalPack LockedTotalFlush LockedTotalMain.
From Mustache.proofs Require ManagerDeferred.
Import ListNotations.

Lemma existsb_eqb_in' c l : existsb (Nat.eqb c) l = true <-> In c l.
Proof.
  rewrite existsb_exists. split; [intros (y & Hin & E); apply Nat.eqb_eq in E; subst; exact Hin|].
  intros Hin. exists c. split; [exact Hin|apply Nat.eqb_refl].
Qed.

(* ======================================================================================== *)
(* (P) the plain contract                                                                    *)
Fixpoint ap_ok (assigned : list nat) (p : list acmd) : bool :=
  match p with
  | [] => true
  | AAssign _ c _ :: t => ap_ok (c :: assigned) t
  | ARemove _ c :: t => negb (existsb (Nat.eqb c) assigned) && ap_ok assigned t
  | _ :: t => ap_ok assigned t
  end.

Definition pack_ap (p : list acmd) : bool :=
  match p with [] => true | c0 :: _ => is_null (cmd_handle c0) || ap_ok [] p end.

(* it implies the exact one *)
Lemma ap_touch : forall p A, ap_ok A p = true -> forall c, In c A -> touch c p <> Some false.
Proof.
  induction p as [|c0 t IH]; intros A H c Hc; [discriminate|].
  destruct c0 as [h0 ha m0 sh0|h0|h0|h0 c'|h0 c' n']; simpl in H |- *; try (apply (IH A H c Hc)).
  - apply andb_true_iff in H. destruct H as (H1 & H2). pose proof (IH A H2 c Hc) as Ht.
    destruct (touch c t) as [b|]; [exact Ht|]. destruct (Nat.eqb_spec c c') as [->|_]; [|discriminate].
    apply negb_true_iff in H1. apply existsb_eqb_in' in Hc. congruence.
  - pose proof (IH (c' :: A) H c (or_intror Hc)) as Ht. destruct (touch c t) as [b|]; [exact Ht|]. destruct (Nat.eqb c c'); discriminate.
Qed.

Lemma ap_ar : forall p A, ap_ok A p = true -> ar_ok p = true.
Proof.
  induction p as [|c0 t IH]; intros A H; [reflexivity|].
  destruct c0 as [h0 ha m0 sh0|h0|h0|h0 c'|h0 c' n']; simpl in H |- *; try (apply (IH A H)).
  - apply andb_true_iff in H. destruct H as (_ & H2). apply (IH A H2).
  - apply andb_true_iff. split; [|apply (IH _ H)].
    pose proof (ap_touch t (c' :: A) H c' (or_introl eq_refl)) as Ht. destruct (touch c' t) as [[|]|]; [reflexivity|congruence|reflexivity].
Qed.

Lemma pack_ap_ar p : pack_ap p = true -> pack_ar p = true.
Proof.
  destruct p as [|c0 t]; [reflexivity|]. unfold pack_ap, pack_ar. intros H. apply orb_true_iff in H. destruct H as [H|H].
  - rewrite H. reflexivity.
  - rewrite (ap_ar _ _ H). rewrite !orb_true_r. reflexivity.
Qed.

(* the check on a buffer of the specification: a run of commands on one issue number is at least as long as the packs
   of the model (commands through the null handle are not recorded by the specification and split the model's packs) *)
Fixpoint xap (cur : option nat) (assigned : list nat) (b : list xcmd) : bool :=
  match b with
  | [] => true
  | xc :: t =>
    let k := xkey xc in
    let A := match cur with Some k0 => if Nat.eqb k0 k then assigned else [] | None => [] end in
    match xc with
    | XAssign _ c _ => xap (Some k) (c :: A) t
    | XRemove _ c => negb (existsb (Nat.eqb c) A) && xap (Some k) A t
    | _ => xap (Some k) A t
    end
  end.
Definition xpacks_p (x : xst) : bool := forallb (xap None []) (x_bufs x).

Definition asgs (l : list acmd) : list nat := flat_map (fun c => match c with AAssign _ x _ => [x] | _ => [] end) l.

Lemma ap_ok_app : forall l1 l2 A0, ap_ok A0 (l1 ++ l2) = ap_ok A0 l1 && ap_ok (rev (asgs l1) ++ A0) l2.
Proof.
  induction l1 as [|c t IH]; intros l2 A0; [reflexivity|].
  destruct c as [h0 ha m0 sh0|h0|h0|h0 x|h0 x n]; simpl; try apply IH.
  - rewrite IH, andb_assoc. reflexivity.
  - rewrite IH, <- app_assoc. reflexivity.
Qed.

Lemma asgs_app l1 l2 : asgs (l1 ++ l2) = asgs l1 ++ asgs l2.
Proof. apply flat_map_app. Qed.

Section Packs.
Variables (cis : list cinfo) (hs : list handle) (tl : list cell).
Hypothesis Hnd : NoDup hs.
Hypothesis Hnn : forall k, k < length hs -> hnd hs k <> null_handle.

Definition cur_ok (cur : list acmd) (ko : option nat) (A : list nat) : Prop :=
  cur = [] \/
  (cur <> [] /\ Forall (fun c => cmd_handle c = null_handle) cur) \/
  (cur <> [] /\ exists k, ko = Some k /\ k < length hs /\ Forall (fun c => cmd_handle c = hnd hs k) cur /\
     ap_ok [] (rev cur) = true /\ forall c, In c (asgs (rev cur)) -> In c A).

Lemma cur_ok_pack cur ko A : cur <> [] -> cur_ok cur ko A -> pack_ap (rev cur) = true.
Proof.
  intros Hne [E|[(_ & Hall)|(_ & k & _ & _ & _ & Hra & _)]]; [congruence| |].
  - unfold pack_ap. destruct (rev cur) as [|c0 t] eqn:E; [reflexivity|].
    assert (Hin : In c0 cur) by (apply in_rev; rewrite E; left; reflexivity).
    rewrite (proj1 (Forall_forall _ _) Hall c0 Hin). reflexivity.
  - unfold pack_ap. destruct (rev cur) as [|c0 t]; [reflexivity|]. rewrite Hra. apply orb_true_r.
Qed.

Lemma xap_packs : forall b xb, brel cis hs tl b xb -> forall cur ko A, cur_ok cur ko A -> xap ko A xb = true ->
  forallb pack_ap (split_packs b cur) = true.
Proof.
  induction 1 as [|c b xb Hnull Hcc Hb IH|c xc b xb Hc Hb IH]; intros cur ko A Hcur Hx.
  - destruct cur as [|c0 cur']; [reflexivity|]. cbn [split_packs forallb]. rewrite (cur_ok_pack (c0 :: cur') ko A); [reflexivity|discriminate|exact Hcur].
  - (* a command through the null handle *)
    assert (Hnew : cur_ok [c] ko A) by (right; left; split; [discriminate|constructor; [exact Hnull|constructor]]).
    destruct cur as [|c0 cur']; cbn [split_packs].
    + apply (IH [c] ko A Hnew Hx).
    + destruct (handle_eqb (cmd_handle c0) (cmd_handle c)) eqn:E.
      * apply ManagerDeferred.handle_eqb_eq in E. apply (IH (c :: c0 :: cur') ko A); [|exact Hx].
        right. left. split; [discriminate|]. constructor; [exact Hnull|].
        destruct Hcur as [E0|[(_ & Hall)|(_ & k & _ & Hk & Hall & _)]]; [discriminate|exact Hall|].
        exfalso. pose proof (Forall_inv Hall) as E1. cbv beta in E1. apply (Hnn k Hk). transitivity (cmd_handle c0); [symmetry; exact E1|rewrite E; exact Hnull].
      * cbn [forallb]. rewrite (cur_ok_pack (c0 :: cur') ko A); [|discriminate|exact Hcur]. apply (IH [c] ko A Hnew Hx).
  - (* a command of the specification's buffer *)
    destruct (crel_key _ _ _ _ _ Hc) as (Hk & Eh & _). set (k := xkey xc) in *.
    set (A1 := match ko with Some k0 => if Nat.eqb k0 k then A else [] | None => [] end).
    (* the state of xap after this command, and what it demands of the command *)
    assert (Hstep : exists A2, xap (Some k) A2 xb = true /\ (forall x, In x A1 -> In x A2) /\ (forall x, In x (asgs [c]) -> In x A2) /\
                      forall Am, (forall x, In x Am -> In x A1) -> ap_ok Am [c] = true).
    { cbn [xap] in Hx. fold k in Hx. fold A1 in Hx.
      destruct c as [h0 ha m0 sh0|h0|h0|h0 x|h0 x n]; destruct xc as [k1 m1 sh1|k1|k1|k1 c1 v1|k1 c1]; simpl in Hc; try contradiction.
      - exists A1. split; [exact Hx|]. split; [auto|]. split; [intros x []|reflexivity].
      - exists A1. split; [exact Hx|]. split; [auto|]. split; [intros x []|reflexivity].
      - exists A1. split; [exact Hx|]. split; [auto|]. split; [intros x []|reflexivity].
      - destruct Hc as (_ & _ & -> & _). apply andb_true_iff in Hx. destruct Hx as (Hx1 & Hx2). exists A1. split; [exact Hx2|]. split; [auto|].
        split; [intros y []|]. intros Am Hs. simpl. rewrite andb_true_r. apply negb_true_iff in Hx1. apply negb_true_iff.
        destruct (existsb (Nat.eqb x) Am) eqn:E; [|reflexivity]. apply existsb_eqb_in' in E. apply Hs in E. apply existsb_eqb_in' in E. congruence.
      - destruct Hc as (_ & _ & -> & _). exists (x :: A1). split; [exact Hx|]. split; [intros y Hy; right; exact Hy|].
        split; [intros y [<-|[]]; left; reflexivity|reflexivity]. }
    destruct Hstep as (A2 & Hx2 & HA12 & Hrc & Hcok).
    assert (Hnew : cur_ok [c] (Some k) A2).
    { right. right. split; [discriminate|]. exists k. split; [reflexivity|]. split; [exact Hk|]. split; [constructor; [symmetry; exact Eh|constructor]|].
      simpl rev. split; [apply Hcok; intros x []|exact Hrc]. }
    destruct cur as [|c0 cur']; cbn [split_packs].
    + apply (IH [c] (Some k) A2 Hnew Hx2).
    + destruct (handle_eqb (cmd_handle c0) (cmd_handle c)) eqn:E.
      * apply ManagerDeferred.handle_eqb_eq in E. apply (IH (c :: c0 :: cur') (Some k) A2); [|exact Hx2].
        destruct Hcur as [E0|[(_ & Hall)|(_ & k0 & Eko & Hk0 & Hall & Hra & Hrs)]]; [discriminate| |].
        -- exfalso. pose proof (Forall_inv Hall) as E1. cbv beta in E1. apply (Hnn k Hk). transitivity (cmd_handle c); [exact Eh|rewrite <- E; exact E1].
        -- assert (k0 = k).
           { pose proof (Forall_inv Hall) as E1. cbv beta in E1. apply (proj1 (NoDup_nth hs Skeleton.null_handle) Hnd); [exact Hk0|exact Hk|].
             fold (hnd hs k0). fold (hnd hs k). transitivity (cmd_handle c0); [symmetry; exact E1|rewrite E; symmetry; exact Eh]. }
           subst k0. assert (ER : A1 = A) by (unfold A1; rewrite Eko, Nat.eqb_refl; reflexivity).
           right. right. split; [discriminate|]. exists k. split; [reflexivity|]. split; [exact Hk|].
           split; [constructor; [symmetry; exact Eh|exact Hall]|]. change (rev (c :: c0 :: cur')) with (rev (c0 :: cur') ++ [c]). split.
           ++ rewrite ap_ok_app, Hra. simpl andb. apply Hcok. intros x Hx0. rewrite app_nil_r in Hx0. apply in_rev in Hx0. rewrite ER. apply Hrs. exact Hx0.
           ++ intros x Hx0. rewrite asgs_app in Hx0. apply in_app_or in Hx0. destruct Hx0 as [Hx0|Hx0]; [apply HA12; rewrite ER; apply Hrs; exact Hx0|apply Hrc; exact Hx0].
      * cbn [forallb]. rewrite (cur_ok_pack (c0 :: cur') ko A); [|discriminate|exact Hcur]. apply (IH [c] (Some k) A2 Hnew Hx2).
Qed.

End Packs.

Lemma forallb_impl {A} (f g : A -> bool) l : (forall x, f x = true -> g x = true) -> forallb f l = true -> forallb g l = true.
Proof. intros H. induction l as [|a t IH]; simpl; [auto|]. intros E. apply andb_true_iff in E. destruct E as (E1 & E2). rewrite (H a E1), (IH E2). reflexivity. Qed.

Lemma xap_packs_ok cis s hs x : LR cis s hs x -> xpacks_p x = true -> packs_ar s = true.
Proof.
  intros HR Hx. destruct (lr_inv _ _ _ _ HR) as (al & HI). pose proof (li_G _ _ _ _ _ _ HI) as HG.
  pose proof (g_hs_nodup HG) as Hnd. assert (Hnn : forall k, k < length hs -> hnd hs k <> null_handle) by (intros k Hk; exact (hnd_not_null _ _ _ _ k HG Hk)).
  unfold packs_ar, xpacks_p in *. pose proof (lr_bufs _ _ _ _ HR) as H3. clear HR HI HG. revert Hx.
  generalize dependent (x_bufs x). generalize (bufs s). generalize (tmps s). intros tls bs xbs H3.
  induction H3 as [|tl b xb tls bs xbs Hb H3 IH]; intros Hx; [reflexivity|]. simpl in Hx |- *. apply andb_true_iff in Hx. destruct Hx as (Hx1 & Hx2).
  rewrite (forallb_impl pack_ap pack_ar _ pack_ap_ar (xap_packs cis hs tl Hnd Hnn b xb Hb [] None [] (or_introl eq_refl) Hx1)).
  apply IH. exact Hx2.
Qed.

(* ======================================================================================== *)
(* (E) the exact contract                                                                    *)
Fixpoint xtouch (c : nat) (t : list xcmd) : option bool :=
  match t with
  | [] => None
  | XRemove _ c' :: t' => match xtouch c t' with Some b => Some b | None => if Nat.eqb c c' then Some false else None end
  | XAssign _ c' _ :: t' => match xtouch c t' with Some b => Some b | None => if Nat.eqb c c' then Some true else None end
  | _ :: t' => xtouch c t'
  end.

Fixpoint xar_ok (p : list xcmd) : bool :=
  match p with
  | [] => true
  | XAssign _ c _ :: t => negb (match xtouch c t with Some false => true | _ => false end) && xar_ok t
  | _ :: t => xar_ok t
  end.

Fixpoint xhas_dnow (p : list xcmd) : bool :=
  match p with [] => false | XDestroyNow _ :: _ => true | _ :: t => xhas_dnow t end.

Definition xpack_ar (p : list xcmd) : bool := xhas_dnow p || xar_ok p.

(* the maximal runs of commands on one issue number *)
Fixpoint xsplit (cs : list xcmd) (cur : list xcmd) : list (list xcmd) :=
  match cs with
  | [] => match cur with [] => [] | _ => [rev cur] end
  | c :: t =>
    match cur with
    | [] => xsplit t [c]
    | c0 :: _ => if Nat.eqb (xkey c0) (xkey c) then xsplit t (c :: cur) else rev cur :: xsplit t [c]
    end
  end.

Definition xpacks_e (x : xst) : bool := forallb (fun xb => forallb xpack_ar (xsplit xb [])) (x_bufs x).

Section Exact.
Variables (cis : list cinfo) (hs : list handle) (tl : list cell).
Hypothesis Hnd : NoDup hs.
Let R := crel cis hs tl.

Lemma touch_rel : forall p xp, Forall2 R p xp -> forall c, touch c p = xtouch c xp.
Proof.
  induction 1 as [|c0 xc p xp Hc Hp IH]; intros c; [reflexivity|].
  destruct c0 as [h0 ha m0 sh0|h0|h0|h0 x|h0 x n]; destruct xc as [k1 m1 sh1|k1|k1|k1 c1 v1|k1 c1]; simpl in Hc; try contradiction; simpl; rewrite ?IH; try reflexivity.
  - destruct Hc as (_ & _ & -> & _). reflexivity.
  - destruct Hc as (_ & _ & -> & _). reflexivity.
Qed.

Lemma ar_ok_rel : forall p xp, Forall2 R p xp -> ar_ok p = xar_ok xp.
Proof.
  induction 1 as [|c0 xc p xp Hc Hp IH]; [reflexivity|].
  destruct c0 as [h0 ha m0 sh0|h0|h0|h0 x|h0 x n]; destruct xc as [k1 m1 sh1|k1|k1|k1 c1 v1|k1 c1]; simpl in Hc; try contradiction; simpl; try exact IH.
  destruct Hc as (_ & _ & -> & _). rewrite IH, (touch_rel p xp Hp x). reflexivity.
Qed.

Lemma dnow_rel : forall p xp, Forall2 R p xp -> has_dnow p = xhas_dnow xp.
Proof.
  induction 1 as [|c0 xc p xp Hc Hp IH]; [reflexivity|].
  destruct c0 as [h0 ha m0 sh0|h0|h0|h0 x|h0 x n]; destruct xc as [k1 m1 sh1|k1|k1|k1 c1 v1|k1 c1]; simpl in Hc; try contradiction; simpl; try exact IH; reflexivity.
Qed.

Lemma pack_rel p xp : Forall2 R p xp -> xpack_ar xp = true -> pack_ar p = true.
Proof.
  intros H Hx. destruct p as [|c0 t]; [reflexivity|]. unfold pack_ar. unfold xpack_ar in Hx.
  rewrite <- (dnow_rel _ _ H), <- (ar_ok_rel _ _ H) in Hx. rewrite <- orb_assoc, Hx. apply orb_true_r.
Qed.

Lemma key_rel c0 xc0 c xc : R c0 xc0 -> R c xc -> handle_eqb (cmd_handle c0) (cmd_handle c) = Nat.eqb (xkey xc0) (xkey xc).
Proof.
  intros H0 H1. destruct (crel_key _ _ _ _ _ H0) as (K0 & E0 & _). destruct (crel_key _ _ _ _ _ H1) as (K1 & E1 & _).
  destruct (Nat.eqb_spec (xkey xc0) (xkey xc)) as [E|Hne].
  - apply ManagerDeferred.handle_eqb_eq. rewrite <- E0, <- E1, E. reflexivity.
  - apply ManagerDeferred.handle_eqb_neq. rewrite <- E0, <- E1. intros E. apply Hne.
    apply (proj1 (NoDup_nth hs Skeleton.null_handle) Hnd); [exact K0|exact K1|exact E].
Qed.

Lemma Forall2_rev' {A B} (P : A -> B -> Prop) l l' : Forall2 P l l' -> Forall2 P (rev l) (rev l').
Proof. induction 1; simpl; [constructor|]. apply Forall2_app; [assumption|constructor; [assumption|constructor]]. Qed.

Lemma split_rel : forall b xb, Forall2 R b xb -> forall cur xcur, Forall2 R cur xcur ->
  Forall2 (Forall2 R) (split_packs b cur) (xsplit xb xcur).
Proof.
  induction 1 as [|c xc b xb Hc Hb IH]; intros cur xcur Hcur.
  - simpl. inversion Hcur as [|c0 xc0 cur' xcur' H0 Hr]; subst; [constructor|]. constructor; [|constructor]. apply Forall2_rev'. exact Hcur.
  - simpl. inversion Hcur as [|c0 xc0 cur' xcur' H0 Hr]; subst.
    + apply IH. constructor; [exact Hc|constructor].
    + rewrite (key_rel _ _ _ _ H0 Hc). destruct (Nat.eqb (xkey xc0) (xkey xc)).
      * apply IH. constructor; [exact Hc|exact Hcur].
      * constructor; [apply Forall2_rev'; exact Hcur|]. apply IH. constructor; [exact Hc|constructor].
Qed.

Lemma packs_rel : forall ps xps, Forall2 (Forall2 R) ps xps -> forallb xpack_ar xps = true -> forallb pack_ar ps = true.
Proof.
  induction 1 as [|p xp ps xps Hp Hps IH]; intros Hx; [reflexivity|]. simpl in Hx |- *. apply andb_true_iff in Hx. destruct Hx as (H1 & H2).
  rewrite (pack_rel p xp Hp H1), (IH H2). reflexivity.
Qed.

Lemma brel_nn : forall b xb, brel cis hs tl b xb -> Forall (fun c => cmd_handle c <> null_handle) b -> Forall2 R b xb.
Proof.
  induction 1 as [|c b xb Hnull Hcc Hb IH|c xc b xb Hc Hb IH]; intros Hn; [constructor| |].
  - inversion Hn; subst. contradiction.
  - inversion Hn; subst. constructor; [exact Hc|apply IH; assumption].
Qed.

End Exact.

Lemma xe_packs_ok cis s hs x : LR cis s hs x -> NNl (bufs s) -> xpacks_e x = true -> packs_ar s = true.
Proof.
  intros HR Hnn Hx. destruct (lr_inv _ _ _ _ HR) as (al & HI). pose proof (li_G _ _ _ _ _ _ HI) as HG.
  pose proof (g_hs_nodup HG) as Hnd.
  unfold packs_ar, xpacks_e, NNl in *. pose proof (lr_bufs _ _ _ _ HR) as H3. clear HR HI HG. revert Hx Hnn.
  generalize dependent (x_bufs x). generalize (bufs s). generalize (tmps s). intros tls bs xbs H3.
  induction H3 as [|tl b xb tls bs xbs Hb H3 IH]; intros Hx Hnn; [reflexivity|]. simpl in Hx |- *. apply andb_true_iff in Hx. destruct Hx as (Hx1 & Hx2).
  inversion Hnn as [|? ? Hn1 Hn2]; subst.
  rewrite (packs_rel cis hs tl _ _ (split_rel cis hs tl Hnd b xb (brel_nn cis hs tl b xb Hb Hn1) [] [] (Forall2_nil _)) Hx1).
  apply IH; assumption.
Qed.

(* ======================================================================================== *)
(* along a script: a guard g on the specification's state, an extra invariant J of the model's state *)
Section Run.
Variables (cis : list cinfo) (typed : bool) (g : xst -> xop -> bool) (J : mst -> Prop).
Hypothesis g_guard : forall s hs x o, LT cis s hs x -> J s -> g x o = true -> ar_guard s o = true.
Hypothesis g_keeps : forall s x o s', J s -> g x o = true -> (NNl (bufs s) -> xiss_guard x o = true -> NNl (bufs s')) -> J s'.

Fixpoint grun (ops : list xop) (x : xst) : bool :=
  match ops with [] => true | o :: t => g x o && grun t (x_step x o) end.

Lemma runX_total : forall ops s hs x,
  LT cis s hs x -> J s -> cis_ok cis -> forallb (alphaL_b cis) ops = true -> forallb (reg_b cis) ops = true ->
  x_viol x = 0 -> x_viol (fold_left x_step ops x) = 0 -> grun ops x = true ->
  within (length hs + creates ops) ->
  exists s' hs', fold_res (mstep typed) ops (s, hs) = Ok (s', hs') /\ length hs' = length hs + creates ops.
Proof.
  induction ops as [|o t IH]; intros s hs x HL HJ Hok Ha Hr Hv0 Hv1 Hg Hb.
  - exists s, hs. split; [reflexivity|]. unfold creates. simpl. lia.
  - cbn [forallb] in Ha, Hr. apply andb_true_iff in Ha. destruct Ha as (Ho & Ht). apply andb_true_iff in Hr. destruct Hr as (Hro & Hrt).
    cbn [fold_left] in Hv1. cbn [grun] in Hg. apply andb_true_iff in Hg. destruct Hg as (Hgo & Hgt).
    assert (Hv1' : x_viol (x_step x o) = 0).
    { pose proof (x_viol_runL_mono cis t (x_step x o) Ht). lia. }
    rewrite creates_cons in Hb.
    destruct (mstepL_total cis typed s hs x o HL Hok Ho Hro Hv0 Hv1' (g_guard s hs x o HL HJ Hgo)) as (s1 & hs1 & E1 & HL1 & Hlen1 & Hnn1).
    { eapply within_le; [|exact Hb]. lia. }
    destruct (IH s1 hs1 (x_step x o) HL1 (g_keeps s x o s1 HJ Hgo Hnn1) Hok Ht Hrt Hv1' Hv1 Hgt) as (s' & hs' & E & Hlen).
    { eapply within_le; [|exact Hb]. lia. }
    exists s', hs'. cbn [fold_res]. rewrite E1. cbn [bind]. split; [exact E|]. rewrite creates_cons. lia.
Qed.
End Run.

(* ---- (P) ---- *)
Definition xguard_p (x : xst) (o : xop) : bool :=
  match o with XoUnlock => Nat.ltb 1 (x_lock x) || xpacks_p x | _ => true end.
Definition xar_script (n : nat) (cis : list cinfo) (ops : list xop) : bool := grun xguard_p ops (x_init n cis).

Lemma xguard_p_guard cis s hs x o : LT cis s hs x -> True -> xguard_p x o = true -> ar_guard s o = true.
Proof.
  intros HL _ H. pose proof (lt_R _ _ _ _ HL) as HR. destruct o; try reflexivity. simpl in *. rewrite (lr_lock _ _ _ _ HR).
  destruct (Nat.ltb 1 (x_lock x)); [reflexivity|]. simpl in *. eapply xap_packs_ok; eassumption.
Qed.

Theorem locked_run_total_plain typed n cis ops :
  cis_ok cis -> forallb (alphaL_b cis) ops = true -> forallb (reg_b cis) ops = true ->
  x_viol (xrun n cis ops) = 0 -> within (creates ops) -> xar_script n cis ops = true ->
  exists s hs, mrun typed n cis ops = Ok (s, hs) /\ length hs = creates ops.
Proof.
  intros Hok Ha Hr Hv Hb Hg. unfold mrun. unfold xrun in Hv.
  apply (runX_total cis typed xguard_p (fun _ => True) (xguard_p_guard cis) (fun _ _ _ _ _ _ _ => I)
           ops (init n cis) [] (x_init n cis) (LT_init n cis) I Hok Ha Hr eq_refl Hv Hg Hb).
Qed.

(* ---- (E) ---- *)
Definition xguard_e (x : xst) (o : xop) : bool :=
  xiss_guard x o && match o with XoUnlock => Nat.ltb 1 (x_lock x) || xpacks_e x | _ => true end.
Definition xare_script (n : nat) (cis : list cinfo) (ops : list xop) : bool := grun xguard_e ops (x_init n cis).

Lemma xguard_e_guard cis s hs x o : LT cis s hs x -> NNl (bufs s) -> xguard_e x o = true -> ar_guard s o = true.
Proof.
  intros HL Hnn H. pose proof (lt_R _ _ _ _ HL) as HR. unfold xguard_e in H. apply andb_true_iff in H. destruct H as (_ & H).
  destruct o; try reflexivity. simpl in *. rewrite (lr_lock _ _ _ _ HR).
  destruct (Nat.ltb 1 (x_lock x)); [reflexivity|]. simpl in *. eapply xe_packs_ok; eassumption.
Qed.

Lemma xguard_e_keeps s x o s' : NNl (bufs s) -> xguard_e x o = true -> (NNl (bufs s) -> xiss_guard x o = true -> NNl (bufs s')) -> NNl (bufs s').
Proof. intros Hn H K. unfold xguard_e in H. apply andb_true_iff in H. destruct H as (H & _). apply (K Hn H). Qed.

Theorem locked_run_total typed n cis ops :
  cis_ok cis -> forallb (alphaL_b cis) ops = true -> forallb (reg_b cis) ops = true ->
  x_viol (xrun n cis ops) = 0 -> within (creates ops) -> xare_script n cis ops = true ->
  exists s hs, mrun typed n cis ops = Ok (s, hs) /\ length hs = creates ops.
Proof.
  intros Hok Ha Hr Hv Hb Hg. unfold mrun. unfold xrun in Hv.
  apply (runX_total cis typed xguard_e (fun s => NNl (bufs s)) (xguard_e_guard cis) xguard_e_keeps
           ops (init n cis) [] (x_init n cis) (LT_init n cis) (Forall_nil _) Hok Ha Hr eq_refl Hv Hg Hb).
Qed.

(* ---- the refinement theorems of ManagerLockedMain.v without the hypothesis on the model run ---- *)
Theorem locked_refines_total typed n cis ops :
  cis_ok cis -> forallb (alphaL_b cis) ops = true -> forallb (reg_b cis) ops = true ->
  x_viol (xrun n cis ops) = 0 -> within (creates ops) -> xare_script n cis ops = true ->
  refines_on typed n cis ops = true.
Proof.
  intros Hok Ha Hr Hv Hb Hg. destruct (locked_run_total typed n cis ops Hok Ha Hr Hv Hb Hg) as (s & hs & E & Hlen).
  apply (locked_refines_on typed n cis ops s hs Hok Ha E Hv). rewrite Hlen. exact Hb.
Qed.

Theorem locked_refines_total_plain typed n cis ops :
  cis_ok cis -> forallb (alphaL_b cis) ops = true -> forallb (reg_b cis) ops = true ->
  x_viol (xrun n cis ops) = 0 -> within (creates ops) -> xar_script n cis ops = true ->
  refines_on typed n cis ops = true.
Proof.
  intros Hok Ha Hr Hv Hb Hg. destruct (locked_run_total_plain typed n cis ops Hok Ha Hr Hv Hb Hg) as (s & hs & E & Hlen).
  apply (locked_refines_on typed n cis ops s hs Hok Ha E Hv). rewrite Hlen. exact Hb.
Qed.

Theorem locked_refinement_total typed n cis ops :
  cis_ok cis -> forallb (alphaL_b cis) ops = true -> forallb (reg_b cis) ops = true ->
  x_viol (xrun n cis ops) = 0 -> within (creates ops) -> xare_script n cis ops = true ->
  exists s hs, mrun typed n cis ops = Ok (s, hs) /\ length hs = x_count (xrun n cis ops) /\
    forall k,
      match find_ent (xrun n cis ops) k with
      | Some e => exists e', abs_ent s k (nth k hs null_handle) = Some e' /\ ent_match e e' = true
      | None => abs_ent s k (nth k hs null_handle) = None
      end.
Proof.
  intros Hok Ha Hr Hv Hb Hg. destruct (locked_run_total typed n cis ops Hok Ha Hr Hv Hb Hg) as (s & hs & E & Hlen).
  assert (Hb' : within (length hs)) by (rewrite Hlen; exact Hb).
  exists s, hs. split; [exact E|]. apply (locked_refinement typed n cis ops s hs Hok Ha E Hv Hb').
Qed.
