(* C05: the invariant of the C02 refinement (proofs/ManagerInv.v: MInv) freed from "the manager is not locked" and from
   "no command is pending": LInv carries the list rem of commands still waiting in the buffers (the Skeleton
   invariant G reads it through its pending creations).  The lemmas are the function-level counterparts of the step
   lemmas of ManagerInv.v, as the flush needs them: getArchetype, a cell rewrite at the slot of a live entity,
   externalMove of a live entity, destroyNow, and the two ways a recorded creation is applied (the entity enters its
   archetype / it is destroyed by the same pack). *)
Require Import Coq.Lists.List Coq.NArith.NArith Coq.ZArith.ZArith Coq.Arith.Arith Coq.Bool.Bool Coq.micromega.Lia.
From Mustache Require Import Res Manager MgrSpec Refine.
From Mustache Require Skeleton.
From Mustache Require Import SkelSpec.
From Mustache.proofs Require Import ListLemmas SkelBasics SkelInv SkelSteps SkelRefine SkelLocked SkelFlush SkelMove SkelMoveRem ClosureProofs
  ManagerBasics ManagerMoves ManagerProj ManagerInv.
Import ListNotations.

Record LInv (cis : list cinfo) (s : mst) (hs : list handle) (al : list (nat * N)) (rem : list scmd) (x : xst) : Prop := {
  li_G : G (proj s) hs al rem;
  li_awf : Forall awf (archs s);
  li_deps : deps s = [];
  li_cis : cinfos s = cis;
  li_xdeps : x_deps x = [];
  li_xcis : x_cinfos x = cis;
  li_count : x_count x = length hs;
  li_slots : length (slots s) <= length hs;
  li_alive : forall k, alive al k <-> alive_x x k = true;
  li_vals : Vals s hs x
}.

Lemma LInv_of_MInv cis s hs al x : MInv cis s hs al x -> LInv cis s hs al [] x.
Proof. intros [A B C D E F G0 H I J K L]. constructor; assumption. Qed.

Lemma MInv_of_LInv cis s hs al x : LInv cis s hs al [] x -> lockc s = 0 -> x_lock x = 0 -> MInv cis s hs al x.
Proof. intros [A B C D E F G0 H I J] L1 L2. constructor; assumption. Qed.

(* the invariant reads the structural fields, the dependencies and the component descriptions only *)
Lemma LInv_frame cis s s' hs al rem x :
  slots s' = slots s -> locs s' = locs s -> next_slot s' = next_slot s -> empty_slots s' = empty_slots s -> archs s' = archs s ->
  deps s' = deps s -> cinfos s' = cinfos s -> LInv cis s hs al rem x -> LInv cis s' hs al rem x.
Proof.
  intros E1 E2 E3 E4 E5 E6 E7 [A B C D E F G0 H I J]. constructor; try assumption; try congruence.
  - eapply G_same_core; [| | | | |exact A]; simpl; congruence.
  - unfold Vals. rewrite E5. exact J.
Qed.

Lemma LInv_set_log cis s hs al rem x l : LInv cis s hs al rem x -> LInv cis (set_log s l) hs al rem x.
Proof. apply LInv_frame; reflexivity. Qed.

Lemma LInv_fr1 cis s s' hs al rem x : fr1 s' = fr1 s -> archs s' = archs s -> LInv cis s hs al rem x -> LInv cis s' hs al rem x.
Proof.
  intros F A. destruct (fr2_slots _ _ (fr1_fr2 _ _ F)) as (E1 & E2 & E3). destruct (fr3_ctl _ _ (fr2_fr3 _ _ (fr1_fr2 _ _ F))) as (_ & E4 & E5 & _).
  apply LInv_frame; try assumption. apply (fr1_locs _ _ F).
Qed.

(* ... and the abstract state through find_ent, the dependencies, the descriptions and the handle count *)
Lemma LInv_ext cis s hs al rem x x' : LInv cis s hs al rem x ->
  x_deps x' = x_deps x -> x_cinfos x' = x_cinfos x -> x_count x' = x_count x -> (forall k, find_ent x' k = find_ent x k) ->
  LInv cis s hs al rem x'.
Proof.
  intros [A B C D E F G0 H I J] X1 X2 X3 Hf. constructor; try assumption; try congruence.
  - intros k. rewrite I. unfold alive_x. rewrite Hf. tauto.
  - intros ai a idx h Ha Hh. destruct (J ai a idx h Ha Hh) as (k & e & K1 & K2 & K3 & K4). exists k, e. rewrite Hf. auto.
Qed.

Lemma LInv_rem_ext cis s hs al rem rem' x : (forall k, pend rem' k <-> pend rem k) -> LInv cis s hs al rem x -> LInv cis s hs al rem' x.
Proof. intros Hp [A B C D E F G0 H I J]. constructor; try assumption. eapply G_rem_ext; eassumption. Qed.

(* ---------------------------------------------------------------------------------------- *)
(* the structure of a Manager state, read off the Skeleton invariant on its projection *)
Lemma live_l s hs al rem k key : G (proj s) hs al rem -> In (k, key) al ->
  k < length hs /\ exists ai idx a,
    nth_error (locs s) (N.to_nat (fst (hnd hs k))) = Some {| l_arch := Some ai; l_idx := idx |} /\
    nth_error (archs s) ai = Some a /\ am_mask a = key /\ nth_error (am_ents a) idx = Some (hnd hs k).
Proof.
  intros HG Hin. destruct (g_alive HG k key Hin) as (Hk & _ & _ & ai & idx & a & Hl & Ha & Hkey & He).
  split; [exact Hk|]. simpl in Hl, Ha.
  apply nth_error_map_inv in Hl. destruct Hl as (l & Hl & El). apply ploc_inv in El. subst l.
  apply nth_error_map_inv in Ha. destruct Ha as (a0 & Ha & Ea). subst a. simpl in Hkey, He.
  exists ai, idx, a0. auto.
Qed.

Lemma members_l s hs al rem ai a idx h : G (proj s) hs al rem -> nth_error (archs s) ai = Some a -> nth_error (am_ents a) idx = Some h ->
  exists k, In (k, am_mask a) al /\ k < length hs /\ hnd hs k = h /\
            nth_error (locs s) (N.to_nat (fst h)) = Some {| l_arch := Some ai; l_idx := idx |}.
Proof.
  intros HG Ha He.
  destruct (g_arch_members HG ai (parch a) idx h (noex_no _ _)) as (k & A & B & C & D); [simpl; apply map_nth_error; exact Ha|exact He|].
  exists k. split; [exact A|]. split; [exact B|]. split; [exact C|]. simpl in D.
  apply nth_error_map_inv in D. destruct D as (l & Hl & El). apply ploc_inv in El. subst l. exact Hl.
Qed.

Lemma valid_l s hs al rem k : G (proj s) hs al rem -> k < length hs -> (is_valid s (hnd hs k) = true <-> alive al k).
Proof. intros HG Hk. rewrite <- proj_is_valid. apply (G_valid _ hs al rem k HG Hk). Qed.

Lemma member_unique_l s hs al rem ai1 a1 idx1 ai2 a2 idx2 h : G (proj s) hs al rem ->
  nth_error (archs s) ai1 = Some a1 -> nth_error (am_ents a1) idx1 = Some h ->
  nth_error (archs s) ai2 = Some a2 -> nth_error (am_ents a2) idx2 = Some h -> ai1 = ai2 /\ idx1 = idx2.
Proof.
  intros HG A1 H1 A2 H2. destruct (members_l _ _ _ _ _ _ _ _ HG A1 H1) as (_ & _ & _ & _ & L1).
  destruct (members_l _ _ _ _ _ _ _ _ HG A2 H2) as (_ & _ & _ & _ & L2). rewrite L1 in L2. inversion L2. auto.
Qed.

Lemma live_vmatch_l cis s hs al rem x k key : LInv cis s hs al rem x -> In (k, key) al ->
  k < length hs /\ exists e ai idx a, find_ent x k = Some e /\
    nth_error (locs s) (N.to_nat (fst (hnd hs k))) = Some {| l_arch := Some ai; l_idx := idx |} /\
    nth_error (archs s) ai = Some a /\ am_mask a = key /\ nth_error (am_ents a) idx = Some (hnd hs k) /\ vmatch e a idx.
Proof.
  intros HI Hin. destruct (live_l _ _ _ _ _ _ (li_G _ _ _ _ _ _ HI) Hin) as (Hk & ai & idx & a & Hl & Ha & Hkey & Hent).
  split; [exact Hk|].
  destruct (li_vals _ _ _ _ _ _ HI ai a idx _ Ha Hent) as (k0 & e0 & Hk0 & Eh0 & Hf0 & Hvm0).
  assert (k0 = k) by (eapply (hnd_inj _ hs _ _ _ _ (li_G _ _ _ _ _ _ HI)); eassumption). subst k0.
  exists e0, ai, idx, a. repeat (split; [assumption|]). assumption.
Qed.

Lemma alive_find_l cis s hs al rem x k : LInv cis s hs al rem x -> alive al k -> find_ent x k <> None.
Proof. intros HI Ha. apply alive_x_find. apply (li_alive _ _ _ _ _ _ HI). exact Ha. Qed.

Lemma valid_find_l cis s hs al rem x k : LInv cis s hs al rem x -> is_valid s (hnd hs k) = true ->
  k < length hs /\ alive al k /\ exists e, find_ent x k = Some e.
Proof.
  intros HI Hv. destruct (Nat.lt_ge_cases k (length hs)) as [Hk|Hk].
  - split; [exact Hk|]. assert (Ha : alive al k) by (apply (valid_l _ _ _ _ _ (li_G _ _ _ _ _ _ HI) Hk); exact Hv).
    split; [exact Ha|]. pose proof (alive_find_l _ _ _ _ _ _ _ HI Ha). destruct (find_ent x k) as [e|]; [eauto|congruence].
  - rewrite hnd_beyond in Hv by exact Hk. discriminate.
Qed.

Lemma dead_find_l cis s hs al rem x k : LInv cis s hs al rem x -> k < length hs -> is_valid s (hnd hs k) = false -> find_ent x k = None.
Proof.
  intros HI Hk Hv. apply alive_x_false. destruct (alive_x x k) eqn:E; [|reflexivity]. exfalso.
  apply (li_alive _ _ _ _ _ _ HI) in E. apply (valid_l _ _ _ _ _ (li_G _ _ _ _ _ _ HI) Hk) in E. congruence.
Qed.

(* ---------------------------------------------------------------------------------------- *)
(* getArchetype, possibly evaluated on a state s3 that differs from s outside the archetype list *)
Lemma LInv_add_arch cis s hs al rem x m cs :
  LInv cis s hs al rem x -> find_arch (archs s) m si_null 0 = None ->
  LInv cis (set_archs s (archs s ++ [new_arch m si_null cs])) hs al rem x.
Proof.
  intros [HG Hawf Hd Hc Hxd Hxc Hcnt Hsl Hal Hv] Hf. constructor; try assumption.
  - change (proj (set_archs s (archs s ++ [new_arch m si_null cs])))
      with (Skeleton.set_archs (proj s) (map parch (archs s ++ [new_arch m si_null cs]))).
    rewrite map_app. apply (G_new_arch (proj s) hs al rem m HG).
    intros a Ha. simpl in Ha. apply in_map_iff in Ha. destruct Ha as (a0 & <- & Ha0). simpl. intros E.
    apply (find_arch_none _ _ _ _ Hf a0 Ha0). split; [exact E|].
    destruct (proj1 (Forall_forall _ _) Hawf a0 Ha0) as (Esh & _). rewrite Esh. reflexivity.
  - simpl. apply Forall_app. split; [exact Hawf|]. constructor; [apply awf_new|constructor].
  - intros ai' a' idx h Ha' Hh. simpl in Ha'. destruct (Nat.lt_ge_cases ai' (length (archs s))) as [Hlt|Hge].
    + rewrite nth_error_app1 in Ha' by exact Hlt. apply (Hv ai' a' idx h Ha' Hh).
    + rewrite nth_error_app2 in Ha' by exact Hge. destruct (ai' - length (archs s)) as [|n]; simpl in Ha'.
      * inversion Ha'; subst a'. simpl in Hh. destruct idx; discriminate.
      * destruct n; discriminate.
Qed.

Lemma LInv_get_arch_indep cis s hs al rem x s3 m s4 ai :
  LInv cis s hs al rem x -> archs s3 = archs s -> deps s3 = [] -> get_arch s3 m si_null = Ok (s4, ai) ->
  fr1 s4 = fr1 s3 /\
  exists sa, LInv cis sa hs al rem x /\ archs s4 = archs sa /\ fr1 sa = fr1 s /\
    (forall j a', nth_error (archs s) j = Some a' -> nth_error (archs sa) j = Some a') /\
    exists a, nth_error (archs sa) ai = Some a /\ am_mask a = m.
Proof.
  intros HI Ea Hd H. destruct (get_arch_ok _ _ _ _ _ Hd H) as [(-> & a & Ha & Hm & _)|(Hf & -> & cs & ->)].
  - split; [reflexivity|]. exists s. rewrite Ea in Ha. split; [exact HI|]. split; [exact Ea|]. split; [reflexivity|]. split; [auto|].
    exists a. auto.
  - split; [reflexivity|]. rewrite Ea in Hf. exists (set_archs s (archs s ++ [new_arch m si_null cs])).
    split; [apply LInv_add_arch; assumption|]. split; [simpl; rewrite Ea; reflexivity|]. split; [reflexivity|]. split.
    + intros j a' Hj. simpl. rewrite nth_error_app1; [exact Hj|]. apply nth_error_Some. congruence.
    + exists (new_arch m si_null cs). simpl. rewrite Ea. split; [apply nth_error_app_last|reflexivity].
Qed.

Lemma LInv_get_arch cis s hs al rem x m s1 ai : LInv cis s hs al rem x -> get_arch s m si_null = Ok (s1, ai) ->
  LInv cis s1 hs al rem x /\ fr1 s1 = fr1 s /\
  (forall j a', nth_error (archs s) j = Some a' -> nth_error (archs s1) j = Some a') /\
  exists a, nth_error (archs s1) ai = Some a /\ am_mask a = m.
Proof.
  intros HI H. destruct (LInv_get_arch_indep _ _ _ _ _ _ _ _ _ _ HI eq_refl (li_deps _ _ _ _ _ _ HI) H) as (F & sa & HIa & Ea & Fa & Hk & a & Ha & Hm).
  split; [eapply LInv_fr1; [| |exact HIa]; [congruence|exact Ea]|]. split; [exact F|]. rewrite Ea. split; [exact Hk|]. exists a. auto.
Qed.

(* ---------------------------------------------------------------------------------------- *)
(* the cells at the slot of a live entity are rewritten (the writes of the assign commands of a pack) *)
Lemma LInv_rewrite cis s hs al rem x k key e_new ai idx a a' s' :
  LInv cis s hs al rem x -> In (k, key) al -> e_k e_new = k ->
  nth_error (archs s) ai = Some a -> nth_error (am_ents a) idx = Some (hnd hs k) ->
  fr1 s' = fr1 s -> archs s' = upd (archs s) ai a' -> ab2 a' = ab2 a -> length (am_cols a') = length (am_cols a) ->
  (forall ci slot, slot <> idx -> get_cell a' ci slot = get_cell a ci slot) ->
  vmatch e_new a' idx ->
  LInv cis s' hs al rem (xput x e_new).
Proof.
  intros HI Hin Hek Ha Hent F A Hab Hcl Hoth Hnew.
  pose proof HI as [HG Hawf Hdp Hc Hxd Hxc Hcnt Hsl Hal Hv].
  destruct (ab2_fields _ _ Hab) as (Em & Esh & Ee & Ez & Ech).
  assert (Hai : ai < length (archs s)) by (apply nth_error_Some; congruence).
  assert (Hproj : proj s' = proj s).
  { rewrite (proj_fr1 _ _ F), A, map_upd. assert (E : parch a' = parch a) by (unfold parch; rewrite Em, Ee; reflexivity).
    rewrite E. rewrite upd_same_id by (apply map_nth_error; exact Ha). destruct s; reflexivity. }
  destruct (fr3_ctl _ _ (fr2_fr3 _ _ (fr1_fr2 _ _ F))) as (E1 & E2 & E3 & _).
  destruct (fr2_slots _ _ (fr1_fr2 _ _ F)) as (E4 & _).
  assert (Hk : k < length hs) by (destruct (live_l _ _ _ _ _ _ HG Hin); assumption).
  assert (Hfk : find_ent x k <> None).
  { apply (alive_find_l _ _ _ _ _ _ _ HI). unfold alive. apply in_map_iff. exists (k, key). auto. }
  constructor.
  - rewrite Hproj. exact HG.
  - rewrite A. apply Forall_upd; [exact Hawf|]. destruct (awf_nth _ _ _ Hawf Ha) as (W1 & W2 & W3). unfold awf. rewrite Esh, Ez, Ee, Hcl, Em. auto.
  - congruence.
  - congruence.
  - exact Hxd.
  - exact Hxc.
  - exact Hcnt.
  - rewrite E4. exact Hsl.
  - intros k'. rewrite Hal, !alive_x_find, xput_find. rewrite Hek. destruct (Nat.eqb_spec k' k) as [->|Hne]; [|tauto].
    split; [intros _; discriminate|intros _; exact Hfk].
  - intros ai' a'' idx' h' Ha'' Hh'. rewrite A in Ha''.
    destruct (Nat.eq_dec ai' ai) as [->|Hna].
    + rewrite nth_error_upd_same in Ha'' by exact Hai. inversion Ha''; subst a''. rewrite Ee in Hh'.
      destruct (Hv ai a idx' h' Ha Hh') as (k0 & e0 & Hk0 & Eh0 & Hf0 & Hvm0).
      destruct (Nat.eq_dec idx' idx) as [->|Hni].
      * assert (Ehh : h' = hnd hs k) by (rewrite Hent in Hh'; congruence).
        exists k, e_new. split; [exact Hk|]. split; [symmetry; exact Ehh|]. split; [rewrite xput_find, Hek, Nat.eqb_refl; reflexivity|exact Hnew].
      * assert (Hnk : k0 <> k).
        { intros ->. rewrite Eh0 in Hent. destruct (member_unique_l _ _ _ _ _ _ _ _ _ _ _ HG Ha Hh' Ha Hent). congruence. }
        exists k0, e0. split; [exact Hk0|]. split; [exact Eh0|].
        split; [rewrite xput_find, Hek; destruct (Nat.eqb_spec k0 k); [congruence|exact Hf0]|].
        eapply vmatch_transfer; [exact Hvm0|exact Em|]. intros ci' _. apply Hoth. exact Hni.
    + rewrite nth_error_upd_other in Ha'' by congruence.
      destruct (Hv ai' a'' idx' h' Ha'' Hh') as (k0 & e0 & Hk0 & Eh0 & Hf0 & Hvm0).
      assert (Hnk : k0 <> k).
      { intros ->. rewrite Eh0 in Hent. destruct (member_unique_l _ _ _ _ _ _ _ _ _ _ _ HG Ha'' Hh' Ha Hent). congruence. }
      exists k0, e0. split; [exact Hk0|]. split; [exact Eh0|].
      split; [rewrite xput_find, Hek; destruct (Nat.eqb_spec k0 k); [congruence|exact Hf0]|exact Hvm0].
Qed.

(* ---------------------------------------------------------------------------------------- *)
(* a live entity moves to another archetype: its values follow it *)
Lemma LInv_move cis s hs al rem x k key ai a_t pai pidx pa skip s2 e_new :
  LInv cis s hs al rem x -> In (k, key) al -> e_k e_new = k ->
  nth_error (locs s) (N.to_nat (fst (hnd hs k))) = Some {| l_arch := Some pai; l_idx := pidx |} ->
  nth_error (archs s) pai = Some pa -> nth_error (am_ents pa) pidx = Some (hnd hs k) ->
  nth_error (archs s) ai = Some a_t ->
  external_move s ai (hnd hs k) pai pidx skip = Ok s2 ->
  (forall a2, am_mask a2 = am_mask a_t ->
     (forall ci c, nth_error (mitems (am_mask a_t)) ci = Some c ->
        (forall pci, cindex (am_mask pa) c = Some pci -> get_cell a2 ci (length (am_ents a_t)) = get_cell pa pci pidx) /\
        (cindex (am_mask pa) c = None -> mhas skip c = false ->
         cell_le (default_cell cis c) (get_cell a2 ci (length (am_ents a_t))) = true)) ->
     vmatch e_new a2 (length (am_ents a_t))) ->
  LInv cis s2 hs (retag al k (am_mask a_t)) rem (xput x e_new) /\ fr2 s2 = fr2 s /\
  exists a2, nth_error (archs s2) ai = Some a2 /\ am_mask a2 = am_mask a_t /\
     nth_error (am_ents a2) (length (am_ents a_t)) = Some (hnd hs k) /\
     nth_error (locs s2) (N.to_nat (fst (hnd hs k))) = Some {| l_arch := Some ai; l_idx := length (am_ents a_t) |} /\
     (forall ci c, nth_error (mitems (am_mask a_t)) ci = Some c -> forall pci, cindex (am_mask pa) c = Some pci ->
        get_cell a2 ci (length (am_ents a_t)) = get_cell pa pci pidx).
Proof.
  intros HI Hin Hek Hloc Hpa Hent Hat Hmv Hnew.
  pose proof HI as [HG Hawf Hdp Hc Hxd Hxc Hcnt Hsl Hal Hv].
  destruct (awf_nth _ _ _ Hawf Hat) as (Wt1 & Wt2 & Wt3). destruct (awf_nth _ _ _ Hawf Hpa) as (Wp1 & Wp2 & Wp3).
  destruct (external_move_ok _ _ _ _ _ _ _ _ _ Hat Hpa Wt3 Wp2 Wp3 Hmv)
    as (Hne & a2 & pa' & pent & l3 & F & A & Hpent & Hrm & Hlt & L & Hab & He & Hz & Hcl & Hcells & Hval).
  rewrite Hent in Hpent. inversion Hpent; subst pent; clear Hpent.
  destruct (ab3_fields _ _ Hab) as (Em & _).
  assert (Hai : ai < length (archs s)) by (apply nth_error_Some; congruence).
  assert (Hpai : pai < length (archs s)) by (apply nth_error_Some; congruence).
  assert (EA : forall j, nth_error (archs s2) j = if Nat.eqb j pai then Some pa' else if Nat.eqb j ai then Some a2 else nth_error (archs s) j).
  { intros j. rewrite A. destruct (Nat.eqb_spec j pai) as [->|Hjp].
    - apply nth_error_upd_same. rewrite upd_length. exact Hpai.
    - rewrite nth_error_upd_other by congruence. destruct (Nat.eqb_spec j ai) as [->|Hja].
      + apply nth_error_upd_same. exact Hai.
      + apply nth_error_upd_other. congruence. }
  (* structure *)
  assert (HG2 : G (proj s2) hs (retag al k (am_mask a_t)) rem).
  { pose (s_mid := set_locs (set_archs s (upd (archs s) pai pa')) l3).
    assert (E_rm : Skeleton.arch_remove (proj s) pai pidx (hnd hs k) = Ok (proj s_mid)).
    { apply (proj_arch_remove s s_mid pai pidx (hnd hs k) pa pa' Hpa); [reflexivity|reflexivity|exact Hrm]. }
    assert (E_ins : Skeleton.arch_insert (proj s_mid) ai (hnd hs k) = Ok (proj s2)).
    { apply (proj_arch_insert s_mid s2 ai (hnd hs k) a_t a2).
      - simpl. rewrite nth_error_upd_other by congruence. exact Hat.
      - rewrite F. reflexivity.
      - simpl. rewrite A. apply upd_comm. exact Hne.
      - exact Hlt.
      - exact L.
      - exact Hab.
      - exact He. }
    apply (map_nth_error ploc) in Hloc. apply (map_nth_error parch) in Hpa, Hat.
    clear - HG Hin Hloc Hpa Hent Hat E_rm E_ins Hne. destruct (hnd hs k) as [i v] eqn:Eh.
    eapply (G_move_rem (proj s) (proj s_mid) (proj s2) hs al rem k key (am_mask a_t) i v pai pidx (parch pa) ai (parch a_t));
      try eassumption; reflexivity. }
  assert (Hk : k < length hs) by (destruct (live_l _ _ _ _ _ _ HG Hin); assumption).
  assert (Hfk : find_ent x k <> None).
  { apply (alive_find_l _ _ _ _ _ _ _ HI). unfold alive. apply in_map_iff. exists (k, key). auto. }
  destruct (fr3_ctl _ _ (fr2_fr3 _ _ F)) as (E1 & E2 & E3 & _). destruct (fr2_slots _ _ F) as (E4 & _).
  assert (Hwa2 : awf a2).
  { apply (awf_inserted a_t a2 (hnd hs k)); [split; [|split]| | | |]; assumption. }
  split; [|split; [exact F|]].
  - constructor.
    + exact HG2.
    + rewrite A. apply Forall_upd; [apply Forall_upd; [exact Hawf|exact Hwa2]|]. eapply awf_removed; [|exact Hrm]. split; [|split]; assumption.
    + congruence.
    + congruence.
    + exact Hxd.
    + exact Hxc.
    + exact Hcnt.
    + rewrite E4. exact Hsl.
    + intros k'. rewrite retag_alive, Hal, !alive_x_find, xput_find. rewrite Hek. destruct (Nat.eqb_spec k' k) as [->|Hnk]; [|tauto].
      split; [intros _; discriminate|intros _; exact Hfk].
    + (* values *)
      intros ai' a'' idx' h' Ha'' Hh'. rewrite EA in Ha''.
      assert (Hold : forall aj a0 idx0, nth_error (archs s) aj = Some a0 -> nth_error (am_ents a0) idx0 = Some h' ->
                (aj <> pai \/ idx0 <> pidx) ->
                am_mask a'' = am_mask a0 -> (forall ci, ci < length (mitems (am_mask a0)) -> get_cell a'' ci idx' = get_cell a0 ci idx0) ->
                exists k0 e0, k0 < length hs /\ hnd hs k0 = h' /\ find_ent (xput x e_new) k0 = Some e0 /\ vmatch e0 a'' idx').
      { intros aj a0 idx0 Ha0 Hh0 Hpos Em0 Hc0. destruct (Hv aj a0 idx0 h' Ha0 Hh0) as (k0 & e0 & Hk0 & Eh0 & Hf0 & Hvm0).
        assert (Hnk : k0 <> k).
        { intros ->. rewrite Eh0 in Hent. destruct (member_unique_l _ _ _ _ _ _ _ _ _ _ _ HG Ha0 Hh0 Hpa Hent). destruct Hpos; congruence. }
        exists k0, e0. split; [exact Hk0|]. split; [exact Eh0|].
        split; [rewrite xput_find, Hek; destruct (Nat.eqb_spec k0 k); [congruence|exact Hf0]|].
        eapply vmatch_transfer; eassumption. }
      destruct (Nat.eqb_spec ai' pai) as [->|Hnp].
      * inversion Ha''; subst a''.
        destruct (removed_members _ _ _ _ _ _ _ Hrm idx' h' Hh') as (old & Hop & Hold_e & Hold_c & _).
        destruct Hrm as (_ & _ & Habp & _). destruct (ab3_fields _ _ Habp) as (Emp & _).
        apply (Hold pai pa old Hpa Hold_e (or_intror Hop) Emp Hold_c).
      * destruct (Nat.eqb_spec ai' ai) as [->|Hna].
        -- inversion Ha''; subst a''.
           assert (Hlt2 : idx' < length (am_ents a2)) by (apply nth_error_Some; rewrite Hh'; discriminate).
           rewrite He, app_length in Hlt2. simpl in Hlt2. rewrite He in Hh'.
           destruct (Nat.lt_ge_cases idx' (length (am_ents a_t))) as [Hlt'|Hge].
           ++ rewrite nth_error_app1 in Hh' by exact Hlt'.
              apply (Hold ai a_t idx' Hat Hh' (or_introl Hne) Em). intros ci _. apply Hcells. lia.
           ++ assert (idx' = length (am_ents a_t)) by lia.
              subst idx'. rewrite nth_error_app_last in Hh'. inversion Hh'; subst h'.
              exists k, e_new. split; [exact Hk|]. split; [reflexivity|].
              split; [rewrite xput_find, Hek, Nat.eqb_refl; reflexivity|].
              apply (Hnew a2 Em). intros ci c Hn. rewrite <- Hc. apply (Hval ci c Hn).
        -- apply (Hold ai' a'' idx' Ha'' Hh' (or_introl Hnp) eq_refl). reflexivity.
  - exists a2. split; [rewrite EA; apply Nat.eqb_neq in Hne; rewrite Hne, Nat.eqb_refl; reflexivity|]. split; [exact Em|].
    split; [rewrite He; apply nth_error_app_last|]. split; [rewrite L; apply nth_error_upd_same; exact Hlt|].
    intros ci c Hn pci Hp. apply (proj1 (Hval ci c Hn) pci Hp).
Qed.

(* ---------------------------------------------------------------------------------------- *)
(* the frame of the flush: everything but the archetypes, the log, the locations, the slot table with its free list and
   the set of entities marked for destruction *)
Definition fr4 (s : mst) : mst := set_marked (fr3 s) [].
Lemma fr3_fr4 s s' : fr3 s' = fr3 s -> fr4 s' = fr4 s.
Proof. intros H. unfold fr4. rewrite H. reflexivity. Qed.
Lemma fr2_fr4 s s' : fr2 s' = fr2 s -> fr4 s' = fr4 s.
Proof. intros H. apply fr3_fr4, fr2_fr3, H. Qed.
Lemma fr1_fr4 s s' : fr1 s' = fr1 s -> fr4 s' = fr4 s.
Proof. intros H. apply fr2_fr4, fr1_fr2, H. Qed.
Lemma fr4_set_marked s m : fr4 (set_marked s m) = fr4 s.
Proof. reflexivity. Qed.
Lemma fr4_release s h : fr4 (release_id s h) = fr4 s.
Proof. reflexivity. Qed.
Lemma fr4_fields s s' : fr4 s' = fr4 s ->
  lockc s' = lockc s /\ deps s' = deps s /\ cinfos s' = cinfos s /\ next_eid s' = next_eid s /\ nthreads s' = nthreads s /\
  bufs s' = bufs s /\ tmps s' = tmps s /\ epoch s' = epoch s /\ def_chunk s' = def_chunk s /\ chunk_fns s' = chunk_fns s.
Proof.
  intros H. repeat split.
  - apply (f_equal lockc) in H. exact H.
  - apply (f_equal deps) in H. exact H.
  - apply (f_equal cinfos) in H. exact H.
  - apply (f_equal next_eid) in H. exact H.
  - apply (f_equal nthreads) in H. exact H.
  - apply (f_equal bufs) in H. exact H.
  - apply (f_equal tmps) in H. exact H.
  - apply (f_equal epoch) in H. exact H.
  - apply (f_equal def_chunk) in H. exact H.
  - apply (f_equal chunk_fns) in H. exact H.
Qed.
Lemma fr3_marked s s' : fr3 s' = fr3 s -> marked s' = marked s.
Proof. intros H. apply (f_equal marked) in H. exact H. Qed.

(* ---------------------------------------------------------------------------------------- *)
(* destroyNow of an issued handle *)
Lemma LInv_destroy_now cis s hs al rem x k s' :
  LInv cis s hs al rem x -> within (length hs) -> k < length hs ->
  destroy_now_unlocked s (hnd hs k) = Ok s' ->
  LInv cis s' hs (kill al k) rem (x_kill x k) /\ fr4 s' = fr4 s /\ marked s' = marked s.
Proof.
  intros HI Hb Hk Hd.
  pose proof HI as [HG Hawf Hdp Hc Hxd Hxc Hcnt Hsl Hal Hv].
  unfold destroy_now_unlocked in Hd.
  destruct (is_valid s (hnd hs k)) eqn:Ev.
  - assert (Ha : alive al k) by (apply (valid_l _ _ _ _ _ HG Hk); exact Ev).
    pose proof Ha as Ha'. unfold alive in Ha'. apply in_map_iff in Ha'. destruct Ha' as ((k0, key) & E & Hin). simpl in E. subst k0.
    destruct (live_l _ _ _ _ _ _ HG Hin) as (_ & ai & idx & a & Hloc & Harch & Hkey & Hent).
    rewrite (nth_res_some _ _ _ Hloc) in Hd. bok Hd. simpl l_arch in Hd. cbv iota in Hd. simpl l_idx in Hd.
    bd Hd s2 Hrm. inversion Hd; subst s'; clear Hd.
    assert (Hwa : awf a) by (eapply awf_nth; eassumption).
    destruct (arch_remove_ok _ _ _ _ _ _ _ Harch (proj1 (proj2 Hwa)) (proj2 (proj2 Hwa)) Hrm) as (a' & F2 & A2 & Hrmd).
    destruct (G_destroy_now (proj s) (proj (release_id s2 (hnd hs k))) hs al rem k HG Hk) as (HG' & _ & Hlen').
    { assert (Hb' : (N.of_nat (length hs) + 1 < 16777215)%N) by (unfold within, BOUND in Hb; lia). exact Hb'. }
    { eapply proj_destroy_now; eassumption. }
    unfold proj in Hlen'. cbn [Skeleton.slots] in Hlen'. rewrite !map_length in Hlen'.
    destruct (x_kill_eq x k) as (Fx & Hfind). destruct (xfr_fields _ _ Fx) as (X1 & X2 & X3 & X4 & X5).
    destruct (fr3_ctl _ _ (fr2_fr3 _ _ F2)) as (E1 & E2 & E3 & _).
    split; [|split; [rewrite fr4_release; apply fr2_fr4; exact F2|change (marked (release_id s2 (hnd hs k))) with (marked s2); apply fr3_marked, fr2_fr3, F2]].
    constructor.
    + exact HG'.
    + change (archs (release_id s2 (hnd hs k))) with (archs s2). rewrite A2. apply Forall_upd; [exact Hawf|]. eapply awf_removed; eassumption.
    + change (deps (release_id s2 (hnd hs k))) with (deps s2). congruence.
    + change (cinfos (release_id s2 (hnd hs k))) with (cinfos s2). congruence.
    + congruence.
    + congruence.
    + congruence.
    + rewrite Hlen'. exact Hsl.
    + intros k'. rewrite kill_alive, alive_x_find, Hfind. destruct (Nat.eqb_spec k' k) as [->|Hne].
      * split; [intros (_ & Hc'); congruence|intros Hc'; congruence].
      * rewrite <- alive_x_find, <- Hal. tauto.
    + (* values *)
      intros ai' a'' idx' h' Ha'' Hh'. change (archs (release_id s2 (hnd hs k))) with (archs s2) in Ha''.
      destruct (members_l _ _ _ _ _ _ _ _ HG' Ha'' Hh') as (k'' & Hin'' & Hk'' & Eh'' & _).
      apply kill_in in Hin''. destruct Hin'' as (_ & Hnk).
      assert (Hold : forall a0 idx0, nth_error (archs s) ai' = Some a0 -> nth_error (am_ents a0) idx0 = Some h' ->
                am_mask a'' = am_mask a0 -> (forall ci, ci < length (mitems (am_mask a0)) -> get_cell a'' ci idx' = get_cell a0 ci idx0) ->
                exists k0 e, k0 < length hs /\ hnd hs k0 = h' /\ find_ent (x_kill x k) k0 = Some e /\ vmatch e a'' idx').
      { intros a0 idx0 Ha0 Hh0 Em Hc0. destruct (Hv ai' a0 idx0 h' Ha0 Hh0) as (k0 & e & Hk0 & Eh0 & Hf & Hvm).
        assert (k0 = k'') by (eapply (hnd_inj _ hs _ _ _ _ HG'); [exact Hk0|exact Hk''|congruence]). subst k0.
        exists k'', e. split; [exact Hk''|]. split; [exact Eh''|].
        split; [rewrite Hfind; destruct (Nat.eqb_spec k'' k); [congruence|exact Hf]|]. eapply vmatch_transfer; eassumption. }
      rewrite A2 in Ha''. destruct (Nat.eq_dec ai' ai) as [->|Hna].
      * rewrite nth_error_upd_same in Ha'' by (apply nth_error_Some; congruence). inversion Ha''; subst a''.
        destruct (removed_members _ _ _ _ _ _ _ Hrmd idx' h' Hh') as (old & _ & Hold_e & Hold_c & _).
        destruct Hrmd as (_ & _ & Hab & _). destruct (ab3_fields _ _ Hab) as (Em & _).
        apply (Hold a old Harch Hold_e Em Hold_c).
      * rewrite nth_error_upd_other in Ha'' by congruence. apply (Hold a'' idx' Ha'' Hh' eq_refl). reflexivity.
  - inversion Hd; subst s'. assert (Hna : ~ alive al k) by (intros Ha; apply (valid_l _ _ _ _ _ HG Hk) in Ha; congruence).
    rewrite kill_not_alive by exact Hna.
    assert (Hf : find_ent x k = None) by (apply alive_x_false; destruct (alive_x x k) eqn:E; [exfalso; apply Hna; apply Hal; exact E|reflexivity]).
    unfold x_kill. rewrite Hf. auto.
Qed.

Lemma destroy_now_null s : destroy_now_unlocked s null_handle = Ok s.
Proof. reflexivity. Qed.

(* ---------------------------------------------------------------------------------------- *)
(* the slot of a recorded creation is installed: entity_manager.cpp:286-297 *)
Definition minstall (s : mst) (h : handle) : res mst :=
  let i := N.to_nat (fst h) in
  let s1 := if Nat.ltb i (length (slots s)) then s
            else set_locs (set_slots s (resize (slots s) (S i) null_slot)) (resize (locs s) (S i) default_loc) in
  do sl <- upd_res (slots s1) i {| s_id := fst h; s_ver := snd h |};
  Ok (set_slots s1 sl).

Lemma minstall_facts s h s2 : length (locs s) = length (slots s) -> minstall s h = Ok s2 ->
  let i := N.to_nat (fst h) in
  length (locs s2) = length (slots s2) /\ length (slots s) <= length (slots s2) /\
  nth_error (slots s2) i = Some {| s_id := fst h; s_ver := snd h |} /\
  (forall j, j <> i -> j < length (slots s) -> nth_error (slots s2) j = nth_error (slots s) j) /\
  (forall j, j <> i -> length (slots s) <= j -> j < length (slots s2) -> nth_error (slots s2) j = Some null_slot) /\
  (forall j, j < length (locs s) -> nth_error (locs s2) j = nth_error (locs s) j) /\
  length (slots s2) = Nat.max (length (slots s)) (S i) /\
  next_slot s2 = next_slot s /\ empty_slots s2 = empty_slots s /\ archs s2 = archs s /\ fr4 s2 = fr4 s /\ marked s2 = marked s.
Proof.
  intros Hlen H i. unfold minstall in H. fold i in H.
  destruct (Nat.ltb_spec i (length (slots s))) as [Hlt|Hge].
  - bd H sl Hu. apply upd_res_ok in Hu. destruct Hu as (_ & ->). inversion H; subst s2; clear H. simpl.
    split; [rewrite upd_length; assumption|]. split; [rewrite upd_length; lia|]. split; [apply nth_error_upd_same; assumption|].
    split; [intros j Hj _; apply nth_error_upd_other; congruence|]. split; [intros j _ H1 H2; rewrite upd_length in H2; lia|].
    split; [reflexivity|]. split; [rewrite upd_length; lia|]. repeat split.
  - bd H sl Hu. apply upd_res_ok in Hu. simpl in Hu. destruct Hu as (_ & ->). inversion H; subst s2; clear H. simpl.
    rewrite upd_length, !SkelFlush.resize_length.
    split; [reflexivity|]. split; [lia|]. split; [apply nth_error_upd_same; rewrite SkelFlush.resize_length; lia|].
    split; [intros j Hj Hjl; rewrite nth_error_upd_other by congruence; apply nth_error_resize_old; lia|].
    split; [intros j Hj H1 H2; rewrite nth_error_upd_other by congruence; apply nth_error_resize_new; lia|].
    split; [intros j Hj; apply nth_error_resize_old; lia|]. split; [lia|]. repeat split.
Qed.

Lemma nth_error_map_eq {A B} (f : A -> B) l l' i j : nth_error l' i = nth_error l j -> nth_error (map f l') i = nth_error (map f l) j.
Proof. intros H. rewrite !nth_error_map, H. reflexivity. Qed.

(* ---------------------------------------------------------------------------------------- *)
(* the creation command of the pending handle k = (i, 0) is applied and the entity enters archetype ai *)
Lemma LInv_activate cis s s' hs al rem rem' x k i ai a a3 e_new :
  LInv cis s hs al rem x -> pend rem k -> (forall k', pend rem' k' <-> pend rem k' /\ k' <> k) -> hnd hs k = (i, 0%N) ->
  length (locs s') = length (slots s') -> length (slots s) <= length (slots s') -> length (slots s') <= length hs ->
  nth_error (slots s') (N.to_nat i) = Some {| s_id := i; s_ver := 0%N |} ->
  (forall j, j <> N.to_nat i -> j < length (slots s) -> nth_error (slots s') j = nth_error (slots s) j) ->
  (forall j, j <> N.to_nat i -> length (slots s) <= j -> j < length (slots s') -> nth_error (slots s') j = Some null_slot) ->
  next_slot s' = next_slot s -> empty_slots s' = empty_slots s ->
  nth_error (archs s) ai = Some a ->
  archs s' = upd (archs s) ai a3 -> ab3 a3 = ab3 a -> am_ents a3 = am_ents a ++ [(i, 0%N)] ->
  am_size a3 = Nat.max (am_size a) (S (length (am_ents a))) -> length (am_cols a3) = length (am_cols a) ->
  (forall ci slot, slot <> length (am_ents a) -> get_cell a3 ci slot = get_cell a ci slot) ->
  nth_error (locs s') (N.to_nat i) = Some {| l_arch := Some ai; l_idx := length (am_ents a) |} ->
  (forall j, j <> N.to_nat i -> j < length (locs s) -> nth_error (locs s') j = nth_error (locs s) j) ->
  deps s' = deps s -> cinfos s' = cinfos s ->
  e_k e_new = k -> vmatch e_new a3 (length (am_ents a)) ->
  LInv cis s' hs (al ++ [(k, am_mask a)]) rem' (xput x e_new).
Proof.
  intros HI Hpk Hp Eh A1 A10 A11 A2 A3 A4 En Ee Harch A6 Hab He Hz Hcl Hcells A7 A7o Ed Ec Hek Hnew.
  pose proof HI as [HG Hawf Hdp Hc Hxd Hxc Hcnt Hsl Hal Hv].
  destruct (g_pend HG k Hpk) as (Hk & Hna & _).
  destruct (ab3_fields _ _ Hab) as (Em & _).
  assert (Hai : ai < length (archs s)) by (apply nth_error_Some; congruence).
  assert (HG' : G (proj s') hs (al ++ [(k, am_mask a)]) rem').
  { apply (G_activate (proj s) (proj s') hs al rem rem' k (am_mask a) i ai (parch a) HG Hpk Hp Eh); simpl; rewrite ?map_length.
    - exact A1.
    - exact A10.
    - apply (map_nth_error pslot) in A2. exact A2.
    - intros j Hj Hjl. apply nth_error_map_eq. apply A3; assumption.
    - intros j Hj H1 H2. apply (map_nth_error pslot _ _ (A4 j Hj H1 H2)).
    - exact En.
    - exact Ee.
    - apply map_nth_error. exact Harch.
    - reflexivity.
    - rewrite A6, map_upd. f_equal. apply ab3_parch; [exact Hab|exact He].
    - apply (map_nth_error ploc) in A7. exact A7.
    - intros j Hj Hjl. apply nth_error_map_eq. apply A7o; assumption. }
  constructor.
  - exact HG'.
  - rewrite A6. apply Forall_upd; [exact Hawf|]. eapply awf_inserted; try eassumption. eapply awf_nth; eassumption.
  - congruence.
  - congruence.
  - exact Hxd.
  - exact Hxc.
  - exact Hcnt.
  - exact A11.
  - intros k'. unfold alive. rewrite map_app, in_app_iff. simpl. rewrite alive_x_find, xput_find, Hek.
    destruct (Nat.eqb_spec k' k) as [->|Hne].
    + split; [intros _; discriminate|intros _; right; left; reflexivity].
    + rewrite <- alive_x_find, <- Hal. unfold alive. split; [intros [H|[H|[]]]; [exact H|congruence]|intros H; left; exact H].
  - intros ai' a' idx' h' Ha' Hh'. rewrite A6 in Ha'.
    assert (Hold : forall a0 idx0, nth_error (archs s) ai' = Some a0 -> nth_error (am_ents a0) idx0 = Some h' ->
              am_mask a' = am_mask a0 -> (forall ci, ci < length (mitems (am_mask a0)) -> get_cell a' ci idx' = get_cell a0 ci idx0) ->
              exists k0 e, k0 < length hs /\ hnd hs k0 = h' /\ find_ent (xput x e_new) k0 = Some e /\ vmatch e a' idx').
    { intros a0 idx0 Ha0 Hh0 Em0 Hc0. destruct (Hv ai' a0 idx0 h' Ha0 Hh0) as (k0 & e & Hk0 & Eh0 & Hf & Hvm).
      assert (Hnk : k0 <> k).
      { intros ->. apply Hna. apply Hal. apply alive_x_find. congruence. }
      exists k0, e. split; [exact Hk0|]. split; [exact Eh0|].
      split; [rewrite xput_find, Hek; destruct (Nat.eqb_spec k0 k); [congruence|exact Hf]|].
      eapply vmatch_transfer; eassumption. }
    destruct (Nat.eq_dec ai' ai) as [->|Hnai].
    + rewrite nth_error_upd_same in Ha' by exact Hai. inversion Ha'; subst a'.
      rewrite He in Hh'. destruct (Nat.lt_ge_cases idx' (length (am_ents a))) as [Hlt'|Hge].
      * rewrite nth_error_app1 in Hh' by exact Hlt'. apply (Hold a idx'); [exact Harch|exact Hh'|exact Em|].
        intros ci _. apply Hcells. lia.
      * assert (idx' = length (am_ents a)).
        { assert (idx' < length (am_ents a ++ [(i, 0%N)])) by (apply nth_error_Some; congruence). rewrite app_length in H. simpl in H. lia. }
        subst idx'. rewrite nth_error_app_last in Hh'. inversion Hh'; subst h'.
        exists k, e_new. split; [exact Hk|]. split; [exact Eh|]. split; [rewrite xput_find, Hek, Nat.eqb_refl; reflexivity|exact Hnew].
    + rewrite nth_error_upd_other in Ha' by congruence. apply (Hold a' idx' Ha' Hh' eq_refl). reflexivity.
Qed.

(* ... and the same pack destroys it at once: the slot is installed and released; the entity never enters an archetype *)
Lemma LInv_stillborn cis s s' hs al rem rem' x k i :
  LInv cis s hs al rem x -> pend rem k -> (forall k', pend rem' k' <-> pend rem k' /\ k' <> k) -> hnd hs k = (i, 0%N) ->
  length (locs s') = length (slots s') -> length (slots s) <= length (slots s') -> length (slots s') <= length hs ->
  nth_error (slots s') (N.to_nat i) =
    Some {| s_id := match empty_slots s with O => (i + 1)%N | S _ => next_slot s end; s_ver := 1%N |} ->
  (forall j, j <> N.to_nat i -> j < length (slots s) -> nth_error (slots s') j = nth_error (slots s) j) ->
  (forall j, j <> N.to_nat i -> length (slots s) <= j -> j < length (slots s') -> nth_error (slots s') j = Some null_slot) ->
  next_slot s' = i -> empty_slots s' = S (empty_slots s) -> archs s' = archs s ->
  (forall j, j <> N.to_nat i -> j < length (locs s) -> nth_error (locs s') j = nth_error (locs s) j) ->
  deps s' = deps s -> cinfos s' = cinfos s ->
  LInv cis s' hs al rem' x.
Proof.
  intros HI Hpk Hp Eh A1 A10 A11 A2 A3 A4 En Ee Ea A7o Ed Ec.
  pose proof HI as [HG Hawf Hdp Hc Hxd Hxc Hcnt Hsl Hal Hv].
  constructor; try assumption; try congruence.
  - apply (G_stillborn (proj s) (proj s') hs al rem rem' k i HG Hpk Hp Eh); simpl; rewrite ?map_length.
    + exact A1.
    + exact A10.
    + apply (map_nth_error pslot) in A2. exact A2.
    + intros j Hj Hjl. apply nth_error_map_eq. apply A3; assumption.
    + intros j Hj H1 H2. apply (map_nth_error pslot _ _ (A4 j Hj H1 H2)).
    + exact En.
    + exact Ee.
    + rewrite Ea. reflexivity.
    + intros j Hj Hjl. apply nth_error_map_eq. apply A7o; assumption.
  - unfold Vals. rewrite Ea. exact Hv.
Qed.

(* ---------------------------------------------------------------------------------------- *)
(* a write through getComponent<T>() (in any lock state: the write is immediate) *)
Lemma LInv_set cis s hs al rem x k c z s' out :
  LInv cis s hs al rem x -> c < MASK_BITS ->
  step s (OGetMut (hnd hs k) c (Some z)) = Ok (s', out) ->
  LInv cis s' hs al rem (x_step_in x (XoSet k c z)) /\ fr1 s' = fr1 s.
Proof.
  intros HI Hc128 H. pose proof HI as [HG Hawf Hdp Hc Hxd Hxc Hcnt Hsl Hal Hv].
  rewrite step_getmut in H. unfold x_step_in.
  destruct (is_valid s (hnd hs k)) eqn:Ev; simpl negb in H; cbv iota in H.
  - destruct (valid_find_l _ _ _ _ _ _ _ HI Ev) as (Hk & Ha & _). destruct (alive_in _ _ Ha) as (key & Hin).
    destruct (live_vmatch_l _ _ _ _ _ _ _ _ HI Hin) as (_ & e & ai & idx & a & Hfe & Hloc & Harch & Hkey & Hent & Hvm).
    rewrite (nth_res_some _ _ _ Hloc) in H. bok H. simpl l_arch in H. cbv iota in H. simpl l_idx in H.
    rewrite (nth_res_some _ _ _ Harch) in H. bok H.
    rewrite Hfe. rewrite (vmatch_has _ _ _ _ Hvm Hc128).
    destruct (cindex (am_mask a) c) as [ci|] eqn:Eci.
    + rewrite (cindex_some_has _ _ _ Eci). bd H ch Hch. bd H a1 Ha1. apply vs_set_one_ok in Ha1. destruct Ha1 as (g & cv & ->).
      cbv zeta in H. inversion H; subst s' out; clear H. split; [|reflexivity].
      assert (Hci_lt : ci < length (am_cols a)).
      { destruct (awf_nth _ _ _ Hawf Harch) as (_ & _ & W). rewrite W. apply (cindex_lt _ _ _ Hc128 Eci). }
      set (a' := put_cell (with_vers a g cv) ci idx (Some z)).
      apply (LInv_rewrite cis s hs al rem x k key {| e_k := k; e_comps := insert_comp (e_comps e) c (Some z); e_shared := e_shared e |} ai idx a a' _ HI Hin eq_refl Harch Hent).
      * reflexivity.
      * reflexivity.
      * reflexivity.
      * unfold a'. rewrite put_cell_cols_length. reflexivity.
      * intros ci' slot Hs. unfold a'. rewrite get_put_other_slot by congruence. reflexivity.
      * destruct Hvm as (Hm0 & Hs0 & Hv0).
        assert (Hkeys : map fst (insert_comp (e_comps e) c (Some z)) = mitems (am_mask a)).
        { rewrite map_fst_insert_comp, Hm0, <- (mitems_madd _ _ Hc128). apply mitems_madd_present. eapply cindex_some_has. exact Eci. }
        split; [exact Hkeys|]. split; [exact Hs0|]. cbn [e_comps]. intros c' v' Hin'.
        apply insert_comp_cases in Hin'; [|rewrite Hkeys; apply mitems_nodup].
        unfold acell. change (am_mask a') with (am_mask a). destruct Hin' as [(-> & ->)|(Hnc & Hin')].
        -- rewrite Eci. unfold a'. rewrite get_put_same by exact Hci_lt. apply cell_le_refl_some.
        -- specialize (Hv0 c' v' Hin'). unfold acell in Hv0. destruct (cindex (am_mask a) c') as [ci'|] eqn:Eci'; [|exact Hv0].
           unfold a'. rewrite get_put_other_col; [exact Hv0|]. intros ->. apply Hnc.
           assert (c' < MASK_BITS) by (assert (Hi : In c' (mitems (am_mask a))) by (rewrite <- Hm0; apply in_map_iff; exists (c', v'); auto); apply mitems_in in Hi; tauto).
           eapply cindex_inj; eassumption.
    + apply cindex_none_has in Eci. rewrite Eci. inversion H; subst s' out. split; [exact HI|reflexivity].
  - inversion H; subst s' out. split; [|reflexivity].
    destruct (find_ent x k) as [e|] eqn:Hfe; [|exact HI]. exfalso.
    assert (Ha : alive al k) by (apply Hal; apply alive_x_find; congruence). destruct (alive_in _ _ Ha) as (key & Hin).
    destruct (live_l _ _ _ _ _ _ HG Hin) as (Hk & _). apply (valid_l _ _ _ _ _ HG Hk) in Ha. congruence.
Qed.
