(* C02, extended unlocked alphabet, part (d): one builder edit, not locked
   (EntityManager::apply -> updateComponents / createWithOutInit + initComponents). *)
Require Import Coq.Lists.List Coq.NArith.NArith Coq.ZArith.ZArith Coq.Arith.Arith Coq.Bool.Bool Coq.micromega.Lia.
From Mustache Require Import Res Manager MgrSpec Refine.
From Mustache Require Skeleton.
From Mustache Require Import SkelSpec.
From Mustache.proofs Require Import ListLemmas SkelBasics SkelInv SkelSteps SkelMove SkelRefine ClosureProofs
  ManagerBasics ManagerMoves ManagerProj ManagerInv ManagerMain ManagerWorlds ManagerExtFrames ManagerExtInv ManagerExtClear ManagerExtClone.
Import ListNotations.

(* ---------------------------------------------------------------------------------------- *)
(* masks of the builder *)
Lemma mhas_minter a b c : mhas (minter a b) c = mhas a c && mhas b c.
Proof. unfold mhas, minter. apply N.land_spec. Qed.

Lemma mhas_minverse m c : mhas (minverse m) c = Nat.ltb c MASK_BITS && negb (mhas m c).
Proof.
  unfold mhas, minverse. rewrite N.ldiff_spec. f_equal. unfold MASK_BITS.
  destruct (Nat.ltb_spec c 128) as [H|H].
  - apply N.ones_spec_low. lia.
  - apply N.ones_spec_high. lia.
Qed.

Lemma mhas_fold_madd l : forall m c, mhas (fold_left madd l m) c = mhas m c || existsb (Nat.eqb c) l.
Proof.
  induction l as [|x t IH]; intros m c; simpl; [rewrite orb_false_r; reflexivity|].
  rewrite IH, mhas_madd. destruct (Nat.eqb c x), (mhas m c); reflexivity.
Qed.

Lemma mhas_fold_mdel l : forall m c, mhas (fold_left mdel l m) c = mhas m c && negb (existsb (Nat.eqb c) l).
Proof.
  induction l as [|x t IH]; intros m c; simpl; [rewrite andb_true_r; reflexivity|].
  rewrite IH, mhas_mdel. destruct (Nat.eqb c x), (mhas m c); simpl; try reflexivity.
Qed.

Lemma mhas_mask_of_list l c : mhas (mask_of_list l) c = existsb (Nat.eqb c) l.
Proof. unfold mask_of_list. rewrite mhas_fold_madd, mhas_zero. reflexivity. Qed.

Lemma mitems_ext m1 m2 : (forall c, c < MASK_BITS -> mhas m1 c = mhas m2 c) -> mitems m1 = mitems m2.
Proof. intros H. unfold mitems. apply filter_ext_in. intros c Hc. apply in_seq in Hc. apply H. lia. Qed.

Lemma mok_mask_of_list l : (forall c, In c l -> c < MASK_BITS) -> mok (mask_of_list l).
Proof.
  intros H c Hc. rewrite mhas_mask_of_list in Hc. apply existsb_exists in Hc. destruct Hc as (x & Hx & E). apply Nat.eqb_eq in E. subst x. apply H. exact Hx.
Qed.

Lemma mok_minter_inverse a b : mok (minter a (minverse b)).
Proof. intros c Hc. rewrite mhas_minter, mhas_minverse in Hc. apply andb_true_iff in Hc. destruct Hc as (_ & Hc). apply andb_true_iff in Hc. destruct Hc as (Hc & _). apply Nat.ltb_lt. exact Hc. Qed.

(* ---------------------------------------------------------------------------------------- *)
(* the component list of the edited entity *)
Definition asg (cs : list (nat * cell)) (assigns : list (nat * Z)) : list (nat * cell) :=
  fold_left (fun cs (a : nat * Z) => insert_comp cs (fst a) (Some (snd a))) assigns cs.
Definition rmv (cs : list (nat * cell)) (removes : list nat) : list (nat * cell) :=
  fold_left (fun cs c => filter (fun p : nat * cell => negb (Nat.eqb (fst p) c)) cs) removes cs.

Lemma keys_asg assigns : forall cs m0, map fst cs = mitems m0 -> (forall c z, In (c, z) assigns -> c < MASK_BITS) ->
  map fst (asg cs assigns) = mitems (fold_left madd (map fst assigns) m0).
Proof.
  induction assigns as [|(c, z) t IH]; intros cs m0 Hk Hc; simpl; [exact Hk|].
  apply IH.
  - rewrite map_fst_insert_comp, Hk. symmetry. apply mitems_madd. apply (Hc c z). left. reflexivity.
  - intros c' z' Hin. apply (Hc c' z'). right. exact Hin.
Qed.

Lemma keys_rmv removes : forall cs m0, map fst cs = mitems m0 -> map fst (rmv cs removes) = mitems (fold_left mdel removes m0).
Proof.
  induction removes as [|c t IH]; intros cs m0 Hk; simpl; [exact Hk|].
  apply IH. rewrite map_fst_filter, Hk. symmetry. apply mitems_mdel.
Qed.

Lemma rmv_in removes : forall cs p, In p (rmv cs removes) -> In p cs.
Proof.
  induction removes as [|c t IH]; intros cs p H; simpl in H; [exact H|]. apply IH in H. apply filter_In in H. tauto.
Qed.

Lemma asg_in assigns : forall cs c v, In (c, v) (asg cs assigns) -> (exists z, In (c, z) assigns /\ v = Some z) \/ In (c, v) cs.
Proof.
  induction assigns as [|(c0, z0) t IH]; intros cs c v H; simpl in H; [right; exact H|].
  destruct (IH _ _ _ H) as [(z & Hz & E)|Hin]; [left; exists z; split; [right; exact Hz|exact E]|].
  apply insert_comp_weak in Hin. destruct Hin as [(E1 & E2)|Hin]; [|right; exact Hin].
  left. exists z0. subst. split; [left; reflexivity|reflexivity].
Qed.

Lemma ins_nat_in c l x : In x (ins_nat c l) <-> x = c \/ In x l.
Proof.
  induction l as [|y t IH]; simpl; [intuition|].
  destruct (Nat.eqb_spec c y) as [->|Hne]; [simpl; intuition|].
  destruct (Nat.ltb c y); simpl; [intuition|]. rewrite IH. intuition.
Qed.

Lemma has_comp_insert cs c v c' : has_comp (insert_comp cs c v) c' = Nat.eqb c' c || has_comp cs c'.
Proof.
  apply eq_iff_eq_true. rewrite orb_true_iff, !has_comp_in, map_fst_insert_comp, ins_nat_in, Nat.eqb_eq. tauto.
Qed.

Lemma filter_absent cs c : has_comp cs c = false -> filter (fun p : nat * cell => negb (Nat.eqb (fst p) c)) cs = cs.
Proof.
  unfold has_comp. induction cs as [|p t IH]; simpl; intros H; [reflexivity|]. apply orb_false_iff in H. destruct H as (H1 & H2).
  rewrite H1. simpl. f_equal. apply IH. exact H2.
Qed.

(* ---------------------------------------------------------------------------------------- *)
(* the specification: a sequence of assigns, then of removes, on one live entity *)
Definition xasg (k : nat) (x : xst) (assigns : list (nat * Z)) : xst :=
  fold_left (fun st (a : nat * Z) => x_assign st k (fst a) (Some (snd a))) assigns x.
Definition xrmv (k : nat) (x : xst) (removes : list nat) : xst := fold_left (fun st c => x_remove st k c) removes x.

Lemma xasg_viol_mono k assigns : forall x, x_viol x <= x_viol (xasg k x assigns).
Proof.
  induction assigns as [|a t IH]; intros x; simpl; [lia|]. pose proof (x_viol_assign x k (fst a) (Some (snd a))). pose proof (IH (x_assign x k (fst a) (Some (snd a)))).
  unfold xasg in *. lia.
Qed.

Lemma xrmv_viol k removes : forall x, x_viol (xrmv k x removes) = x_viol x.
Proof. induction removes as [|c t IH]; intros x; simpl; [reflexivity|]. unfold xrmv in *. rewrite IH. apply x_viol_remove. Qed.

Lemma xwf_assign x k c v : xwf x -> xwf (x_assign x k c v).
Proof.
  intros Hw. pose proof Hw as (Hl & Hd & _). destruct (find_ent x k) as [e|] eqn:Hf.
  - destruct (has_comp (e_comps e) c) eqn:Hh.
    + unfold x_assign. rewrite Hf, Hh. exact Hw.
    + destruct (x_assign_eq x k c v e Hd Hf Hh) as (F & E). eapply xwf_put; [exact Hw|exact F|exact E|]. simpl. eapply find_ent_lt; eassumption.
  - unfold x_assign. rewrite Hf. exact Hw.
Qed.

Lemma xwf_remove x k c : xwf x -> xwf (x_remove x k c).
Proof.
  intros Hw. pose proof Hw as (Hl & Hd & _). destruct (find_ent x k) as [e|] eqn:Hf.
  - destruct (has_comp (e_comps e) c) eqn:Hh.
    + destruct (x_remove_eq x k c e Hd Hf Hh) as (F & E). eapply xwf_put; [exact Hw|exact F|exact E|]. simpl. eapply find_ent_lt; eassumption.
    + rewrite (x_remove_absent _ _ _ _ Hf Hh). exact Hw.
  - unfold x_remove. rewrite Hf. exact Hw.
Qed.

Lemma xasg_spec k assigns : forall x e, xwf x -> find_ent x k = Some e -> x_viol (xasg k x assigns) = x_viol x ->
  xfr (xasg k x assigns) = xfr x /\ xwf (xasg k x assigns) /\
  (forall k', find_ent (xasg k x assigns) k' =
     if Nat.eqb k' k then Some {| e_k := k; e_comps := asg (e_comps e) assigns; e_shared := e_shared e |} else find_ent x k') /\
  (forall c z, In (c, z) assigns -> has_comp (e_comps e) c = false).
Proof.
  induction assigns as [|(c, z) t IH]; intros x e Hw Hf Hviol.
  - simpl. split; [reflexivity|]. split; [exact Hw|]. split; [|intros c z []].
    intros k'. destruct (Nat.eqb_spec k' k) as [->|Hne]; [|reflexivity]. rewrite Hf. f_equal. pose proof (findk_key _ _ _ Hf) as Ek. destruct e; simpl in *. subst. reflexivity.
  - unfold xasg in *. simpl in *. pose proof Hw as (Hl & Hd & _).
    assert (Hv1 : x_viol (x_assign x k c (Some z)) = x_viol x).
    { pose proof (x_viol_assign x k c (Some z)). pose proof (xasg_viol_mono k t (x_assign x k c (Some z))) as Hmono. unfold xasg in Hmono. lia. }
    assert (Hhc : has_comp (e_comps e) c = false).
    { destruct (has_comp (e_comps e) c) eqn:E; [|reflexivity]. unfold x_assign in Hv1. rewrite Hf, E in Hv1. simpl in Hv1. lia. }
    destruct (x_assign_eq x k c (Some z) e Hd Hf Hhc) as (Fx & Ex).
    set (e1 := {| e_k := k; e_comps := insert_comp (e_comps e) c (Some z); e_shared := e_shared e |}) in *.
    assert (Hf1 : forall k', find_ent (x_assign x k c (Some z)) k' = if Nat.eqb k' k then Some e1 else find_ent x k').
    { intros k'. rewrite find_ent_findk, Ex, findk_put. reflexivity. }
    destruct (IH (x_assign x k c (Some z)) e1) as (F2 & W2 & H2 & A2).
    + apply xwf_assign. exact Hw.
    + rewrite Hf1, Nat.eqb_refl. reflexivity.
    + rewrite Hv1. exact Hviol.
    + split; [rewrite F2; exact Fx|]. split; [exact W2|]. split.
      * intros k'. rewrite H2, Hf1. destruct (Nat.eqb k' k); reflexivity.
      * intros c' z' [E|Hin]; [inversion E; subst; exact Hhc|].
        specialize (A2 c' z' Hin). simpl in A2. rewrite has_comp_insert in A2. apply orb_false_iff in A2. tauto.
Qed.

Lemma xrmv_spec k removes : forall x e, xwf x -> find_ent x k = Some e ->
  xfr (xrmv k x removes) = xfr x /\ xwf (xrmv k x removes) /\
  (forall k', find_ent (xrmv k x removes) k' =
     if Nat.eqb k' k then Some {| e_k := k; e_comps := rmv (e_comps e) removes; e_shared := e_shared e |} else find_ent x k').
Proof.
  induction removes as [|c t IH]; intros x e Hw Hf.
  - simpl. split; [reflexivity|]. split; [exact Hw|].
    intros k'. destruct (Nat.eqb_spec k' k) as [->|Hne]; [|reflexivity]. rewrite Hf. f_equal. pose proof (findk_key _ _ _ Hf) as Ek. destruct e; simpl in *. subst. reflexivity.
  - unfold xrmv in *. simpl. pose proof Hw as (Hl & Hd & _).
    set (e1 := {| e_k := k; e_comps := filter (fun p : nat * cell => negb (Nat.eqb (fst p) c)) (e_comps e); e_shared := e_shared e |}).
    assert (H1 : xfr (x_remove x k c) = xfr x /\ forall k', find_ent (x_remove x k c) k' = if Nat.eqb k' k then Some e1 else find_ent x k').
    { destruct (has_comp (e_comps e) c) eqn:Hh.
      - destruct (x_remove_eq x k c e Hd Hf Hh) as (Fx & Ex). split; [exact Fx|]. intros k'. rewrite find_ent_findk, Ex, findk_put. reflexivity.
      - rewrite (x_remove_absent _ _ _ _ Hf Hh). split; [reflexivity|]. intros k'. destruct (Nat.eqb_spec k' k) as [->|Hne]; [|reflexivity].
        rewrite Hf. f_equal. unfold e1. rewrite (filter_absent _ _ Hh). pose proof (findk_key _ _ _ Hf) as Ek. destruct e; simpl in *. subst. reflexivity. }
    destruct H1 as (Fx & Hf1).
    destruct (IH (x_remove x k c) e1) as (F2 & W2 & H2).
    + apply xwf_remove. exact Hw.
    + rewrite Hf1, Nat.eqb_refl. reflexivity.
    + split; [rewrite F2; exact Fx|]. split; [exact W2|].
      intros k'. rewrite H2, Hf1. destruct (Nat.eqb k' k); reflexivity.
Qed.

(* ---------------------------------------------------------------------------------------- *)
(* rewriting the cells of one live entity *)
Lemma MInv_cells cis s hs al x k key ai idx a a' s' e_new :
  MInv cis s hs al x -> In (k, key) al ->
  nth_error (archs s) ai = Some a -> nth_error (am_ents a) idx = Some (hnd hs k) ->
  fr1 s' = fr1 s -> archs s' = upd (archs s) ai a' -> ab2 a' = ab2 a -> length (am_cols a') = length (am_cols a) ->
  (forall ci slot, slot <> idx -> get_cell a' ci slot = get_cell a ci slot) ->
  e_k e_new = k -> vmatch e_new a' idx ->
  MInv cis s' hs al (xput x e_new).
Proof.
  intros [HG Hawf Hl Hdp Hc Hxl Hxd Hxc Hcnt Hsl Hal Hv] Hin Ha Hent F A Hab Hcl Hoth Hek Hvnew.
  destruct (ab2_fields _ _ Hab) as (Em & Esh & Ee & Ez & Ech).
  assert (Hai : ai < length (archs s)) by (apply nth_error_Some; congruence).
  assert (Hproj : proj s' = proj s).
  { rewrite (proj_fr1 _ _ F), A, map_upd. assert (E : parch a' = parch a) by (unfold parch; rewrite Em, Ee; reflexivity).
    rewrite E. rewrite upd_same_id by (apply map_nth_error; exact Ha). destruct s; reflexivity. }
  destruct (fr3_ctl _ _ (fr2_fr3 _ _ (fr1_fr2 _ _ F))) as (E1 & E2 & E3 & _).
  destruct (fr2_slots _ _ (fr1_fr2 _ _ F)) as (E4 & _).
  assert (Hk : k < length hs) by (destruct (live_m _ _ _ _ _ HG Hin); assumption).
  constructor; try (simpl; congruence).
  - rewrite A. apply Forall_upd; [exact Hawf|]. destruct (awf_nth _ _ _ Hawf Ha) as (W1 & W2 & W3). unfold awf. rewrite Esh, Ez, Ee, Hcl, Em. auto.
  - intros k'. rewrite Hal, !alive_x_find, xput_find. rewrite Hek. destruct (Nat.eqb_spec k' k) as [->|Hne]; [|tauto].
    split; [intros _; discriminate|]. intros _. apply alive_x_find. apply Hal. unfold alive. apply in_map_iff. exists (k, key). auto.
  - intros ai' a'' idx' h' Ha'' Hh'. rewrite A in Ha''.
    destruct (Nat.eq_dec ai' ai) as [->|Hna].
    + rewrite nth_error_upd_same in Ha'' by exact Hai. inversion Ha''; subst a''. rewrite Ee in Hh'.
      destruct (Hv ai a idx' h' Ha Hh') as (k0 & e0 & Hk0 & Eh0 & Hf0 & Hvm0).
      destruct (Nat.eq_dec idx' idx) as [->|Hni].
      * assert (Ehh : h' = hnd hs k) by (rewrite Hent in Hh'; congruence).
        assert (k0 = k) by (eapply (hnd_inj _ hs _ _ _ _ HG); [exact Hk0|exact Hk|rewrite Eh0; exact Ehh]). subst k0.
        exists k, e_new. split; [exact Hk|]. split; [exact Eh0|]. split; [rewrite xput_find, Hek, Nat.eqb_refl; reflexivity|exact Hvnew].
      * assert (Hnk : k0 <> k).
        { intros ->. rewrite Eh0 in Hent. destruct (member_unique _ _ _ _ _ _ _ _ _ _ HG Ha Hh' Ha Hent). congruence. }
        exists k0, e0. split; [exact Hk0|]. split; [exact Eh0|].
        split; [rewrite xput_find, Hek; destruct (Nat.eqb_spec k0 k); [congruence|exact Hf0]|].
        eapply vmatch_transfer; [exact Hvm0|exact Em|]. intros ci' _. apply Hoth. exact Hni.
    + rewrite nth_error_upd_other in Ha'' by congruence.
      destruct (Hv ai' a'' idx' h' Ha'' Hh') as (k0 & e0 & Hk0 & Eh0 & Hf0 & Hvm0).
      assert (Hnk : k0 <> k).
      { intros ->. rewrite Eh0 in Hent. destruct (member_unique _ _ _ _ _ _ _ _ _ _ HG Ha'' Hh' Ha Hent). congruence. }
      exists k0, e0. split; [exact Hk0|]. split; [exact Eh0|].
      split; [rewrite xput_find, Hek; destruct (Nat.eqb_spec k0 k); [congruence|exact Hf0]|exact Hvm0].
Qed.

(* ---------------------------------------------------------------------------------------- *)
(* initComponents: every assigned component gets its value *)
Definition assigns_ok (cis : list cinfo) (assigns : list (nat * Z)) : Prop :=
  forall c z, In (c, z) assigns -> c < MASK_BITS /\ forall inf, nth_error cis c = Some inf -> ci_hasval inf = true.

Lemma init_fold s h ai idx a assigns s' :
  nth_error (locs s) (N.to_nat (fst h)) = Some {| l_arch := Some ai; l_idx := idx |} ->
  nth_error (archs s) ai = Some a -> length (am_cols a) = length (mitems (am_mask a)) ->
  NoDup (map fst assigns) -> assigns_ok (cinfos s) assigns ->
  fold_res (fun st (a0 : nat * Z) => init_component_arch st h (fst a0) (snd a0)) assigns s = Ok s' ->
  exists a', cells_of s ai idx a s' a' /\
    (forall c z, In (c, z) assigns -> exists ci, cindex (am_mask a) c = Some ci /\ get_cell a' ci idx = Some z) /\
    (forall ci, (forall c z, In (c, z) assigns -> cindex (am_mask a) c <> Some ci) -> get_cell a' ci idx = get_cell a ci idx).
Proof.
  intros Hloc Ha Hlen Hnd Hok H.
  pose (P := fun (done : list (nat * Z)) st => exists a_st, cells_of s ai idx a st a_st /\
     (forall c z, In (c, z) done -> exists ci, cindex (am_mask a) c = Some ci /\ get_cell a_st ci idx = Some z) /\
     (forall ci, (forall c z, In (c, z) done -> cindex (am_mask a) c <> Some ci) -> get_cell a_st ci idx = get_cell a ci idx)).
  change (P assigns s').
  match type of H with fold_res ?f _ _ = _ => apply (fold_res_ind f P assigns s s'); [| |exact H] end.
  - exists a. split; [apply cells_of_refl; exact Ha|]. split; [intros c z []|reflexivity].
  - intros done (c, z) rest st st' El (a_st & Hc & Hdone & Hun) Hf. cbn [fst snd] in Hf.
    assert (Hin : In (c, z) assigns) by (rewrite El; apply in_or_app; right; left; reflexivity).
    destruct (Hok c z Hin) as (Hc128 & Hhv).
    unfold init_component_arch in Hf. bd Hf inf Hinf. apply info_of_ok in Hinf. rewrite (fr1_cinfos _ _ (proj1 Hc)) in Hinf.
    bd Hf la Hla. assert (Ela : la = (ai, idx)).
    { unfold loc_arch in Hla. rewrite (fr1_locs _ _ (proj1 Hc)), (nth_res_some _ _ _ Hloc) in Hla. bok Hla. simpl in Hla. inversion Hla. reflexivity. }
    subst la. cbv beta iota in Hf. rewrite (nth_res_some _ _ _ (cells_of_nth _ _ _ _ _ _ Ha Hc)) in Hf. bok Hf.
    assert (Em : am_mask a_st = am_mask a).
    { destruct Hc as (_ & _ & B & _). apply (f_equal am_mask) in B. exact B. }
    rewrite Em in Hf. destruct (cindex (am_mask a) c) as [ci|] eqn:Eci; [|discriminate].
    rewrite (Hhv inf Hinf) in Hf. bd Hf s1 Hw.
    destruct (cells_of_write _ _ _ _ _ _ _ _ _ Ha Hc Hw) as (-> & Hc2). inversion Hf; subst st'; clear Hf.
    assert (Hci : ci < length (am_cols a_st)).
    { destruct Hc as (_ & _ & _ & E & _). rewrite E, Hlen. apply (cindex_lt _ _ _ Hc128 Eci). }
    exists (put_cell a_st ci idx (Some z)). split.
    { eapply cells_of_olog; [|apply olog_if]. eapply cells_of_olog; [exact Hc2|apply olog_if]. }
    split.
    + intros c' z' Hin'. apply in_app_or in Hin'. destruct Hin' as [Hin'|[E|[]]].
      * destruct (Hdone c' z' Hin') as (ci' & Eci' & Hv'). exists ci'. split; [exact Eci'|].
        rewrite get_put_other_col; [exact Hv'|]. intros Ecc. rewrite <- Ecc in Eci'.
        assert (Hc' : c' < MASK_BITS) by (apply (Hok c' z'); rewrite El; apply in_or_app; left; exact Hin').
        assert (c = c') by (apply (cindex_inj (am_mask a) c c' ci Hc128 Hc' Eci Eci')). subst c'.
        rewrite El, map_app in Hnd. simpl in Hnd. apply NoDup_remove_2 in Hnd. apply Hnd. apply in_or_app. left. apply in_map_iff. exists (c, z'). auto.
      * inversion E; subst c' z'. exists ci. split; [exact Eci|]. apply get_put_same. exact Hci.
    + intros ci' Hni. rewrite get_put_other_col.
      * apply Hun. intros c' z' Hin'. apply (Hni c' z'). apply in_or_app. left. exact Hin'.
      * intros Ecc. apply (Hni c z); [apply in_or_app; right; left; reflexivity|rewrite <- Ecc; exact Eci].
Qed.

(* ---------------------------------------------------------------------------------------- *)
(* the builder on an existing entity: updateComponents, not locked *)
Lemma step_build_some s tid h assigns removes : lockc s = 0 ->
  step s (OBuild tid (Some h) assigns removes) = (do s1 <- build_update_unlocked s h assigns removes; Ok (s1, RNone)).
Proof. intros Hl. unfold step. rewrite Hl. reflexivity. Qed.

Lemma x_build_some x tid k assigns removes : x_lock x = 0 ->
  x_step_in x (XoBuild tid (Some k) assigns removes) = xrmv k (xasg k x assigns) removes.
Proof. intros Hl. unfold x_step_in. rewrite Hl. reflexivity. Qed.

(* an in-contract edit changes the component set: it adds a component the entity does not have (and does not remove it
   again), or it adds nothing and removes a component the entity has.  So the target archetype of updateComponents is
   never the current one (without dependencies; with them, removing a dependent of a master that stays maps back). *)
Lemma build_mask_changes cs pm assigns removes :
  map fst cs = mitems pm ->
  (forall c z, In (c, z) assigns -> c < MASK_BITS) ->
  (forall c z, In (c, z) assigns -> has_comp cs c = false) ->
  existsb (fun a : nat * Z => existsb (Nat.eqb (fst a)) removes) assigns = false ->
  (match assigns with [] => true | _ => false end) && negb (existsb (has_comp cs) removes) = false ->
  minter (munion (mask_of_list (map fst assigns)) pm) (minverse (mask_of_list removes)) <> pm.
Proof.
  intros Hk Hlt Habs Hdisj Hchg E.
  assert (Hhas : forall c, mhas pm c = true -> c < MASK_BITS -> has_comp cs c = true).
  { intros c Hc Hc128. apply has_comp_in. rewrite Hk. apply mitems_in. split; assumption. }
  destruct assigns as [|(c, z) t].
  - simpl in Hchg. apply negb_false_iff in Hchg. apply existsb_exists in Hchg. destruct Hchg as (r & Hr & Hhr).
    apply has_comp_in in Hhr. rewrite Hk in Hhr. apply mitems_in in Hhr. destruct Hhr as (Hr128 & Hhr).
    rewrite <- E in Hhr. rewrite mhas_minter, mhas_minverse, mhas_mask_of_list in Hhr.
    assert (Ex : existsb (Nat.eqb r) removes = true) by (apply existsb_exists; exists r; split; [exact Hr|apply Nat.eqb_refl]).
    rewrite Ex in Hhr. simpl in Hhr. rewrite !andb_false_r in Hhr. discriminate.
  - assert (Hin : In (c, z) ((c, z) :: t)) by (left; reflexivity).
    pose proof (Hlt c z Hin) as Hc128. pose proof (Habs c z Hin) as Hnc.
    assert (Hm : mhas pm c = true).
    { rewrite <- E. rewrite mhas_minter, mhas_minverse, mhas_union, !mhas_mask_of_list.
      simpl in Hdisj. apply orb_false_iff in Hdisj. destruct Hdisj as (Hd & _). rewrite Hd.
      simpl. rewrite Nat.eqb_refl. apply Nat.ltb_lt in Hc128. rewrite Hc128. reflexivity. }
    rewrite (Hhas c Hm Hc128) in Hnc. discriminate.
Qed.

Lemma MInvE_build_some cis s hs al x tid k assigns removes s' out :
  MInvE cis s hs al x -> assigns_ok cis assigns -> NoDup (map fst assigns) ->
  alive_x x k = true -> out_of_contract x (XoBuild tid (Some k) assigns removes) = false ->
  x_viol (x_step_in x (XoBuild tid (Some k) assigns removes)) = x_viol x ->
  step s (OBuild tid (Some (hnd hs k)) assigns removes) = Ok (s', out) ->
  out = RNone /\ exists al', MInvE cis s' hs al' (x_step_in x (XoBuild tid (Some k) assigns removes)).
Proof.
  intros HE Hok Hnd Hax Hooc Hviol H. pose proof HE as [HI HM Hw Hmi Hml Hmk].
  pose proof HI as [HG Hawf Hl Hdp Hc Hxl Hxd Hxc Hcnt Hsl Hal Hv].
  destruct (alive_in _ _ (proj2 (Hal k) Hax)) as (key & Hin).
  destruct (find_ent x k) as [e|] eqn:Hfe; [|apply alive_x_find in Hax; congruence].
  (* the contract: no component both assigned and removed; the edit changes the component set *)
  simpl in Hooc. rewrite Hxl, Hfe in Hooc. apply orb_false_iff in Hooc. destruct Hooc as (Hooc & Hchg).
  apply orb_false_iff in Hooc. destruct Hooc as (Hdisj & _).
  destruct (live_vmatch _ _ _ _ _ _ _ _ HI Hin Hfe) as (Hk & pai & pidx & pa & Hloc & Hpa & Hkey & Hent & Hvm).
  rewrite (x_build_some _ _ _ _ _ Hxl) in *.
  (* the specification *)
  rewrite xrmv_viol in Hviol.
  destruct (xasg_spec k assigns x e Hw Hfe Hviol) as (F1 & W1 & Hf1 & Habs).
  set (e1 := {| e_k := k; e_comps := asg (e_comps e) assigns; e_shared := e_shared e |}) in *.
  assert (Hfe1 : find_ent (xasg k x assigns) k = Some e1) by (rewrite Hf1, Nat.eqb_refl; reflexivity).
  destruct (xrmv_spec k removes _ e1 W1 Hfe1) as (F2 & W2 & Hf2). cbn [e_comps e_shared e1] in Hf2.
  set (e_fin := {| e_k := k; e_comps := rmv (asg (e_comps e) assigns) removes; e_shared := e_shared e |}) in *.
  (* the model *)
  rewrite (step_build_some _ _ _ _ _ Hl) in H. bd H s3 Hb. inversion H; subst s' out; clear H. split; [reflexivity|].
  unfold build_update_unlocked in Hb. cbv zeta in Hb. bd Hb la Hla.
  assert (Ela : la = (pai, pidx)).
  { unfold loc_arch in Hla. rewrite (nth_res_some _ _ _ Hloc) in Hla. bok Hla. simpl in Hla. inversion Hla. reflexivity. }
  subst la. cbv beta iota in Hb. rewrite (nth_res_some _ _ _ Hpa) in Hb. bok Hb.
  destruct (awf_nth _ _ _ Hawf Hpa) as (Wp1 & Wp2 & Wp3). rewrite Wp1 in Hb. change (si_merge si_null si_null) with si_null in Hb.
  bd Hb rg Hga. destruct rg as (s_g, ai). cbv beta iota in Hb.
  remember (mask_of_list (map fst assigns)) as skip eqn:Eskip.
  remember (minter (munion skip (am_mask pa)) (minverse (mask_of_list removes))) as m eqn:Em.
  assert (Hmokm : mok m) by (rewrite Em; apply mok_minter_inverse).
  destruct (MInvE_get_arch _ _ _ _ _ _ _ _ HE Hmokm Hga) as (HEg & Fg & Hkeep & a_t & Hat & Hmt).
  bd Hb s2 Hmv. pose proof HEg as [HIg HMg _ Hmig _ Hmkg].
  assert (Hloc_g : nth_error (locs s_g) (N.to_nat (fst (hnd hs k))) = Some {| l_arch := Some pai; l_idx := pidx |})
    by (rewrite (fr1_locs _ _ Fg); exact Hloc).
  assert (Hpa_g : nth_error (archs s_g) pai = Some pa) by (apply Hkeep; exact Hpa).
  (* the target archetype is not the current one: the move is not skipped *)
  destruct (Nat.eqb_spec ai pai) as [Esame|_].
  { exfalso. subst ai. assert (Eat : a_t = pa) by congruence. subst a_t.
    refine (build_mask_changes (e_comps e) (am_mask pa) assigns removes (proj1 Hvm) _ Habs Hdisj Hchg _).
    - intros c z Hcz. apply (Hok c z Hcz).
    - rewrite <- Eskip, <- Em. symmetry. exact Hmt. }
  set (e_mid := {| e_k := k; e_comps := map (fun c : nat => (c, @None Z)) (mitems m); e_shared := [] |}).
  assert (Hnew : forall a2, am_mask a2 = am_mask a_t ->
     (forall ci c0, nth_error (mitems (am_mask a_t)) ci = Some c0 ->
        (forall pci, cindex (am_mask pa) c0 = Some pci -> get_cell a2 ci (length (am_ents a_t)) = get_cell pa pci pidx) /\
        (cindex (am_mask pa) c0 = None -> mhas skip c0 = false ->
         cell_le (default_cell cis c0) (get_cell a2 ci (length (am_ents a_t))) = true)) ->
     vmatch e_mid a2 (length (am_ents a_t))).
  { intros a2 Em2 _. split; [simpl; rewrite map_map; simpl; rewrite map_id, Em2, Hmt; reflexivity|]. split; [reflexivity|].
    simpl. intros c v Hcv. apply in_map_iff in Hcv. destruct Hcv as (c0 & E & _). inversion E. reflexivity. }
  destruct (MInv_move cis s_g hs al x k key e ai a_t pai pidx pa skip s2 e_mid HIg Hin Hfe eq_refl Hloc_g Hpa_g Hent Hat Hmv Hnew)
    as (HI2 & a2 & Ha2 & Em2 & Hent2 & Hloc2).
  destruct (awf_nth _ _ _ (mi_awf _ _ _ _ _ HIg) Hat) as (Wt1 & Wt2 & Wt3).
  destruct (external_move_ok _ _ _ _ _ _ _ _ _ Hat Hpa_g Wt3 Wp2 Wp3 Hmv)
    as (Hne & a2' & pa' & pent & l3 & F & A & Hpent & Hrm & Hlt & L & Hab & He & Hz & Hcl & Hcells & Hval).
  assert (Ea2 : a2' = a2).
  { assert (E : nth_error (archs s2) ai = Some a2').
    { rewrite A, nth_error_upd_other by congruence. apply nth_error_upd_same. apply nth_error_Some. congruence. }
    congruence. }
  subst a2'.
  destruct (awf_nth _ _ _ (mi_awf _ _ _ _ _ HI2) Ha2) as (_ & _ & Wa2).
  assert (Hok2 : assigns_ok (cinfos s2) assigns) by (rewrite (mi_cis _ _ _ _ _ HI2); exact Hok).
  destruct (init_fold s2 (hnd hs k) ai (length (am_ents a_t)) a2 assigns s3 Hloc2 Ha2 Wa2 Hnd Hok2 Hb) as (a3 & Hc3 & Hset & Hkeep3).
  destruct Hc3 as (F3 & A3 & B3 & L3 & C3).
  assert (Em3 : am_mask a3 = am_mask a2) by (apply (f_equal am_mask) in B3; exact B3).
  rewrite (mi_cis _ _ _ _ _ HIg) in Hval.
  assert (HI3 : MInv cis s3 hs (retag al k (am_mask a_t)) (xput (xput x e_mid) e_fin)).
  { eapply (MInv_cells cis s2 hs _ (xput x e_mid) k (am_mask a_t) ai (length (am_ents a_t)) a2 a3 s3 e_fin HI2).
    - eapply retag_same. exact Hin.
    - exact Ha2.
    - exact Hent2.
    - exact F3.
    - exact A3.
    - apply ab1_ab2. exact B3.
    - exact L3.
    - exact C3.
    - reflexivity.
    - destruct Hvm as (Hm0 & Hs0 & Hv0).
      assert (Hkeys : map fst (rmv (asg (e_comps e) assigns) removes) = mitems m).
      { rewrite (keys_rmv removes _ (fold_left madd (map fst assigns) (am_mask pa))).
        2:{ apply keys_asg; [exact Hm0|]. intros c z Hcz. apply (Hok c z Hcz). }
        apply mitems_ext. intros c Hc128. rewrite mhas_fold_mdel, mhas_fold_madd. rewrite Em, Eskip.
        rewrite mhas_minter, mhas_minverse, mhas_union, !mhas_mask_of_list. apply Nat.ltb_lt in Hc128. rewrite Hc128.
        destruct (existsb (Nat.eqb c) (map fst assigns)), (mhas (am_mask pa) c), (existsb (Nat.eqb c) removes); reflexivity. }
      split; [simpl; rewrite Em3, Em2, Hmt; exact Hkeys|]. split; [exact Hs0|].
      simpl. intros c v Hcv.
      assert (Hcm : In c (mitems m)) by (rewrite <- Hkeys; apply in_map_iff; exists (c, v); auto).
      apply In_nth_error in Hcm. destruct Hcm as (ci & Hci). pose proof (nth_cindex _ _ _ Hci) as Eci.
      unfold acell. rewrite Em3, Em2, Hmt, Eci.
      apply rmv_in in Hcv. apply asg_in in Hcv. destruct Hcv as [(z & Hzz & ->)|Hcv].
      + destruct (Hset c z Hzz) as (ci' & Eci' & Hv'). rewrite Em2, Hmt, Eci in Eci'. inversion Eci'; subst ci'. rewrite Hv'. apply cell_le_refl_some.
      + assert (Hhas : has_comp (e_comps e) c = true) by (apply has_comp_in; apply in_map_iff; exists (c, v); auto).
        destruct (vmatch_lt e pa pidx c v (conj Hm0 (conj Hs0 Hv0)) Hcv) as (Hc128 & Hpm).
        rewrite Hkeep3.
        * destruct (cindex (am_mask pa) c) as [pci|] eqn:Epci; [|apply cindex_none_has in Epci; congruence].
          destruct (Hval ci c) as (Hmoved & _); [rewrite Hmt; exact Hci|]. rewrite (Hmoved pci Epci).
          specialize (Hv0 c v Hcv). unfold acell in Hv0. rewrite Epci in Hv0. exact Hv0.
        * intros c' z' Hz' Ecc. rewrite Em2, Hmt in Ecc.
          assert (c' = c) by (apply (cindex_inj m c' c ci (proj1 (Hok c' z' Hz')) Hc128 Ecc Eci)). subst c'.
          rewrite (Habs c z' Hz') in Hhas. discriminate. }
  assert (Mk3 : marked s3 = marked s_g).
  { rewrite (sim_fr1 _ _ F3). apply (proj1 (external_move_sim _ _ _ _ _ _ _ Hmv)). }
  destruct (xfr_fields _ _ F1) as (X1 & X2 & X3 & X4 & X5). destruct (xfr_fields _ _ F2) as (Y1 & Y2 & Y3 & Y4 & Y5).
  pose proof (xfr_marked _ _ F1) as Xm. pose proof (xfr_marked _ _ F2) as Ym.
  exists (retag al k (am_mask a_t)). constructor.
  - eapply MInv_ext2; [exact HI3| | | | |]; simpl; try congruence.
    intros k'. rewrite Hf2, Hf1, !xput_find. simpl. destruct (Nat.eqb k' k); reflexivity.
  - unfold Mok. rewrite A3, (masks_upd _ _ a2 _ Ha2 Em3). eapply sim_Mok; [eapply external_move_sim; exact Hmv|exact HMg].
  - exact W2.
  - rewrite Mk3. exact Hmig.
  - intros k' Hk'. apply Hml. congruence.
  - intros k' Hk'. rewrite Mk3, Ym, Xm. apply Hmkg. exact Hk'.
Qed.

(* ---------------------------------------------------------------------------------------- *)
(* the builder on a new entity: createWithOutInit, then the archetype lookup, insert without constructors, initComponents *)
Lemma get_arch_unfold s m sh : deps s = [] ->
  get_arch s m sh = match find_arch (archs s) m sh 0 with
                    | Some i => Ok (s, i)
                    | None => do cs <- resolve_chunk s m; Ok (set_archs s (archs s ++ [new_arch m sh cs]), length (archs s))
                    end.
Proof. intros Hd. unfold get_arch, extra_components. rewrite Hd, bind_Ok. cbv zeta. rewrite munion_zero. reflexivity. Qed.

Lemma resolve_chunk_frame s s' m : def_chunk s' = def_chunk s -> chunk_fns s' = chunk_fns s -> resolve_chunk s' m = resolve_chunk s m.
Proof. intros E1 E2. unfold resolve_chunk. rewrite E1, E2. reflexivity. Qed.

Lemma create_id_set_archs s A : create_id (set_archs s A) =
  match create_id s with Ok (s1, h) => Ok (set_archs s1 A, h) | Err e => Err e end.
Proof.
  unfold create_id. cbn [empty_slots set_archs slots next_slot]. destruct (empty_slots s) as [|n]; [reflexivity|].
  destruct (nth_res (slots s) (N.to_nat (next_slot s))) as [sl|e]; [|reflexivity]. rewrite !bind_Ok.
  cbn [locs set_slots set_free set_archs]. destruct (upd_res (locs s) (N.to_nat (next_slot s)) default_loc) as [ls|e]; reflexivity.
Qed.

Lemma get_arch_create_comm s s1 h m sh s2 ai : deps s = [] -> create_id s = Ok (s1, h) -> get_arch s1 m sh = Ok (s2, ai) ->
  exists sg, get_arch s m sh = Ok (sg, ai) /\ create_id sg = Ok (s2, h).
Proof.
  intros Hd Hc Hg. destruct (create_id_frame _ _ _ Hc) as (A & F).
  destruct (fr3_ctl _ _ F) as (_ & E2 & _ & _ & _ & _ & _ & E8 & E9).
  rewrite get_arch_unfold in Hg by congruence. rewrite get_arch_unfold by exact Hd. rewrite A in Hg.
  destruct (find_arch (archs s) m sh 0) as [i|].
  - inversion Hg; subst s2 ai. exists s. split; [reflexivity|exact Hc].
  - rewrite (resolve_chunk_frame s s1 m E8 E9) in Hg. bd Hg cs Hcs. inversion Hg; subst s2 ai. rewrite Hcs, bind_Ok.
    eexists. split; [reflexivity|]. rewrite create_id_set_archs, Hc. reflexivity.
Qed.

Lemma mitems_zero : mitems 0%N = [].
Proof. vm_compute. reflexivity. Qed.

Lemma step_build_none_nil s tid removes : lockc s = 0 ->
  step s (OBuild tid None [] removes) = step s (OCreate tid 0%N [] false).
Proof. intros Hl. rewrite (step_create_unlocked _ _ _ _ Hl). unfold step. rewrite Hl. reflexivity. Qed.

Lemma x_build_none_nil x tid removes : x_lock x = 0 -> x_step x (XoBuild tid None [] removes) = x_step x (XoCreate tid 0%N [] false).
Proof. intros Hl. unfold x_step, out_of_contract, x_step_in. rewrite Hl. reflexivity. Qed.

Lemma step_build_none_cons s tid a0 assigns removes : lockc s = 0 ->
  step s (OBuild tid None (a0 :: assigns) removes) =
   (do r <- create_id s;
        let '(s1, h) := r in
        do r2 <- get_arch s1 (mask_of_list (map fst (a0 :: assigns))) si_null;
        let '(s2, ai) := r2 in
        do s3 <- arch_insert s2 ai h (mask_of_list (map fst (a0 :: assigns)));
        do s4 <- fold_res (fun st (a : nat * Z) => init_component_arch st h (fst a) (snd a)) (a0 :: assigns) s3;
        Ok (s4, RHandle h)).
Proof. intros Hl. unfold step. rewrite Hl. reflexivity. Qed.

Lemma x_build_none x tid assigns removes : x_lock x = 0 ->
  x_step_in x (XoBuild tid None assigns removes) = xasg (x_count x) (x_create (xw_count x (S (x_count x))) (x_count x) 0%N []) assigns.
Proof. intros Hl. unfold x_step_in. rewrite Hl. reflexivity. Qed.

Lemma MInvE_build_new cis s hs al x tid a0 assigns0 removes s' out :
  MInvE cis s hs al x -> assigns_ok cis (a0 :: assigns0) -> NoDup (map fst (a0 :: assigns0)) -> within (S (length hs)) ->
  x_viol (x_step_in x (XoBuild tid None (a0 :: assigns0) removes)) = x_viol x ->
  step s (OBuild tid None (a0 :: assigns0) removes) = Ok (s', out) ->
  exists d al', out = RHandle d /\ MInvE cis s' (hs ++ [d]) al' (x_step_in x (XoBuild tid None (a0 :: assigns0) removes)).
Proof.
  intros HE Hok Hnd Hb Hviol H. pose proof HE as [HI HM Hw Hmi Hml Hmk].
  pose proof HI as [HG Hawf Hl Hdp Hc Hxl Hxd Hxc Hcnt Hsl Hal Hv].
  remember (a0 :: assigns0) as assigns eqn:Eas.
  rewrite (x_build_none _ _ _ _ Hxl) in *.
  (* the specification *)
  set (k := x_count x) in *.
  set (xc := x_create (xw_count x (S k)) k 0%N []) in *.
  destruct (x_create_eq (xw_count x (S k)) k 0%N [] Hxd) as (Fc & Ec). fold xc in Fc, Ec.
  rewrite mitems_zero in Ec. simpl map in Ec. cbn [x_ents xw_count] in Ec.
  set (e0 := {| e_k := k; e_comps := []; e_shared := [] |}) in *.
  destruct (xfr_fields _ _ Fc) as (C1 & C2 & C3 & C4 & C5). cbn [x_lock x_deps x_cinfos x_count x_viol xw_count] in C1, C2, C3, C4, C5.
  pose proof (xfr_marked _ _ Fc) as Cm. cbn [x_marked xw_count] in Cm.
  assert (Hwc : xwf xc) by (eapply xwf_put_new; [exact Hw|exact C1|exact C2|exact C4|exact Ec|reflexivity]).
  assert (Hfc : forall k', find_ent xc k' = if Nat.eqb k' k then Some e0 else find_ent x k').
  { intros k'. rewrite find_ent_findk, Ec, findk_put. reflexivity. }
  assert (Hfe0 : find_ent xc k = Some e0) by (rewrite Hfc, Nat.eqb_refl; reflexivity).
  assert (Hviol' : x_viol (xasg k xc assigns) = x_viol xc) by congruence.
  destruct (xasg_spec k assigns xc e0 Hwc Hfe0 Hviol') as (F1 & W1 & Hf1 & _). cbn [e_comps e_shared e0] in Hf1.
  set (e_fin := {| e_k := k; e_comps := asg [] assigns; e_shared := [] |}) in *.
  (* the model *)
  rewrite Eas in H. rewrite (step_build_none_cons _ _ _ _ _ Hl) in H. rewrite <- Eas in H.
  bd H r Hcid1. destruct r as (s1, d). cbv beta iota in H.
  remember (mask_of_list (map fst assigns)) as m eqn:Em.
  bd H r2 Hga1. destruct r2 as (s2, ai). cbv beta iota in H. bd H s3 Hins. bd H s4 Hinit. inversion H; subst s' out; clear H.
  destruct (get_arch_create_comm _ _ _ _ _ _ _ Hdp Hcid1 Hga1) as (sg & Hga & Hcid).
  assert (Hmokm : mok m).
  { rewrite Em. apply mok_mask_of_list. intros c Hcin. apply in_map_iff in Hcin. destruct Hcin as ((c0, z0) & E & Hin0). simpl in E. subst c0. apply (Hok c z0 Hin0). }
  destruct (MInvE_get_arch _ _ _ _ _ _ _ _ HE Hmokm Hga) as (HEg & Fg & Hkeep & a_t & Hat & Hmt).
  destruct (create_id_frame _ _ _ Hcid) as (A2 & F2).
  assert (Hat2 : nth_error (archs s2) ai = Some a_t) by (rewrite A2; exact Hat).
  destruct (awf_nth _ _ _ (mi_awf _ _ _ _ _ (me_inv _ _ _ _ _ HEg)) Hat) as (Wt1 & Wt2 & Wt3).
  destruct (arch_insert_ok _ _ _ _ _ _ Hat2 Wt3 Hins) as (a3 & F3 & A3 & Hlt & L3 & Hab & He & Hz & Hcl & Hcells & _).
  destruct (ab3_fields _ _ Hab) as (Em3 & _).
  set (e_mid := {| e_k := k; e_comps := map (fun c : nat => (c, @None Z)) (mitems m); e_shared := [] |}).
  set (x_mid := xw_ents (xw_count x (S k)) (put_ent (x_ents x) e_mid)).
  assert (Hkk : k = length hs) by exact Hcnt.
  assert (HE3 : MInvE cis s3 (hs ++ [d]) (al ++ [(length hs, am_mask a_t)]) x_mid).
  { eapply (MInvE_new_member cis sg hs al x ai a_t s2 d s3 a3 e_mid x_mid HEg Hb Hat Hcid F3 A3 Hlt L3 Hab He Hz Hcl Hcells); try reflexivity.
    - split; [simpl; rewrite map_map; simpl; rewrite map_id, Em3, Hmt; reflexivity|]. split; [reflexivity|].
      simpl. intros c v Hcv. apply in_map_iff in Hcv. destruct Hcv as (c0 & E & _). inversion E. reflexivity.
    - eapply xwf_put_new; [exact Hw| | | | |]; reflexivity.
    - intros k'. rewrite find_ent_findk. cbn [x_ents xw_ents xw_count x_mid]. rewrite findk_put. cbn [e_k e_mid]. rewrite Hkk. reflexivity. }
  pose proof HE3 as [HI3 HM3 _ Hmi3 Hml3 Hmk3].
  assert (Hai : ai < length (archs s2)) by (apply nth_error_Some; congruence).
  assert (Ha3 : nth_error (archs s3) ai = Some a3) by (rewrite A3; apply nth_error_upd_same; exact Hai).
  assert (Hloc3 : nth_error (locs s3) (N.to_nat (fst d)) = Some {| l_arch := Some ai; l_idx := length (am_ents a_t) |})
    by (rewrite L3; apply nth_error_upd_same; exact Hlt).
  destruct (awf_nth _ _ _ (mi_awf _ _ _ _ _ HI3) Ha3) as (_ & _ & Wa3).
  assert (Hok3 : assigns_ok (cinfos s3) assigns) by (rewrite (mi_cis _ _ _ _ _ HI3); exact Hok).
  destruct (init_fold s3 d ai (length (am_ents a_t)) a3 assigns s4 Hloc3 Ha3 Wa3 Hnd Hok3 Hinit) as (a4 & Hc4 & Hset & _).
  destruct Hc4 as (F4 & A4 & B4 & L4 & K4).
  assert (Em4 : am_mask a4 = am_mask a3) by (apply (f_equal am_mask) in B4; exact B4).
  assert (HI4 : MInv cis s4 (hs ++ [d]) (al ++ [(length hs, am_mask a_t)]) (xput x_mid e_fin)).
  { eapply (MInv_cells cis s3 (hs ++ [d]) _ x_mid (length hs) (am_mask a_t) ai (length (am_ents a_t)) a3 a4 s4 e_fin HI3).
    - apply in_or_app. right. left. reflexivity.
    - exact Ha3.
    - rewrite He, hnd_app_last. apply nth_error_app_last.
    - exact F4.
    - exact A4.
    - apply ab1_ab2. exact B4.
    - exact L4.
    - exact K4.
    - exact Hkk.
    - assert (Hkeys : map fst (asg [] assigns) = mitems m).
      { rewrite Em. apply (keys_asg assigns [] 0%N); [rewrite mitems_zero; reflexivity|]. intros c z Hcz. apply (Hok c z Hcz). }
      split; [simpl; rewrite Em4, Em3, Hmt; exact Hkeys|]. split; [reflexivity|].
      simpl. intros c v Hcv.
      assert (Hcm : In c (mitems m)) by (rewrite <- Hkeys; apply in_map_iff; exists (c, v); auto).
      apply In_nth_error in Hcm. destruct Hcm as (ci & Hci). pose proof (nth_cindex _ _ _ Hci) as Eci.
      unfold acell. rewrite Em4, Em3, Hmt, Eci.
      apply asg_in in Hcv. destruct Hcv as [(z & Hzz & ->)|[]].
      destruct (Hset c z Hzz) as (ci' & Eci' & Hv'). rewrite Em3, Hmt, Eci in Eci'. inversion Eci'; subst ci'. rewrite Hv'. apply cell_le_refl_some. }
  destruct (xfr_fields _ _ F1) as (X1 & X2 & X3 & X4 & X5). pose proof (xfr_marked _ _ F1) as Xm.
  assert (Mk4 : marked s4 = marked s3) by (apply (sim_fr1 _ _ F4)).
  exists d. eexists. split; [reflexivity|]. constructor.
  - eapply MInv_ext2; [exact HI4| | | | |]; cbn [x_lock x_deps x_cinfos x_count xput xw_ents xw_count x_mid]; try congruence.
    intros k'. rewrite Hf1, Hfc, xput_find. cbn [e_k e_fin]. destruct (Nat.eqb_spec k' k) as [E|E]; [reflexivity|].
    rewrite (find_ent_findk x_mid). cbn [x_ents xw_ents xw_count x_mid]. rewrite findk_put. cbn [e_k e_mid]. apply Nat.eqb_neq in E. rewrite E. reflexivity.
  - unfold Mok. rewrite A4, (masks_upd _ _ a3 _ Ha3 Em4). exact HM3.
  - exact W1.
  - rewrite Mk4. exact Hmi3.
  - intros k' Hk'. apply Hml3. rewrite Xm, Cm in Hk'. exact Hk'.
  - intros k' Hk'. rewrite Mk4, Xm, Cm. apply Hmk3. exact Hk'.
Qed.
