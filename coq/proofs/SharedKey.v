(* C12: an archetype of the Manager is keyed by its component mask AND its shared info (compared by si_eqb: the mask
   of shared types and the sequence of instance numbers).  The pair is packed into ONE number whose low 128 bits are
   the component mask, so that the structure proofs for archetypes keyed by a mask (ManagerInv.v) can be reused. *)
Require Import Coq.Lists.List Coq.NArith.NArith Coq.ZArith.ZArith Coq.Arith.Arith Coq.Bool.Bool Coq.micromega.Lia.
From Mustache Require Import Res Manager MgrSpec Refine.
From Mustache.proofs Require Import ListLemmas SkelBasics ClosureProofs ManagerBasics DepsClosure.
Import ListNotations.
Local Open Scope N_scope.

(* ---- an injective pairing and an injective list code ---- *)
Definition pairN (a b : N) : N := N.shiftl (2 * b + 1) a.

Lemma pairN_bit_low a b n : n < a -> N.testbit (pairN a b) n = false.
Proof. intros H. unfold pairN. apply N.shiftl_spec_low. exact H. Qed.
Lemma pairN_bit_at a b : N.testbit (pairN a b) a = true.
Proof. unfold pairN. rewrite N.shiftl_spec_high' by lia. rewrite N.sub_diag. apply N.testbit_odd_0. Qed.

Lemma pairN_inj a b a' b' : pairN a b = pairN a' b' -> a = a' /\ b = b'.
Proof.
  intros H. assert (Ea : a = a').
  { destruct (N.lt_trichotomy a a') as [Hlt|[E|Hgt]]; [exfalso|exact E|exfalso].
    - pose proof (pairN_bit_at a b) as H1. rewrite H, (pairN_bit_low a' b' a Hlt) in H1. discriminate.
    - pose proof (pairN_bit_at a' b') as H1. rewrite <- H, (pairN_bit_low a b a' Hgt) in H1. discriminate. }
  subst a'. split; [reflexivity|]. unfold pairN in H. rewrite !N.shiftl_mul_pow2 in H.
  apply N.mul_cancel_r in H; [lia|]. apply N.pow_nonzero. discriminate.
Qed.

Lemma pairN_pos a b : pairN a b <> 0.
Proof. intros H. pose proof (pairN_bit_at a b) as H1. rewrite H, N.bits_0 in H1. discriminate. Qed.

Fixpoint codeL (l : list nat) : N :=
  match l with [] => 0 | x :: t => pairN (N.of_nat x) (codeL t) end.

Lemma codeL_inj : forall l l', codeL l = codeL l' -> l = l'.
Proof.
  induction l as [|x t IH]; intros [|y u] H; simpl in H.
  - reflexivity.
  - symmetry in H. exfalso. eapply pairN_pos. exact H.
  - exfalso. eapply pairN_pos. exact H.
  - apply pairN_inj in H. destruct H as (E1 & E2). apply Nat2N.inj in E1. subst y. f_equal. apply IH. exact E2.
Qed.

(* the part of a shared info that si_eqb compares *)
Definition enc (sh : shared_info) : N := N.pred (pairN (si_mask sh) (codeL (si_data sh))).

Lemma enc_null : enc si_null = 0.
Proof. reflexivity. Qed.

Lemma enc_eqb a b : si_eqb a b = true <-> enc a = enc b.
Proof.
  unfold si_eqb, enc. split.
  - intros H. apply andb_true_iff in H. destruct H as (H1 & H2). apply N.eqb_eq in H1.
    destruct (list_eq_dec Nat.eq_dec (si_data a) (si_data b)) as [E|]; [|discriminate]. rewrite H1, E. reflexivity.
  - intros H. assert (E : pairN (si_mask a) (codeL (si_data a)) = pairN (si_mask b) (codeL (si_data b))).
    { pose proof (pairN_pos (si_mask a) (codeL (si_data a))). pose proof (pairN_pos (si_mask b) (codeL (si_data b))). lia. }
    apply pairN_inj in E. destruct E as (E1 & E2). apply codeL_inj in E2. rewrite E1, N.eqb_refl. simpl.
    destruct (list_eq_dec Nat.eq_dec (si_data a) (si_data b)); [reflexivity|contradiction].
Qed.

(* ---- the key ---- *)
Definition kmk (m : mask) (sh : shared_info) : N := N.lor m (N.shiftl (enc sh) 128).

Lemma kmk_null m : kmk m si_null = m.
Proof. unfold kmk. rewrite enc_null, N.shiftl_0_l. apply N.lor_0_r. Qed.

Lemma kmk_low m sh c : (c < MASK_BITS)%nat -> mhas (kmk m sh) c = mhas m c.
Proof.
  intros Hc. unfold mhas, kmk. rewrite N.lor_spec, N.shiftl_spec_low; [apply orb_false_r|]. unfold MASK_BITS in Hc. lia.
Qed.

Lemma kmk_inj m sh m' sh' : lowm m -> lowm m' -> kmk m sh = kmk m' sh' -> m = m' /\ enc sh = enc sh'.
Proof.
  intros Hm Hm' H.
  assert (Hhi : forall x, lowm x -> forall n, 128 <= n -> N.testbit x n = false).
  { intros x Hx n Hn. destruct (N.testbit x n) eqn:E; [|reflexivity]. exfalso.
    specialize (Hx (N.to_nat n)). unfold mhas in Hx. rewrite N2Nat.id in Hx. specialize (Hx E). unfold MASK_BITS in Hx. lia. }
  split.
  - apply N.bits_inj. intros n. assert (E : N.testbit (kmk m sh) n = N.testbit (kmk m' sh') n) by (rewrite H; reflexivity).
    unfold kmk in E. rewrite !N.lor_spec in E. destruct (N.lt_ge_cases n 128) as [Hlt|Hge].
    + rewrite !N.shiftl_spec_low, !orb_false_r in E by exact Hlt. exact E.
    + rewrite (Hhi m Hm n Hge), (Hhi m' Hm' n Hge). reflexivity.
  - apply N.bits_inj. intros n. assert (E : N.testbit (kmk m sh) (n + 128) = N.testbit (kmk m' sh') (n + 128)) by (rewrite H; reflexivity).
    unfold kmk in E. rewrite !N.lor_spec, !N.shiftl_spec_high' in E by lia.
    rewrite (Hhi m Hm) in E by lia. rewrite (Hhi m' Hm') in E by lia. simpl in E.
    replace (n + 128 - 128) with n in E by lia. exact E.
Qed.

Lemma kmk_madd m sh c : madd (kmk m sh) c = kmk (madd m c) sh.
Proof.
  unfold madd, kmk. apply N.bits_inj. intros n. rewrite N.lor_spec, !N.setbit_eqb, N.lor_spec.
  destruct (N.eqb (N.of_nat c) n); reflexivity.
Qed.

Lemma kmk_mdel m sh c : (c < MASK_BITS)%nat -> mdel (kmk m sh) c = kmk (mdel m c) sh.
Proof.
  intros Hc. unfold mdel, kmk. apply N.bits_inj. intros n. rewrite N.lor_spec, !N.clearbit_eqb, N.lor_spec.
  destruct (N.eqb_spec (N.of_nat c) n) as [<-|Hne]; simpl; [|rewrite !andb_true_r; reflexivity].
  rewrite !andb_false_r. simpl. symmetry. apply N.shiftl_spec_low. unfold MASK_BITS in Hc. lia.
Qed.

Lemma mitems_kmk m sh : mitems (kmk m sh) = mitems m.
Proof. apply mitems_meq128. intros c Hc. apply kmk_low. exact Hc. Qed.

Lemma cindex_kmk m sh c : (c < MASK_BITS)%nat -> cindex (kmk m sh) c = cindex m c.
Proof.
  intros Hc. unfold cindex. rewrite (kmk_low _ _ _ Hc). destruct (mhas m c); [|reflexivity]. f_equal. f_equal.
  apply filter_ext_in. intros x Hx. apply in_seq in Hx. apply kmk_low. lia.
Qed.

Lemma lowm_kmk_items m sh c : In c (mitems (kmk m sh)) -> (c < MASK_BITS)%nat.
Proof. intros H. apply mitems_in in H. tauto. Qed.
