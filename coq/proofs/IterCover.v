(* C04: the task cursor, the archetype segments and the arrays of Iter.v cover the selected entities exactly once.
   Main result: tasks_cover (end of file).  No proof in this file uses bounded checking. *)
Require Import Coq.Lists.List Coq.Arith.Arith Coq.Bool.Bool Coq.micromega.Lia.
From Mustache Require Import Res Iter.
From Mustache.proofs Require Import ListLemmas IterProofs.
Import ListNotations.

(* ------------------------------------------------------------------------------------------ *)
(* small list and res facts *)
Lemma ibind_ok {A B} (r : res A) (f : A -> res B) b : bind r f = Ok b -> exists a, r = Ok a /\ f a = Ok b.
Proof. destruct r as [a|e]; simpl; intros H; [exists a; auto|discriminate]. Qed.

Lemma nth_res_some {A} (l : list A) i a : nth_error l i = Some a -> nth_res l i = Ok a.
Proof. intros H. unfold nth_res. rewrite H. reflexivity. Qed.

Lemma sub_res_le a b : b <= a -> sub_res a b = Ok (a - b).
Proof. intros H. unfold sub_res. destruct (Nat.ltb_spec a b); [lia|reflexivity]. Qed.

Lemma skipn_skipn' {A} n m (l : list A) : skipn n (skipn m l) = skipn (m + n) l.
Proof.
  revert l. induction m as [|m IH]; intros l; simpl; [reflexivity|].
  destruct l; [apply skipn_nil|apply IH].
Qed.

Lemma firstn_skipn_step {A} p n (l : list A) : firstn n (skipn p l) ++ skipn (p + n) l = skipn p l.
Proof. rewrite <- skipn_skipn'. apply firstn_skipn. Qed.

Lemma skipn_seq' n : forall s m, skipn n (seq s m) = seq (s + n) (m - n).
Proof.
  induction n as [|n IH]; intros s m.
  - rewrite Nat.add_0_r, Nat.sub_0_r. reflexivity.
  - destruct m as [|m]; [reflexivity|]. cbn [seq skipn]. rewrite IH. f_equal; lia.
Qed.

Lemma firstn_seq_app n k s m (r : list nat) :
  n <= m -> n <= k -> firstn k (seq s m ++ r) = seq s n ++ firstn (k - n) (seq (s + n) (m - n) ++ r).
Proof.
  intros Hm Hk.
  assert (E : seq s m = seq s n ++ seq (s + n) (m - n)) by (rewrite <- seq_app; f_equal; lia).
  rewrite E, <- app_assoc.
  transitivity (firstn (length (seq s n) + (k - n)) (seq s n ++ seq (s + n) (m - n) ++ r)).
  - f_equal. rewrite seq_length. lia.
  - apply firstn_app_2.
Qed.

Lemma nth_error_mid {A} (pre : list A) x post : nth_error (pre ++ x :: post) (length pre) = Some x.
Proof. rewrite nth_error_app2 by lia. rewrite Nat.sub_diag. reflexivity. Qed.

Lemma nth_error_mid_S {A} (pre : list A) x y post : nth_error (pre ++ x :: y :: post) (S (length pre)) = Some y.
Proof. rewrite nth_error_app2 by lia. replace (S (length pre) - length pre) with 1 by lia. reflexivity. Qed.

Lemma combine_app {A B} (a b : list A) (c d : list B) :
  length a = length c -> combine (a ++ b) (c ++ d) = combine a c ++ combine b d.
Proof.
  revert c. induction a as [|x a IH]; intros [|y c] H; simpl in *; try discriminate; [reflexivity|].
  f_equal. apply IH. lia.
Qed.

(* ------------------------------------------------------------------------------------------ *)
(* blocks: the selected real indices; well-formed = non-empty, ascending, inside [lo, hi] *)
Notation sel := selected_of_blocks.

Lemma sel_cons b e t : sel ((b, e) :: t) = seq b (e - b) ++ sel t.
Proof. reflexivity. Qed.

Lemma sel_cons_length b e t : length (sel ((b, e) :: t)) = (e - b) + length (sel t).
Proof. rewrite sel_cons, app_length, seq_length. reflexivity. Qed.

Lemma blocks_count_acc bl : forall n, fold_left (fun n (be : nat * nat) => n + (snd be - fst be)) bl n = n + length (sel bl).
Proof.
  induction bl as [|[b e] t IH]; intros n; [simpl; lia|].
  cbn [fold_left]. rewrite IH, sel_cons_length. simpl. lia.
Qed.

Lemma blocks_count_sel bl : blocks_count bl = length (sel bl).
Proof. unfold blocks_count. rewrite blocks_count_acc. reflexivity. Qed.

Fixpoint chain (lo : nat) (bl : list (nat * nat)) (hi : nat) : Prop :=
  match bl with
  | [] => lo <= hi
  | be :: t => lo <= fst be /\ fst be < snd be /\ chain (snd be) t hi
  end.

Lemma chain_le bl : forall lo hi, chain lo bl hi -> lo <= hi.
Proof. induction bl as [|[b e] t IH]; intros lo hi H; simpl in H; [assumption|]. destruct H as (H1 & H2 & H3). apply IH in H3. lia. Qed.

Lemma chain_len bl : forall lo hi, chain lo bl hi -> lo + length (sel bl) <= hi.
Proof.
  induction bl as [|[b e] t IH]; intros lo hi H; simpl in H; [simpl; lia|].
  destruct H as (H1 & H2 & H3). apply IH in H3. rewrite sel_cons_length. lia.
Qed.

Lemma chain_weaken bl : forall lo lo' hi hi', chain lo bl hi -> lo' <= lo -> hi <= hi' -> chain lo' bl hi'.
Proof.
  induction bl as [|[b e] t IH]; intros lo lo' hi hi' H Hlo Hhi; simpl in *; [lia|].
  destruct H as (H1 & H2 & H3). repeat split; [lia|assumption|]. eapply IH; [eassumption|lia|assumption].
Qed.

Lemma chain_split pre : forall lo b e post hi,
  chain lo (pre ++ (b, e) :: post) hi -> lo <= b /\ b < e /\ chain e post hi.
Proof.
  induction pre as [|[b0 e0] pre IH]; intros lo b e post hi H; simpl in H.
  - exact H.
  - destruct H as (H1 & H2 & H3). apply IH in H3. destruct H3 as (H4 & H5 & H6). simpl in *. repeat split; [lia|assumption|assumption].
Qed.

Lemma chain_in bl : forall lo hi b e, chain lo bl hi -> In (b, e) bl -> lo <= b /\ b < e /\ e <= hi.
Proof.
  induction bl as [|[b0 e0] t IH]; intros lo hi b e H Hin; [destruct Hin|].
  simpl in H. destruct H as (H1 & H2 & H3). destruct Hin as [E|Hin].
  - inversion E; subst. apply chain_le in H3. simpl in *. lia.
  - specialize (IH _ _ _ _ H3 Hin). simpl in *. lia.
Qed.

Lemma chain_snoc bl : forall lo h b e hi, chain lo bl h -> h <= b -> b < e -> e <= hi -> chain lo (bl ++ [(b, e)]) hi.
Proof.
  induction bl as [|[b0 e0] t IH]; intros lo h b e hi H Hb Hbe He; simpl in *.
  - repeat split; lia.
  - destruct H as (H1 & H2 & H3). repeat split; [assumption|assumption|]. eapply IH; eassumption.
Qed.

Lemma chain_tighten bl : forall lo h hi, chain lo bl h -> (forall be, In be bl -> snd be <= hi) -> lo <= hi -> chain lo bl hi.
Proof.
  induction bl as [|[b e] t IH]; intros lo h hi H Hin Hlo; simpl in *; [assumption|].
  destruct H as (H1 & H2 & H3). repeat split; [assumption|assumption|].
  eapply IH; [eassumption|intros be Hbe; apply Hin; right; assumption|].
  apply (Hin (b, e)). left. reflexivity.
Qed.

Lemma sel_in_chain bl : forall lo hi i, chain lo bl hi -> In i (sel bl) -> lo <= i < hi.
Proof.
  intros lo hi i H Hi. apply selected_of_blocks_in in Hi. destruct Hi as ([b e] & Hbe & Hi).
  pose proof (chain_in _ _ _ _ _ H Hbe). simpl in *. lia.
Qed.

Lemma sel_NoDup bl : forall lo hi, chain lo bl hi -> NoDup (sel bl).
Proof.
  induction bl as [|[b e] t IH]; intros lo hi H; [constructor|].
  simpl in H. destruct H as (H1 & H2 & H3). rewrite sel_cons. apply nodup_app_intro.
  - apply seq_NoDup.
  - eapply IH; eassumption.
  - intros x Hx Hx'. apply in_seq in Hx. pose proof (sel_in_chain _ _ _ _ H3 Hx'). lia.
Qed.

(* ------------------------------------------------------------------------------------------ *)
(* locate: the c-th selected entity lives in block bi at real index idx (or at the very end of the block before) *)
Lemma locate_cons_S b e t bi c :
  locate ((b, e) :: t) bi (S c) = if Nat.ltb (e - b) (S c) then locate t (S bi) (S c - (e - b)) else Ok (bi, b + S c).
Proof. reflexivity. Qed.

Lemma locate_ok bl : forall bi count lo hi, chain lo bl hi -> count < length (sel bl) ->
  exists pre b e post idx, bl = pre ++ (b, e) :: post /\ locate bl bi count = Ok (bi + length pre, idx) /\
    b <= idx <= e /\ skipn count (sel bl) = seq idx (e - idx) ++ sel post.
Proof.
  induction bl as [|[b e] t IH]; intros bi count lo hi Hc Hcount; [simpl in Hcount; lia|].
  simpl in Hc. destruct Hc as (H1 & H2 & H3). rewrite sel_cons_length in Hcount.
  destruct count as [|c].
  - exists [], b, e, t, b. split; [reflexivity|]. split; [simpl; rewrite Nat.add_0_r; reflexivity|]. split; [lia|reflexivity].
  - rewrite locate_cons_S. destruct (Nat.ltb_spec (e - b) (S c)) as [Hlt|Hge].
    + destruct (IH (S bi) (S c - (e - b)) e hi H3 ltac:(lia)) as (pre & b' & e' & post & idx & Ebl & Eloc & Hidx & Eskip).
      exists ((b, e) :: pre), b', e', post, idx. split; [rewrite Ebl; reflexivity|].
      split; [rewrite Eloc; f_equal; f_equal; simpl; lia|]. split; [assumption|].
      rewrite sel_cons, skipn_app, seq_length, Eskip. rewrite skipn_all2 by (rewrite seq_length; lia). reflexivity.
    + exists [], b, e, t, (b + S c). split; [reflexivity|]. split; [simpl; rewrite Nat.add_0_r; reflexivity|]. split; [lia|].
      rewrite sel_cons, skipn_app, seq_length, skipn_seq'. replace (S c - (e - b)) with 0 by lia.
      replace (e - b - S c) with (e - (b + S c)) by lia. reflexivity.
Qed.

(* ------------------------------------------------------------------------------------------ *)
(* arrays *)
Definition flatr (arrs : list (nat * nat)) : list nat := flat_map (fun x : nat * nat => seq (fst x) (snd x)) arrs.

(* an array (start, length) of archetype a: non-empty, inside one block, inside one storage chunk *)
Definition arr_ok (a : farch) (x : nat * nat) : Prop :=
  0 < snd x /\ (exists b e, In (b, e) (fa_blocks a) /\ b <= fst x /\ fst x + snd x <= e) /\
  fst x mod fa_cap a + snd x <= fa_cap a.

Definition arrays_tail (f : nat) (a : farch) (bi' idx' tbe dist : nat) : res (list (nat * nat)) :=
  do dce <- dist_to_chunk_end (fa_size a) (fa_cap a) idx';
  let n := Nat.min tbe (Nat.min dce dist) in
  match n with
  | O => Err (Throw 20)
  | _ => do rest <- arrays_loop f a bi' (idx' + n) (dist - n); Ok ((idx', n) :: rest)
  end.

Lemma arrays_loop_S f a bi idx d :
  arrays_loop (S f) a bi idx (S d) =
  do blk <- nth_res (fa_blocks a) bi;
  do to_block_end <- sub_res (snd blk) idx;
  do r <- (match to_block_end with
           | O => do nb <- nth_res (fa_blocks a) (S bi);
                  do skip <- sub_res (fst nb) idx;
                  do len <- sub_res (snd nb) (fst nb);
                  Ok (S bi, idx + skip, len)
           | _ => Ok (bi, idx, to_block_end)
           end);
  let '(bi', idx', tbe) := r in arrays_tail f a bi' idx' tbe (S d).
Proof. reflexivity. Qed.

Lemma arrays_loop_0 f a bi idx : arrays_loop f a bi idx 0 = Ok [].
Proof. destruct f; reflexivity. Qed.

Lemma dce_ok size cap idx : 0 < cap -> idx < size ->
  dist_to_chunk_end size cap idx = Ok (Nat.min (size - idx) (cap - idx mod cap)).
Proof.
  intros Hcap Hidx. unfold dist_to_chunk_end. destruct cap as [|c]; [lia|].
  rewrite (proj2 (Nat.ltb_lt idx size) Hidx). reflexivity.
Qed.

Lemma arrays_loop_ok a : 0 < fa_cap a -> forall fuel bi idx dist pre b e post,
  fa_blocks a = pre ++ (b, e) :: post -> bi = length pre -> b <= idx <= e -> chain e post (fa_size a) ->
  dist <= (e - idx) + length (sel post) -> dist <= fuel ->
  exists arrs, arrays_loop fuel a bi idx dist = Ok arrs /\
               flatr arrs = firstn dist (seq idx (e - idx) ++ sel post) /\ Forall (arr_ok a) arrs.
Proof.
  intros Hcap. induction fuel as [|fuel IH]; intros bi idx dist pre b e post Ebl Ebi Hidx Hch Hdist Hfuel.
  - assert (dist = 0) by lia. subst dist. exists []. repeat split; constructor.
  - destruct dist as [|d]; [exists []; repeat split; constructor|].
    assert (Tail : forall bi2 pre2 b2 e2 post2 idx',
              fa_blocks a = pre2 ++ (b2, e2) :: post2 -> bi2 = length pre2 -> b2 <= idx' < e2 -> chain e2 post2 (fa_size a) ->
              S d <= (e2 - idx') + length (sel post2) ->
              exists arrs, arrays_tail fuel a bi2 idx' (e2 - idx') (S d) = Ok arrs /\
                           flatr arrs = firstn (S d) (seq idx' (e2 - idx') ++ sel post2) /\ Forall (arr_ok a) arrs).
    { intros bi2 pre2 b2 e2 post2 idx' Ebl2 Ebi2 Hidx2 Hch2 Hd2.
      pose proof (chain_le _ _ _ Hch2) as He2.
      unfold arrays_tail. rewrite dce_ok by lia. cbn [bind]. cbv zeta.
      pose proof (Nat.mod_upper_bound idx' (fa_cap a) ltac:(lia)) as Hmod.
      remember (Nat.min (e2 - idx') (Nat.min (Nat.min (fa_size a - idx') (fa_cap a - idx' mod fa_cap a)) (S d))) as n eqn:En.
      destruct n as [|n]; [lia|].
      destruct (IH bi2 (idx' + S n) (S d - S n) pre2 b2 e2 post2 Ebl2 Ebi2 ltac:(lia) Hch2 ltac:(lia) ltac:(lia))
        as (arrs & Earrs & Eflat & Hok).
      rewrite Earrs. cbn [bind]. exists ((idx', S n) :: arrs). split; [reflexivity|]. split.
      - unfold flatr in *. cbn [flat_map fst snd]. rewrite Eflat.
        rewrite (firstn_seq_app (S n) (S d) idx' (e2 - idx')) by lia.
        replace (e2 - idx' - S n) with (e2 - (idx' + S n)) by lia. reflexivity.
      - constructor; [|assumption]. unfold arr_ok. cbn [fst snd]. split; [lia|]. split; [|lia].
        exists b2, e2. split; [rewrite Ebl2; apply in_or_app; right; left; reflexivity|lia]. }
    rewrite arrays_loop_S. subst bi. rewrite (nth_res_some _ _ _ (eq_trans (f_equal (fun l => nth_error l (length pre)) Ebl) (nth_error_mid pre (b, e) post))).
    cbn [bind snd]. rewrite sub_res_le by lia. cbn [bind].
    destruct (e - idx) as [|t] eqn:Et.
    + destruct post as [|[b' e'] post']; [simpl in Hdist; lia|].
      simpl in Hch. destruct Hch as (Hc1 & Hc2 & Hc3).
      rewrite (nth_res_some _ _ _ (eq_trans (f_equal (fun l => nth_error l (S (length pre))) Ebl) (nth_error_mid_S pre (b, e) (b', e') post'))).
      cbn [bind fst snd]. rewrite (sub_res_le b' idx) by lia. cbn [bind]. rewrite (sub_res_le e' b') by lia. cbn [bind].
      replace (idx + (b' - idx)) with b' by lia.
      rewrite sel_cons_length in Hdist.
      destruct (Tail (S (length pre)) (pre ++ [(b, e)]) b' e' post' b') as (arrs & Earrs & Eflat & Hok).
      * rewrite Ebl, <- app_assoc. reflexivity.
      * rewrite app_length. simpl. lia.
      * lia.
      * assumption.
      * lia.
      * exists arrs. split; [exact Earrs|]. split; [|assumption].
        rewrite Eflat. rewrite sel_cons. reflexivity.
    + rewrite <- Et.
      destruct (Tail (length pre) pre b e post idx Ebl eq_refl ltac:(lia) Hch ltac:(lia)) as (arrs & Earrs & Eflat & Hok).
      exists arrs. split; [exact Earrs|]. split; assumption.
Qed.

(* one filtered archetype as the model expects it *)
Definition fa_wf (a : farch) : Prop :=
  chain 0 (fa_blocks a) (fa_size a) /\ fa_count a = blocks_count (fa_blocks a) /\ 0 < fa_count a /\ 0 < fa_cap a.

Lemma fa_wf_count a : fa_wf a -> fa_count a = length (sel (fa_blocks a)).
Proof. intros (_ & H & _). rewrite H. apply blocks_count_sel. Qed.

Lemma arrays_of_segment_ok a first cnt : fa_wf a -> first < fa_count a -> first + cnt <= fa_count a ->
  exists arrs, arrays_of_segment a first cnt = Ok arrs /\
               flatr arrs = firstn cnt (skipn first (sel (fa_blocks a))) /\ Forall (arr_ok a) arrs.
Proof.
  intros Hwf Hfirst Hcnt. pose proof (fa_wf_count a Hwf) as Ecount. destruct Hwf as (Hch & _ & _ & Hcap).
  rewrite Ecount in Hfirst, Hcnt.
  destruct (locate_ok (fa_blocks a) 0 first 0 (fa_size a) Hch Hfirst) as (pre & b & e & post & idx & Ebl & Eloc & Hidx & Eskip).
  unfold arrays_of_segment. rewrite Eloc. cbn [bind fst snd].
  pose proof Hch as Hch'. rewrite Ebl in Hch'. apply chain_split in Hch'. destruct Hch' as (Hb & Hbe & Hpost).
  pose proof (chain_len _ _ _ Hpost) as Hlen.
  rewrite sub_res_le by lia. cbn [bind].
  assert (Hrem : first + ((e - idx) + length (sel post)) = length (sel (fa_blocks a))).
  { pose proof (f_equal (@length nat) Eskip) as L. rewrite skipn_length, app_length, seq_length in L. lia. }
  replace (Nat.min cnt (fa_size a - idx)) with cnt by lia.
  rewrite Eskip. apply (arrays_loop_ok a Hcap (S (S (fa_size a))) (0 + length pre) idx cnt pre b e post); try assumption; try lia.
Qed.

(* all positions of an array lie in the same storage chunk *)
Lemma same_chunk cap s l i : 0 < cap -> s mod cap + l <= cap -> s <= i < s + l -> i / cap = s / cap.
Proof.
  intros Hcap Hfit Hi. symmetry. apply Nat.div_unique with (r := s mod cap + (i - s)); [lia|].
  pose proof (Nat.div_mod s cap ltac:(lia)). lia.
Qed.

(* ------------------------------------------------------------------------------------------ *)
(* the global order of selected positions: (position of the archetype in the filtered list, real index) *)
Definition all_from (i : nat) (fas : list farch) : list (nat * nat) :=
  flat_map (fun pa : nat * farch => map (pair (fst pa)) (sel (fa_blocks (snd pa)))) (combine (seq i (length fas)) fas).

Lemma all_from_cons i a t : all_from i (a :: t) = map (pair i) (sel (fa_blocks a)) ++ all_from (S i) t.
Proof. reflexivity. Qed.

Lemma all_from_app p : forall i q, all_from i (p ++ q) = all_from i p ++ all_from (length p + i) q.
Proof.
  induction p as [|a p IH]; intros i q; [reflexivity|].
  rewrite <- app_comm_cons, !all_from_cons, IH, <- app_assoc. do 3 f_equal. simpl. lia.
Qed.

Lemma total_count_acc l : forall n, fold_left (fun n a => n + fa_count a) l n = n + total_count l.
Proof.
  unfold total_count. induction l as [|a t IH]; intros n; [simpl; lia|].
  cbn [fold_left]. rewrite IH, (IH (0 + fa_count a)). lia.
Qed.

Lemma total_count_cons a t : total_count (a :: t) = fa_count a + total_count t.
Proof. unfold total_count at 1. cbn [fold_left]. rewrite total_count_acc. lia. Qed.

Lemma total_count_app p q : total_count (p ++ q) = total_count p + total_count q.
Proof. induction p as [|a p IH]; [reflexivity|]. rewrite <- app_comm_cons, !total_count_cons, IH. lia. Qed.

Lemma all_from_length fas : Forall fa_wf fas -> forall i, length (all_from i fas) = total_count fas.
Proof.
  induction 1 as [|a t Ha Ht IH]; intros i; [reflexivity|].
  rewrite all_from_cons, app_length, map_length, IH, total_count_cons, (fa_wf_count a Ha). reflexivity.
Qed.

Lemma all_from_fst fas : forall i p x, In (p, x) (all_from i fas) -> i <= p.
Proof.
  induction fas as [|a t IH]; intros i p x H; [destruct H|].
  rewrite all_from_cons in H. apply in_app_or in H. destruct H as [H|H].
  - apply in_map_iff in H. destruct H as (y & E & _). inversion E. lia.
  - apply IH in H. lia.
Qed.

Lemma all_from_NoDup fas : Forall fa_wf fas -> forall i, NoDup (all_from i fas).
Proof.
  induction 1 as [|a t Ha Ht IH]; intros i; [constructor|].
  rewrite all_from_cons. apply nodup_app_intro.
  - destruct Ha as (Hch & _). apply sel_NoDup in Hch. induction Hch as [|x l Hx Hl IHl]; [constructor|].
    simpl. constructor; [|assumption]. intros Hin. apply in_map_iff in Hin. destruct Hin as (y & E & Hy). inversion E; subst. contradiction.
  - apply IH.
  - intros [p x] Hin Hin'. apply in_map_iff in Hin. destruct Hin as (y & E & _). inversion E; subst. apply all_from_fst in Hin'. lia.
Qed.

(* the suffix of the global order at a cursor position *)
Lemma skipn_at_cursor pre a post ent : Forall fa_wf (pre ++ a :: post) -> ent <= fa_count a ->
  skipn (total_count pre + ent) (all_from 0 (pre ++ a :: post)) =
  map (pair (length pre)) (skipn ent (sel (fa_blocks a))) ++ all_from (S (length pre)) post.
Proof.
  intros Hwf Hent. apply Forall_app in Hwf. destruct Hwf as (Hpre & Hapost). inversion Hapost as [|a' t' Ha Hpost]; subst.
  rewrite all_from_app, all_from_cons, Nat.add_0_r.
  rewrite skipn_app, (all_from_length pre Hpre 0).
  rewrite skipn_all2 by (rewrite (all_from_length pre Hpre 0); lia).
  replace (total_count pre + ent - total_count pre) with ent by lia. cbn [app].
  rewrite skipn_app, map_length, <- (fa_wf_count a Ha). replace (ent - fa_count a) with 0 by lia.
  rewrite skipn_map. reflexivity.
Qed.

(* ------------------------------------------------------------------------------------------ *)
(* the cursor *)
Definition cwf (fas : list farch) (c : cursor) : Prop :=
  (exists a, nth_error fas (cu_arch c) = Some a /\ cu_ent c < fa_count a) \/ (cu_arch c = length fas /\ cu_ent c = 0).
Definition pos (fas : list farch) (c : cursor) : nat := total_count (firstn (cu_arch c) fas) + cu_ent c.

Lemma firstn_mid {A} (pre : list A) a post : firstn (length pre) (pre ++ a :: post) = pre.
Proof. rewrite firstn_app, Nat.sub_diag, firstn_all. simpl. apply app_nil_r. Qed.

Lemma firstn_mid_S {A} (pre : list A) a post : firstn (S (length pre)) (pre ++ a :: post) = pre ++ [a].
Proof. rewrite firstn_app, firstn_all2 by lia. replace (S (length pre) - length pre) with 1 by lia. reflexivity. Qed.

Lemma advance_0 fuel fas c : advance fuel fas c 0 = Ok c.
Proof. destruct fuel; reflexivity. Qed.

Lemma advance_S f fas c n :
  advance (S f) fas c (S n) =
  do a <- nth_res fas (cu_arch c);
  do free <- sub_res (fa_count a) (cu_ent c);
  if Nat.ltb (S n) free then Ok {| cu_arch := cu_arch c; cu_ent := cu_ent c + S n |}
  else advance f fas {| cu_arch := S (cu_arch c); cu_ent := 0 |} (S n - free).
Proof. reflexivity. Qed.

Lemma cwf_end_pos fas c : cu_arch c = length fas -> cu_ent c = 0 -> pos fas c = total_count fas.
Proof. intros H1 H2. unfold pos. rewrite H1, H2, firstn_all. lia. Qed.

Lemma advance_ok fas : Forall fa_wf fas -> forall fuel c n,
  cwf fas c -> pos fas c + n <= total_count fas -> length fas <= fuel + cu_arch c ->
  exists c', advance fuel fas c n = Ok c' /\ cwf fas c' /\ pos fas c' = pos fas c + n.
Proof.
  intros Hwf. induction fuel as [|fuel IH]; intros c n Hc Hn Hfuel.
  - destruct n as [|n]; [exists c; split; [reflexivity|split; [assumption|lia]]|].
    exfalso. destruct Hc as [(a & Ha & _)|(H1 & H2)].
    + assert (cu_arch c < length fas) by (apply nth_error_Some; congruence). lia.
    + rewrite (cwf_end_pos fas c H1 H2) in Hn. lia.
  - destruct n as [|n]; [exists c; split; [reflexivity|split; [assumption|lia]]|].
    destruct Hc as [(a & Ha & Hent)|(H1 & H2)]; [|rewrite (cwf_end_pos fas c H1 H2) in Hn; lia].
    rewrite advance_S, (nth_res_some _ _ _ Ha). cbn [bind]. rewrite sub_res_le by lia. cbn [bind].
    destruct (nth_error_split _ _ Ha) as (pre & post & Efas & Epre).
    destruct (Nat.ltb_spec (S n) (fa_count a - cu_ent c)) as [Hlt|Hge].
    + eexists. split; [reflexivity|]. split.
      * left. exists a. cbn [cu_arch cu_ent]. split; [assumption|lia].
      * unfold pos. cbn [cu_arch cu_ent]. lia.
    + remember {| cu_arch := S (cu_arch c); cu_ent := 0 |} as c1 eqn:Ec1.
      assert (Earch1 : cu_arch c1 = S (cu_arch c)) by (subst c1; reflexivity).
      assert (Eent1 : cu_ent c1 = 0) by (subst c1; reflexivity).
      assert (Hpos1 : pos fas c1 = pos fas c + (fa_count a - cu_ent c)).
      { unfold pos. rewrite Earch1, Eent1. rewrite <- Epre, Efas, firstn_mid, firstn_mid_S, total_count_app, total_count_cons.
        unfold total_count at 2. simpl. lia. }
      assert (Hc1 : cwf fas c1).
      { unfold cwf. rewrite Earch1, Eent1. destruct post as [|a' post'].
        - right. split; [|reflexivity]. rewrite Efas, app_length, <- Epre. simpl. lia.
        - left. exists a'. split.
          + rewrite <- Epre, Efas. apply nth_error_mid_S.
          + rewrite Forall_forall in Hwf. assert (Hin : In a' fas) by (rewrite Efas; apply in_or_app; right; right; left; reflexivity).
            destruct (Hwf a' Hin) as (_ & _ & H & _). exact H. }
      destruct (IH c1 (S n - (fa_count a - cu_ent c)) Hc1 ltac:(lia) ltac:(lia)) as (c' & Eadv & Hc' & Hpos').
      * exists c'. split; [exact Eadv|]. split; [assumption|lia].
Qed.

(* ------------------------------------------------------------------------------------------ *)
(* segments of one task and their arrays *)
Definition flat3 (arrs : list (nat * nat * nat)) : list (nat * nat) :=
  flat_map (fun a : nat * nat * nat => let '(p, start, len) := a in map (pair p) (seq start len)) arrs.

Definition tag (ai : nat) (x : nat * nat) : nat * nat * nat := (ai, fst x, snd x).

Lemma flat3_tag ai arrs : flat3 (map (tag ai) arrs) = map (pair ai) (flatr arrs).
Proof.
  unfold flat3, flatr. induction arrs as [|[s l] t IH]; [reflexivity|].
  cbn [map flat_map tag fst snd]. rewrite map_app, IH. reflexivity.
Qed.

Lemma flat3_app x y : flat3 (x ++ y) = flat3 x ++ flat3 y.
Proof. apply flat_map_app. Qed.

(* an array (archetype position, start, length) handed to the user function *)
Definition arr3_ok (fas : list farch) (x : nat * nat * nat) : Prop :=
  let '(p, s, l) := x in exists a, nth_error fas p = Some a /\ arr_ok a (s, l).

Definition seg_step (fas : list farch) (acc : list (nat * nat * nat)) (sg : nat * nat * nat) : res (list (nat * nat * nat)) :=
  let '(ai, first, cnt) := sg in
  do a <- nth_res fas ai;
  do arrs <- arrays_of_segment a first cnt;
  Ok (acc ++ map (fun x : nat * nat => (ai, fst x, snd x)) arrs).

Lemma task_arrays_unfold fas c sz :
  task_arrays fas c sz = do segs <- segments (S (length fas)) fas (cu_arch c) (cu_ent c) sz true; fold_res (seg_step fas) segs [].
Proof. reflexivity. Qed.

Lemma seg_step_ok fas acc ai a first cnt arrs :
  nth_error fas ai = Some a -> arrays_of_segment a first cnt = Ok arrs ->
  seg_step fas acc (ai, first, cnt) = Ok (acc ++ map (tag ai) arrs).
Proof. intros Ha Ea. unfold seg_step. rewrite (nth_res_some _ _ _ Ha). cbn [bind]. rewrite Ea. reflexivity. Qed.

Lemma segments_0 fuel fas ai first isf : segments fuel fas ai first 0 isf = Ok [].
Proof. destruct fuel; reflexivity. Qed.

Lemma segments_S f fas ai first d isf :
  segments (S f) fas ai first (S d) isf =
  do a <- nth_res fas ai;
  do free <- (if isf then sub_res (fa_count a) first else Ok (fa_count a));
  let cur := Nat.min (S d) free in
  do rest <- segments f fas (S ai) 0 (S d - cur) false;
  Ok ((ai, first, cur) :: rest).
Proof. reflexivity. Qed.

Lemma Forall_arr3_tag fas ai a arrs : nth_error fas ai = Some a -> Forall (arr_ok a) arrs -> Forall (arr3_ok fas) (map (tag ai) arrs).
Proof.
  intros Ha H. induction H as [|[s l] t Hx Ht IH]; [constructor|].
  cbn [map]. constructor; [|assumption]. unfold tag, arr3_ok. cbn [fst snd]. exists a. split; assumption.
Qed.

Lemma segs_cover fas : Forall fa_wf fas -> forall post pre a ai first dist isf fuel,
  fas = pre ++ a :: post -> ai = length pre -> first < fa_count a -> (isf = false -> first = 0) ->
  dist <= (fa_count a - first) + total_count post -> length post < fuel ->
  exists segs, segments fuel fas ai first dist isf = Ok segs /\
    forall acc, exists arrs, fold_res (seg_step fas) segs acc = Ok (acc ++ arrs) /\
      flat3 arrs = firstn dist (map (pair ai) (skipn first (sel (fa_blocks a))) ++ all_from (S ai) post) /\
      Forall (arr3_ok fas) arrs.
Proof.
  intros Hwf. induction post as [|a' post' IH]; intros pre a ai first dist isf fuel Efas Eai Hfirst Hisf Hdist Hfuel.
  all: destruct dist as [|d];
    [exists []; split; [apply segments_0|]; intros acc; exists []; rewrite app_nil_r; repeat split; constructor|].
  all: destruct fuel as [|f]; [simpl in Hfuel; lia|].
  all: assert (Ha : nth_error fas ai = Some a) by (rewrite Efas, Eai; apply nth_error_mid).
  all: assert (Hwfa : fa_wf a) by (rewrite Forall_forall in Hwf; apply Hwf; rewrite Efas; apply in_or_app; right; left; reflexivity).
  all: pose proof (fa_wf_count a Hwfa) as Ecount.
  all: assert (Hfree : (if isf then sub_res (fa_count a) first else Ok (fa_count a)) = Ok (fa_count a - first))
        by (destruct isf; [apply sub_res_le; lia|rewrite (Hisf eq_refl), Nat.sub_0_r; reflexivity]).
  all: rewrite segments_S, (nth_res_some _ _ _ Ha); cbn [bind]; rewrite Hfree; cbn [bind]; cbv zeta.
  all: assert (Hlen : length (map (pair ai) (skipn first (sel (fa_blocks a)))) = fa_count a - first)
        by (rewrite map_length, skipn_length; lia).
  all: destruct (Nat.le_gt_cases (S d) (fa_count a - first)) as [Hle|Hgt].
  (* the segment ends inside this archetype: post = [] *)
  1, 3: replace (Nat.min (S d) (fa_count a - first)) with (S d) by lia; rewrite Nat.sub_diag, segments_0; cbn [bind];
    destruct (arrays_of_segment_ok a first (S d) Hwfa Hfirst ltac:(lia)) as (arrs1 & Earrs1 & Eflat1 & Hok1);
    exists [(ai, first, S d)]; split; [reflexivity|]; intros acc; exists (map (tag ai) arrs1);
    cbn [fold_res]; rewrite (seg_step_ok fas acc ai a first (S d) arrs1 Ha Earrs1); cbn [bind];
    split; [reflexivity|]; split; [|eapply Forall_arr3_tag; eassumption];
    rewrite flat3_tag, Eflat1, firstn_app, Hlen; replace (S d - (fa_count a - first)) with 0 by lia;
    rewrite firstn_O, app_nil_r, firstn_map; reflexivity.
  - exfalso. unfold total_count in Hdist. simpl in Hdist. lia.
  - replace (Nat.min (S d) (fa_count a - first)) with (fa_count a - first) by lia.
    assert (Hwfa' : fa_wf a') by (rewrite Forall_forall in Hwf; apply Hwf; rewrite Efas; apply in_or_app; right; right; left; reflexivity).
    rewrite total_count_cons in Hdist.
    destruct (IH (pre ++ [a]) a' (S ai) 0 (S d - (fa_count a - first)) false f) as (segs' & Esegs' & Hfold').
    + rewrite Efas, <- app_assoc. reflexivity.
    + rewrite app_length, Eai. simpl. lia.
    + destruct Hwfa' as (_ & _ & H & _). exact H.
    + reflexivity.
    + lia.
    + simpl in Hfuel. lia.
    + rewrite Esegs'. cbn [bind].
      destruct (arrays_of_segment_ok a first (fa_count a - first) Hwfa Hfirst ltac:(lia)) as (arrs1 & Earrs1 & Eflat1 & Hok1).
      eexists. split; [reflexivity|]. intros acc.
      destruct (Hfold' (acc ++ map (tag ai) arrs1)) as (arrs2 & Efold2 & Eflat2 & Hok2).
      exists (map (tag ai) arrs1 ++ arrs2). cbn [fold_res].
      rewrite (seg_step_ok fas acc ai a first _ arrs1 Ha Earrs1). cbn [bind]. rewrite Efold2.
      split; [rewrite app_assoc; reflexivity|]. split; [|apply Forall_app; split; [eapply Forall_arr3_tag; eassumption|assumption]].
      rewrite flat3_app, flat3_tag, Eflat1, Eflat2.
      rewrite firstn_all2 by (rewrite skipn_length; lia).
      rewrite all_from_cons. cbn [skipn].
      transitivity (firstn (length (map (pair ai) (skipn first (sel (fa_blocks a)))) + (S d - (fa_count a - first)))
                      (map (pair ai) (skipn first (sel (fa_blocks a))) ++ map (pair (S ai)) (sel (fa_blocks a')) ++ all_from (S (S ai)) post')).
      * rewrite firstn_app_2. reflexivity.
      * f_equal. rewrite Hlen. lia.
Qed.

Lemma task_arrays_ok fas c sz : Forall fa_wf fas -> cwf fas c -> pos fas c + sz <= total_count fas ->
  exists arrs, task_arrays fas c sz = Ok arrs /\
    flat3 arrs = firstn sz (skipn (pos fas c) (all_from 0 fas)) /\ Forall (arr3_ok fas) arrs.
Proof.
  intros Hwf Hc Hsz. rewrite task_arrays_unfold.
  destruct sz as [|sz]; [rewrite segments_0; exists []; repeat split; constructor|].
  destruct Hc as [(a & Ha & Hent)|(H1 & H2)]; [|rewrite (cwf_end_pos fas c H1 H2) in Hsz; lia].
  destruct (nth_error_split _ _ Ha) as (pre & post & Efas & Epre).
  assert (Hpos : pos fas c = total_count pre + cu_ent c) by (unfold pos; rewrite <- Epre, Efas, firstn_mid; reflexivity).
  destruct (segs_cover fas Hwf post pre a (cu_arch c) (cu_ent c) (S sz) true (S (length fas)) Efas (eq_sym Epre) Hent
              ltac:(discriminate)) as (segs & Esegs & Hfold).
  - rewrite Hpos in Hsz. rewrite Efas, total_count_app, total_count_cons in Hsz. lia.
  - rewrite Efas, app_length. simpl. lia.
  - rewrite Esegs. cbn [bind]. destruct (Hfold []) as (arrs & Efold & Eflat & Hok).
    exists arrs. split; [exact Efold|]. split; [|assumption].
    rewrite Eflat, Hpos. rewrite Efas. rewrite skipn_at_cursor; [|rewrite <- Efas; assumption|lia].
    rewrite Epre. reflexivity.
Qed.

(* ------------------------------------------------------------------------------------------ *)
(* task sizes: the number of entities handed to tasks 0..k-1 *)
Definition psum (total tasks k : nat) : nat := k * (total / tasks) + Nat.min k (total - tasks * (total / tasks)).

Lemma psum_0 total tasks : psum total tasks 0 = 0.
Proof. reflexivity. Qed.

Lemma psum_S total tasks k : psum total tasks (S k) = psum total tasks k + task_size total tasks k.
Proof. unfold psum, task_size. rewrite Nat.mul_succ_l. destruct (Nat.ltb_spec k (total - tasks * (total / tasks))); lia. Qed.

Lemma psum_full total tasks : 0 < tasks -> psum total tasks tasks = total.
Proof.
  intros Ht. unfold psum. pose proof (Nat.div_mod total tasks ltac:(lia)) as H.
  pose proof (Nat.mod_upper_bound total tasks ltac:(lia)) as H'. lia.
Qed.

Lemma psum_le total tasks k : 0 < tasks -> k <= tasks -> psum total tasks k <= total.
Proof.
  intros Ht Hk. rewrite <- (psum_full total tasks Ht) at 2.
  replace tasks with (k + (tasks - k)) at 3 by lia. generalize (tasks - k) as m. intros m.
  induction m as [|m IH]; [rewrite Nat.add_0_r; lia|]. rewrite Nat.add_succ_r, psum_S. lia.
Qed.

(* the start cursors computed by task_infos: task k starts at global position psum k, in normal form *)
Inductive infos_ok (fas : list farch) (total tasks : nat) : nat -> list (cursor * nat) -> Prop :=
| io_nil k : infos_ok fas total tasks k []
| io_cons k c rest : cwf fas c -> pos fas c = psum total tasks k -> infos_ok fas total tasks (S k) rest ->
                     infos_ok fas total tasks k ((c, task_size total tasks k) :: rest).

Lemma task_infos_ok fas tasks : Forall fa_wf fas -> 0 < tasks -> forall todo k c,
  k + todo = tasks -> cwf fas c -> pos fas c = psum (total_count fas) tasks k ->
  exists infos, task_infos (S (length fas)) fas (total_count fas) tasks k c todo = Ok infos /\
                infos_ok fas (total_count fas) tasks k infos /\ length infos = todo.
Proof.
  intros Hwf Ht. induction todo as [|todo IH]; intros k c Hk Hc Hpos.
  - exists []. repeat split. constructor.
  - cbn [task_infos]. cbv zeta.
    destruct (advance_ok fas Hwf (S (length fas)) c (task_size (total_count fas) tasks k) Hc) as (c' & Eadv & Hc' & Hpos').
    + rewrite Hpos, <- psum_S. apply psum_le; lia.
    + lia.
    + rewrite Eadv. cbn [bind].
      destruct (IH (S k) c' ltac:(lia) Hc') as (rest & Erest & Hrest & Hlen).
      * rewrite Hpos', Hpos, psum_S. reflexivity.
      * rewrite Erest. cbn [bind]. eexists. split; [reflexivity|]. split; [constructor; assumption|simpl; lia].
Qed.

Definition flat_tasks (per_task : list (list (nat * nat * nat))) : list (nat * nat) := flat_map flat3 per_task.

Definition run_step (fas : list farch) (acc : list (list (nat * nat * nat))) (x : cursor * nat) : res (list (list (nat * nat * nat))) :=
  do arrs <- task_arrays fas (fst x) (snd x); Ok (acc ++ [arrs]).

Lemma run_arrays_S fas t :
  run_arrays fas (S t) =
  do infos <- task_infos (S (length fas)) fas (total_count fas) (S t) 0 {| cu_arch := 0; cu_ent := 0 |} (S t);
  fold_res (run_step fas) infos [].
Proof. reflexivity. Qed.

Lemma run_fold fas tasks : Forall fa_wf fas -> 0 < tasks -> forall infos k,
  infos_ok fas (total_count fas) tasks k infos -> k + length infos = tasks ->
  forall acc, exists per, fold_res (run_step fas) infos acc = Ok (acc ++ per) /\
    length per = length infos /\
    flat_tasks per = skipn (psum (total_count fas) tasks k) (all_from 0 fas) /\
    map (fun arrs => length (flat3 arrs)) per = map (task_size (total_count fas) tasks) (seq k (length infos)) /\
    Forall (Forall (arr3_ok fas)) per.
Proof.
  intros Hwf Ht infos k H. induction H as [k|k c rest Hc Hpos Hrest IH]; intros Hk acc.
  - exists []. rewrite app_nil_r. split; [reflexivity|]. split; [reflexivity|]. split; [|split; [reflexivity|constructor]].
    simpl in Hk. rewrite Nat.add_0_r in Hk. subst k. rewrite psum_full by assumption.
    rewrite skipn_all2; [reflexivity|]. rewrite all_from_length by assumption. lia.
  - simpl in Hk.
    assert (Hsz : pos fas c + task_size (total_count fas) tasks k <= total_count fas)
      by (rewrite Hpos, <- psum_S; apply psum_le; lia).
    destruct (task_arrays_ok fas c _ Hwf Hc Hsz) as (arrs & Earrs & Eflat & Hok).
    destruct (IH ltac:(lia) (acc ++ [arrs])) as (per & Efold & Hlen & Eper & Esz & Hoks).
    exists (arrs :: per). cbn [fold_res]. unfold run_step at 1. cbn [fst snd]. rewrite Earrs. cbn [bind]. rewrite Efold.
    split; [rewrite <- app_assoc; reflexivity|]. split; [simpl; lia|]. split; [|split].
    + unfold flat_tasks in *. cbn [flat_map]. rewrite Eflat, Eper, Hpos, psum_S. apply firstn_skipn_step.
    + cbn [map length seq]. rewrite Esz. f_equal. rewrite Eflat, firstn_length, skipn_length, all_from_length by assumption. lia.
    + constructor; assumption.
Qed.

(* an array as the user function sees it *)
Definition array_good (fas : list farch) (x : nat * nat * nat) : Prop :=
  let '(p, s, l) := x in
  exists a, nth_error fas p = Some a /\ 0 < l /\
            (exists b e, In (b, e) (fa_blocks a) /\ b <= s /\ s + l <= e) /\
            s + l <= fa_size a /\
            (forall i, s <= i < s + l -> i / fa_cap a = s / fa_cap a).

Lemma arr3_ok_good fas x : Forall fa_wf fas -> arr3_ok fas x -> array_good fas x.
Proof.
  intros Hwf. destruct x as [[p s] l]. intros (a & Ha & Hl & (b & e & Hin & Hb & He) & Hfit). cbn [fst snd] in *.
  assert (Hwfa : fa_wf a) by (rewrite Forall_forall in Hwf; apply Hwf; eapply nth_error_In; eassumption).
  destruct Hwfa as (Hch & _ & _ & Hcap). pose proof (chain_in _ _ _ _ _ Hch Hin) as Hbe.
  exists a. split; [assumption|]. split; [assumption|]. split; [exists b, e; repeat split; assumption|]. split; [lia|].
  intros i Hi. apply same_chunk with (l := l); assumption.
Qed.

(* ---- the entity_index handed out with each invocation (Manager.ORunJob: a running count over all arrays of all tasks) ---- *)
Fixpoint visits_from (idx : nat) (arrs : list (nat * nat * nat)) : list (nat * (nat * nat)) :=
  match arrs with
  | [] => []
  | (p, s, l) :: t => combine (seq idx l) (map (pair p) (seq s l)) ++ visits_from (idx + l) t
  end.

Lemma visits_from_spec arrs : forall idx, visits_from idx arrs = combine (seq idx (length (flat3 arrs))) (flat3 arrs).
Proof.
  induction arrs as [|[[p s] l] t IH]; intros idx; [reflexivity|].
  cbn [visits_from]. rewrite IH.
  change (flat3 ((p, s, l) :: t)) with (map (pair p) (seq s l) ++ flat3 t).
  rewrite app_length, map_length, seq_length, seq_app, combine_app by (rewrite map_length, !seq_length; reflexivity).
  reflexivity.
Qed.

Lemma flat3_concat per : flat3 (concat per) = flat_tasks per.
Proof. unfold flat_tasks. induction per as [|x t IH]; [reflexivity|]. cbn [concat flat_map]. rewrite flat3_app, IH. reflexivity. Qed.

(* ------------------------------------------------------------------------------------------ *)
(* MAIN RESULT *)
Theorem tasks_cover fas T : 0 < T -> Forall fa_wf fas ->
  exists per_task,
    run_arrays fas T = Ok per_task /\ length per_task = T /\
    flat_tasks per_task = all_from 0 fas /\
    NoDup (flat_tasks per_task) /\
    map (fun arrs => length (flat3 arrs)) per_task = map (task_size (total_count fas) T) (seq 0 T) /\
    Forall (Forall (array_good fas)) per_task /\
    visits_from 0 (concat per_task) = combine (seq 0 (total_count fas)) (all_from 0 fas).
Proof.
  intros HT Hwf. destruct T as [|t]; [lia|]. rewrite run_arrays_S.
  set (c0 := {| cu_arch := 0; cu_ent := 0 |}).
  assert (Hc0 : cwf fas c0).
  { unfold cwf, c0. cbn [cu_arch cu_ent]. destruct fas as [|a fas']; [right; split; reflexivity|].
    left. exists a. split; [reflexivity|]. inversion Hwf as [|? ? Ha _]; subst. destruct Ha as (_ & _ & H & _). exact H. }
  destruct (task_infos_ok fas (S t) Hwf HT (S t) 0 c0 eq_refl Hc0 eq_refl) as (infos & Einfos & Hinfos & Hlen).
  rewrite Einfos. cbn [bind].
  destruct (run_fold fas (S t) Hwf HT infos 0 Hinfos ltac:(lia) []) as (per & Efold & Hplen & Eflat & Esz & Hoks).
  rewrite psum_0 in Eflat. cbn [skipn] in Eflat. rewrite Hlen in *.
  exists per. split; [exact Efold|]. split; [assumption|]. split; [assumption|].
  split; [rewrite Eflat; apply all_from_NoDup; assumption|]. split; [assumption|]. split.
  - eapply Forall_impl; [|exact Hoks]. intros arrs Harrs. eapply Forall_impl; [|exact Harrs]. intros x. apply arr3_ok_good. assumption.
  - rewrite visits_from_spec, flat3_concat, Eflat, all_from_length by assumption. reflexivity.
Qed.

(* ------------------------------------------------------------------------------------------ *)
(* the blocks computed by filter_blocks are well-formed: non-empty, ascending, disjoint, below the population *)
Lemma blocks_loop_chain cs : 0 < cs -> forall ms k prev b e acc h,
  chain 0 acc h -> h <= k * cs -> (prev = true -> h <= b /\ b < e /\ e = k * cs) ->
  let '(acc', prev', b', e') := blocks_loop cs k ms prev b e acc in
  exists h', chain 0 acc' h' /\ h' <= (k + length ms) * cs /\ (prev' = true -> h' <= b' /\ b' < e' /\ e' = (k + length ms) * cs).
Proof.
  intros Hcs. induction ms as [|m t IH]; intros k prev b e acc h Hch Hh Hprev.
  - simpl. rewrite Nat.add_0_r. exists h. repeat split; try assumption; apply Hprev; assumption.
  - cbn [blocks_loop]. replace (k + length (m :: t)) with (S k + length t) by (simpl; lia). destruct m.
    + apply IH with (h := h); [assumption|nia|]. intros _.
      destruct prev; [destruct (Hprev eq_refl) as (H1 & H2 & H3); repeat split; nia|repeat split; nia].
    + destruct prev.
      * destruct (Hprev eq_refl) as (H1 & H2 & H3). rewrite (proj2 (Nat.ltb_lt b e) H2). cbn [andb].
        apply IH with (h := e); [eapply chain_snoc; [eassumption|lia|lia|lia]|nia|intros H; discriminate].
      * cbn [andb]. apply IH with (h := h); [assumption|nia|intros H; discriminate].
Qed.

Lemma filter_blocks_chain cs size ms : 0 < cs -> 0 < size -> length ms = S ((size - 1) / cs) ->
  chain 0 (filter_blocks cs size ms) size.
Proof.
  intros Hcs Hsize Hlen. unfold filter_blocks.
  pose proof (blocks_loop_inv cs Hcs ms 0 false 0 0 [] [] eq_refl (fun H => match Bool.diff_false_true H with end)
                (fun be (H : In be []) => match H with end) eq_refl) as HA.
  pose proof (blocks_loop_chain cs Hcs ms 0 false 0 0 [] 0 (le_n 0) (Nat.le_0_l _) (fun H => match Bool.diff_false_true H with end)) as HB.
  destruct (blocks_loop cs 0 ms false 0 0 []) as [[[acc prev] b] e]. cbn [Nat.add] in HA, HB.
  destruct HA as (Hp & Hacc & _). destruct HB as (h & Hch & Hh & Hp').
  assert (Hn : size <= length ms * cs /\ (length ms - 1) * cs < size /\ 1 <= length ms).
  { rewrite Hlen. pose proof (Nat.div_mod (size - 1) cs ltac:(lia)). pose proof (Nat.mod_upper_bound (size - 1) cs ltac:(lia)).
    simpl. nia. }
  assert (Hends : forall be, In be acc -> snd be <= size) by (intros be Hbe; specialize (Hacc be Hbe); nia).
  destruct prev.
  - destruct (Hp eq_refl) as (H1 & H2 & H3). destruct (Hp' eq_refl) as (H4 & _ & _).
    assert (Hb : b < size) by nia.
    destruct (Nat.ltb_spec b (Nat.min size e)) as [Hlt|Hge]; [|lia].
    eapply chain_snoc; [eassumption|lia|assumption|lia].
  - eapply chain_tighten; [eassumption|assumption|lia].
Qed.

(* the entity_index of the i-th invocation of a run is i, and that invocation gets the i-th selected position *)
Lemma map_fst_combine {A B} (a : list A) : forall (b : list B), length a = length b -> map fst (combine a b) = a.
Proof. induction a as [|x a IH]; intros [|y b] H; simpl in *; try discriminate; [reflexivity|]. f_equal. apply IH. lia. Qed.

Lemma map_snd_combine {A B} (a : list A) : forall (b : list B), length a = length b -> map snd (combine a b) = b.
Proof. induction a as [|x a IH]; intros [|y b] H; simpl in *; try discriminate; [reflexivity|]. f_equal. apply IH. lia. Qed.

Theorem entity_index_exact fas T : 0 < T -> Forall fa_wf fas ->
  exists per_task, run_arrays fas T = Ok per_task /\
    map fst (visits_from 0 (concat per_task)) = seq 0 (total_count fas) /\
    map snd (visits_from 0 (concat per_task)) = all_from 0 fas.
Proof.
  intros HT Hwf. destruct (tasks_cover fas T HT Hwf) as (per & Erun & _ & _ & _ & _ & _ & Evis).
  exists per. split; [assumption|]. rewrite Evis.
  assert (L : length (seq 0 (total_count fas)) = length (all_from 0 fas)) by (rewrite seq_length, all_from_length by assumption; reflexivity).
  split; [apply map_fst_combine|apply map_snd_combine]; assumption.
Qed.
