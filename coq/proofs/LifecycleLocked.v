(* C03, history level, command buffers: a world is torn down while it is LOCKED with non-empty command buffers.
   After any script of the unlocked alphabet (proofs/LifecycleHist.v) the manager is locked and any sequence of
   RECORDING operations follows (assign typed / untyped, with or without a value, through any handle and any thread;
   removeComponent, destroy, destroyNow; nested lock) -- no unlock.  Each recorded assign parks a temporary in the
   buffer of its thread (constructed: EvC or EvV at PTmp).  Then ~World runs.
   Theorem: the whole history, teardown included, is accepted by the bracket checker and nothing stays alive: every
   archetype cell and every parked temporary is destroyed exactly once.
   (What is NOT covered here is the flush at unlock, i.e. applyCommandPack moving temporaries into archetypes:
   see the note at the end of the file.) *)
Require Import Coq.Lists.List Coq.NArith.NArith Coq.ZArith.ZArith Coq.Arith.Arith Coq.Bool.Bool Coq.micromega.Lia.
From Mustache Require Import Res Manager MgrSpec Refine.
From Mustache.proofs Require ManagerDeferred.
From Mustache.proofs Require Import ListLemmas SkelBasics ClosureProofs ManagerBasics ManagerMoves ManagerProj ManagerInv ManagerMain
  LifecycleProofs LifecycleLang LifecycleHist.
Import ListNotations.

(* the recording operations *)
Definition lk_op (o : op) : bool :=
  match o with
  | OLock | OAssign _ _ _ _ _ | ORemove _ _ _ _ | ODestroy _ _ | ODestroyNow _ _ => true
  | _ => false
  end.

(* model-level run with history (as LifecycleHist.hstep, on concrete operations) *)
Definition ostep (st : mst * list event) (o : op) : res (mst * list event) :=
  let '(s, hist) := st in
  do r <- step s o; Ok (set_log (fst r) [], hist ++ rev (log (fst r))).
Definition orun (ops : list op) (st : mst * list event) : res (mst * list event) := fold_res ostep ops st.

(* ------------------------------------------------------------------------------------------ *)
(* what a recorded assign does *)
Definition rec_events (inf : cinfo) (v : aval) (typed : bool) (q : place) : list event :=
  match v with
  | ADefault => if has_create inf && ci_ev inf then [EvC (ci_pal inf) q] else []
  | AValue _ => if typed then (if ci_ev inf then [EvV (ci_pal inf) q] else [])
                else (if has_create inf && ci_ev inf then [EvC (ci_pal inf) q] else [])
  end.

Lemma tmps_wf_ext s s' : bufs s' = bufs s -> tmps s' = tmps s -> tmps_wf s -> tmps_wf s'.
Proof. unfold tmps_wf. intros -> ->. auto. Qed.

Lemma step_assign_locked_sum s tid h c v typed s' r k : lockc s = S k -> step s (OAssign tid h c v typed) = Ok (s', r) ->
  exists inf b tl, nth_error (cinfos s) c = Some inf /\ nth_error (bufs s) tid = Some b /\ nth_error (tmps s) tid = Some tl /\
    bufs s' = upd (bufs s) tid (b ++ [AAssign h c (length tl)]) /\
    log s' = rev (rec_events inf v typed (PTmp (epoch s * 64 + tid) (length tl))) ++ log s /\
    archs s' = archs s /\ cinfos s' = cinfos s /\ epoch s' = epoch s /\ lockc s' = lockc s /\ (tmps_wf s -> tmps_wf s').
Proof.
  intros El H. rewrite (ManagerDeferred.step_assign_locked _ _ _ _ _ _ _ El) in H.
  bd H inf Hi. apply info_of_ok in Hi. bd H r1 Ha. destruct r1 as (s1, n). cbn [fst snd] in H.
  pose proof (fun Hwf => tmps_wf_assign_locked _ _ _ _ _ _ _ Hwf Ha) as Hwf1.
  apply ManagerDeferred.assign_locked_spec in Ha. destruct Ha as (inf' & b & tl & Hi' & Hb & Ht & -> & Es1).
  rewrite Hi in Hi'. inversion Hi'; subst inf'. clear Hi'.
  exists inf, b, tl. split; [exact Hi|]. split; [exact Hb|]. split; [exact Ht|].
  assert (Eal : forall sk, ManagerDeferred.al_events inf sk (epoch s * 64 + tid) (length tl) =
                           if negb sk && (has_create inf && ci_ev inf) then [EvC (ci_pal inf) (PTmp (epoch s * 64 + tid) (length tl))] else []).
  { intros sk. unfold ManagerDeferred.al_events, has_create. destruct (ci_create inf); destruct sk; destruct (ci_ev inf); reflexivity. }
  assert (F1 : bufs s1 = upd (bufs s) tid (b ++ [AAssign h c (length tl)]) /\
               log s1 = ManagerDeferred.al_events inf (match v with AValue _ => typed | ADefault => false end) (epoch s * 64 + tid) (length tl) ++ log s /\
               archs s1 = archs s /\ cinfos s1 = cinfos s /\ epoch s1 = epoch s /\ lockc s1 = lockc s).
  { rewrite Es1. repeat split; reflexivity. }
  clear Es1. destruct F1 as (B1 & G1 & A1 & C1 & P1 & K1). rewrite Eal in G1.
  destruct v as [|x].
  - inversion H; subst s' r. simpl negb in G1. simpl andb in G1. cbn [rec_events].
    split; [exact B1|]. split; [rewrite G1; destruct (has_create inf && ci_ev inf); reflexivity|]. repeat split; assumption.
  - bd H s2 Hw.
    assert (Hs2 : bufs s2 = bufs s1 /\ log s2 = log s1 /\ archs s2 = archs s1 /\ cinfos s2 = cinfos s1 /\ epoch s2 = epoch s1 /\
                  lockc s2 = lockc s1 /\ (tmps_wf s1 -> tmps_wf s2)).
    { destruct (ci_hasval inf); [|inversion Hw; subst s2; repeat split; auto].
      pose proof (fun Hwf => tmps_wf_write_tmp _ _ _ _ _ Hwf Hw) as Hwf2.
      apply ManagerDeferred.write_tmp_spec in Hw. destruct Hw as (tl0 & _ & _ & E2).
      assert (F2 : bufs s2 = bufs s1 /\ log s2 = log s1 /\ archs s2 = archs s1 /\ cinfos s2 = cinfos s1 /\ epoch s2 = epoch s1 /\ lockc s2 = lockc s1)
        by (rewrite E2; repeat split; reflexivity).
      destruct F2 as (X1 & X2 & X3 & X4 & X5 & X6). repeat split; assumption. }
    destruct Hs2 as (B2 & G2 & A2 & C2 & P2 & K2 & W2).
    assert (Hfin : forall s3, bufs s3 = bufs s2 -> tmps s3 = tmps s2 -> archs s3 = archs s2 -> cinfos s3 = cinfos s2 -> epoch s3 = epoch s2 ->
               lockc s3 = lockc s2 -> bufs s3 = upd (bufs s) tid (b ++ [AAssign h c (length tl)]) /\ archs s3 = archs s /\
               cinfos s3 = cinfos s /\ epoch s3 = epoch s /\ lockc s3 = lockc s /\ (tmps_wf s -> tmps_wf s3)).
    { intros s3 E1 E1' E2 E3 E4 E5. repeat split; try congruence. intros Hwf. apply (tmps_wf_ext s2); [exact E1|exact E1'|].
      apply W2. apply Hwf1. exact Hwf. }
    destruct typed.
    + inversion H; subst s' r. cbn [rec_events]. simpl negb in G1. simpl andb in G1. cbv iota in G1.
      destruct (Hfin (if ci_ev inf then emit s2 (EvV (ci_pal inf) (PTmp (epoch s * 64 + tid) (length tl))) else s2))
        as (Y1 & Y2 & Y3 & Y4 & Y5 & Y6); try (destruct (ci_ev inf); reflexivity).
      split; [exact Y1|]. split; [|repeat split; assumption].
      destruct (ci_ev inf); simpl; rewrite G2, G1; reflexivity.
    + inversion H; subst s' r. cbn [rec_events]. destruct (Hfin s2) as (Y1 & Y2 & Y3 & Y4 & Y5 & Y6); try reflexivity.
      split; [exact Y1|]. split; [|repeat split; assumption]. rewrite G2, G1. simpl negb. simpl andb.
      destruct (has_create inf && ci_ev inf); reflexivity.
Qed.

Lemma rec_events_run cis inf c v typed q L : lc_cis_ok cis -> nth_error cis c = Some inf -> ~ In q L ->
  lc_run (destroy_pals cis) L (rec_events inf v typed q) = Some (if tcomp cis c then q :: L else L).
Proof.
  intros Hok Hn Hq.
  assert (HC : lc_run (destroy_pals cis) L (if has_create inf && ci_ev inf then [EvC (ci_pal inf) q] else []) =
               Some (if tcomp cis c then q :: L else L)).
  { destruct (tcomp cis c) eqn:Ht.
    - destruct (tcomp_funs cis Hok _ _ Hn Ht) as (Hev & _ & Hc & _ & Hp). rewrite Hc, Hev. simpl. rewrite Hp.
      rewrite (proj2 (pmem_false _ _) Hq). reflexivity.
    - destruct (has_create inf && ci_ev inf) eqn:G; [|reflexivity]. apply andb_true_iff in G. destruct G as (_ & Hev).
      simpl. rewrite (untracked_pal cis Hok _ _ Hn Ht Hev). reflexivity. }
  unfold rec_events. destruct v as [|x]; [exact HC|]. destruct typed; [|exact HC].
  destruct (tcomp cis c) eqn:Ht.
  - destruct (tcomp_funs cis Hok _ _ Hn Ht) as (Hev & _ & _ & _ & Hp). rewrite Hev. simpl. rewrite Hp.
    rewrite (proj2 (pmem_false _ _) Hq). reflexivity.
  - destruct (ci_ev inf) eqn:Hev; [|reflexivity]. simpl. rewrite (untracked_pal cis Hok _ _ Hn Ht Hev). reflexivity.
Qed.

(* ------------------------------------------------------------------------------------------ *)
(* the invariant of a locked recording phase *)
Definition tmp_live (cis : list cinfo) (s : mst) (k n : nat) : Prop :=
  exists tid b h cid, k = epoch s * 64 + tid /\ nth_error (bufs s) tid = Some b /\ In (AAssign h cid n) b /\ tcomp cis cid = true.

Record LK (cis : list cinfo) (s : mst) (L : list place) : Prop := {
  lk_lock : lockc s <> 0;
  lk_log : log s = [];
  lk_cis : cinfos s = cis;
  lk_awf : Forall awf (archs s);
  lk_wf : tmps_wf s;
  lk_arch : forall a c i, In (PArch a c i) L <-> aplace cis (archs s) (PArch a c i);
  lk_tmp : forall k n, In (PTmp k n) L <-> tmp_live cis s k n
}.

Lemma LK_frame cis s s' L : LK cis s L -> lockc s' <> 0 -> log s' = [] -> cinfos s' = cinfos s -> archs s' = archs s ->
  bufs s' = bufs s -> tmps s' = tmps s -> epoch s' = epoch s -> LK cis s' L.
Proof.
  intros [A B C D E F G] H1 H2 H3 H4 H5 H6 H7. constructor; try assumption; try congruence.
  - eapply tmps_wf_ext; eassumption.
  - intros a c i. rewrite H4. apply F.
  - intros k n. rewrite G. unfold tmp_live. rewrite H5, H7. tauto.
Qed.

(* a command that is not an assign *)
Lemma LK_push cis s L tid c s1 : LK cis s L -> (match c with AAssign _ _ _ => False | _ => True end) ->
  push_cmd s tid c = Ok s1 -> LK cis (set_log s1 []) L.
Proof.
  intros HK Hc H. pose proof (tmps_wf_push_cmd _ _ _ _ Hc (lk_wf _ _ _ HK) H) as Hwf.
  apply push_cmd_ok in H. destruct H as (b & Hb & ->). destruct HK as [A B C D E F G].
  constructor; try assumption.
  - reflexivity.
  - intros k n. rewrite G. unfold tmp_live. simpl. split; intros (tid' & b' & h & cid & Ek & Hb' & Hin & Ht).
    + destruct (Nat.eq_dec tid' tid) as [->|Hne].
      * rewrite Hb in Hb'. inversion Hb'; subst b'. exists tid, (b ++ [c]), h, cid. split; [exact Ek|].
        split; [apply nth_error_upd_same; apply nth_error_Some; congruence|]. split; [apply in_or_app; left; exact Hin|exact Ht].
      * exists tid', b', h, cid. split; [exact Ek|]. split; [rewrite nth_error_upd_other by congruence; exact Hb'|auto].
    + destruct (Nat.eq_dec tid' tid) as [->|Hne].
      * rewrite nth_error_upd_same in Hb' by (apply nth_error_Some; congruence). inversion Hb'; subst b'.
        apply in_app_or in Hin. destruct Hin as [Hin|[Ecc|[]]]; [|subst c; destruct Hc]. exists tid, b, h, cid. auto.
      * rewrite nth_error_upd_other in Hb' by congruence. exists tid', b', h, cid. auto.
Qed.

Lemma LK_step cis s L o s1 out : lc_cis_ok cis -> LK cis s L -> lk_op o = true -> step s o = Ok (s1, out) ->
  exists L', lc_run (destroy_pals cis) L (rev (log s1)) = Some L' /\ LK cis (set_log s1 []) L'.
Proof.
  intros Hok HK Ho H. pose proof HK as [Hl Hlog Hc Hawf Hwf Harch Htmp].
  destruct (lockc s) as [|k] eqn:El; [congruence|].
  destruct o; try discriminate; cbn [step] in H.
  - (* destroy *)
    rewrite El in H. bd H s2 Hp. inversion H; subst s1 out. pose proof (LK_push cis s L tid (ADestroy h) s2 HK I Hp) as HK'.
    apply push_cmd_ok in Hp. destruct Hp as (b & _ & ->). simpl. rewrite Hlog. exists L. split; [reflexivity|exact HK'].
  - (* destroyNow *)
    rewrite El in H. bd H s2 Hp. inversion H; subst s1 out. pose proof (LK_push cis s L tid (ADestroyNow h) s2 HK I Hp) as HK'.
    apply push_cmd_ok in Hp. destruct Hp as (b & _ & ->). simpl. rewrite Hlog. exists L. split; [reflexivity|exact HK'].
  - (* lock *)
    inversion H; subst s1 out. unfold do_lock. rewrite El. simpl. rewrite Hlog. exists L. split; [reflexivity|].
    apply (LK_frame cis s); try reflexivity; [exact HK|simpl; discriminate].
  - (* assign *)
    fold (step s (OAssign tid h c v typed)) in H.
    destruct (step_assign_locked_sum _ _ _ _ _ _ _ _ _ El H) as (inf & b & tl & Hi & Hb & Ht & B1 & G1 & A1 & C1 & P1 & K1 & W1).
    rewrite Hc in Hi. rewrite G1, Hlog, app_nil_r, rev_involutive.
    set (q := PTmp (epoch s * 64 + tid) (length tl)).
    assert (Hnum : assign_nums b = seq 0 (length tl)) by exact (Forall2_nth_error _ _ _ _ _ _ Hwf Hb Ht).
    assert (Hq : ~ In q L).
    { intros Hin. apply Htmp in Hin. destruct Hin as (tid' & b' & h' & cid & Ek & Hb' & Hin & _).
      assert (tid' = tid) by lia. subst tid'. rewrite Hb in Hb'. inversion Hb'; subst b'.
      assert (Hn : In (length tl) (assign_nums b)) by (unfold assign_nums; apply in_flat_map; exists (AAssign h' cid (length tl)); split; [exact Hin|left; reflexivity]).
      rewrite Hnum in Hn. apply in_seq in Hn. lia. }
    rewrite (rec_events_run cis inf c v typed q L Hok Hi Hq). eexists. split; [reflexivity|].
    constructor; cbn [set_log lockc log cinfos archs bufs tmps epoch].
    + rewrite K1, El. discriminate.
    + reflexivity.
    + congruence.
    + rewrite A1. exact Hawf.
    + apply (tmps_wf_ext s1); [reflexivity|reflexivity|]. apply W1. exact Hwf.
    + intros a c0 i. rewrite A1, <- Harch. destruct (tcomp cis c); [|tauto]. simpl. split; [intros [E|Hin]; [discriminate|exact Hin]|auto].
    + intros k0 n. unfold tmp_live. cbn [set_log lockc log cinfos archs bufs tmps epoch]. rewrite B1, P1.
      assert (Hl0 : In (PTmp k0 n) (if tcomp cis c then q :: L else L) <-> (tcomp cis c = true /\ PTmp k0 n = q) \/ In (PTmp k0 n) L).
      { destruct (tcomp cis c); simpl; [|split; [auto|intros [(E & _)|Hin]; [discriminate|exact Hin]]].
        split; [intros [E|Hin]; [left; auto|right; exact Hin]|intros [(_ & E)|Hin]; [left; auto|right; exact Hin]]. }
      rewrite Hl0, Htmp. unfold tmp_live. clear Hl0. split.
      * intros [(Htc & E)|(tid' & b' & h' & cid & Ek & Hb' & Hin & Htc)].
        -- inversion E; subst k0 n. exists tid, (b ++ [AAssign h c (length tl)]), h, c. split; [reflexivity|].
           split; [apply nth_error_upd_same; apply nth_error_Some; congruence|]. split; [apply in_or_app; right; left; reflexivity|exact Htc].
        -- destruct (Nat.eq_dec tid' tid) as [->|Hne].
           ++ rewrite Hb in Hb'. inversion Hb'; subst b'. exists tid, (b ++ [AAssign h c (length tl)]), h', cid. split; [exact Ek|].
              split; [apply nth_error_upd_same; apply nth_error_Some; congruence|]. split; [apply in_or_app; left; exact Hin|exact Htc].
           ++ exists tid', b', h', cid. split; [exact Ek|]. split; [rewrite nth_error_upd_other by congruence; exact Hb'|auto].
      * intros (tid' & b' & h' & cid & Ek & Hb' & Hin & Htc). destruct (Nat.eq_dec tid' tid) as [->|Hne].
        -- rewrite nth_error_upd_same in Hb' by (apply nth_error_Some; congruence). inversion Hb'; subst b'.
           apply in_app_or in Hin. destruct Hin as [Hin|[E|[]]].
           ++ right. exists tid, b, h', cid. auto.
           ++ inversion E; subst h' cid n. left. split; [exact Htc|]. unfold q. rewrite Ek. reflexivity.
        -- rewrite nth_error_upd_other in Hb' by congruence. right. exists tid', b', h', cid. auto.
  - (* removeComponent *)
    rewrite El in H. bd H s2 Hp. inversion H; subst s1 out. pose proof (LK_push cis s L tid (ARemove h c) s2 HK I Hp) as HK'.
    apply push_cmd_ok in Hp. destruct Hp as (b & _ & ->). simpl. rewrite Hlog. exists L. split; [reflexivity|exact HK'].
Qed.

Lemma LK_run cis : lc_cis_ok cis -> forall ops s hist L s2 hist2, LK cis s L -> lc_run (destroy_pals cis) [] hist = Some L ->
  forallb lk_op ops = true -> orun ops (s, hist) = Ok (s2, hist2) ->
  exists L2, lc_run (destroy_pals cis) [] hist2 = Some L2 /\ LK cis s2 L2.
Proof.
  intros Hok. induction ops as [|o t IH]; intros s hist L s2 hist2 HK Hr Ha H; unfold orun in *; cbn [fold_res] in H.
  - inversion H; subst. eauto.
  - simpl in Ha. apply andb_true_iff in Ha. destruct Ha as (Ho & Ht). bd H st1 H1. unfold ostep in H1. bd H1 r Hst.
    destruct r as (s1, out). cbn [fst] in H1. inversion H1; subst st1; clear H1.
    destruct (LK_step cis s L o s1 out Hok HK Ho Hst) as (L' & Hr' & HK').
    apply (IH (set_log s1 []) (hist ++ rev (log s1)) L' s2 hist2 HK'); [rewrite lc_run_app, Hr; exact Hr'|exact Ht|exact H].
Qed.

(* the first lock, on a state of the unlocked phase *)
Lemma nth_error_repeat_inv {A} (x : A) n i y : nth_error (repeat x n) i = Some y -> y = x.
Proof. intros H. apply nth_error_In in H. eapply repeat_spec. exact H. Qed.

Lemma LK_first cis s hs al x L : MInv cis s hs al x -> log s = [] -> bufs s = [] -> tmps s = [] ->
  (forall p, In p L <-> aplace cis (archs s) p) -> LK cis (set_log (do_lock s) []) L.
Proof.
  intros HI Hlog Hb Ht HL. unfold do_lock. rewrite (mi_lock _ _ _ _ _ HI), Hb, Ht.
  constructor; simpl.
  - discriminate.
  - reflexivity.
  - exact (mi_cis _ _ _ _ _ HI).
  - exact (mi_awf _ _ _ _ _ HI).
  - unfold tmps_wf. simpl. apply Forall2_resize; [constructor|reflexivity].
  - intros a c i. apply HL.
  - intros k n. split.
    + intros Hin. apply HL in Hin. contradiction.
    + intros (tid & b & h & cid & _ & Hb' & Hin & _). simpl in Hb'. unfold resize in Hb'. rewrite firstn_nil in Hb'. simpl in Hb'.
      apply nth_error_repeat_inv in Hb'. subst b. contradiction.
Qed.

(* ------------------------------------------------------------------------------------------ *)
(* ~World with parked temporaries *)
Lemma dtor_one_p cis p c L : lc_cis_ok cis -> (tcomp cis c = true -> In p L) ->
  lc_run (destroy_pals cis) L (on_info cis c (fun inf => if ci_destroy inf && ci_ev inf then [EvD (ci_pal inf) p] else [])) =
  Some (if tcomp cis c then premove p L else L).
Proof.
  intros Hok H. unfold on_info. destruct (nth_error cis c) as [inf|] eqn:Hn; [|unfold tcomp; rewrite Hn; reflexivity].
  rewrite (tcomp_some cis _ _ Hn) in *. destruct (ci_destroy inf && ci_ev inf) eqn:T; [|reflexivity].
  assert (Ht : tcomp cis c = true) by (rewrite (tcomp_some cis _ _ Hn); exact T).
  destruct (tcomp_funs cis Hok _ _ Hn Ht) as (_ & _ & _ & _ & Hp). simpl. rewrite Hp.
  rewrite (proj2 (pmem_in _ _) (H eq_refl)). reflexivity.
Qed.

Lemma run_tmp_dtor_buf cis k : lc_cis_ok cis -> forall b L, NoDup (assign_nums b) ->
  (forall h cid n, In (AAssign h cid n) b -> tcomp cis cid = true -> In (PTmp k n) L) ->
  exists L', lc_run (destroy_pals cis) L (tmp_dtor_events cis k b) = Some L' /\
    forall p, In p L' <-> (In p L /\ ~ exists h cid n, In (AAssign h cid n) b /\ tcomp cis cid = true /\ p = PTmp k n).
Proof.
  intros Hok. induction b as [|c t IH]; intros L Hnd H.
  - exists L. split; [reflexivity|]. intros p. split; [intros Hp; split; [exact Hp|intros (h & cid & n & [] & _)]|tauto].
  - unfold tmp_dtor_events. cbn [flat_map]. fold (tmp_dtor_events cis k t). rewrite lc_run_app.
    destruct c as [h0 ha m0 sh0|h0|h0|h0 c0|h0 cid0 n0];
      try (simpl; destruct (IH L Hnd) as (L' & Hr & HL');
           [intros h cid n Hin; apply (H h cid n); right; exact Hin|];
           exists L'; split; [exact Hr|]; intros p; rewrite HL'; split; intros (Hp & Hno); (split; [exact Hp|]);
           [intros (h & cid & n & [E|Hin] & X); [discriminate|apply Hno; exists h, cid, n; auto]
           |intros (h & cid & n & Hin & X); apply Hno; exists h, cid, n; split; [right; exact Hin|exact X]]).
    simpl in Hnd. apply NoDup_cons_iff in Hnd. destruct Hnd as (Hni & Hnd').
    rewrite (dtor_one_p cis (PTmp k n0) cid0 L Hok) by (intros Ht; apply (H h0 cid0 n0); [left; reflexivity|exact Ht]).
    destruct (IH (if tcomp cis cid0 then premove (PTmp k n0) L else L) Hnd') as (L' & Hr & HL').
    { intros h cid n Hin Ht. assert (Hin0 : In (PTmp k n) L) by (apply (H h cid n); [right; exact Hin|exact Ht]).
      destruct (tcomp cis cid0); [|exact Hin0]. apply premove_in. split; [exact Hin0|]. intros E. inversion E; subst n.
      apply Hni. unfold assign_nums. apply in_flat_map. exists (AAssign h cid n0). split; [exact Hin|left; reflexivity]. }
    exists L'. split; [exact Hr|]. intros p. rewrite HL'. clear Hr HL' IH. split.
    + intros (Hp & Hno).
      assert (Hp' : In p L /\ (tcomp cis cid0 = true -> p <> PTmp k n0)).
      { destruct (tcomp cis cid0); [apply premove_in in Hp; destruct Hp; split; [assumption|intros _; assumption]|split; [exact Hp|discriminate]]. }
      destruct Hp' as (Hp1 & Hp2). split; [exact Hp1|]. intros (h & cid & n & [E|Hin] & Ht & Ep).
      * inversion E; subst. apply (Hp2 Ht). reflexivity.
      * apply Hno. exists h, cid, n. auto.
    + intros (Hp & Hno). split.
      * destruct (tcomp cis cid0) eqn:Ht; [|exact Hp]. apply premove_in. split; [exact Hp|]. intros E. apply Hno.
        exists h0, cid0, n0. split; [left; reflexivity|auto].
      * intros (h & cid & n & Hin & X). apply Hno. exists h, cid, n. split; [right; exact Hin|exact X].
Qed.

Lemma run_flush_tmp_dtors cis ep : lc_cis_ok cis -> forall bs L, NoDup (map fst bs) ->
  (forall x, In x bs -> NoDup (assign_nums (snd x))) ->
  (forall tid b h cid n, In (tid, b) bs -> In (AAssign h cid n) b -> tcomp cis cid = true -> In (PTmp (ep * 64 + tid) n) L) ->
  exists L', lc_run (destroy_pals cis) L (flush_tmp_dtors cis ep bs) = Some L' /\
    forall p, In p L' <-> (In p L /\ ~ exists tid b h cid n, In (tid, b) bs /\ In (AAssign h cid n) b /\ tcomp cis cid = true /\
                                                             p = PTmp (ep * 64 + tid) n).
Proof.
  intros Hok. induction bs as [|(tid0, b0) t IH]; intros L Hnd Hnn H.
  - exists L. split; [reflexivity|]. intros p. split; [intros Hp; split; [exact Hp|intros (tid & b & h & cid & n & [] & _)]|tauto].
  - simpl in Hnd. inversion Hnd as [|? ? Hni Hnd']; subst. unfold flush_tmp_dtors. cbn [flat_map fst snd].
    fold (flush_tmp_dtors cis ep t). rewrite lc_run_app.
    destruct (run_tmp_dtor_buf cis (ep * 64 + tid0) Hok b0 L (Hnn (tid0, b0) (or_introl eq_refl))) as (L1 & Hr1 & HL1).
    { intros h cid n Hin Ht. apply (H tid0 b0 h cid n); [left; reflexivity|exact Hin|exact Ht]. }
    rewrite Hr1. destruct (IH L1 Hnd') as (L' & Hr & HL').
    { intros x Hx. apply Hnn. right. exact Hx. }
    { intros tid b h cid n Hin Hc Ht. apply HL1. split; [apply (H tid b h cid n); [right; exact Hin|exact Hc|exact Ht]|].
      intros (h' & cid' & n' & _ & _ & E). inversion E. assert (tid = tid0) by lia. subst tid.
      apply Hni. apply in_map_iff. exists (tid0, b). auto. }
    exists L'. split; [exact Hr|]. intros p. rewrite HL', HL1. clear Hr Hr1 HL' HL1 IH. split.
    + intros ((Hp & Hn1) & Hno). split; [exact Hp|]. intros (tid & b & h & cid & n & [E|Hin] & Hc & Ht & Ep).
      * inversion E; subst tid b. apply Hn1. exists h, cid, n. auto.
      * apply Hno. exists tid, b, h, cid, n. auto.
    + intros (Hp & Hno). split; [split; [exact Hp|]|].
      * intros (h & cid & n & Hc & Ht & Ep). apply Hno. exists tid0, b0, h, cid, n. split; [left; reflexivity|auto].
      * intros (tid & b & h & cid & n & Hin & X). apply Hno. exists tid, b, h, cid, n. split; [right; exact Hin|exact X].
Qed.

Lemma LK_teardown cis s L s' r : lc_cis_ok cis -> LK cis s L -> step s OTeardown = Ok (s', r) ->
  lc_run (destroy_pals cis) L (rev (log s')) = Some [].
Proof.
  intros Hok [Hl Hlog Hc Hawf Hwf Harch Htmp] H. apply teardown_spec in H.
  rewrite H, Hlog, app_nil_r, rev_app_distr, !rev_involutive, Hc, lc_run_app.
  destruct (run_clear_all cis (archs s) Hok Hawf (seq 0 (length (archs s))) L (seq_NoDup _ _)) as (L1 & Hr1 & HL1).
  { intros ai c i _ Hp. apply Harch. exact Hp. }
  rewrite Hr1.
  destruct (run_flush_tmp_dtors cis (epoch s) Hok (combine (seq 0 (length (bufs s))) (bufs s)) L1) as (L2 & Hr2 & HL2).
  - rewrite map_fst_combine_seq. apply seq_NoDup.
  - intros (tid, b) Hx. apply in_combine_seq0 in Hx. simpl. eapply tmps_wf_nodup; eassumption.
  - intros tid b h cid n Hx Hin Ht. apply in_combine_seq0 in Hx. apply HL1. split.
    + apply Htmp. exists tid, b, h, cid. auto.
    + intros (ai & c & i & _ & E & _). discriminate.
  - rewrite Hr2. f_equal. destruct L2 as [|p t]; [reflexivity|]. exfalso.
    assert (Hp : In p (p :: t)) by (left; reflexivity). apply HL2 in Hp. destruct Hp as (Hp1 & Hno2). apply HL1 in Hp1.
    destruct Hp1 as (Hp & Hno1). destruct p as [ai c i|k n].
    + apply Harch in Hp. apply Hno1. exists ai, c, i. split; [|split; [reflexivity|exact Hp]].
      destruct Hp as (a & Ha & _). apply in_seq. split; [lia|]. simpl. apply nth_error_Some. congruence.
    + apply Htmp in Hp. destruct Hp as (tid & b & h & cid & Ek & Hb & Hin & Ht). apply Hno2.
      exists tid, b, h, cid, n. split; [apply in_combine_seq0; exact Hb|]. split; [exact Hin|]. split; [exact Ht|]. rewrite Ek. reflexivity.
Qed.

(* ------------------------------------------------------------------------------------------ *)
Theorem locked_teardown typed n cis ops s hs hist lops s2 hist2 s' r :
  cis_ok cis -> lc_cis_ok cis -> forallb (alpha_b cis) ops = true ->
  hrun typed n cis ops = Ok (s, hs, hist) -> x_viol (xrun n cis ops) = 0 -> within (length hs) ->
  forallb lk_op lops = true -> orun (OLock :: lops) (s, hist) = Ok (s2, hist2) ->
  step s2 OTeardown = Ok (s', r) ->
  lc_ok (destroy_pals cis) (hist2 ++ rev (log s')) = true /\ lc_live (destroy_pals cis) (hist2 ++ rev (log s')) = [].
Proof.
  intros Hok Hlok Ha Hrun Hviol Hb Hla Hor Htd. rewrite hrun_unfold in Hrun. rewrite xrun_unfold in Hviol.
  destruct (HInv_run cis typed ops _ _ _ _ _ _ _ _ (HInv_init n cis) Hok Hlok Ha eq_refl Hviol Hrun Hb)
    as (al & [HI Hlog Hbufs Htmps (L & Hr & HL)]).
  unfold orun in Hor. cbn [fold_res] in Hor. bd Hor st1 H1. unfold ostep in H1. cbn [step] in H1. rewrite bind_Ok in H1.
  cbn [fst] in H1. inversion H1; subst st1; clear H1.
  assert (Elog : log (do_lock s) = []) by (unfold do_lock; destruct (lockc s); exact Hlog).
  rewrite Elog in Hor. simpl rev in Hor. rewrite app_nil_r in Hor.
  pose proof (LK_first cis s hs al _ L HI Hlog Hbufs Htmps HL) as HK.
  destruct (LK_run cis Hlok lops _ _ L _ _ HK Hr Hla Hor) as (L2 & Hr2 & HK2).
  pose proof (LK_teardown cis s2 L2 s' r Hlok HK2 Htd) as Hr3.
  unfold lc_ok, lc_live. rewrite lc_run_app, Hr2, Hr3. split; reflexivity.
Qed.

(* NOTE (what is missing for lock / unlock sections in general): the flush at unlock runs applyCommandPack per
   (buffer, handle) pack: Archetype::insert / externalMove with a skip mask, then one move construction per recorded
   assign from its temporary into the entity's cell, then the destructor pass over the buffer.  The bracket checker
   accepts that only under the CONTRACT of the deferred interface (no component assigned twice in one section or
   assigned while already present: the second move construction would hit a live cell), so the history theorem for
   sections with unlock needs the refinement invariant of the LOCKED alphabet at the Manager level (an MInv for states
   with pending buffers, relating them to MgrSpec's pending commands).  ManagerInv / ManagerMain prove MInv for the
   unlocked alphabet only; the function-level facts needed are in place (LifecycleProofs: apply_pack_emits,
   apply_storage_spec, flush_spec, flush_destroys_temporary_once; LifecycleLang: run_move, run_insert with skip masks). *)
