Require Import Coq.Lists.List Coq.NArith.NArith Coq.ZArith.ZArith Coq.micromega.Lia Coq.Arith.Arith.
Require Import Coq.micromega.ZifyBool Coq.micromega.ZifyN.
From Mustache Require Import CInt Handle Layout.
From Mustache.gen Require Import IdDeffGen.
From Mustache.proofs Require Import HandleProofs.
Import ListNotations.
Local Open Scope N_scope.

(* the documented contract on component descriptions *)
Definition comp_ok (c : N * N) : Prop := 0 < snd c /\ (exists k, snd c = 2 ^ k) /\ fst c mod snd c = 0.

(* no 32-bit overflow: what the running offset can reach at most *)
Fixpoint bound (cap : N) (comps : list (N * N)) : N :=
  match comps with [] => 0 | (size, align) :: t => cap * size + align + bound cap t end.

(* the fold, started anywhere *)
Definition fold_from (cap : N) (st : lay) (comps : list (N * N)) : lay := fold_left (lay_step cap) comps st.

Lemma pow2_divides a b : (exists k, a = 2 ^ k) -> (exists k, b = 2 ^ k) -> a <= b -> b mod a = 0.
Proof.
  intros (ka & ->) (kb & ->) Hle. apply N.pow_le_mono_r_iff in Hle; [|lia].
  replace kb with (ka + (kb - ka)) by lia. rewrite N.pow_add_r. rewrite N.mul_comm. apply N.mod_mul. apply N.pow_nonzero. lia.
Qed.

Lemma mod_trans x a b : a <> 0 -> b mod a = 0 -> x mod b = 0 -> b <> 0 -> x mod a = 0.
Proof.
  intros Ha Hba Hxb Hb. apply N.mod_divide in Hba; [|assumption]. apply N.mod_divide in Hxb; [|assumption].
  apply N.mod_divide; [assumption|]. eapply N.divide_trans; eassumption.
Qed.

(* invariant of the fold under the no-overflow bound: the running end stays small, every offset produced is a multiple
   of its component's alignment, columns follow each other without overlap, the chunk alignment is the maximum so far *)
Lemma fold_inv cap : forall comps st,
  Forall comp_ok comps -> l_end st + bound cap comps < 2 ^ 32 ->
  let r := fold_from cap st comps in
  l_end st <= l_end r /\ l_end r <= l_end st + bound cap comps /\
  length (l_offsets r) = (length (l_offsets st) + length comps)%nat /\
  (forall k, (k < length (l_offsets st))%nat -> nth k (l_offsets r) 0 = nth k (l_offsets st) 0) /\
  (forall k c, nth_error comps k = Some c ->
     let off := nth (length (l_offsets st) + k) (l_offsets r) 0 in
     off mod snd c = 0 /\ l_end st <= off /\ off + cap * fst c <= l_end r /\
     (forall k' c', nth_error comps k' = Some c' -> (k < k')%nat ->
        off + cap * fst c <= nth (length (l_offsets st) + k') (l_offsets r) 0)) /\
  l_align st <= l_align r /\
  (forall c, In c comps -> snd c <= l_align r) /\
  ((exists c, In c comps /\ l_align r = snd c) \/ l_align r = l_align st).
Proof.
  induction comps as [|[size align] t IH]; intros st Hok Hb r.
  - subst r. simpl in *.
    split; [lia|]. split; [lia|]. split; [lia|]. split; [intros k0 _; reflexivity|].
    split; [intros k0 c0 H0; destruct k0; discriminate|]. split; [lia|]. split; [intros c0 []|right; reflexivity].
  - inversion Hok as [|? ? Hc Hok']; subst. destruct Hc as (Hpos & Hpow & Hmod). simpl in Hpos, Hpow, Hmod.
    simpl in Hb.
    set (off := ComponentOffset.alignAs (l_end st) align).
    assert (Hal : is_align_up (l_end st) align off) by (apply align_up_spec; [assumption|lia]).
    destruct Hal as (Ha1 & Ha2 & Ha3).
    set (st1 := lay_step cap st (size, align)).
    assert (E1 : l_end st1 = off + cap * size).
    { unfold st1, lay_step. fold off. simpl. unfold wrap. rewrite (N.mod_small (cap * size)) by lia. rewrite N.mod_small by lia. reflexivity. }
    assert (Hb1 : l_end st1 + bound cap t < 2 ^ 32) by (rewrite E1; lia).
    specialize (IH st1 Hok' Hb1). cbv zeta in IH.
    change (fold_from cap st ((size, align) :: t)) with (fold_from cap st1 t) in r.
    fold r in IH. destruct IH as (I1 & I2 & I3 & I4 & I5 & I6 & I7 & I8).
    assert (Eoffs : l_offsets st1 = l_offsets st ++ [off]) by reflexivity.
    assert (Elen : length (l_offsets st1) = S (length (l_offsets st))) by (rewrite Eoffs, app_length; simpl; lia).
    assert (Ealign : l_align st1 = if l_align st <? align then align else l_align st) by reflexivity.
    split; [lia|]. split; [simpl; lia|]. split; [rewrite I3, Elen; simpl; lia|].
    split; [intros k0 Hk0; rewrite I4 by lia; rewrite Eoffs; apply app_nth1; assumption|].
    split.
    { intros k0 c0 H0. cbv zeta. destruct k0 as [|k0]; simpl in H0.
      - inversion H0; subst c0. simpl. rewrite Nat.add_0_r. rewrite I4 by lia. rewrite Eoffs, app_nth2 by lia. rewrite Nat.sub_diag. simpl.
        split; [exact Ha1|]. split; [lia|]. split; [lia|].
        intros k' c' H' Hlt. destruct k' as [|k']; [lia|]. simpl in H'.
        destruct (I5 k' c' H') as (_ & K2 & _). rewrite Elen in K2.
        replace (length (l_offsets st) + S k')%nat with (S (length (l_offsets st)) + k')%nat by lia. lia.
      - destruct (I5 k0 c0 H0) as (J1 & J2 & J3 & J4). rewrite Elen in J1, J2, J3, J4.
        replace (length (l_offsets st) + S k0)%nat with (S (length (l_offsets st)) + k0)%nat by lia.
        split; [exact J1|]. split; [lia|]. split; [exact J3|].
        intros k' c' H' Hlt. destruct k' as [|k']; [lia|]. simpl in H'.
        replace (length (l_offsets st) + S k')%nat with (S (length (l_offsets st)) + k')%nat by lia.
        apply (J4 k' c' H'). lia. }
    split; [rewrite Ealign in I6; destruct (N.ltb_spec (l_align st) align); lia|].
    split.
    { intros c0 [E|E]; [subst c0; simpl; rewrite Ealign in I6; destruct (N.ltb_spec (l_align st) align); lia | apply I7; assumption]. }
    destruct I8 as [(c0 & Hc0 & Ec0)|E].
    + left. exists c0. split; [right; assumption|assumption].
    + rewrite Ealign in E. destruct (N.ltb_spec (l_align st) align); [left; exists (size, align); split; [left; reflexivity|assumption] | right; assumption].
Qed.

Definition lay0 : lay := {| l_offsets := []; l_end := 0; l_align := 0 |}.

Lemma sum_multiples a x y z : a <> 0 -> x mod a = 0 -> y mod a = 0 -> z mod a = 0 -> (x + y + z) mod a = 0.
Proof.
  intros Ha Hx Hy Hz. apply N.mod_divide in Hx, Hy, Hz; try assumption. apply N.mod_divide; [assumption|].
  apply N.divide_add_r; [apply N.divide_add_r|]; assumption.
Qed.

(* every address handed out for component k, item i, is aligned to that component's alignment *)
Theorem layout_aligned cap comps base :
  Forall comp_ok comps -> bound cap comps < 2 ^ 32 ->
  base mod chunk_align cap comps = 0 ->
  forall k c, nth_error comps k = Some c -> forall i, addr base cap comps k i mod snd c = 0.
Proof.
  intros Hok Hb Hbase k c Hk i.
  pose proof (fold_inv cap comps lay0 Hok) as H. simpl in H. specialize (H Hb).
  destruct H as (_ & _ & _ & _ & H5 & _ & H7 & H8).
  destruct (H5 k c Hk) as (J1 & _). simpl in J1.
  assert (Hin : In c comps) by (eapply nth_error_In; eassumption).
  rewrite Forall_forall in Hok. destruct (Hok c Hin) as (Hpos & Hpow & Hmod).
  unfold addr, offsets, layout_fold. fold (fold_from cap lay0 comps).
  assert (Ec : nth k comps (0, 1) = c) by (apply nth_error_nth; assumption). rewrite Ec.
  apply sum_multiples; [lia| |exact J1|].
  - (* the base: chunk_align is one of the alignments (a power of two) and at least this one *)
    unfold chunk_align, layout_fold in Hbase. fold (fold_from cap lay0 comps) in Hbase.
    destruct H8 as [(c' & Hc' & Ec')|E0].
    + destruct (Hok c' Hc') as (Hpos' & Hpow' & _).
      eapply mod_trans with (b := l_align (fold_from cap lay0 comps)); [lia| |exact Hbase|rewrite Ec'; lia].
      rewrite Ec'. apply pow2_divides; [assumption|assumption|]. rewrite <- Ec'. apply H7. assumption.
    + simpl in E0. specialize (H7 c Hin). rewrite E0 in H7. lia.
  - rewrite N.mul_comm. apply N.mod_divide; [lia|]. apply N.divide_mul_r. apply N.mod_divide; [lia|assumption].
Qed.

(* columns do not overlap and every item lies inside the chunk *)
Theorem layout_disjoint_in_bounds cap comps :
  Forall comp_ok comps -> comps <> [] -> bound cap comps + chunk_align cap comps < 2 ^ 32 ->
  forall k c, nth_error comps k = Some c ->
    let off := nth k (offsets cap comps) 0 in
    off + cap * fst c <= chunk_size cap comps /\
    (forall k' c', nth_error comps k' = Some c' -> (k < k')%nat -> off + cap * fst c <= nth k' (offsets cap comps) 0) /\
    (forall i, i < cap -> off + fst c * i + fst c <= off + cap * fst c).
Proof.
  intros Hok Hne Hb k c Hk off.
  assert (Hb' : bound cap comps < 2 ^ 32) by lia.
  pose proof (fold_inv cap comps lay0 Hok) as H. simpl in H. specialize (H Hb').
  destruct H as (_ & H2 & _ & _ & H5 & _ & H7 & H8).
  destruct (H5 k c Hk) as (_ & _ & J3 & J4). simpl in J3, J4.
  unfold off, offsets, layout_fold. fold (fold_from cap lay0 comps).
  assert (Hin : In c comps) by (eapply nth_error_In; eassumption).
  rewrite Forall_forall in Hok. destruct (Hok c Hin) as (Hpos & _ & _).
  assert (Hap : 0 < l_align (fold_from cap lay0 comps)) by (specialize (H7 c Hin); lia).
  split; [|split].
  - unfold chunk_size. destruct comps as [|c0 t]; [congruence|].
    unfold chunk_align, layout_fold in Hb. unfold layout_fold. unfold fold_from, lay0 in *.
    set (r := fold_left (lay_step cap) (c0 :: t) {| l_offsets := []; l_end := 0; l_align := 0 |}) in *.
    assert (Hal : is_align_up (l_end r) (l_align r) (ComponentOffset.alignAs (l_end r) (l_align r))).
    { apply align_up_spec; [assumption|]. lia. }
    destruct Hal as (_ & Hge & _). lia.
  - intros k' c' Hk' Hlt. exact (J4 k' c' Hk' Hlt).
  - intros i Hi. nia.
Qed.
