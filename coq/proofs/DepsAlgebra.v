(* C13 / C05: the algebra of the dependency closure over a well-formed table (the specification's closure is the least
   closed superset; it distributes over unions because every rule has ONE premise), and the decidable condition on the
   recorded commands of one entity under which "close once at the end" (applyCommandPack) and "close at every
   assignment" (the specification) agree. *)
Require Import Coq.Lists.List Coq.NArith.NArith Coq.ZArith.ZArith Coq.Arith.Arith Coq.Bool.Bool Coq.micromega.Lia.
From Mustache Require Import Res Manager MgrSpec Refine.
From Mustache.proofs Require Import ListLemmas SkelBasics ClosureProofs ManagerBasics ManagerMoves ManagerProj ManagerInv
  DepsFrame DepsClosure DepsTotal ManagerPack.
Import ListNotations.

(* ---------------------------------------------------------------------------------------- *)
(* the closure over a well-formed table *)
Definition tstate (d : list (nat * mask)) : mst := set_deps (init 0 []) d.

Lemma cl_props d m : dwf d ->
  closed d (closure d m) /\ sub m (closure d m) /\ (forall x, closed d x -> sub m x -> sub (closure d m) x) /\
  (lowm m -> lowm (closure d m)).
Proof.
  intros Hd. assert (Hd' : dwf (deps (tstate d))) by exact Hd.
  destruct (extra_components_total (tstate d) m Hd') as (r & Hr).
  pose proof (closure_eq (tstate d) m r Hd' Hr) as E. change (deps (tstate d)) with d in E. rewrite E.
  destruct (extra_components_least_fixpoint (tstate d) m r Hr) as (A & B & C).
  split; [exact A|]. split; [exact B|]. split; [exact C|]. intros Hl. apply lowm_union; [exact Hl|exact (extra_low (tstate d) m r Hd' Hl Hr)].
Qed.

Lemma cl_closed d m : dwf d -> closed d (closure d m).
Proof. intros Hd. apply (cl_props d m Hd). Qed.
Lemma cl_ext d m : dwf d -> sub m (closure d m).
Proof. intros Hd. apply (cl_props d m Hd). Qed.
Lemma cl_least d m x : dwf d -> closed d x -> sub m x -> sub (closure d m) x.
Proof. intros Hd. apply (cl_props d m Hd). Qed.
Lemma cl_low d m : dwf d -> lowm m -> lowm (closure d m).
Proof. intros Hd. apply (cl_props d m Hd). Qed.

Lemma cl_mono d a b : dwf d -> sub a b -> sub (closure d a) (closure d b).
Proof. intros Hd H. apply cl_least; [exact Hd|apply cl_closed; exact Hd|]. eapply sub_trans; [exact H|apply cl_ext; exact Hd]. Qed.

Lemma cl_fix d x : dwf d -> closed d x -> closure d x = x.
Proof. intros Hd Hc. apply sub_antisym; [apply cl_least; [exact Hd|exact Hc|apply sub_refl]|apply cl_ext; exact Hd]. Qed.

Lemma closed_union d a b : closed d a -> closed d b -> closed d (munion a b).
Proof.
  intros Ha Hb c dm Hc Hf Hm y Hy. rewrite mhas_union in *. apply orb_true_iff in Hm. apply orb_true_iff.
  destruct Hm as [Hm|Hm]; [left; exact (Ha c dm Hc Hf Hm y Hy)|right; exact (Hb c dm Hc Hf Hm y Hy)].
Qed.

Lemma closed_zero d : closed d 0%N.
Proof. intros c dm _ _ H. rewrite mhas_zero in H. discriminate. Qed.

Lemma cl_zero d : dwf d -> closure d 0%N = 0%N.
Proof. intros Hd. apply cl_fix; [exact Hd|apply closed_zero]. Qed.

Lemma cl_union d a b : dwf d -> closure d (munion a b) = munion (closure d a) (closure d b).
Proof.
  intros Hd. apply sub_antisym.
  - apply cl_least; [exact Hd|apply closed_union; apply cl_closed; exact Hd|].
    apply sub_union_lub; [eapply sub_trans; [apply cl_ext; exact Hd|apply sub_union_l]|eapply sub_trans; [apply cl_ext; exact Hd|apply sub_union_r]].
  - apply sub_union_lub; apply cl_mono; try exact Hd; [apply sub_union_l|apply sub_union_r].
Qed.

(* the singleton {c} and "m requires y" (directly, transitively, or y = m) *)
Definition bit (c : nat) : mask := madd 0%N c.
Definition req (d : list (nat * mask)) (m y : nat) : bool := mhas (closure d (bit m)) y.

Lemma mhas_bit c x : mhas (bit c) x = Nat.eqb x c.
Proof. unfold bit. rewrite mhas_madd, mhas_zero, orb_false_r. reflexivity. Qed.

Lemma sub_madd_union m c : sub (madd m c) (munion m (bit c)).
Proof. intros x H. rewrite mhas_madd in H. rewrite mhas_union, mhas_bit. destruct (Nat.eqb x c); [apply orb_true_r|simpl in H; rewrite H; reflexivity]. Qed.
Lemma sub_union_madd m c : sub (munion m (bit c)) (madd m c).
Proof. intros x H. rewrite mhas_union, mhas_bit in H. rewrite mhas_madd. destruct (Nat.eqb x c); [reflexivity|rewrite orb_false_r in H; exact H]. Qed.

(* adding one component to a closed set: the set and what the component requires *)
Lemma cl_madd_closed d s c x : dwf d -> closed d s ->
  mhas (closure d (madd s c)) x = true -> mhas s x = true \/ req d c x = true.
Proof.
  intros Hd Hc H. assert (Hs : sub (closure d (madd s c)) (munion s (closure d (bit c)))).
  { apply cl_least; [exact Hd|apply closed_union; [exact Hc|apply cl_closed; exact Hd]|].
    eapply sub_trans; [apply sub_madd_union|]. apply sub_union_lub; [apply sub_union_l|eapply sub_trans; [apply cl_ext; exact Hd|apply sub_union_r]]. }
  apply Hs in H. rewrite mhas_union in H. apply orb_true_iff in H. exact H.
Qed.

Lemma req_in_cl d a m y : dwf d -> mhas a m = true -> req d m y = true -> mhas (closure d a) y = true.
Proof.
  intros Hd Hm Hr. unfold req in Hr. eapply (cl_mono d (bit m) a Hd); [|exact Hr].
  intros x Hx. rewrite mhas_bit in Hx. apply Nat.eqb_eq in Hx. subst x. exact Hm.
Qed.

Lemma sub_mdel m c : sub (mdel m c) m.
Proof. intros x H. rewrite mhas_mdel in H. apply andb_true_iff in H. tauto. Qed.

(* removing a component nothing else requires leaves a closed set *)
Lemma closed_mdel d s c : dwf d -> closed d s -> mhas (closure d (mdel s c)) c = false -> closed d (mdel s c).
Proof.
  intros Hd Hc Hn. assert (E : closure d (mdel s c) = mdel s c).
  { apply sub_antisym; [|apply cl_ext; exact Hd]. intros x Hx. rewrite mhas_mdel.
    assert (Hs : mhas s x = true) by (apply (cl_least d (mdel s c) s Hd Hc (sub_mdel s c)); exact Hx). rewrite Hs. simpl.
    destruct (Nat.eqb_spec x c) as [->|Hne]; [congruence|reflexivity]. }
  rewrite <- E. apply cl_closed. exact Hd.
Qed.

(* ---------------------------------------------------------------------------------------- *)
(* the condition on the commands recorded for one entity in one run of a buffer: once "remove y" has been recorded,
   no later command of the run names a component m <> y that requires y -- neither "assign m" (the specification
   re-creates y with its default value, applyCommandPack keeps the old one) nor "remove m" (the specification keeps y,
   which the removal of y did not touch while m was there; applyCommandPack drops both).  A later "assign y" ends the
   obligation for y.  X = the removals still binding. *)
Definition cmd_ok (d : list (nat * mask)) (X : list nat) (xc : xcmd) : bool :=
  match xc with
  | XAssign _ m _ | XRemove _ m => forallb (fun y => Nat.eqb y m || negb (req d m y)) X
  | _ => true
  end.
Definition upd_rm (X : list nat) (xc : xcmd) : list nat :=
  match xc with
  | XRemove _ c => c :: X
  | XAssign _ c _ => filter (fun y => negb (Nat.eqb y c)) X
  | _ => X
  end.
Fixpoint run_ok (d : list (nat * mask)) (X : list nat) (l : list xcmd) : bool :=
  match l with [] => true | xc :: t => cmd_ok d X xc && run_ok d (upd_rm X xc) t end.

(* a whole buffer: the obligations are dropped when the next command is on another entity *)
Fixpoint buf_ok (d : list (nat * mask)) (prev : option nat) (X : list nat) (l : list xcmd) : bool :=
  match l with
  | [] => true
  | xc :: t =>
    let X0 := match prev with Some k => if Nat.eqb k (xkey xc) then X else [] | None => [] end in
    cmd_ok d X0 xc && buf_ok d (Some (xkey xc)) (upd_rm X0 xc) t
  end.

Lemma cmd_ok_mono d X X' xc : (forall y, In y X' -> In y X) -> cmd_ok d X xc = true -> cmd_ok d X' xc = true.
Proof.
  intros Hi H. destruct xc; simpl in *; try reflexivity; rewrite forallb_forall in *; intros y Hy; apply H; apply Hi; exact Hy.
Qed.

Lemma upd_rm_mono X X' xc : (forall y, In y X' -> In y X) -> forall y, In y (upd_rm X' xc) -> In y (upd_rm X xc).
Proof.
  intros Hi y. destruct xc; simpl; auto.
  - rewrite !filter_In. intros (A & B). auto.
  - intros [E|H]; [left; exact E|right; auto].
Qed.

Lemma run_ok_mono d : forall l X X', (forall y, In y X' -> In y X) -> run_ok d X l = true -> run_ok d X' l = true.
Proof.
  induction l as [|xc t IH]; intros X X' Hi H; simpl in *; [reflexivity|]. apply andb_true_iff in H. destruct H as (H1 & H2).
  rewrite (cmd_ok_mono d X X' xc Hi H1). simpl. apply (IH (upd_rm X xc)); [apply upd_rm_mono; exact Hi|exact H2].
Qed.

Lemma run_ok_nil d l X : run_ok d X l = true -> run_ok d [] l = true.
Proof. apply run_ok_mono. intros y []. Qed.

(* a run of commands on one entity inside a buffer *)
Lemma buf_ok_run d k : forall xp xr prev X, Forall (fun xc => xkey xc = k) xp -> xp <> [] -> buf_ok d prev X (xp ++ xr) = true ->
  run_ok d [] xp = true /\ exists X', buf_ok d (Some k) X' xr = true.
Proof.
  assert (G : forall xp xr X, Forall (fun xc => xkey xc = k) xp -> buf_ok d (Some k) X (xp ++ xr) = true ->
              run_ok d X xp = true /\ exists X', buf_ok d (Some k) X' xr = true).
  { induction xp as [|xc t IH]; intros xr X Hall H; simpl in *; [split; [reflexivity|eauto]|].
    inversion Hall as [|a0 l0 Ek Ht]; subst a0 l0. rewrite Ek, Nat.eqb_refl in H. apply andb_true_iff in H. destruct H as (H1 & H2).
    rewrite H1. simpl. apply IH; assumption. }
  intros xp xr prev X Hall Hne H. destruct xp as [|xc t]; [congruence|]. simpl in H. inversion Hall as [|a0 l0 Ek Ht]; subst a0 l0.
  apply andb_true_iff in H. destruct H as (H1 & H2). rewrite Ek in H2. destruct (G t xr _ Ht H2) as (G1 & G2). split; [|exact G2].
  simpl. rewrite (cmd_ok_mono d _ [] xc (fun y (Hy : In y []) => match Hy with end) H1). simpl.
  eapply run_ok_mono; [|exact G1]. apply upd_rm_mono. intros y [].
Qed.

(* what an obligation forbids: as long as y is not assigned again, every later assignment or removal names a
   component that does not require y *)
Lemma run_ok_forbids cis hs tl d : forall t xt X y, Forall2 (crel cis hs tl) t xt -> run_ok d X xt = true -> In y X ->
  last_asg tl t y = None ->
  forall m, is_some (last_asg tl t m) = true -> m = y \/ req d m y = false.
Proof.
  induction t as [|c t IH]; intros xt X y HR Hok Hin Hla m Hm; [simpl in Hm; discriminate|].
  inversion HR as [|c' xc t' xt' Hc HRt]; subst c' t' xt. simpl in Hok. apply andb_true_iff in Hok. destruct Hok as (Hc1 & Hok).
  destruct c as [h' ha m0 sh|h'|h'|h' c0|h' c0 n]; destruct xc as [k0 m1 sh0|k0|k0|k0 c1 v0|k0 c1]; simpl in Hc; try contradiction;
    simpl in Hla, Hm.
  - apply (IH xt' X y HRt Hok Hin Hla m Hm).
  - apply (IH xt' X y HRt Hok Hin Hla m Hm).
  - apply (IH xt' X y HRt Hok Hin Hla m Hm).
  - destruct Hc as (_ & _ & -> & _). simpl in Hok. apply (IH xt' (c0 :: X) y HRt Hok (or_intror Hin) Hla m Hm).
  - destruct Hc as (_ & _ & -> & _). destruct (last_asg tl t y) eqn:Ey; [discriminate|].
    destruct (Nat.eqb_spec c0 y) as [E|Hne]; [discriminate|].
    assert (Hin' : In y (upd_rm X (XAssign k0 c0 v0))).
    { simpl. apply filter_In. split; [exact Hin|]. apply negb_true_iff. apply Nat.eqb_neq. congruence. }
    destruct (last_asg tl t m) eqn:Em; [apply (IH xt' _ y HRt Hok Hin' Ey m); rewrite Em; reflexivity|].
    destruct (Nat.eqb_spec c0 m) as [<-|Hnm]; [|discriminate].
    simpl in Hc1. rewrite forallb_forall in Hc1. specialize (Hc1 y Hin). apply orb_true_iff in Hc1.
    destruct Hc1 as [E|E]; [apply Nat.eqb_eq in E; left; congruence|right; apply negb_true_iff in E; exact E].
Qed.
