(* C07 over histories WITH DESTRUCTION, part 4: the history theorems.
     run_handed_char_d        which entities a run hands to the job (under VInvD)
     carries                  entity b sits in archetype ai and the stamp of (its version chunk, component c) is at least W:
                              kept by every operation that is not the destruction of b itself -- also when b is relocated
                              by the removal of another entity (carries_step)
     C07_relocated_core       destroyNow a relocates b; any proper script without a run of jn and without destroyNow b;
                              jn runs: it is handed b
     C07_touched_core         C07_history over the extended alphabet
     C07_created_core         C07_history_created over the extended alphabet
     population_inv_d, *_pop  the same from the initial state *)
Require Import Coq.Lists.List Coq.NArith.NArith Coq.ZArith.ZArith Coq.Arith.Arith Coq.Bool.Bool Coq.micromega.Lia.
From Mustache Require Import Res Iter Manager.
From Mustache.proofs Require Import ListLemmas SkelBasics ClosureProofs ManagerBasics ManagerMoves ManagerDeferred
  IterProofs IterCover VersionProofs VersionHistory VersionDestroyArch VersionDestroyInv VersionDestroyStep.
Import ListNotations.

(* ------------------------------------------------------------------------------------------ *)
(* which entities a run hands to the job                                                       *)
Lemma fa_from_wf_d j s w cap fa : 0 < cap -> Forall (arch_okd w) (archs s) -> fa_from j s fa -> fa_wf (set_cap cap fa).
Proof.
  intros Hcap Hok (a & Ha & Hcs & Hm & Hb & Hc & Hnz & Hsz).
  pose proof (Forall_nth_error _ _ _ _ Hok Ha) as [W1 W2 W3 W4 W5 W6 W7].
  unfold fa_wf, set_cap. cbn [fa_blocks fa_size fa_count fa_cap].
  assert (Hsize : 0 < length (am_ents a)).
  { unfold jmatch in Hm. apply andb_true_iff in Hm. destruct Hm as (Hm & _). apply Nat.ltb_lt in Hm. exact Hm. }
  split; [|split; [assumption|split; [lia|assumption]]].
  rewrite Hb, Hsz, W5. unfold jblocks. apply filter_blocks_chain; [lia|assumption|]. apply jchunks_flags_length. assumption.
Qed.

Theorem run_handed_char_d s js jn par tov wk cap st' out_ :
  VInvD (s, js) -> 0 < cap ->
  vstep (s, js) (VRun jn par tov wk cap) = Ok (st', out_) ->
  exists j, nth_error js jn = Some j /\
  forall h, handed out_ h <->
    exists ai a idx, nth_error (archs s) ai = Some a /\ jmatch j a = true /\ processed j a idx /\
                     nth_error (am_ents a) idx = Some h.
Proof.
  intros HI Hcap H. pose proof HI as [I1 I2 I3 I4 I5 I6 I7 I8 I9]. cbn [fst snd] in *.
  destruct (vstep_run_cases _ _ _ _ _ _ _ _ _ I1 I3 H) as (j & s1 & fas0 & Hj & Hf & Hcases).
  exists j. split; [assumption|].
  pose proof (job_filter_fas _ _ _ _ Hf) as Hfas.
  destruct (job_filter_state _ _ _ _ Hf) as (E1 & Ewv & Elen & Hpt).
  assert (Hsel : forall ai a idx, nth_error (archs s) ai = Some a -> jmatch j a = true ->
            ((exists fa, In fa fas0 /\ fa_arch fa = ai /\ In idx (sel (fa_blocks fa))) <-> processed j a idx)).
  { intros ai a idx Ha Hm. pose proof (Forall_nth_error _ _ _ _ I5 Ha) as [W1 W2 W3 W4 W5 W6 W7].
    apply (job_filter_char s j s1 fas0 ai a Hf Ha Hm); [|assumption]. apply W6.
    unfold jmatch in Hm. apply andb_true_iff in Hm. destruct Hm as (Hm & _). apply Nat.ltb_lt in Hm.
    destruct (am_ents a); [simpl in Hm; lia|discriminate]. }
  set (fas := map (set_cap cap) fas0) in *.
  assert (Hwf : Forall fa_wf fas).
  { subst fas. apply Forall_forall. intros x Hx. apply in_map_iff in Hx. destruct Hx as (fa & <- & Hin).
    eapply fa_from_wf_d; [assumption|exact I5|]. rewrite Forall_forall in Hfas. apply Hfas. assumption. }
  assert (Hents : forall k a a1, nth_error (archs s) k = Some a -> nth_error (archs s1) k = Some a1 -> am_ents a1 = am_ents a).
  { intros k a a1 Ha Ha1. destruct (Hpt _ _ Ha) as (a1' & Ha1' & Hrel). rewrite Ha1 in Ha1'. inversion Ha1'; subst a1'.
    destruct Hrel as [->|(-> & _)]; reflexivity. }
  destruct Hcases as [(Et & -> & ->)|(Et & per_task & vis & s3 & Hp & Hv & U1 & _ & _ & _ & _ & _ & _ & _ & _ & -> & ->)].
  - assert (Hnil : fas0 = []).
    { assert (fas = []) as Hn.
      { apply total_count_zero_nil; [|assumption]. eapply Forall_impl; [|exact Hwf]. intros fa (_ & _ & X & _). lia. }
      subst fas. destruct fas0; [reflexivity|discriminate]. }
    intro h. split; [intros (v & e & [] & _)|].
    intros (ai & a & idx & Ha & Hm & Hpr & Hh). exfalso.
    apply (Hsel ai a idx Ha Hm) in Hpr. destruct Hpr as (fa & Hin & _). rewrite Hnil in Hin. destruct Hin.
  - destruct (tasks_cover fas _ (run_tasks_pos par tov wk (total_count fas)) Hwf) as (per' & Hp' & _ & Hflat & _).
    rewrite Hp in Hp'. inversion Hp'; subst per'; clear Hp'. rewrite <- flat3_concat in Hflat.
    destruct vis as [[kk ii] vv]. destruct (vis_outer_spec _ _ _ _ _ _ _ _ _ _ Hv) as (ext & Hext & HF). simpl in Hext. subst vv.
    cbn [snd handed].
    assert (Hs2 : archs (do_lock (inc_wv s1)) = archs s1).
    { unfold do_lock. destruct (lockc (inc_wv s1)); reflexivity. }
    intro h. split.
    + intros (v & e & Hv' & He & <-).
      destruct (Forall2_in_r _ _ _ _ HF Hv') as ([[p st] ln] & Har & (fa & Hfa & Hvis)). cbn [fst snd] in Hfa, Hvis.
      apply array_visits_spec in Hvis. destruct Hvis as (a2 & Ha2 & HF2). rewrite Hs2 in Ha2.
      destruct (Forall2_in_r _ _ _ _ HF2 He) as (idx & Hidx & Hent). apply in_seq in Hidx.
      assert (Hall : In (p, idx) (all_from 0 fas)).
      { rewrite <- Hflat. apply flat3_in. exists st, ln. split; [assumption|lia]. }
      apply all_from_in in Hall. destruct Hall as (fa' & _ & Hfa' & Hselx). rewrite Nat.sub_0_r in Hfa'. rewrite Hfa in Hfa'.
      inversion Hfa'; subst fa'; clear Hfa'.
      assert (Hfin : In fa fas) by (eapply nth_error_In; eassumption).
      subst fas. apply in_map_iff in Hfin. destruct Hfin as (fa0 & <- & Hin0). cbn [set_cap fa_arch fa_blocks] in *.
      rewrite Forall_forall in Hfas. destruct (Hfas _ Hin0) as (a & Ha & Hcs & Hm & _).
      pose proof (Hents _ _ _ Ha Ha2) as Ee.
      exists (fa_arch fa0), a, idx. split; [assumption|]. split; [assumption|]. split.
      * apply (Hsel _ _ idx Ha Hm). exists fa0. auto.
      * rewrite <- Ee. assumption.
    + intros (ai & a & idx & Ha & Hm & Hpr & Hh).
      apply (Hsel ai a idx Ha Hm) in Hpr. destruct Hpr as (fa0 & Hin0 & Harch & Hselx).
      assert (Hin : In (set_cap cap fa0) fas) by (subst fas; apply in_map; assumption).
      apply In_nth_error in Hin. destruct Hin as (p & Hp0).
      assert (Hall : In (p, idx) (all_from 0 fas)).
      { apply all_from_in. exists (set_cap cap fa0). split; [lia|]. rewrite Nat.sub_0_r. split; [assumption|exact Hselx]. }
      rewrite <- Hflat in Hall. apply flat3_in in Hall. destruct Hall as (st & ln & Har & Hrange).
      destruct (Forall2_in_l _ _ _ _ HF Har) as (v & Hv' & (fa & Hfa & Hvis)). cbn [fst snd] in Hfa, Hvis.
      rewrite Hp0 in Hfa. inversion Hfa; subst fa; clear Hfa. cbn [set_cap fa_arch] in Hvis. rewrite Harch in Hvis.
      apply array_visits_spec in Hvis. destruct Hvis as (a2 & Ha2 & HF2). rewrite Hs2 in Ha2.
      pose proof (Hents _ _ _ Ha Ha2) as Ee.
      assert (Hidx : In idx (seq st ln)) by (apply in_seq; lia).
      destruct (Forall2_in_l _ _ _ _ HF2 Hidx) as (e & He & Hent). rewrite Ee, Hh in Hent. inversion Hent.
      exists v, e. auto.
Qed.

(* ------------------------------------------------------------------------------------------ *)
(* an entity and the stamp of its version chunk                                                 *)
(* b is a member of archetype ai (mask m), and the stamp of (version chunk of b's position, component c) is at least W *)
Definition carries (s : mst) (b : handle) (ai : nat) (m : mask) (c : nat) (W : N) : Prop :=
  exists a idx ci, nth_error (archs s) ai = Some a /\ am_mask a = m /\ nth_error (am_ents a) idx = Some b /\
    cindex m c = Some ci /\ (W <= nth (length (am_gver a) * (idx / am_chunk a) + ci) (am_cver a) 0)%N.

Lemma carries_aframe s s' b ai m c W a a' :
  c < MASK_BITS -> ver_wf a -> nth_error (archs s) ai = Some a -> nth_error (archs s') ai = Some a' -> aframe a a' ->
  carries s b ai m c W -> carries s' b ai m c W.
Proof.
  intros Hc Hwf Ha Ha' ((Em & (ext & Ee) & Ek & Eg) & Hmono) (a0 & idx & ci & Ha0 & Hm & Hb & Hci & HW).
  rewrite Ha in Ha0. inversion Ha0; subst a0; clear Ha0.
  assert (Hidx : idx < length (am_ents a)) by (apply nth_error_Some; congruence).
  assert (Hlt : ci < length (am_gver a)).
  { rewrite Hwf. apply (VersionProofs.cindex_lt (am_mask a) c ci); [exact Hc|rewrite Hm; exact Hci]. }
  exists a', idx, ci. split; [exact Ha'|]. split; [congruence|].
  split; [rewrite Ee; rewrite nth_error_app1 by exact Hidx; exact Hb|]. split; [exact Hci|].
  rewrite Eg, Ek. eapply N.le_trans; [exact HW|]. apply Hmono; assumption.
Qed.

Lemma carries_old st o st' out_ b ai m c W :
  VInvD st -> (wv (fst st) + 1 < WV_NULL)%N -> c < MASK_BITS -> vstep st o = Ok (st', out_) ->
  carries (fst st) b ai m c W -> carries (fst st') b ai m c W.
Proof.
  intros HI Hb Hc H Hcar. destruct (vstep_inv_d _ _ _ _ HI Hb H) as (_ & (Fa & _) & _).
  pose proof Hcar as (a & _ & _ & Ha & _). destruct (Fa _ _ Ha) as (a' & Ha' & Hfr).
  assert (Hwf : ver_wf a) by (apply (ad_wf (wv (fst st))); eapply Forall_nth_error; [exact (vd_archs _ HI)|exact Ha]).
  exact (carries_aframe (fst st) (fst st') b ai m c W a a' Hc Hwf Ha Ha' Hfr Hcar).
Qed.

(* the removal of ANOTHER entity: b stays, or -- if it was the last member -- moves into the hole, whose version chunk is
   stamped with the live world version *)
Lemma carries_removal w a a' idx_h b idx ci W :
  arch_okd w a -> removal a a' idx_h w -> nth_error (am_ents a) idx = Some b -> idx <> idx_h -> ci < length (am_gver a) ->
  (W <= nth (length (am_gver a) * (idx / am_chunk a) + ci) (am_cver a) 0)%N ->
  exists idx', nth_error (am_ents a') idx' = Some b /\
    (W <= nth (length (am_gver a') * (idx' / am_chunk a') + ci) (am_cver a') 0)%N.
Proof.
  intros Hok (last & El & Hle & Em & Ek & Hcs & El' & Es & Hkeep & Hmoved & (R1 & R2 & R3 & R4 & R5)) Hb Hne Hci HW.
  assert (Hidx : idx < S last) by (rewrite <- El; apply nth_error_Some; congruence).
  assert (Eg : length (am_gver a') = length (am_gver a)) by (rewrite R1; apply map_length).
  assert (HWw : (W <= w)%N) by (eapply N.le_trans; [exact HW|apply le_all_nth; exact (ad_cver _ _ Hok)]).
  rewrite Eg, Ek.
  destruct (Nat.eq_dec idx last) as [->|Hnl].
  - exists idx_h. split; [rewrite Hmoved by lia; exact Hb|]. rewrite R3; [exact HWw|right; reflexivity|exact Hci].
  - exists idx. split; [rewrite Hkeep by lia; exact Hb|].
    destruct (Nat.eq_dec (idx / am_chunk a) (last / am_chunk a)) as [E1|N1]; [rewrite R3; [exact HWw|left; exact E1|exact Hci]|].
    destruct (Nat.eq_dec (idx / am_chunk a) (idx_h / am_chunk a)) as [E2|N2]; [rewrite R3; [exact HWw|right; exact E2|exact Hci]|].
    rewrite R4; [exact HW|intros [F|F]; contradiction|exact Hci].
Qed.

Lemma carries_destroy s js tid (h : handle) s' out_ b ai m c W :
  VInvD (s, js) -> properb s (VDestroyNow tid h) = true -> c < MASK_BITS -> step s (ODestroyNow tid h) = Ok (s', out_) ->
  h <> b -> carries s b ai m c W -> carries s' b ai m c W.
Proof.
  intros HI Hp Hc H Hne (a & idx & ci & Ha & Hm & Hb & Hci & HW).
  destruct (destroy_d _ _ _ _ _ _ HI Hp H) as (_ & _ & _ & [(-> & _)|(l & ai_h & a_h & a' & Hv & Hl & Hla & Hah & Hh & A' & Hrem)]).
  { exists a, idx, ci. auto. }
  destruct (Nat.eq_dec ai ai_h) as [->|Hna].
  2:{ exists a, idx, ci. rewrite A', nth_error_upd_other by congruence. auto. }
  rewrite Ha in Hah. inversion Hah; subst a_h; clear Hah.
  pose proof (Forall_nth_error _ _ _ _ (vd_archs _ HI) Ha) as Hok. cbn [fst] in Hok.
  assert (Hlt : ci < length (am_gver a)).
  { rewrite (ad_wf _ _ Hok). apply (VersionProofs.cindex_lt (am_mask a) c ci); [exact Hc|rewrite Hm; exact Hci]. }
  assert (Hni : idx <> l_idx l) by (intro E; rewrite E, Hh in Hb; congruence).
  destruct (carries_removal _ _ _ _ _ _ _ _ Hok Hrem Hb Hni Hlt HW) as (idx' & Hb' & HW').
  destruct Hrem as (last & _ & _ & Em & _).
  exists a', idx', ci. split; [rewrite A'; apply nth_error_upd_same; apply nth_error_Some; congruence|].
  split; [congruence|]. auto.
Qed.

(* scripts *)
Definition not_run_d (jn : nat) (o : vopd) : Prop := match o with VOld o' => not_run_of jn o' | VDestroyNow _ _ => True end.
Definition no_run_d (jn : nat) (ops : list vopd) : Prop := Forall (not_run_d jn) ops.
Definition not_destroy_of (b : handle) (o : vopd) : Prop := match o with VDestroyNow _ h => h <> b | VOld _ => True end.
Definition not_destroyed (b : handle) (ops : list vopd) : Prop := Forall (not_destroy_of b) ops.

Lemma carries_step st o st' out_ b ai m c W :
  VInvD st -> (wv (fst st) + 1 < WV_NULL)%N -> properb (fst st) o = true -> c < MASK_BITS -> dstep st o = Ok (st', out_) ->
  not_destroy_of b o -> carries (fst st) b ai m c W -> carries (fst st') b ai m c W.
Proof.
  intros HI Hb Hp Hc H Hnd Hcar. destruct o as [o|tid h].
  - cbn [dstep] in H. eapply carries_old; eassumption.
  - destruct st as [s js]. cbn [dstep] in H. bd H r Hr. destruct r as [s' o']. cbn [fst snd] in H. inversion H; subst st' out_; clear H.
    cbn [fst] in *. eapply carries_destroy; eassumption.
Qed.

Lemma wv_effect_d_keeps_job st o st' out_ jn :
  wv_effect_d st o st' out_ -> not_run_d jn o -> nth_error (snd st') jn = nth_error (snd st) jn.
Proof.
  destruct o as [o|tid h]; cbn [wv_effect_d not_run_d].
  - apply wv_effect_keeps_job.
  - intros (_ & _ & ->) _. reflexivity.
Qed.

Theorem carries_run b ai m c W jn : forall ops st st',
  VInvD st -> (wv (fst st) + N.of_nat (length ops) < WV_NULL)%N -> proper_run ops st = true -> c < MASK_BITS ->
  drun ops st = Ok st' -> not_destroyed b ops -> no_run_d jn ops -> carries (fst st) b ai m c W ->
  carries (fst st') b ai m c W /\ nth_error (snd st') jn = nth_error (snd st) jn.
Proof.
  induction ops as [|o t IH]; intros st st' HI Hb Hp Hc H Hnd Hnr Hcar.
  - simpl in H. inversion H; subst. auto.
  - cbn [drun] in H. cbn [proper_run] in Hp. apply andb_true_iff in Hp. destruct Hp as (Hp1 & Hp2).
    bd H r Hr. destruct r as [st1 o1]. rewrite Hr in Hp2. cbn [fst] in H, Hp2. cbn [length] in Hb.
    inversion Hnd; subst. inversion Hnr; subst.
    destruct (dstep_inv _ _ _ _ HI ltac:(lia) Hp1 Hr) as (I1 & W1). pose proof (wv_effect_d_le _ _ _ _ W1) as Hle.
    pose proof (carries_step _ _ _ _ _ _ _ _ _ HI ltac:(lia) Hp1 Hc Hr H2 Hcar) as Hcar1.
    destruct (IH _ _ I1 ltac:(lia) Hp2 Hc H H3 H5 Hcar1) as (G1 & G2).
    split; [exact G1|]. rewrite G2. eapply wv_effect_d_keeps_job; eassumption.
Qed.

Theorem drun_keeps_job jn : forall ops st st',
  VInvD st -> (wv (fst st) + N.of_nat (length ops) < WV_NULL)%N -> proper_run ops st = true ->
  drun ops st = Ok st' -> no_run_d jn ops -> nth_error (snd st') jn = nth_error (snd st) jn.
Proof.
  induction ops as [|o t IH]; intros st st' HI Hb Hp H Hnr.
  - simpl in H. inversion H; subst. reflexivity.
  - cbn [drun] in H. cbn [proper_run] in Hp. apply andb_true_iff in Hp. destruct Hp as (Hp1 & Hp2).
    bd H r Hr. destruct r as [st1 o1]. rewrite Hr in Hp2. cbn [fst] in H, Hp2. cbn [length] in Hb.
    inversion Hnr; subst.
    destruct (dstep_inv _ _ _ _ HI ltac:(lia) Hp1 Hr) as (I1 & W1). pose proof (wv_effect_d_le _ _ _ _ W1) as Hle.
    rewrite (IH _ _ I1 ltac:(lia) Hp2 H H3). eapply wv_effect_d_keeps_job; eassumption.
Qed.

(* the common second half: b carries a stamp ahead of job jn's last version: the run of jn is handed b *)
Lemma C07_from_carries s3 js3 jn par tov wk cap st4 out_ b ai m c W j :
  VInvD (s3, js3) -> carries s3 b ai m c W -> nth_error js3 jn = Some j -> j_last j = WV_NULL \/ (j_last j < W)%N ->
  c < MASK_BITS -> mhas (j_check j) c = true -> mmatch m (job_required_mask j) = true -> 0 < cap ->
  vstep (s3, js3) (VRun jn par tov wk cap) = Ok (st4, out_) ->
  handed out_ b.
Proof.
  intros HI (a & idx & ci & Ha & Hm & Hb & Hci & HW) Hj Hjl Hc Hchk Hmm Hcap H.
  destruct (run_handed_char_d _ _ _ _ _ _ _ _ _ HI Hcap H) as (j' & Hj' & Hchar).
  rewrite Hj in Hj'. inversion Hj'; subst j'; clear Hj'.
  apply Hchar. exists ai, a, idx.
  assert (Hidx : idx < length (am_ents a)) by (apply nth_error_Some; congruence).
  split; [assumption|]. split.
  { unfold jmatch. rewrite Hm, Hmm, andb_true_r. apply Nat.ltb_lt. lia. }
  split; [|assumption].
  apply (stamp_ahead_processed_d (wv s3) j a idx ci c); try assumption.
  - exact (Forall_nth_error _ _ _ _ (vd_archs _ HI) Ha).
  - rewrite Hm. assumption.
  - destruct Hjl as [E|L]; [left; assumption|right]. eapply N.lt_le_trans; eassumption.
Qed.

Lemma C07_carries_core st2 mid st3 jn par tov wk cap st4 out_ b ai m c W j :
  VInvD st2 -> (wv (fst st2) + N.of_nat (length mid) + 1 < WV_NULL)%N ->
  carries (fst st2) b ai m c W -> nth_error (snd st2) jn = Some j -> j_last j = WV_NULL \/ (j_last j < W)%N ->
  c < MASK_BITS -> mhas (j_check j) c = true -> mmatch m (job_required_mask j) = true ->
  drun mid st2 = Ok st3 -> proper_run mid st2 = true -> no_run_d jn mid -> not_destroyed b mid -> 0 < cap ->
  vstep st3 (VRun jn par tov wk cap) = Ok (st4, out_) ->
  handed out_ b.
Proof.
  intros I2 Hb Hcar Hj Hjl Hc Hchk Hmm H2 Hp Hnr Hnd Hcap H3.
  assert (Hb2 : (wv (fst st2) + N.of_nat (length mid) < WV_NULL)%N) by lia.
  destruct (drun_inv _ _ _ I2 Hb2 Hp H2) as (I3 & _).
  destruct (carries_run b ai m c W jn _ _ _ I2 Hb2 Hp Hc H2 Hnd Hnr Hcar) as (Hcar3 & Ejob).
  destruct st3 as [s3 js3]. cbn [fst snd] in *.
  eapply C07_from_carries; try eassumption. rewrite Ejob. exact Hj.
Qed.

(* ------------------------------------------------------------------------------------------ *)
(* C07: relocated by the removal of another entity                                              *)
(* entity a is alive, in archetype ai (A); b is the LAST member of A and is not a *)
Definition relocates (s : mst) (a b : handle) (ai : nat) (A : archetype) : Prop :=
  is_valid s a = true /\
  (exists l, nth_error (locs s) (N.to_nat (fst a)) = Some l /\ l_arch l = Some ai) /\
  nth_error (archs s) ai = Some A /\ nth_error (am_ents A) (length (am_ents A) - 1) = Some b /\ b <> a.

Lemma relocates_proper s a b ai A tid : relocates s a b ai A -> properb s (VDestroyNow tid a) = true.
Proof.
  intros (Hv & (l & Hl & Hla) & _). cbn [properb]. rewrite Hv. cbn [negb orb]. unfold locatedb. rewrite Hl, Hla. reflexivity.
Qed.

(* the relocation itself: after destroyNow a, b sits at a's former position and every component stamp of that version
   chunk is the world version *)
Theorem destroy_relocates s js tid (a b : handle) ai A st2 out_t c ci :
  VInvD (s, js) -> relocates s a b ai A -> cindex (am_mask A) c = Some ci -> c < MASK_BITS ->
  dstep (s, js) (VDestroyNow tid a) = Ok (st2, out_t) ->
  snd st2 = js /\ wv (fst st2) = wv s /\ carries (fst st2) b ai (am_mask A) c (wv s) /\
  exists l A', nth_error (locs s) (N.to_nat (fst a)) = Some l /\ nth_error (archs (fst st2)) ai = Some A' /\
    nth_error (am_ents A') (l_idx l) = Some b /\ l_idx l < length (am_ents A) - 1.
Proof.
  intros HI Hrel Hci Hc H. pose proof (relocates_proper _ _ _ _ _ tid Hrel) as Hp.
  destruct Hrel as (Hv & (l & Hl & Hla) & HA & Hb & Hne).
  cbn [dstep] in H. bd H r Hr. destruct r as [s' o']. cbn [fst snd] in H. inversion H; subst st2 out_t; clear H. cbn [fst snd].
  destruct (destroy_d _ _ _ _ _ _ HI Hp Hr) as (_ & Ew & _ & [(_ & F)|(l' & ai' & a_h & A' & _ & Hl' & Hla' & Hah & Hh & Earchs & Hrem)]); [congruence|].
  rewrite Hl in Hl'. inversion Hl'; subst l'; clear Hl'. rewrite Hla in Hla'. inversion Hla'; subst ai'; clear Hla'.
  rewrite HA in Hah. inversion Hah; subst a_h; clear Hah.
  pose proof (Forall_nth_error _ _ _ _ (vd_archs _ HI) HA) as Hok. cbn [fst] in Hok.
  assert (Hlt : ci < length (am_gver A)).
  { rewrite (ad_wf _ _ Hok). apply (VersionProofs.cindex_lt (am_mask A) c ci); assumption. }
  pose proof Hrem as (last & El & Hle & Em & Ek & Hcs & El' & Es & Hkeep & Hmoved & (R1 & R2 & R3 & R4 & R5)).
  rewrite El in Hb. replace (S last - 1) with last in Hb by lia.
  assert (Hil : l_idx l < last).
  { destruct (Nat.eq_dec (l_idx l) last) as [E|N']; [|lia]. rewrite E, Hb in Hh. congruence. }
  assert (HA' : nth_error (archs s') ai = Some A') by (rewrite Earchs; apply nth_error_upd_same; apply nth_error_Some; congruence).
  split; [reflexivity|]. split; [exact Ew|]. split.
  - exists A', (l_idx l), ci. split; [exact HA'|]. split; [exact Em|]. split; [rewrite (Hmoved Hil); exact Hb|]. split; [exact Hci|].
    rewrite R1, map_length, Ek, R3; [apply N.le_refl|right; reflexivity|exact Hlt].
  - exists l, A'. split; [exact Hl|]. split; [exact HA'|]. split; [rewrite (Hmoved Hil); exact Hb|]. rewrite El. lia.
Qed.

(* C07, relocation.  In a state st1 of a run, entity a is destroyed (destroyNow, unlocked); b is the last member of a's
   archetype and not a: b is moved into a's slot.  Then any proper script without a run of job jn and without destroyNow b;
   then jn -- checking a component c of that archetype, the archetype matching its required mask -- runs: it is handed b. *)
Theorem C07_relocated_core st1 tid (a b : handle) ai A out_t st2 mid st3 jn par tov wk cap st4 out_ c j :
  VInvD st1 -> (wv (fst st1) + N.of_nat (length mid) + 2 < WV_NULL)%N ->
  relocates (fst st1) a b ai A ->
  nth_error (snd st1) jn = Some j -> c < MASK_BITS -> mhas (j_check j) c = true -> mhas (am_mask A) c = true ->
  mmatch (am_mask A) (job_required_mask j) = true ->
  dstep st1 (VDestroyNow tid a) = Ok (st2, out_t) ->
  drun mid st2 = Ok st3 -> proper_run mid st2 = true -> no_run_d jn mid -> not_destroyed b mid -> 0 < cap ->
  vstep st3 (VRun jn par tov wk cap) = Ok (st4, out_) ->
  handed out_ b.
Proof.
  destruct st1 as [s1 js1]. intros HI Hb Hrel Hj Hc Hchk Hmc Hmm H1 H2 Hp Hnr Hnd Hcap H3. cbn [fst snd] in *.
  destruct (cindex (am_mask A) c) as [ci|] eqn:Hci.
  2:{ apply cindex_none_has in Hci. congruence. }
  pose proof (relocates_proper _ _ _ _ _ tid Hrel) as Hp1.
  assert (Hb1 : (wv (fst (s1, js1)) + 1 < WV_NULL)%N) by (cbn [fst]; lia).
  destruct (dstep_inv _ _ _ _ HI Hb1 Hp1 H1) as (I2 & _).
  destruct (destroy_relocates _ _ _ _ _ _ _ _ _ _ _ HI Hrel Hci Hc H1) as (Ejs & Ewv & Hcar & _).
  eapply (C07_carries_core st2 mid st3 jn par tov wk cap st4 out_ b ai (am_mask A) c (wv s1) j); try eassumption.
  - rewrite Ewv. lia.
  - rewrite Ejs. exact Hj.
  - exact (Forall_nth_error _ _ _ _ (vd_jobs _ HI) Hj).
Qed.

(* ------------------------------------------------------------------------------------------ *)
(* C07: mutable access / markDirty, over the extended alphabet                                  *)
Lemma vstep_touch_d s js o h c ai idx a ci st' out_ :
  VInvD (s, js) -> is_touch o h c -> touch s h c ai idx a ci -> vstep (s, js) o = Ok (st', out_) ->
  snd st' = js /\ wv (fst st') = wv s /\ ci < length (am_gver a) /\
  exists a2, nth_error (archs (fst st')) ai = Some a2 /\ same_shape a a2 /\
             nth (length (am_gver a) * (idx / am_chunk a) + ci) (am_cver a2) 0%N = wv s.
Proof.
  intros HI Ho Ht H. pose proof HI as [I1 I2 I3 I4 I5 I6 I7 I8 I9]. cbn [fst snd] in *.
  assert (G : exists s', st' = (s', js) /\ stamps_entity s h c s').
  { destruct Ho as [(w & ->)| ->]; cbn [vstep] in H; bd H r Hr; destruct r as [s' o']; cbn [fst snd] in H; inversion H; subst st' out_;
      exists s'; (split; [reflexivity|]); [eapply step_getmut_effect|eapply step_markdirty_effect]; eassumption. }
  destruct G as (s' & -> & [(_ & F)|(ai' & idx' & a' & ci' & a1 & a2 & Ht' & Hcs & Hv & E1 & E2 & E3 & E4 & E5 & E6 & ->)]).
  - exfalso. eapply F. eassumption.
  - destruct (touch_fun _ _ _ _ _ _ _ _ _ _ _ Ht Ht') as (-> & -> & -> & ->).
    destruct Ht as (_ & _ & Ha & _).
    destruct (stamp_one_okd (wv s) a _ _ a1 a2 (Forall_nth_error _ _ _ _ I5 Ha) Hv E1 E2 E3 E4 E5 E6) as (_ & (K2 & _) & K3 & _ & K5 & _).
    cbn [fst snd]. split; [reflexivity|]. split; [reflexivity|]. split; [assumption|].
    exists a2. split; [|split; assumption]. cbn [archs set_arch set_archs]. apply nth_error_upd_same. apply nth_error_Some. congruence.
Qed.

(* C07 over the extended alphabet: component c of entity h is obtained for writing or marked dirty; then any proper script
   without a run of jn and without destroyNow h -- other entities may be destroyed, h may be relocated by that any number
   of times --; then jn runs: it is handed h *)
Theorem C07_touched_core st1 o out_t st2 mid st3 jn par tov wk cap st4 out_ h c ai idx a ci j :
  VInvD st1 -> (wv (fst st1) + N.of_nat (length mid) + 2 < WV_NULL)%N ->
  is_touch o h c -> touch (fst st1) h c ai idx a ci ->
  nth_error (snd st1) jn = Some j -> c < MASK_BITS -> mhas (j_check j) c = true ->
  mmatch (am_mask a) (job_required_mask j) = true ->
  vstep st1 o = Ok (st2, out_t) ->
  drun mid st2 = Ok st3 -> proper_run mid st2 = true -> no_run_d jn mid -> not_destroyed h mid -> 0 < cap ->
  vstep st3 (VRun jn par tov wk cap) = Ok (st4, out_) ->
  handed out_ h.
Proof.
  destruct st1 as [s1 js1]. intros HI Hb Ho Ht Hj Hc Hchk Hmm H1 H2 Hp Hnr Hnd Hcap H3. cbn [fst snd] in *.
  assert (Hb1 : (wv (fst (s1, js1)) + 1 < WV_NULL)%N) by (cbn [fst]; lia).
  destruct (vstep_inv_d _ _ _ _ HI Hb1 H1) as (I2 & _ & _).
  destruct (vstep_touch_d _ _ _ _ _ _ _ _ _ _ _ HI Ho Ht H1) as (Ejs & Ewv & Hci & a2 & Ha2 & Sh2 & Hst).
  destruct Ht as (Hv & (l & L1 & L2 & L3) & Ha & Hcidx).
  destruct (vd_locs _ HI h l ai Hv L1 L2) as (a' & Ha' & Hent). cbn [fst] in Ha'. rewrite Ha in Ha'. inversion Ha'; subst a'; clear Ha'.
  rewrite L3 in Hent. destruct Sh2 as (Em & Ee & Ek & Es & Eg).
  eapply (C07_carries_core st2 mid st3 jn par tov wk cap st4 out_ h ai (am_mask a) c (wv s1) j); try eassumption.
  - rewrite Ewv. lia.
  - exists a2, idx, ci. split; [exact Ha2|]. split; [exact Em|]. split; [rewrite Ee; exact Hent|]. split; [exact Hcidx|].
    rewrite Eg, Ek, Hst. apply N.le_refl.
  - rewrite Ejs. exact Hj.
  - exact (Forall_nth_error _ _ _ _ (vd_jobs _ HI) Hj).
Qed.

(* C07 over the extended alphabet: the entity is created (into a fresh or a recycled slot) *)
Theorem C07_created_core st1 tid m sids via st2 h mid st3 jn par tov wk cap st4 out_ j c :
  VInvD st1 -> (wv (fst st1) + N.of_nat (length mid) + 2 < WV_NULL)%N ->
  nth_error (snd st1) jn = Some j ->
  vstep st1 (VCreate tid m sids via) = Ok (st2, RHandle h) ->
  (forall ai a idx, nth_error (archs (fst st2)) ai = Some a -> nth_error (am_ents a) idx = Some h ->
     mhas (am_mask a) c = true /\ mmatch (am_mask a) (job_required_mask j) = true) ->
  c < MASK_BITS -> mhas (j_check j) c = true ->
  drun mid st2 = Ok st3 -> proper_run mid st2 = true -> no_run_d jn mid -> not_destroyed h mid -> 0 < cap ->
  vstep st3 (VRun jn par tov wk cap) = Ok (st4, out_) ->
  handed out_ h.
Proof.
  destruct st1 as [s1 js1]. intros HI Hb Hj H1 Hmask Hc Hchk H2 Hp Hnr Hnd Hcap H3. cbn [fst snd] in *.
  assert (Hb1 : (wv (fst (s1, js1)) + 1 < WV_NULL)%N) by (cbn [fst]; lia).
  destruct (vstep_inv_d _ _ _ _ HI Hb1 H1) as (I2 & _ & _).
  cbn [vstep] in H1. bd H1 r Hr. destruct r as [s2 o2]. cbn [fst snd] in H1. inversion H1; subst st2 o2; clear H1. cbn [fst snd] in *.
  destruct (create_d _ _ _ _ _ _ _ _ HI Hr) as (_ & Ew & _ & h' & ai & a3 & idx & Eo & Ha3 & Hlen & Hent & Hrow & _).
  inversion Eo; subst h'; clear Eo.
  destruct (Hmask _ _ _ Ha3 Hent) as (Hmc & Hmm).
  destruct (cindex (am_mask a3) c) as [ci|] eqn:Hci.
  2:{ apply cindex_none_has in Hci. congruence. }
  pose proof (Forall_nth_error _ _ _ _ (vd_archs _ I2) Ha3) as Hok. cbn [fst] in Hok.
  assert (Hlt : ci < length (am_gver a3)).
  { rewrite (ad_wf _ _ Hok). apply (VersionProofs.cindex_lt (am_mask a3) c ci); assumption. }
  eapply (C07_carries_core (s2, js1) mid st3 jn par tov wk cap st4 out_ h ai (am_mask a3) c (wv s1) j); try eassumption.
  - cbn [fst]. rewrite Ew. lia.
  - exists a3, idx, ci. split; [exact Ha3|]. split; [reflexivity|]. split; [exact Hent|]. split; [exact Hci|].
    rewrite (Hrow ci Hlt). apply N.le_refl.
  - exact (Forall_nth_error _ _ _ _ (vd_jobs _ HI) Hj).
Qed.

(* ------------------------------------------------------------------------------------------ *)
(* from the initial state                                                                       *)
Lemma VInvD_init n cis js : fresh_jobs js -> VInvD (init n cis, js).
Proof.
  intro Hj. constructor; cbn [fst snd init lockc marked bufs locs slots archs wv]; try reflexivity.
  - constructor.
  - constructor.
  - intros h l ai Hv _ _. unfold is_valid in Hv. cbn [init slots] in Hv. destruct (is_null h); [discriminate|].
    destruct (N.to_nat (fst h)); discriminate.
  - intros ai a idx e Ha. cbn [init archs] in Ha. destruct ai; discriminate.
  - exists []. split; [constructor|]. split; [reflexivity|]. split; [exact I|]. intros i [].
  - eapply Forall_impl; [|exact Hj]. intros j E. left. exact E.
Qed.

Lemma VInvD_setup_step s js o s' out_ : is_setup o -> VInvD (s, js) -> step s o = Ok (s', out_) -> VInvD (s', js) /\ wv s' = wv s.
Proof.
  intros Ho HI H. destruct o; try contradiction.
  - destruct (create_d _ _ _ _ _ _ _ _ HI H) as (A & B & _). auto.
  - cbn [step] in H. bd H s1 Hs1. inversion H; subst s' out_; clear H. unfold add_dependency in Hs1. bd Hs1 exm Hexm.
    inversion Hs1; subst s1. split; [|reflexivity]. eapply VInvD_core; [| |exact HI]; [split; [repeat split|reflexivity]|reflexivity].
  - cbn [step] in H. inversion H; subst s' out_. split; [|reflexivity]. eapply VInvD_core; [| |exact HI]; [split; [repeat split|reflexivity]|reflexivity].
  - cbn [step] in H. inversion H; subst s' out_. split; [|reflexivity]. eapply VInvD_core; [| |exact HI]; [split; [repeat split|reflexivity]|reflexivity].
Qed.

Theorem VInvD_setup js : forall ops s s', Forall is_setup ops -> VInvD (s, js) -> setup_run s ops = Ok s' -> VInvD (s', js) /\ wv s' = wv s.
Proof.
  induction ops as [|o t IH]; intros s s' Hs HI H.
  - simpl in H. inversion H; subst. auto.
  - unfold setup_run in H. cbn [fold_res] in H. bd H s1 Hs1. bd Hs1 r Hr. destruct r as [s1' o']. inversion Hs1; subst s1; clear Hs1.
    inversion Hs; subst. destruct (VInvD_setup_step _ _ _ _ _ H2 HI Hr) as (I1 & W1). cbn [fst] in H.
    destruct (IH _ _ H3 I1 H) as (I2 & W2). split; [assumption|congruence].
Qed.

Lemma population_inv_d n cis setup s0 js : population n cis setup s0 -> fresh_jobs js -> VInvD (s0, js) /\ wv s0 = 0%N.
Proof.
  intros (Hs & Hr) Hj. destruct (VInvD_setup js _ _ _ Hs (VInvD_init n cis js Hj) Hr) as (I & W). split; [assumption|]. rewrite W. reflexivity.
Qed.

(* THE INVARIANT OF EVERY PROPER RUN over the extended alphabet, from the initial state *)
Theorem history_invariants_d n cis setup s0 js ops st :
  population n cis setup s0 -> fresh_jobs js -> (N.of_nat (length ops) < WV_NULL)%N ->
  proper_run ops (s0, js) = true -> drun ops (s0, js) = Ok st ->
  VInvD st /\ (wv (fst st) <= N.of_nat (length ops))%N.
Proof.
  intros Hp Hj Hb Hpr H. destruct (population_inv_d _ _ _ _ _ Hp Hj) as (I0 & W0).
  assert (Hb0 : (wv (fst (s0, js)) + N.of_nat (length ops) < WV_NULL)%N) by (cbn [fst]; rewrite W0; lia).
  destruct (drun_inv _ _ _ I0 Hb0 Hpr H) as (I & W). cbn [fst] in W. rewrite W0 in W. split; [assumption|lia].
Qed.

Theorem C07_relocated_pop n cis setup s0 js pre st1 tid (a b : handle) ai A out_t st2 mid st3 jn par tov wk cap st4 out_ c j :
  population n cis setup s0 -> fresh_jobs js ->
  (N.of_nat (length pre) + N.of_nat (length mid) + 2 < WV_NULL)%N ->
  proper_run pre (s0, js) = true -> drun pre (s0, js) = Ok st1 ->
  relocates (fst st1) a b ai A ->
  nth_error (snd st1) jn = Some j -> c < MASK_BITS -> mhas (j_check j) c = true -> mhas (am_mask A) c = true ->
  mmatch (am_mask A) (job_required_mask j) = true ->
  dstep st1 (VDestroyNow tid a) = Ok (st2, out_t) ->
  drun mid st2 = Ok st3 -> proper_run mid st2 = true -> no_run_d jn mid -> not_destroyed b mid -> 0 < cap ->
  vstep st3 (VRun jn par tov wk cap) = Ok (st4, out_) ->
  handed out_ b.
Proof.
  intros Hp Hj Hb Hppre Hpre. assert (Hbp : (N.of_nat (length pre) < WV_NULL)%N) by lia.
  destruct (history_invariants_d _ _ _ _ _ _ _ Hp Hj Hbp Hppre Hpre) as (I1 & W1).
  intros. eapply (C07_relocated_core st1 tid a b ai A out_t st2 mid st3 jn par tov wk cap st4 out_ c j); try eassumption. lia.
Qed.

Theorem C07_touched_pop n cis setup s0 js pre st1 o out_t st2 mid st3 jn par tov wk cap st4 out_ h c ai idx a ci j :
  population n cis setup s0 -> fresh_jobs js ->
  (N.of_nat (length pre) + N.of_nat (length mid) + 2 < WV_NULL)%N ->
  proper_run pre (s0, js) = true -> drun pre (s0, js) = Ok st1 ->
  is_touch o h c -> touch (fst st1) h c ai idx a ci ->
  nth_error (snd st1) jn = Some j -> c < MASK_BITS -> mhas (j_check j) c = true ->
  mmatch (am_mask a) (job_required_mask j) = true ->
  vstep st1 o = Ok (st2, out_t) ->
  drun mid st2 = Ok st3 -> proper_run mid st2 = true -> no_run_d jn mid -> not_destroyed h mid -> 0 < cap ->
  vstep st3 (VRun jn par tov wk cap) = Ok (st4, out_) ->
  handed out_ h.
Proof.
  intros Hp Hj Hb Hppre Hpre. assert (Hbp : (N.of_nat (length pre) < WV_NULL)%N) by lia.
  destruct (history_invariants_d _ _ _ _ _ _ _ Hp Hj Hbp Hppre Hpre) as (I1 & W1).
  intros. eapply (C07_touched_core st1 o out_t st2 mid st3 jn par tov wk cap st4 out_ h c ai idx a ci j); try eassumption. lia.
Qed.

Theorem C07_created_pop n cis setup s0 js pre st1 tid m sids via st2 h mid st3 jn par tov wk cap st4 out_ j c :
  population n cis setup s0 -> fresh_jobs js ->
  (N.of_nat (length pre) + N.of_nat (length mid) + 2 < WV_NULL)%N ->
  proper_run pre (s0, js) = true -> drun pre (s0, js) = Ok st1 ->
  nth_error (snd st1) jn = Some j ->
  vstep st1 (VCreate tid m sids via) = Ok (st2, RHandle h) ->
  (forall ai a idx, nth_error (archs (fst st2)) ai = Some a -> nth_error (am_ents a) idx = Some h ->
     mhas (am_mask a) c = true /\ mmatch (am_mask a) (job_required_mask j) = true) ->
  c < MASK_BITS -> mhas (j_check j) c = true ->
  drun mid st2 = Ok st3 -> proper_run mid st2 = true -> no_run_d jn mid -> not_destroyed h mid -> 0 < cap ->
  vstep st3 (VRun jn par tov wk cap) = Ok (st4, out_) ->
  handed out_ h.
Proof.
  intros Hp Hj Hb Hppre Hpre. assert (Hbp : (N.of_nat (length pre) < WV_NULL)%N) by lia.
  destruct (history_invariants_d _ _ _ _ _ _ _ Hp Hj Hbp Hppre Hpre) as (I1 & W1).
  intros. eapply (C07_created_core st1 tid m sids via st2 h mid st3 jn par tov wk cap st4 out_ j c); try eassumption. lia.
Qed.
