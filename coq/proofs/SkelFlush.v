(* The flush at the outermost unlock: command packs against the specification's one-command-at-a-time meaning (C01). *)
Require Import Coq.Lists.List Coq.NArith.NArith Coq.Arith.Arith Coq.Bool.Bool Coq.micromega.Lia Coq.Sorting.Permutation.
From Mustache Require Import Res Skeleton SkelSpec SkelRun.
From Mustache.proofs Require Import ListLemmas SkelBasics SkelInv SkelSteps SkelRefine SkelLocked.
Import ListNotations.

(* ---- std::vector::resize ---- *)
Lemma resize_length {A} (l : list A) n d : length (resize l n d) = n.
Proof. unfold resize. rewrite app_length, firstn_length, repeat_length. lia. Qed.

Lemma nth_error_firstn' {A} (l : list A) n j : j < n -> nth_error (firstn n l) j = nth_error l j.
Proof. revert n j. induction l as [|x t IH]; intros [|n] [|j] H; simpl; try lia; try reflexivity. apply IH. lia. Qed.

Lemma nth_error_resize_old {A} (l : list A) n d j : j < length l -> j < n -> nth_error (resize l n d) j = nth_error l j.
Proof.
  intros H1 H2. unfold resize. rewrite nth_error_app1 by (rewrite firstn_length; lia). apply nth_error_firstn'. assumption.
Qed.

Lemma nth_error_repeat' {A} (d : A) n j : j < n -> nth_error (repeat d n) j = Some d.
Proof. revert j. induction n as [|n IH]; intros [|j] H; simpl; try lia; [reflexivity|apply IH; lia]. Qed.

Lemma nth_error_resize_new {A} (l : list A) n d j : length l <= j -> j < n -> nth_error (resize l n d) j = Some d.
Proof.
  intros H1 H2. unfold resize. rewrite nth_error_app2 by (rewrite firstn_length; lia). rewrite firstn_length.
  replace (Nat.min n (length l)) with (length l) by lia. apply nth_error_repeat'. lia.
Qed.

(* ---- the slot of a recorded creation is installed: entity_manager.cpp:286-297 ---- *)
Definition install (s : st) (h : handle) : res st :=
  let i := N.to_nat (fst h) in
  let s1 := if Nat.ltb i (length (slots s)) then s
            else set_locs (set_slots s (resize (slots s) (S i) null_slot)) (resize (locs s) (S i) default_loc) in
  do sl <- upd_res (slots s1) i {| s_id := fst h; s_ver := snd h |};
  Ok (set_slots s1 sl).

Lemma install_facts s h s2 : length (locs s) = length (slots s) -> install s h = Ok s2 ->
  let i := N.to_nat (fst h) in
  length (locs s2) = length (slots s2) /\ length (slots s) <= length (slots s2) /\
  nth_error (slots s2) i = Some {| s_id := fst h; s_ver := snd h |} /\
  (forall j, j <> i -> j < length (slots s) -> nth_error (slots s2) j = nth_error (slots s) j) /\
  (forall j, j <> i -> length (slots s) <= j -> j < length (slots s2) -> nth_error (slots s2) j = Some null_slot) /\
  (forall j, j < length (locs s) -> nth_error (locs s2) j = nth_error (locs s) j) /\
  length (slots s2) = Nat.max (length (slots s)) (S i) /\
  next_slot s2 = next_slot s /\ empty_slots s2 = empty_slots s /\ archs s2 = archs s /\ same_ctl s s2.
Proof.
  intros Hlen H i. unfold install in H. fold i in H.
  destruct (Nat.ltb_spec i (length (slots s))) as [Hlt|Hge].
  - apply bind_ok in H. destruct H as (sl & Hu & H). apply upd_res_ok in Hu. destruct Hu as (_ & ->). inversion H; subst s2; clear H. simpl.
    split; [rewrite upd_length; assumption|]. split; [rewrite upd_length; lia|]. split; [apply nth_error_upd_same; assumption|].
    split; [intros j Hj _; apply nth_error_upd_other; congruence|]. split; [intros j _ H1 H2; rewrite upd_length in H2; lia|].
    split; [reflexivity|]. split; [rewrite upd_length; lia|]. repeat split.
  - apply bind_ok in H. destruct H as (sl & Hu & H). apply upd_res_ok in Hu. simpl in Hu. destruct Hu as (_ & ->). inversion H; subst s2; clear H. simpl.
    rewrite upd_length, !resize_length.
    split; [reflexivity|]. split; [lia|]. split; [apply nth_error_upd_same; rewrite resize_length; lia|].
    split; [intros j Hj Hjl; rewrite nth_error_upd_other by congruence; apply nth_error_resize_old; lia|].
    split; [intros j Hj H1 H2; rewrite nth_error_upd_other by congruence; apply nth_error_resize_new; lia|].
    split; [intros j Hj; apply nth_error_resize_old; lia|]. split; [lia|]. repeat split.
Qed.

(* ---- the specification side ---- *)
Lemma spec_cmd_frame sp c : sp_lock (spec_cmd sp c) = sp_lock sp /\ sp_bufs (spec_cmd sp c) = sp_bufs sp /\
  sp_count (spec_cmd sp c) = sp_count sp /\ sp_nthr (spec_cmd sp c) = sp_nthr sp.
Proof. destruct c; simpl; [auto| |auto]. destruct (alive_b sp k); simpl; auto. Qed.

Lemma spec_fold_frame l sp : let spf := fold_left spec_cmd l sp in
  sp_lock spf = sp_lock sp /\ sp_bufs spf = sp_bufs sp /\ sp_count spf = sp_count sp /\ sp_nthr spf = sp_nthr sp.
Proof.
  revert sp. induction l as [|c t IH]; intros sp; simpl; [auto|]. destruct (IH (spec_cmd sp c)) as (A & B & C & D).
  destruct (spec_cmd_frame sp c) as (A' & B' & C' & D'). repeat split; congruence.
Qed.

Lemma with_alive_id sp : with_alive sp (sp_alive sp) = sp.
Proof. destruct sp; reflexivity. Qed.
Lemma set_marked_id s : set_marked s (marked s) = s.
Proof. destruct s; reflexivity. Qed.

Definition MR (hs : list handle) (m : list handle) (sm : list nat) : Prop :=
  (forall h, In h m -> h = null_handle \/ In h hs) /\ (forall k, In k sm -> k < length hs) /\
  (forall k, k < length hs -> (In (hnd hs k) m <-> In k sm)).

Definition only_destroys (h : handle) (t : list cmd) : Prop := Forall (fun c => c = CDestroy h \/ c = CDestroyNow h) t.

(* commands on an entity that is not alive mean nothing *)
Lemma dead_noop hs h k t sp : only_destroys h t -> kidx hs h = Some k -> alive_b sp k = false ->
  fold_left spec_cmd (abs_buf hs t) sp = sp.
Proof.
  intros Ht Hk Hd. induction Ht as [|c t Hc Ht IH]; [reflexivity|]. unfold abs_buf in *. simpl.
  destruct Hc as [->| ->]; simpl; rewrite Hk; simpl.
  - rewrite Hd. exact IH.
  - rewrite kill_not_alive; [rewrite with_alive_id; exact IH|]. intros Ha. apply alive_b_iff in Ha. congruence.
Qed.

Lemma alive_b_kill sp k : alive_b (with_alive sp (kill (sp_alive sp) k)) k = false.
Proof.
  apply not_true_is_false. intros Ha. apply alive_b_iff in Ha. simpl in Ha. apply kill_alive in Ha. destruct Ha as (_ & Hne). apply Hne. reflexivity.
Qed.

(* ---- the command loop of one pack against the specification ---- *)
Lemma MR_insert hs m sm k : NoDup hs -> k < length hs -> MR hs m sm -> MR hs (set_insert m (hnd hs k)) (k :: sm).
Proof.
  intros Hnd Hk (M1 & M2 & M3). split; [|split].
  - intros x Hx. apply set_insert_in in Hx. destruct Hx as [->|Hx]; [right; apply nth_In_hnd; assumption|auto].
  - intros x [<-|Hx]; auto.
  - intros x Hx. rewrite set_insert_in. simpl. split.
    + intros [E|Hin]; [left|right; apply M3; assumption]. symmetry. apply (proj1 (NoDup_nth hs null_handle) Hnd); assumption.
    + intros [<-|Hin]; [left; reflexivity|right; apply M3; assumption].
Qed.

Lemma pack_loop_spec hs create h k : NoDup hs -> forall t s s3 fin sp,
  only_destroys h t -> kidx hs h = Some k -> alive_b sp k = true -> MR hs (marked s) (sp_marked sp) ->
  pack_loop create h t s = Ok (s3, fin) ->
  exists m', MR hs m' (sp_marked (fold_left spec_cmd (abs_buf hs t) sp)) /\
    (fin = false -> s3 = set_marked s m' /\ sp_alive (fold_left spec_cmd (abs_buf hs t) sp) = sp_alive sp) /\
    (fin = true -> (if create then s3 = release_id (set_marked s m') h else destroy_now_unlocked (set_marked s m') h = Ok s3) /\
                   sp_alive (fold_left spec_cmd (abs_buf hs t) sp) = kill (sp_alive sp) k).
Proof.
  intros Hnd t. induction t as [|c t IH]; intros s s3 fin sp Ht Hk Ha Hmr H.
  - simpl in H. inversion H; subst s3 fin. exists (marked s). simpl. split; [assumption|]. split; [intros _; rewrite set_marked_id; auto|discriminate].
  - inversion Ht as [|c' t' Hc Ht']; subst c' t'. destruct (kidx_some _ _ _ Hk) as (Hklt & Ehk).
    unfold abs_buf in *. destruct Hc as [->| ->]; simpl in H |- *; rewrite Hk; simpl.
    + rewrite Ha.
      assert (Hmr' : MR hs (marked (set_marked s (set_insert (marked s) h))) (sp_marked (with_marked sp (k :: sp_marked sp)))).
      { simpl. rewrite <- Ehk. apply MR_insert; assumption. }
      destruct (IH _ s3 fin (with_marked sp (k :: sp_marked sp)) Ht' Hk Ha Hmr' H) as (m' & Hm' & Hf & Ht'').
      exists m'. split; [exact Hm'|]. split; [intros E; destruct (Hf E) as (E1 & E2); split; [exact E1|exact E2]|].
      intros E. destruct (Ht'' E) as (E1 & E2). split; [exact E1|exact E2].
    + assert (Hdead : alive_b (with_alive sp (kill (sp_alive sp) k)) k = false) by apply alive_b_kill.
      pose proof (dead_noop hs h k t _ Ht' Hk Hdead) as Hnoop. unfold abs_buf in Hnoop. rewrite Hnoop. simpl.
      exists (marked s). split; [assumption|]. rewrite set_marked_id.
      destruct create.
      * inversion H; subst s3 fin. split; [discriminate|]. auto.
      * apply bind_ok in H. destruct H as (s1 & Hd & H). inversion H; subst s3 fin. split; [discriminate|]. auto.
Qed.

(* ---- the flush invariant ---- *)
Record Q (s : st) (hs : list handle) (sp : sst) (rem : list scmd) : Prop := {
  q_G : G s hs (sp_alive sp) rem;
  q_created : NoDup (created rem);
  q_mr : MR hs (marked s) (sp_marked sp);
  q_slots : length (slots s) <= length hs;
  q_ids : forall h, In h hs -> N.to_nat (fst h) < length hs
}.

Definition ctl4 (s s' : st) : Prop :=
  lockc s' = lockc s /\ next_eid s' = next_eid s /\ bufs s' = bufs s /\ nthreads s' = nthreads s.

Lemma ctl4_refl s : ctl4 s s. Proof. repeat split. Qed.
Lemma ctl4_trans a b c : ctl4 a b -> ctl4 b c -> ctl4 a c.
Proof. unfold ctl4. intros (A1 & A2 & A3 & A4) (B1 & B2 & B3 & B4). repeat split; congruence. Qed.
Lemma same_ctl_ctl4 s s' : same_ctl s s' -> ctl4 s s'.
Proof. unfold same_ctl, ctl4. tauto. Qed.

Lemma abs_only_destroys hs h t : only_destroys h t ->
  Forall (fun c => forall k key, c <> SCreate k key) (abs_buf hs t).
Proof.
  intros Ht. induction Ht as [|c t Hc Ht IH]; [constructor|]. unfold abs_buf in *. simpl.
  destruct Hc as [->| ->]; simpl; destruct (kidx hs h); simpl; try assumption; constructor; try assumption; intros; discriminate.
Qed.

Lemma pend_app_nocreate l rem k : Forall (fun c => forall k key, c <> SCreate k key) l -> (pend (l ++ rem) k <-> pend rem k).
Proof.
  intros Hl. unfold pend. split.
  - intros (key & Hin). apply in_app_or in Hin. destruct Hin as [Hin|Hin]; [|exists key; assumption].
    exfalso. apply (proj1 (Forall_forall _ _) Hl _ Hin k key). reflexivity.
  - intros (key & Hin). exists key. apply in_or_app. right. assumption.
Qed.

Lemma created_app_nocreate l rem : Forall (fun c => forall k key, c <> SCreate k key) l -> created (l ++ rem) = created rem.
Proof.
  intros Hl. unfold created. rewrite filter_map_app. induction Hl as [|c t Hc Ht IH]; [reflexivity|]. simpl.
  destruct c; [exfalso; eapply Hc; reflexivity| |]; exact IH.
Qed.

(* a pack is a run of commands on one handle taken from a buffer in which nothing precedes a creation *)
Lemma pack_tail_destroys h key t : creates_first (CCreate h key :: t) -> Forall (fun c => cmd_handle c = h) t -> only_destroys h t.
Proof.
  intros Hcf Hu. apply Forall_forall. intros c Hin. pose proof (proj1 (Forall_forall _ _) Hu c Hin) as Hh.
  destruct c as [h' key'|h'|h']; simpl in Hh; subst h'; [|left; reflexivity|right; reflexivity].
  exfalso. apply in_split in Hin. destruct Hin as (l1 & l2 & ->).
  apply (Hcf (CCreate h key :: l1) h key' l2 eq_refl (CCreate h key)); [left; reflexivity|reflexivity].
Qed.

Lemma pack_destroys c0 t : (forall h key, c0 <> CCreate h key) -> creates_first (c0 :: t) ->
  Forall (fun c => cmd_handle c = cmd_handle c0) (c0 :: t) -> only_destroys (cmd_handle c0) (c0 :: t).
Proof.
  intros Hnc Hcf Hu. apply Forall_forall. intros c Hin. pose proof (proj1 (Forall_forall _ _) Hu c Hin) as Hh.
  destruct c as [h' key'|h'|h']; simpl in Hh; rewrite <- Hh; [|left; reflexivity|right; reflexivity].
  exfalso. destruct Hin as [E|Hin]; [eapply Hnc; eauto|]. apply in_split in Hin. destruct Hin as (l1 & l2 & ->).
  apply (Hcf (c0 :: l1) h' key' l2 eq_refl c0); [left; reflexivity|symmetry; assumption].
Qed.

Lemma apply_pack_create_eq s h key t :
  apply_pack s (CCreate h key :: t) =
  (do s2 <- install s h; do r <- pack_loop true h t s2;
   let '(s3, fin) := r in if fin then Ok s3 else let '(s4, ai) := get_arch s3 key in arch_insert s4 ai h).
Proof.
  unfold apply_pack, install. simpl.
  destruct (upd_res _ _ _); reflexivity.
Qed.

Lemma kill_app_new al k key : ~ alive al k -> kill (al ++ [(k, key)]) k = al.
Proof.
  intros H. unfold kill. rewrite filter_app. simpl. rewrite Nat.eqb_refl. simpl. rewrite app_nil_r. apply (kill_not_alive al k H).
Qed.

Lemma get_arch_indep s s3 key s4 ai : archs s3 = archs s -> get_arch s3 key = (s4, ai) ->
  exists sa, get_arch s key = (sa, ai) /\ archs s4 = archs sa /\ slots s4 = slots s3 /\ locs s4 = locs s3 /\
    next_slot s4 = next_slot s3 /\ empty_slots s4 = empty_slots s3 /\ marked s4 = marked s3 /\ ctl4 s3 s4.
Proof.
  intros Ea H. unfold get_arch in *. rewrite Ea in H. destruct (find_arch (archs s) key 0) as [i|].
  - inversion H; subst s4 ai. exists s. repeat split; auto.
  - inversion H; subst s4 ai. eexists. split; [reflexivity|]. simpl. repeat split.
Qed.

Lemma Q_create_pack s hs sp h key t rem' s' :
  Q s hs sp (abs_buf hs (CCreate h key :: t) ++ rem') -> In h hs -> only_destroys h t ->
  apply_pack s (CCreate h key :: t) = Ok s' ->
  Q s' hs (fold_left spec_cmd (abs_buf hs (CCreate h key :: t)) sp) rem' /\ ctl4 s s'.
Proof.
  intros HQ Hin Ht H. destruct HQ as [HG Hcr Hmr Hsl Hids].
  destruct (In_hnd _ _ Hin) as (k & Hk & Eh).
  assert (Hkidx : kidx hs h = Some k) by (rewrite <- Eh; apply kidx_hnd; [apply (g_hs_nodup HG)|assumption]).
  assert (Eabs : abs_buf hs (CCreate h key :: t) = SCreate k key :: abs_buf hs t) by (unfold abs_buf; simpl; rewrite Hkidx; reflexivity).
  rewrite Eabs in *. rewrite <- app_comm_cons in HG, Hcr. simpl fold_left.
  change (created (SCreate k key :: abs_buf hs t ++ rem')) with (k :: created (abs_buf hs t ++ rem')) in Hcr.
  pose proof (abs_only_destroys hs h t Ht) as Hnc.
  set (rem := SCreate k key :: abs_buf hs t ++ rem') in *.
  assert (Hpk : pend rem k) by (exists key; left; reflexivity).
  rewrite created_app_nocreate in Hcr by assumption. inversion Hcr as [|x l Hknot Hcr']; subst x l.
  assert (Hp : forall k', pend rem' k' <-> pend rem k' /\ k' <> k).
  { intros k'. unfold rem. split.
    - intros Hp'. split; [destruct Hp' as (key' & Hi'); exists key'; right; apply in_or_app; right; assumption|].
      intros ->. apply Hknot. apply created_in. assumption.
    - intros ((key' & [E|Hi']) & Hne); [inversion E; congruence|]. apply (pend_app_nocreate _ rem' k' Hnc). exists key'. assumption. }
  destruct (g_pend HG k Hpk) as (_ & Hna & Hv0 & _ & _).
  destruct h as [i v]. rewrite Eh in Hv0. simpl in Hv0. subst v.
  rewrite apply_pack_create_eq in H. apply bind_ok in H. destruct H as (s2 & Hinst & H).
  apply bind_ok in H. destruct H as ((s3, fin) & Hloop & H).
  destruct (install_facts s (i, 0%N) s2 (g_len HG) Hinst) as (I1 & I2 & I3 & I4 & I5 & I6 & I7 & In2 & Ie2 & Ia2 & Ictl). simpl in I3, I4, I5, I7.
  destruct Ictl as (C1 & C2 & C3 & C4 & C5).
  set (sp1 := with_alive sp (sp_alive sp ++ [(k, key)])).
  assert (Ha1 : alive_b sp1 k = true).
  { apply alive_b_iff. unfold sp1, alive. simpl. rewrite map_app. apply in_or_app. right. left. reflexivity. }
  assert (Hmr1 : MR hs (marked s2) (sp_marked sp1)) by (rewrite C4; exact Hmr).
  destruct (pack_loop_spec hs true (i, 0%N) k (g_hs_nodup HG) t s2 s3 fin sp1 Ht Hkidx Ha1 Hmr1 Hloop) as (m' & Hm' & Hf & Htr).
  change (spec_cmd sp (SCreate k key)) with sp1.
  assert (Hi_lt : N.to_nat i < length (slots s2)) by (apply nth_error_Some; congruence).
  assert (Hslots_bound : length (slots s2) <= length hs).
  { rewrite I7. pose proof (Hids _ Hin) as Hb. simpl in Hb. lia. }
  destruct fin.
  - (* destroyed in the same pack *)
    destruct (Htr eq_refl) as (Es3 & Eal). inversion H; subst s'; clear H. subst s3.
    assert (Hb : (N.to_nat i <? length (slots s2)) = true) by (apply Nat.ltb_lt; assumption).
    split; [constructor|].
    + rewrite Eal. unfold sp1. simpl. rewrite kill_app_new by assumption.
      eapply (G_stillborn s _ hs _ rem rem' k i HG Hpk Hp Eh); unfold release_id; simpl; rewrite ?Hb, ?upd_length.
      * assumption.
      * assumption.
      * rewrite nth_error_upd_same by assumption. rewrite Ie2, In2. reflexivity.
      * intros j Hj Hjl. rewrite nth_error_upd_other by congruence. apply I4; assumption.
      * intros j Hj H1 H2. rewrite nth_error_upd_other by congruence. apply I5; assumption.
      * reflexivity.
      * rewrite Ie2. reflexivity.
      * assumption.
      * intros j _ Hj. apply I6. assumption.
    + assumption.
    + unfold release_id. simpl. exact Hm'.
    + unfold release_id. simpl. rewrite Hb, upd_length. assumption.
    + assumption.
    + unfold ctl4, release_id. simpl. auto.
  - (* it enters its archetype *)
    destruct (Hf eq_refl) as (Es3 & Eal). subst s3.
    destruct (get_arch (set_marked s2 m') key) as [s4 ai] eqn:Ega.
    destruct (get_arch_indep s (set_marked s2 m') key s4 ai Ia2 Ega) as (sa & Ega' & Ea4 & Es4 & El4 & En4 & Ee4 & Em4 & (D1 & D2 & D3 & D4)).
    simpl in Es4, El4, En4, Ee4, Em4, D1, D2, D3, D4.
    destruct (get_arch_G s hs _ _ key sa ai HG Ega') as (HGa & (a & Ha & Hka) & Esa & Ela & Ena & Eea & Hctla).
    unfold arch_insert in H. rewrite Ea4 in H. rewrite (nth_res_some _ _ _ Ha) in H. simpl in H.
    unfold update_location in H. apply bind_ok in H. destruct H as (ls & Hu & H). inversion H; subst s'; clear H.
    apply upd_res_ok in Hu. simpl in Hu. destruct Hu as (Hlt & ->).
    split; [constructor|].
    + rewrite Eal. unfold sp1. simpl.
      eapply (G_activate sa _ hs _ rem rem' k key i ai a HGa Hpk Hp Eh); simpl; rewrite ?upd_length, ?Es4, ?El4, ?Esa, ?Ela.
      * assumption.
      * assumption.
      * assumption.
      * intros j Hj Hjl. apply I4; assumption.
      * intros j Hj H1 H2. apply I5; assumption.
      * rewrite En4, Ena. assumption.
      * rewrite Ee4, Eea. assumption.
      * assumption.
      * assumption.
      * reflexivity.
      * apply nth_error_upd_same. rewrite El4 in Hlt. exact Hlt.
      * intros j Hj Hjl. rewrite nth_error_upd_other by congruence. apply I6. assumption.
    + assumption.
    + simpl. rewrite Em4. simpl. exact Hm'.
    + simpl. rewrite Es4. simpl. assumption.
    + assumption.
    + unfold ctl4. simpl. repeat split; congruence.
Qed.

Lemma abs_unknown hs h p : only_destroys h p -> kidx hs h = None -> abs_buf hs p = [].
Proof.
  intros Hp Hk. induction Hp as [|c t Hc Ht IH]; [reflexivity|]. unfold abs_buf in *. simpl.
  destruct Hc as [->| ->]; simpl; rewrite Hk; simpl; exact IH.
Qed.

Lemma Q_other_pack s hs sp c0 t rem' s' :
  Q s hs sp (abs_buf hs (c0 :: t) ++ rem') -> within (length hs) -> (forall h key, c0 <> CCreate h key) ->
  wf_cmd hs c0 -> only_destroys (cmd_handle c0) (c0 :: t) ->
  apply_pack s (c0 :: t) = Ok s' ->
  Q s' hs (fold_left spec_cmd (abs_buf hs (c0 :: t)) sp) rem' /\ ctl4 s s'.
Proof.
  intros HQ Hb Hnc Hwf Hod H. destruct HQ as [HG Hcr Hmr Hsl Hids].
  set (p := c0 :: t) in *. set (h0 := cmd_handle c0) in *.
  pose proof (abs_only_destroys hs h0 p Hod) as Hnocr.
  assert (HG' : G s hs (sp_alive sp) rem') by (eapply G_rem_ext; [|exact HG]; intros k; symmetry; apply pend_app_nocreate; assumption).
  rewrite created_app_nocreate in Hcr by assumption.
  assert (Hap : apply_pack s p = (if is_valid s h0 then do r <- pack_loop false h0 p s; Ok (fst r) else Ok s)).
  { unfold p, h0. destruct c0 as [h key|h|h]; [exfalso; eapply Hnc; reflexivity|reflexivity|reflexivity]. }
  rewrite Hap in H. clear Hap.
  destruct (is_valid s h0) eqn:Ev.
  - (* the target is alive *)
    assert (Hin : In h0 hs).
    { destruct (wf_handle hs c0 Hwf) as [E|Hin]; [|exact Hin]. fold h0 in E. rewrite E, is_valid_null in Ev. discriminate. }
    destruct (In_hnd _ _ Hin) as (k & Hk & Eh).
    assert (Hkidx : kidx hs h0 = Some k) by (rewrite <- Eh; apply kidx_hnd; [apply (g_hs_nodup HG)|assumption]).
    assert (Hal : alive (sp_alive sp) k) by (apply (G_valid s hs _ _ k HG Hk); rewrite Eh; exact Ev).
    assert (Ha : alive_b sp k = true) by (apply alive_b_iff; exact Hal).
    apply bind_ok in H. destruct H as ((s3, fin) & Hloop & H). simpl in H. inversion H; subst s3; clear H.
    destruct (pack_loop_spec hs false h0 k (g_hs_nodup HG) p s s' fin sp Hod Hkidx Ha Hmr Hloop) as (m' & Hm' & Hf & Htr).
    assert (HGm : G (set_marked s m') hs (sp_alive sp) rem') by (eapply G_same_core; [| | | | |exact HG']; reflexivity).
    destruct fin.
    + destruct (Htr eq_refl) as (Hd & Eal). rewrite <- Eh in Hd.
      destruct (G_destroy_now (set_marked s m') s' hs _ _ k HGm Hk (bound_ver _ Hb) Hd) as (HG2 & (C1 & C2 & C3 & C4 & C5) & Hlen).
      simpl in C1, C2, C3, C4, C5, Hlen.
      split; [constructor|unfold ctl4; auto].
      * rewrite Eal. exact HG2.
      * assumption.
      * rewrite C4. exact Hm'.
      * rewrite Hlen. assumption.
      * assumption.
    + destruct (Hf eq_refl) as (-> & Eal).
      split; [constructor|unfold ctl4; simpl; auto].
      * rewrite Eal. exact HGm.
      * assumption.
      * exact Hm'.
      * assumption.
      * assumption.
  - (* the target is not alive: the pack is skipped, and its commands mean nothing *)
    inversion H; subst s'; clear H.
    assert (Enoop : fold_left spec_cmd (abs_buf hs p) sp = sp).
    { destruct (kidx hs h0) as [k|] eqn:Hkidx.
      - destruct (kidx_some _ _ _ Hkidx) as (Hk & Eh). apply (dead_noop hs h0 k p sp Hod Hkidx).
        apply not_true_is_false. intros Ha. apply alive_b_iff in Ha. apply (G_valid s hs _ _ k HG Hk) in Ha. rewrite Eh in Ha. congruence.
      - rewrite (abs_unknown hs h0 p Hod Hkidx). reflexivity. }
    rewrite Enoop. split; [constructor; assumption|apply ctl4_refl].
Qed.

(* ---- applyStorage: the buffer is cut into maximal runs of commands on one handle ---- *)
Definition allh (h : handle) (l : list cmd) : Prop := Forall (fun c => cmd_handle c = h) l.

Lemma split_packs_concat : forall cs cur, concat (split_packs cs cur) = rev cur ++ cs.
Proof.
  induction cs as [|c t IH]; intros cur; simpl.
  - destruct cur; simpl; rewrite ?app_nil_r; reflexivity.
  - destruct cur as [|c0 cur'].
    + rewrite IH. reflexivity.
    + destruct (handle_eqb (cmd_handle c0) (cmd_handle c)).
      * rewrite IH. simpl. rewrite <- app_assoc. reflexivity.
      * simpl. rewrite IH. simpl. reflexivity.
Qed.

Lemma split_packs_uniform : forall cs cur h, allh h cur ->
  Forall (fun p => p <> [] /\ exists h', allh h' p) (split_packs cs cur).
Proof.
  induction cs as [|c t IH]; intros cur h Hcur; simpl.
  - destruct cur as [|c0 cur']; [constructor|]. constructor; [|constructor]. split.
    + simpl. intros E. apply app_eq_nil in E. destruct E as (_ & E). discriminate.
    + exists h. apply Forall_rev. assumption.
  - destruct cur as [|c0 cur'].
    + apply (IH [c] (cmd_handle c)). constructor; [reflexivity|constructor].
    + destruct (handle_eqb (cmd_handle c0) (cmd_handle c)) eqn:E.
      * apply handle_eqb_eq in E. apply (IH (c :: c0 :: cur') h). constructor; [|assumption].
        inversion Hcur; subst. congruence.
      * constructor.
        -- split; [simpl; intros E'; apply app_eq_nil in E'; destruct E' as (_ & E'); discriminate|exists h; apply Forall_rev; assumption].
        -- apply (IH [c] (cmd_handle c)). constructor; [reflexivity|constructor].
Qed.

Lemma creates_first_app_l a b : creates_first (a ++ b) -> creates_first a.
Proof. intros H b1 h key b2 E c Hin. apply (H b1 h key (b2 ++ b)); [rewrite E, <- app_assoc; reflexivity|assumption]. Qed.
Lemma creates_first_app_r a b : creates_first (a ++ b) -> creates_first b.
Proof. intros H b1 h key b2 E c Hin. apply (H (a ++ b1) h key b2); [rewrite E, <- app_assoc; reflexivity|apply in_or_app; right; assumption]. Qed.

Lemma Q_packs hs : forall ps s sp rem' s',
  Forall (fun p => p <> [] /\ exists h', allh h' p) ps -> Forall (wf_cmd hs) (concat ps) -> creates_first (concat ps) ->
  within (length hs) -> Q s hs sp (abs_buf hs (concat ps) ++ rem') ->
  fold_res apply_pack ps s = Ok s' ->
  Q s' hs (fold_left spec_cmd (abs_buf hs (concat ps)) sp) rem' /\ ctl4 s s'.
Proof.
  induction ps as [|p ps IH]; intros s sp rem' s' Hu Hwf Hcf Hb HQ H.
  - simpl in H. inversion H; subst s'. simpl in *. split; [assumption|apply ctl4_refl].
  - simpl in H. apply bind_ok in H. destruct H as (s1 & Hp & H).
    inversion Hu as [|p' ps' (Hne & h & Hall) Hu']; subst p' ps'.
    simpl in Hwf, Hcf, HQ |- *. apply Forall_app in Hwf. destruct Hwf as (Hwfp & Hwfr).
    unfold abs_buf in HQ |- *. rewrite filter_map_app in HQ |- *. rewrite <- app_assoc in HQ. rewrite fold_left_app.
    fold (abs_buf hs p) in HQ |- *. fold (abs_buf hs (concat ps)) in HQ |- *.
    pose proof (creates_first_app_l _ _ Hcf) as Hcfp. pose proof (creates_first_app_r _ _ Hcf) as Hcfr.
    destruct p as [|c0 t]; [congruence|].
    assert (Hstep : Q s1 hs (fold_left spec_cmd (abs_buf hs (c0 :: t)) sp) (abs_buf hs (concat ps) ++ rem') /\ ctl4 s s1).
    { inversion Hall as [|x l Hc0 Ht]; subst x l. inversion Hwfp as [|x l Hwc0 Hwt]; subst x l.
      destruct c0 as [h0 key|h0|h0].
      - simpl in Hc0. subst h. apply Q_create_pack; try assumption. apply (pack_tail_destroys h0 key t Hcfp Ht).
      - apply Q_other_pack; try assumption; [intros; discriminate|]. apply pack_destroys; [intros; discriminate|assumption|].
        simpl in Hc0 |- *. subst h. exact Hall.
      - apply Q_other_pack; try assumption; [intros; discriminate|]. apply pack_destroys; [intros; discriminate|assumption|].
        simpl in Hc0 |- *. subst h. exact Hall. }
    destruct Hstep as (HQ1 & Hc1).
    destruct (IH s1 _ rem' s' Hu' Hwfr Hcfr Hb HQ1 H) as (HQ2 & Hc2).
    split; [exact HQ2|eapply ctl4_trans; eassumption].
Qed.

(* ---- all buffers, in thread order ---- *)
Lemma Q_buffers hs : forall bs s sp s',
  Forall (Forall (wf_cmd hs)) bs -> Forall creates_first bs -> within (length hs) ->
  Q s hs sp (concat (map (abs_buf hs) bs)) ->
  fold_res apply_storage bs s = Ok s' ->
  Q s' hs (fold_left (fun st b => fold_left spec_cmd b st) (map (abs_buf hs) bs) sp) [] /\ ctl4 s s'.
Proof.
  induction bs as [|b bs IH]; intros s sp s' Hwf Hcf Hb HQ H.
  - simpl in H. inversion H; subst s'. simpl in *. split; [assumption|apply ctl4_refl].
  - simpl in H. apply bind_ok in H. destruct H as (s1 & Hst & H). simpl in HQ |- *.
    inversion Hwf as [|x l Hwfb Hwfr]; subst x l. inversion Hcf as [|x l Hcfb Hcfr]; subst x l.
    unfold apply_storage in Hst.
    pose proof (split_packs_concat b []) as Ec. simpl in Ec.
    assert (Hu : Forall (fun p => p <> [] /\ exists h', allh h' p) (split_packs b [])) by (apply (split_packs_uniform b [] null_handle); constructor).
    rewrite <- Ec in Hwfb, Hcfb, HQ |- *.
    destruct (Q_packs hs (split_packs b []) s sp _ s1 Hu Hwfb Hcfb Hb HQ Hst) as (HQ1 & Hc1).
    destruct (IH s1 _ s' Hwfr Hcfr Hb HQ1 H) as (HQ2 & Hc2).
    split; [exact HQ2|eapply ctl4_trans; eassumption].
Qed.

Lemma spec_bufs_frame l sp : let spf := fold_left (fun st b => fold_left spec_cmd b st) l sp in
  sp_lock spf = sp_lock sp /\ sp_bufs spf = sp_bufs sp /\ sp_count spf = sp_count sp /\ sp_nthr spf = sp_nthr sp.
Proof.
  revert sp. induction l as [|b t IH]; intros sp; simpl; [auto|]. destruct (IH (fold_left spec_cmd b sp)) as (A & B & C & D).
  destruct (spec_fold_frame b sp) as (A' & B' & C' & D'). repeat split; congruence.
Qed.

Lemma all_nil_map_const {A} (l : list (list A)) : Forall (fun b => b = []) (map (fun _ => @nil A) l).
Proof. induction l; simpl; constructor; auto. Qed.

Lemma map_const_eq {A B C} (l : list A) (f : B -> list C) (l' : list B) : length l = length l' ->
  (forall x, In x (map (fun _ => @nil C) l) -> x = []) ->
  map (fun _ => @nil C) l = map (fun _ => @nil C) l'.
Proof. revert l'. induction l as [|x t IH]; intros [|y t'] H _; simpl in *; try lia; [reflexivity|]. f_equal. apply IH; [lia|]. intros z Hz. apply in_map_iff in Hz. destruct Hz as (_ & <- & _). reflexivity. Qed.

(* ---- the outermost unlock() ---- *)
Lemma R_unlock_flush s hs sp s' : R s hs sp -> pred (sp_lock sp) = 0 -> within (length hs) ->
  step s Unlock = Ok (s', None) -> R s' hs (spec_step sp SoUnlock).
Proof.
  intros HR Hp Hb H. pose proof HR as HR0. destruct HR as [HG Hc Hl Hn Hbf Hwf Hu Hcr Hmi Hml Hm Hs He Hcf].
  unfold step in H. simpl in H. rewrite Hl, Hp in H. apply bind_ok in H. destruct H as (s2 & Hfl & H). inversion H; subst s2; clear H.
  unfold flush in Hfl. simpl in Hfl. apply bind_ok in Hfl. destruct Hfl as (s2 & Hfold & Hfl). inversion Hfl; subst s'; clear Hfl.
  unfold spec_step. simpl. rewrite Hp. unfold spec_flush. simpl.
  set (sp1 := with_lock sp 0).
  assert (Hids : forall h, In h hs -> N.to_nat (fst h) < length hs).
  { intros h Hin. destruct (Nat.eq_dec (sp_lock sp) 0) as [E0|Hne].
    - pose proof (R_rem_nil _ _ _ HR0 E0) as Hrem. rewrite Hrem in HG. destruct (In_hnd _ _ Hin) as (k & Hk & <-).
      pose proof (ids_in_range s hs _ k HG Hk). lia.
    - destruct (He Hne) as (_ & E2 & E3). pose proof (E3 h Hin). lia. }
  assert (HQ : Q (set_lock s 0) hs sp1 (concat (map (abs_buf hs) (bufs s)))).
  { constructor; simpl.
    - rewrite <- Hbf. eapply G_same_core; [| | | | |exact HG]; reflexivity.
    - rewrite <- Hbf. assumption.
    - split; [assumption|]. split; assumption.
    - assumption.
    - assumption. }
  destruct (Q_buffers hs (bufs s) (set_lock s 0) sp1 s2 Hwf Hcf Hb HQ Hfold) as (HQ2 & (C1 & C2 & C3 & C4)). simpl in C1, C2, C3, C4.
  rewrite <- Hbf in HQ2.
  set (spf := fold_left (fun st b => fold_left spec_cmd b st) (sp_bufs sp) sp1) in *.
  destruct (spec_bufs_frame (sp_bufs sp) sp1) as (F1 & F2 & F3 & F4). fold spf in F1, F2, F3, F4. simpl in F1, F2, F3, F4.
  destruct HQ2 as [HG2 Hcr2 (M1 & M2 & M3) Hs2 _].
  assert (Hrem2 : concat (map (fun _ : list scmd => @nil scmd) (sp_bufs spf)) = []) by (apply all_nil_concat; apply all_nil_map_const).
  clearbody spf. constructor; simpl.
  - rewrite Hrem2. eapply G_same_core; [| | | | |exact HG2]; reflexivity.
  - congruence.
  - congruence.
  - congruence.
  - rewrite F2, Hbf, C3, !map_map. reflexivity.
  - apply all_nil_wf. apply all_nil_map_const.
  - intros _. apply all_nil_map_const.
  - rewrite Hrem2. constructor.
  - assumption.
  - assumption.
  - assumption.
  - assumption.
  - intros Hne. rewrite F1 in Hne. simpl in Hne. contradiction.
  - clear. induction (bufs s2) as [|x t IH]; simpl; constructor; [|assumption]. intros b1 h key b2 E. destruct b1; discriminate.
Qed.
