(* C04/C07, entity level, step 2: what Manager.step returns for ORunJob (a job that processes everything, no callback
   actions, unlocking at the end), at the level of the MODEL: the run is defined, and the visits -- in the order of
   the arrays of tasks 0..T-1 -- are exactly, archetype by archetype in archetype order, the members 0..population-1
   of every non-empty archetype that has the required components, each with its own handle and its own cells;
   the entity_index handed out with them counts 0..N-1.  The state afterwards differs from the state before in
   version stamps, world version, epoch and the (empty) command buffers only. *)
Require Import Coq.Lists.List Coq.NArith.NArith Coq.ZArith.ZArith Coq.Arith.Arith Coq.Bool.Bool Coq.micromega.Lia.
From Mustache Require Import Res Iter Manager.
From Mustache.proofs Require Import ListLemmas IterProofs IterCover VersionProofs ManagerDeferred JobFilterFull.
Import ListNotations.

Definition visit := (handle * list (option cell))%type.
Definition varr := (nat * nat * list visit)%type.       (* task, first entity index, entities *)

(* ---- the two loops of ORunJob over tasks and arrays, named ---- *)
Definition vis_arr (s2 : mst) (j : job) (fas : list farch) (k : nat) (acc2 : nat * list varr) (ar : nat * nat * nat)
  : res (nat * list varr) :=
  let '(idx2, o2) := acc2 in
  let '(pos, start, len) := ar in
  do fa <- nth_res fas pos;
  do es <- array_visits s2 j (fa_arch fa) start len;
  Ok ((idx2 + len)%nat, o2 ++ [(k, idx2, es)]).

Definition vis_task (s2 : mst) (j : job) (fas : list farch) (acc : nat * nat * list varr) (arrs : list (nat * nat * nat))
  : res (nat * nat * list varr) :=
  let '(k, idx, out_) := acc in
  do r2 <- fold_res (vis_arr s2 j fas k) arrs (idx, out_);
  Ok (S k, fst r2, snd r2).

Definition job_tasks (parallel : bool) (tov workers total : nat) : nat :=
  if parallel then Nat.max 1 (match tov with O => Nat.min total (S workers) | t => t end) else 1.

Lemma job_tasks_pos parallel tov workers total : 0 < job_tasks parallel tov workers total.
Proof. unfold job_tasks. destruct parallel; lia. Qed.

Lemma step_runjob s j parallel tov workers cap :
  step s (ORunJob j parallel tov workers cap [] false) =
  (do r <- job_filter s j;
   let '(s1, fas0) := r in
   let fas := map (with_cap cap) fas0 in
   match total_count fas with
   | O => Ok (s1, RJob (j_last j) [])
   | S _ =>
     let s2 := do_lock (inc_wv s1) in
     do per_task <- run_arrays fas (job_tasks parallel tov workers (total_count fas));
     do vis <- fold_res (vis_task s2 j fas) per_task (O, O, []);
     do r3 <- do_unlock s2;
     Ok (fst r3, RJob (wv s1) (snd vis))
   end).
Proof. reflexivity. Qed.

(* ---- lock; unlock with empty buffers ---- *)
Definition locked1 (s : mst) : mst :=
  set_eid (set_bufs (set_lock s 1) (resize (bufs s) (nthreads s) []) (resize (tmps s) (nthreads s) []))
          (N.of_nat (length (slots s))).

Lemma do_lock_0 s : lockc s = 0 -> do_lock s = locked1 s.
Proof. intros H. unfold do_lock. rewrite H. reflexivity. Qed.

(* the state after the run: s1 is the state the filter left *)
Definition job_final (s1 : mst) : mst :=
  let s3 := set_lock (locked1 (inc_wv s1)) 0 in
  set_epoch (set_bufs s3 (bufs s3) (map (fun _ => []) (tmps s3))) (S (epoch s3)).

Lemma unlock_after_lock s1 : Forall (fun b => b = []) (bufs s1) ->
  do_unlock (locked1 (inc_wv s1)) = Ok (job_final s1, RBool true).
Proof.
  intros Hb. unfold do_unlock. cbn [lockc locked1 set_eid set_bufs set_lock pred].
  rewrite flush_empty; [reflexivity|]. cbn [bufs set_lock locked1 set_eid set_bufs inc_wv set_wv]. apply Forall_resize; [exact Hb|reflexivity].
Qed.

(* ---- one array ---- *)
Definition visit_of (j : job) (a : archetype) (i : nat) : visit :=
  (nth i (am_ents a) null_handle,
   map (fun r : nat * bool * bool => let '(c, _, _) := r in
        match cindex (am_mask a) c with Some ci => Some (get_cell a ci i) | None => None end) (j_reqs j)).

Lemma visit_of_av j a1 a i : av a1 = av a -> visit_of j a1 i = visit_of j a i.
Proof.
  intros H. destruct (av_fields _ _ H) as (Em & _ & Ee & Ec & _). unfold visit_of, get_cell. rewrite Em, Ee, Ec. reflexivity.
Qed.

Definition av_step (j : job) (a : archetype) (acc : list visit) (i : nat) : res (list visit) :=
  do h <- nth_res (am_ents a) i;
  let cells := map (fun (r : nat * bool * bool) => let '(c, _, _) := r in
                    match cindex (am_mask a) c with Some ci => Some (get_cell a ci i) | None => None end) (j_reqs j) in
  Ok (acc ++ [(h, cells)]).

Lemma array_visits_unfold s j ai start len :
  array_visits s j ai start len = do a <- nth_res (archs s) ai; fold_res (av_step j a) (seq start len) [].
Proof. reflexivity. Qed.

Lemma av_fold j a : forall l acc, (forall i, In i l -> i < length (am_ents a)) ->
  fold_res (av_step j a) l acc = Ok (acc ++ map (visit_of j a) l).
Proof.
  induction l as [|i t IH]; intros acc Hl; [simpl; rewrite app_nil_r; reflexivity|].
  cbn [fold_res map]. unfold av_step at 1.
  rewrite (nth_res_some _ _ _ (List.nth_error_nth' (am_ents a) null_handle (Hl i (or_introl eq_refl)))). cbn [bind].
  rewrite IH by (intros i' Hi'; apply Hl; right; exact Hi'). rewrite <- app_assoc. reflexivity.
Qed.

Lemma array_visits_ok s2 j ai a1 a start len :
  nth_error (archs s2) ai = Some a1 -> av a1 = av a -> start + len <= length (am_ents a) ->
  array_visits s2 j ai start len = Ok (map (visit_of j a) (seq start len)).
Proof.
  intros Hn Hav Hle. rewrite array_visits_unfold, (nth_res_some _ _ _ Hn). cbn [bind].
  destruct (av_fields _ _ Hav) as (_ & _ & Ee & _).
  rewrite av_fold by (intros i Hi; apply in_seq in Hi; rewrite Ee; lia). cbn [app].
  apply f_equal. apply map_ext. intros i. apply visit_of_av. exact Hav.
Qed.

(* ---- the arrays of one task, the tasks of one run ---- *)
(* L p: the archetype behind position p of the filtered list *)
Definition arr_in (s2 : mst) (fas : list farch) (L : nat -> archetype) (x : nat * nat * nat) : Prop :=
  let '(p, s, l) := x in
  exists fa a1, nth_error fas p = Some fa /\ nth_error (archs s2) (fa_arch fa) = Some a1 /\ av a1 = av (L p) /\
                s + l <= length (am_ents (L p)).

Fixpoint arr_out (L : nat -> archetype) (j : job) (k idx : nat) (arrs : list (nat * nat * nat)) : list varr :=
  match arrs with
  | [] => []
  | (p, s, l) :: t => (k, idx, map (visit_of j (L p)) (seq s l)) :: arr_out L j k (idx + l) t
  end.

Fixpoint task_out (L : nat -> archetype) (j : job) (k idx : nat) (per : list (list (nat * nat * nat))) : list varr :=
  match per with
  | [] => []
  | arrs :: t => arr_out L j k idx arrs ++ task_out L j (S k) (idx + length (flat3 arrs)) t
  end.

Lemma flat3_cons p s l t : flat3 ((p, s, l) :: t) = map (pair p) (seq s l) ++ flat3 t.
Proof. reflexivity. Qed.

Lemma vis_arr_fold s2 j fas L k : forall arrs idx out_, Forall (arr_in s2 fas L) arrs ->
  fold_res (vis_arr s2 j fas k) arrs (idx, out_) = Ok (idx + length (flat3 arrs), out_ ++ arr_out L j k idx arrs).
Proof.
  induction arrs as [|[[p s] l] t IH]; intros idx out_ H.
  - simpl. rewrite Nat.add_0_r, app_nil_r. reflexivity.
  - inversion H as [|? ? Hx Ht]; subst. destruct Hx as (fa & a1 & Hfa & Ha1 & Hav & Hle).
    cbn [fold_res]. unfold vis_arr at 1. rewrite (nth_res_some _ _ _ Hfa). cbn [bind].
    rewrite (array_visits_ok s2 j (fa_arch fa) a1 (L p) s l Ha1 Hav Hle). cbn [bind].
    rewrite (IH _ _ Ht). rewrite flat3_cons, app_length, map_length, seq_length. cbn [arr_out].
    rewrite <- app_assoc, Nat.add_assoc. reflexivity.
Qed.

Lemma flat_tasks_cons arrs t : flat_tasks (arrs :: t) = flat3 arrs ++ flat_tasks t.
Proof. reflexivity. Qed.

Lemma vis_task_fold s2 j fas L : forall per k idx out_, Forall (Forall (arr_in s2 fas L)) per ->
  fold_res (vis_task s2 j fas) per (k, idx, out_) =
  Ok (k + length per, idx + length (flat_tasks per), out_ ++ task_out L j k idx per).
Proof.
  induction per as [|arrs t IH]; intros k idx out_ H.
  - simpl. rewrite !Nat.add_0_r, app_nil_r. reflexivity.
  - inversion H as [|? ? Hx Ht]; subst. cbn [fold_res]. unfold vis_task at 1.
    rewrite (vis_arr_fold s2 j fas L k arrs idx out_ Hx). cbn [bind fst snd].
    rewrite (IH _ _ _ Ht). rewrite flat_tasks_cons, app_length. cbn [task_out length].
    rewrite <- app_assoc, Nat.add_assoc, Nat.add_succ_r. reflexivity.
Qed.

(* what the callback saw, in order; and the entity_index values *)
Definition out_visits (arrays : list varr) : list visit := flat_map (fun t : varr => snd t) arrays.
Definition out_indices (arrays : list varr) : list nat := flat_map (fun t : varr => seq (snd (fst t)) (length (snd t))) arrays.

Definition pos_visit (L : nat -> archetype) (j : job) (pi : nat * nat) : visit := visit_of j (L (fst pi)) (snd pi).

Lemma arr_out_visits L j k : forall arrs idx, out_visits (arr_out L j k idx arrs) = map (pos_visit L j) (flat3 arrs).
Proof.
  induction arrs as [|[[p s] l] t IH]; intros idx; [reflexivity|].
  cbn [arr_out]. unfold out_visits in *. cbn [flat_map snd]. rewrite IH, flat3_cons, map_app, map_map. reflexivity.
Qed.

Lemma arr_out_indices L j k : forall arrs idx, out_indices (arr_out L j k idx arrs) = seq idx (length (flat3 arrs)).
Proof.
  induction arrs as [|[[p s] l] t IH]; intros idx; [reflexivity|].
  cbn [arr_out]. unfold out_indices in *. cbn [flat_map fst snd]. rewrite IH, flat3_cons, app_length, !map_length, !seq_length.
  rewrite seq_app. reflexivity.
Qed.

Lemma task_out_visits L j : forall per k idx, out_visits (task_out L j k idx per) = map (pos_visit L j) (flat_tasks per).
Proof.
  induction per as [|arrs t IH]; intros k idx; [reflexivity|].
  cbn [task_out]. unfold out_visits in *. rewrite flat_map_app, IH, flat_tasks_cons, map_app.
  f_equal. apply (arr_out_visits L j k arrs idx).
Qed.

Lemma task_out_indices L j : forall per k idx, out_indices (task_out L j k idx per) = seq idx (length (flat_tasks per)).
Proof.
  induction per as [|arrs t IH]; intros k idx; [reflexivity|].
  cbn [task_out]. unfold out_indices in *. rewrite flat_map_app, IH, flat_tasks_cons, app_length, seq_app.
  f_equal. apply (arr_out_indices L j k arrs idx).
Qed.

(* ---- from positions of the filtered list to archetypes ---- *)
Definition dflt_arch : archetype :=
  {| am_mask := 0%N; am_shared := si_null; am_ents := []; am_cols := []; am_size := 0; am_chunk := 0; am_gver := []; am_cver := [] |}.
Definition dflt_fa : farch := {| fa_arch := 0; fa_blocks := []; fa_count := 0; fa_size := 0; fa_cap := 0 |}.
Definition lookup (l : list archetype) (fas : list farch) (p : nat) : archetype :=
  nth (fa_arch (nth p fas dflt_fa)) l dflt_arch.

Lemma nth_mid {A} (pre : list A) a t d : nth (length pre) (pre ++ a :: t) d = a.
Proof. rewrite app_nth2 by lia. rewrite Nat.sub_diag. reflexivity. Qed.

Lemma map_all_from {B} (G : farch -> nat -> B) : forall t pre,
  map (fun pi : nat * nat => G (nth (fst pi) (pre ++ t) dflt_fa) (snd pi)) (all_from (length pre) t) =
  flat_map (fun fa => map (G fa) (selected_of_blocks (fa_blocks fa))) t.
Proof.
  induction t as [|fa t IH]; intros pre; [reflexivity|].
  rewrite all_from_cons, map_app, map_map. cbn [flat_map fst snd]. f_equal.
  - apply map_ext. intros i. rewrite nth_mid. reflexivity.
  - specialize (IH (pre ++ [fa])). rewrite <- app_assoc, app_length in IH. cbn [app length] in IH.
    rewrite Nat.add_1_r in IH. exact IH.
Qed.

(* the members a job processes, archetype by archetype *)
Definition arch_visits (j : job) (a : archetype) : list visit :=
  if jmatch j a then map (visit_of j a) (seq 0 (length (am_ents a))) else [].
Definition expected_visits (j : job) (l : list archetype) : list visit := flat_map (arch_visits j) l.

Lemma full_list_visits cap j all : forall l pre, all = pre ++ l -> Forall (fun a => 0 < am_chunk a) l ->
  flat_map (fun fa => map (fun i => visit_of j (nth (fa_arch fa) all dflt_arch) i) (selected_of_blocks (fa_blocks fa)))
           (map (with_cap cap) (full_list j (length pre) l)) = expected_visits j l.
Proof.
  induction l as [|a t IH]; intros pre Hall Hch; [reflexivity|].
  inversion Hch as [|? ? Hca Hct]; subst.
  assert (El : length (pre ++ [a]) = S (length pre)) by (rewrite app_length; simpl; lia).
  specialize (IH (pre ++ [a])). rewrite <- app_assoc, El in IH. specialize (IH eq_refl Hct).
  cbn [full_list]. unfold expected_visits in *. cbn [flat_map]. rewrite map_app, flat_map_app, IH. f_equal.
  unfold arch_visits. destruct (jmatch j a) eqn:Em; [|reflexivity].
  cbn [map flat_map with_cap full_rec fa_arch fa_blocks]. rewrite app_nil_r, nth_mid.
  rewrite (fblocks_sel a Hca (jmatch_size _ _ Em)). reflexivity.
Qed.

Lemma total_count_zero fas : Forall fa_wf fas -> total_count fas = 0 -> fas = [].
Proof.
  intros H E. destruct H as [|fa t Hfa _]; [reflexivity|]. rewrite total_count_cons in E.
  destruct Hfa as (_ & _ & Hpos & _). lia.
Qed.

(* ------------------------------------------------------------------------------------------ *)
(* THE RUN at the level of the model *)
Definition run_ready (s : mst) : Prop :=
  Forall (fun a => 0 < am_chunk a /\ am_size a = length (am_ents a)) (archs s) /\
  lockc s = 0 /\ Forall (fun b => b = []) (bufs s).

Theorem run_job_model s j parallel tov workers cap :
  jfull j -> 0 < cap -> run_ready s ->
  exists s1 s' last arrays,
    step s (ORunJob j parallel tov workers cap [] false) = Ok (s', RJob last arrays) /\
    stamps_only s s1 /\ (s' = s1 \/ s' = job_final s1) /\
    out_visits arrays = expected_visits j (archs s) /\
    out_indices arrays = seq 0 (length (out_visits arrays)) /\
    last = (match out_visits arrays with [] => j_last j | _ => wv s end).
Proof.
  intros Hf Hcap (Harch & Hlock & Hbufs).
  assert (Hch : Forall (fun a => 0 < am_chunk a) (archs s)) by (eapply Forall_impl; [|exact Harch]; intros a (H & _); exact H).
  destruct (job_filter_full s j Hf Hch) as (s1 & Efilter & Hso).
  rewrite step_runjob, Efilter. cbn [bind]. cbv zeta.
  set (fas := map (with_cap cap) (full_list j 0 (archs s))).
  assert (Hwf : Forall fa_wf fas) by (apply full_list_wf; assumption).
  pose proof (full_list_visits cap j (archs s) (archs s) [] eq_refl Hch) as Hexp. cbn [length] in Hexp. fold fas in Hexp.
  destruct (total_count fas) as [|n] eqn:Etot.
  - (* nothing selected *)
    exists s1, s1, (j_last j), []. split; [reflexivity|]. split; [exact Hso|]. split; [left; reflexivity|].
    rewrite (total_count_zero fas Hwf Etot) in Hexp. simpl in Hexp. rewrite <- Hexp. repeat split.
  - (* the run *)
    destruct Hso as (Hfr & Hav).
    assert (Hlock1 : lockc s1 = 0) by (apply (f_equal lockc) in Hfr; simpl in Hfr; congruence).
    assert (Hbufs1 : bufs s1 = bufs s) by (apply (f_equal bufs) in Hfr; exact Hfr).
    assert (Hwv1 : wv s1 = wv s) by (apply (f_equal wv) in Hfr; exact Hfr).
    rewrite (do_lock_0 (inc_wv s1)) by exact Hlock1.
    destruct (tasks_cover fas (job_tasks parallel tov workers (S n)) (job_tasks_pos _ _ _ _) Hwf)
      as (per & Erun & _ & Eflat & _ & _ & Hgood & _).
    rewrite Erun. cbn [bind].
    set (L := lookup (archs s) fas).
    assert (Hin : Forall (Forall (arr_in (locked1 (inc_wv s1)) fas L)) per).
    { eapply Forall_impl; [|exact Hgood]. intros arrs Harrs. eapply Forall_impl; [|exact Harrs].
      intros [[p st] l] (fa & Hfa & _ & _ & Hle & _). unfold arr_in.
      assert (Hfa' : In fa fas) by (eapply nth_error_In; exact Hfa).
      unfold fas in Hfa'. apply in_map_iff in Hfa'. destruct Hfa' as (fa0 & <- & Hfa0).
      apply full_list_in in Hfa0. destruct Hfa0 as (ai & a & Ha & Hm & ->). cbn [Nat.add] in *.
      destruct (stamps_only_nth s s1 ai a (conj Hfr Hav) Ha) as (a1 & Ha1 & Hav1).
      assert (HL : L p = a).
      { unfold L, lookup. rewrite (ListLemmas.nth_error_nth' _ _ _ dflt_fa Hfa). cbn [with_cap full_rec fa_arch].
        apply (ListLemmas.nth_error_nth' _ _ _ dflt_arch Ha). }
      exists (with_cap cap (full_rec ai a)), a1. rewrite HL. split; [exact Hfa|]. split; [exact Ha1|]. split; [exact Hav1|].
      cbn [with_cap full_rec fa_size] in Hle. rewrite Forall_forall in Harch.
      destruct (Harch a (nth_error_In _ _ Ha)) as (_ & Hz). lia. }
    rewrite (vis_task_fold _ j fas L per 0 0 [] Hin). cbn [bind snd app].
    rewrite unlock_after_lock by (rewrite Hbufs1; exact Hbufs). cbn [bind fst].
    exists s1, (job_final s1), (wv s1), (task_out L j 0 0 per).
    split; [reflexivity|]. split; [split; assumption|]. split; [right; reflexivity|].
    assert (Evis : out_visits (task_out L j 0 0 per) = expected_visits j (archs s)).
    { rewrite task_out_visits, Eflat, <- Hexp.
      apply (map_all_from (fun fa i => visit_of j (nth (fa_arch fa) (archs s) dflt_arch) i) fas []). }
    split; [exact Evis|]. split.
    + rewrite task_out_indices, task_out_visits, map_length. reflexivity.
    + rewrite Evis, <- Hexp, <- (map_all_from (fun fa i => visit_of j (nth (fa_arch fa) (archs s) dflt_arch) i) fas []).
      cbn [length app]. pose proof (all_from_length fas Hwf 0) as Hlen. rewrite Etot in Hlen.
      destruct (all_from 0 fas); [discriminate|]. simpl. exact Hwv1.
Qed.

(* ---- any job (whatever its filter), no callback actions, unlocking at the end: IF the run is defined, the state
   afterwards differs from the state before in version stamps, world version, epoch and empty buffers only ---- *)
Lemma runjob_state s j parallel tov workers cap s' out : lockc s = 0 -> Forall (fun b => b = []) (bufs s) ->
  step s (ORunJob j parallel tov workers cap [] false) = Ok (s', out) ->
  exists s1, stamps_only s s1 /\ (s' = s1 \/ s' = job_final s1) /\ exists last arrays, out = RJob last arrays.
Proof.
  intros Hl Hb H. rewrite step_runjob in H. apply ibind_ok in H. destruct H as ([s1 fas0] & Hf & H).
  pose proof (job_filter_stamps _ _ _ _ Hf) as Hso. exists s1. split; [exact Hso|]. cbv beta iota zeta in H.
  destruct (total_count (map (with_cap cap) fas0)) as [|n].
  - inversion H; subst. split; [left; reflexivity|eauto].
  - destruct Hso as (Hfr & _).
    assert (Hlock1 : lockc s1 = 0) by (apply (f_equal lockc) in Hfr; simpl in Hfr; congruence).
    assert (Hbufs1 : bufs s1 = bufs s) by (apply (f_equal bufs) in Hfr; exact Hfr).
    rewrite (do_lock_0 (inc_wv s1)) in H by exact Hlock1.
    apply ibind_ok in H. destruct H as (per & _ & H). apply ibind_ok in H. destruct H as (vis & _ & H).
    rewrite unlock_after_lock in H by (rewrite Hbufs1; exact Hb). cbn [bind fst] in H. inversion H; subst.
    split; [right; reflexivity|eauto].
Qed.
