(* C03, history level, extended unlocked alphabet ManagerExtMain.alpha_e = alpha_b + destroy (deferred) + update +
   clearArchetype + clear + clone + builder edits: the lifecycle history of a whole script is a word of the per-place
   bracket language and the places alive at the end are the cells of the tracked components of the live entities.
   Invariant HInvE = ManagerExtInv.MInvE (reused as it stands, through ManagerExtMain.MInvE_step) + "the history so far
   is accepted and the checker's live set is LifecycleHist.aplace" + no command buffer exists.
   The history is LifecycleHist.hrun (the same run as Refine.mrun with the log of every operation appended). *)
Require Import Coq.Lists.List Coq.NArith.NArith Coq.ZArith.ZArith Coq.Arith.Arith Coq.Bool.Bool Coq.micromega.Lia.
From Mustache Require Import Res Manager MgrSpec Refine.
From Mustache Require Skeleton.
From Mustache Require Import SkelSpec.
From Mustache.proofs Require Import ListLemmas SkelBasics SkelInv SkelSteps SkelMove SkelRefine SkelMain ClosureProofs
  ManagerBasics ManagerMoves ManagerProj ManagerInv ManagerMain ManagerWorlds
  ManagerExtFrames ManagerExtInv ManagerExtClear ManagerExtClone ManagerExtBuild ManagerExtMain
  LifecycleProofs LifecycleLang LifecycleHist LifecycleExtLang LifecycleExtOps.
Import ListNotations.

(* ------------------------------------------------------------------------------------------ *)
(* one operation of the extended alphabet                                                      *)
Lemma LStepE cis typed s hs al x o s1 out L :
  MInvE cis s hs al x -> lc_cis_ok cis -> alpha_e cis o = true -> x_viol x = 0 -> x_viol (x_step x o) = 0 ->
  within (length hs) -> step s (concretize typed hs o) = Ok (s1, out) ->
  (forall p, In p L <-> aplace cis (archs s) p) -> lstep_post cis s s1 L.
Proof.
  intros HE Hok Ha Hv0 Hv1 Hb Hst HL. pose proof (me_inv _ _ _ _ _ HE) as HI.
  pose proof (mi_xlock _ _ _ _ _ HI) as Hxl.
  assert (Hold : alpha_b cis o = true -> lstep_post cis s s1 L)
    by (intros Hab; exact (LStep cis typed s hs al x o s1 out L HI Hok Hab Hv0 Hv1 Hst HL)).
  destruct o; simpl in Ha; try discriminate; try (apply Hold; exact Ha).
  - (* create *) apply andb_true_iff in Ha. apply Hold. apply Ha.
  - (* destroy *) cbn [concretize] in Hst. eapply L_destroy; eassumption.
  - (* clearArchetype *)
    apply andb_true_iff in Ha. destruct Ha as (Hs & _). destruct sids; [|discriminate].
    cbn [concretize] in Hst. eapply L_clear_arch; eassumption.
  - (* clear *) cbn [concretize] in Hst. eapply L_clear; eassumption.
  - (* update *) cbn [concretize] in Hst. eapply L_update; eassumption.
  - (* clone *) cbn [concretize] in Hst. rewrite resolve_hnd in Hst. eapply L_clone; eassumption.
  - (* builder *)
    pose proof (assigns_okb_ok _ _ Ha) as Hao. destruct target as [k|].
    + unfold x_step in Hv1. destruct (out_of_contract x (XoBuild tid (Some k) assigns removes)) eqn:Eooc; [simpl in Hv1; lia|].
      pose proof Eooc as Hooc.
      simpl in Eooc. rewrite Hxl in Eooc. apply orb_false_iff in Eooc. destruct Eooc as (Eooc & Etgt).
      apply orb_false_iff in Eooc. destruct Eooc as (_ & End). apply negb_false_iff in End. apply NoDup_b_sound in End.
      assert (Hax : alive_x x k = true) by (unfold alive_x; destruct (find_ent x k); [reflexivity|discriminate]).
      cbn [concretize] in Hst. rewrite resolve_hnd in Hst.
      apply (L_build_some cis s hs al x tid k assigns removes s1 out L Hok HE Hao End Hax Hooc); [lia|exact Hst|exact HL].
    + destruct assigns as [|a0 assigns0].
      * cbn [concretize] in Hst. rewrite (step_build_none_nil _ _ _ (mi_lock _ _ _ _ _ HI)) in Hst.
        eapply LStep_create; eassumption.
      * unfold x_step in Hv1. destruct (out_of_contract x (XoBuild tid None (a0 :: assigns0) removes)) eqn:Eooc; [simpl in Hv1; lia|].
        unfold out_of_contract in Eooc. rewrite Hxl in Eooc. apply orb_false_iff in Eooc. destruct Eooc as (Eooc & _).
        apply orb_false_iff in Eooc. destruct Eooc as (_ & End). apply negb_false_iff in End. apply NoDup_b_sound in End.
        cbn [concretize] in Hst. eapply L_build_new; eassumption.
Qed.

(* ------------------------------------------------------------------------------------------ *)
(* the history of a script                                                                     *)
Record HInvE (cis : list cinfo) (s : mst) (hs : list handle) (al : list (nat * N)) (x : xst) (hist : list event) : Prop := {
  he_M : MInvE cis s hs al x;
  he_log : log s = [];
  he_bufs : bufs s = [];
  he_tmps : tmps s = [];
  he_hist : exists L, lc_run (destroy_pals cis) [] hist = Some L /\ forall p, In p L <-> aplace cis (archs s) p
}.

Lemma HInvE_init n cis : HInvE cis (init n cis) [] [] (x_init n cis) [].
Proof.
  constructor; [apply MInvE_init|reflexivity|reflexivity|reflexivity|]. exists []. split; [reflexivity|].
  intros p. split; [intros []|]. destruct p as [ai c i|]; [|intros []]. intros (a & Ha & _). destruct ai; discriminate.
Qed.

Lemma HInvE_step cis typed s hs al x hist o s' hs' hist' :
  HInvE cis s hs al x hist -> cis_ok cis -> lc_cis_ok cis -> alpha_e cis o = true -> x_viol x = 0 -> x_viol (x_step x o) = 0 ->
  hstep typed (s, hs, hist) o = Ok (s', hs', hist') -> within (length hs') ->
  exists al', HInvE cis s' hs' al' (x_step x o) hist'.
Proof.
  intros [HE Hlog Hbufs Htmps (L & HrL & HL)] Hok Hlok Ha Hv0 Hv1 H Hb.
  pose proof (hstep_mstep _ _ _ _ _ _ _ _ H) as Hm.
  destruct (MInvE_step cis typed s hs al x o s' hs' HE Hok Ha Hv0 Hv1 Hm Hb) as (al' & HE').
  assert (Hb0 : within (length hs)) by (eapply within_le; [eapply mstep_mono; exact Hm|exact Hb]).
  unfold hstep in H. bd H r Hst. destruct r as (s1, out). inversion H; subst s' hs' hist'; clear H.
  destruct (LStepE cis typed s hs al x o s1 out L HE Hlok Ha Hv0 Hv1 Hb0 Hst HL) as (evs & L' & Hlg & Hbf & Htm & Hr & HL').
  exists al'. constructor; [exact HE'|reflexivity|simpl; congruence|simpl; congruence|].
  exists L'. split; [|exact HL']. rewrite lc_run_app, HrL, Hlg, Hlog, app_nil_r, rev_involutive. exact Hr.
Qed.

Lemma HInvE_run cis typed : forall ops s hs al x hist s' hs' hist',
  HInvE cis s hs al x hist -> cis_ok cis -> lc_cis_ok cis -> forallb (alpha_e cis) ops = true -> x_viol x = 0 ->
  x_viol (fold_left x_step ops x) = 0 ->
  fold_res (hstep typed) ops (s, hs, hist) = Ok (s', hs', hist') -> within (length hs') ->
  exists al', HInvE cis s' hs' al' (fold_left x_step ops x) hist'.
Proof.
  induction ops as [|o t IH]; intros s hs al x hist s' hs' hist' HI Hok Hlok Ha Hv0 Hv1 H Hb; simpl in *.
  - inversion H; subst. eauto.
  - apply andb_true_iff in Ha. destruct Ha as (Ho & Ht). bd H r H1. destruct r as ((s1, hs1), hist1).
    assert (Hv1' : x_viol (x_step x o) = 0).
    { pose proof (x_viol_run_mono_e cis t (x_step x o) Ht). lia. }
    destruct (HInvE_step cis typed s hs al x hist o s1 hs1 hist1 HI Hok Hlok Ho Hv0 Hv1' H1) as (al1 & HI1).
    { eapply within_le; [|exact Hb]. eapply hfold_mono. exact H. }
    apply (IH s1 hs1 al1 (x_step x o) hist1 s' hs' hist' HI1 Hok Hlok Ht Hv1' Hv1 H Hb).
Qed.

(* the invariant after a whole script *)
Lemma hrun_HInvE typed n cis ops s hs hist :
  cis_ok cis -> lc_cis_ok cis -> forallb (alpha_e cis) ops = true ->
  hrun typed n cis ops = Ok (s, hs, hist) -> x_viol (xrun n cis ops) = 0 -> within (length hs) ->
  exists al, HInvE cis s hs al (xrun n cis ops) hist.
Proof.
  intros Hok Hlok Ha Hrun Hviol Hb. unfold hrun in Hrun. unfold xrun in *.
  exact (HInvE_run cis typed ops _ _ _ _ _ _ _ _ (HInvE_init n cis) Hok Hlok Ha eq_refl Hviol Hrun Hb).
Qed.

(* ------------------------------------------------------------------------------------------ *)
(* the theorems                                                                                *)
Theorem history_brackets_ext typed n cis ops s hs hist :
  cis_ok cis -> lc_cis_ok cis -> forallb (alpha_e cis) ops = true ->
  hrun typed n cis ops = Ok (s, hs, hist) -> x_viol (xrun n cis ops) = 0 -> within (length hs) ->
  lc_ok (destroy_pals cis) hist = true /\
  forall p, In p (lc_live (destroy_pals cis) hist) <-> live_comp_place cis s hs (xrun n cis ops) p.
Proof.
  intros Hok Hlok Ha Hrun Hviol Hb.
  destruct (hrun_HInvE typed n cis ops s hs hist Hok Hlok Ha Hrun Hviol Hb) as (al & [HE _ _ _ (L & Hr & HL)]).
  unfold lc_ok, lc_live. rewrite Hr. split; [reflexivity|]. intros p. rewrite HL.
  apply (aplace_live _ _ _ _ _ _ (me_inv _ _ _ _ _ HE)).
Qed.

Theorem history_teardown_ext typed n cis ops s hs hist s' r :
  cis_ok cis -> lc_cis_ok cis -> forallb (alpha_e cis) ops = true ->
  hrun typed n cis ops = Ok (s, hs, hist) -> x_viol (xrun n cis ops) = 0 -> within (length hs) ->
  step s OTeardown = Ok (s', r) ->
  lc_ok (destroy_pals cis) (hist ++ rev (log s')) = true /\ lc_live (destroy_pals cis) (hist ++ rev (log s')) = [].
Proof.
  intros Hok Hlok Ha Hrun Hviol Hb Htd.
  destruct (hrun_HInvE typed n cis ops s hs hist Hok Hlok Ha Hrun Hviol Hb) as (al & [HE Hlog Hbufs _ (L & Hr & HL)]).
  destruct (teardown_sound cis s hs al _ L s' r Hlok (me_inv _ _ _ _ _ HE) Hbufs HL Htd) as (evs & Hlg & Hr').
  unfold lc_ok, lc_live. rewrite lc_run_app, Hr, Hlg, Hlog, app_nil_r, rev_involutive, Hr'. split; reflexivity.
Qed.

(* "at every point": the same after every prefix of the script, teardown included *)
Lemma hrun_app_inv typed n cis ops1 : forall ops2 r, hrun typed n cis (ops1 ++ ops2) = Ok r ->
  exists s1 hs1 hist1, hrun typed n cis ops1 = Ok (s1, hs1, hist1) /\ fold_res (hstep typed) ops2 (s1, hs1, hist1) = Ok r.
Proof.
  unfold hrun. generalize (init n cis, @nil handle, @nil event). induction ops1 as [|o t IH]; intros st ops2 r H; cbn [app fold_res] in H |- *.
  - destruct st as ((s, hs), hist). exists s, hs, hist. split; [reflexivity|exact H].
  - bd H st1 H1. destruct (IH st1 ops2 r H) as (s & hs & hist & E & Hs). exists s, hs, hist. rewrite H1, bind_Ok. auto.
Qed.

Lemma xrun_app n cis ops1 ops2 : xrun n cis (ops1 ++ ops2) = fold_left x_step ops2 (xrun n cis ops1).
Proof. unfold xrun. apply fold_left_app. Qed.

Theorem history_every_point_ext typed n cis ops1 ops2 s hs hist :
  cis_ok cis -> lc_cis_ok cis -> forallb (alpha_e cis) (ops1 ++ ops2) = true ->
  hrun typed n cis (ops1 ++ ops2) = Ok (s, hs, hist) -> x_viol (xrun n cis (ops1 ++ ops2)) = 0 -> within (length hs) ->
  exists s1 hs1 hist1, hrun typed n cis ops1 = Ok (s1, hs1, hist1) /\
    lc_ok (destroy_pals cis) hist1 = true /\
    (forall p, In p (lc_live (destroy_pals cis) hist1) <-> live_comp_place cis s1 hs1 (xrun n cis ops1) p) /\
    (forall s' r, step s1 OTeardown = Ok (s', r) ->
       lc_ok (destroy_pals cis) (hist1 ++ rev (log s')) = true /\ lc_live (destroy_pals cis) (hist1 ++ rev (log s')) = []).
Proof.
  intros Hok Hlok Ha Hrun Hviol Hb. rewrite forallb_app in Ha. apply andb_true_iff in Ha. destruct Ha as (Ha1 & Ha2).
  destruct (hrun_app_inv typed n cis ops1 ops2 _ Hrun) as (s1 & hs1 & hist1 & E1 & E2).
  assert (Hb1 : within (length hs1)) by (eapply within_le; [eapply hfold_mono; exact E2|exact Hb]).
  assert (Hv1 : x_viol (xrun n cis ops1) = 0).
  { rewrite xrun_app in Hviol. pose proof (x_viol_run_mono_e cis ops2 (xrun n cis ops1) Ha2). lia. }
  exists s1, hs1, hist1. split; [exact E1|].
  destruct (history_brackets_ext typed n cis ops1 s1 hs1 hist1 Hok Hlok Ha1 E1 Hv1 Hb1) as (A & B).
  split; [exact A|]. split; [exact B|]. intros s' r Htd.
  exact (history_teardown_ext typed n cis ops1 s1 hs1 hist1 s' r Hok Hlok Ha1 E1 Hv1 Hb1 Htd).
Qed.
