(* The invariant relating a Skeleton state to the liveness specification (C01), and its preservation by the
   primitives: id creation, archetype insertion, swap-removal, id release. *)
Require Import Coq.Lists.List Coq.NArith.NArith Coq.Arith.Arith Coq.Bool.Bool Coq.micromega.Lia.
From Mustache Require Import Res Skeleton SkelSpec.
From Mustache.proofs Require Import ListLemmas SkelBasics.
Import ListNotations.

Definition hnd (hs : list handle) (k : nat) : handle := nth k hs null_handle.
Definition W (s : st) : list N := walk (empty_slots s) (next_slot s) (slots s).
Definition alive (al : list (nat * N)) (k : nat) : Prop := In k (map fst al).
Definition pend (rem : list scmd) (k : nat) : Prop := exists key, In (SCreate k key) rem.

Definition live_at (s : st) (h : handle) (key : N) : Prop :=
  ~ In (fst h) (W s) /\
  nth_error (slots s) (N.to_nat (fst h)) = Some {| s_id := fst h; s_ver := snd h |} /\
  exists ai idx a, nth_error (locs s) (N.to_nat (fst h)) = Some {| l_arch := Some ai; l_idx := idx |} /\
                   nth_error (archs s) ai = Some a /\ a_key a = key /\ nth_error (a_ents a) idx = Some h.
Definition dead_at (s : st) (h : handle) : Prop :=
  exists sl, nth_error (slots s) (N.to_nat (fst h)) = Some sl /\ (snd h < s_ver sl)%N.
Definition gap (s : st) (i : nat) : Prop :=
  nth_error (slots s) i = Some null_slot /\ ~ In (N.of_nat i) (W s).
Definition pend_at (s : st) (h : handle) : Prop :=
  length (slots s) <= N.to_nat (fst h) \/ gap s (N.to_nat (fst h)).

(* E exempts positions of archetype entity lists from the membership clause (used only inside clearArchetype's loop,
   where the list still holds the entities already released); G is the invariant proper *)
Record GE (E : nat -> nat -> Prop) (s : st) (hs : list handle) (al : list (nat * N)) (rem : list scmd) : Prop := {
  g_len : length (locs s) = length (slots s);
  g_free_nodup : NoDup (W s);
  g_free_range : forall i, In i (W s) -> N.to_nat i < length (slots s);
  g_free_ver : forall i sl, In i (W s) -> nth_error (slots s) (N.to_nat i) = Some sl -> (s_ver sl < NULL_VER)%N;
  g_hs_ver : forall h, In h hs -> (snd h < NULL_VER)%N;
  g_hs_id : forall h, In h hs -> (fst h < NULL_ID)%N;
  g_hs_nodup : NoDup hs;
  g_al_nodup : NoDup (map fst al);
  g_alive : forall k key, In (k, key) al -> k < length hs /\ live_at s (hnd hs k) key;
  g_dead : forall k, k < length hs -> ~ alive al k -> ~ pend rem k -> dead_at s (hnd hs k);
  g_pend : forall k, pend rem k -> k < length hs /\ ~ alive al k /\ snd (hnd hs k) = 0%N /\ pend_at s (hnd hs k) /\
           (forall k', k' < length hs -> k' <> k -> fst (hnd hs k') <> fst (hnd hs k));
  g_slots : forall i, i < length (slots s) ->
            In (N.of_nat i) (W s) \/ (exists k key, In (k, key) al /\ fst (hnd hs k) = N.of_nat i) \/ gap s i;
  g_arch_keys : NoDup (map a_key (archs s));
  g_arch_members : forall ai a idx h, ~ E ai idx -> nth_error (archs s) ai = Some a -> nth_error (a_ents a) idx = Some h ->
                   exists k, In (k, a_key a) al /\ k < length hs /\ hnd hs k = h /\
                             nth_error (locs s) (N.to_nat (fst h)) = Some {| l_arch := Some ai; l_idx := idx |};
  (* every earlier version of an id was issued as a handle: versions are bounded by the number of handles issued *)
  g_hist : forall i sl v, nth_error (slots s) i = Some sl -> sl <> null_slot -> (v < s_ver sl)%N -> In (N.of_nat i, v) hs
}.
Definition noex : nat -> nat -> Prop := fun _ _ => False.
Notation G := (GE noex).
Arguments g_len {E s hs al rem}. Arguments g_free_nodup {E s hs al rem}. Arguments g_free_range {E s hs al rem}.
Arguments g_free_ver {E s hs al rem}. Arguments g_hs_ver {E s hs al rem}. Arguments g_hs_id {E s hs al rem}.
Arguments g_hs_nodup {E s hs al rem}. Arguments g_al_nodup {E s hs al rem}. Arguments g_alive {E s hs al rem}.
Arguments g_dead {E s hs al rem}. Arguments g_pend {E s hs al rem}. Arguments g_slots {E s hs al rem}.
Arguments g_arch_keys {E s hs al rem}. Arguments g_arch_members {E s hs al rem}. Arguments g_hist {E s hs al rem}.
Lemma noex_no ai idx : ~ noex ai idx. Proof. intros []. Qed.

(* ---- what the invariant says about validity ---- *)
Lemma nth_In_hnd hs k : k < length hs -> In (hnd hs k) hs.
Proof. intros H. apply nth_In. assumption. Qed.

Lemma alive_dec al k : {alive al k} + {~ alive al k}.
Proof. apply in_dec. apply Nat.eq_dec. Qed.

Lemma alive_b_iff sp k : alive_b sp k = true <-> alive (sp_alive sp) k.
Proof.
  unfold alive_b, alive. rewrite existsb_exists, in_map_iff. split.
  - intros (p & Hp & E). apply Nat.eqb_eq in E. exists p. auto.
  - intros (p & E & Hp). exists p. split; [assumption|apply Nat.eqb_eq; assumption].
Qed.

Lemma pend_dec rem k : pend rem k \/ ~ pend rem k.
Proof.
  unfold pend. induction rem as [|c t IH]; [right; intros (key & [])|].
  destruct IH as [(key & Hin)|Hn']; [left; exists key; right; assumption|].
  destruct c as [k' key'|k'|k'].
  - destruct (Nat.eq_dec k' k) as [->|Hne]; [left; exists key'; left; reflexivity|].
    right. intros (key & [E|Hin]); [inversion E; congruence|apply Hn'; exists key; assumption].
  - right. intros (key & [E|Hin]); [discriminate|apply Hn'; exists key; assumption].
  - right. intros (key & [E|Hin]); [discriminate|apply Hn'; exists key; assumption].
Qed.

Theorem G_valid {X} s hs al rem k : GE X s hs al rem -> k < length hs ->
  is_valid s (hnd hs k) = true <-> alive al k.
Proof.
  intros HG Hk. pose proof (g_hs_ver HG _ (nth_In_hnd hs k Hk)) as Hv.
  destruct (hnd hs k) as [i v] eqn:Eh. simpl in Hv. rewrite is_valid_spec by assumption. split.
  - intros H. destruct (alive_dec al k) as [Ha|Hn]; [assumption|exfalso].
    destruct (nth_error (slots s) (N.to_nat i)) as [sl|] eqn:Es; [|discriminate]. apply N.eqb_eq in H.
    (* not alive: dead (slot version larger) or pending (beyond the table or a gap) *)
    destruct (pend_dec rem k) as [Hp|Hp].
    + destruct (g_pend HG k Hp) as (_ & _ & Hz & [Hlen|(Hgap & _)] & _); rewrite Eh in *; simpl in *.
      * assert (N.to_nat i < length (slots s)) by (apply nth_error_Some; congruence). lia.
      * rewrite Es in Hgap. inversion Hgap; subst sl. simpl in H. unfold NULL_VER in *. lia.
    + destruct (g_dead HG k Hk Hn Hp) as (sl' & Es' & Hlt). rewrite Eh in *. simpl in *. rewrite Es in Es'. inversion Es'; subst. lia.
  - intros Ha. unfold alive in Ha. apply in_map_iff in Ha. destruct Ha as ((k', key) & E & Hin). simpl in E. subst k'.
    destruct (g_alive HG k key Hin) as (_ & _ & Hs & _). rewrite Eh in Hs. simpl in Hs. rewrite Hs. simpl. apply N.eqb_refl.
Qed.

(* ------------------------------------------------------------------------------------------ *)
(* facts about live handles *)
Lemma live_ids_distinct {X} s hs al rem k1 key1 k2 key2 :
  GE X s hs al rem -> In (k1, key1) al -> In (k2, key2) al -> fst (hnd hs k1) = fst (hnd hs k2) -> k1 = k2.
Proof.
  intros HG H1 H2 E.
  destruct (g_alive HG k1 key1 H1) as (L1 & _ & S1 & _).
  destruct (g_alive HG k2 key2 H2) as (L2 & _ & S2 & _).
  rewrite E in S1. rewrite S1 in S2. inversion S2 as [[E1 E2]].
  assert (Eh : hnd hs k1 = hnd hs k2) by (destruct (hnd hs k1), (hnd hs k2); simpl in *; congruence).
  unfold hnd in Eh. eapply (proj1 (NoDup_nth hs null_handle)); [exact (g_hs_nodup HG)|assumption|assumption|exact Eh].
Qed.

Lemma hnd_inj {X} s hs al rem k1 k2 : GE X s hs al rem -> k1 < length hs -> k2 < length hs -> hnd hs k1 = hnd hs k2 -> k1 = k2.
Proof. intros HG H1 H2 E. eapply (proj1 (NoDup_nth hs null_handle)); [exact (g_hs_nodup HG)| | |]; assumption. Qed.

Lemma live_not_null {X} s hs al rem k key : GE X s hs al rem -> In (k, key) al ->
  nth_error (slots s) (N.to_nat (fst (hnd hs k))) <> Some null_slot.
Proof.
  intros HG H. destruct (g_alive HG k key H) as (L & _ & S & _). rewrite S. intros E. inversion E as [[E1 E2]].
  pose proof (g_hs_ver HG _ (nth_In_hnd hs k L)). rewrite E2 in H0. unfold NULL_VER in H0. lia.
Qed.

Definition kill_in al k k' key : In (k', key) (kill al k) <-> In (k', key) al /\ k' <> k.
Proof. unfold kill. rewrite filter_In. simpl. rewrite negb_true_iff, Nat.eqb_neq. tauto. Qed.

Lemma kill_alive al k k' : alive (kill al k) k' <-> alive al k' /\ k' <> k.
Proof.
  unfold alive. rewrite !in_map_iff. split.
  - intros ((a, b) & E & H). simpl in E. subst. apply kill_in in H. destruct H. split; [exists (k', b); auto|assumption].
  - intros (((a, b) & E & H) & Hne). simpl in E. subst. exists (k', b). split; [reflexivity|apply kill_in; auto].
Qed.

Lemma kill_nodup al k : NoDup (map fst al) -> NoDup (map fst (kill al k)).
Proof.
  unfold kill. induction al as [|[a b] t IH]; simpl; intros H; [constructor|]. inversion H; subst.
  destruct (negb (Nat.eqb a k)); simpl; [|apply IH; assumption]. constructor; [|apply IH; assumption].
  intros Hin. apply H2. apply in_map_iff in Hin. destruct Hin as (p & E & Hp). apply filter_In in Hp. apply in_map_iff. exists p. tauto.
Qed.

(* the free list after pushing id i (not in the list) in front *)
Lemma walk_push s i v nxt :
  ~ In i (W s) -> N.to_nat i < length (slots s) ->
  (nxt = match empty_slots s with O => (i + 1)%N | S _ => next_slot s end) ->
  walk (S (empty_slots s)) i (upd (slots s) (N.to_nat i) {| s_id := nxt; s_ver := v |}) = i :: W s.
Proof.
  intros Hni Hlt Hn. rewrite walk_S. rewrite nth_error_upd_same by assumption. simpl. f_equal.
  unfold W in *. destruct (empty_slots s) as [|e] eqn:Ee; [reflexivity|]. subst nxt.
  apply walk_upd. intros j Hj E. apply Hni. replace i with j; [assumption|]. apply N2Nat.inj. assumption.
Qed.

(* ------------------------------------------------------------------------------------------ *)
(* an alive entity k = (i, v) leaves its archetype and its id is pushed on the free list *)
Lemma G_remove s s' hs al rem k key i v ai idx a ents' :
  G s hs al rem -> In (k, key) al -> hnd hs k = (i, v) -> (v + 1 < NULL_VER)%N ->
  nth_error (locs s) (N.to_nat i) = Some {| l_arch := Some ai; l_idx := idx |} ->
  nth_error (archs s) ai = Some a -> nth_error (a_ents a) idx = Some (i, v) ->
  slots s' = upd (slots s) (N.to_nat i)
                 {| s_id := match empty_slots s with O => (i + 1)%N | S _ => next_slot s end; s_ver := (v + 1)%N |} ->
  next_slot s' = i -> empty_slots s' = S (empty_slots s) ->
  archs s' = upd (archs s) ai {| a_key := a_key a; a_ents := ents' |} ->
  length (locs s') = length (locs s) ->
  (forall idx' h', nth_error ents' idx' = Some h' ->
     h' <> (i, v) /\ In h' (a_ents a) /\ nth_error (locs s') (N.to_nat (fst h')) = Some {| l_arch := Some ai; l_idx := idx' |}) ->
  (forall h', In h' (a_ents a) -> h' <> (i, v) -> In h' ents') ->
  (forall j, (forall h', In h' (a_ents a) -> N.to_nat (fst h') <> j) -> nth_error (locs s') j = nth_error (locs s) j) ->
  G s' hs (kill al k) rem.
Proof.
  intros HG Hk Eh Hnw Hloc Harch Hent Eslots Enext Eempty Earchs Elen Hnew Hkeep Hother.
  destruct (g_alive HG k key Hk) as (Hklt & HnW & Hslot & _). rewrite Eh in HnW, Hslot. simpl in HnW, Hslot.
  assert (Hi : N.to_nat i < length (slots s)) by (apply nth_error_Some; congruence).
  assert (Hai : ai < length (archs s)) by (apply nth_error_Some; congruence).
  assert (EW : W s' = i :: W s).
  { unfold W at 1. rewrite Eslots, Enext, Eempty. apply walk_push; auto. }
  (* the member (i,v) occurs in a only at idx, and members of a belong to alive handles located in ai *)
  assert (Hmem : forall h', In h' (a_ents a) -> exists k' idx', In (k', a_key a) al /\ k' < length hs /\ hnd hs k' = h' /\
                    nth_error (locs s) (N.to_nat (fst h')) = Some {| l_arch := Some ai; l_idx := idx' |}).
  { intros h' Hin. apply In_nth_error in Hin. destruct Hin as (idx' & Hn).
    destruct (g_arch_members HG ai a idx' h' (noex_no _ _) Harch Hn) as (k' & A & B & C & D). exists k', idx'. auto. }
  (* a handle with id i among the alive ones is k *)
  assert (Hid : forall k' key', In (k', key') al -> fst (hnd hs k') = i -> k' = k).
  { intros k' key' Hin E. eapply (live_ids_distinct s hs al rem); eauto. rewrite Eh. exact E. }
  constructor.
  - rewrite Elen, Eslots, upd_length. apply (g_len HG).
  - rewrite EW. constructor; [assumption|apply (g_free_nodup HG)].
  - intros j Hj. rewrite EW in Hj. rewrite Eslots, upd_length. destruct Hj as [<-|Hj]; [assumption|apply (g_free_range HG); assumption].
  - intros j sl Hj Hs. rewrite EW in Hj. rewrite Eslots in Hs. destruct (N.eq_dec j i) as [->|Hne].
    + rewrite nth_error_upd_same in Hs by assumption. inversion Hs; subst sl. simpl. assumption.
    + destruct Hj as [E|Hj]; [congruence|]. rewrite nth_error_upd_other in Hs by (intros E; apply Hne; apply N2Nat.inj; auto).
      eapply (g_free_ver HG); eassumption.
  - apply (g_hs_ver HG).
  - apply (g_hs_id HG).
  - apply (g_hs_nodup HG).
  - apply kill_nodup. apply (g_al_nodup HG).
  - (* alive *)
    intros k' key' Hin. apply kill_in in Hin. destruct Hin as (Hin & Hne).
    destruct (g_alive HG k' key' Hin) as (Hk'lt & HnW' & Hslot' & ai' & idx' & a' & Hloc' & Harch' & Hkey' & Hent').
    split; [assumption|].
    assert (Hne_i : fst (hnd hs k') <> i) by (intros E; apply Hne; eapply Hid; eauto).
    split; [rewrite EW; intros [E|E]; [congruence|contradiction]|].
    split; [rewrite Eslots, nth_error_upd_other by (intros E; apply Hne_i; apply N2Nat.inj; auto); assumption|].
    destruct (Nat.eq_dec ai' ai) as [->|Hnai].
    + (* same archetype: it survives in ents' *)
      rewrite Harch in Harch'. inversion Harch'; subst a'.
      assert (Hin' : In (hnd hs k') ents').
      { apply Hkeep; [eapply nth_error_In; eassumption|]. intros E. apply Hne_i. rewrite E. reflexivity. }
      apply In_nth_error in Hin'. destruct Hin' as (idx'' & Hn'').
      destruct (Hnew idx'' _ Hn'') as (_ & _ & Hl'').
      exists ai, idx'', {| a_key := a_key a; a_ents := ents' |}. rewrite Earchs. rewrite nth_error_upd_same by assumption. simpl. auto.
    + (* another archetype: untouched *)
      exists ai', idx', a'. rewrite Earchs. rewrite nth_error_upd_other by congruence. split; [|auto].
      rewrite Hother; [assumption|]. intros h' Hh' E.
      destruct (Hmem h' Hh') as (k'' & idx'' & A & B & C & D).
      (* h' is alive with the same id as k': it is k', hence k' sits in ai *)
      assert (k'' = k').
      { eapply (live_ids_distinct s hs al rem); eauto. rewrite C. apply N2Nat.inj. assumption. }
      subst k''. rewrite <- C in D. rewrite D in Hloc'. inversion Hloc'. congruence.
  - (* dead *)
    intros k' Hk'lt Hna Hnp. unfold dead_at. destruct (Nat.eq_dec k' k) as [->|Hne].
    + rewrite Eh. exists {| s_id := match empty_slots s with O => (i + 1)%N | S _ => next_slot s end; s_ver := (v + 1)%N |}. simpl.
      rewrite Eslots, nth_error_upd_same by assumption. split; [reflexivity|lia].
    + assert (Hna' : ~ alive al k') by (intros Ha; apply Hna; apply kill_alive; auto).
      destruct (g_dead HG k' Hk'lt Hna' Hnp) as (sl & Hs & Hlt). unfold dead_at in *. rewrite Eslots.
      destruct (Nat.eq_dec (N.to_nat i) (N.to_nat (fst (hnd hs k')))) as [E|E].
      * rewrite <- E in Hs |- *. rewrite Hslot in Hs. inversion Hs; subst sl. simpl in Hlt.
        eexists. rewrite nth_error_upd_same by assumption. split; [reflexivity|]. simpl. lia.
      * exists sl. rewrite nth_error_upd_other by assumption. auto.
  - (* pending *)
    intros k' Hp. destruct (g_pend HG k' Hp) as (A & B & C & D & U). split; [assumption|]. split; [intros Ha; apply kill_alive in Ha; tauto|]. split; [assumption|].
    split; [|assumption].
    unfold pend_at, gap in *. rewrite Eslots, upd_length, EW. destruct D as [D|(D1 & D2)]; [left; assumption|right].
    assert (Hne : N.to_nat (fst (hnd hs k')) <> N.to_nat i).
    { intros E. rewrite E in D1. rewrite Hslot in D1. inversion D1 as [[E1 E2]]. unfold NULL_VER in *. lia. }
    split; [rewrite nth_error_upd_other by congruence; assumption|].
    intros [E|E]; [apply Hne; rewrite E, Nat2N.id; reflexivity|contradiction].
  - (* every slot *)
    intros j Hj. rewrite Eslots, upd_length in Hj. unfold gap in *. rewrite EW.
    destruct (Nat.eq_dec j (N.to_nat i)) as [->|Hne]; [left; left; rewrite N2Nat.id; reflexivity|].
    destruct (g_slots HG j Hj) as [H|[(k' & key' & Hin & E)|(H1 & H2)]].
    + left. right. assumption.
    + right. left. exists k', key'. split; [|assumption]. apply kill_in. split; [assumption|]. intros ->. rewrite Eh in E. simpl in E. apply Hne. rewrite E, Nat2N.id. reflexivity.
    + right. right. split; [rewrite Eslots, nth_error_upd_other by congruence; assumption|].
      intros [E|E]; [apply Hne; rewrite E, Nat2N.id; reflexivity|contradiction].
  - (* archetype keys *)
    rewrite Earchs. assert (E : map a_key (upd (archs s) ai {| a_key := a_key a; a_ents := ents' |}) = map a_key (archs s)).
    { clear - Harch. revert ai Harch. induction (archs s) as [|x t IH]; intros [|n] H; simpl in *; try discriminate; [inversion H; subst; reflexivity|].
      f_equal. apply IH. assumption. }
    rewrite E. apply (g_arch_keys HG).
  - (* members of every archetype *)
    intros ai' a' idx' h' _ Ha' Hh'. rewrite Earchs in Ha'.
    destruct (Nat.eq_dec ai ai') as [<-|Hnai].
    + rewrite nth_error_upd_same in Ha' by assumption. inversion Ha'; subst a'. simpl in *.
      destruct (Hnew idx' h' Hh') as (Hne & Hin & Hl).
      destruct (Hmem h' Hin) as (k' & idx'' & A & B & C & D). exists k'. split; [|auto].
      apply kill_in. split; [assumption|]. intros ->. apply Hne. congruence.
    + rewrite nth_error_upd_other in Ha' by assumption.
      destruct (g_arch_members HG ai' a' idx' h' (noex_no _ _) Ha' Hh') as (k' & A & B & C & D). exists k'.
      assert (Hnk : k' <> k).
      { intros ->. rewrite Eh in C. subst h'. simpl in D. rewrite Hloc in D. inversion D. congruence. }
      split; [apply kill_in; auto|]. split; [assumption|]. split; [assumption|].
      rewrite Hother; [assumption|]. intros h'' Hh'' E.
      destruct (Hmem h'' Hh'') as (k'' & idx'' & A' & B' & C' & D').
      assert (k'' = k').
      { eapply (live_ids_distinct s hs al rem); eauto. rewrite C', C. apply N2Nat.inj. assumption. }
      subst k''. rewrite <- C' in D'. rewrite <- C in D. rewrite D' in D. inversion D. congruence.
  - (* history of versions *)
    intros j sl w Hs Hnn Hw. rewrite Eslots in Hs. destruct (Nat.eq_dec (N.to_nat i) j) as [<-|Hne].
    + rewrite nth_error_upd_same in Hs by assumption. inversion Hs; subst sl. simpl in Hw. rewrite N2Nat.id.
      destruct (N.eq_dec w v) as [->|Hwv].
      * rewrite <- Eh. apply nth_In_hnd. assumption.
      * rewrite <- (N2Nat.id i). apply (g_hist HG (N.to_nat i) _ w Hslot); [|simpl; lia].
        intros E. inversion E as [[E1 E2]]. pose proof (g_hs_ver HG _ (nth_In_hnd hs k Hklt)) as Hb. rewrite Eh in Hb. simpl in Hb. unfold NULL_VER in *. lia.
    + rewrite nth_error_upd_other in Hs by assumption. eapply (g_hist HG); eassumption.
Qed.

(* ------------------------------------------------------------------------------------------ *)
Lemma hnd_app1 hs h k : k < length hs -> hnd (hs ++ [h]) k = hnd hs k.
Proof. intros H. unfold hnd. apply app_nth1. assumption. Qed.
Lemma hnd_app_last hs h : hnd (hs ++ [h]) (length hs) = h.
Proof. unfold hnd. rewrite app_nth2 by lia. rewrite Nat.sub_diag. reflexivity. Qed.
Lemma hnd_beyond hs k : length hs <= k -> hnd hs k = null_handle.
Proof. intros H. unfold hnd. apply nth_overflow. assumption. Qed.
Lemma In_hnd hs h : In h hs -> exists k, k < length hs /\ hnd hs k = h.
Proof. intros H. destruct (In_nth hs h null_handle H) as (k & A & B). exists k. auto. Qed.

Lemma map_key_upd l ai a ents : nth_error l ai = Some a ->
  map a_key (upd l ai {| a_key := a_key a; a_ents := ents |}) = map a_key l.
Proof.
  revert ai. induction l as [|x t IH]; intros [|n] H; simpl in *; try discriminate; [inversion H; subst; reflexivity|].
  f_equal. apply IH. assumption.
Qed.

(* versions are bounded by the number of handles issued *)
Require Import Coq.Logic.FinFun.
Lemma ver_le_count {X} s hs al rem i sl : GE X s hs al rem -> nth_error (slots s) i = Some sl -> sl <> null_slot ->
  (s_ver sl <= N.of_nat (length hs))%N.
Proof.
  intros HG Hs Hn.
  set (l := map (fun v => (N.of_nat i, N.of_nat v)) (seq 0 (N.to_nat (s_ver sl)))).
  assert (Hnd : NoDup l).
  { apply Injective_map_NoDup; [|apply seq_NoDup]. intros a b E. inversion E. apply Nat2N.inj. assumption. }
  assert (Hincl : incl l hs).
  { intros p Hp. unfold l in Hp. apply in_map_iff in Hp. destruct Hp as (v & <- & Hv). apply in_seq in Hv.
    apply (g_hist HG i sl); [assumption|assumption|lia]. }
  pose proof (NoDup_incl_length Hnd Hincl) as Hl. unfold l in Hl. rewrite map_length, seq_length in Hl. rewrite <- (N2Nat.id (s_ver sl)). unfold N.le. rewrite <- Nat2N.inj_compare. apply Nat.compare_le_iff. exact Hl.
Qed.

(* a new entity (i, v) becomes alive in archetype ai; no commands are pending *)
Lemma G_add s s' hs al i v ai a key :
  G s hs al [] ->
  length (locs s') = length (slots s') -> length (slots s) <= length (slots s') ->
  nth_error (slots s') (N.to_nat i) = Some {| s_id := i; s_ver := v |} ->
  (forall j, j <> N.to_nat i -> nth_error (slots s') j = nth_error (slots s) j) ->
  NoDup (W s') -> (forall j, In j (W s') <-> In j (W s) /\ j <> i) ->
  (forall k, k < length hs -> fst (hnd hs k) = i -> (snd (hnd hs k) < v)%N /\ ~ alive al k) ->
  nth_error (archs s) ai = Some a -> a_key a = key ->
  archs s' = upd (archs s) ai {| a_key := a_key a; a_ents := a_ents a ++ [(i, v)] |} ->
  nth_error (locs s') (N.to_nat i) = Some {| l_arch := Some ai; l_idx := length (a_ents a) |} ->
  (forall j, j <> N.to_nat i -> nth_error (locs s') j = nth_error (locs s) j) ->
  (v < NULL_VER)%N -> (i < NULL_ID)%N -> (forall w, (w < v)%N -> In (i, w) hs) ->
  G s' (hs ++ [(i, v)]) (al ++ [(length hs, key)]) [].
Proof.
  intros HG A1 A10 A2 A3 A4n A4 A5 Harch Hkey A6 A7 A7o A8v A8i A9.
  assert (Hai : ai < length (archs s)) by (apply nth_error_Some; congruence).
  assert (Hfresh : forall k key', In (k, key') al -> fst (hnd hs k) <> i).
  { intros k key' Hin E. destruct (g_alive HG k key' Hin) as (Hlt & _). destruct (A5 k Hlt E) as (_ & Hna). apply Hna.
    unfold alive. apply in_map_iff. exists (k, key'). auto. }
  assert (Hnat : forall x, x <> i -> N.to_nat x <> N.to_nat i) by (intros x Hx E; apply Hx; apply N2Nat.inj; assumption).
  constructor.
  - assumption.
  - assumption.
  - intros j Hj. apply A4 in Hj. destruct Hj as (Hj & _). pose proof (g_free_range HG j Hj). lia.
  - intros j sl Hj Hs. apply A4 in Hj. destruct Hj as (Hj & Hne). rewrite A3 in Hs by (apply Hnat; assumption). eapply (g_free_ver HG); eassumption.
  - intros h Hin. apply in_app_or in Hin. destruct Hin as [Hin|[<-|[]]]; [apply (g_hs_ver HG); assumption|assumption].
  - intros h Hin. apply in_app_or in Hin. destruct Hin as [Hin|[<-|[]]]; [apply (g_hs_id HG); assumption|assumption].
  - apply NoDup_app_intro_single; [apply (g_hs_nodup HG)|]. intros Hin. apply In_hnd in Hin. destruct Hin as (k & Hk & E).
    destruct (A5 k Hk) as (Hlt & _); [rewrite E; reflexivity|]. rewrite E in Hlt. simpl in Hlt. lia.
  - rewrite map_app. simpl. apply NoDup_app_intro_single; [apply (g_al_nodup HG)|]. intros Hin. apply in_map_iff in Hin.
    destruct Hin as ((k, key') & E & Hin). simpl in E. subst k. destruct (g_alive HG _ _ Hin) as (Hlt & _). lia.
  - (* alive *)
    intros k key' Hin. apply in_app_or in Hin. destruct Hin as [Hin|[E|[]]].
    + destruct (g_alive HG k key' Hin) as (Hklt & HnW & Hslot & ai' & idx' & a' & Hloc' & Harch' & Hkey' & Hent').
      rewrite app_length. split; [lia|]. rewrite hnd_app1 by assumption.
      pose proof (Hfresh k key' Hin) as Hne.
      split; [intros Hw; apply A4 in Hw; tauto|]. split; [rewrite A3 by (apply Hnat; assumption); assumption|].
      destruct (Nat.eq_dec ai' ai) as [->|Hnai].
      * rewrite Harch in Harch'. inversion Harch'; subst a'.
        exists ai, idx', {| a_key := a_key a; a_ents := a_ents a ++ [(i, v)] |}.
        rewrite A7o by (apply Hnat; assumption). rewrite A6, nth_error_upd_same by assumption. simpl.
        repeat split; try assumption. rewrite nth_error_app1; [assumption|]. apply nth_error_Some. congruence.
      * exists ai', idx', a'. rewrite A7o by (apply Hnat; assumption). rewrite A6, nth_error_upd_other by congruence. auto.
    + inversion E; subst k key'. rewrite app_length. simpl. split; [lia|]. rewrite hnd_app_last. simpl.
      split; [intros Hw; apply A4 in Hw; tauto|]. split; [assumption|].
      exists ai, (length (a_ents a)), {| a_key := a_key a; a_ents := a_ents a ++ [(i, v)] |}.
      rewrite A6, nth_error_upd_same by assumption. simpl. repeat split; try assumption. apply nth_error_app_last.
  - (* dead *)
    intros k Hk Hna _. rewrite app_length in Hk. simpl in Hk.
    destruct (Nat.eq_dec k (length hs)) as [->|Hne].
    + exfalso. apply Hna. unfold alive. rewrite map_app. apply in_or_app. right. left. reflexivity.
    + assert (Hk' : k < length hs) by lia. rewrite hnd_app1 by assumption.
      assert (Hna' : ~ alive al k).
      { intros Ha. apply Hna. unfold alive in *. rewrite map_app. apply in_or_app. left. assumption. }
      assert (Hnp : ~ pend [] k) by (intros (key' & [])).
      destruct (g_dead HG k Hk' Hna' Hnp) as (sl & Hs & Hlt). unfold dead_at.
      destruct (N.eq_dec (fst (hnd hs k)) i) as [E|E].
      * exists {| s_id := i; s_ver := v |}. rewrite E. split; [assumption|]. simpl. apply (A5 k Hk' E).
      * exists sl. rewrite A3 by (apply Hnat; assumption). auto.
  - intros k (key' & []).
  - (* every slot *)
    intros j Hj. destruct (Nat.eq_dec j (N.to_nat i)) as [->|Hne].
    + right. left. exists (length hs), key. split; [apply in_or_app; right; left; reflexivity|]. rewrite hnd_app_last. simpl. rewrite N2Nat.id. reflexivity.
    + assert (Hj' : j < length (slots s)).
      { apply nth_error_Some. rewrite <- A3 by assumption. apply nth_error_Some. assumption. }
      assert (Hji : N.of_nat j <> i) by (intros E; apply Hne; rewrite <- E, Nat2N.id; reflexivity).
      destruct (g_slots HG j Hj') as [H|[(k & key' & Hin & E)|(H1 & H2)]].
      * left. apply A4. auto.
      * right. left. exists k, key'. split; [apply in_or_app; left; assumption|]. destruct (g_alive HG k key' Hin) as (Hlt & _). rewrite hnd_app1 by assumption. assumption.
      * right. right. split; [rewrite A3 by assumption; assumption|]. intros Hw. apply A4 in Hw. tauto.
  - rewrite A6, map_key_upd by assumption. apply (g_arch_keys HG).
  - (* members *)
    intros ai' a' idx' h' _ Ha' Hh'. rewrite A6 in Ha'.
    destruct (Nat.eq_dec ai ai') as [<-|Hnai].
    + rewrite nth_error_upd_same in Ha' by assumption. inversion Ha'; subst a'. simpl in *.
      destruct (Nat.lt_ge_cases idx' (length (a_ents a))) as [Hlt|Hge].
      * rewrite nth_error_app1 in Hh' by assumption.
        destruct (g_arch_members HG ai a idx' h' (noex_no _ _) Harch Hh') as (k & A & B & C & D).
        exists k. rewrite app_length, hnd_app1 by assumption. split; [apply in_or_app; left; assumption|]. split; [lia|]. split; [assumption|].
        rewrite A7o; [assumption|]. apply Hnat. rewrite <- C. eapply Hfresh; eassumption.
      * assert (idx' = length (a_ents a)).
        { assert (idx' < length (a_ents a ++ [(i, v)])) by (apply nth_error_Some; congruence). rewrite app_length in H. simpl in H. lia. }
        subst idx'. rewrite nth_error_app_last in Hh'. inversion Hh'; subst h'.
        exists (length hs). rewrite app_length, hnd_app_last. simpl. split; [apply in_or_app; right; left; rewrite Hkey; reflexivity|]. split; [lia|]. split; [reflexivity|assumption].
    + rewrite nth_error_upd_other in Ha' by assumption.
      destruct (g_arch_members HG ai' a' idx' h' (noex_no _ _) Ha' Hh') as (k & A & B & C & D).
      exists k. rewrite app_length, hnd_app1 by assumption. split; [apply in_or_app; left; assumption|]. split; [lia|]. split; [assumption|].
      rewrite A7o; [assumption|]. apply Hnat. rewrite <- C. eapply Hfresh; eassumption.
  - (* history *)
    intros j sl w Hs Hnn Hw. apply in_or_app. destruct (Nat.eq_dec j (N.to_nat i)) as [->|Hne].
    + rewrite A2 in Hs. inversion Hs; subst sl. simpl in Hw. left. rewrite N2Nat.id. apply A9. assumption.
    + left. rewrite A3 in Hs by assumption. eapply (g_hist HG); eassumption.
Qed.

(* the invariant reads only the structural fields of the state *)
Lemma G_same_core {X} s s' hs al rem :
  slots s' = slots s -> locs s' = locs s -> next_slot s' = next_slot s -> empty_slots s' = empty_slots s -> archs s' = archs s ->
  GE X s hs al rem -> GE X s' hs al rem.
Proof.
  intros E1 E2 E3 E4 E5 HG. destruct HG. destruct s, s'. simpl in *. subst. constructor; assumption.
Qed.

(* without pending commands every issued id has a slot *)
Lemma ids_in_range {X} s hs al k : GE X s hs al [] -> k < length hs -> N.to_nat (fst (hnd hs k)) < length (slots s).
Proof.
  intros HG Hk. destruct (alive_dec al k) as [Ha|Hna].
  - unfold alive in Ha. apply in_map_iff in Ha. destruct Ha as ((k0, key) & E & Hin). simpl in E. subst k0.
    destruct (g_alive HG k key Hin) as (_ & _ & Hs & _). apply nth_error_Some. congruence.
  - assert (Hnp : ~ pend [] k) by (intros (key & [])).
    destruct (g_dead HG k Hk Hna Hnp) as (sl & Hs & _). apply nth_error_Some. congruence.
Qed.

(* a new archetype without members *)
Lemma G_new_arch s hs al rem key :
  G s hs al rem -> (forall a, In a (archs s) -> a_key a <> key) ->
  G (set_archs s (archs s ++ [{| a_key := key; a_ents := [] |}])) hs al rem.
Proof.
  intros HG Hnew. destruct HG. constructor; try assumption.
  - intros k key' Hin. destruct (g_alive0 k key' Hin) as (A & B & C & ai & idx & a & D & E & F & G0). split; [assumption|].
    split; [assumption|]. split; [assumption|]. exists ai, idx, a. simpl. rewrite nth_error_app1 by (apply nth_error_Some; congruence). auto.
  - simpl. rewrite map_app. simpl. apply NoDup_app_intro_single; [assumption|]. intros Hin. apply in_map_iff in Hin.
    destruct Hin as (a & E & Ha). apply (Hnew a Ha). assumption.
  - intros ai a idx h Hx Ha Hh. simpl in Ha. destruct (Nat.lt_ge_cases ai (length (archs s))) as [Hlt|Hge].
    + rewrite nth_error_app1 in Ha by assumption. apply (g_arch_members0 ai a idx h Hx Ha Hh).
    + rewrite nth_error_app2 in Ha by assumption. destruct (ai - length (archs s)) as [|n]; simpl in Ha.
      * inversion Ha; subst a. simpl in Hh. destruct idx; discriminate.
      * destruct n; discriminate.
Qed.

(* ------------------------------------------------------------------------------------------ *)
(* clearArchetype releases the ids of the members one by one while the entity list still holds them:
   positions below j of archetype ai are exempt from the membership clause *)
Definition exj (ai j : nat) : nat -> nat -> Prop := fun ai' idx => ai' = ai /\ idx < j.

Lemma G_release_member s s' hs al rem ai a j i v :
  GE (exj ai j) s hs al rem -> nth_error (archs s) ai = Some a -> nth_error (a_ents a) j = Some (i, v) ->
  (v + 1 < NULL_VER)%N ->
  slots s' = upd (slots s) (N.to_nat i)
                 {| s_id := match empty_slots s with O => (i + 1)%N | S _ => next_slot s end; s_ver := (v + 1)%N |} ->
  next_slot s' = i -> empty_slots s' = S (empty_slots s) -> archs s' = archs s ->
  length (locs s') = length (locs s) ->
  (forall x, x <> N.to_nat i -> nth_error (locs s') x = nth_error (locs s) x) ->
  exists k, hnd hs k = (i, v) /\ k < length hs /\ GE (exj ai (S j)) s' hs (kill al k) rem.
Proof.
  intros HG Harch Hent Hnw Eslots Enext Eempty Earchs Elen Hother.
  assert (Hnx : ~ exj ai j ai j) by (intros (_ & Hlt); lia).
  destruct (g_arch_members HG ai a j (i, v) Hnx Harch Hent) as (k & Hk & Hklt & Eh & Hloc). simpl in Hloc.
  exists k. split; [assumption|]. split; [assumption|].
  destruct (g_alive HG k (a_key a) Hk) as (_ & HnW & Hslot & _). rewrite Eh in HnW, Hslot. simpl in HnW, Hslot.
  assert (Hi : N.to_nat i < length (slots s)) by (apply nth_error_Some; congruence).
  assert (EW : W s' = i :: W s).
  { unfold W at 1. rewrite Eslots, Enext, Eempty. apply walk_push; auto. }
  assert (Hid : forall k' key', In (k', key') al -> fst (hnd hs k') = i -> k' = k).
  { intros k' key' Hin E. eapply (live_ids_distinct s hs al rem); eauto. rewrite Eh. exact E. }
  assert (Hnat : forall x, x <> i -> N.to_nat x <> N.to_nat i) by (intros x Hx E; apply Hx; apply N2Nat.inj; assumption).
  constructor.
  - rewrite Elen, Eslots, upd_length. apply (g_len HG).
  - rewrite EW. constructor; [assumption|apply (g_free_nodup HG)].
  - intros x Hx. rewrite EW in Hx. rewrite Eslots, upd_length. destruct Hx as [<-|Hx]; [assumption|apply (g_free_range HG); assumption].
  - intros x sl Hx Hs. rewrite EW in Hx. rewrite Eslots in Hs. destruct (N.eq_dec x i) as [->|Hne].
    + rewrite nth_error_upd_same in Hs by assumption. inversion Hs; subst sl. simpl. assumption.
    + destruct Hx as [E|Hx]; [congruence|]. rewrite nth_error_upd_other in Hs by (intros E; apply Hne; apply N2Nat.inj; auto).
      eapply (g_free_ver HG); eassumption.
  - apply (g_hs_ver HG).
  - apply (g_hs_id HG).
  - apply (g_hs_nodup HG).
  - apply kill_nodup. apply (g_al_nodup HG).
  - (* alive *)
    intros k' key' Hin. apply kill_in in Hin. destruct Hin as (Hin & Hne).
    destruct (g_alive HG k' key' Hin) as (Hk'lt & HnW' & Hslot' & ai' & idx' & a' & Hloc' & Harch' & Hkey' & Hent').
    split; [assumption|].
    assert (Hne_i : fst (hnd hs k') <> i) by (intros E; apply Hne; eapply Hid; eauto).
    split; [rewrite EW; intros [E|E]; [congruence|contradiction]|].
    split; [rewrite Eslots, nth_error_upd_other by (intros E; apply Hne_i; apply N2Nat.inj; auto); assumption|].
    exists ai', idx', a'. rewrite Earchs. rewrite Hother by (apply Hnat; assumption). auto.
  - (* dead *)
    intros k' Hk'lt Hna Hnp. unfold dead_at. destruct (Nat.eq_dec k' k) as [->|Hne].
    + rewrite Eh. exists {| s_id := match empty_slots s with O => (i + 1)%N | S _ => next_slot s end; s_ver := (v + 1)%N |}. simpl.
      rewrite Eslots, nth_error_upd_same by assumption. split; [reflexivity|lia].
    + assert (Hna' : ~ alive al k') by (intros Ha; apply Hna; apply kill_alive; auto).
      destruct (g_dead HG k' Hk'lt Hna' Hnp) as (sl & Hs & Hlt). unfold dead_at in *. rewrite Eslots.
      destruct (Nat.eq_dec (N.to_nat i) (N.to_nat (fst (hnd hs k')))) as [E|E].
      * rewrite <- E in Hs |- *. rewrite Hslot in Hs. inversion Hs; subst sl. simpl in Hlt.
        eexists. rewrite nth_error_upd_same by assumption. split; [reflexivity|]. simpl. lia.
      * exists sl. rewrite nth_error_upd_other by assumption. auto.
  - (* pending *)
    intros k' Hp. destruct (g_pend HG k' Hp) as (A & B & C & D & U). split; [assumption|]. split; [intros Ha; apply kill_alive in Ha; tauto|]. split; [assumption|].
    split; [|assumption].
    unfold pend_at, gap in *. rewrite Eslots, upd_length, EW. destruct D as [D|(D1 & D2)]; [left; assumption|right].
    assert (Hne : N.to_nat (fst (hnd hs k')) <> N.to_nat i).
    { intros E. rewrite E in D1. rewrite Hslot in D1. inversion D1 as [[E1 E2]]. unfold NULL_VER in *. lia. }
    split; [rewrite nth_error_upd_other by congruence; assumption|].
    intros [E|E]; [apply Hne; rewrite E, Nat2N.id; reflexivity|contradiction].
  - (* every slot *)
    intros x Hx. rewrite Eslots, upd_length in Hx. unfold gap in *. rewrite EW.
    destruct (Nat.eq_dec x (N.to_nat i)) as [->|Hne]; [left; left; rewrite N2Nat.id; reflexivity|].
    destruct (g_slots HG x Hx) as [H|[(k' & key' & Hin & E)|(H1 & H2)]].
    + left. right. assumption.
    + right. left. exists k', key'. split; [|assumption]. apply kill_in. split; [assumption|]. intros ->. rewrite Eh in E. simpl in E. apply Hne. rewrite E, Nat2N.id. reflexivity.
    + right. right. split; [rewrite Eslots, nth_error_upd_other by congruence; assumption|].
      intros [E|E]; [apply Hne; rewrite E, Nat2N.id; reflexivity|contradiction].
  - rewrite Earchs. apply (g_arch_keys HG).
  - (* members: position j of ai has just become exempt *)
    intros ai' a' idx' h' Hnx' Ha' Hh'. rewrite Earchs in Ha'.
    assert (Hnx0 : ~ exj ai j ai' idx') by (intros (E1 & E2); apply Hnx'; split; [assumption|lia]).
    destruct (g_arch_members HG ai' a' idx' h' Hnx0 Ha' Hh') as (k' & A & B & C & D).
    assert (Hnk : k' <> k).
    { intros ->. rewrite Eh in C. subst h'. simpl in D. rewrite Hloc in D. inversion D; subst. apply Hnx'. split; [reflexivity|lia]. }
    exists k'. split; [apply kill_in; auto|]. split; [assumption|]. split; [assumption|].
    rewrite Hother; [assumption|]. apply Hnat. rewrite <- C. intros E. apply Hnk. eapply Hid; eauto.
  - (* history of versions *)
    intros x sl w Hs Hnn Hw. rewrite Eslots in Hs. destruct (Nat.eq_dec (N.to_nat i) x) as [<-|Hne].
    + rewrite nth_error_upd_same in Hs by assumption. inversion Hs; subst sl. simpl in Hw. rewrite N2Nat.id.
      destruct (N.eq_dec w v) as [->|Hwv].
      * rewrite <- Eh. apply nth_In_hnd. assumption.
      * rewrite <- (N2Nat.id i). apply (g_hist HG (N.to_nat i) _ w Hslot); [|simpl; lia].
        intros E. inversion E as [[E1 E2]]. pose proof (g_hs_ver HG _ (nth_In_hnd hs k Hklt)) as Hb. rewrite Eh in Hb. simpl in Hb. unfold NULL_VER in *. lia.
    + rewrite nth_error_upd_other in Hs by assumption. eapply (g_hist HG); eassumption.
Qed.

(* no alive entity is located below position j of archetype ai *)
Definition nolive (s : st) (hs : list handle) (al : list (nat * N)) (ai j : nat) : Prop :=
  forall k key idx, In (k, key) al ->
    nth_error (locs s) (N.to_nat (fst (hnd hs k))) = Some {| l_arch := Some ai; l_idx := idx |} -> j <= idx.

(* exempt positions of an archetype whose entity list is emptied disappear *)
Lemma G_clear_list s hs al rem ai a :
  GE (exj ai (length (a_ents a))) s hs al rem -> nolive s hs al ai (length (a_ents a)) -> nth_error (archs s) ai = Some a ->
  G (set_archs s (upd (archs s) ai {| a_key := a_key a; a_ents := [] |})) hs al rem.
Proof.
  intros HG Hnl Harch. assert (Hai : ai < length (archs s)) by (apply nth_error_Some; congruence).
  destruct HG. constructor; try assumption.
  - intros k key Hin. destruct (g_alive0 k key Hin) as (A & B & C & ai' & idx & a' & D & E & F & G0). split; [assumption|].
    split; [assumption|]. split; [assumption|]. exists ai', idx, a'. simpl.
    destruct (Nat.eq_dec ai' ai) as [->|Hne]; [|rewrite nth_error_upd_other by congruence; auto].
    exfalso. rewrite Harch in E. inversion E; subst a'.
    assert (Hidx : idx < length (a_ents a)) by (apply nth_error_Some; congruence).
    pose proof (Hnl k key idx Hin D). lia.
  - simpl. rewrite map_key_upd by assumption. assumption.
  - intros ai' a' idx h _ Ha Hh. simpl in Ha. destruct (Nat.eq_dec ai ai') as [<-|Hne].
    + rewrite nth_error_upd_same in Ha by assumption. inversion Ha; subst a'. simpl in Hh. destruct idx; discriminate.
    + rewrite nth_error_upd_other in Ha by assumption.
      assert (Hnx : ~ exj ai (length (a_ents a)) ai' idx) by (intros (E1 & _); congruence).
      apply (g_arch_members0 ai' a' idx h Hnx Ha Hh).
Qed.

(* ------------------------------------------------------------------------------------------ *)
(* the invariant reads the remaining commands only through the set of pending creations *)
Lemma G_rem_ext {X} s hs al rem rem' : (forall k, pend rem' k <-> pend rem k) -> GE X s hs al rem -> GE X s hs al rem'.
Proof.
  intros Hp HG. constructor;
    [apply (g_len HG)|apply (g_free_nodup HG)|apply (g_free_range HG)|apply (g_free_ver HG)|apply (g_hs_ver HG)|apply (g_hs_id HG)
    |apply (g_hs_nodup HG)|apply (g_al_nodup HG)|apply (g_alive HG)| | |apply (g_slots HG)
    |apply (g_arch_keys HG)|apply (g_arch_members HG)|apply (g_hist HG)].
  - intros k Hk Hna Hnp. apply (g_dead HG k Hk Hna). intros Hp'. apply Hnp. apply Hp. assumption.
  - intros k Hpk. apply (g_pend HG k). apply Hp. assumption.
Qed.

(* a creation issued while locked: a new handle (i, 0) with a fresh id beyond the slot table, pending *)
Lemma G_add_pending s hs al rem rem' i :
  G s hs al rem -> length (slots s) <= N.to_nat i -> (forall h, In h hs -> fst h <> i) -> (i < NULL_ID)%N ->
  (forall k, pend rem' k <-> pend rem k \/ k = length hs) ->
  G s (hs ++ [(i, 0%N)]) al rem'.
Proof.
  intros HG Hi Hfresh Hid Hp.
  assert (Hold : forall k, pend rem k -> k < length hs) by (intros k Hk; apply (g_pend HG k Hk)).
  constructor.
  - apply (g_len HG).
  - apply (g_free_nodup HG).
  - apply (g_free_range HG).
  - apply (g_free_ver HG).
  - intros h Hin. apply in_app_or in Hin. destruct Hin as [Hin|[<-|[]]]; [apply (g_hs_ver HG); assumption|simpl; unfold NULL_VER; lia].
  - intros h Hin. apply in_app_or in Hin. destruct Hin as [Hin|[<-|[]]]; [apply (g_hs_id HG); assumption|assumption].
  - apply NoDup_app_intro_single; [apply (g_hs_nodup HG)|]. intros Hin. apply (Hfresh _ Hin). reflexivity.
  - apply (g_al_nodup HG).
  - intros k key Hin. destruct (g_alive HG k key Hin) as (Hk & Hl). rewrite app_length, hnd_app1 by assumption. split; [lia|assumption].
  - intros k Hk Hna Hnp. rewrite app_length in Hk. simpl in Hk. destruct (Nat.eq_dec k (length hs)) as [->|Hne].
    + exfalso. apply Hnp. apply Hp. right. reflexivity.
    + rewrite hnd_app1 by lia. apply (g_dead HG k); [lia|assumption|]. intros Hpk. apply Hnp. apply Hp. left. assumption.
  - intros k Hpk. apply Hp in Hpk. rewrite app_length. simpl. destruct Hpk as [Hpk| ->].
    + destruct (g_pend HG k Hpk) as (A & B & C & D & U). rewrite hnd_app1 by assumption. split; [lia|]. split; [assumption|]. split; [assumption|].
      split; [assumption|]. intros k' Hk' Hne. destruct (Nat.eq_dec k' (length hs)) as [->|Hne'].
      * rewrite hnd_app_last. simpl. intros E. apply (Hfresh (hnd hs k)); [apply nth_In_hnd; assumption|congruence].
      * rewrite hnd_app1 by lia. apply U; [lia|assumption].
    + rewrite hnd_app_last. simpl. split; [lia|]. split.
      * intros Ha. unfold alive in Ha. apply in_map_iff in Ha. destruct Ha as ((k0, key) & E & Hin). simpl in E. subst k0.
        destruct (g_alive HG _ _ Hin) as (Hlt & _). lia.
      * split; [reflexivity|]. split; [left; assumption|].
        intros k' Hk' Hne. rewrite hnd_app1 by lia. apply Hfresh. apply nth_In_hnd. lia.
  - intros j Hj. destruct (g_slots HG j Hj) as [H|[(k & key & Hin & E)|H]]; [left; assumption| |right; right; assumption].
    right. left. exists k, key. split; [assumption|]. destruct (g_alive HG k key Hin) as (Hk & _). rewrite hnd_app1 by assumption. assumption.
  - apply (g_arch_keys HG).
  - intros ai a idx h Hx Ha Hh. destruct (g_arch_members HG ai a idx h Hx Ha Hh) as (k & A & B & C & D).
    exists k. rewrite app_length, hnd_app1 by assumption. split; [assumption|]. split; [lia|]. auto.
  - intros j sl v Hs Hn Hv. apply in_or_app. left. eapply (g_hist HG); eassumption.
Qed.

(* ------------------------------------------------------------------------------------------ *)
(* the creation command of the pending handle k = (i, 0) is applied: its slot is installed (the table grows by
   null slots if needed) and the entity enters archetype ai *)
Lemma G_activate s s' hs al rem rem' k key i ai a :
  G s hs al rem -> pend rem k -> (forall k', pend rem' k' <-> pend rem k' /\ k' <> k) -> hnd hs k = (i, 0%N) ->
  length (locs s') = length (slots s') -> length (slots s) <= length (slots s') ->
  nth_error (slots s') (N.to_nat i) = Some {| s_id := i; s_ver := 0 |} ->
  (forall j, j <> N.to_nat i -> j < length (slots s) -> nth_error (slots s') j = nth_error (slots s) j) ->
  (forall j, j <> N.to_nat i -> length (slots s) <= j -> j < length (slots s') -> nth_error (slots s') j = Some null_slot) ->
  next_slot s' = next_slot s -> empty_slots s' = empty_slots s ->
  nth_error (archs s) ai = Some a -> a_key a = key ->
  archs s' = upd (archs s) ai {| a_key := a_key a; a_ents := a_ents a ++ [(i, 0%N)] |} ->
  nth_error (locs s') (N.to_nat i) = Some {| l_arch := Some ai; l_idx := length (a_ents a) |} ->
  (forall j, j <> N.to_nat i -> j < length (locs s) -> nth_error (locs s') j = nth_error (locs s) j) ->
  G s' hs (al ++ [(k, key)]) rem'.
Proof.
  intros HG Hpk Hp Eh A1 A10 A2 A3 A4 En Ee Harch Hkey A6 A7 A7o.
  destruct (g_pend HG k Hpk) as (Hk & Hna & _ & Hpat & Huniq). rewrite Eh in Hpat, Huniq. unfold pend_at, gap in Hpat. simpl in Hpat, Huniq.
  pose proof (g_len HG) as Hlen.
  assert (Hai : ai < length (archs s)) by (apply nth_error_Some; congruence).
  assert (HniW : ~ In i (W s)).
  { destruct Hpat as [Hge|(_ & Hn)]; [|rewrite N2Nat.id in Hn; assumption]. intros Hin. pose proof (g_free_range HG i Hin). lia. }
  assert (HW : W s' = W s).
  { unfold W. rewrite En, Ee. apply walk_ext. intros x Hx. apply A3.
    - intros E. apply HniW. replace i with x by (apply N2Nat.inj; assumption). exact Hx.
    - apply (g_free_range HG). exact Hx. }
  assert (Hother : forall k', k' < length hs -> k' <> k -> N.to_nat (fst (hnd hs k')) <> N.to_nat i).
  { intros k' Hk' Hne E. apply (Huniq k' Hk' Hne). apply N2Nat.inj. assumption. }
  assert (Hslot_old : forall k' sl, k' < length hs -> k' <> k -> nth_error (slots s) (N.to_nat (fst (hnd hs k'))) = Some sl ->
             nth_error (slots s') (N.to_nat (fst (hnd hs k'))) = Some sl).
  { intros k' sl Hk' Hne Hs. rewrite A3; [assumption|apply Hother; assumption|apply nth_error_Some; congruence]. }
  constructor.
  - assumption.
  - rewrite HW. apply (g_free_nodup HG).
  - intros x Hx. rewrite HW in Hx. pose proof (g_free_range HG x Hx). lia.
  - intros x sl Hx Hs. rewrite HW in Hx. rewrite A3 in Hs.
    + eapply (g_free_ver HG); eassumption.
    + intros E. apply HniW. replace i with x by (apply N2Nat.inj; assumption). exact Hx.
    + apply (g_free_range HG). exact Hx.
  - apply (g_hs_ver HG).
  - apply (g_hs_id HG).
  - apply (g_hs_nodup HG).
  - rewrite map_app. simpl. apply NoDup_app_intro_single; [apply (g_al_nodup HG)|exact Hna].
  - (* alive *)
    intros k' key' Hin. apply in_app_or in Hin. destruct Hin as [Hin|[E|[]]].
    + destruct (g_alive HG k' key' Hin) as (Hk'lt & HnW' & Hslot' & ai' & idx' & a' & Hloc' & Harch' & Hkey' & Hent').
      assert (Hne : k' <> k) by (intros ->; apply Hna; unfold alive; apply in_map_iff; exists (k, key'); auto).
      split; [assumption|]. split; [rewrite HW; assumption|]. split; [apply Hslot_old; assumption|].
      assert (Hl' : nth_error (locs s') (N.to_nat (fst (hnd hs k'))) = Some {| l_arch := Some ai'; l_idx := idx' |}).
      { rewrite A7o; [assumption|apply Hother; assumption|apply nth_error_Some; congruence]. }
      destruct (Nat.eq_dec ai' ai) as [->|Hnai].
      * rewrite Harch in Harch'. inversion Harch'; subst a'.
        exists ai, idx', {| a_key := a_key a; a_ents := a_ents a ++ [(i, 0%N)] |}.
        rewrite A6, nth_error_upd_same by assumption. simpl. repeat split; try assumption.
        rewrite nth_error_app1; [assumption|]. apply nth_error_Some. congruence.
      * exists ai', idx', a'. rewrite A6, nth_error_upd_other by congruence. auto.
    + inversion E; subst k' key'. split; [assumption|]. rewrite Eh. simpl. split; [rewrite HW; assumption|]. split; [assumption|].
      exists ai, (length (a_ents a)), {| a_key := a_key a; a_ents := a_ents a ++ [(i, 0%N)] |}.
      rewrite A6, nth_error_upd_same by assumption. simpl. repeat split; try assumption. apply nth_error_app_last.
  - (* dead *)
    intros k' Hk' Hna' Hnp'.
    assert (Hne : k' <> k) by (intros ->; apply Hna'; unfold alive; rewrite map_app; apply in_or_app; right; left; reflexivity).
    assert (Hna0 : ~ alive al k') by (intros Ha; apply Hna'; unfold alive in *; rewrite map_app; apply in_or_app; left; assumption).
    assert (Hnp0 : ~ pend rem k') by (intros Hp0; apply Hnp'; apply Hp; auto).
    destruct (g_dead HG k' Hk' Hna0 Hnp0) as (sl & Hs & Hlt). exists sl. split; [apply Hslot_old; assumption|assumption].
  - (* pending *)
    intros k' Hp'. apply Hp in Hp'. destruct Hp' as (Hp0 & Hne).
    destruct (g_pend HG k' Hp0) as (A & B & C & D & U). split; [assumption|]. split.
    { intros Ha. unfold alive in Ha. rewrite map_app in Ha. apply in_app_or in Ha. destruct Ha as [Ha|[E|[]]]; [apply B; exact Ha|simpl in E; congruence]. }
    split; [assumption|]. split; [|assumption].
    pose proof (Hother k' A Hne) as Hoi. unfold pend_at, gap in *. rewrite HW.
    destruct (Nat.lt_ge_cases (N.to_nat (fst (hnd hs k'))) (length (slots s'))) as [Hin'|Hout]; [right|left; assumption].
    destruct D as [D|(D1 & D2)].
    + split; [apply A4; assumption|]. intros Hw. pose proof (g_free_range HG _ Hw) as Hr. rewrite Nat2N.id in Hr. lia.
    + split; [|assumption]. rewrite A3; [assumption|assumption|apply nth_error_Some; congruence].
  - (* every slot *)
    intros j Hj. unfold gap in *. rewrite HW. destruct (Nat.eq_dec j (N.to_nat i)) as [->|Hne].
    + right. left. exists k, key. split; [apply in_or_app; right; left; reflexivity|]. rewrite Eh. simpl. rewrite N2Nat.id. reflexivity.
    + destruct (Nat.lt_ge_cases j (length (slots s))) as [Hjl|Hjg].
      * destruct (g_slots HG j Hjl) as [H|[(k' & key' & Hin & E)|(H1 & H2)]].
        -- left. assumption.
        -- right. left. exists k', key'. split; [apply in_or_app; left; assumption|assumption].
        -- right. right. split; [rewrite A3 by assumption; assumption|assumption].
      * right. right. split; [apply A4; assumption|]. intros Hw. pose proof (g_free_range HG _ Hw) as Hr. rewrite Nat2N.id in Hr. lia.
  - rewrite A6, map_key_upd by assumption. apply (g_arch_keys HG).
  - (* members *)
    intros ai' a' idx' h' _ Ha' Hh'. rewrite A6 in Ha'.
    assert (Hmem_old : forall aj b idx h0, nth_error (archs s) aj = Some b -> nth_error (a_ents b) idx = Some h0 ->
              exists k0, In (k0, a_key b) (al ++ [(k, key)]) /\ k0 < length hs /\ hnd hs k0 = h0 /\
                         nth_error (locs s') (N.to_nat (fst h0)) = Some {| l_arch := Some aj; l_idx := idx |}).
    { intros aj b idx h0 Hb Hh0. destruct (g_arch_members HG aj b idx h0 (noex_no _ _) Hb Hh0) as (k0 & A & B & C & D).
      exists k0. split; [apply in_or_app; left; assumption|]. split; [assumption|]. split; [assumption|].
      assert (Hne : k0 <> k) by (intros ->; apply Hna; unfold alive; apply in_map_iff; exists (k, a_key b); auto).
      rewrite <- C. rewrite A7o; [rewrite C; assumption|apply Hother; assumption|rewrite C; apply nth_error_Some; congruence]. }
    destruct (Nat.eq_dec ai ai') as [<-|Hnai].
    + rewrite nth_error_upd_same in Ha' by assumption. inversion Ha'; subst a'. simpl in *.
      destruct (Nat.lt_ge_cases idx' (length (a_ents a))) as [Hlt|Hge].
      * rewrite nth_error_app1 in Hh' by assumption. apply (Hmem_old ai a idx' h' Harch Hh').
      * assert (idx' = length (a_ents a)).
        { assert (idx' < length (a_ents a ++ [(i, 0%N)])) by (apply nth_error_Some; congruence). rewrite app_length in H. simpl in H. lia. }
        subst idx'. rewrite nth_error_app_last in Hh'. inversion Hh'; subst h'.
        exists k. split; [apply in_or_app; right; left; rewrite Hkey; reflexivity|]. split; [assumption|]. split; [assumption|assumption].
    + rewrite nth_error_upd_other in Ha' by assumption. apply (Hmem_old ai' a' idx' h' Ha' Hh').
  - (* history *)
    intros j sl w Hs Hnn Hw. destruct (Nat.eq_dec j (N.to_nat i)) as [->|Hne].
    + rewrite A2 in Hs. inversion Hs; subst sl. simpl in Hw. lia.
    + destruct (Nat.lt_ge_cases j (length (slots s))) as [Hjl|Hjg].
      * rewrite A3 in Hs by assumption. eapply (g_hist HG); eassumption.
      * assert (Hj' : j < length (slots s')) by (apply nth_error_Some; congruence).
        rewrite A4 in Hs by assumption. inversion Hs; subst sl. contradiction.
Qed.

(* the creation command of the pending handle k = (i, 0) is applied and the same pack destroys it at once:
   the slot is installed and released with version 1; the entity never enters an archetype *)
Lemma G_stillborn s s' hs al rem rem' k i :
  G s hs al rem -> pend rem k -> (forall k', pend rem' k' <-> pend rem k' /\ k' <> k) -> hnd hs k = (i, 0%N) ->
  length (locs s') = length (slots s') -> length (slots s) <= length (slots s') ->
  nth_error (slots s') (N.to_nat i) =
    Some {| s_id := match empty_slots s with O => (i + 1)%N | S _ => next_slot s end; s_ver := 1 |} ->
  (forall j, j <> N.to_nat i -> j < length (slots s) -> nth_error (slots s') j = nth_error (slots s) j) ->
  (forall j, j <> N.to_nat i -> length (slots s) <= j -> j < length (slots s') -> nth_error (slots s') j = Some null_slot) ->
  next_slot s' = i -> empty_slots s' = S (empty_slots s) -> archs s' = archs s ->
  (forall j, j <> N.to_nat i -> j < length (locs s) -> nth_error (locs s') j = nth_error (locs s) j) ->
  G s' hs al rem'.
Proof.
  intros HG Hpk Hp Eh A1 A10 A2 A3 A4 En Ee Ea A7o.
  destruct (g_pend HG k Hpk) as (Hk & Hna & _ & Hpat & Huniq). rewrite Eh in Hpat, Huniq. unfold pend_at, gap in Hpat. simpl in Hpat, Huniq.
  pose proof (g_len HG) as Hlen.
  assert (Hi' : N.to_nat i < length (slots s')) by (apply nth_error_Some; congruence).
  assert (HniW : ~ In i (W s)).
  { destruct Hpat as [Hge|(_ & Hn)]; [|rewrite N2Nat.id in Hn; assumption]. intros Hin. pose proof (g_free_range HG i Hin). lia. }
  assert (HWold : forall x, In x (W s) -> nth_error (slots s') (N.to_nat x) = nth_error (slots s) (N.to_nat x)).
  { intros x Hx. apply A3; [|apply (g_free_range HG); exact Hx].
    intros E. apply HniW. replace i with x by (apply N2Nat.inj; assumption). exact Hx. }
  assert (HW : W s' = i :: W s).
  { unfold W at 1. rewrite En, Ee. rewrite walk_S, A2. simpl. f_equal. unfold W in *. destruct (empty_slots s) as [|e] eqn:E0; [reflexivity|].
    apply walk_ext. exact HWold. }
  assert (Hother : forall k', k' < length hs -> k' <> k -> N.to_nat (fst (hnd hs k')) <> N.to_nat i).
  { intros k' Hk' Hne E. apply (Huniq k' Hk' Hne). apply N2Nat.inj. assumption. }
  assert (Hslot_old : forall k' sl, k' < length hs -> k' <> k -> nth_error (slots s) (N.to_nat (fst (hnd hs k'))) = Some sl ->
             nth_error (slots s') (N.to_nat (fst (hnd hs k'))) = Some sl).
  { intros k' sl Hk' Hne Hs. rewrite A3; [assumption|apply Hother; assumption|apply nth_error_Some; congruence]. }
  assert (Hal_ne : forall k' key', In (k', key') al -> k' <> k).
  { intros k' key' Hin ->. apply Hna. unfold alive. apply in_map_iff. exists (k, key'). auto. }
  constructor.
  - assumption.
  - rewrite HW. constructor; [assumption|apply (g_free_nodup HG)].
  - intros x Hx. rewrite HW in Hx. destruct Hx as [<-|Hx]; [assumption|]. pose proof (g_free_range HG x Hx). lia.
  - intros x sl Hx Hs. rewrite HW in Hx. destruct Hx as [<-|Hx].
    + rewrite A2 in Hs. inversion Hs; subst sl. simpl. unfold NULL_VER. lia.
    + rewrite HWold in Hs by assumption. eapply (g_free_ver HG); eassumption.
  - apply (g_hs_ver HG).
  - apply (g_hs_id HG).
  - apply (g_hs_nodup HG).
  - apply (g_al_nodup HG).
  - (* alive *)
    intros k' key' Hin. pose proof (Hal_ne k' key' Hin) as Hne.
    destruct (g_alive HG k' key' Hin) as (Hk'lt & HnW' & Hslot' & ai' & idx' & a' & Hloc' & Harch' & Hkey' & Hent').
    split; [assumption|]. split.
    { rewrite HW. intros [E|E]; [|contradiction]. apply (Hother k' Hk'lt Hne). rewrite E. reflexivity. }
    split; [apply Hslot_old; assumption|].
    exists ai', idx', a'. rewrite Ea. split; [|auto].
    rewrite A7o; [assumption|apply Hother; assumption|apply nth_error_Some; congruence].
  - (* dead *)
    intros k' Hk' Hna' Hnp'. destruct (Nat.eq_dec k' k) as [->|Hne].
    + rewrite Eh. eexists. split; [exact A2|]. simpl. lia.
    + assert (Hnp0 : ~ pend rem k') by (intros Hp0; apply Hnp'; apply Hp; auto).
      destruct (g_dead HG k' Hk' Hna' Hnp0) as (sl & Hs & Hlt). exists sl. split; [apply Hslot_old; assumption|assumption].
  - (* pending *)
    intros k' Hp'. apply Hp in Hp'. destruct Hp' as (Hp0 & Hne).
    destruct (g_pend HG k' Hp0) as (A & B & C & D & U). split; [assumption|]. split; [assumption|]. split; [assumption|]. split; [|assumption].
    pose proof (Hother k' A Hne) as Hoi. unfold pend_at, gap in *. rewrite HW.
    destruct (Nat.lt_ge_cases (N.to_nat (fst (hnd hs k'))) (length (slots s'))) as [Hin'|Hout]; [right|left; assumption].
    assert (Hni : N.of_nat (N.to_nat (fst (hnd hs k'))) <> i) by (intros E; apply Hoi; rewrite <- E, Nat2N.id; reflexivity).
    destruct D as [D|(D1 & D2)].
    + split; [apply A4; assumption|]. intros [E|Hw]; [congruence|]. pose proof (g_free_range HG _ Hw) as Hr. rewrite Nat2N.id in Hr. lia.
    + split; [rewrite A3; [assumption|assumption|apply nth_error_Some; congruence]|]. intros [E|Hw]; [congruence|contradiction].
  - (* every slot *)
    intros j Hj. unfold gap in *. rewrite HW. destruct (Nat.eq_dec j (N.to_nat i)) as [->|Hne].
    + left. left. rewrite N2Nat.id. reflexivity.
    + assert (Hni : i <> N.of_nat j) by (intros E; apply Hne; rewrite E, Nat2N.id; reflexivity).
      destruct (Nat.lt_ge_cases j (length (slots s))) as [Hjl|Hjg].
      * destruct (g_slots HG j Hjl) as [H|[(k' & key' & Hin & E)|(H1 & H2)]].
        -- left. right. assumption.
        -- right. left. exists k', key'. auto.
        -- right. right. split; [rewrite A3 by assumption; assumption|]. intros [E|Hw]; [congruence|contradiction].
      * right. right. split; [apply A4; assumption|]. intros [E|Hw]; [congruence|]. pose proof (g_free_range HG _ Hw) as Hr. rewrite Nat2N.id in Hr. lia.
  - rewrite Ea. apply (g_arch_keys HG).
  - intros ai' a' idx' h' Hx Ha' Hh'. rewrite Ea in Ha'.
    destruct (g_arch_members HG ai' a' idx' h' Hx Ha' Hh') as (k0 & A & B & C & D).
    exists k0. split; [assumption|]. split; [assumption|]. split; [assumption|].
    pose proof (Hal_ne k0 _ A) as Hne. rewrite <- C. rewrite A7o; [rewrite C; assumption|apply Hother; assumption|rewrite C; apply nth_error_Some; congruence].
  - (* history *)
    intros j sl w Hs Hnn Hw. destruct (Nat.eq_dec j (N.to_nat i)) as [->|Hne].
    + rewrite A2 in Hs. inversion Hs; subst sl. simpl in Hw. assert (w = 0%N) by lia. subst w. rewrite N2Nat.id. rewrite <- Eh. apply nth_In_hnd. assumption.
    + destruct (Nat.lt_ge_cases j (length (slots s))) as [Hjl|Hjg].
      * rewrite A3 in Hs by assumption. eapply (g_hist HG); eassumption.
      * assert (Hj' : j < length (slots s')) by (apply nth_error_Some; congruence).
        rewrite A4 in Hs by assumption. inversion Hs; subst sl. contradiction.
Qed.
