(* Step lemmas for the operations issued while the manager is locked: lock nesting, recorded creations and destructions (C01). *)
Require Import Coq.Lists.List Coq.NArith.NArith Coq.Arith.Arith Coq.Bool.Bool Coq.micromega.Lia Coq.Sorting.Permutation.
From Mustache Require Import Res Skeleton SkelSpec SkelRun.
From Mustache.proofs Require Import ListLemmas SkelBasics SkelInv SkelSteps SkelRefine.
Import ListNotations.

Lemma filter_map_perm {A B} (f : A -> option B) l l' : Permutation l l' -> Permutation (filter_map f l) (filter_map f l').
Proof.
  induction 1 as [|x l l' H IH|x y l|l l' l'' H1 IH1 H2 IH2]; simpl.
  - constructor.
  - destruct (f x); [constructor|]; assumption.
  - destruct (f x), (f y); try reflexivity. apply perm_swap.
  - eapply perm_trans; eassumption.
Qed.

Lemma pend_perm rem rem' k : Permutation rem rem' -> (pend rem k <-> pend rem' k).
Proof.
  intros H. unfold pend. split; intros (key & Hin); exists key; [eapply Permutation_in; eassumption|eapply Permutation_in; [symmetry|]; eassumption].
Qed.

Lemma created_in rem k : In k (created rem) <-> pend rem k.
Proof.
  unfold created, pend. induction rem as [|c t IH]; simpl; [split; [tauto|intros (key & [])]|].
  destruct c as [k' key'|k'|k']; simpl; rewrite ?IH.
  - split.
    + intros [->|(key & Hin)]; [exists key'; left; reflexivity|exists key; right; assumption].
    + intros (key & [E|Hin]); [inversion E; left; reflexivity|right; exists key; assumption].
  - split; [intros (key & Hin); exists key; right; assumption|intros (key & [E|Hin]); [discriminate|exists key; assumption]].
  - split; [intros (key & Hin); exists key; right; assumption|intros (key & [E|Hin]); [discriminate|exists key; assumption]].
Qed.

Lemma abs_buf_snoc hs b c : abs_buf hs (b ++ [c]) = abs_buf hs b ++ match abs_cmd hs c with Some x => [x] | None => [] end.
Proof. unfold abs_buf. rewrite filter_map_app. simpl. destruct (abs_cmd hs c); reflexivity. Qed.

Lemma wf_cmd_app hs l c : wf_cmd hs c -> wf_cmd (hs ++ l) c.
Proof. destruct c; simpl; intros H; [apply in_or_app; auto| |]; (destruct H as [H|H]; [left; assumption|right; apply in_or_app; auto]). Qed.

Lemma creates_first_snoc b c : creates_first b ->
  (forall h key, c = CCreate h key -> forall c', In c' b -> cmd_handle c' <> h) -> creates_first (b ++ [c]).
Proof.
  intros Hb Hc b1 h key b2 E c' Hin.
  destruct b2 as [|x b2'] using rev_ind.
  - assert (E' : b ++ [c] = b1 ++ [CCreate h key]) by exact E. apply app_inj_tail in E'. destruct E' as (-> & ->). eapply Hc; eauto.
  - clear IHb2'. rewrite app_comm_cons, app_assoc in E. apply app_inj_tail in E. destruct E as (E & _). eapply Hb; eauto.
Qed.

(* ---- lock() ---- *)
Lemma R_lock s hs sp s' : R s hs sp -> step s Lock = Ok (s', None) -> R s' hs (spec_step sp SoLock).
Proof.
  intros HR H. pose proof HR as HR0. destruct HR as [HG Hc Hl Hn Hbf Hwf Hu Hcr Hmi Hml Hm Hs He Hcf].
  unfold step in H. unfold spec_step. rewrite <- Hl. destruct (lockc s) as [|n] eqn:El.
  - inversion H; subst s'; clear H. symmetry in Hl.
    pose proof (R_rem_nil _ _ _ HR0 Hl) as Hrem. pose proof (Hu Hl) as Hnil.
    assert (Hnil' : Forall (fun b : list cmd => b = []) (resize (bufs s) (nthreads s) [])) by (apply Forall_resize; auto).
    assert (Ebufs : resize (sp_bufs sp) (sp_nthr sp) [] = map (abs_buf hs) (resize (bufs s) (nthreads s) [])).
    { rewrite map_resize, <- Hbf, Hn. reflexivity. }
    assert (Hrem' : concat (resize (sp_bufs sp) (sp_nthr sp) []) = []).
    { rewrite Ebufs. apply all_nil_concat. apply all_nil_map_abs. assumption. }
    constructor; simpl; try assumption; try reflexivity.
    + rewrite Hrem'. rewrite Hrem in HG. eapply G_same_core; [| | | | |exact HG]; reflexivity.
    + apply all_nil_wf. assumption.
    + intros E. discriminate.
    + rewrite Hrem'. constructor.
    + intros _. split; [lia|]. split; [lia|]. intros h Hin. rewrite Hrem in HG.
      destruct (In_hnd _ _ Hin) as (k & Hk & <-). pose proof (ids_in_range s hs _ k HG Hk). lia.
    + apply Forall_resize; [assumption|]. intros b1 h key b2 E. destruct b1; discriminate.
  - inversion H; subst s'; clear H.
    constructor; simpl; try assumption; try reflexivity.
    + eapply G_same_core; [| | | | |exact HG]; reflexivity.
    + intros E. discriminate.
    + intros _. apply He. rewrite <- Hl. discriminate.
Qed.

(* ---- unlock() that leaves the manager locked ---- *)
Lemma R_unlock_nested s hs sp s' n : R s hs sp -> sp_lock sp = S (S n) ->
  step s Unlock = Ok (s', None) -> R s' hs (spec_step sp SoUnlock).
Proof.
  intros HR Hl2 H. destruct HR as [HG Hc Hl Hn Hbf Hwf Hu Hcr Hmi Hml Hm Hs He Hcf].
  unfold step in H. unfold spec_step. simpl in H. rewrite Hl, Hl2 in H. simpl in H. inversion H; subst s'; clear H.
  rewrite Hl2. simpl.
  constructor; simpl; try assumption; try reflexivity.
  - eapply G_same_core; [| | | | |exact HG]; reflexivity.
  - intros E. discriminate.
  - intros _. apply He. rewrite Hl2. discriminate.
Qed.

Lemma wf_handle hs c : wf_cmd hs c -> cmd_handle c = null_handle \/ In (cmd_handle c) hs.
Proof. destruct c; simpl; tauto. Qed.

Lemma map_abs_ext hs l bufs0 : Forall (Forall (wf_cmd hs)) bufs0 -> ~ In null_handle (hs ++ l) ->
  map (abs_buf (hs ++ l)) bufs0 = map (abs_buf hs) bufs0.
Proof. intros Hwf Hnn. induction Hwf as [|b t Hb Ht IH]; simpl; [reflexivity|]. rewrite abs_buf_app by assumption. rewrite IH. reflexivity. Qed.

(* ---- a creation recorded while locked ---- *)
Lemma R_create_locked s hs sp tid key s' h n :
  R s hs sp -> sp_lock sp = S n -> within (S (length hs)) ->
  step s (Create tid key) = Ok (s', Some h) -> R s' (hs ++ [h]) (spec_step sp (SoCreate tid key)).
Proof.
  intros HR Hln Hb H. destruct HR as [HG Hc Hl Hn Hbf Hwf Hu Hcr Hmi Hml Hm Hs He Hcf].
  unfold step in H. rewrite Hl, Hln in H. apply bind_ok in H. destruct H as ((s1, h1) & Hcl & H). simpl in H. inversion H; subst s1 h1; clear H.
  destruct He as (He1 & He2 & He3); [rewrite Hln; discriminate|].
  set (i := next_eid s) in *.
  assert (Hnone : nth_error (slots s) (N.to_nat i) = None) by (apply nth_error_None; lia).
  unfold create_locked in Hcl. fold i in Hcl. rewrite Hnone in Hcl.
  apply bind_ok in Hcl. destruct Hcl as (s2 & Hpush & Hcl). inversion Hcl; subst s2 h; clear Hcl.
  unfold push_cmd in Hpush. simpl in Hpush. apply bind_ok in Hpush. destruct Hpush as (b & Hb' & Hpush). apply nth_res_ok in Hb'.
  inversion Hpush; subst s'; clear Hpush.
  assert (Htid : tid < length (bufs s)) by (apply nth_error_Some; congruence).
  assert (Hfresh : forall h', In h' hs -> fst h' <> i) by (intros h' Hin E; pose proof (He3 h' Hin); lia).
  assert (Hidb : (i < NULL_ID)%N).
  { apply N.le_lt_trans with (N.of_nat (length hs)); [assumption|]. apply bound_id. eapply within_le; [|exact Hb]. lia. }
  assert (Hnth : nth tid (sp_bufs sp) [] = abs_buf hs b).
  { apply nth_error_nth'. rewrite Hbf. apply map_nth_error. assumption. }
  assert (Htid' : tid < length (sp_bufs sp)) by (rewrite Hbf, map_length; assumption).
  set (c := SCreate (length hs) key).
  assert (Hperm : Permutation (concat (upd (sp_bufs sp) tid (abs_buf hs b ++ [c]))) (c :: concat (sp_bufs sp))).
  { rewrite <- Hnth. apply concat_upd_app_perm. assumption. }
  assert (Hpend : forall k, pend (concat (upd (sp_bufs sp) tid (abs_buf hs b ++ [c]))) k <-> pend (concat (sp_bufs sp)) k \/ k = length hs).
  { intros k. rewrite (pend_perm _ _ k Hperm). unfold pend, c. simpl. split.
    - intros (key' & [E|Hin]); [inversion E; right; reflexivity|left; exists key'; assumption].
    - intros [(key' & Hin)| ->]; [exists key'; right; assumption|exists key; left; reflexivity]. }
  assert (Hlen_i : length (slots s) <= N.to_nat i) by lia.
  pose proof (G_add_pending s hs _ _ _ i HG Hlen_i Hfresh Hidb Hpend) as HG'.
  assert (Hnn : ~ In null_handle (hs ++ [(i, 0%N)])) by (apply (null_not_in _ _ _ _ HG')).
  assert (Hkidx : kidx (hs ++ [(i, 0%N)]) (i, 0%N) = Some (length hs)).
  { rewrite <- (hnd_app_last hs (i, 0%N)) at 2. apply kidx_hnd; [apply (g_hs_nodup HG')|rewrite app_length; simpl; lia]. }
  assert (Hbwf : Forall (wf_cmd hs) b) by (apply (proj1 (Forall_forall _ _) Hwf); eapply nth_error_In; eassumption).
  unfold spec_step. rewrite Hln. unfold spec_push. simpl. rewrite <- Hc, Hnth. fold c.
  constructor; simpl.
  - eapply G_same_core; [| | | | |exact HG']; reflexivity.
  - rewrite app_length. simpl. lia.
  - rewrite Hl, Hln. reflexivity.
  - assumption.
  - rewrite map_upd. rewrite map_abs_ext by assumption. rewrite <- Hbf. f_equal.
    rewrite abs_buf_snoc. rewrite abs_buf_app by assumption.
    unfold abs_cmd. match goal with |- context [kidx ?a ?b] => replace (kidx a b) with (Some (length hs)) by (symmetry; exact Hkidx) end. reflexivity.
  - apply Forall_upd.
    + eapply Forall_impl; [|exact Hwf]. intros b0 Hb0. eapply Forall_impl; [|exact Hb0]. intros c0. apply wf_cmd_app.
    + apply Forall_app. split; [eapply Forall_impl; [|exact Hbwf]; intros c0; apply wf_cmd_app|].
      constructor; [|constructor]. simpl. apply in_or_app. right. left. reflexivity.
  - intros E. rewrite Hln in E. discriminate.
  - eapply Permutation_NoDup; [symmetry; apply filter_map_perm; exact Hperm|]. simpl. constructor; [|assumption].
    intros Hin. apply created_in in Hin. pose proof (proj1 (g_pend HG _ Hin)). lia.
  - intros h' Hin. destruct (Hmi h' Hin); [left; assumption|right; apply in_or_app; auto].
  - intros k Hk. rewrite app_length. simpl. pose proof (Hml k Hk). lia.
  - intros k Hk. rewrite app_length in Hk. simpl in Hk. destruct (Nat.eq_dec k (length hs)) as [->|Hne].
    + rewrite hnd_app_last. split.
      * intros Hin. exfalso. destruct (Hmi _ Hin) as [E|Hin'].
        -- apply Hnn. rewrite <- E. apply in_or_app. right. left. reflexivity.
        -- apply (Hfresh _ Hin'). reflexivity.
      * intros Hin. pose proof (Hml _ Hin). lia.
    + rewrite hnd_app1 by lia. apply Hm. lia.
  - rewrite app_length. simpl. lia.
  - intros _. split; [lia|]. split; [rewrite app_length; simpl; lia|].
    intros h' Hin. apply in_app_or in Hin. destruct Hin as [Hin|[<-|[]]]; [pose proof (He3 h' Hin); lia|simpl; lia].
  - apply Forall_upd; [assumption|]. apply creates_first_snoc.
    + apply (proj1 (Forall_forall _ _) Hcf). eapply nth_error_In; eassumption.
    + intros h0 key0 E c' Hin'. inversion E; subst h0 key0.
      destruct (wf_handle hs c' (proj1 (Forall_forall _ _) Hbwf c' Hin')) as [E'|Hin''].
      * rewrite E'. intros E2. apply Hnn. rewrite E2. apply in_or_app. right. left. reflexivity.
      * intros E2. apply (Hfresh _ Hin''). rewrite E2. reflexivity.
Qed.

Lemma upd_same {A} (l : list A) i x : nth_error l i = Some x -> upd l i x = l.
Proof. revert i. induction l as [|a t IH]; intros [|i] H; simpl in *; try discriminate; [inversion H; reflexivity|rewrite IH by assumption; reflexivity]. Qed.

(* ---- a destruction recorded while locked (any command that is not a creation) ---- *)
Lemma R_push_locked s hs sp tid c s' n :
  R s hs sp -> sp_lock sp = S n -> wf_cmd hs c -> (forall h key, c <> CCreate h key) ->
  push_cmd s tid c = Ok s' ->
  R s' hs (match abs_cmd hs c with Some x => spec_push sp tid x | None => sp end).
Proof.
  intros HR Hln Hwfc Hnc H. destruct HR as [HG Hc Hl Hn Hbf Hwf Hu Hcr Hmi Hml Hm Hs He Hcf].
  unfold push_cmd in H. apply bind_ok in H. destruct H as (b & Hb' & H). apply nth_res_ok in Hb'. inversion H; subst s'; clear H.
  assert (Htid : tid < length (bufs s)) by (apply nth_error_Some; congruence).
  assert (Hnth : nth tid (sp_bufs sp) [] = abs_buf hs b).
  { apply nth_error_nth'. rewrite Hbf. apply map_nth_error. assumption. }
  assert (Htid' : tid < length (sp_bufs sp)) by (rewrite Hbf, map_length; assumption).
  assert (Hbwf : Forall (wf_cmd hs) b) by (apply (proj1 (Forall_forall _ _) Hwf); eapply nth_error_In; eassumption).
  assert (Hwf' : Forall (Forall (wf_cmd hs)) (upd (bufs s) tid (b ++ [c]))).
  { apply Forall_upd; [assumption|]. apply Forall_app. split; [assumption|constructor; [assumption|constructor]]. }
  assert (Hcf' : Forall creates_first (upd (bufs s) tid (b ++ [c]))).
  { apply Forall_upd; [assumption|]. apply creates_first_snoc.
    - apply (proj1 (Forall_forall _ _) Hcf). eapply nth_error_In; eassumption.
    - intros h key E. exfalso. eapply Hnc; eauto. }
  destruct (abs_cmd hs c) as [x|] eqn:Eabs.
  - assert (Hx : forall k key, x <> SCreate k key).
    { intros k key E. subst x. destruct c as [h key'|h|h]; simpl in Eabs; [exfalso; eapply Hnc; eauto| |];
        destruct (kidx hs h); simpl in Eabs; discriminate. }
    assert (Hperm : Permutation (concat (upd (sp_bufs sp) tid (abs_buf hs b ++ [x]))) (x :: concat (sp_bufs sp))).
    { rewrite <- Hnth. apply concat_upd_app_perm. assumption. }
    assert (Hpend : forall k, pend (concat (upd (sp_bufs sp) tid (abs_buf hs b ++ [x]))) k <-> pend (concat (sp_bufs sp)) k).
    { intros k. rewrite (pend_perm _ _ k Hperm). unfold pend. simpl. split.
      - intros (key' & [E|Hin]); [exfalso; eapply Hx; eauto|exists key'; assumption].
      - intros (key' & Hin). exists key'. right. assumption. }
    unfold spec_push. rewrite Hnth.
    constructor; simpl; try assumption.
    + eapply G_same_core; [| | | | |eapply G_rem_ext; [exact Hpend|exact HG]]; reflexivity.
    + rewrite map_upd, <- Hbf. f_equal. rewrite abs_buf_snoc, Eabs. reflexivity.
    + intros E. rewrite Hln in E. discriminate.
    + eapply Permutation_NoDup; [symmetry; apply filter_map_perm; exact Hperm|]. simpl.
      destruct x; try assumption. exfalso. eapply Hx; eauto.
  - constructor; simpl; try assumption.
    + eapply G_same_core; [| | | | |exact HG]; reflexivity.
    + rewrite map_upd. rewrite abs_buf_snoc, Eabs, app_nil_r. rewrite Hbf. symmetry. apply upd_same. apply map_nth_error. assumption.
    + intros E. rewrite Hln in E. discriminate.
Qed.

Lemma abs_destroy hs k (mk : handle -> cmd) (smk : nat -> scmd) s al rem :
  G s hs al rem -> (forall h, abs_cmd hs (mk h) = option_map smk (kidx hs h)) ->
  abs_cmd hs (mk (hnd hs k)) = if Nat.ltb k (length hs) then Some (smk k) else None.
Proof.
  intros HG Hmk. rewrite Hmk. destruct (Nat.ltb_spec k (length hs)) as [Hk|Hk].
  - rewrite kidx_hnd; [reflexivity|apply (g_hs_nodup HG)|assumption].
  - rewrite hnd_beyond by assumption. destruct (kidx hs null_handle) as [k'|] eqn:E; [|reflexivity].
    destruct (kidx_some _ _ _ E) as (A & B). exfalso. apply (null_not_in _ _ _ _ HG). rewrite <- B. apply nth_In_hnd. assumption.
Qed.

Lemma wf_hnd hs k : hnd hs k = null_handle \/ In (hnd hs k) hs.
Proof. destruct (Nat.lt_ge_cases k (length hs)) as [H|H]; [right; apply nth_In_hnd; assumption|left; apply hnd_beyond; assumption]. Qed.

Lemma R_destroy_locked s hs sp tid k s' n :
  R s hs sp -> sp_lock sp = S n ->
  step s (Destroy tid (resolve hs k)) = Ok (s', None) -> R s' hs (spec_step sp (SoDestroy tid k)).
Proof.
  intros HR Hln H. pose proof (r_G _ _ _ HR) as HG. pose proof (r_lock _ _ _ HR) as Hl. pose proof (r_count _ _ _ HR) as Hc.
  unfold step in H. rewrite Hl, Hln in H. apply bind_ok in H. destruct H as (s1 & Hp & H). inversion H; subst s1; clear H.
  rewrite resolve_hnd in Hp.
  pose proof (R_push_locked s hs sp tid (CDestroy (hnd hs k)) s' n HR Hln (wf_hnd hs k) ltac:(intros; discriminate) Hp) as HR'.
  rewrite (abs_destroy hs k CDestroy SDestroy s _ _ HG (fun h => eq_refl)) in HR'.
  unfold spec_step. rewrite <- Hc, Hln. destruct (Nat.ltb k (length hs)); simpl; exact HR'.
Qed.

Lemma R_destroy_now_locked s hs sp tid k s' n :
  R s hs sp -> sp_lock sp = S n ->
  step s (DestroyNow tid (resolve hs k)) = Ok (s', None) -> R s' hs (spec_step sp (SoDestroyNow tid k)).
Proof.
  intros HR Hln H. pose proof (r_G _ _ _ HR) as HG. pose proof (r_lock _ _ _ HR) as Hl. pose proof (r_count _ _ _ HR) as Hc.
  unfold step in H. rewrite Hl, Hln in H. apply bind_ok in H. destruct H as (s1 & Hp & H). inversion H; subst s1; clear H.
  rewrite resolve_hnd in Hp.
  pose proof (R_push_locked s hs sp tid (CDestroyNow (hnd hs k)) s' n HR Hln (wf_hnd hs k) ltac:(intros; discriminate) Hp) as HR'.
  rewrite (abs_destroy hs k CDestroyNow SDestroyNow s _ _ HG (fun h => eq_refl)) in HR'.
  unfold spec_step. rewrite <- Hc, Hln. destruct (Nat.ltb k (length hs)); simpl; exact HR'.
Qed.
