(* C13: the specification's closure (MgrSpec.closure) and the code's (Manager.extra_components) compute the same mask
   whenever the code's loop returns, for well-formed dependency tables; what `widen` does to a component list. *)
Require Import Coq.Lists.List Coq.NArith.NArith Coq.ZArith.ZArith Coq.Arith.Arith Coq.Bool.Bool Coq.micromega.Lia.
Require Import Coq.Sorting.Sorted.
From Mustache Require Import Res Manager MgrSpec Refine.
From Mustache.proofs Require Import ListLemmas SkelBasics ClosureProofs ManagerBasics ManagerMoves ManagerProj ManagerInv.
Import ListNotations.

(* ---- masks as sets ---- *)
Definition meq (a b : mask) : Prop := forall c, mhas a c = mhas b c.

Lemma meq_eq a b : meq a b -> a = b.
Proof.
  intros H. apply N.bits_inj. intros n. specialize (H (N.to_nat n)). unfold mhas in H. rewrite N2Nat.id in H. exact H.
Qed.

Lemma sub_antisym a b : sub a b -> sub b a -> a = b.
Proof.
  intros H1 H2. apply meq_eq. intros c. destruct (mhas a c) eqn:Ea, (mhas b c) eqn:Eb; try reflexivity.
  - apply H1 in Ea. congruence.
  - apply H2 in Eb. congruence.
Qed.

(* a mask of the width of the implementation's bitset *)
Definition lowm (m : mask) : Prop := forall c, mhas m c = true -> c < MASK_BITS.
Definition lowmb (m : mask) : bool := N.eqb (N.shiftr m 128) 0.

Lemma lowmb_ok m : lowmb m = true -> lowm m.
Proof.
  unfold lowmb, lowm. intros H c Hc. apply N.eqb_eq in H. destruct (Nat.lt_ge_cases c MASK_BITS) as [Hlt|Hge]; [exact Hlt|exfalso].
  unfold mhas in Hc. assert (E : N.testbit (N.shiftr m 128) (N.of_nat c - 128) = true).
  { rewrite N.shiftr_spec'. replace (N.of_nat c - 128 + 128)%N with (N.of_nat c); [exact Hc|]. unfold MASK_BITS in Hge. lia. }
  rewrite H, N.bits_0 in E. discriminate.
Qed.

Lemma lowm_zero : lowm 0%N.
Proof. intros c H. rewrite mhas_zero in H. discriminate. Qed.
Lemma lowm_union a b : lowm a -> lowm b -> lowm (munion a b).
Proof. intros Ha Hb c H. rewrite mhas_union in H. apply orb_true_iff in H. destruct H; auto. Qed.
Lemma lowm_madd m c : lowm m -> c < MASK_BITS -> lowm (madd m c).
Proof. intros Hm Hc x H. rewrite mhas_madd in H. apply orb_true_iff in H. destruct H as [H|H]; [apply Nat.eqb_eq in H; subst; exact Hc|auto]. Qed.
Lemma lowm_mdel m c : lowm m -> lowm (mdel m c).
Proof. intros Hm x H. rewrite mhas_mdel in H. apply andb_true_iff in H. destruct H. auto. Qed.
Lemma lowm_sub a b : sub a b -> lowm b -> lowm a.
Proof. intros H Hb c Hc. auto. Qed.

Lemma mitems_meq128 a b : (forall c, c < MASK_BITS -> mhas a c = mhas b c) -> mitems a = mitems b.
Proof.
  intros H. unfold mitems. generalize (seq 0 MASK_BITS) (fun c => proj1 (in_seq MASK_BITS 0 c)).
  induction l as [|x t IH]; intros Hl; simpl; [reflexivity|].
  rewrite (H x) by (specialize (Hl x (or_introl eq_refl)); lia). rewrite IH by (intros c Hc; apply Hl; right; exact Hc). reflexivity.
Qed.

(* ---- dependency tables ---- *)
Definition dwf (d : list (nat * mask)) : Prop :=
  StronglySorted lt (map fst d) /\ Forall (fun p => fst p < MASK_BITS /\ lowm (snd p)) d.

Lemma dwf_nil : dwf [].
Proof. split; constructor. Qed.

Lemma dep_find_in d c dm : dep_find d c = Some dm -> In (c, dm) d.
Proof.
  induction d as [|(k, m) t IH]; simpl; [discriminate|]. destruct (Nat.eqb_spec k c) as [->|Hne].
  - intros E. inversion E. left. reflexivity.
  - intros E. right. apply IH. exact E.
Qed.

Lemma in_dep_find d c dm : StronglySorted lt (map fst d) -> In (c, dm) d -> dep_find d c = Some dm.
Proof.
  induction d as [|(k, m) t IH]; simpl; intros Hs Hin; [contradiction|].
  apply StronglySorted_inv in Hs. destruct Hs as (Hs & Hf). destruct Hin as [E|Hin].
  - inversion E; subst. rewrite Nat.eqb_refl. reflexivity.
  - destruct (Nat.eqb_spec k c) as [->|Hne]; [|apply IH; assumption]. exfalso.
    rewrite Forall_forall in Hf. assert (Hc : In c (map fst t)) by (apply in_map_iff; exists (c, dm); auto).
    specialize (Hf c Hc). lia.
Qed.

Lemma dep_set_keys d c m k : In k (map fst (dep_set d c m)) -> k = c \/ In k (map fst d).
Proof.
  induction d as [|(k0, v0) t IH]; simpl.
  - intros [E|[]]. left. auto.
  - destruct (Nat.eqb_spec k0 c) as [->|Hne]; simpl.
    + intros [E|H]; [left; auto|right; right; exact H].
    + destruct (Nat.ltb c k0); simpl.
      * intros [E|[E|H]]; [left; auto|right; left; exact E|right; right; exact H].
      * intros [E|H]; [right; left; exact E|]. destruct (IH H) as [E|H']; [left; exact E|right; right; exact H'].
Qed.

Lemma dep_set_wf d c m : dwf d -> c < MASK_BITS -> lowm m -> dwf (dep_set d c m).
Proof.
  intros (Hs & Hf) Hc Hm. split.
  - clear Hf. induction d as [|(k0, v0) t IH]; simpl.
    + constructor; constructor.
    + simpl in Hs. apply StronglySorted_inv in Hs. destruct Hs as (Hs & Hall). destruct (Nat.eqb_spec k0 c) as [->|Hne]; simpl.
      * constructor; assumption.
      * destruct (Nat.ltb_spec c k0) as [Hlt|Hge]; simpl.
        -- constructor; [constructor; assumption|]. constructor; [exact Hlt|]. rewrite Forall_forall in *. intros x Hx. specialize (Hall x Hx). lia.
        -- constructor; [apply IH; exact Hs|]. rewrite Forall_forall in *. intros x Hx. apply dep_set_keys in Hx.
           destruct Hx as [->|Hx]; [lia|apply Hall; exact Hx].
  - clear Hs. induction d as [|(k0, v0) t IH]; simpl.
    + constructor; [simpl; auto|constructor].
    + inversion Hf as [|? ? H0 Ht]; subst. destruct (Nat.eqb_spec k0 c) as [->|Hne].
      * constructor; [simpl; auto|exact Ht].
      * destruct (Nat.ltb c k0); [constructor; [simpl; auto|exact Hf]|constructor; [exact H0|apply IH; exact Ht]].
Qed.

(* members of the table, read either way *)
Lemma dwf_members d cur c dm : dwf d ->
  (In c (mitems cur) /\ dep_find d c = Some dm) <-> (In (c, dm) d /\ mhas cur c = true).
Proof.
  intros (Hs & Hf). rewrite mitems_in. split.
  - intros ((_ & Hm) & Hd). split; [apply dep_find_in; exact Hd|exact Hm].
  - intros (Hin & Hm). rewrite Forall_forall in Hf. destruct (Hf _ Hin) as (Hk & _). simpl in Hk.
    split; [split; assumption|apply in_dep_find; assumption].
Qed.

(* ---- the two closures agree ---- *)
Lemma closure_fuel_S f d m :
  closure_fuel (S f) d m = if N.eqb (dep_step d m) m then m else closure_fuel f d (dep_step d m).
Proof. reflexivity. Qed.

Definition Jinv (d : list (nat * mask)) (m cur result : mask) : Prop :=
  (cur = m /\ result = 0%N) \/ (cur = result /\ forall c dm, In (c, dm) d -> mhas m c = true -> sub dm result).

Lemma step_round d m cur result : dwf d -> Jinv d m cur result ->
  dep_step d (munion m result) = munion m (extra_round d cur result).
Proof.
  intros Hd HJ. apply meq_eq. intros x. apply eq_iff_eq_true.
  rewrite dep_step_spec, !mhas_union, !orb_true_iff, extra_round_in. split.
  - intros [H|(c & dm & Hin & Hc & Hx)]; [tauto|]. rewrite mhas_union, orb_true_iff in Hc.
    destruct HJ as [(-> & ->)|(-> & Hsub)].
    + rewrite mhas_zero in Hc. destruct Hc as [Hc|Hc]; [|discriminate]. right. right. exists c, dm.
      destruct (proj2 (dwf_members d m c dm Hd) (conj Hin Hc)) as (A & B). auto.
    + destruct Hc as [Hc|Hc].
      * right. left. apply (Hsub c dm Hin Hc). exact Hx.
      * right. right. exists c, dm. destruct (proj2 (dwf_members d result c dm Hd) (conj Hin Hc)) as (A & B). auto.
  - intros [H|[H|(c & dm & Hc & Hf & Hx)]]; [tauto|tauto|]. right. exists c, dm.
    destruct (proj1 (dwf_members d cur c dm Hd) (conj Hc Hf)) as (A & B). split; [exact A|]. split; [|exact Hx].
    rewrite mhas_union, orb_true_iff. destruct HJ as [(-> & ->)|(-> & _)]; [left|right]; exact B.
Qed.

Lemma closed_of_fix d x : dep_step d x = x -> closed d x.
Proof.
  intros Hfix c dm _ Hf Hc y Hy. rewrite <- Hfix. apply dep_step_spec. right. exists c, dm. split; [apply dep_find_in; exact Hf|auto].
Qed.

Lemma closure_couple d m : dwf d -> forall fuel cur result r,
  Jinv d m cur result ->
  extra_loop fuel d cur result = Ok r -> closure_fuel fuel d (munion m result) = munion m r.
Proof.
  intros Hd. induction fuel as [|f IH]; intros cur result r HJ H; [rewrite extra_loop_O in H; discriminate|].
  rewrite extra_loop_S in H. rewrite closure_fuel_S, (step_round d m cur result Hd HJ).
  destruct (N.eqb_spec result (extra_round d cur result)) as [E|E].
  - injection H as <-. rewrite <- E, N.eqb_refl. reflexivity.
  - destruct (N.eqb_spec (munion m (extra_round d cur result)) (munion m result)) as [E2|E2].
    + (* the specification stops: its value is closed, so the code's later rounds add nothing outside it *)
      apply sub_antisym.
      * apply sub_union_lub; [apply sub_union_l|]. eapply sub_trans; [|apply sub_union_r].
        eapply sub_trans; [apply extra_round_mono|]. destruct (extra_loop_contains d f _ _ r H) as (I1 & _). exact I1.
      * apply sub_union_lub; [apply sub_union_l|].
        assert (Hcl : closed d (munion m result)).
        { apply closed_of_fix. rewrite (step_round d m cur result Hd HJ). exact E2. }
        eapply (extra_loop_least d _ Hcl f _ _ r); [| |exact H]; rewrite <- E2; apply sub_union_r.
    + apply (IH (extra_round d cur result) (extra_round d cur result) r); [|exact H]. right. split; [reflexivity|].
      intros c dm Hin Hc. destruct HJ as [(-> & ->)|(-> & Hsub)].
      * eapply extra_round_deps; [|apply in_dep_find; [exact (proj1 Hd)|exact Hin]].
        apply mitems_in. split; [|exact Hc]. destruct Hd as (_ & Hf). rewrite Forall_forall in Hf. exact (proj1 (Hf _ Hin)).
      * eapply sub_trans; [apply (Hsub c dm Hin Hc)|apply extra_round_mono].
Qed.

Lemma closure_eq s m r : dwf (deps s) -> extra_components s m = Ok r -> closure (deps s) m = munion m r.
Proof.
  intros Hd H. unfold extra_components in H. destruct (deps s) as [|p t] eqn:Ed.
  - inversion H; subst. rewrite closure_nil, munion_zero. reflexivity.
  - rewrite <- (munion_zero m) at 1. unfold closure. apply (closure_couple _ m Hd 130 m 0%N r); [left; auto|exact H].
Qed.

Lemma extra_low s m r : dwf (deps s) -> lowm m -> extra_components s m = Ok r -> lowm r.
Proof.
  intros (_ & Hf) Hm H. unfold extra_components in H. destruct (deps s) as [|p t] eqn:Ed; [inversion H; apply lowm_zero|].
  set (d := p :: t) in *. set (top := N.ones 128).
  assert (Htop : forall c, mhas top c = true <-> c < MASK_BITS).
  { intros c. unfold top, mhas. rewrite N.ones_spec_iff. unfold MASK_BITS. lia. }
  assert (Hcl : closed d top).
  { intros c dm _ Hfd _ y Hy. apply Htop. rewrite Forall_forall in Hf. destruct (Hf _ (dep_find_in _ _ _ Hfd)) as (_ & Hl). apply Hl. exact Hy. }
  intros c Hc. apply Htop. eapply (extra_loop_least d top Hcl 130 m 0%N r); [| |exact H|exact Hc].
  - intros y Hy. apply Htop. apply Hm. exact Hy.
  - intros y Hy. rewrite mhas_zero in Hy. discriminate.
Qed.

(* a mask that the specification's closure leaves alone is closed *)
Lemma closure_fix_closed d m : closure d m = m -> closed d m.
Proof.
  intros H. apply closed_of_fix. unfold closure in H. change 130 with (S 129) in H. rewrite closure_fuel_S in H.
  destruct (N.eqb_spec (dep_step d m) m) as [E|E]; [exact E|]. exfalso. apply E. apply sub_antisym.
  - rewrite <- H at 2. apply closure_fuel_sub.
  - intros x Hx. apply dep_step_spec. left. exact Hx.
Qed.

Lemma closed_sub_closure s m r x : extra_components s m = Ok r -> closed (deps s) x -> sub m x -> sub (munion m r) x.
Proof. intros H. apply (proj2 (proj2 (extra_components_least_fixpoint s m r H))). Qed.

(* ---- component lists ---- *)
Lemma comp_mask_keys cs M : map fst cs = mitems M -> lowm M -> comp_mask cs = M.
Proof.
  intros Hk Hl. apply meq_eq. intros c. rewrite comp_mask_has. apply eq_iff_eq_true. rewrite has_comp_in, Hk, mitems_in.
  split; [tauto|]. intros H. split; [apply Hl; exact H|exact H].
Qed.

Lemma keyed_ext {A} : forall (l1 l2 : list (nat * A)), map fst l1 = map fst l2 -> NoDup (map fst l1) ->
  (forall c v, In (c, v) l1 -> In (c, v) l2) -> l1 = l2.
Proof.
  induction l1 as [|(c1, v1) t1 IH]; intros [|(c2, v2) t2] Hk Hnd Hin; simpl in Hk; try discriminate; [reflexivity|].
  injection Hk as Ec Et. subst c2. inversion Hnd as [|? ? Hni Hnd']; subst.
  assert (v1 = v2).
  { destruct (Hin c1 v1 (or_introl eq_refl)) as [E|H]; [inversion E; reflexivity|]. exfalso. apply Hni. rewrite Et.
    apply in_map_iff. exists (c1, v1). auto. }
  subst v2. f_equal. apply IH; [exact Et|exact Hnd'|]. intros c v H. destruct (Hin c v (or_intror H)) as [E|H']; [|exact H'].
  injection E as E1 E2. subst c v. exfalso. apply Hni. apply in_map_iff. exists (c1, v1). auto.
Qed.

Lemma insert_comp_keep cs c v c' v' : c' <> c -> In (c', v') cs -> In (c', v') (insert_comp cs c v).
Proof.
  intros Hne. induction cs as [|(c0, v0) t IH]; simpl; [intros []|].
  destruct (Nat.eqb_spec c c0) as [->|Hn0].
  - intros [E|H]; [inversion E; congruence|right; exact H].
  - destruct (Nat.ltb c c0); [intros H; right; exact H|]. intros [E|H]; [left; exact E|right; apply IH; exact H].
Qed.

Lemma has_comp_insert cs c v c' : has_comp (insert_comp cs c v) c' = Nat.eqb c' c || has_comp cs c'.
Proof.
  apply eq_iff_eq_true. rewrite orb_true_iff, !has_comp_in, map_fst_insert_comp, Nat.eqb_eq.
  induction (map fst cs) as [|x t IH]; simpl; [intuition|].
  destruct (Nat.eqb_spec c x) as [->|Hne]; simpl; [intuition|]. destruct (Nat.ltb c x); simpl; [intuition|]. rewrite IH. intuition.
Qed.

(* the loop of `widen` over an abstract list of component ids *)
Definition wid (cis : list cinfo) (k : nat) (l : list nat) (acc : list (nat * cell) * list (nat * nat)) :=
  fold_left (fun (acc : list (nat * cell) * list (nat * nat)) c =>
      if has_comp (fst acc) c then acc
      else (insert_comp (fst acc) c (default_cell cis c), snd acc ++ [(k, c)])) l acc.

Lemma wid_spec cis k : forall l acc M, (forall c, In c l -> c < MASK_BITS) -> map fst (fst acc) = mitems M ->
  map fst (fst (wid cis k l acc)) = mitems (fold_left madd l M) /\
  forall c v, In (c, v) (fst (wid cis k l acc)) <->
              In (c, v) (fst acc) \/ (has_comp (fst acc) c = false /\ In c l /\ v = default_cell cis c).
Proof.
  induction l as [|c0 t IH]; intros acc M Hl Hk; simpl.
  - split; [exact Hk|]. intros c v. split; [auto|intros [H|(_ & [] & _)]; exact H].
  - assert (Hc0 : c0 < MASK_BITS) by (apply Hl; left; reflexivity).
    assert (Hl' : forall c, In c t -> c < MASK_BITS) by (intros c Hc; apply Hl; right; exact Hc).
    destruct (has_comp (fst acc) c0) eqn:Eh.
    + assert (Hm : mhas M c0 = true) by (apply has_comp_in in Eh; rewrite Hk in Eh; apply mitems_in in Eh; tauto).
      destruct (IH acc (madd M c0) Hl') as (I1 & I2); [rewrite (mitems_madd_present _ _ Hm); exact Hk|].
      split; [exact I1|]. intros c v. rewrite I2. split.
      * intros [H|(A & B & C)]; [left; exact H|right; auto].
      * intros [H|(A & [->|B] & C)]; [left; exact H|congruence|right; auto].
    + set (acc1 := (insert_comp (fst acc) c0 (default_cell cis c0), snd acc ++ [(k, c0)])).
      destruct (IH acc1 (madd M c0) Hl') as (I1 & I2); [unfold acc1; simpl; rewrite map_fst_insert_comp, Hk; symmetry; apply mitems_madd; exact Hc0|].
      split; [exact I1|]. intros c v. rewrite I2. unfold acc1. simpl fst. rewrite has_comp_insert. split.
      * intros [H|(A & B & C)].
        -- apply insert_comp_weak in H. destruct H as [(-> & ->)|H]; [right; auto|left; exact H].
        -- apply orb_false_iff in A. destruct A as (_ & A). right. auto.
      * intros [H|(A & [->|B] & C)].
        -- left. destruct (Nat.eq_dec c c0) as [->|Hne]; [|apply insert_comp_keep; assumption]. exfalso.
           assert (Hh : has_comp (fst acc) c0 = true) by (apply has_comp_in; apply in_map_iff; exists (c0, v); auto). congruence.
        -- left. subst v. apply insert_comp_has.
        -- destruct (Nat.eqb_spec c c0) as [->|Hne]; [left; subst v; apply insert_comp_has|right; simpl; auto].
Qed.

Lemma mhas_fold_madd l : forall M x, mhas (fold_left madd l M) x = mhas M x || existsb (Nat.eqb x) l.
Proof.
  induction l as [|c t IH]; intros M x; simpl; [rewrite orb_false_r; reflexivity|]. rewrite IH, mhas_madd.
  destruct (Nat.eqb x c), (mhas M x); reflexivity.
Qed.

Lemma widen_wid x k cs : widen x k cs = wid (x_cinfos x) k (mitems (closure (x_deps x) (comp_mask cs))) (cs, []).
Proof. unfold widen, wid. reflexivity. Qed.

(* widen: the component list cs of set M becomes a list of set T (T the closure); old entries stay, new ones are defaults *)
Lemma widen_spec x k cs M T : map fst cs = mitems M -> lowm M -> closure (x_deps x) M = T -> sub M T ->
  map fst (fst (widen x k cs)) = mitems T /\
  forall c v, In (c, v) (fst (widen x k cs)) <->
              In (c, v) cs \/ (mhas M c = false /\ c < MASK_BITS /\ mhas T c = true /\ v = default_cell (x_cinfos x) c).
Proof.
  intros Hk Hl HT Hsub. rewrite widen_wid, (comp_mask_keys cs M Hk Hl), HT.
  destruct (wid_spec (x_cinfos x) k (mitems T) (cs, []) M) as (I1 & I2); [intros c Hc; apply mitems_in in Hc; tauto|exact Hk|].
  split.
  - rewrite I1. apply mitems_meq128. intros c Hc. rewrite mhas_fold_madd. destruct (mhas M c) eqn:Em; simpl.
    + symmetry. apply Hsub. exact Em.
    + destruct (mhas T c) eqn:Et.
      * apply existsb_exists. exists c. split; [apply mitems_in; auto|apply Nat.eqb_refl].
      * destruct (existsb (Nat.eqb c) (mitems T)) eqn:Ee; [|reflexivity]. apply existsb_exists in Ee. destruct Ee as (y & Hy & E).
        apply Nat.eqb_eq in E. subst y. apply mitems_in in Hy. destruct Hy. congruence.
  - intros c v. rewrite I2. simpl fst. split.
    + intros [H|(A & B & C)]; [left; exact H|right]. apply mitems_in in B. destruct B as (B1 & B2).
      split; [|auto]. destruct (mhas M c) eqn:Em; [|reflexivity]. exfalso.
      assert (Hh : has_comp cs c = true) by (apply has_comp_in; rewrite Hk; apply mitems_in; auto). congruence.
    + intros [H|(A & B & C & D)]; [left; exact H|right]. split; [|split; [apply mitems_in; auto|exact D]].
      destruct (has_comp cs c) eqn:Eh; [|reflexivity]. apply has_comp_in in Eh. rewrite Hk in Eh. apply mitems_in in Eh. destruct Eh. congruence.
Qed.
