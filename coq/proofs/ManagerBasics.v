(* Basic algebra for the Manager model (C02): the res monad, lists with update, value cells,
   component masks and the component index of an archetype. *)
Require Import Coq.Lists.List Coq.NArith.NArith Coq.ZArith.ZArith Coq.Arith.Arith Coq.Bool.Bool Coq.micromega.Lia.
From Mustache Require Import Res Manager MgrSpec.
From Mustache.proofs Require Import ListLemmas SkelBasics ClosureProofs.
Import ListNotations.

(* ---------------------------------------------------------------------------------------- *)
(* the res monad *)
Lemma bindE {A B} (r : res A) (f : A -> res B) b : bind r f = Ok b -> exists a, r = Ok a /\ f a = Ok b.
Proof. destruct r as [a|e]; simpl; intros H; [exists a; auto|discriminate]. Qed.

(* induction over a checked fold, with the processed prefix as index of the invariant *)
Lemma fold_res_ind {A S} (f : S -> A -> res S) (P : list A -> S -> Prop) : forall l s s',
  P [] s ->
  (forall done x rest st st', l = done ++ x :: rest -> P done st -> f st x = Ok st' -> P (done ++ [x]) st') ->
  fold_res f l s = Ok s' -> P l s'.
Proof.
  intros l s s' H0 Hstep H.
  assert (Gen : forall rest done st, l = done ++ rest -> P done st -> fold_res f rest st = Ok s' -> P l s').
  { induction rest as [|x rest IH]; intros done st El HP Hf; simpl in Hf.
    - inversion Hf; subst. rewrite app_nil_r. assumption.
    - apply bindE in Hf. destruct Hf as (st' & Hx & Hf). apply (IH (done ++ [x]) st').
      + rewrite <- app_assoc. simpl. assumption.
      + eapply Hstep; eassumption.
      + assumption. }
  apply (Gen l [] s); auto.
Qed.

(* the same without the prefix *)
Lemma fold_res_inv {A S} (f : S -> A -> res S) (P : S -> Prop) : forall l s s',
  P s -> (forall x st st', In x l -> P st -> f st x = Ok st' -> P st') -> fold_res f l s = Ok s' -> P s'.
Proof.
  intros l s s' H0 Hstep H. apply (fold_res_ind f (fun _ st => P st) l s s'); [assumption| |assumption].
  intros done x rest st st' El HP Hf. apply (Hstep x st st'); [|assumption|assumption].
  rewrite El. apply in_or_app. right. left. reflexivity.
Qed.

(* ---------------------------------------------------------------------------------------- *)
(* lists *)
Lemma nth_upd {A} (l : list A) i j x d :
  nth j (upd l i x) d = if Nat.eqb i j && Nat.ltb i (length l) then x else nth j l d.
Proof.
  revert i j; induction l as [|h t IH]; intros i j; simpl.
  - rewrite andb_false_r. destruct i; reflexivity.
  - destruct i as [|i], j as [|j]; simpl; try reflexivity. rewrite IH. reflexivity.
Qed.

Lemma upd_comm {A} (l : list A) i j x y : i <> j -> upd (upd l i x) j y = upd (upd l j y) i x.
Proof.
  revert i j; induction l as [|h t IH]; intros [|i] [|j] H; simpl; try reflexivity; try congruence.
  f_equal. apply IH. congruence.
Qed.

Lemma upd_same_id {A} (l : list A) i a : nth_error l i = Some a -> upd l i a = l.
Proof. revert i; induction l as [|h t IH]; intros [|i] H; simpl in *; try discriminate; [inversion H; reflexivity|f_equal; auto]. Qed.

Lemma upd_upd {A} (l : list A) i x y : upd (upd l i x) i y = upd l i y.
Proof. revert i; induction l as [|h t IH]; intros [|i]; simpl; try reflexivity. f_equal. apply IH. Qed.

Lemma resize_length {A} (l : list A) n d : length (resize l n d) = n.
Proof. unfold resize. rewrite app_length, firstn_length, repeat_length. lia. Qed.

Lemma nth_resize_pad {A} (col : list A) n d j : length col <= n -> nth j (resize col n d) d = nth j col d.
Proof.
  intros H. unfold resize. rewrite firstn_all2 by assumption.
  destruct (Nat.lt_ge_cases j (length col)) as [Hlt|Hge].
  - apply app_nth1. assumption.
  - rewrite app_nth2 by assumption. rewrite nth_repeat. symmetry. apply nth_overflow. assumption.
Qed.

Lemma in_combine_seq {A} (l : list A) : forall s i x,
  In (i, x) (combine (seq s (length l)) l) <-> s <= i /\ nth_error l (i - s) = Some x.
Proof.
  induction l as [|a t IH]; intros s i x; simpl.
  - split; [intros []|]. intros (_ & H). destruct (i - s); discriminate.
  - rewrite IH. split.
    + intros [E|(Hle & Hn)].
      * inversion E; subst. rewrite Nat.sub_diag. auto.
      * split; [lia|]. replace (i - s) with (S (i - S s)) by lia. assumption.
    + intros (Hle & Hn). destruct (Nat.eq_dec s i) as [->|Hne].
      * rewrite Nat.sub_diag in Hn. simpl in Hn. inversion Hn. left. reflexivity.
      * right. split; [lia|]. replace (i - s) with (S (i - S s)) in Hn by lia. assumption.
Qed.

Lemma in_combine_seq0 {A} (l : list A) i x : In (i, x) (combine (seq 0 (length l)) l) <-> nth_error l i = Some x.
Proof. rewrite in_combine_seq. rewrite Nat.sub_0_r. split; [tauto|intros H; split; [lia|assumption]]. Qed.

Lemma map_fst_combine_seq {A} (l : list A) s : map fst (combine (seq s (length l)) l) = seq s (length l).
Proof. revert s; induction l as [|a t IH]; intros s; simpl; [reflexivity|]. rewrite IH. reflexivity. Qed.

Lemma map_snd_combine_seq {A} (l : list A) s : map snd (combine (seq s (length l)) l) = l.
Proof. revert s; induction l as [|a t IH]; intros s; simpl; [reflexivity|]. rewrite IH. reflexivity. Qed.

Lemma filter_filter' {A} (f g : A -> bool) l : filter g (filter f l) = filter (fun x => f x && g x) l.
Proof. induction l as [|a t IH]; simpl; [reflexivity|]. destruct (f a); simpl; [destruct (g a); simpl; rewrite IH; reflexivity|assumption]. Qed.

(* ---------------------------------------------------------------------------------------- *)
(* value cells *)
Definition padded (col : list cell) (slot : nat) : list cell :=
  if Nat.ltb slot (length col) then col else resize col (S slot) None.

Lemma padded_nth col slot j : nth j (padded col slot) None = nth j col None.
Proof.
  unfold padded. destruct (Nat.ltb_spec slot (length col)) as [Hlt|Hge]; [reflexivity|].
  apply nth_resize_pad. lia.
Qed.

Lemma padded_len col slot : slot < length (padded col slot).
Proof.
  unfold padded. destruct (Nat.ltb_spec slot (length col)) as [Hlt|Hge]; [assumption|].
  rewrite resize_length. lia.
Qed.

Lemma put_cell_eq a ci slot v :
  put_cell a ci slot v = with_cols a (upd (am_cols a) ci (upd (padded (nth ci (am_cols a) []) slot) slot v)).
Proof. reflexivity. Qed.

Lemma get_put a ci slot v ci' slot' :
  get_cell (put_cell a ci slot v) ci' slot' =
  if Nat.eqb ci ci' && Nat.ltb ci (length (am_cols a)) && Nat.eqb slot slot' then v else get_cell a ci' slot'.
Proof.
  rewrite put_cell_eq. unfold get_cell. cbn [am_cols with_cols]. rewrite nth_upd.
  destruct (Nat.eqb_spec ci ci') as [<-|Hne]; simpl; [|reflexivity].
  destruct (Nat.ltb_spec ci (length (am_cols a))) as [Hlt|Hge]; simpl; [|reflexivity].
  rewrite nth_upd. destruct (Nat.eqb_spec slot slot') as [<-|Hns]; simpl.
  - assert (H : (slot <? length (padded (nth ci (am_cols a) []) slot)) = true) by (apply Nat.ltb_lt; apply padded_len).
    rewrite H. reflexivity.
  - apply padded_nth.
Qed.

Lemma get_put_same a ci slot v : ci < length (am_cols a) -> get_cell (put_cell a ci slot v) ci slot = v.
Proof. intros H. rewrite get_put, !Nat.eqb_refl. apply Nat.ltb_lt in H. rewrite H. reflexivity. Qed.

Lemma get_put_other_col a ci slot v ci' slot' : ci <> ci' -> get_cell (put_cell a ci slot v) ci' slot' = get_cell a ci' slot'.
Proof. intros H. rewrite get_put. apply Nat.eqb_neq in H. rewrite H. reflexivity. Qed.

Lemma get_put_other_slot a ci slot v ci' slot' : slot <> slot' -> get_cell (put_cell a ci slot v) ci' slot' = get_cell a ci' slot'.
Proof. intros H. rewrite get_put. apply Nat.eqb_neq in H. rewrite H, andb_false_r. reflexivity. Qed.

Lemma put_cell_cols_length a ci slot v : length (am_cols (put_cell a ci slot v)) = length (am_cols a).
Proof. rewrite put_cell_eq. cbn [am_cols with_cols]. apply upd_length. Qed.

(* everything of an archetype but its columns / but its columns and version stamps *)
Definition ab1 (a : archetype) : archetype := with_cols a [].
Definition ab2 (a : archetype) : archetype := with_vers (with_cols a []) [] [].

Lemma ab1_put a ci slot v : ab1 (put_cell a ci slot v) = ab1 a.
Proof. reflexivity. Qed.
Lemma ab2_vers a g c : ab2 (with_vers a g c) = ab2 a.
Proof. reflexivity. Qed.
Lemma ab1_ab2 a a' : ab1 a' = ab1 a -> ab2 a' = ab2 a.
Proof. unfold ab2. fold (ab1 a) (ab1 a'). intros ->. reflexivity. Qed.

Lemma ab2_fields a a' : ab2 a' = ab2 a ->
  am_mask a' = am_mask a /\ am_shared a' = am_shared a /\ am_ents a' = am_ents a /\ am_size a' = am_size a /\ am_chunk a' = am_chunk a.
Proof.
  intros H. repeat split.
  - apply (f_equal am_mask) in H. exact H.
  - apply (f_equal am_shared) in H. exact H.
  - apply (f_equal am_ents) in H. exact H.
  - apply (f_equal am_size) in H. exact H.
  - apply (f_equal am_chunk) in H. exact H.
Qed.

(* ---------------------------------------------------------------------------------------- *)
(* masks *)
Lemma of_nat_eqb a b : N.eqb (N.of_nat a) (N.of_nat b) = Nat.eqb a b.
Proof. destruct (N.eqb_spec (N.of_nat a) (N.of_nat b)) as [E|E], (Nat.eqb_spec a b) as [E'|E']; try reflexivity; exfalso; lia. Qed.

Lemma mhas_madd m c x : mhas (madd m c) x = Nat.eqb x c || mhas m x.
Proof. unfold mhas, madd. rewrite N.setbit_eqb, of_nat_eqb, Nat.eqb_sym. reflexivity. Qed.

Lemma mhas_mdel m c x : mhas (mdel m c) x = mhas m x && negb (Nat.eqb x c).
Proof. unfold mhas, mdel. rewrite N.clearbit_eqb, of_nat_eqb, Nat.eqb_sym. reflexivity. Qed.

Lemma munion_zero m : munion m 0%N = m.
Proof. unfold munion. apply N.lor_0_r. Qed.

Lemma mitems_nodup m : NoDup (mitems m).
Proof. unfold mitems. apply NoDup_filter. apply seq_NoDup. Qed.

Lemma mitems_split m c : c < MASK_BITS ->
  mitems m = filter (mhas m) (seq 0 c) ++ (if mhas m c then [c] else []) ++ filter (mhas m) (seq (S c) (MASK_BITS - S c)).
Proof.
  intros Hc. unfold mitems. replace MASK_BITS with (c + S (MASK_BITS - S c)) at 1 by lia.
  rewrite seq_app, filter_app. simpl. destruct (mhas m c); reflexivity.
Qed.

Lemma cindex_nth m c ci : c < MASK_BITS -> cindex m c = Some ci -> nth_error (mitems m) ci = Some c.
Proof.
  intros Hc H. unfold cindex in H. destruct (mhas m c) eqn:E; [|discriminate]. inversion H; subst ci; clear H.
  rewrite (mitems_split m c Hc), E. rewrite nth_error_app2 by lia. rewrite Nat.sub_diag. reflexivity.
Qed.

Lemma nth_cindex m c ci : nth_error (mitems m) ci = Some c -> cindex m c = Some ci.
Proof.
  intros H. assert (Hin : In c (mitems m)) by (eapply nth_error_In; eassumption).
  apply mitems_in in Hin. destruct Hin as (Hc & Hm).
  assert (E : cindex m c = Some (length (filter (mhas m) (seq 0 c)))) by (unfold cindex; rewrite Hm; reflexivity).
  rewrite E. f_equal. apply cindex_nth in E; [|assumption].
  apply (proj1 (NoDup_nth_error (mitems m)) (mitems_nodup m)); [|congruence].
  apply nth_error_Some. congruence.
Qed.

Lemma cindex_some_has m c ci : cindex m c = Some ci -> mhas m c = true.
Proof. unfold cindex. destruct (mhas m c); [reflexivity|discriminate]. Qed.

Lemma cindex_none_has m c : cindex m c = None <-> mhas m c = false.
Proof. unfold cindex. destruct (mhas m c); split; intros H; congruence. Qed.

Lemma mcount_eq m : mcount m = length (mitems m).
Proof. unfold mcount. reflexivity. Qed.

Lemma cindex_lt m c ci : c < MASK_BITS -> cindex m c = Some ci -> ci < length (mitems m).
Proof. intros Hc H. apply nth_error_Some. rewrite (cindex_nth m c ci Hc H). discriminate. Qed.

Lemma mitems_mdel m c : mitems (mdel m c) = filter (fun x => negb (Nat.eqb x c)) (mitems m).
Proof.
  unfold mitems. rewrite filter_filter'. apply filter_ext. intros x. apply mhas_mdel.
Qed.

(* sorted insertion of a component id, as insert_comp does on the first components *)
Fixpoint ins_nat (c : nat) (l : list nat) : list nat :=
  match l with
  | [] => [c]
  | x :: t => if Nat.eqb c x then c :: t else if Nat.ltb c x then c :: l else x :: ins_nat c t
  end.

Lemma ins_nat_app c l1 r : Forall (fun x => x < c) l1 -> ins_nat c (l1 ++ r) = l1 ++ ins_nat c r.
Proof.
  induction 1 as [|x t Hx Ht IH]; simpl; [reflexivity|].
  destruct (Nat.eqb_spec c x); [lia|]. destruct (Nat.ltb_spec c x); [lia|]. rewrite IH. reflexivity.
Qed.

Lemma ins_nat_above c l : Forall (fun x => c < x) l -> ins_nat c l = c :: l.
Proof.
  destruct 1 as [|x t Hx Ht]; simpl; [reflexivity|].
  destruct (Nat.eqb_spec c x); [lia|]. destruct (Nat.ltb_spec c x); [reflexivity|lia].
Qed.

Lemma mitems_madd m c : c < MASK_BITS -> mitems (madd m c) = ins_nat c (mitems m).
Proof.
  intros Hc. rewrite (mitems_split (madd m c) c Hc), (mitems_split m c Hc).
  assert (E1 : filter (mhas (madd m c)) (seq 0 c) = filter (mhas m) (seq 0 c)).
  { apply filter_ext_in. intros x Hx. apply in_seq in Hx. rewrite mhas_madd. destruct (Nat.eqb_spec x c); [lia|reflexivity]. }
  assert (E2 : filter (mhas (madd m c)) (seq (S c) (MASK_BITS - S c)) = filter (mhas m) (seq (S c) (MASK_BITS - S c))).
  { apply filter_ext_in. intros x Hx. apply in_seq in Hx. rewrite mhas_madd. destruct (Nat.eqb_spec x c); [lia|reflexivity]. }
  rewrite E1, E2. rewrite mhas_madd, Nat.eqb_refl. simpl orb. cbv iota.
  assert (F1 : Forall (fun x => x < c) (filter (mhas m) (seq 0 c))).
  { apply Forall_forall. intros x Hx. apply filter_In in Hx. destruct Hx as (Hx & _). apply in_seq in Hx. lia. }
  assert (F2 : Forall (fun x => c < x) (filter (mhas m) (seq (S c) (MASK_BITS - S c)))).
  { apply Forall_forall. intros x Hx. apply filter_In in Hx. destruct Hx as (Hx & _). apply in_seq in Hx. lia. }
  rewrite ins_nat_app by assumption. f_equal.
  destruct (mhas m c); simpl.
  - rewrite Nat.eqb_refl. reflexivity.
  - symmetry. apply ins_nat_above. assumption.
Qed.

Lemma map_fst_insert_comp cs c v : map fst (insert_comp cs c v) = ins_nat c (map fst cs).
Proof.
  induction cs as [|[c' v'] t IH]; simpl; [reflexivity|].
  destruct (Nat.eqb c c'); [reflexivity|]. destruct (Nat.ltb c c'); [reflexivity|]. simpl. rewrite IH. reflexivity.
Qed.

(* ---------------------------------------------------------------------------------------- *)
(* the cell of component c (by id) at a slot of an archetype *)
Definition acell (a : archetype) (c slot : nat) : cell :=
  match cindex (am_mask a) c with Some ci => get_cell a ci slot | None => None end.

(* the component list a query observes (Refine.abs_ent), by component id *)
Lemma abs_comps_acell a slot :
  map (fun x : nat * nat => (snd x, get_cell a (fst x) slot)) (combine (seq 0 (length (mitems (am_mask a)))) (mitems (am_mask a)))
  = map (fun c => (c, acell a c slot)) (mitems (am_mask a)).
Proof.
  rewrite <- (map_snd_combine_seq (mitems (am_mask a)) 0) at 3. rewrite map_map.
  apply map_ext_in. intros (ci, c) Hin. apply in_combine_seq0 in Hin. simpl.
  unfold acell. rewrite (nth_cindex _ _ _ Hin). reflexivity.
Qed.
