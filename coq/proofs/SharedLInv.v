(* C12 under lock: the invariant of the locked refinement (ManagerLInv.LInv: commands may be pending in the buffers)
   generalised to shared components, the way SharedInv.SInv generalises ManagerInv.MInv.
   SLInv = LInv on the re-keyed model state (SharedFrame.rk) and the specification with the shared values erased
   (SharedInv.xns) + SX: every archetype's shared info is well formed, typed and pooled, the pool invariant holds, and
   the shared values the specification gives a live entity are those of the shared info of the archetype it is in.
   The lemmas are the counterparts of those of ManagerLInv.v, as the flush needs them. *)
Require Import Coq.Lists.List Coq.NArith.NArith Coq.ZArith.ZArith Coq.Arith.Arith Coq.Bool.Bool Coq.micromega.Lia.
From Mustache Require Import Res Manager MgrSpec Refine.
From Mustache Require Skeleton.
From Mustache Require Import SkelSpec.
From Mustache.proofs Require Import ListLemmas SkelBasics SkelInv SkelSteps SkelRefine SkelLocked SkelFlush SkelMove SkelMoveRem ClosureProofs
  ManagerBasics ManagerMoves ManagerProj ManagerInv ManagerMain ManagerLInv ManagerPack ManagerFlush DepsFrame DepsClosure DepsInv
  SharedProofs SharedKey SharedVals SharedFrame SharedInv.
Import ListNotations.

(* ---- the part of the invariant that speaks about shared components ---- *)
Record SX (s : mst) (al : list (nat * N)) (x : xst) : Prop := {
  sx_chunk : chunk_fns s = [];
  sx_hdr : Forall (hok s) (archs s);
  sx_pool : pool_wf s;
  sx_typool : typool s;
  sx_K : forall k key e, In (k, key) al -> find_ent x k = Some e ->
         exists a, In a (archs s) /\ am_mask (ha a) = key /\ e_shared e = shvals s (am_shared a)
}.

Definition SLInv (cis : list cinfo) (s : mst) (hs : list handle) (al : list (nat * N)) (rem : list scmd) (x : xst) : Prop :=
  LInv cis (rk s) hs al rem (xns x) /\ SX s al x.

Lemma fr1_rk s : fr1 (rk s) = fr1 s. Proof. reflexivity. Qed.
Lemma fr2_rk s : fr2 (rk s) = fr2 s. Proof. reflexivity. Qed.
Lemma fr4_rk s : fr4 (rk s) = fr4 s. Proof. reflexivity. Qed.

Lemma fr4_pool s s' : fr4 s' = fr4 s -> pool s' = pool s /\ insts s' = insts s /\ chunk_fns s' = chunk_fns s.
Proof.
  intros H. split; [apply (f_equal pool) in H; exact H|]. split; [apply (f_equal insts) in H; exact H|apply (f_equal chunk_fns) in H; exact H].
Qed.
Lemma fr1_pool s s' : fr1 s' = fr1 s -> pool s' = pool s /\ insts s' = insts s /\ chunk_fns s' = chunk_fns s.
Proof. intros H. apply fr4_pool, fr1_fr4, H. Qed.

(* how SX is re-established: the archetype headers are kept (new ones may be appended), the pool is untouched, and every
   live entity either keeps its key and its shared values or sits in an archetype whose shared info lists its values *)
Lemma SX_frame s s' al al' x x' ext :
  SX s al x -> chunk_fns s' = [] -> hdl s' = hdl s ++ ext -> pool s' = pool s -> insts s' = insts s ->
  (forall a, In a (archs s') -> In (hdr a) ext -> hok s' a) ->
  (forall k key e', In (k, key) al' -> find_ent x' k = Some e' ->
     (exists e, In (k, key) al /\ find_ent x k = Some e /\ e_shared e' = e_shared e) \/
     (exists a', In a' (archs s') /\ am_mask (ha a') = key /\ e_shared e' = shvals s' (am_shared a'))) ->
  SX s' al' x'.
Proof.
  intros [Hcf Hh Hp Ht HK] Hcf' Ehdl Ep Ei Hnew Hents.
  destruct (pstate_eq s s' Ep Ei) as (Hle & Hpw & Htp).
  assert (Hold : forall a, In a (archs s) -> exists a', In a' (archs s') /\ hdr a' = hdr a).
  { intros a Ha. apply hdr_in_archs. change (In (hdr a) (hdl s')). rewrite Ehdl. apply in_or_app. left. unfold hdl. apply in_map. exact Ha. }
  constructor; [exact Hcf'| |apply Hpw; exact Hp|apply Htp; exact Ht|].
  - apply Forall_forall. intros a' Ha'.
    assert (Hin : In (hdr a') (hdl s')) by (unfold hdl; apply in_map; exact Ha').
    rewrite Ehdl in Hin. apply in_app_or in Hin. destruct Hin as [Hin|Hin]; [|apply Hnew; assumption].
    destruct (hdr a') as (m, sh) eqn:E. destruct (hdr_in_archs _ _ _ Hin) as (a & Ha & Ea).
    apply (hok_transfer s s' a a'); [apply (proj1 (Forall_forall _ _) Hh a Ha)|congruence|exact Hle|exact Hp].
  - intros k key e' Hin Hfe. destruct (Hents k key e' Hin Hfe) as [(e & Hin0 & Hfe0 & Ee)|H]; [|exact H].
    destruct (HK k key e Hin0 Hfe0) as (a & Ha & Hk & Es). destruct (Hold a Ha) as (a' & Ha' & Eh).
    exists a'. split; [exact Ha'|]. split; [rewrite (hdr_kmask _ _ Eh); exact Hk|].
    assert (Esh : am_shared a' = am_shared a) by (unfold hdr in Eh; inversion Eh; reflexivity).
    rewrite Ee, Es, Esh. symmetry. apply shvals_le; [apply (proj1 (Forall_forall _ _) Hh a Ha)|exact Hle|exact Hp].
Qed.

(* the common case: headers, pool and keys untouched *)
Lemma SX_same s s' al x x' :
  SX s al x -> hdl s' = hdl s -> pool s' = pool s -> insts s' = insts s -> chunk_fns s' = chunk_fns s ->
  (forall k key e', In (k, key) al -> find_ent x' k = Some e' -> exists e, find_ent x k = Some e /\ e_shared e' = e_shared e) ->
  SX s' al x'.
Proof.
  intros HX Eh Ep Ei Ec Hf. apply (SX_frame s s' al al x x' [] HX); try assumption.
  - rewrite Ec. exact (sx_chunk _ _ _ HX).
  - rewrite app_nil_r. exact Eh.
  - intros a _ [].
  - intros k key e' Hin Hfe. left. destruct (Hf k key e' Hin Hfe) as (e & A & B). exists e. auto.
Qed.

Lemma SLInv_frame cis s s' hs al rem x :
  slots s' = slots s -> locs s' = locs s -> next_slot s' = next_slot s -> empty_slots s' = empty_slots s -> archs s' = archs s ->
  deps s' = deps s -> cinfos s' = cinfos s -> pool s' = pool s -> insts s' = insts s -> chunk_fns s' = chunk_fns s ->
  SLInv cis s hs al rem x -> SLInv cis s' hs al rem x.
Proof.
  intros E1 E2 E3 E4 E5 E6 E7 E8 E9 E10 (HL & HX). split.
  - eapply LInv_frame; [| | | | | | |exact HL]; unfold rk; cbn [slots locs next_slot empty_slots archs deps cinfos set_archs]; congruence.
  - apply (SX_same s s' al x x HX); try assumption; [unfold hdl; rewrite E5; reflexivity|]. intros k key e' _ Hfe. eauto.
Qed.

Lemma SLInv_fr1 cis s s' hs al rem x : fr1 s' = fr1 s -> archs s' = archs s -> SLInv cis s hs al rem x -> SLInv cis s' hs al rem x.
Proof.
  intros F A. destruct (fr2_slots _ _ (fr1_fr2 _ _ F)) as (E1 & E2 & E3). destruct (fr3_ctl _ _ (fr2_fr3 _ _ (fr1_fr2 _ _ F))) as (_ & E4 & E5 & _).
  destruct (fr1_pool _ _ F) as (P1 & P2 & P3).
  apply SLInv_frame; try assumption. apply (fr1_locs _ _ F).
Qed.

Lemma SLInv_set_log cis s hs al rem x l : SLInv cis s hs al rem x -> SLInv cis (set_log s l) hs al rem x.
Proof. apply SLInv_frame; reflexivity. Qed.

Lemma SLInv_ext cis s hs al rem x x' : SLInv cis s hs al rem x ->
  x_deps x' = x_deps x -> x_cinfos x' = x_cinfos x -> x_count x' = x_count x -> (forall k, find_ent x' k = find_ent x k) ->
  SLInv cis s hs al rem x'.
Proof.
  intros (HL & HX) X1 X2 X3 Hf. split.
  - eapply LInv_ext; [exact HL|exact X1|exact X2|exact X3|]. intros k. rewrite !find_ent_xns, Hf. reflexivity.
  - apply (SX_same s s al x x' HX); try reflexivity. intros k key e' _ Hfe. rewrite Hf in Hfe. eauto.
Qed.

Lemma SLInv_rem_ext cis s hs al rem rem' x : (forall k, pend rem' k <-> pend rem k) -> SLInv cis s hs al rem x -> SLInv cis s hs al rem' x.
Proof. intros Hp (HL & HX). split; [eapply LInv_rem_ext; eassumption|exact HX]. Qed.

(* ---- reading the invariant ---- *)
Lemma SL_lowm cis s hs al rem x : SLInv cis s hs al rem x -> Forall (fun a => lowm (am_mask a)) (archs s).
Proof. intros (_ & HX). eapply Forall_impl; [|exact (sx_hdr _ _ _ HX)]. intros a (H & _). exact H. Qed.

Lemma SL_hok cis s hs al rem x ai a : SLInv cis s hs al rem x -> nth_error (archs s) ai = Some a -> hok s a.
Proof. intros (_ & HX) Ha. apply (proj1 (Forall_forall _ _) (sx_hdr _ _ _ HX)). eapply nth_error_In. exact Ha. Qed.

Lemma SL_awf cis s hs al rem x ai a : SLInv cis s hs al rem x -> nth_error (archs s) ai = Some a ->
  am_size a = length (am_ents a) /\ length (am_cols a) = length (mitems (am_mask a)).
Proof. intros (HL & _) Ha. apply awf_ha. eapply awf_nth; [exact (li_awf _ _ _ _ _ _ HL)|apply arch_rk; exact Ha]. Qed.

Lemma SL_key_unique cis s hs al rem x a1 a2 i : SLInv cis s hs al rem x -> In a1 (archs s) -> nth_error (archs s) i = Some a2 ->
  am_mask (ha a1) = am_mask (ha a2) -> a1 = a2.
Proof.
  intros (HL & _) H1 H2 E. apply In_nth_error in H1. destruct H1 as (j & H1).
  pose proof (g_arch_keys (li_G _ _ _ _ _ _ HL)) as Hnd. simpl in Hnd. rewrite map_map in Hnd.
  assert (j = i).
  { apply (nodup_map_index am_mask (archs (rk s)) j i (ha a1) (ha a2) Hnd); [apply arch_rk; exact H1|apply arch_rk; exact H2|exact E]. }
  subst j. congruence.
Qed.

Lemma SL_index_unique cis s hs al rem x i j a1 a2 : SLInv cis s hs al rem x -> nth_error (archs s) i = Some a1 -> nth_error (archs s) j = Some a2 ->
  am_mask (ha a1) = am_mask (ha a2) -> i = j.
Proof.
  intros (HL & _) H1 H2 E.
  pose proof (g_arch_keys (li_G _ _ _ _ _ _ HL)) as Hnd. simpl in Hnd. rewrite map_map in Hnd.
  apply (nodup_map_index am_mask (archs (rk s)) i j (ha a1) (ha a2) Hnd); [apply arch_rk; exact H1|apply arch_rk; exact H2|exact E].
Qed.

(* a live entity: where it is, its cells, its shared values *)
Lemma live_sl cis s hs al rem x k key : SLInv cis s hs al rem x -> In (k, key) al ->
  k < length hs /\ exists e ai idx a, find_ent x k = Some e /\
    nth_error (locs s) (N.to_nat (fst (hnd hs k))) = Some {| l_arch := Some ai; l_idx := idx |} /\
    nth_error (archs s) ai = Some a /\ am_mask (ha a) = key /\ nth_error (am_ents a) idx = Some (hnd hs k) /\
    vmatch (erase e) (ha a) idx /\ e_shared e = shvals s (am_shared a).
Proof.
  intros HS Hin. pose proof HS as (HL & HX).
  destruct (live_vmatch_l _ _ _ _ _ _ _ _ HL Hin) as (Hk & e0 & ai & idx & a' & Hfe0 & Hloc & Ha' & Hkey & Hent & Hvm).
  destruct (arch_rk_inv _ _ _ Ha') as (a & Ha & ->). split; [exact Hk|].
  rewrite find_ent_xns in Hfe0. destruct (find_ent x k) as [e|] eqn:Hfe; [|discriminate]. simpl in Hfe0. inversion Hfe0; subst e0.
  exists e, ai, idx, a. split; [reflexivity|]. split; [exact Hloc|]. split; [exact Ha|]. split; [exact Hkey|]. split; [exact Hent|]. split; [exact Hvm|].
  destruct (sx_K _ _ _ HX k key e Hin Hfe) as (aw & Haw & Hkw & Es).
  rewrite (SL_key_unique _ _ _ _ _ _ aw a ai HS Haw Ha) in Es by congruence. exact Es.
Qed.

Lemma valid_find_sl cis s hs al rem x k : SLInv cis s hs al rem x -> is_valid s (hnd hs k) = true ->
  k < length hs /\ alive al k /\ exists e, find_ent x k = Some e.
Proof.
  intros (HL & _) Hv. destruct (valid_find_l cis (rk s) hs al rem (xns x) k HL Hv) as (A & B & e' & He').
  split; [exact A|]. split; [exact B|]. rewrite find_ent_xns in He'. destruct (find_ent x k) as [e|]; [eauto|discriminate].
Qed.

Lemma dead_find_sl cis s hs al rem x k : SLInv cis s hs al rem x -> k < length hs -> is_valid s (hnd hs k) = false -> find_ent x k = None.
Proof.
  intros (HL & _) Hk Hv. pose proof (dead_find_l cis (rk s) hs al rem (xns x) k HL Hk Hv) as H.
  rewrite find_ent_xns in H. destruct (find_ent x k); [discriminate|reflexivity].
Qed.

Lemma xns_xput x e : xput (xns x) (erase e) = xns (xput x e).
Proof. unfold xput, xns. simpl. rewrite map_erase_put. reflexivity. Qed.

(* ---------------------------------------------------------------------------------------- *)
(* getArchetype *)
Lemma rk_add_arch s m sh cs :
  rk (set_archs s (archs s ++ [new_arch m sh cs])) = set_archs (rk s) (archs (rk s) ++ [new_arch (kmk m sh) si_null cs]).
Proof. unfold rk. cbn [archs set_archs]. rewrite map_app. simpl map. rewrite ha_new. reflexivity. Qed.

Lemma SLInv_add_arch cis s hs al rem x m sh cs :
  SLInv cis s hs al rem x -> lowm m -> (forall a, hdr a = (m, sh) -> hok s a) -> find_arch (archs s) m sh 0 = None ->
  SLInv cis (set_archs s (archs s ++ [new_arch m sh cs])) hs al rem x.
Proof.
  intros HS Hm Hsh Hf. pose proof HS as (HL & HX). split.
  - rewrite rk_add_arch. apply LInv_add_arch; [exact HL|].
    unfold rk at 1. cbn [archs set_archs]. rewrite (find_arch_rk _ _ _ (SL_lowm _ _ _ _ _ _ HS) Hm). exact Hf.
  - apply (SX_frame s _ al al x x [(m, sh)] HX).
    + exact (sx_chunk _ _ _ HX).
    + unfold hdl. cbn [archs set_archs]. rewrite map_app. reflexivity.
    + reflexivity.
    + reflexivity.
    + intros a _ [E|[]]. apply (hok_transfer s _ a a); [apply Hsh; symmetry; exact E|reflexivity| |exact (sx_pool _ _ _ HX)].
      apply (pstate_eq s (set_archs s (archs s ++ [new_arch m sh cs])) eq_refl eq_refl).
    + intros k key e' Hin Hfe. left. exists e'. auto.
Qed.

Lemma SLInv_get_arch_indep cis s hs al rem x s3 m sh s4 ai :
  SLInv cis s hs al rem x -> archs s3 = archs s -> deps s3 = [] -> lowm m -> (forall a, hdr a = (m, sh) -> hok s a) ->
  get_arch s3 m sh = Ok (s4, ai) ->
  fr1 s4 = fr1 s3 /\
  exists sa, SLInv cis sa hs al rem x /\ archs s4 = archs sa /\ fr1 sa = fr1 s /\
    (forall j a', nth_error (archs s) j = Some a' -> nth_error (archs sa) j = Some a') /\
    exists a, nth_error (archs sa) ai = Some a /\ am_mask a = m /\ si_eqb (am_shared a) sh = true.
Proof.
  intros HS Ea Hd Hm Hsh H. destruct (get_arch_ok _ _ _ _ _ Hd H) as [(-> & a & Ha & Hma & Hsa)|(Hf & -> & cs & ->)].
  - split; [reflexivity|]. exists s. rewrite Ea in Ha. split; [exact HS|]. split; [exact Ea|]. split; [reflexivity|]. split; [auto|].
    exists a. auto.
  - split; [reflexivity|]. rewrite Ea in Hf. exists (set_archs s (archs s ++ [new_arch m sh cs])).
    split; [apply SLInv_add_arch; assumption|]. split; [simpl; rewrite Ea; reflexivity|]. split; [reflexivity|]. split.
    + intros j a' Hj. simpl. rewrite nth_error_app1; [exact Hj|]. apply nth_error_Some. congruence.
    + exists (new_arch m sh cs). simpl. rewrite Ea. split; [apply nth_error_app_last|]. split; [reflexivity|]. apply enc_eqb. reflexivity.
Qed.

Lemma SLInv_get_arch cis s hs al rem x m sh s1 ai :
  SLInv cis s hs al rem x -> lowm m -> (forall a, hdr a = (m, sh) -> hok s a) -> get_arch s m sh = Ok (s1, ai) ->
  SLInv cis s1 hs al rem x /\ fr1 s1 = fr1 s /\
  (forall j a', nth_error (archs s) j = Some a' -> nth_error (archs s1) j = Some a') /\
  exists a, nth_error (archs s1) ai = Some a /\ am_mask a = m /\ si_eqb (am_shared a) sh = true.
Proof.
  intros HS Hm Hsh H. pose proof HS as (HL & _).
  assert (Hd : deps s = []) by exact (li_deps _ _ _ _ _ _ HL).
  destruct (SLInv_get_arch_indep _ _ _ _ _ _ _ _ _ _ _ HS eq_refl Hd Hm Hsh H) as (F & sa & HSa & Ea & Fa & Hk & a & Ha & Hma & Hsa).
  split; [eapply SLInv_fr1; [| |exact HSa]; [congruence|exact Ea]|]. split; [exact F|]. rewrite Ea. split; [exact Hk|]. exists a. auto.
Qed.

Lemma key_of_eqb a m sh : am_mask a = m -> si_eqb (am_shared a) sh = true -> am_mask (ha a) = kmk m sh.
Proof. intros E1 E2. rewrite ha_mask, E1. unfold kmk. apply enc_eqb in E2. rewrite E2. reflexivity. Qed.

(* ---------------------------------------------------------------------------------------- *)
(* the assigned temporaries are written at the slot of the live entity *)
Lemma emit_rk s e : rk (emit s e) = emit (rk s) e. Proof. reflexivity. Qed.

Lemma wr_step_rk tid h ai a idx st c : asg_ok c ->
  wr_step tid h ai (ha a) idx (rk st) c = rmap rk (wr_step tid h ai a idx st c).
Proof.
  intros Hc. destruct c as [h' ha0 m sh|h'|h'|h' c|h' cid n]; try reflexivity. simpl in Hc. unfold wr_step.
  change (info_of (rk st) cid) with (info_of st cid). apply bind_same. intros inf.
  rewrite ha_mask, (cindex_kmk _ _ _ Hc). destruct (cindex (am_mask a) cid) as [ci|]; [|reflexivity].
  change (tmps (rk st)) with (tmps st). apply bind_same. intros tl. apply bind_same. intros v.
  apply (bind_comm rk); [apply write_cell_rk|]. intros st1. change (epoch (rk st)) with (epoch st).
  destruct (ci_mctor inf && ci_ev inf), (ci_aa inf); reflexivity.
Qed.

Lemma acell_ha a c slot : c < MASK_BITS -> acell (ha a) c slot = acell a c slot.
Proof. intros Hc. unfold acell. rewrite ha_mask, (cindex_kmk _ _ _ Hc). destruct (cindex (am_mask a) c); reflexivity. Qed.

Lemma finish_write_s cis tid tl h s5 hs al rem x5 k key ai a5 idx p e' s6 :
  SLInv cis s5 hs al rem x5 -> In (k, key) al -> hnd hs k = h ->
  nth_error (archs s5) ai = Some a5 -> am_mask (ha a5) = key -> nth_error (am_ents a5) idx = Some h ->
  nth_error (locs s5) (N.to_nat (fst h)) = Some {| l_arch := Some ai; l_idx := idx |} ->
  nth_error (tmps s5) tid = Some tl -> Forall asg_ok p ->
  e_k e' = k -> map fst (e_comps e') = mitems (am_mask a5) -> e_shared e' = shvals s5 (am_shared a5) ->
  (forall c v, In (c, v) (e_comps e') -> match last_asg tl p c with Some w => v = w | None => cell_le v (acell a5 c idx) = true end) ->
  (do l <- nth_res (locs s5) (N.to_nat (fst h)); do a <- nth_res (archs s5) ai; fold_res (wr_step tid h ai a (l_idx l)) p s5) = Ok s6 ->
  SLInv cis s6 hs al rem (xput x5 e') /\ fr1 s6 = fr1 s5.
Proof.
  intros HS Hin Eh Ha Hkey Hent Hloc Htl Hp Hek Hkeys Hsh Hvals H. pose proof HS as (HL & HX).
  assert (Hrk : (do l <- nth_res (locs (rk s5)) (N.to_nat (fst h)); do a <- nth_res (archs (rk s5)) ai;
                 fold_res (wr_step tid h ai a (l_idx l)) p (rk s5)) = Ok (rk s6)).
  { change (locs (rk s5)) with (locs s5). rewrite (nth_res_some _ _ _ Hloc), bind_Ok in H |- *.
    rewrite (nth_res_some _ _ _ (arch_rk _ _ _ Ha)), bind_Ok. rewrite (nth_res_some _ _ _ Ha), bind_Ok in H. simpl l_idx in *.
    rewrite (fold_res_comm_in rk (wr_step tid h ai a5 idx) (wr_step tid h ai (ha a5) idx)).
    - rewrite H. reflexivity.
    - intros st c Hc. apply wr_step_rk. exact (proj1 (Forall_forall _ _) Hp c Hc). }
  destruct (finish_write cis tid tl h (rk s5) hs al rem (xns x5) k key ai (ha a5) idx p (erase e') (rk s6) HL Hin Eh (arch_rk _ _ _ Ha) Hent Hloc Htl Hp Hek)
    as (HL6 & F6); [rewrite mitems_ha; exact Hkeys|reflexivity| |exact Hrk|].
  { intros c v Hcv. specialize (Hvals c v Hcv). destruct (last_asg tl p c); [exact Hvals|]. rewrite acell_ha; [exact Hvals|].
    assert (Hi : In c (mitems (am_mask a5))) by (rewrite <- Hkeys; apply in_map_iff; exists (c, v); auto). apply mitems_in in Hi. tauto. }
  assert (F6' : fr1 s6 = fr1 s5) by exact F6.
  split; [|exact F6']. rewrite xns_xput in HL6. split; [exact HL6|].
  (* the headers *)
  rewrite (nth_res_some _ _ _ Hloc), bind_Ok, (nth_res_some _ _ _ Ha), bind_Ok in H. simpl l_idx in H.
  destruct (SL_awf _ _ _ _ _ _ _ _ HS Ha) as (_ & Wc).
  destruct (wr_fold tid h ai a5 idx tl s5 a5 Ha eq_refl Wc Htl p s5 a5 s6 Hp (cells_of_refl _ _ _ _ Ha) H) as (a6 & Hc6 & _).
  destruct Hc6 as (_ & A6 & Hab6 & _).
  assert (Eh6 : hdr a6 = hdr a5).
  { apply ab1_ab2 in Hab6. destruct (ab2_fields _ _ Hab6) as (E1 & E2 & _). unfold hdr. rewrite E1, E2. reflexivity. }
  destruct (fr1_pool _ _ F6') as (P1 & P2 & P3).
  apply (SX_frame s5 s6 al al x5 (xput x5 e') [] HX).
  - rewrite P3. exact (sx_chunk _ _ _ HX).
  - rewrite app_nil_r. unfold hdl. rewrite A6. apply (hdl_upd _ _ _ _ Ha Eh6).
  - exact P1.
  - exact P2.
  - intros a0 _ [].
  - intros k' key' e0 Hin' Hfe0. rewrite xput_find, Hek in Hfe0. destruct (Nat.eqb_spec k' k) as [->|Hne]; [|left; exists e0; auto].
    inversion Hfe0; subst e0. right. exists a6. split; [rewrite A6; eapply nth_error_In; apply nth_error_upd_same; apply nth_error_Some; congruence|].
    assert (key' = key).
    { pose proof (g_al_nodup (li_G _ _ _ _ _ _ HL)) as Hnd. eapply (nodup_keys_value al k key' key Hnd); assumption. }
    subst key'. split; [rewrite (hdr_kmask _ _ Eh6); exact Hkey|].
    assert (Es : am_shared a6 = am_shared a5) by (unfold hdr in Eh6; inversion Eh6; reflexivity).
    rewrite Es, Hsh. symmetry. apply shvals_insts. intros i _. apply inst_value_insts. exact P2.
Qed.

(* ---------------------------------------------------------------------------------------- *)
(* a live entity moves to another archetype *)
Lemma SLInv_move cis s hs al rem x k key ai a_t pai pidx pa skip s2 e_new :
  SLInv cis s hs al rem x -> In (k, key) al -> e_k e_new = k ->
  nth_error (locs s) (N.to_nat (fst (hnd hs k))) = Some {| l_arch := Some pai; l_idx := pidx |} ->
  nth_error (archs s) pai = Some pa -> nth_error (am_ents pa) pidx = Some (hnd hs k) ->
  nth_error (archs s) ai = Some a_t ->
  external_move s ai (hnd hs k) pai pidx skip = Ok s2 ->
  (forall a2, am_mask a2 = am_mask (ha a_t) ->
     (forall ci c, nth_error (mitems (am_mask (ha a_t))) ci = Some c ->
        (forall pci, cindex (am_mask (ha pa)) c = Some pci -> get_cell a2 ci (length (am_ents a_t)) = get_cell pa pci pidx) /\
        (cindex (am_mask (ha pa)) c = None -> mhas skip c = false ->
         cell_le (default_cell cis c) (get_cell a2 ci (length (am_ents a_t))) = true)) ->
     vmatch (erase e_new) a2 (length (am_ents a_t))) ->
  e_shared e_new = shvals s (am_shared a_t) ->
  SLInv cis s2 hs (retag al k (am_mask (ha a_t))) rem (xput x e_new) /\ fr2 s2 = fr2 s /\
  exists a2, nth_error (archs s2) ai = Some a2 /\ hdr a2 = hdr a_t /\
     nth_error (am_ents a2) (length (am_ents a_t)) = Some (hnd hs k) /\
     nth_error (locs s2) (N.to_nat (fst (hnd hs k))) = Some {| l_arch := Some ai; l_idx := length (am_ents a_t) |} /\
     (forall ci c, nth_error (mitems (am_mask a_t)) ci = Some c -> forall pci, cindex (am_mask (ha pa)) c = Some pci ->
        get_cell a2 ci (length (am_ents a_t)) = get_cell pa pci pidx).
Proof.
  intros HS Hin Hek Hloc Hpa Hent Hat Hmv Hnew Hsh. pose proof HS as (HL & HX).
  assert (Hmv' : external_move (rk s) ai (hnd hs k) pai pidx skip = Ok (rk s2)).
  { rewrite (external_move_rk s ai _ pai pidx skip skip) by (intros c0 _; reflexivity). rewrite (rmap_ok _ _ _ Hmv). reflexivity. }
  destruct (LInv_move cis (rk s) hs al rem (xns x) k key ai (ha a_t) pai pidx (ha pa) skip (rk s2) (erase e_new)
              HL Hin Hek Hloc (arch_rk _ _ _ Hpa) Hent (arch_rk _ _ _ Hat) Hmv' Hnew) as (HL2 & F2r & a2r & Ha2r & Em2 & Hent2 & Hloc2 & Hcopy).
  destruct (arch_rk_inv _ _ _ Ha2r) as (a2 & Ha2 & ->).
  destruct (SL_awf _ _ _ _ _ _ _ _ HS Hat) as (_ & Wt). destruct (SL_awf _ _ _ _ _ _ _ _ HS Hpa) as (Wp1 & Wp2).
  destruct (external_move_ok _ _ _ _ _ _ _ _ _ Hat Hpa Wt Wp1 Wp2 Hmv)
    as (Hne & a2' & pa' & pent & l3 & F & A & _ & (last & _ & Habp & _) & _ & _ & Hab & _).
  assert (Hai : ai < length (archs s)) by (apply nth_error_Some; congruence).
  assert (Ea2 : a2' = a2).
  { rewrite A, nth_error_upd_other in Ha2 by congruence. rewrite nth_error_upd_same in Ha2 by exact Hai. congruence. }
  subst a2'. destruct (fr2_pool _ _ F) as (Ep & Ei & Ec).
  assert (Eh : hdl s2 = hdl s).
  { unfold hdl. rewrite A. rewrite (hdl_upd (upd (archs s) ai a2) pai pa pa'); [apply (hdl_upd _ _ _ _ Hat (ab3_hdr _ _ Hab))| |apply (ab3_hdr _ _ Habp)].
    rewrite nth_error_upd_other by exact Hne. exact Hpa. }
  split; [split|split; [exact F|]].
  - rewrite <- xns_xput. exact HL2.
  - apply (SX_frame s s2 al _ x (xput x e_new) [] HX).
    + rewrite Ec. exact (sx_chunk _ _ _ HX).
    + rewrite app_nil_r. exact Eh.
    + exact Ep.
    + exact Ei.
    + intros a0 _ [].
    + intros k' key' e0 Hin' Hfe0. rewrite xput_find, Hek in Hfe0. apply retag_in in Hin'. destruct Hin' as [(-> & -> & _)|(Hnk & Hin')].
      * right. rewrite Nat.eqb_refl in Hfe0. inversion Hfe0; subst e0. exists a2. split; [eapply nth_error_In; exact Ha2|].
        split; [apply hdr_kmask; apply (ab3_hdr _ _ Hab)|]. destruct (ab3_fields _ _ Hab) as (_ & Es & _). rewrite Es, Hsh.
        symmetry. apply shvals_insts. intros i _. apply inst_value_insts. exact Ei.
      * left. exists e0. apply Nat.eqb_neq in Hnk. rewrite Hnk in Hfe0. auto.
  - exists a2. split; [exact Ha2|]. split; [apply (ab3_hdr _ _ Hab)|]. split; [exact Hent2|]. split; [exact Hloc2|].
    intros ci c Hn pci Hp. apply (Hcopy ci c); [rewrite mitems_ha; exact Hn|exact Hp].
Qed.

(* ---------------------------------------------------------------------------------------- *)
(* destroyNow of an issued handle *)
Lemma SLInv_destroy_now cis s hs al rem x k s' :
  SLInv cis s hs al rem x -> within (length hs) -> k < length hs ->
  destroy_now_unlocked s (hnd hs k) = Ok s' ->
  SLInv cis s' hs (kill al k) rem (x_kill x k) /\ fr4 s' = fr4 s /\ marked s' = marked s.
Proof.
  intros HS Hb Hk Hd. pose proof HS as (HL & HX).
  assert (Hd' : destroy_now_unlocked (rk s) (hnd hs k) = Ok (rk s')) by (rewrite destroy_now_unlocked_rk, (rmap_ok _ _ _ Hd); reflexivity).
  destruct (LInv_destroy_now cis (rk s) hs al rem (xns x) k (rk s') HL Hb Hk Hd') as (HL' & F' & M').
  assert (F4 : fr4 s' = fr4 s) by exact F'. assert (M4 : marked s' = marked s) by exact M'.
  split; [|split; assumption]. rewrite xns_kill in HL'. split; [exact HL'|].
  destruct (fr4_pool _ _ F4) as (Ep & Ei & Ec).
  assert (Eh : hdl s' = hdl s).
  { unfold destroy_now_unlocked in Hd. destruct (is_valid s (hnd hs k)) eqn:Ev; [|inversion Hd; reflexivity].
    destruct (valid_find_sl _ _ _ _ _ _ _ HS Ev) as (_ & Ha & _). destruct (alive_in _ _ Ha) as (key & Hin).
    destruct (live_sl _ _ _ _ _ _ _ _ HS Hin) as (_ & e & ai & idx & a & _ & Hloc & Harch & _).
    rewrite (nth_res_some _ _ _ Hloc) in Hd. bok Hd. simpl l_arch in Hd. cbv iota in Hd. simpl l_idx in Hd.
    bd Hd s2 Hrm. inversion Hd; subst s'; clear Hd.
    destruct (SL_awf _ _ _ _ _ _ _ _ HS Harch) as (W1 & W2).
    destruct (arch_remove_ok _ _ _ _ _ _ _ Harch W1 W2 Hrm) as (a' & _ & A2 & (last & _ & Hab & _)).
    unfold hdl. change (archs (release_id s2 (hnd hs k))) with (archs s2). rewrite A2. apply (hdl_upd _ _ _ _ Harch (ab3_hdr _ _ Hab)). }
  apply (SX_frame s s' al _ x (x_kill x k) [] HX).
  - rewrite Ec. exact (sx_chunk _ _ _ HX).
  - rewrite app_nil_r. exact Eh.
  - exact Ep.
  - exact Ei.
  - intros a0 _ [].
  - intros k' key e' Hin Hfe. apply kill_in in Hin. destruct Hin as (Hin & Hne). left. exists e'.
    destruct (x_kill_eq x k) as (_ & Hf). rewrite Hf in Hfe. apply Nat.eqb_neq in Hne. rewrite Hne in Hfe. auto.
Qed.

(* ---------------------------------------------------------------------------------------- *)
(* a recorded creation is applied: the entity enters archetype ai (whose shared info is empty) *)
Lemma ab3_ha a a' : ab3 a' = ab3 a -> ab3 (ha a') = ab3 (ha a).
Proof.
  intros H. destruct (ab3_fields _ _ H) as (E1 & E2 & E3). unfold ab3, ab2, ha, with_size, with_ents, with_vers, with_cols. simpl.
  rewrite E1, E2, E3. reflexivity.
Qed.

Lemma SLInv_activate cis s s' hs al rem rem' x k i ai a a3 e_new :
  SLInv cis s hs al rem x -> pend rem k -> (forall k', pend rem' k' <-> pend rem k' /\ k' <> k) -> hnd hs k = (i, 0%N) ->
  length (locs s') = length (slots s') -> length (slots s) <= length (slots s') -> length (slots s') <= length hs ->
  nth_error (slots s') (N.to_nat i) = Some {| s_id := i; s_ver := 0%N |} ->
  (forall j, j <> N.to_nat i -> j < length (slots s) -> nth_error (slots s') j = nth_error (slots s) j) ->
  (forall j, j <> N.to_nat i -> length (slots s) <= j -> j < length (slots s') -> nth_error (slots s') j = Some null_slot) ->
  next_slot s' = next_slot s -> empty_slots s' = empty_slots s ->
  nth_error (archs s) ai = Some a ->
  archs s' = upd (archs s) ai a3 -> ab3 a3 = ab3 a -> am_ents a3 = am_ents a ++ [(i, 0%N)] ->
  am_size a3 = Nat.max (am_size a) (S (length (am_ents a))) -> length (am_cols a3) = length (am_cols a) ->
  (forall ci slot, slot <> length (am_ents a) -> get_cell a3 ci slot = get_cell a ci slot) ->
  nth_error (locs s') (N.to_nat i) = Some {| l_arch := Some ai; l_idx := length (am_ents a) |} ->
  (forall j, j <> N.to_nat i -> j < length (locs s) -> nth_error (locs s') j = nth_error (locs s) j) ->
  deps s' = deps s -> cinfos s' = cinfos s -> pool s' = pool s -> insts s' = insts s -> chunk_fns s' = chunk_fns s ->
  e_k e_new = k -> vmatch (erase e_new) (ha a3) (length (am_ents a)) -> e_shared e_new = shvals s (am_shared a) ->
  SLInv cis s' hs (al ++ [(k, am_mask (ha a))]) rem' (xput x e_new).
Proof.
  intros HS Hpk Hp Eh A1 A10 A11 A2 A3 A4 En Ee Harch A6 Hab He Hz Hcl Hcells A7 A7o Ed Ec Ep Ei Ecf Hek Hnew Hsh.
  pose proof HS as (HL & HX). split.
  - rewrite <- xns_xput.
    apply (LInv_activate cis (rk s) (rk s') hs al rem rem' (xns x) k i ai (ha a) (ha a3) (erase e_new) HL Hpk Hp Eh); try assumption.
    + apply arch_rk. exact Harch.
    + unfold rk. cbn [archs set_archs]. rewrite A6, map_upd. reflexivity.
    + apply ab3_ha. exact Hab.
  - assert (Eh3 : hdr a3 = hdr a) by (apply ab3_hdr; exact Hab).
    apply (SX_frame s s' al _ x (xput x e_new) [] HX).
    + rewrite Ecf. exact (sx_chunk _ _ _ HX).
    + rewrite app_nil_r. unfold hdl. rewrite A6. apply (hdl_upd _ _ _ _ Harch Eh3).
    + exact Ep.
    + exact Ei.
    + intros a0 _ [].
    + intros k' key' e0 Hin' Hfe0. rewrite xput_find, Hek in Hfe0. apply in_app_or in Hin'. destruct Hin' as [Hin'|[E0|[]]].
      * left. exists e0. split; [exact Hin'|]. split; [|reflexivity].
        destruct (Nat.eqb_spec k' k) as [->|Hne]; [|exact Hfe0]. exfalso.
        destruct (g_pend (li_G _ _ _ _ _ _ HL) k Hpk) as (_ & Hna & _). apply Hna. unfold alive. apply in_map_iff. exists (k, key'). auto.
      * right. inversion E0; subst k' key'. rewrite Nat.eqb_refl in Hfe0. inversion Hfe0; subst e0. exists a3.
        split; [rewrite A6; eapply nth_error_In; apply nth_error_upd_same; apply nth_error_Some; congruence|].
        split; [apply hdr_kmask; exact Eh3|].
        assert (Es : am_shared a3 = am_shared a) by (unfold hdr in Eh3; inversion Eh3; reflexivity).
        rewrite Es, Hsh. symmetry. apply shvals_insts. intros j _. apply inst_value_insts. exact Ei.
Qed.

(* ... or is destroyed by the same pack *)
Lemma SLInv_stillborn cis s s' hs al rem rem' x k i :
  SLInv cis s hs al rem x -> pend rem k -> (forall k', pend rem' k' <-> pend rem k' /\ k' <> k) -> hnd hs k = (i, 0%N) ->
  length (locs s') = length (slots s') -> length (slots s) <= length (slots s') -> length (slots s') <= length hs ->
  nth_error (slots s') (N.to_nat i) =
    Some {| s_id := match empty_slots s with O => (i + 1)%N | S _ => next_slot s end; s_ver := 1%N |} ->
  (forall j, j <> N.to_nat i -> j < length (slots s) -> nth_error (slots s') j = nth_error (slots s) j) ->
  (forall j, j <> N.to_nat i -> length (slots s) <= j -> j < length (slots s') -> nth_error (slots s') j = Some null_slot) ->
  next_slot s' = i -> empty_slots s' = S (empty_slots s) -> archs s' = archs s ->
  (forall j, j <> N.to_nat i -> j < length (locs s) -> nth_error (locs s') j = nth_error (locs s) j) ->
  deps s' = deps s -> cinfos s' = cinfos s -> pool s' = pool s -> insts s' = insts s -> chunk_fns s' = chunk_fns s ->
  SLInv cis s' hs al rem' x.
Proof.
  intros HS Hpk Hp Eh A1 A10 A11 A2 A3 A4 En Ee Ea A7o Ed Ec Ep Ei Ecf. pose proof HS as (HL & HX). split.
  - apply (LInv_stillborn cis (rk s) (rk s') hs al rem rem' (xns x) k i HL Hpk Hp Eh); try assumption.
    unfold rk. cbn [archs set_archs]. rewrite Ea. reflexivity.
  - apply (SX_same s s' al x x HX); try assumption; [unfold hdl; rewrite Ea; reflexivity|]. intros k' key e' _ Hfe. eauto.
Qed.
