(* EventsRun: the one-step refinement of EventsProofs lifted to whole runs, against a specification that no longer
   borrows anything from the concrete state: it keeps its own list of live managers. *)
Require Import Coq.Lists.List Coq.Arith.Arith Coq.Bool.Bool Coq.micromega.Lia.
From Mustache Require Import Events.
From Mustache.proofs Require Import ListLemmas EventsProofs.
Import ListNotations.

(* ---- the self-contained specification ---- *)
Record sst := { s_subs : subs; s_alive : list bool }.
Definition s_init : sst := {| s_subs := []; s_alive := [] |}.
Definition s_alive_of (a : list bool) (m : nat) : bool := nth m a false.
Definition s_alive_step (a : list bool) (o : eop) : list bool :=
  match o with
  | ENewMgr => a ++ [true]
  | EDelMgr m => upd a m false
  | _ => a
  end.
Definition sst_step (x : sst) (o : eop) : sst * list recv :=
  ({| s_subs := fst (sp_step (s_subs x) (s_alive_of (s_alive x)) o); s_alive := s_alive_step (s_alive x) o |},
   snd (sp_step (s_subs x) (s_alive_of (s_alive x)) o)).
(* the contract of the API: subscribing to and posting on a manager that exists *)
Definition sop_ok (x : sst) (o : eop) : Prop :=
  match o with
  | ESub m _ _ | EPost m _ => s_alive_of (s_alive x) m = true
  | _ => True
  end.
Fixpoint ops_ok (x : sst) (ops : list eop) : Prop :=
  match ops with [] => True | o :: t => sop_ok x o /\ ops_ok (fst (sst_step x o)) t end.

Fixpoint run_e (s : est) (ops : list eop) : list (list recv) :=
  match ops with [] => [] | o :: t => snd (e_step s o) :: run_e (fst (e_step s o)) t end.
Fixpoint run_s (x : sst) (ops : list eop) : list (list recv) :=
  match ops with [] => [] | o :: t => snd (sst_step x o) :: run_s (fst (sst_step x o)) t end.
Definition final_e (s : est) (ops : list eop) : est := fold_left (fun s o => fst (e_step s o)) ops s.
Definition final_s (x : sst) (ops : list eop) : sst := fold_left (fun x o => fst (sst_step x o)) ops x.

(* ---- the liveness list of the specification is the liveness of the managers ---- *)
Definition AliveRel (s : est) (a : list bool) : Prop :=
  length a = length (mgrs s) /\ forall m, alive_of s m = s_alive_of a m.

Lemma type_id_mgrs s ty : mgrs (fst (type_id s ty)) = mgrs s.
Proof. unfold type_id. destruct (index_of (type_ids s) ty 0); reflexivity. Qed.

Lemma with_mgr_len s m f : length (mgrs (with_mgr s m f)) = length (mgrs s).
Proof. unfold with_mgr. destruct (nth_error (mgrs s) m); simpl; [apply upd_length|reflexivity]. Qed.

Lemma alive_with_mgr s m f k :
  (forall mg, m_alive (f mg) = m_alive mg) -> alive_of (with_mgr s m f) k = alive_of s k.
Proof.
  intros Hf. unfold alive_of, with_mgr. destruct (nth_error (mgrs s) m) as [mg|] eqn:Em; [|reflexivity].
  simpl. rewrite nth_error_upd. destruct (Nat.eqb m k && Nat.ltb m (length (mgrs s))) eqn:E; [|reflexivity].
  apply andb_true_iff in E. destruct E as [E _]. apply Nat.eqb_eq in E. subst k. rewrite Em. apply Hf.
Qed.

Lemma alive_of_mgrs s s' k : mgrs s' = mgrs s -> alive_of s' k = alive_of s k.
Proof. intros H. unfold alive_of. rewrite H. reflexivity. Qed.

Lemma nth_upd_bool (a : list bool) i j x :
  nth j (upd a i x) false = if Nat.eqb i j && Nat.ltb i (length a) then x else nth j a false.
Proof. apply nth_upd. Qed.

Lemma alive_rel_step s a o : AliveRel s a -> AliveRel (fst (e_step s o)) (s_alive_step a o).
Proof.
  intros [Hl Ha]. destruct o as [|m|m ty r|m ty r|m ty]; simpl.
  - split; [simpl; rewrite !app_length; simpl; lia|]. intros k. unfold alive_of, s_alive_of. simpl.
    specialize (Ha k). unfold alive_of, s_alive_of in Ha.
    destruct (lt_dec k (length (mgrs s))) as [Hk|Hk].
    + rewrite nth_error_app1 by assumption. rewrite app_nth1 by lia. exact Ha.
    + rewrite nth_error_app2 by lia. rewrite app_nth2 by lia. rewrite Hl.
      destruct (k - length (mgrs s)) as [|d]; [reflexivity|]. simpl. destruct d; reflexivity.
  - split; [rewrite with_mgr_len, upd_length; exact Hl|]. intros k.
    unfold s_alive_of. rewrite nth_upd_bool. specialize (Ha k). unfold s_alive_of in Ha.
    unfold alive_of, with_mgr. destruct (nth_error (mgrs s) m) as [mg|] eqn:Em.
    + simpl. rewrite nth_error_upd. rewrite Hl.
      destruct (Nat.eqb m k && Nat.ltb m (length (mgrs s))) eqn:E; [reflexivity|]. exact Ha.
    + assert (Hm : length (mgrs s) <= m) by (apply nth_error_None; assumption).
      replace (Nat.ltb m (length a)) with false by (symmetry; apply Nat.ltb_ge; lia).
      rewrite andb_false_r. exact Ha.
  - destruct (type_id s ty) as [s1 id] eqn:Et. simpl.
    assert (Hm : mgrs s1 = mgrs s) by (rewrite <- (type_id_mgrs s ty), Et; reflexivity).
    split; [rewrite with_mgr_len, Hm; exact Hl|]. intros k.
    rewrite alive_with_mgr by (intros mg; reflexivity). rewrite (alive_of_mgrs s s1 k Hm). apply Ha.
  - destruct (nth_error (mgrs s) m) as [mg|] eqn:Em; [|split; assumption].
    destruct (m_alive mg); [|split; assumption].
    destruct (type_id s ty) as [s1 id] eqn:Et. simpl.
    assert (Hm : mgrs s1 = mgrs s) by (rewrite <- (type_id_mgrs s ty), Et; reflexivity).
    split; [rewrite with_mgr_len, Hm; exact Hl|]. intros k.
    rewrite alive_with_mgr by (intros mg'; reflexivity). rewrite (alive_of_mgrs s s1 k Hm). apply Ha.
  - destruct (type_id s ty) as [s1 id] eqn:Et. simpl.
    assert (Hm : mgrs s1 = mgrs s) by (rewrite <- (type_id_mgrs s ty), Et; reflexivity).
    split; [rewrite with_mgr_len, Hm; exact Hl|]. intros k.
    rewrite alive_with_mgr by (intros mg; reflexivity). rewrite (alive_of_mgrs s s1 k Hm). apply Ha.
Qed.

Lemma sp_step_ext sp f g o : (forall m, f m = g m) -> sp_step sp f o = sp_step sp g o.
Proof. intros H. destruct o; simpl; try reflexivity. rewrite H. reflexivity. Qed.

Definition Rel (s : est) (x : sst) : Prop := WF s /\ Abs s (s_subs x) /\ AliveRel s (s_alive x).

Lemma rel_init : Rel e_init s_init.
Proof.
  destruct wf_init as [H1 H2]. split; [exact H1|]. split; [exact H2|]. split; [reflexivity|].
  intros m. unfold alive_of, s_alive_of. simpl. destruct m; reflexivity.
Qed.

Lemma rel_step s x o : Rel s x -> sop_ok x o ->
  snd (e_step s o) = snd (sst_step x o) /\ Rel (fst (e_step s o)) (fst (sst_step x o)).
Proof.
  intros (Hw & Hab & Hal) Hok.
  assert (Hext : sp_step (s_subs x) (s_alive_of (s_alive x)) o = sp_step (s_subs x) (alive_of s) o)
    by (apply sp_step_ext; intros m; symmetry; apply Hal).
  assert (Hok' : op_ok s o).
  { destruct o; simpl in *; try exact I; rewrite (proj2 Hal); exact Hok. }
  destruct (step_refines s (s_subs x) o Hw Hab Hok') as (_ & Ho & Ha' & Hw').
  unfold sst_step. simpl. rewrite Hext. split; [exact Ho|].
  split; [exact Hw'|]. split; [exact Ha'|]. simpl. apply alive_rel_step. exact Hal.
Qed.

(* every post of every run delivers what the specification delivers, and the final states stay related *)
Theorem run_refines ops : forall s x, Rel s x -> ops_ok x ops ->
  run_e s ops = run_s x ops /\ Rel (final_e s ops) (final_s x ops).
Proof.
  induction ops as [|o t IH]; intros s x HR Hok; [split; [reflexivity|exact HR]|].
  destruct Hok as [Ho Ht]. destruct (rel_step s x o HR Ho) as [He HR'].
  destruct (IH _ _ HR' Ht) as [Hr Hf]. split; [|exact Hf].
  cbn [run_e run_s]. rewrite He, Hr. reflexivity.
Qed.

Theorem run_refines_init ops : ops_ok s_init ops ->
  run_e e_init ops = run_s s_init ops /\ Rel (final_e e_init ops) (final_s s_init ops).
Proof. apply run_refines. exact rel_init. Qed.

(* consequences read off the specification: a post delivers each current subscriber once when each was subscribed
   once -- the specification's list is literally the subscription history of (m, ty) *)
Lemma sget_after_sub sp m ty r : sget (sset sp m ty (sget sp m ty ++ [r])) m ty = sget sp m ty ++ [r].
Proof. rewrite sget_sset. rewrite !Nat.eqb_refl. reflexivity. Qed.

Lemma sget_other_sub sp m ty l m' ty' : (m, ty) <> (m', ty') -> sget (sset sp m ty l) m' ty' = sget sp m' ty'.
Proof.
  intros Hne. rewrite sget_sset.
  destruct (Nat.eqb m' m) eqn:E1; [|reflexivity]. destruct (Nat.eqb ty' ty) eqn:E2; [|reflexivity].
  apply Nat.eqb_eq in E1. apply Nat.eqb_eq in E2. subst. exfalso. apply Hne. reflexivity.
Qed.

(* "exactly once" and "no receiver that has unsubscribed": when a receiver is subscribed to (m, ty) at most once at a
   time (what Receiver objects do: subscribe_ is given a fresh object or one that was unsubscribed), the list of
   (m, ty) never holds it twice, and unsubscribing removes it *)
Lemma remove_first_in l r x : In x (remove_first l r) -> In x l.
Proof.
  induction l as [|h t IH]; simpl; [intros []|]. destruct (Nat.eqb h r); [intros H; right; exact H|].
  intros [E|H]; [left; exact E|right; apply IH; exact H].
Qed.

Lemma remove_first_nodup l r : NoDup l -> NoDup (remove_first l r) /\ ~ In r (remove_first l r).
Proof.
  induction l as [|h t IH]; simpl; intros Hn; [split; [constructor|intros []]|].
  inversion Hn as [|? ? Hh Ht]; subst. destruct (Nat.eqb_spec h r) as [->|Hne]; [split; assumption|].
  destruct (IH Ht) as [IH1 IH2]. split.
  - constructor; [|exact IH1]. intros Hin. apply Hh. eapply remove_first_in; eassumption.
  - intros [E|Hin]; [apply Hne; exact E|apply IH2; exact Hin].
Qed.

Lemma remove_first_keeps l r x : x <> r -> In x l -> In x (remove_first l r).
Proof.
  intros Hne. induction l as [|h t IH]; simpl; [intros []|].
  destruct (Nat.eqb_spec h r) as [->|Hhr]; intros [E|Hin].
  - exfalso; apply Hne; symmetry; exact E.
  - exact Hin.
  - left; exact E.
  - right; apply IH; exact Hin.
Qed.

Lemma sub_fresh_nodup (l : list recv) r : NoDup l -> ~ In r l -> NoDup (l ++ [r]).
Proof.
  intros Hn Hr. apply nodup_app_intro; [exact Hn|constructor; [intros []|constructor]|].
  intros x Hx [E|[]]. subst. apply Hr. exact Hx.
Qed.
