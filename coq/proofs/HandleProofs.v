(* Proofs about the GENERATED leaf code (gen/EntityGen.v, gen/IdDeffGen.v) against Handle.v. *)
Require Import Coq.NArith.NArith Coq.Bool.Bool Coq.micromega.Lia Coq.ZArith.ZArith.
Require Import Coq.micromega.ZifyBool Coq.micromega.ZifyN.
From Mustache Require Import CInt Handle.
From Mustache.gen Require Import EntityGen IdDeffGen.
Local Open Scope N_scope.
Ltac Zify.zify_post_hook ::= Z.div_mod_to_equations.

(* ---- bit lemmas ---------------------------------------------------------- *)
Lemma tb_mod x k n : N.testbit (x mod 2 ^ k) n = (n <? k) && N.testbit x n.
Proof.
  destruct (N.ltb_spec n k).
  - rewrite N.mod_pow2_bits_low; auto.
  - rewrite N.mod_pow2_bits_high; auto.
Qed.

Lemma tb_shiftl a s n : N.testbit (N.shiftl a s) n = negb (n <? s) && N.testbit a (n - s).
Proof.
  destruct (N.ltb_spec n s).
  - rewrite N.shiftl_spec_low; auto.
  - rewrite N.shiftl_spec_high'; auto.
Qed.

Lemma tb_ones w n : N.testbit (N.ones w) n = (n <? w).
Proof.
  destruct (N.ltb_spec n w).
  - apply N.ones_spec_low; assumption.
  - apply N.ones_spec_high; assumption.
Qed.

Lemma tb_small a k n : a < 2 ^ k -> k <= n -> N.testbit a n = false.
Proof.
  intros Ha Hk. destruct (N.eq_dec a 0) as [->|Hz].
  - apply N.bits_0.
  - apply N.bits_above_log2. apply N.lt_le_trans with k; [|assumption].
    apply N.log2_lt_pow2; [lia | assumption].
Qed.

(* ---- the constants of the generated file, in normal form ----------------- *)
Lemma c_id_mask : Entity.id_mask = N.ones 30. Proof. vm_compute. reflexivity. Qed.
Lemma c_swm : Entity.shifted_world_id_mask = N.shiftl (N.ones 10) 30. Proof. vm_compute. reflexivity. Qed.
Lemma c_svm : Entity.shifted_version_mask = N.shiftl (N.ones 24) 40. Proof. vm_compute. reflexivity. Qed.
Lemma c_vs : Entity.version_shift = 40. Proof. vm_compute. reflexivity. Qed.
Lemma c_ws : Entity.world_id_shift = 30. Proof. vm_compute. reflexivity. Qed.
Lemma c_null : Entity.null = N.ones 64. Proof. vm_compute. reflexivity. Qed.
Lemma c_bits_sum : Entity.entity_id_bits + Entity.world_id_bits + Entity.version_bits = 64.
Proof. vm_compute. reflexivity. Qed.
Lemma c_widths : Entity.entity_id_bits = ID_BITS /\ Entity.world_id_bits = WORLD_BITS /\ Entity.version_bits = VERSION_BITS.
Proof. vm_compute. auto. Qed.

Ltac unf :=
  unfold Entity.setVersion, Entity.reset_2, Entity.reset_1, Entity.incrementVersion,
         Entity.makeEntityWithNextVersion, Entity.id, Entity.version, Entity.worldId, Entity.reset_3,
         Entity.shiftedVersion, Entity.shiftedWorldId, Entity.isNull, Entity.op_eq;
  cbv zeta;
  rewrite ?c_id_mask, ?c_swm, ?c_svm, ?c_vs, ?c_ws, ?c_null; unfold wrap.

Ltac tbits :=
  repeat rewrite ?N.lor_spec, ?N.land_spec, ?N.shiftr_spec', ?tb_mod, ?tb_shiftl, ?tb_ones.

Ltac split_ltb :=
  repeat match goal with |- context[?a <? ?b] => destruct (N.ltb_spec a b) end; try lia.

Ltac small :=
  repeat match goal with
         | H : ?a < 2 ^ ?k |- context[N.testbit ?a ?m] => rewrite (tb_small a k m H) by lia
         end.

Ltac fin :=
  cbn [andb orb negb];
  rewrite ?andb_true_r, ?andb_false_r, ?orb_false_r, ?orb_true_r, ?andb_true_l, ?andb_false_l, ?orb_false_l;
  cbn [andb orb negb];
  try reflexivity;
  try (f_equal; lia).

Ltac blast n := apply N.bits_inj; intro n; tbits; split_ltb; small; fin.

(* ---- the generated readers agree with the field spec --------------------- *)
Lemma id_is_spec v : Entity.id v = spec_id v.
Proof.
  unfold spec_id. unf. blast n.
Qed.

Lemma world_is_spec v : Entity.worldId v = spec_world v.
Proof.
  unfold spec_world. unf. rewrite <- !N.shiftr_div_pow2. blast n.
Qed.

Lemma version_is_spec v : v < 2 ^ 64 -> Entity.version v = spec_version v.
Proof.
  intro Hv. unfold spec_version. unf. rewrite <- !N.shiftr_div_pow2. blast n.
Qed.

(* ---- pack / unpack -------------------------------------------------------- *)
Lemma unpack_pack_id v0 i ver w :
  i < 2 ^ 30 -> ver < 2 ^ 24 -> w < 2 ^ 10 -> Entity.id (Entity.reset_3 v0 i ver w) = i.
Proof. intros Hi Hv Hw. unf. blast n. Qed.

Lemma unpack_pack_version v0 i ver w :
  i < 2 ^ 30 -> ver < 2 ^ 24 -> w < 2 ^ 10 -> Entity.version (Entity.reset_3 v0 i ver w) = ver.
Proof. intros Hi Hv Hw. unf. blast n. Qed.

Lemma unpack_pack_world v0 i ver w :
  i < 2 ^ 30 -> ver < 2 ^ 24 -> w < 2 ^ 10 -> Entity.worldId (Entity.reset_3 v0 i ver w) = w.
Proof. intros Hi Hv Hw. unf. blast n. Qed.

Lemma pack_unpack v0 v :
  v < 2 ^ 64 -> Entity.reset_3 v0 (Entity.id v) (Entity.version v) (Entity.worldId v) = v.
Proof. intros Hv. unf. blast n. Qed.

Lemma pack_lt_64 v0 i ver w :
  i < 2 ^ 30 -> Entity.reset_3 v0 i ver w < 2 ^ 64.
Proof.
  intros Hi. unf.
  assert (Hm : forall x, x mod 2 ^ 64 < 2 ^ 64) by (intro; apply N.mod_lt; discriminate).
  assert (i < 2 ^ 64) by (eapply N.lt_trans; [eassumption | vm_compute; reflexivity]).
  set (a := N.shiftl ver 40 mod 2 ^ 64) in *. set (b := N.shiftl w 30 mod 2 ^ 64) in *.
  assert (a < 2 ^ 64) by apply Hm. assert (b < 2 ^ 64) by apply Hm.
  destruct (N.eq_dec (N.lor (N.lor i a) b) 0) as [->|Hz]; [vm_compute; reflexivity|].
  apply N.log2_lt_pow2; [lia|].
  rewrite !N.log2_lor.
  assert (L : forall x, x < 2 ^ 64 -> N.log2 x < 64).
  { intros x Hx. destruct (N.eq_dec x 0) as [->|]; [vm_compute; reflexivity|]. apply N.log2_lt_pow2; lia. }
  pose proof (L i ltac:(assumption)). pose proof (L a ltac:(assumption)). pose proof (L b ltac:(assumption)). lia.
Qed.

Lemma pack_is_spec v0 i ver w :
  i < 2 ^ 30 -> ver < 2 ^ 24 -> w < 2 ^ 10 -> Entity.reset_3 v0 i ver w = spec_pack i ver w.
Proof.
  intros Hi Hv Hw.
  assert (Hs : spec_pack i ver w < 2 ^ 64).
  { unfold spec_pack. change (2 ^ 30) with 1073741824 in *. change (2 ^ 24) with 16777216 in *.
    change (2 ^ 10) with 1024 in *. change (2 ^ 40) with 1099511627776. change (2 ^ 64) with 18446744073709551616. lia. }
  rewrite <- (pack_unpack v0 (spec_pack i ver w) Hs).
  rewrite id_is_spec, world_is_spec, version_is_spec by assumption.
  unfold spec_id, spec_world, spec_version, spec_pack.
  change (2 ^ 30) with 1073741824 in *. change (2 ^ 24) with 16777216 in *.
  change (2 ^ 10) with 1024 in *. change (2 ^ 40) with 1099511627776.
  f_equal; lia.
Qed.

Lemma pack_injective v0 v1 i ver w i' ver' w' :
  i < 2 ^ 30 -> ver < 2 ^ 24 -> w < 2 ^ 10 -> i' < 2 ^ 30 -> ver' < 2 ^ 24 -> w' < 2 ^ 10 ->
  Entity.reset_3 v0 i ver w = Entity.reset_3 v1 i' ver' w' -> i = i' /\ ver = ver' /\ w = w'.
Proof.
  intros Hi Hv Hw Hi' Hv' Hw' E.
  repeat split.
  - rewrite <- (unpack_pack_id v0 i ver w), E by assumption. apply unpack_pack_id; assumption.
  - rewrite <- (unpack_pack_version v0 i ver w), E by assumption. apply unpack_pack_version; assumption.
  - rewrite <- (unpack_pack_world v0 i ver w), E by assumption. apply unpack_pack_world; assumption.
Qed.

(* ---- equality is field-wise ---------------------------------------------- *)
Lemma eq_iff_fields v w :
  v < 2 ^ 64 -> w < 2 ^ 64 ->
  (Entity.op_eq v w = true <->
   Entity.id v = Entity.id w /\ Entity.version v = Entity.version w /\ Entity.worldId v = Entity.worldId w).
Proof.
  intros Hv Hw. unfold Entity.op_eq. rewrite N.eqb_eq. split.
  - intros ->. auto.
  - intros (E1 & E2 & E3).
    rewrite <- (pack_unpack 0 v Hv), <- (pack_unpack 0 w Hw), E1, E2, E3. reflexivity.
Qed.

(* ---- null ----------------------------------------------------------------- *)
Lemma null_iff v : Entity.isNull v = true <-> v = spec_null.
Proof. unfold Entity.isNull. rewrite N.eqb_eq. vm_compute Entity.null. vm_compute spec_null. tauto. Qed.

Lemma reset_0_null v : Entity.isNull (Entity.reset_0 v) = true.
Proof. vm_compute. reflexivity. Qed.

Lemma null_fields :
  Entity.id spec_null = 2 ^ 30 - 1 /\ Entity.version spec_null = 2 ^ 24 - 1 /\ Entity.worldId spec_null = 2 ^ 10 - 1.
Proof. vm_compute. auto. Qed.

(* ---- next version ---------------------------------------------------------- *)
Lemma next_version_spec v :
  v < 2 ^ 64 ->
  Entity.makeEntityWithNextVersion v = spec_pack (spec_id v) ((spec_version v + 1) mod 2 ^ 24) (spec_world v).
Proof.
  intros Hv. unfold Entity.makeEntityWithNextVersion. cbv zeta. rewrite c_vs.
  change (wrap 64 (N.shiftl 1 40)) with (2 ^ 40). unfold wrap, spec_pack, spec_id, spec_version, spec_world.
  change (2 ^ 30) with 1073741824. change (2 ^ 24) with 16777216.
  change (2 ^ 10) with 1024. change (2 ^ 40) with 1099511627776. change (2 ^ 64) with 18446744073709551616 in *.
  lia.
Qed.

Lemma increment_is_next v : Entity.incrementVersion v = Entity.makeEntityWithNextVersion v.
Proof. reflexivity. Qed.

Lemma next_version_fields v :
  v < 2 ^ 64 ->
  let v' := Entity.makeEntityWithNextVersion v in
  Entity.id v' = Entity.id v /\ Entity.worldId v' = Entity.worldId v /\
  Entity.version v' = (Entity.version v + 1) mod 2 ^ 24 /\ v' < 2 ^ 64.
Proof.
  intros Hv v'. subst v'. rewrite next_version_spec by assumption.
  assert (Hi : spec_id v < 2 ^ 30) by (apply N.mod_lt; discriminate).
  assert (Hw : spec_world v < 2 ^ 10) by (apply N.mod_lt; discriminate).
  assert (Hn : (spec_version v + 1) mod 2 ^ 24 < 2 ^ 24) by (apply N.mod_lt; discriminate).
  rewrite <- (pack_is_spec 0) by assumption.
  rewrite unpack_pack_id, unpack_pack_world, unpack_pack_version by assumption.
  rewrite id_is_spec, world_is_spec, version_is_spec by assumption.
  repeat split; try reflexivity. apply pack_lt_64; assumption.
Qed.

(* ---- storage index arithmetic --------------------------------------------- *)
Lemma align_up_spec x a :
  0 < a -> x + a - 1 < 2 ^ 32 -> is_align_up x a (ComponentOffset.alignAs x a).
Proof.
  intros Ha Hx. unfold is_align_up, ComponentOffset.alignAs, wrap, sub_w.
  change (2 ^ 32) with 4294967296 in *.
  assert (E : ((x + 4294967296 - 1) mod 4294967296 + a) mod 4294967296 = x + a - 1).
  { destruct (N.eq_dec x 0) as [->|Hz].
    - change ((0 + 4294967296 - 1) mod 4294967296) with 4294967295. lia.
    - lia. }
  rewrite E.
  set (q := (x + a - 1) / a).
  assert (Hq : x + a - 1 = a * q + (x + a - 1) mod a) by (apply N.div_mod; lia).
  assert (Hr : (x + a - 1) mod a < a) by (apply N.mod_lt; lia).
  assert (Hqa : q * a < 4294967296) by nia.
  rewrite (N.mod_small (q * a)) by assumption.
  split; [apply N.mod_mul; lia | nia].
Qed.

Lemma make_aligned_same x a : ComponentOffset.makeAligned x a = ComponentOffset.alignAs x a.
Proof. reflexivity. Qed.

Lemma split_join i cap :
  0 < cap ->
  i = ComponentStorageIndex.op_div i cap * cap + ComponentStorageIndex.op_mod i cap /\
  ComponentStorageIndex.op_mod i cap < cap.
Proof.
  intros Hc. unfold ComponentStorageIndex.op_div, ComponentStorageIndex.op_mod.
  destruct (N.eqb_spec cap 0) as [->|_]; [lia|].
  split; [rewrite N.mul_comm; apply N.div_mod; lia | apply N.mod_lt; lia].
Qed.

Lemma split_null_capacity i :
  ComponentStorageIndex.op_div i 0 = null_ChunkIndex /\ ComponentStorageIndex.op_mod i 0 = null_ChunkItemIndex.
Proof. split; reflexivity. Qed.
