(* The refinement theorem for the Skeleton: every run is related to the run of the liveness specification (C01). *)
Require Import Coq.Lists.List Coq.NArith.NArith Coq.Arith.Arith Coq.Bool.Bool Coq.micromega.Lia.
From Mustache Require Import Res Skeleton SkelSpec SkelRun.
From Mustache.proofs Require Import ListLemmas SkelBasics SkelInv SkelSteps SkelRefine SkelLocked SkelFlush.
Import ListNotations.

Lemma G_init n : G (init n) [] [] [].
Proof.
  constructor; simpl.
  - reflexivity.
  - constructor.
  - intros i [].
  - intros i sl [].
  - intros h [].
  - intros h [].
  - constructor.
  - constructor.
  - intros k key [].
  - intros k Hk. lia.
  - intros k (key & []).
  - intros i Hi. lia.
  - constructor.
  - intros ai a idx h _ Ha. destruct ai; discriminate.
  - intros i sl v Hs. destruct i; discriminate.
Qed.

Lemma R_init n : R (init n) [] (sp_init n).
Proof.
  constructor; simpl.
  - apply G_init.
  - reflexivity.
  - reflexivity.
  - reflexivity.
  - reflexivity.
  - constructor.
  - intros _. constructor.
  - constructor.
  - intros h [].
  - intros k [].
  - intros k Hk. lia.
  - lia.
  - intros Hne. contradiction.
  - constructor.
Qed.

(* what each operation returns *)
Lemma step_create_some s tid key s1 oh : step s (Create tid key) = Ok (s1, oh) -> exists h, oh = Some h.
Proof.
  unfold step. destruct (lockc s).
  - destruct (get_arch s key) as [s0 ai]. intros H. apply bind_ok in H. destruct H as ((s2, h) & _ & H).
    apply bind_ok in H. destruct H as (s3 & _ & H). inversion H. eauto.
  - intros H. apply bind_ok in H. destruct H as (r & _ & H). inversion H. eauto.
Qed.

Lemma step_other_none s o s1 oh : (forall tid key, o <> Create tid key) -> step s o = Ok (s1, oh) -> oh = None.
Proof.
  intros Hnc H. destruct o; simpl in H; try (exfalso; eapply Hnc; reflexivity).
  - destruct (lockc s); [inversion H; reflexivity|]. apply bind_ok in H. destruct H as (x & _ & H). inversion H. reflexivity.
  - destruct (lockc s); apply bind_ok in H; destruct H as (x & _ & H); inversion H; reflexivity.
  - destruct (get_arch s key). apply bind_ok in H. destruct H as (x & _ & H). inversion H. reflexivity.
  - destruct (lockc s); [|discriminate]. apply bind_ok in H. destruct H as (x & _ & H). inversion H. reflexivity.
  - destruct (lockc s); inversion H; reflexivity.
  - destruct (Nat.pred (lockc s)); [|inversion H; reflexivity]. apply bind_ok in H. destruct H as (x & _ & H). inversion H. reflexivity.
Qed.

Lemma R_step s hs sp o s' hs' :
  R s hs sp -> sstep (s, hs) o = Ok (s', hs') -> within (length hs') -> R s' hs' (spec_step sp o).
Proof.
  intros HR H Hb. unfold sstep in H. apply bind_ok in H. destruct H as ((s1, oh) & Hst & H). inversion H; subst s1 hs'; clear H.
  destruct o as [tid key|tid k|tid k|key| | |]; cbn [concretize] in Hst.
  - destruct (step_create_some _ _ _ _ _ Hst) as (h & ->). rewrite app_length in Hb. simpl in Hb. replace (length hs + 1) with (S (length hs)) in Hb by lia.
    destruct (sp_lock sp) as [|n] eqn:El; [eapply R_create_unlocked|eapply R_create_locked]; eassumption.
  - assert (oh = None) by (eapply step_other_none; [|exact Hst]; intros; discriminate). subst oh.
    destruct (sp_lock sp) as [|n] eqn:El; [eapply R_destroy_unlocked|eapply R_destroy_locked]; eassumption.
  - assert (oh = None) by (eapply step_other_none; [|exact Hst]; intros; discriminate). subst oh.
    destruct (sp_lock sp) as [|n] eqn:El; [eapply R_destroy_now_unlocked|eapply R_destroy_now_locked]; eassumption.
  - assert (oh = None) by (eapply step_other_none; [|exact Hst]; intros; discriminate). subst oh. eapply R_clear_arch; eassumption.
  - assert (oh = None) by (eapply step_other_none; [|exact Hst]; intros; discriminate). subst oh.
    destruct (sp_lock sp) as [|n] eqn:El; [eapply R_update; eassumption|].
    exfalso. unfold step in Hst. rewrite (r_lock _ _ _ HR), El in Hst. discriminate.
  - assert (oh = None) by (eapply step_other_none; [|exact Hst]; intros; discriminate). subst oh. eapply R_lock; eassumption.
  - assert (oh = None) by (eapply step_other_none; [|exact Hst]; intros; discriminate). subst oh.
    destruct (sp_lock sp) as [|[|n]] eqn:El.
    + eapply R_unlock_flush; try eassumption. rewrite El. reflexivity.
    + eapply R_unlock_flush; try eassumption. rewrite El. reflexivity.
    + eapply R_unlock_nested; eassumption.
Qed.

Lemma sstep_mono s hs o s' hs' : sstep (s, hs) o = Ok (s', hs') -> length hs <= length hs'.
Proof.
  intros H. unfold sstep in H. apply bind_ok in H. destruct H as ((s1, oh) & _ & H). inversion H; subst. destruct oh; [rewrite app_length; simpl|]; lia.
Qed.

Lemma srun_mono : forall ops s hs s' hs', fold_res sstep ops (s, hs) = Ok (s', hs') -> length hs <= length hs'.
Proof.
  induction ops as [|o t IH]; intros s hs s' hs' H; simpl in H.
  - inversion H. lia.
  - apply bind_ok in H. destruct H as ((s1, hs1) & H1 & H). pose proof (sstep_mono _ _ _ _ _ H1). pose proof (IH _ _ _ _ H). lia.
Qed.

Lemma R_run : forall ops s0 hs0 sp0 s hs,
  R s0 hs0 sp0 -> fold_res sstep ops (s0, hs0) = Ok (s, hs) -> within (length hs) -> R s hs (fold_left spec_step ops sp0).
Proof.
  induction ops as [|o t IH]; intros s0 hs0 sp0 s hs HR H Hb; simpl in H |- *.
  - inversion H; subst. assumption.
  - apply bind_ok in H. destruct H as ((s1, hs1) & H1 & H).
    apply (IH s1 hs1 _ s hs); [|assumption|assumption].
    eapply R_step; [exact HR|exact H1|]. eapply within_le; [|exact Hb]. eapply srun_mono. eassumption.
Qed.

(* the refinement theorem *)
Theorem skeleton_refines_spec n ops s hs :
  srun n ops = Ok (s, hs) -> within (length hs) -> R s hs (spec_run n ops).
Proof. intros H Hb. unfold srun in H. unfold spec_run. eapply R_run; [apply R_init|exact H|exact Hb]. Qed.

(* what it says about validity queries *)
Theorem validity_is_liveness n ops s hs :
  srun n ops = Ok (s, hs) -> within (length hs) ->
  length hs = sp_count (spec_run n ops) /\ NoDup hs /\
  forall k, k < length hs -> is_valid s (nth k hs null_handle) = alive_b (spec_run n ops) k.
Proof.
  intros H Hb. pose proof (skeleton_refines_spec n ops s hs H Hb) as HR.
  split; [apply (r_count _ _ _ HR)|]. split; [apply (g_hs_nodup (r_G _ _ _ HR))|].
  intros k Hk. apply eq_iff_eq_true. rewrite alive_b_iff. apply (G_valid s hs _ _ k (r_G _ _ _ HR) Hk).
Qed.
