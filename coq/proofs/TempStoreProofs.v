(* Proofs about TempStore.v (the bump allocator of the command buffer): alignment, bounds, no overlap between two
   allocations since the last clear(), accounting of total_size_.  All statements are for every state reachable from
   ts_init by any sequence of calls, every size >= 0 and every alignment >= 1 (NOT only powers of two: the C++ computes
   the misalignment with %, not with a mask, so nothing depends on align being a power of two). *)
Require Import Coq.Lists.List Coq.NArith.NArith Coq.Arith.PeanoNat Coq.micromega.Lia Coq.Bool.Bool.
From Mustache Require Import TempStore.
Import ListNotations.
Local Open Scope N_scope.

(* ---------- padding arithmetic ---------- *)

Lemma ts_padding_aligned : forall p a, 1 <= a -> (p + ts_padding p a) mod a = 0.
Proof.
  intros p a Ha. unfold ts_padding.
  destruct (1 <? a) eqn:E1.
  - apply N.ltb_lt in E1. destruct (0 <? p mod a) eqn:E0.
    + apply N.ltb_lt in E0.
      assert (Hm : p mod a < a) by (apply N.mod_lt; lia).
      assert (Hd : p = a * (p / a) + p mod a) by (apply N.div_mod; lia).
      remember (p / a) as q eqn:Eq in *. remember (p mod a) as m eqn:Em in *.
      replace (p + (a - m)) with ((q + 1) * a) by (rewrite N.mul_add_distr_r, (N.mul_comm q a); lia).
      apply N.mod_mul. lia.
    + apply N.ltb_ge in E0. rewrite N.add_0_r. apply N.le_0_r. exact E0.
  - apply N.ltb_ge in E1. assert (Ha1 : a = 1) by lia. subst a. apply N.mod_1_r.
Qed.

Lemma ts_padding_le : forall p a s, s + ts_padding p a <= ts_max_size s a.
Proof.
  intros p a s. unfold ts_padding, ts_max_size.
  destruct (1 <? a) eqn:E1; simpl; [|lia].
  destruct (0 <? p mod a) eqn:E0; [|lia].
  apply N.ltb_lt in E0. lia.
Qed.

Lemma ts_padding_lt : forall p a, 1 <= a -> ts_padding p a < a.
Proof.
  intros p a Ha. unfold ts_padding.
  destruct (1 <? a) eqn:E1; simpl; [|lia].
  destruct (0 <? p mod a) eqn:E0; [|lia].
  apply N.ltb_lt in E0. lia.
Qed.

Lemma ts_padding_0 : forall p a, p mod a = 0 -> ts_padding p a = 0.
Proof.
  intros p a H. unfold ts_padding. rewrite H. destruct (1 <? a); reflexivity.
Qed.

(* ---------- list helpers ---------- *)

Lemma rev_cons_inv : forall (A : Type) (l r : list A) (x : A), rev l = x :: r -> l = rev r ++ [x].
Proof. intros A l r x H. rewrite <- (rev_involutive l), H. reflexivity. Qed.

Lemma nth_error_snoc : forall (A : Type) (l : list A) (x y : A) (i : nat),
  nth_error (l ++ [x]) i = Some y ->
  ((i < length l)%nat /\ nth_error l i = Some y) \/ (i = length l /\ y = x).
Proof.
  intros A l x y i H.
  destruct (Nat.lt_ge_cases i (length l)) as [Hlt|Hge].
  - left. split; [exact Hlt|]. rewrite nth_error_app1 in H by exact Hlt. exact H.
  - right. rewrite nth_error_app2 in H by exact Hge.
    destruct (i - length l)%nat as [|n] eqn:En.
    + simpl in H. inversion H. split; [lia|reflexivity].
    + simpl in H. destruct n; discriminate H.
Qed.

Lemma nth_error_snoc_last : forall (A : Type) (l : list A) (x : A), nth_error (l ++ [x]) (length l) = Some x.
Proof. intros A l x. rewrite nth_error_app2 by lia. rewrite Nat.sub_diag. reflexivity. Qed.

(* ---------- what allocate() does, in one place ---------- *)

Definition new_chunk (st : tstate) (s a b : N) : chunk :=
  {| c_base := b; c_cap := ts_new_cap st s a; c_free := ts_new_cap st s a |}.

(* the chunk the block is carved from, as it is BEFORE the call *)
Definition ts_chosen (st : tstate) (s a b : N) : chunk :=
  if ts_needs_new st s a then new_chunk st s a b
  else match rev (t_chunks st) with c :: _ => c | [] => new_chunk st s a b end.

(* the bump pointer before the call, the padding inserted, the index of the chunk *)
Definition ts_ptr (st : tstate) (s a b : N) : N :=
  let c := ts_chosen st s a b in c_base c + (c_cap c - c_free c).
Definition ts_pad (st : tstate) (s a b : N) : N := ts_padding (ts_ptr st s a b) a.
Definition ts_idx (st : tstate) (s a : N) : nat :=
  if ts_needs_new st s a then length (t_chunks st) else pred (length (t_chunks st)).

Definition bumped (c : chunk) (x : N) : chunk := {| c_base := c_base c; c_cap := c_cap c; c_free := c_free c - x |}.

Lemma ts_alloc_spec : forall st s a b,
  exists pre c tg,
    ts_alloc st s a b = ts_bump pre c tg (t_total st) s a /\
    ts_chosen st s a b = c /\ ts_idx st s a = length pre /\
    ts_max_size s a <= c_free c /\
    ((ts_needs_new st s a = false /\ t_chunks st = pre ++ [c] /\ tg = t_target st) \/
     (ts_needs_new st s a = true /\ t_chunks st = pre /\ c = new_chunk st s a b /\ tg = ts_new_cap st s a)).
Proof.
  intros st s a b.
  assert (Hcap : ts_max_size s a <= ts_new_cap st s a).
  { unfold ts_new_cap. destruct (t_target st <? ts_max_size s a) eqn:E; [lia|apply N.ltb_ge in E; exact E]. }
  unfold ts_alloc, ts_chosen, ts_idx.
  destruct (ts_needs_new st s a) eqn:En.
  - exists (t_chunks st), (new_chunk st s a b), (ts_new_cap st s a).
    split; [reflexivity|]. split; [reflexivity|]. split; [reflexivity|]. split; [exact Hcap|].
    right. repeat split; reflexivity.
  - unfold ts_needs_new in En. destruct (rev (t_chunks st)) as [|c r] eqn:Er; [discriminate En|].
    apply N.ltb_ge in En. apply rev_cons_inv in Er.
    exists (rev r), c, (t_target st).
    split; [reflexivity|]. split; [reflexivity|].
    split; [rewrite Er, app_length; simpl; rewrite Nat.add_1_r; reflexivity|].
    split; [exact En|]. left. split; [reflexivity|split; [exact Er|reflexivity]].
Qed.

(* the result and the new state of allocate(), in terms of ts_idx / ts_ptr / ts_pad *)
Lemma ts_alloc_fst : forall st s a b,
  fst (ts_alloc st s a b) =
  RAlloc (ts_idx st s a)
         (c_cap (ts_chosen st s a b) - c_free (ts_chosen st s a b) + ts_pad st s a b)
         (ts_ptr st s a b + ts_pad st s a b).
Proof.
  intros st s a b. destruct (ts_alloc_spec st s a b) as (pre & c & tg & E & Ec & Ei & _ & _).
  rewrite E. unfold ts_bump, ts_pad, ts_ptr. rewrite Ec, Ei. reflexivity.
Qed.

Lemma ts_alloc_snd : forall st s a b,
  exists pre c,
    ts_chosen st s a b = c /\ ts_idx st s a = length pre /\
    t_chunks (snd (ts_alloc st s a b)) = pre ++ [bumped c (s + ts_pad st s a b)] /\
    t_total (snd (ts_alloc st s a b)) = t_total st + (s + ts_pad st s a b) /\
    s + ts_pad st s a b <= c_free c /\
    (t_chunks st = pre ++ [c] \/
     (t_chunks st = pre /\ ts_needs_new st s a = true /\ c = new_chunk st s a b)).
Proof.
  intros st s a b. destruct (ts_alloc_spec st s a b) as (pre & c & tg & E & Ec & Ei & Hm & Hc).
  exists pre, c. split; [exact Ec|]. split; [exact Ei|].
  rewrite E. unfold ts_bump, ts_pad, ts_ptr, bumped. rewrite Ec. simpl.
  split; [reflexivity|]. split; [reflexivity|].
  split.
  - pose proof (ts_padding_le (c_base c + (c_cap c - c_free c)) a s) as Hp. lia.
  - destruct Hc as [(_ & H & _)|(Hn & H & Hc & _)]; [left; exact H|right; repeat split; assumption].
Qed.

(* lookups in the chunk vector before the call, relative to the decomposition above *)
Lemma old_lookup : forall (old pre : list chunk) (c c0 : chunk) (i : nat),
  (old = pre ++ [c] \/ old = pre) -> nth_error old i = Some c0 ->
  (i = length pre /\ c0 = c /\ old = pre ++ [c]) \/ ((i < length pre)%nat /\ nth_error pre i = Some c0).
Proof.
  intros old pre c c0 i [H|H] Hn; subst old.
  - apply nth_error_snoc in Hn. destruct Hn as [Hn|(Hi & Hc)]; [right; exact Hn|left; repeat split; assumption].
  - right. split; [|exact Hn]. apply nth_error_Some. congruence.
Qed.

(* ---------- 1. alignment (holds from ANY state) ---------- *)

Lemma ts_alloc_aligned : forall st s a b i off addr,
  fst (ts_alloc st s a b) = RAlloc i off addr -> 1 <= a -> addr mod a = 0.
Proof.
  intros st s a b i off addr H Ha. rewrite ts_alloc_fst in H. inversion H. subst.
  apply ts_padding_aligned. exact Ha.
Qed.

(* allocate() always returns a block (the RClear branch of ts_alloc is dead code of the model) *)
Lemma ts_alloc_total : forall st s a b, exists i off addr, fst (ts_alloc st s a b) = RAlloc i off addr.
Proof. intros st s a b. rewrite ts_alloc_fst. eauto. Qed.

(* ---------- ghost state: the blocks handed out since the last clear(), newest first ---------- *)

Record ev := { e_idx : nat; e_addr : N; e_size : N; e_pad : N }.

Definition ts_event (st : tstate) (s a b : N) : ev :=
  {| e_idx := ts_idx st s a; e_addr := ts_ptr st s a b + ts_pad st s a b; e_size := s; e_pad := ts_pad st s a b |}.

Definition gstep (op : top) (g : tstate * list ev) : tstate * list ev :=
  match op with
  | TAlloc s a b => (snd (ts_alloc (fst g) s a b), ts_event (fst g) s a b :: snd g)
  | TClear => (ts_clear (fst g), [])
  end.

Fixpoint gexec (ops : list top) (g : tstate * list ev) : tstate * list ev :=
  match ops with
  | [] => g
  | op :: rest => gexec rest (gstep op g)
  end.

(* blocks live after a sequence of calls from the initial state *)
Definition ts_live (ops : list top) : list ev := snd (gexec ops (ts_init, [])).

Lemma gstep_fst : forall op g, fst (gstep op g) = snd (ts_step op (fst g)).
Proof. intros [s a b|] g; reflexivity. Qed.

Lemma gexec_fst : forall ops g, fst (gexec ops g) = ts_exec ops (fst g).
Proof.
  induction ops as [|op rest IH]; intros g; simpl; [reflexivity|].
  rewrite IH, gstep_fst. reflexivity.
Qed.

Lemma gexec_app : forall l1 l2 g, gexec (l1 ++ l2) g = gexec l2 (gexec l1 g).
Proof. induction l1 as [|op rest IH]; intros l2 g; simpl; [reflexivity|apply IH]. Qed.

Lemma ts_exec_app : forall l1 l2 st, ts_exec (l1 ++ l2) st = ts_exec l2 (ts_exec l1 st).
Proof. induction l1 as [|op rest IH]; intros l2 st; simpl; [reflexivity|apply IH]. Qed.

Fixpoint ev_sum (l : list ev) : N :=
  match l with [] => 0 | e :: r => (e_size e + e_pad e) + ev_sum r end.

(* ---------- 2./4. invariant that needs no hypothesis ---------- *)

Definition chunks_ok (st : tstate) : Prop := Forall (fun c => c_free c <= c_cap c) (t_chunks st).

(* the block lies in the USED part of the chunk whose index it carries *)
Definition ev_in (st : tstate) (e : ev) : Prop :=
  exists c, nth_error (t_chunks st) (e_idx e) = Some c /\
            c_base c <= e_addr e /\ e_addr e + e_size e <= c_base c + (c_cap c - c_free c).

Definition Inv1 (g : tstate * list ev) : Prop :=
  chunks_ok (fst g) /\ Forall (ev_in (fst g)) (snd g) /\ t_total (fst g) = ev_sum (snd g).

Lemma Inv1_init : Inv1 (ts_init, []).
Proof. repeat split; constructor. Qed.

Lemma chunks_ok_clear : forall st, chunks_ok st -> chunks_ok (ts_clear st).
Proof.
  intros st H. unfold chunks_ok, ts_clear. simpl.
  destruct (t_chunks st) as [|c [|c2 r]]; constructor; simpl; [lia|constructor].
Qed.

Lemma chunks_ok_chosen : forall st s a b, chunks_ok st -> c_free (ts_chosen st s a b) <= c_cap (ts_chosen st s a b).
Proof.
  intros st s a b H. destruct (ts_alloc_spec st s a b) as (pre & c & tg & _ & Ec & _ & _ & Hc).
  rewrite Ec. destruct Hc as [(_ & Hl & _)|(_ & _ & Hc & _)].
  - unfold chunks_ok in H. rewrite Hl in H. apply Forall_app in H. destruct H as [_ H]. inversion H. assumption.
  - rewrite Hc. simpl. lia.
Qed.

Lemma chunks_ok_alloc : forall st s a b, chunks_ok st -> chunks_ok (snd (ts_alloc st s a b)).
Proof.
  intros st s a b H. pose proof (chunks_ok_chosen st s a b H) as Hfc.
  destruct (ts_alloc_snd st s a b) as (pre & c & Ec & _ & Hch & _ & Hfit & Hold).
  rewrite Ec in Hfc. unfold chunks_ok in *. rewrite Hch. apply Forall_app. split.
  - destruct Hold as [Hl|(Hl & _)]; rewrite Hl in H; [apply Forall_app in H; tauto|exact H].
  - constructor; [|constructor]. unfold bumped. simpl. lia.
Qed.

(* the new block lies in the used part of its chunk after the call; old blocks stay where they are *)
Lemma ev_in_alloc_new : forall st s a b, chunks_ok st -> ev_in (snd (ts_alloc st s a b)) (ts_event st s a b).
Proof.
  intros st s a b H. pose proof (chunks_ok_chosen st s a b H) as Hfc.
  destruct (ts_alloc_snd st s a b) as (pre & c & Ec & Ei & Hch & _ & Hfit & _).
  unfold ev_in, ts_event. simpl. rewrite Hch, Ei.
  exists (bumped c (s + ts_pad st s a b)). split; [apply nth_error_snoc_last|].
  unfold ts_ptr. rewrite Ec in *. unfold bumped. simpl. lia.
Qed.

Lemma ev_in_alloc_old : forall st s a b e, ev_in st e -> ev_in (snd (ts_alloc st s a b)) e.
Proof.
  intros st s a b e (c0 & Hn & Hlo & Hhi).
  destruct (ts_alloc_snd st s a b) as (pre & c & Ec & Ei & Hch & _ & Hfit & Hold).
  assert (Hold' : t_chunks st = pre ++ [c] \/ t_chunks st = pre) by tauto.
  unfold ev_in. rewrite Hch.
  destruct (old_lookup _ _ _ _ _ Hold' Hn) as [(Hi & Hc & _)|(Hi & Hp)].
  - exists (bumped c (s + ts_pad st s a b)). rewrite Hi. split; [apply nth_error_snoc_last|].
    subst c0. unfold bumped. simpl. lia.
  - exists c0. split; [rewrite nth_error_app1 by exact Hi; exact Hp|]. split; assumption.
Qed.

Lemma Inv1_step : forall op g, Inv1 g -> Inv1 (gstep op g).
Proof.
  intros [s a b|] [st live] (Hok & Hin & Htot); simpl in *.
  - split; [apply chunks_ok_alloc; exact Hok|]. split.
    + constructor; [apply ev_in_alloc_new; exact Hok|].
      eapply Forall_impl; [|exact Hin]. intros e He. apply ev_in_alloc_old. exact He.
    + simpl. destruct (ts_alloc_snd st s a b) as (pre & c & _ & _ & _ & Ht & _). rewrite Ht, Htot. lia.
  - split; [apply chunks_ok_clear; exact Hok|]. split; [constructor|reflexivity].
Qed.

Lemma Inv1_exec : forall ops g, Inv1 g -> Inv1 (gexec ops g).
Proof. induction ops as [|op rest IH]; intros g H; simpl; [exact H|apply IH, Inv1_step, H]. Qed.

Lemma Inv1_reach : forall ops, Inv1 (gexec ops (ts_init, [])).
Proof. intros ops. apply Inv1_exec, Inv1_init. Qed.

Lemma chunks_ok_reach : forall ops, chunks_ok (ts_exec ops ts_init).
Proof. intros ops. pose proof (Inv1_reach ops) as (H & _). rewrite gexec_fst in H. exact H. Qed.

(* 2. in bounds: the block [addr, addr + size) lies inside chunk number idx of the state after the call, and that chunk
   is the last one of the vector *)
Lemma ts_alloc_in_bounds : forall st s a b i off addr,
  chunks_ok st -> fst (ts_alloc st s a b) = RAlloc i off addr ->
  exists c, nth_error (t_chunks (snd (ts_alloc st s a b))) i = Some c /\
            S i = length (t_chunks (snd (ts_alloc st s a b))) /\
            addr = c_base c + off /\ c_base c <= addr /\ off + s <= c_cap c /\ addr + s <= c_base c + c_cap c.
Proof.
  intros st s a b i off addr Hok H. pose proof (chunks_ok_chosen st s a b Hok) as Hfc.
  rewrite ts_alloc_fst in H. inversion H. subst i off addr. clear H.
  destruct (ts_alloc_snd st s a b) as (pre & c & Ec & Ei & Hch & _ & Hfit & _).
  rewrite Hch, Ei. exists (bumped c (s + ts_pad st s a b)).
  split; [apply nth_error_snoc_last|]. split; [rewrite app_length; simpl; lia|].
  unfold ts_ptr. rewrite Ec in *. unfold bumped. simpl. lia.
Qed.

(* the subtraction free_space -= size + padding never underflows *)
Lemma ts_alloc_fits : forall st s a b, s + ts_pad st s a b <= c_free (ts_chosen st s a b).
Proof.
  intros st s a b. destruct (ts_alloc_snd st s a b) as (pre & c & Ec & _ & _ & _ & Hfit & _).
  rewrite Ec. exact Hfit.
Qed.

(* ---------- 3. no overlap ---------- *)

(* ranges [b1, b1 + c1) and [b2, b2 + c2) are disjoint (an empty range is disjoint from everything) *)
Definition rdisj (b1 c1 b2 c2 : N) : Prop := c1 = 0 \/ c2 = 0 \/ b1 + c1 <= b2 \/ b2 + c2 <= b1.

Lemma rdisjb_true : forall b1 c1 b2 c2, rdisjb b1 c1 b2 c2 = true -> rdisj b1 c1 b2 c2.
Proof.
  intros b1 c1 b2 c2 H. unfold rdisjb in H. unfold rdisj.
  repeat (apply orb_true_iff in H; destruct H as [H|H]).
  - apply N.eqb_eq in H. tauto.
  - apply N.eqb_eq in H. tauto.
  - apply N.leb_le in H. tauto.
  - apply N.leb_le in H. tauto.
Qed.

Lemma rdisj_sym : forall b1 c1 b2 c2, rdisj b1 c1 b2 c2 -> rdisj b2 c2 b1 c1.
Proof. unfold rdisj. intros. tauto. Qed.

(* chunks held at the same time occupy disjoint ranges *)
Definition chunks_disj (l : list chunk) : Prop :=
  forall i j ci cj, i <> j -> nth_error l i = Some ci -> nth_error l j = Some cj ->
    rdisj (c_base ci) (c_cap ci) (c_base cj) (c_cap cj).

(* two blocks of positive size do not overlap *)
Definition ev_disj (e1 e2 : ev) : Prop :=
  0 < e_size e1 -> 0 < e_size e2 -> e_addr e1 + e_size e1 <= e_addr e2 \/ e_addr e2 + e_size e2 <= e_addr e1.

Definition Inv2 (g : tstate * list ev) : Prop :=
  chunks_disj (t_chunks (fst g)) /\ ForallOrdPairs ev_disj (snd g).

Lemma chunks_disj_short : forall l, (length l <= 1)%nat -> chunks_disj l.
Proof.
  intros l Hl i j ci cj Hij Hi Hj.
  assert (Hi' : (i < length l)%nat) by (apply nth_error_Some; congruence).
  assert (Hj' : (j < length l)%nat) by (apply nth_error_Some; congruence).
  lia.
Qed.

Lemma chunks_disj_clear : forall st, chunks_disj (t_chunks (ts_clear st)).
Proof.
  intros st. apply chunks_disj_short. unfold ts_clear. simpl.
  destruct (t_chunks st) as [|c [|c2 r]]; simpl; lia.
Qed.

Lemma chunks_disj_alloc : forall st s a b,
  chunks_disj (t_chunks st) -> ts_base_ok st (TAlloc s a b) = true ->
  chunks_disj (t_chunks (snd (ts_alloc st s a b))).
Proof.
  intros st s a b Hd Hb.
  destruct (ts_alloc_snd st s a b) as (pre & c & Ec & Ei & Hch & _ & _ & Hold).
  assert (Hold' : t_chunks st = pre ++ [c] \/ t_chunks st = pre) by tauto.
  rewrite Hch. set (c' := bumped c (s + ts_pad st s a b)).
  (* a chunk of pre against the last one *)
  assert (Hlast : forall i ci, nth_error pre i = Some ci -> (i < length pre)%nat ->
                    rdisj (c_base ci) (c_cap ci) (c_base c) (c_cap c)).
  { intros i ci Hi Hlt. destruct Hold as [Hl|(Hl & Hn & Hc)].
    - apply (Hd i (length pre)); [lia| |].
      + rewrite Hl, nth_error_app1 by exact Hlt. exact Hi.
      + rewrite Hl. apply nth_error_snoc_last.
    - simpl in Hb. rewrite Hn in Hb. rewrite forallb_forall in Hb.
      apply rdisj_sym. rewrite Hc. simpl. apply rdisjb_true, Hb.
      rewrite Hl. eapply nth_error_In. exact Hi. }
  assert (Hpre : forall i j ci cj, i <> j -> nth_error pre i = Some ci -> nth_error pre j = Some cj ->
                    (i < length pre)%nat -> (j < length pre)%nat ->
                    rdisj (c_base ci) (c_cap ci) (c_base cj) (c_cap cj)).
  { intros i j ci cj Hij Hi Hj Hil Hjl. destruct Hold' as [Hl|Hl].
    - apply (Hd i j); [exact Hij| |]; rewrite Hl, nth_error_app1 by assumption; assumption.
    - apply (Hd i j); [exact Hij| |]; rewrite Hl; assumption. }
  intros i j ci cj Hij Hi Hj.
  apply nth_error_snoc in Hi. apply nth_error_snoc in Hj.
  destruct Hi as [(Hil & Hi)|(Hi & Hci)]; destruct Hj as [(Hjl & Hj)|(Hj & Hcj)].
  - apply (Hpre i j); assumption.
  - subst cj. unfold c', bumped. simpl. apply (Hlast i); assumption.
  - subst ci. unfold c', bumped. simpl. apply rdisj_sym. apply (Hlast j); assumption.
  - lia.
Qed.

(* the new block does not overlap any block handed out since the last clear() *)
Lemma ev_disj_alloc : forall st s a b e,
  chunks_ok st -> chunks_disj (t_chunks (snd (ts_alloc st s a b))) -> ev_in st e ->
  ev_disj (ts_event st s a b) e.
Proof.
  intros st s a b e Hok Hd (c0 & Hn & Hlo & Hhi).
  pose proof (chunks_ok_chosen st s a b Hok) as Hfc.
  assert (Hc0 : c_free c0 <= c_cap c0).
  { unfold chunks_ok in Hok. rewrite Forall_forall in Hok. apply Hok. eapply nth_error_In. exact Hn. }
  destruct (ts_alloc_snd st s a b) as (pre & c & Ec & Ei & Hch & _ & Hfit & Hold).
  assert (Hold' : t_chunks st = pre ++ [c] \/ t_chunks st = pre) by tauto.
  rewrite Ec in Hfc.
  unfold ev_disj, ts_event. simpl. unfold ts_ptr. rewrite Ec. intros Hs He.
  destruct (old_lookup _ _ _ _ _ Hold' Hn) as [(Hi & Hc & _)|(Hi & Hp)].
  - subst c0. lia.
  - assert (Hr : rdisj (c_base c0) (c_cap c0) (c_base c) (c_cap c)).
    { apply (Hd (e_idx e) (length pre) c0 (bumped c (s + ts_pad st s a b))); [lia| |].
      - rewrite Hch, nth_error_app1 by exact Hi. exact Hp.
      - rewrite Hch. apply nth_error_snoc_last. }
    unfold rdisj in Hr. lia.
Qed.

Lemma Inv2_step : forall op g, Inv1 g -> Inv2 g -> ts_base_ok (fst g) op = true -> Inv2 (gstep op g).
Proof.
  intros [s a b|] [st live] (Hok & Hin & _) (Hd & Hp) Hb; simpl in *.
  - assert (Hd' : chunks_disj (t_chunks (snd (ts_alloc st s a b)))) by (apply chunks_disj_alloc; assumption).
    split; [exact Hd'|]. constructor; [|exact Hp].
    eapply Forall_impl; [|exact Hin]. intros e He. apply ev_disj_alloc; assumption.
  - split; [apply chunks_disj_clear|constructor].
Qed.

Lemma Inv12_exec : forall ops g,
  Inv1 g -> Inv2 g -> ts_bases_ok ops (fst g) = true -> Inv1 (gexec ops g) /\ Inv2 (gexec ops g).
Proof.
  induction ops as [|op rest IH]; intros g H1 H2 Hb; simpl in *; [tauto|].
  apply andb_true_iff in Hb. destruct Hb as [Hb Hr].
  apply IH; [apply Inv1_step; exact H1|apply Inv2_step; assumption|rewrite gstep_fst; exact Hr].
Qed.

Lemma Inv2_init : Inv2 (ts_init, []).
Proof. split; [apply chunks_disj_short; simpl; lia|constructor]. Qed.

Lemma ts_bases_ok_app : forall l1 l2 st,
  ts_bases_ok (l1 ++ l2) st = ts_bases_ok l1 st && ts_bases_ok l2 (ts_exec l1 st).
Proof.
  induction l1 as [|op rest IH]; intros l2 st; simpl; [reflexivity|].
  rewrite IH, andb_assoc. reflexivity.
Qed.

(* pairwise form: all blocks live after any sequence of calls are pairwise non-overlapping *)
Lemma ts_live_disjoint : forall ops, ts_bases_ok ops ts_init = true -> ForallOrdPairs ev_disj (ts_live ops).
Proof.
  intros ops Hb. destruct (Inv12_exec ops (ts_init, []) Inv1_init Inv2_init Hb) as (_ & _ & H). exact H.
Qed.

(* without a clear() in between, a live block stays live *)
Lemma gexec_keeps : forall mid g e, ~ In TClear mid -> In e (snd g) -> In e (snd (gexec mid g)).
Proof.
  induction mid as [|op rest IH]; intros g e Hnc He; simpl; [exact He|].
  apply IH; [intros H; apply Hnc; right; exact H|].
  destruct op as [s a b|]; [simpl; right; exact He|exfalso; apply Hnc; left; reflexivity].
Qed.

Lemma FOP_head : forall (A : Type) (R : A -> A -> Prop) (x y : A) (l : list A),
  ForallOrdPairs R (x :: l) -> In y l -> R x y.
Proof. intros A R x y l H Hy. inversion H as [|? ? Hx _]. subst. rewrite Forall_forall in Hx. apply Hx, Hy. Qed.

(* explicit form: an allocation, then any calls except clear(), then another allocation *)
Lemma ts_no_overlap_states : forall pre mid s1 a1 b1 s2 a2 b2,
  ts_bases_ok (pre ++ TAlloc s1 a1 b1 :: mid ++ [TAlloc s2 a2 b2]) ts_init = true -> ~ In TClear mid ->
  let st1 := ts_exec pre ts_init in
  let st3 := ts_exec mid (snd (ts_alloc st1 s1 a1 b1)) in
  forall i1 o1 ad1 i2 o2 ad2,
    fst (ts_alloc st1 s1 a1 b1) = RAlloc i1 o1 ad1 -> fst (ts_alloc st3 s2 a2 b2) = RAlloc i2 o2 ad2 ->
    0 < s1 -> 0 < s2 -> ad1 + s1 <= ad2 \/ ad2 + s2 <= ad1.
Proof.
  intros pre mid s1 a1 b1 s2 a2 b2 Hb Hnc st1 st3 i1 o1 ad1 i2 o2 ad2 R1 R2 Hs1 Hs2.
  destruct (Inv12_exec _ (ts_init, []) Inv1_init Inv2_init Hb) as (_ & _ & Hp).
  change (pre ++ TAlloc s1 a1 b1 :: mid ++ [TAlloc s2 a2 b2])
    with (pre ++ [TAlloc s1 a1 b1] ++ mid ++ [TAlloc s2 a2 b2]) in Hp.
  rewrite !gexec_app in Hp. simpl in Hp.
  remember (gexec pre (ts_init, [])) as g1 eqn:Eg1.
  assert (Hf1 : fst g1 = st1) by (rewrite Eg1, gexec_fst; reflexivity).
  rewrite Hf1 in Hp.
  remember (gexec mid (snd (ts_alloc st1 s1 a1 b1), ts_event st1 s1 a1 b1 :: snd g1)) as g3 eqn:Eg3.
  assert (Hf3 : fst g3 = st3) by (rewrite Eg3, gexec_fst; reflexivity).
  assert (Hin : In (ts_event st1 s1 a1 b1) (snd g3)).
  { rewrite Eg3. apply gexec_keeps; [exact Hnc|left; reflexivity]. }
  rewrite Hf3 in Hp.
  pose proof (FOP_head _ _ _ _ _ Hp Hin) as Hdis.
  rewrite ts_alloc_fst in R1, R2. inversion R1. inversion R2. subst.
  unfold ev_disj, ts_event in Hdis. simpl in Hdis. specialize (Hdis Hs2 Hs1). lia.
Qed.

(* ---------- 4. clear() with one chunk: the chunk is empty again and allocation restarts at its base ---------- *)

Lemma ts_clear_one : forall st c,
  t_chunks st = [c] ->
  ts_clear st = {| t_chunks := [{| c_base := c_base c; c_cap := c_cap c; c_free := c_cap c |}];
                   t_target := t_total st; t_total := 0 |}.
Proof. intros st c H. unfold ts_clear. rewrite H. reflexivity. Qed.

Lemma ts_clear_many : forall st, length (t_chunks st) <> 1%nat ->
  ts_clear st = {| t_chunks := []; t_target := t_total st; t_total := 0 |}.
Proof.
  intros st H. unfold ts_clear. destruct (t_chunks st) as [|c [|c2 r]]; simpl in *; [reflexivity|lia|reflexivity].
Qed.

Lemma ts_clear_restart : forall st c s a b,
  t_chunks st = [c] -> ts_max_size s a <= c_cap c ->
  fst (ts_alloc (ts_clear st) s a b) = RAlloc 0 (ts_padding (c_base c) a) (c_base c + ts_padding (c_base c) a).
Proof.
  intros st c s a b H Hfit. rewrite (ts_clear_one st c H).
  unfold ts_alloc, ts_needs_new. simpl.
  apply N.ltb_ge in Hfit. rewrite Hfit. unfold ts_bump. simpl.
  rewrite N.sub_diag, N.add_0_r. reflexivity.
Qed.

(* ---------- ts_run: results by position ---------- *)

Lemma ts_run_at : forall pre op post st,
  nth_error (ts_run (pre ++ op :: post) st) (length pre) = Some (fst (ts_step op (ts_exec pre st))).
Proof.
  induction pre as [|x rest IH]; intros op post st; simpl.
  - destruct (ts_step op st). reflexivity.
  - destruct (ts_step x st) as [r st'] eqn:E. simpl. apply IH.
Qed.

Lemma ts_run_length : forall ops st, length (ts_run ops st) = length ops.
Proof.
  induction ops as [|op rest IH]; intros st; simpl; [reflexivity|].
  destruct (ts_step op st). simpl. rewrite IH. reflexivity.
Qed.

Lemma firstn_split_at : forall (l1 l2 : list top) (x : top), firstn (S (length l1)) (l1 ++ x :: l2) = l1 ++ [x].
Proof.
  intros l1 l2 x. replace (S (length l1)) with (length l1 + 1)%nat by lia.
  rewrite firstn_app_2. reflexivity.
Qed.

(* ---------- headline forms: any sequence of calls, results read off ts_run ---------- *)

Theorem ts_aligned : forall ops k s a b i off addr,
  nth_error ops k = Some (TAlloc s a b) -> nth_error (ts_run ops ts_init) k = Some (RAlloc i off addr) ->
  1 <= a -> addr mod a = 0.
Proof.
  intros ops k s a b i off addr Hop Hr Ha.
  apply nth_error_split in Hop. destruct Hop as (l1 & l2 & Hl & Hk). subst ops k.
  rewrite ts_run_at in Hr. inversion Hr as [Hr']. simpl in Hr'.
  eapply ts_alloc_aligned; eassumption.
Qed.

Theorem ts_in_bounds : forall ops k s a b i off addr,
  nth_error ops k = Some (TAlloc s a b) -> nth_error (ts_run ops ts_init) k = Some (RAlloc i off addr) ->
  let st' := ts_exec (firstn (S k) ops) ts_init in
  exists c, nth_error (t_chunks st') i = Some c /\ S i = length (t_chunks st') /\
            addr = c_base c + off /\ c_base c <= addr /\ off + s <= c_cap c /\ addr + s <= c_base c + c_cap c.
Proof.
  intros ops k s a b i off addr Hop Hr.
  apply nth_error_split in Hop. destruct Hop as (l1 & l2 & Hl & Hk). subst ops k.
  rewrite ts_run_at in Hr. inversion Hr as [Hr']. simpl in Hr'.
  rewrite firstn_split_at, ts_exec_app. simpl.
  apply ts_alloc_in_bounds; [apply chunks_ok_reach|exact Hr'].
Qed.

Theorem ts_no_overlap : forall pre mid post s1 a1 b1 s2 a2 b2,
  let ops := pre ++ TAlloc s1 a1 b1 :: mid ++ TAlloc s2 a2 b2 :: post in
  ts_bases_ok ops ts_init = true -> ~ In TClear mid ->
  forall i1 o1 ad1 i2 o2 ad2,
    nth_error (ts_run ops ts_init) (length pre) = Some (RAlloc i1 o1 ad1) ->
    nth_error (ts_run ops ts_init) (length pre + 1 + length mid) = Some (RAlloc i2 o2 ad2) ->
    0 < s1 -> 0 < s2 -> ad1 + s1 <= ad2 \/ ad2 + s2 <= ad1.
Proof.
  intros pre mid post s1 a1 b1 s2 a2 b2 ops Hb Hnc i1 o1 ad1 i2 o2 ad2 R1 R2 Hs1 Hs2.
  unfold ops in R1. rewrite ts_run_at in R1. inversion R1 as [R1']. simpl in R1'.
  assert (Eops : ops = (pre ++ TAlloc s1 a1 b1 :: mid) ++ TAlloc s2 a2 b2 :: post).
  { unfold ops. rewrite <- app_assoc. reflexivity. }
  assert (Elen : (length pre + 1 + length mid)%nat = length (pre ++ TAlloc s1 a1 b1 :: mid)).
  { rewrite app_length. simpl. lia. }
  rewrite Eops, Elen, ts_run_at in R2. inversion R2 as [R2']. simpl in R2'.
  rewrite ts_exec_app in R2'. simpl in R2'.
  assert (Hb' : ts_bases_ok (pre ++ TAlloc s1 a1 b1 :: mid ++ [TAlloc s2 a2 b2]) ts_init = true).
  { assert (E : ops = (pre ++ TAlloc s1 a1 b1 :: mid ++ [TAlloc s2 a2 b2]) ++ post).
    { unfold ops. rewrite <- app_assoc. simpl. rewrite <- app_assoc. reflexivity. }
    rewrite E, ts_bases_ok_app in Hb. apply andb_true_iff in Hb. tauto. }
  eapply (ts_no_overlap_states pre mid s1 a1 b1 s2 a2 b2 Hb' Hnc); eassumption.
Qed.

(* 4. free_space <= capacity in every chunk, and total_size_ = sum of (size + padding) over the blocks handed out since
   the last clear(), for every sequence of calls *)
Theorem ts_accounting : forall ops,
  let st := ts_exec ops ts_init in
  Forall (fun c => c_free c <= c_cap c) (t_chunks st) /\
  t_total st = ev_sum (ts_live ops) /\
  Forall (fun e => exists c, nth_error (t_chunks st) (e_idx e) = Some c /\ c_base c <= e_addr e /\
                             e_addr e + e_size e <= c_base c + (c_cap c - c_free c)) (ts_live ops).
Proof.
  intros ops st. pose proof (Inv1_reach ops) as (H1 & H2 & H3).
  rewrite gexec_fst in H1, H2, H3. simpl in H1, H2, H3.
  split; [exact H1|]. split; [exact H3|exact H2].
Qed.

(* what ts_live is: the events of the calls after the last clear(), newest first, each with the address ts_run reports *)
Lemma ts_live_clear : forall ops, ts_live (ops ++ [TClear]) = [].
Proof. intros ops. unfold ts_live. rewrite gexec_app. reflexivity. Qed.

Lemma ts_live_alloc : forall ops s a b,
  ts_live (ops ++ [TAlloc s a b]) = ts_event (ts_exec ops ts_init) s a b :: ts_live ops.
Proof.
  intros ops s a b. unfold ts_live. rewrite gexec_app. simpl. rewrite gexec_fst. reflexivity.
Qed.

Lemma ts_event_result : forall st s a b,
  fst (ts_alloc st s a b) =
  RAlloc (e_idx (ts_event st s a b))
         (e_addr (ts_event st s a b) - c_base (ts_chosen st s a b)) (e_addr (ts_event st s a b)) /\
  e_size (ts_event st s a b) = s /\ e_pad (ts_event st s a b) = ts_padding (ts_ptr st s a b) a /\
  e_addr (ts_event st s a b) = ts_ptr st s a b + e_pad (ts_event st s a b).
Proof.
  intros st s a b. rewrite ts_alloc_fst. unfold ts_event, ts_ptr, ts_pad. simpl.
  split; [f_equal; lia|]. repeat split; reflexivity.
Qed.

Theorem ts_clear_one_restart : forall ops c s a b,
  let st := ts_exec ops ts_init in
  t_chunks st = [c] -> ts_max_size s a <= c_cap c ->
  t_chunks (ts_clear st) = [{| c_base := c_base c; c_cap := c_cap c; c_free := c_cap c |}] /\
  t_target (ts_clear st) = t_total st /\ t_total (ts_clear st) = 0 /\
  exists pad, pad = ts_padding (c_base c) a /\ (1 <= a -> pad < a) /\ (c_base c mod a = 0 -> pad = 0) /\
    nth_error (ts_run (ops ++ [TClear; TAlloc s a b]) ts_init) (S (length ops)) = Some (RAlloc 0 pad (c_base c + pad)).
Proof.
  intros ops c s a b st Hc Hfit.
  split; [rewrite (ts_clear_one st c Hc); reflexivity|].
  split; [reflexivity|]. split; [reflexivity|].
  exists (ts_padding (c_base c) a). split; [reflexivity|].
  split; [apply ts_padding_lt|]. split; [apply ts_padding_0|].
  assert (E : ops ++ [TClear; TAlloc s a b] = (ops ++ [TClear]) ++ TAlloc s a b :: []).
  { rewrite <- app_assoc. reflexivity. }
  assert (El : S (length ops) = length (ops ++ [TClear])) by (rewrite app_length; simpl; lia).
  rewrite E, El, ts_run_at, ts_exec_app. simpl. f_equal.
  apply ts_clear_restart; assumption.
Qed.
