(* C12: the Manager state with every archetype re-keyed by SharedKey.kmk (component mask + packed shared info) and
   its shared info blanked.  The structural primitives read an archetype's mask only through its low 128 bits and
   never read its shared info, so each of them commutes with the re-keying (rk). *)
Require Import Coq.Lists.List Coq.NArith.NArith Coq.ZArith.ZArith Coq.Arith.Arith Coq.Bool.Bool Coq.micromega.Lia.
From Mustache Require Import Res Manager MgrSpec Refine.
From Mustache.proofs Require Import ListLemmas SkelBasics ClosureProofs ManagerBasics ManagerMoves DepsFrame DepsClosure SharedKey.
Import ListNotations.

Definition ha (a : archetype) : archetype :=
  {| am_mask := kmk (am_mask a) (am_shared a); am_shared := si_null; am_ents := am_ents a; am_cols := am_cols a;
     am_size := am_size a; am_chunk := am_chunk a; am_gver := am_gver a; am_cver := am_cver a |}.
Definition rk (s : mst) : mst := set_archs s (map ha (archs s)).
Definition rk1 {X} (p : mst * X) : mst * X := (rk (fst p), snd p).

Lemma ha_mask a : am_mask (ha a) = kmk (am_mask a) (am_shared a). Proof. reflexivity. Qed.
Lemma ha_put a ci slot v : put_cell (ha a) ci slot v = ha (put_cell a ci slot v). Proof. reflexivity. Qed.
Lemma ha_get a ci slot : get_cell (ha a) ci slot = get_cell a ci slot. Proof. reflexivity. Qed.
Lemma mitems_ha a : mitems (am_mask (ha a)) = mitems (am_mask a). Proof. apply mitems_kmk. Qed.

Lemma hs_set_arch s ai a : rk (set_arch s ai a) = set_arch (rk s) ai (ha a).
Proof. unfold rk, set_arch. cbn [archs set_archs]. rewrite map_upd. reflexivity. Qed.

Lemma nth_res_rk s ai : nth_res (archs (rk s)) ai = rmap ha (nth_res (archs s) ai).
Proof. unfold nth_res, rk. cbn [archs set_archs]. rewrite nth_error_map. destruct (nth_error (archs s) ai); reflexivity. Qed.

Lemma fold_res_comm_in {A S S'} (g : S -> S') (F : S -> A -> res S) (F' : S' -> A -> res S') : forall l,
  (forall st x, In x l -> F' (g st) x = rmap g (F st x)) -> forall s, fold_res F' l (g s) = rmap g (fold_res F l s).
Proof.
  induction l as [|a t IH]; intros HF s; simpl; [reflexivity|].
  apply (bind_comm g); [apply HF; left; reflexivity|]. intros x. apply IH. intros st y Hy. apply HF. right. exact Hy.
Qed.

Lemma in_combine_items {A} (l : list A) ci c : In (ci, c) (combine (seq 0 (length l)) l) -> In c l.
Proof. intros H. apply in_combine_r in H. exact H. Qed.

(* ---- cells, locations, version stamps ---- *)
Lemma write_cell_rk s ai ci slot v : write_cell (rk s) ai ci slot v = rmap rk (write_cell s ai ci slot v).
Proof. unfold write_cell. rewrite nth_res_rk. apply (bind_comm ha); [reflexivity|]. intros a. rewrite ha_put, <- hs_set_arch. reflexivity. Qed.

Lemma construct_default_rk s ai c ci slot h u :
  construct_default (rk s) ai c ci slot h u = rmap rk (construct_default s ai c ci slot h u).
Proof.
  unfold construct_default. change (info_of (rk s) c) with (info_of s c). apply bind_same. intros inf.
  apply (bind_comm rk).
  - destruct (ci_create inf) as [v|].
    + apply (bind_comm rk); [apply write_cell_rk|]. intros s'. destruct (ci_ev inf); reflexivity.
    + destruct (ci_default inf) as [v|]; [destruct u|]; try reflexivity. apply write_cell_rk.
  - intros s1. destruct (ci_aa inf); reflexivity.
Qed.

Lemma update_location_rk s h l : update_location (rk s) h l = rmap rk (update_location s h l).
Proof. unfold update_location. change (locs (rk s)) with (locs s). apply bind_same. intros ls. reflexivity. Qed.

Lemma vs_set_chunk_ha a v ch : vs_set_chunk (ha a) v ch = rmap ha (vs_set_chunk a v ch).
Proof. unfold vs_set_chunk. cbn [ha am_gver am_cver]. destruct (Nat.ltb _ _); reflexivity. Qed.

Lemma vs_emplace_ha a v idx : vs_emplace (ha a) v idx = rmap ha (vs_emplace a v idx).
Proof.
  unfold vs_emplace. change (chunk_at (ha a) idx) with (chunk_at a idx). apply bind_same. intros chunk. cbn [ha am_gver am_cver].
  destruct (Nat.leb _ _); [|apply vs_set_chunk_ha].
  apply (vs_set_chunk_ha (with_vers a (am_gver a) (resize (am_cver a) (S chunk * length (am_gver a)) WV_NULL))).
Qed.

Lemma push_back_rk s ai h : push_back (rk s) ai h = rmap rk1 (push_back s ai h).
Proof.
  unfold push_back. rewrite nth_res_rk. apply (bind_comm ha); [reflexivity|]. intros a. change (wv (rk s)) with (wv s).
  cbn [ha am_ents]. apply (bind_comm ha); [apply vs_emplace_ha|]. intros a1. unfold rk1. cbn [fst snd rmap]. rewrite hs_set_arch. reflexivity.
Qed.

Lemma pop_back_rk s ai : pop_back (rk s) ai = rmap rk (pop_back s ai).
Proof. unfold pop_back. rewrite nth_res_rk. apply (bind_comm ha); [reflexivity|]. intros a. cbn [rmap]. rewrite hs_set_arch. reflexivity. Qed.

Lemma call_destructor_rk s ai slot : call_destructor (rk s) ai slot = rmap rk (call_destructor s ai slot).
Proof.
  unfold call_destructor. rewrite nth_res_rk. apply (bind_comm ha); [reflexivity|]. intros a. rewrite mitems_ha.
  apply (bind_comm rk).
  - apply fold_res_comm_in. intros st c _. change (info_of (rk st) c) with (info_of st c). apply bind_same. intros inf.
    destruct (ci_destroy inf && ci_ev inf); reflexivity.
  - intros s1. rewrite nth_res_rk. apply (bind_comm ha); [reflexivity|]. intros a1. cbn [rmap]. rewrite hs_set_arch. reflexivity.
Qed.

Lemma internal_move_rk s ai src dst : internal_move (rk s) ai src dst = rmap rk (internal_move s ai src dst).
Proof.
  unfold internal_move. rewrite nth_res_rk. apply (bind_comm ha); [reflexivity|]. intros a. rewrite mitems_ha.
  apply (bind_comm rk).
  - apply fold_res_comm_in. intros st (ci, c) _. change (info_of (rk st) c) with (info_of st c). apply bind_same. intros inf.
    rewrite nth_res_rk. apply (bind_comm ha); [reflexivity|]. intros a'. rewrite ha_get, ha_put, <- hs_set_arch.
    destruct (ci_move inf && ci_ev inf); reflexivity.
  - intros s1. rewrite nth_res_rk. apply (bind_comm ha); [reflexivity|]. intros a1. cbn [ha am_ents].
    apply bind_same. intros src_e. apply bind_same. intros dst_e.
    change (chunk_at (ha a1) src) with (chunk_at a1 src). change (chunk_at (ha a1) dst) with (chunk_at a1 dst).
    apply bind_same. intros csrc. apply bind_same. intros cdst. change (wv (rk s1)) with (wv s1).
    apply (bind_comm ha); [apply vs_set_chunk_ha|]. intros a2. apply (bind_comm ha); [apply vs_set_chunk_ha|]. intros a3.
    rewrite <- hs_set_arch. apply (bind_comm rk); [apply update_location_rk|]. intros s3.
    apply (bind_comm rk); [apply update_location_rk|]. intros s4. rewrite nth_res_rk. apply (bind_comm ha); [reflexivity|]. intros a4.
    cbn [ha am_ents]. change (with_ents (ha a4) (upd (am_ents a4) dst src_e)) with (ha (with_ents a4 (upd (am_ents a4) dst src_e))).
    rewrite <- hs_set_arch. apply call_destructor_rk.
Qed.

(* ---- swap-remove, move, insert ---- *)
Definition loweq (a b : mask) : Prop := forall c, c < MASK_BITS -> mhas a c = mhas b c.

Lemma loweq_kmk m sh : loweq (kmk m sh) m.
Proof. intros c Hc. apply kmk_low. exact Hc. Qed.

Lemma mhas_minter a b c : mhas (minter a b) c = mhas a c && mhas b c.
Proof. unfold mhas, minter. apply N.land_spec. Qed.
Lemma mhas_minverse m c : c < MASK_BITS -> mhas (minverse m) c = negb (mhas m c).
Proof.
  intros Hc. unfold mhas, minverse. rewrite N.ldiff_spec, N.ones_spec_low; [reflexivity|]. unfold MASK_BITS in Hc. lia.
Qed.

Lemma any_destroy_rk s m sh : any_destroy (rk s) (kmk m sh) = any_destroy s m.
Proof. unfold any_destroy. rewrite mitems_kmk. reflexivity. Qed.

Lemma arch_remove_rk s ai idx h skip skip' : loweq skip' skip ->
  arch_remove (rk s) ai idx h skip' = rmap rk (arch_remove s ai idx h skip).
Proof.
  intros Hsk. unfold arch_remove. rewrite nth_res_rk. apply (bind_comm ha); [reflexivity|]. intros a. rewrite mitems_ha.
  change (cinfos (rk s)) with (cinfos s). cbn [ha am_ents am_size]. apply bind_same. intros ent.
  apply (bind_comm rk).
  - apply fold_res_comm_in. intros st c Hc. change (info_of (rk st) c) with (info_of st c). apply bind_same. intros inf.
    apply mitems_in in Hc. destruct Hc as (Hc & _).
    assert (E : mhas (minter (am_mask (ha a)) (minverse skip')) c = mhas (minter (am_mask a) (minverse skip)) c).
    { rewrite !mhas_minter, !(mhas_minverse _ _ Hc), ha_mask, (kmk_low _ _ _ Hc), (Hsk c Hc). reflexivity. }
    rewrite E. destruct (ci_br inf && _); reflexivity.
  - intros s1. destruct (am_size a) as [|last]; [reflexivity|]. destruct (Nat.eqb idx last).
    + apply (bind_comm rk).
      * rewrite ha_mask, any_destroy_rk. destruct (any_destroy s1 (am_mask a)); [apply call_destructor_rk|apply pop_back_rk].
      * intros s2. rewrite nth_res_rk. apply (bind_comm ha); [reflexivity|]. intros a2.
        change (chunk_at (ha a2) idx) with (chunk_at a2 idx). apply bind_same. intros ch. change (wv (rk s2)) with (wv s2).
        apply (bind_comm ha); [apply vs_set_chunk_ha|]. intros a3. rewrite <- hs_set_arch. apply update_location_rk.
    + apply internal_move_rk.
Qed.

Lemma external_move_rk s ai h prev pidx skip skip' : loweq skip' skip ->
  external_move (rk s) ai h prev pidx skip' = rmap rk (external_move s ai h prev pidx skip).
Proof.
  intros Hsk. unfold external_move. destruct (Nat.eqb ai prev); [reflexivity|].
  apply (bind_comm rk1); [apply push_back_rk|]. intros (s1, idx). unfold rk1. cbn [fst snd].
  rewrite nth_res_rk. apply (bind_comm ha); [reflexivity|]. intros a. rewrite nth_res_rk. apply (bind_comm ha); [reflexivity|]. intros pa.
  rewrite mitems_ha. apply (bind_comm rk).
  - apply fold_res_comm_in. intros st (ci, c) Hc. apply in_combine_items, mitems_in in Hc. destruct Hc as (Hc & _).
    change (info_of (rk st) c) with (info_of st c). apply bind_same. intros inf.
    rewrite nth_res_rk. apply (bind_comm ha); [reflexivity|]. intros pa'. rewrite ha_mask, (cindex_kmk _ _ _ Hc). cbn [ha am_size].
    destruct (cindex (am_mask pa') c) as [pci|].
    + destruct (Nat.ltb pidx (am_size pa')); [|reflexivity]. rewrite ha_get.
      apply (bind_comm rk); [apply write_cell_rk|]. intros st1. destruct (ci_mctor inf && ci_ev inf); reflexivity.
    + rewrite (Hsk c Hc). destruct (_ && negb (mhas skip c)); [apply construct_default_rk|reflexivity].
  - intros s2. rewrite nth_res_rk. apply (bind_comm ha); [reflexivity|]. intros pa2. cbn [ha am_ents]. apply bind_same. intros pent.
    apply (bind_comm rk); [apply arch_remove_rk; rewrite ha_mask; apply loweq_kmk|]. intros s3. apply update_location_rk.
Qed.

Lemma mitems_zero : mitems 0%N = [].
Proof. vm_compute. reflexivity. Qed.

Lemma arch_insert_rk s ai h : arch_insert (rk s) ai h 0%N = rmap rk (arch_insert s ai h 0%N).
Proof.
  unfold arch_insert. apply (bind_comm rk1); [apply push_back_rk|]. intros (s1, idx). unfold rk1. cbn [fst snd].
  rewrite nth_res_rk. apply (bind_comm ha); [reflexivity|]. intros a. rewrite mitems_ha.
  apply (bind_comm rk).
  - rewrite ha_mask.
    assert (Hloops : forall st,
      (do s' <- fold_res (fun st0 (x : nat * nat) => let '(ci, c) := x in do inf <- info_of st0 c;
             if (match ci_create inf with Some _ => true | None => false end) || ci_aa inf
             then if (0 =? 0)%N || negb (mhas 0%N c) then construct_default st0 ai c ci idx h false else Ok st0 else Ok st0)
           (combine (seq 0 (length (mitems (am_mask a)))) (mitems (am_mask a))) (rk st);
       fold_res (fun st0 (x : nat * nat) => let '(ci, c) := x in do inf <- info_of st0 c;
             if (match ci_create inf with Some _ => true | None => false end) || ci_aa inf then Ok st0
             else match ci_default inf with
                  | Some v => if (0 =? 0)%N || negb (mhas 0%N c) then write_cell st0 ai ci idx (Some v) else Ok st0
                  | None => Ok st0 end)
           (combine (seq 0 (length (mitems (am_mask a)))) (mitems (am_mask a))) s') =
      rmap rk
      (do s' <- fold_res (fun st0 (x : nat * nat) => let '(ci, c) := x in do inf <- info_of st0 c;
             if (match ci_create inf with Some _ => true | None => false end) || ci_aa inf
             then if (0 =? 0)%N || negb (mhas 0%N c) then construct_default st0 ai c ci idx h false else Ok st0 else Ok st0)
           (combine (seq 0 (length (mitems (am_mask a)))) (mitems (am_mask a))) st;
       fold_res (fun st0 (x : nat * nat) => let '(ci, c) := x in do inf <- info_of st0 c;
             if (match ci_create inf with Some _ => true | None => false end) || ci_aa inf then Ok st0
             else match ci_default inf with
                  | Some v => if (0 =? 0)%N || negb (mhas 0%N c) then write_cell st0 ai ci idx (Some v) else Ok st0
                  | None => Ok st0 end)
           (combine (seq 0 (length (mitems (am_mask a)))) (mitems (am_mask a))) s')).
    { intros st. apply (bind_comm rk).
      - apply fold_res_comm_in. intros st0 (ci, c) _. change (info_of (rk st0) c) with (info_of st0 c). apply bind_same. intros inf.
        destruct (_ || ci_aa inf); [|reflexivity]. destruct (_ || negb (mhas 0%N c)); [apply construct_default_rk|reflexivity].
      - intros s'. apply fold_res_comm_in. intros st0 (ci, c) _. change (info_of (rk st0) c) with (info_of st0 c). apply bind_same. intros inf.
        destruct (_ || ci_aa inf); [reflexivity|]. destruct (ci_default inf) as [v|]; [|reflexivity].
        destruct (_ || negb (mhas 0%N c)); [apply write_cell_rk|reflexivity]. }
    destruct (N.eqb_spec 0 (am_mask a)) as [E0|E0]; destruct (N.eqb_spec 0 (kmk (am_mask a) (am_shared a))) as [E1|E1].
    + reflexivity.
    + (* the component set is empty: the loops run over nothing *)
      rewrite Hloops, <- E0, mitems_zero. reflexivity.
    + exfalso. apply E0. symmetry in E1. unfold kmk in E1. apply N.lor_eq_0_iff in E1. symmetry. tauto.
    + apply Hloops.
  - intros s2. rewrite nth_res_rk. apply (bind_comm ha); [reflexivity|]. intros a2. change (wv (rk s2)) with (wv s2).
    apply (bind_comm ha); [apply vs_emplace_ha|]. intros a3. rewrite <- hs_set_arch. apply update_location_rk.
Qed.

Lemma create_id_rk s : create_id (rk s) = rmap rk1 (create_id s).
Proof.
  unfold create_id. change (empty_slots (rk s)) with (empty_slots s). destruct (empty_slots s) as [|e]; [reflexivity|].
  change (slots (rk s)) with (slots s). change (next_slot (rk s)) with (next_slot s). apply bind_same. intros sl.
  cbn [set_slots set_free slots locs rk set_archs]. apply bind_same. intros ls. reflexivity.
Qed.

Lemma destroy_now_unlocked_rk s h : destroy_now_unlocked (rk s) h = rmap rk (destroy_now_unlocked s h).
Proof.
  unfold destroy_now_unlocked. change (is_valid (rk s) h) with (is_valid s h). destruct (is_valid s h); [|reflexivity].
  change (locs (rk s)) with (locs s). apply bind_same. intros l. apply (bind_comm rk).
  - destruct (l_arch l) as [ai|]; [apply arch_remove_rk; intros c _; reflexivity|reflexivity].
  - intros s1. reflexivity.
Qed.

Lemma vs_set_one_ha a v ch ci : vs_set_one (ha a) v ch ci = rmap ha (vs_set_one a v ch ci).
Proof. unfold vs_set_one. cbn [ha am_gver am_cver]. apply bind_same. intros cv. apply bind_same. intros gv. reflexivity. Qed.

Lemma get_mut_rk s h c w : c < MASK_BITS -> get_mut (rk s) h c w = rmap rk1 (get_mut s h c w).
Proof.
  intros Hc. unfold get_mut. change (is_valid (rk s) h) with (is_valid s h). destruct (negb (is_valid s h)); [reflexivity|].
  change (locs (rk s)) with (locs s). apply bind_same. intros l. destruct (l_arch l) as [ai|]; [|reflexivity].
  rewrite nth_res_rk. apply (bind_comm ha); [reflexivity|]. intros a. rewrite ha_mask, (cindex_kmk _ _ _ Hc).
  destruct (cindex (am_mask a) c) as [ci|]; [|reflexivity]. change (chunk_at (ha a) (l_idx l)) with (chunk_at a (l_idx l)).
  apply bind_same. intros ch. change (wv (rk s)) with (wv s). apply (bind_comm ha); [apply vs_set_one_ha|]. intros a1.
  unfold rk1. cbn [fst snd rmap]. destruct w as [x|]; rewrite ?ha_put, ?ha_get, <- hs_set_arch; reflexivity.
Qed.

(* ---- getArchetype ---- *)
Lemma find_arch_rk l m sh : Forall (fun a => lowm (am_mask a)) l -> lowm m ->
  forall k, find_arch (map ha l) (kmk m sh) si_null k = find_arch l m sh k.
Proof.
  intros Hl Hm. induction l as [|a t IH]; intros k; simpl; [reflexivity|]. inversion Hl as [|? ? Ha Ht]; subst.
  rewrite (IH Ht).
  assert (E : (kmk (am_mask a) (am_shared a) =? kmk m sh)%N && si_eqb si_null si_null = (am_mask a =? m)%N && si_eqb (am_shared a) sh).
  { apply eq_iff_eq_true. rewrite !andb_true_iff, !N.eqb_eq. split.
    - intros (E & _). apply kmk_inj in E; [|assumption|assumption]. destruct E as (E1 & E2). split; [exact E1|apply enc_eqb; exact E2].
    - intros (E1 & E2). apply enc_eqb in E2. split; [|reflexivity]. unfold kmk. rewrite E1, E2. reflexivity. }
  rewrite E. reflexivity.
Qed.

Lemma resolve_chunk_rk s m m' : chunk_fns s = [] -> resolve_chunk (rk s) m' = resolve_chunk s m.
Proof. intros H. unfold resolve_chunk. change (chunk_fns (rk s)) with (chunk_fns s). rewrite H. reflexivity. Qed.

Lemma get_arch_found s m sh i : deps s = [] -> find_arch (archs s) m sh 0 = Some i -> get_arch s m sh = Ok (s, i).
Proof. intros Hd Hf. unfold get_arch, extra_components. rewrite Hd, bind_Ok. cbv zeta. rewrite munion_zero, Hf. reflexivity. Qed.

Lemma get_arch_new s m sh cs : deps s = [] -> find_arch (archs s) m sh 0 = None -> resolve_chunk s m = Ok cs ->
  get_arch s m sh = Ok (set_archs s (archs s ++ [new_arch m sh cs]), length (archs s)).
Proof.
  intros Hd Hf Hc. unfold get_arch, extra_components. rewrite Hd, bind_Ok. cbv zeta. rewrite munion_zero, Hf, Hc, bind_Ok. unfold new_arch. reflexivity.
Qed.

Lemma ha_new m sh cs : ha (new_arch m sh cs) = new_arch (kmk m sh) si_null cs.
Proof. unfold new_arch, ha. cbn [am_mask am_shared am_ents am_cols am_size am_chunk am_gver am_cver]. rewrite !mcount_eq, mitems_kmk. reflexivity. Qed.

Lemma get_arch_rk s m sh s1 ai : deps s = [] -> chunk_fns s = [] -> Forall (fun a => lowm (am_mask a)) (archs s) -> lowm m ->
  get_arch s m sh = Ok (s1, ai) -> get_arch (rk s) (kmk m sh) si_null = Ok (rk s1, ai).
Proof.
  intros Hd Hcf Hl Hm H.
  assert (Hf : find_arch (archs (rk s)) (kmk m sh) si_null 0 = find_arch (archs s) m sh 0) by (apply find_arch_rk; assumption).
  destruct (get_arch_ok _ _ _ _ _ Hd H) as [(-> & a & Ha & Hma & Hsa)|(Hn & -> & cs & ->)].
  - assert (Hfs : exists i, find_arch (archs s) m sh 0 = Some i).
    { destruct (find_arch (archs s) m sh 0) as [i|] eqn:E; [eauto|]. exfalso.
      apply (find_arch_none _ _ _ _ E a (nth_error_In _ _ Ha)). auto. }
    destruct Hfs as (i & Hi). rewrite (get_arch_found s m sh i Hd Hi) in H. inversion H; subst i.
    apply get_arch_found; [exact Hd|]. rewrite Hf. exact Hi.
  - assert (Hcs : resolve_chunk s m = Ok cs).
    { unfold get_arch, extra_components in H. rewrite Hd, bind_Ok in H. cbv zeta in H. rewrite munion_zero, Hn in H.
      bd H cs' Hcs'. inversion H as [[E1]]. apply app_inv_head in E1. inversion E1. subst cs'. exact Hcs'. }
    rewrite (get_arch_new (rk s) (kmk m sh) si_null cs); [| exact Hd | rewrite Hf; exact Hn | rewrite (resolve_chunk_rk s m _ Hcf); exact Hcs].
    unfold rk. cbn [archs set_archs]. rewrite map_length, map_app. simpl map. rewrite ha_new. reflexivity.
Qed.
