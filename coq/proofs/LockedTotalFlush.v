(* C05 / C02: totality of the flush, part 2 -- the packs of one buffer in log order (T_packs), applyStorage with the
   destruction of the buffer's temporaries (T_storage), all buffers in thread order (T_buffers), the flush at the
   outermost unlock (flush_total).  The invariants FInv (refinement) and TI (shapes) are threaded together: each call
   is shown to return Ok by the forward lemmas of LockedTotalPack.v, and the refinement lemmas of ManagerFlush.v then
   give the invariant for the next call.
   Contract: packs_ar -- every pack of every buffer satisfies pack_ar (LockedTotalPack.v). *)
Require Import Coq.Lists.List Coq.NArith.NArith Coq.ZArith.ZArith Coq.Arith.Arith Coq.Bool.Bool Coq.micromega.Lia.
From Mustache Require Import Res Manager MgrSpec Refine.
From Mustache Require Skeleton.
From Mustache Require Import SkelSpec.
From Mustache.proofs Require Import ListLemmas SkelBasics SkelInv SkelSteps SkelRefine SkelLocked SkelFlush SkelMove SkelMoveRem SkelMain ClosureProofs
  ManagerBasics ManagerMoves ManagerProj ManagerInv ManagerMain ManagerWorlds ManagerTotal ManagerLInv ManagerPack ManagerFlush ManagerLocked
  ManagerLockedMain LockedTotalPack.
From Mustache.proofs Require ManagerDeferred.
Import ListNotations.

Definition packs_ar (s : mst) : bool := forallb (fun b => forallb pack_ar (split_packs b [])) (bufs s).

(* ---- the packs of one buffer ---- *)
Lemma T_packs cis tid tl hs : forall ps s x xb rem',
  Forall (fun p => p <> [] /\ exists h, allh h p) ps -> mcf (concat ps) -> brel cis hs tl (concat ps) xb ->
  cis_ok cis -> within (length hs) -> nth_error (tmps s) tid = Some tl ->
  FInv cis s hs x (xrem xb ++ rem') -> x_viol (fold_left x_cmd xb x) = x_viol x ->
  TI cis s -> Forall (cmd_reg (length cis)) (concat ps) -> forallb pack_ar ps = true ->
  exists s', fold_res (apply_pack tid) ps s = Ok s' /\ TI cis s'.
Proof.
  induction ps as [|p ps IH]; intros s x xb rem' Hu Hcf HB Hok Hb Htl HF Hviol HT Hreg Har.
  - exists s. split; [reflexivity|exact HT].
  - inversion Hu as [|p' ps' (Hne & h & Hall) Hu']; subst p' ps'. simpl in Hcf, HB, Hreg.
    cbn [forallb] in Har. apply andb_true_iff in Har. destruct Har as (Har1 & Har2).
    apply Forall_app in Hreg. destruct Hreg as (Hreg1 & Hreg2).
    destruct (brel_app_inv _ _ _ _ _ _ HB) as (xp & xr & -> & HBp & HBr).
    rewrite xrem_app, <- app_assoc in HF. destruct (viol_app _ _ _ Hviol) as (V1 & V2).
    destruct (T_pack cis tid tl s hs x h p xp (xrem xr ++ rem') HF HT Htl Hne Hall HBp (mcf_app_l _ _ Hcf) Hreg1 Har1) as (s1 & Ep & HT1).
    destruct (F_pack cis tid tl s hs x h p xp (xrem xr ++ rem') s1 HF Hok Hb Htl Hne Hall HBp (mcf_app_l _ _ Hcf) V1 Ep) as (HF1 & F1).
    assert (Htl1 : nth_error (tmps s1) tid = Some tl).
    { destruct (fr4_fields _ _ F1) as (_ & _ & _ & _ & _ & _ & T & _). congruence. }
    destruct (IH s1 _ xr rem' Hu' (mcf_app_r _ _ Hcf) HBr Hok Hb Htl1 HF1 V2 HT1 Hreg2 Har2) as (s' & E & HT').
    exists s'. cbn [fold_res]. rewrite Ep. cbn [bind]. split; [exact E|exact HT'].
Qed.

(* ---- applyStorage ---- *)
Lemma T_storage cis tid tl hs b s x xb rem' :
  mcf b -> brel cis hs tl b xb -> cis_ok cis -> within (length hs) -> nth_error (tmps s) tid = Some tl ->
  FInv cis s hs x (xrem xb ++ rem') -> x_viol (fold_left x_cmd xb x) = x_viol x ->
  TI cis s -> Forall (cmd_reg (length cis)) b -> forallb pack_ar (split_packs b []) = true ->
  exists s', apply_storage s (tid, b) = Ok s' /\ TI cis s'.
Proof.
  intros Hcf HB Hok Hb Htl HF Hviol HT Hreg Har. rewrite ManagerDeferred.apply_storage_unfold.
  destruct (ManagerDeferred.split_packs_correct b) as (Ec & Hu & _).
  assert (Hu' : Forall (fun p => p <> [] /\ exists h, allh h p) (split_packs b [])).
  { eapply Forall_impl; [|exact Hu]. simpl. intros p (Hne & Hun). split; [exact Hne|apply uniform_allh; assumption]. }
  pose proof Hcf as Hcf0. pose proof HB as HB0. pose proof Hreg as Hreg0. rewrite <- Ec in Hcf0, HB0, Hreg0.
  destruct (T_packs cis tid tl hs _ s x xb rem' Hu' Hcf0 HB0 Hok Hb Htl HF Hviol HT Hreg0 Har) as (s1 & Ep & HT1).
  rewrite Ep. cbn [bind].
  destruct (F_packs cis tid tl hs _ s x xb rem' s1 Hu' Hcf0 HB0 Hok Hb Htl HF Hviol Ep) as (HF1 & F1).
  destruct HF1 as [(al1 & HI1) _ _ _].
  rewrite ManagerDeferred.destroy_tmps_spec.
  - eexists. split; [reflexivity|]. apply TI_set_log. exact HT1.
  - intros c Hc. pose proof (proj1 (Forall_forall _ _) Hreg c Hc) as Hr.
    destruct c as [h0 ha m0 sh0|h0|h0|h0 c'|h0 cid n]; try reflexivity.
    simpl. rewrite (li_cis _ _ _ _ _ _ HI1). apply Nat.ltb_lt. exact Hr.
Qed.

(* ---- all buffers, in thread order ---- *)
Lemma T_buffers cis hs : forall bs tls xbs n s x,
  F3 (brel cis hs) tls bs xbs -> Forall mcf bs ->
  (forall j tl, nth_error tls j = Some tl -> nth_error (tmps s) (n + j) = Some tl) ->
  cis_ok cis -> within (length hs) ->
  FInv cis s hs x (xrem (concat xbs)) -> x_viol (fold_left (fun st b => fold_left x_cmd b st) xbs x) = x_viol x ->
  TI cis s -> Forall (Forall (cmd_reg (length cis))) bs -> forallb (fun b => forallb pack_ar (split_packs b [])) bs = true ->
  exists s', fold_res apply_storage (combine (seq n (length bs)) bs) s = Ok s' /\ TI cis s'.
Proof.
  induction bs as [|b bs IH]; intros tls xbs n s x H3 Hcf Ht Hok Hb HF Hviol HT Hreg Har.
  - exists s. split; [reflexivity|exact HT].
  - inversion H3 as [|tl b' xb tls' bs' xbs' HB H3']; subst. inversion Hcf as [|? ? Hcfb Hcfr]; subst.
    inversion Hreg as [|? ? Hregb Hregr]; subst. cbn [forallb] in Har. apply andb_true_iff in Har. destruct Har as (Har1 & Har2).
    cbn [length seq combine fold_res]. cbn [fold_left concat] in HF, Hviol. rewrite xrem_app in HF.
    assert (V : x_viol (fold_left x_cmd xb x) = x_viol x /\
                x_viol (fold_left (fun st b => fold_left x_cmd b st) xbs' (fold_left x_cmd xb x)) = x_viol (fold_left x_cmd xb x)).
    { pose proof (x_viol_fold_le xb x). pose proof (x_viol_bufs_le xbs' (fold_left x_cmd xb x)). lia. }
    destruct V as (V1 & V2).
    assert (Htl : nth_error (tmps s) n = Some tl) by (rewrite <- (Nat.add_0_r n); apply Ht; reflexivity).
    destruct (T_storage cis n tl hs b s x xb _ Hcfb HB Hok Hb Htl HF V1 HT Hregb Har1) as (s1 & Est & HT1).
    rewrite Est. cbn [bind].
    destruct (F_storage cis n tl hs b s x xb _ s1 Hcfb HB Hok Hb Htl HF V1 Est) as (HF1 & F1).
    apply (IH tls' xbs' (S n) s1 (fold_left x_cmd xb x) H3' Hcfr); try assumption.
    intros j tl' Hj. destruct (fr4_fields _ _ F1) as (_ & _ & _ & _ & _ & _ & T & _). rewrite T.
    replace (S n + j) with (n + S j) by lia. apply Ht. exact Hj.
Qed.

(* ---- THE FLUSH returns Ok ---- *)
Theorem flush_total cis s hs x :
  LR cis s hs x -> cis_ok cis -> within (length hs) -> x_viol (x_flush (xw_lock x 0)) = x_viol x ->
  TI cis s -> Forall (Forall (cmd_reg (length cis))) (bufs s) -> packs_ar s = true ->
  exists s', flush (set_lock s 0) = Ok s' /\ TI cis s' /\ bufs s' = map (fun _ => []) (bufs s) /\
             lockc s' = 0 /\ nthreads s' = nthreads s.
Proof.
  intros HR Hok Hb Hviol HT Hreg Har.
  pose proof HR as [_ _ _ H3 _ _ _ _ _ Hcf].
  pose proof (LR_FInv cis s hs x HR) as HF.
  unfold flush. change (bufs (set_lock s 0)) with (bufs s).
  change (fun st (x0 : nat * list acmd) => apply_storage st x0) with apply_storage.
  unfold x_flush in Hviol. change (x_bufs (xw_lock x 0)) with (x_bufs x) in Hviol.
  destruct (T_buffers cis hs (bufs s) (tmps s) (x_bufs x) 0 (set_lock s 0) (xw_lock x 0) H3 Hcf) as (s1 & E & HT1); try assumption.
  { intros j tl Hj. exact Hj. }
  { apply (TI_same cis s); [exact HT|reflexivity|reflexivity|reflexivity]. }
  rewrite E. cbn [bind].
  destruct (F_buffers cis hs (bufs s) (tmps s) (x_bufs x) 0 (set_lock s 0) (xw_lock x 0) s1 H3 Hcf) as (_ & F1); try assumption.
  { intros j tl Hj. exact Hj. }
  destruct (fr4_fields _ _ F1) as (E1 & _ & _ & _ & E5 & E6 & _).
  eexists. split; [reflexivity|]. split; [|split; [|split]].
  - apply (TI_same cis s1); [exact HT1|reflexivity|reflexivity|reflexivity].
  - cbn [bufs set_epoch set_bufs]. rewrite E6. reflexivity.
  - cbn [lockc set_epoch set_bufs]. rewrite E1. reflexivity.
  - cbn [nthreads set_epoch set_bufs]. rewrite E5. reflexivity.
Qed.
