(* C13: the structural primitives of the Manager neither read nor write the dependency table: each of them commutes
   with replacing the table (set_deps).  This lets the proofs of the dependency-free refinement (ManagerInv.v) be reused
   on the state with its table erased. *)
Require Import Coq.Lists.List Coq.NArith.NArith Coq.ZArith.ZArith Coq.Arith.Arith Coq.Bool.Bool Coq.micromega.Lia.
From Mustache Require Import Res Manager MgrSpec Refine.
From Mustache.proofs Require Import ListLemmas SkelBasics ClosureProofs ManagerBasics ManagerMoves.
Import ListNotations.

Definition sd (d : list (nat * mask)) (s : mst) : mst := set_deps s d.
Definition rmap {A B} (g : A -> B) (r : res A) : res B := match r with Ok x => Ok (g x) | Err e => Err e end.
Definition sd1 {X} (d : list (nat * mask)) (p : mst * X) : mst * X := (sd d (fst p), snd p).

Lemma bind_ext {A B} (r : res A) (k1 k2 : A -> res B) : (forall x, k1 x = k2 x) -> bind r k1 = bind r k2.
Proof. intros H. destruct r; simpl; [apply H|reflexivity]. Qed.
Lemma bind_rmap {A B C} (g : A -> B) (r : res A) (k : B -> res C) : bind (rmap g r) k = bind r (fun x => k (g x)).
Proof. destruct r; reflexivity. Qed.
Lemma rmap_bind {A B C} (g : B -> C) (r : res A) (k : A -> res B) : rmap g (bind r k) = bind r (fun x => rmap g (k x)).
Proof. destruct r; reflexivity. Qed.

Lemma fold_res_sd {A} d (F : mst -> A -> res mst) : (forall st x, F (sd d st) x = rmap (sd d) (F st x)) ->
  forall l s, fold_res F l (sd d s) = rmap (sd d) (fold_res F l s).
Proof.
  intros HF. induction l as [|a t IH]; intros s; simpl; [reflexivity|].
  rewrite HF, bind_rmap, rmap_bind. apply bind_ext. intros x. apply IH.
Qed.

Lemma info_of_sd d s c : info_of (sd d s) c = info_of s c. Proof. reflexivity. Qed.
Lemma write_cell_sd d s ai ci slot v : write_cell (sd d s) ai ci slot v = rmap (sd d) (write_cell s ai ci slot v).
Proof. unfold write_cell. cbn [sd set_deps archs]. rewrite rmap_bind. apply bind_ext. intros a. reflexivity. Qed.

Lemma if_sd d (b : bool) (s1 s2 : mst) : (if b then sd d s1 else sd d s2) = sd d (if b then s1 else s2).
Proof. destruct b; reflexivity. Qed.


Lemma bind_comm {A B A' B'} (g : A -> A') (g' : B -> B') (r : res A) (r' : res A') (k : A -> res B) (k' : A' -> res B') :
  r' = rmap g r -> (forall x, k' (g x) = rmap g' (k x)) -> bind r' k' = rmap g' (bind r k).
Proof. intros -> H. destruct r; simpl; [apply H|reflexivity]. Qed.
(* a bind whose first computation does not involve the state *)
Lemma bind_same {A B B'} (g' : B -> B') (r : res A) (k : A -> res B) (k' : A -> res B') :
  (forall x, k' x = rmap g' (k x)) -> bind r k' = rmap g' (bind r k).
Proof. intros H. destruct r; simpl; [apply H|reflexivity]. Qed.

Lemma construct_default_sd d s ai c ci slot h u :
  construct_default (sd d s) ai c ci slot h u = rmap (sd d) (construct_default s ai c ci slot h u).
Proof.
  unfold construct_default. rewrite info_of_sd. apply bind_same. intros inf.
  apply (bind_comm (sd d)).
  - destruct (ci_create inf) as [v|].
    + apply (bind_comm (sd d)); [apply write_cell_sd|]. intros s'. destruct (ci_ev inf); reflexivity.
    + destruct (ci_default inf) as [v|]; [destruct u|]; try reflexivity. apply write_cell_sd.
  - intros s1. destruct (ci_aa inf); reflexivity.
Qed.

Lemma push_back_sd d s ai h : push_back (sd d s) ai h = rmap (sd1 d) (push_back s ai h).
Proof.
  unfold push_back. cbn [sd set_deps archs wv]. apply bind_same. intros a. apply bind_same. intros a1. reflexivity.
Qed.

Lemma update_location_sd d s h l : update_location (sd d s) h l = rmap (sd d) (update_location s h l).
Proof. unfold update_location. cbn [sd set_deps locs]. apply bind_same. intros ls. reflexivity. Qed.

Lemma pop_back_sd d s ai : pop_back (sd d s) ai = rmap (sd d) (pop_back s ai).
Proof. unfold pop_back. cbn [sd set_deps archs]. apply bind_same. intros a. reflexivity. Qed.

Lemma call_destructor_sd d s ai slot : call_destructor (sd d s) ai slot = rmap (sd d) (call_destructor s ai slot).
Proof.
  unfold call_destructor. cbn [sd set_deps archs]. apply bind_same. intros a.
  apply (bind_comm (sd d)).
  - apply fold_res_sd. intros st c. rewrite info_of_sd. apply bind_same. intros inf. destruct (ci_destroy inf && ci_ev inf); reflexivity.
  - intros s1. cbn [sd set_deps archs]. apply bind_same. intros a1. reflexivity.
Qed.

Lemma internal_move_sd d s ai src dst : internal_move (sd d s) ai src dst = rmap (sd d) (internal_move s ai src dst).
Proof.
  unfold internal_move. cbn [sd set_deps archs]. apply bind_same. intros a.
  apply (bind_comm (sd d)).
  - apply fold_res_sd. intros st (ci, c). rewrite info_of_sd. apply bind_same. intros inf. cbn [sd set_deps archs].
    apply bind_same. intros a'. destruct (ci_move inf && ci_ev inf); reflexivity.
  - intros s1. cbn [sd set_deps archs wv]. apply bind_same. intros a1. apply bind_same. intros src_e. apply bind_same. intros dst_e.
    apply bind_same. intros csrc. apply bind_same. intros cdst. apply bind_same. intros a2. apply bind_same. intros a3.
    apply (bind_comm (sd d)); [apply (update_location_sd d (set_arch s1 ai a3))|]. intros s3.
    apply (bind_comm (sd d)); [apply update_location_sd|]. intros s4. cbn [sd set_deps archs].
    apply bind_same. intros a4. apply (call_destructor_sd d (set_arch s4 ai (with_ents a4 (upd (am_ents a4) dst src_e)))).
Qed.

Lemma any_destroy_sd d s m : any_destroy (sd d s) m = any_destroy s m.
Proof. unfold any_destroy. cbn [sd set_deps cinfos]. reflexivity. Qed.

Lemma arch_remove_sd d s ai idx h skip : arch_remove (sd d s) ai idx h skip = rmap (sd d) (arch_remove s ai idx h skip).
Proof.
  unfold arch_remove. cbn [sd set_deps archs cinfos]. apply bind_same. intros a. apply bind_same. intros ent.
  apply (bind_comm (sd d)).
  - apply fold_res_sd. intros st c. rewrite info_of_sd. apply bind_same. intros inf. destruct (ci_br inf && _); reflexivity.
  - intros s1. destruct (am_size a) as [|last]; [reflexivity|]. destruct (Nat.eqb idx last).
    + apply (bind_comm (sd d)).
      * rewrite any_destroy_sd. destruct (any_destroy s1 (am_mask a)); [apply call_destructor_sd|apply pop_back_sd].
      * intros s2. cbn [sd set_deps archs wv]. apply bind_same. intros a2. apply bind_same. intros ch. apply bind_same. intros a3.
        apply (update_location_sd d (set_arch s2 ai a3)).
    + apply internal_move_sd.
Qed.

Lemma external_move_sd d s ai h prev pidx skip :
  external_move (sd d s) ai h prev pidx skip = rmap (sd d) (external_move s ai h prev pidx skip).
Proof.
  unfold external_move. destruct (Nat.eqb ai prev); [reflexivity|].
  apply (bind_comm (sd1 d)); [apply push_back_sd|]. intros (s1, idx). cbn [sd1 fst snd]. cbn [sd set_deps archs].
  apply bind_same. intros a. apply bind_same. intros pa.
  apply (bind_comm (sd d)).
  - apply fold_res_sd. intros st (ci, c). rewrite info_of_sd. apply bind_same. intros inf. cbn [sd set_deps archs].
    apply bind_same. intros pa'. destruct (cindex (am_mask pa') c) as [pci|].
    + destruct (Nat.ltb pidx (am_size pa')); [|reflexivity].
      apply (bind_comm (sd d)); [apply write_cell_sd|]. intros st1. destruct (ci_mctor inf && ci_ev inf); reflexivity.
    + destruct (_ && negb (mhas skip c)); [apply construct_default_sd|reflexivity].
  - intros s2. cbn [sd set_deps archs]. apply bind_same. intros pa2. apply bind_same. intros pent.
    apply (bind_comm (sd d)); [apply arch_remove_sd|]. intros s3. apply update_location_sd.
Qed.

Lemma arch_insert_sd d s ai h skip : arch_insert (sd d s) ai h skip = rmap (sd d) (arch_insert s ai h skip).
Proof.
  unfold arch_insert. apply (bind_comm (sd1 d)); [apply push_back_sd|]. intros (s1, idx). cbn [sd1 fst snd]. cbn [sd set_deps archs].
  apply bind_same. intros a.
  apply (bind_comm (sd d)).
  - destruct (skip =? am_mask a)%N; [reflexivity|].
    apply (bind_comm (sd d)).
    + apply fold_res_sd. intros st (ci, c). rewrite info_of_sd. apply bind_same. intros inf.
      destruct (_ || ci_aa inf); [|reflexivity]. destruct (_ || negb (mhas skip c)); [apply construct_default_sd|reflexivity].
    + intros s'. apply fold_res_sd. intros st (ci, c). rewrite info_of_sd. apply bind_same. intros inf.
      destruct (_ || ci_aa inf); [reflexivity|]. destruct (ci_default inf) as [v|]; [|reflexivity].
      destruct (_ || negb (mhas skip c)); [apply write_cell_sd|reflexivity].
  - intros s2. cbn [sd set_deps archs wv]. apply bind_same. intros a2. apply bind_same. intros a3.
    apply (update_location_sd d (set_arch s2 ai a3)).
Qed.

Lemma create_id_sd d s : create_id (sd d s) = rmap (sd1 d) (create_id s).
Proof.
  unfold create_id. cbn [sd set_deps empty_slots slots locs next_slot]. destruct (empty_slots s) as [|e]; [reflexivity|].
  apply bind_same. intros sl. cbn [set_slots set_free slots locs]. apply bind_same. intros ls. reflexivity.
Qed.

Lemma is_valid_sd d s h : is_valid (sd d s) h = is_valid s h. Proof. reflexivity. Qed.
Lemma release_id_sd d s h : release_id (sd d s) h = sd d (release_id s h). Proof. reflexivity. Qed.

Lemma destroy_now_unlocked_sd d s h : destroy_now_unlocked (sd d s) h = rmap (sd d) (destroy_now_unlocked s h).
Proof.
  unfold destroy_now_unlocked. rewrite is_valid_sd. destruct (is_valid s h); [|reflexivity]. cbn [sd set_deps locs].
  apply bind_same. intros l. apply (bind_comm (sd d)).
  - destruct (l_arch l) as [ai|]; [apply arch_remove_sd|reflexivity].
  - intros s1. reflexivity.
Qed.

Lemma get_mut_sd d s h c w : get_mut (sd d s) h c w = rmap (sd1 d) (get_mut s h c w).
Proof.
  unfold get_mut. rewrite is_valid_sd. destruct (negb (is_valid s h)); [reflexivity|]. cbn [sd set_deps locs archs wv].
  apply bind_same. intros l. destruct (l_arch l) as [ai|]; [|reflexivity]. apply bind_same. intros a.
  destruct (cindex (am_mask a) c) as [ci|]; [|reflexivity]. apply bind_same. intros ch. apply bind_same. intros a1. reflexivity.
Qed.

Lemma loc_arch_sd d s h : loc_arch (sd d s) h = loc_arch s h. Proof. reflexivity. Qed.
Lemma resolve_chunk_sd d s m : resolve_chunk (sd d s) m = resolve_chunk s m. Proof. reflexivity. Qed.

(* ---- consequences ---- *)
Lemma rmap_ok {A B} (g : A -> B) (r : res A) x : r = Ok x -> rmap g r = Ok (g x).
Proof. intros ->. reflexivity. Qed.

Lemma sd_id s : sd (deps s) s = s.
Proof. destruct s; reflexivity. Qed.

(* a function that commutes with every replacement of the table leaves the table alone *)
Lemma comm_deps (f : mst -> res mst) s s' : (forall d, f (sd d s) = rmap (sd d) (f s)) -> f s = Ok s' -> deps s' = deps s.
Proof.
  intros Hc H. specialize (Hc (deps s)). rewrite sd_id, H in Hc. simpl in Hc. inversion Hc as [E]. rewrite E at 1. reflexivity.
Qed.
Lemma comm_deps1 {X} (f : mst -> res (mst * X)) s s' x : (forall d, f (sd d s) = rmap (sd1 d) (f s)) -> f s = Ok (s', x) -> deps s' = deps s.
Proof.
  intros Hc H. specialize (Hc (deps s)). rewrite sd_id, H in Hc. simpl in Hc. inversion Hc as [E]. rewrite E at 1. reflexivity.
Qed.

(* getArchetype is the one reader of the table *)
Lemma get_arch_ex s m sh s1 ai : get_arch s m sh = Ok (s1, ai) -> exists ex, extra_components s m = Ok ex.
Proof. unfold get_arch. intros H. bd H e0 Hex. eauto. Qed.

Lemma get_arch_deps s m sh s1 ai : get_arch s m sh = Ok (s1, ai) -> deps s1 = deps s.
Proof.
  unfold get_arch. intros H. bd H e0 Hex. cbv zeta in H. destruct (find_arch (archs s) (munion m e0) sh 0).
  - inversion H. reflexivity.
  - bd H cs Hcs. inversion H. reflexivity.
Qed.

(* with the table erased, asking for the closed set finds or makes the same archetype *)
Lemma get_arch_nd s m sh ex s1 ai : extra_components s m = Ok ex -> get_arch s m sh = Ok (s1, ai) ->
  get_arch (sd [] s) (munion m ex) sh = Ok (sd [] s1, ai).
Proof.
  intros Hex H. unfold get_arch in *. rewrite Hex in H. bok H. cbv zeta in H.
  assert (E0 : extra_components (sd [] s) (munion m ex) = Ok 0%N) by reflexivity.
  rewrite E0, bind_Ok. cbv zeta. rewrite munion_zero. cbn [sd set_deps archs].
  destruct (find_arch (archs s) (munion m ex) sh 0) as [i|].
  - inversion H. reflexivity.
  - rewrite resolve_chunk_sd. bd H cs Hcs. rewrite Hcs, bind_Ok. inversion H. reflexivity.
Qed.
