(* C07 / C11 over histories WITH DESTRUCTION, part 3: what creation (now also into recycled slots) and destroyNow do to a
   state satisfying VInvD.
     create_id_d / place_d / create_d      createEntity while unlocked, fresh or recycled id
     internal_move_effect, arch_remove_effect   Archetype::remove with its version stamps (the cells are ignored)
     remove_d / release_d / destroy_d      destroyNow while unlocked
     dstep_inv, drun_inv                   every proper script keeps VInvD *)
Require Import Coq.Lists.List Coq.NArith.NArith Coq.ZArith.ZArith Coq.Arith.Arith Coq.Bool.Bool Coq.micromega.Lia.
From Mustache Require Import Res Iter Manager.
From Mustache.proofs Require Import ListLemmas SkelBasics ClosureProofs ManagerBasics ManagerMoves ManagerDeferred
  IterProofs IterCover VersionProofs VersionHistory VersionDestroyArch VersionDestroyInv.
Import ListNotations.

Lemma to_nat_inj a b : N.to_nat a = N.to_nat b -> a = b.
Proof. apply N2Nat.inj. Qed.

Lemma is_valid_range s h : is_valid s h = true -> N.to_nat (fst h) < length (slots s).
Proof.
  unfold is_valid. destruct (is_null h); [discriminate|].
  destruct (nth_error (slots s) (N.to_nat (fst h))) eqn:E; [|discriminate]. intros _. apply nth_error_Some. congruence.
Qed.

(* ------------------------------------------------------------------------------------------ *)
(* createEntity: the id                                                                        *)
Lemma create_id_d s1 js s2 h :
  VInvD (s1, js) -> create_id s1 = Ok (s2, h) ->
  VInvD (s2, js) /\ archs s2 = archs s1 /\ wv s2 = wv s1 /\ ver_match s2 h /\ unlocated s2 (fst h) /\
  (exists F, free_okF s2 F /\ ~ In (fst h) F) /\
  (forall k a idx, nth_error (archs s1) k = Some a -> nth_error (am_ents a) idx = Some h -> False).
Proof.
  intros HI H. pose proof HI as [I1 I2 I3 I4 I5 I6 I7 I8 I9]. cbn [fst snd] in *.
  destruct I8 as (F & N1 & N2 & N3 & N4).
  unfold create_id in H. destruct (empty_slots s1) as [|n0] eqn:Ee.
  - (* a fresh id *)
    inversion H; subst s2 h; clear H.
    set (id := N.of_nat (length (slots s1))) in *.
    assert (Hid : N.to_nat id = length (slots s1)) by (unfold id; apply Nat2N.id).
    assert (HF : F = []) by (destruct F; [reflexivity|discriminate]). subst F.
    cbn [fst snd archs wv set_locs set_slots].
    split; [|split; [reflexivity|split; [reflexivity|]]].
    + constructor; cbn [fst snd lockc marked bufs locs slots archs wv set_locs set_slots]; try assumption.
      * rewrite !app_length. simpl. lia.
      * intros h' l ai Hv Hl Hai. cbn [locs set_locs set_slots] in Hl.
        unfold is_valid in Hv. cbn [slots set_locs set_slots] in Hv. destruct (is_null h') eqn:En; [discriminate|].
        destruct (Nat.lt_ge_cases (N.to_nat (fst h')) (length (slots s1))) as [L|G].
        -- rewrite nth_error_app1 in Hv by exact L. rewrite nth_error_app1 in Hl by (rewrite I4; exact L).
           apply (I6 h' l ai); [unfold is_valid; rewrite En; exact Hv|exact Hl|exact Hai].
        -- exfalso. destruct (Nat.eq_dec (N.to_nat (fst h')) (length (slots s1))) as [E|Hne].
           ++ rewrite E, <- I4, nth_error_app_last in Hl. inversion Hl; subst l. discriminate.
           ++ rewrite (proj2 (nth_error_None _ _)) in Hv; [discriminate|]. rewrite app_length. simpl. lia.
      * intros ai a idx e Ha He. destruct (I7 _ _ _ _ Ha He) as ((x & X1 & X2) & L). unfold ver_match. cbn [slots locs set_locs set_slots]. split.
        -- exists x. split; [|exact X2]. rewrite nth_error_app1; [exact X1|]. apply nth_error_Some. congruence.
        -- rewrite nth_error_app1; [exact L|]. apply nth_error_Some. congruence.
      * exists []. split; [constructor|]. split; [cbn [empty_slots set_locs set_slots]; rewrite Ee; reflexivity|].
        split; [exact I|]. intros i [].
    + split; [|split; [|split]].
      * exists {| s_id := id; s_ver := 0 |}. cbn [fst snd slots set_locs set_slots]. rewrite Hid, nth_error_app_last. auto.
      * exists default_loc. cbn [fst locs set_locs set_slots]. rewrite Hid, <- I4, nth_error_app_last. auto.
      * exists []. split; [|intros []]. split; [constructor|]. split; [cbn [empty_slots set_locs set_slots]; rewrite Ee; reflexivity|].
        split; [exact I|]. intros i [].
      * intros k a idx Ha He. destruct (I7 _ _ _ _ Ha He) as ((x & X1 & _) & _). cbn [fst] in X1. rewrite Hid in X1.
        assert (length (slots s1) < length (slots s1)) by (apply nth_error_Some; congruence). lia.
  - (* a recycled id *)
    bd H sl Hsl. apply nth_res_ok in Hsl. cbv zeta in H. bd H ls Hls. apply upd_res_ok in Hls. destruct Hls as (Hlt & ->).
    inversion H; subst s2 h; clear H. cbn [locs slots set_free set_slots] in Hlt.
    set (id := next_slot s1) in *.
    destruct F as [|i F']; [discriminate|]. cbn [fchain] in N3. destruct N3 as (Ei & x & Hx & Hch). subst i.
    fold id in Hx, Hch, N1, N4. rewrite Hsl in Hx. inversion Hx; subst x; clear Hx.
    inversion N1 as [|? ? Hni Hnd]; subst.
    assert (Hun : unlocated s1 id) by (apply N4; left; reflexivity).
    cbn [fst snd archs wv set_locs set_slots set_free].
    assert (Hmem : forall k a idx e, nth_error (archs s1) k = Some a -> nth_error (am_ents a) idx = Some e -> N.to_nat (fst e) <> N.to_nat id).
    { intros k a idx e Ha He E. destruct (I7 _ _ _ _ Ha He) as (_ & L). destruct Hun as (l & Hl & Hn). rewrite E in L. rewrite L in Hl.
      inversion Hl; subst l. discriminate. }
    assert (HF' : free_okF (set_locs (set_slots (set_free s1 (s_id sl) n0)
                     (upd (slots (set_free s1 (s_id sl) n0)) (N.to_nat id) {| s_id := id; s_ver := s_ver sl |}))
                     (upd (locs s1) (N.to_nat id) default_loc)) F').
    { split; [exact Hnd|]. split; [cbn [empty_slots set_locs set_slots set_free]; simpl in N2; lia|].
      split.
      - cbn [slots next_slot set_locs set_slots set_free]. apply fchain_upd; [|exact Hch].
        intros k Hk E. apply to_nat_inj in E. subst k. contradiction.
      - intros k Hk. destruct (N4 k (or_intror Hk)) as (l & Hl & Hn). exists l. split; [|exact Hn].
        cbn [locs set_locs set_slots set_free]. rewrite nth_error_upd_other; [exact Hl|].
        intro E. apply to_nat_inj in E. subst k. contradiction. }
    split; [|split; [reflexivity|split; [reflexivity|]]].
    + constructor; cbn [fst snd lockc marked bufs locs slots archs wv set_locs set_slots set_free]; try assumption.
      * rewrite !upd_length. exact I4.
      * intros h' l ai Hv Hl Hai. cbn [locs set_locs set_slots set_free] in Hl.
        destruct (Nat.eq_dec (N.to_nat (fst h')) (N.to_nat id)) as [E|Hne].
        -- exfalso. rewrite E, nth_error_upd_same in Hl by exact Hlt. inversion Hl; subst l. discriminate.
        -- rewrite nth_error_upd_other in Hl by congruence. apply (I6 h' l ai); [|exact Hl|exact Hai].
           rewrite <- Hv. symmetry. apply is_valid_slot. cbn [slots set_locs set_slots set_free].
           apply nth_error_upd_other. congruence.
      * intros ai a idx e Ha He. pose proof (Hmem _ _ _ _ Ha He) as Hne. destruct (I7 _ _ _ _ Ha He) as ((x & X1 & X2) & L).
        unfold ver_match. cbn [slots locs set_locs set_slots set_free]. split.
        -- exists x. rewrite nth_error_upd_other by congruence. auto.
        -- rewrite nth_error_upd_other by congruence. exact L.
      * exists F'. exact HF'.
    + split; [|split; [|split]].
      * exists {| s_id := id; s_ver := s_ver sl |}. cbn [fst snd slots set_locs set_slots set_free s_ver].
        split; [|reflexivity]. apply nth_error_upd_same. apply nth_error_Some. congruence.
      * exists default_loc. cbn [fst locs set_locs set_slots set_free]. split; [|reflexivity]. apply nth_error_upd_same. exact Hlt.
      * exists F'. split; [exact HF'|exact Hni].
      * intros k a idx Ha He. apply (Hmem _ _ _ _ Ha He). reflexivity.
Qed.

(* Archetype::insert moves nothing of the id table *)
Lemma arch_insert_next s ai h skip s' : arch_insert s ai h skip = Ok s' -> next_slot s' = next_slot s.
Proof.
  intro H. unfold arch_insert in H. bd H r Hr. destruct r as (s1, idx).
  unfold push_back in Hr. bd Hr a Ha. bd Hr a1 Ha1. inversion Hr; subst s1 idx; clear Hr.
  cbv beta iota in H.
  set (a1' := with_size (with_ents a1 (am_ents a1 ++ [h])) (Nat.max (am_size a1) (S (length (am_ents a))))) in *.
  bd H a0 Ha0. bd H s2 Hs2.
  assert (Hco : cols_only ai (set_arch s ai a1') s2).
  { destruct ((skip =? am_mask a0)%N); [inversion Hs2; apply cols_only_refl|].
    bd Hs2 sm Hsm. eapply cols_only_trans.
    - eapply fold_cols_only; [|exact Hsm]. intros st [ci c] st' Hf. bd Hf inf Hinf.
      destruct ((match ci_create inf with Some _ => true | None => false end) || ci_aa inf); [|inversion Hf; apply cols_only_refl].
      destruct ((skip =? 0)%N || negb (mhas skip c)); [eapply construct_default_cols; eassumption|inversion Hf; apply cols_only_refl].
    - eapply fold_cols_only; [|exact Hs2]. intros st [ci c] st' Hf. bd Hf inf Hinf.
      destruct ((match ci_create inf with Some _ => true | None => false end) || ci_aa inf); [inversion Hf; apply cols_only_refl|].
      destruct (ci_default inf); [|inversion Hf; apply cols_only_refl].
      destruct ((skip =? 0)%N || negb (mhas skip c)); [eapply write_cell_cols; eassumption|inversion Hf; apply cols_only_refl]. }
  destruct Hco as (F2 & _). bd H a2 Ha2. bd H a3 Ha3. apply update_location_ok in H. destruct H as (_ & ->).
  cbn [next_slot set_locs set_arch set_archs]. apply (f_equal next_slot) in F2. exact F2.
Qed.

(* createEntity: the entity takes its place *)
Lemma place_d s2 js F (h : handle) ai a s3 :
  VInvD (s2, js) -> free_okF s2 F -> ~ In (fst h) F -> ver_match s2 h -> unlocated s2 (fst h) ->
  nth_error (archs s2) ai = Some a -> arch_insert s2 ai h 0%N = Ok s3 ->
  VInvD (s3, js) /\ wv s3 = wv s2 /\
  exists a3, archs s3 = upd (archs s2) ai a3 /\ am_ents a3 = am_ents a ++ [h] /\ aframe a a3 /\ arch_okd (wv s2) a3 /\
    am_mask a3 = am_mask a /\ am_chunk a3 = am_chunk a /\ length (am_gver a3) = length (am_gver a) /\
    (forall i, i < length (am_gver a) -> nth (length (am_gver a) * (length (am_ents a) / am_chunk a) + i) (am_cver a3) 0%N = wv s2) /\
    (forall ch i, ch < length (am_ents a) / am_chunk a -> i < length (am_gver a) ->
       nth (length (am_gver a) * ch + i) (am_cver a3) 0%N = nth (length (am_gver a) * ch + i) (am_cver a) 0%N) /\
    (forall ch i, length (am_ents a) / am_chunk a < ch -> nth (length (am_gver a) * ch + i) (am_cver a3) 0%N = 0%N) /\
    nth_error (locs s3) (N.to_nat (fst h)) = Some {| l_arch := Some ai; l_idx := length (am_ents a) |}.
Proof.
  intros HI HF Hni Hvm Hun Ha H. pose proof HI as [I1 I2 I3 I4 I5 I6 I7 I8 I9]. cbn [fst snd] in *.
  pose proof (arch_insert_next _ _ _ _ _ H) as Enext.
  destruct (arch_insert_effect _ _ _ _ _ _ Ha H) as (a1 & a2 & a3 & E1 & E2 & E3 & Earchs & Hlt & Elocs & Eslots & Efree & Elock & Emarked & Ebufs & Ewv).
  pose proof (Forall_nth_error _ _ _ _ I5 Ha) as Hoka.
  destruct (inserted_okd (wv s2) a h a1 a2 a3 Hoka E1 E2 E3) as (Hok3 & Hents3).
  destruct (inserted_stamps_d (wv s2) a h a1 a2 a3 Hoka E1 E2 E3) as (Em3 & Ek3 & Eg3 & Hrow3 & Hlow3 & Hhigh3).
  pose proof (inserted_aframe (wv s2) a h a1 a2 a3 Hoka E1 E2 E3) as Hfr3.
  assert (Hai : ai < length (archs s2)) by (apply nth_error_Some; congruence).
  destruct Hun as (l0 & Hl0 & Hn0).
  assert (Hmem : forall k x idx e, nth_error (archs s2) k = Some x -> nth_error (am_ents x) idx = Some e -> N.to_nat (fst e) <> N.to_nat (fst h)).
  { intros k x idx e Hx He E. destruct (I7 _ _ _ _ Hx He) as (_ & L). rewrite E in L. rewrite L in Hl0. inversion Hl0; subst l0. discriminate. }
  split; [|split; [exact Ewv|]].
  - constructor; cbn [fst snd].
    + congruence.
    + congruence.
    + unfold bufs_empty. rewrite Ebufs. exact I3.
    + rewrite Elocs, upd_length, Eslots. exact I4.
    + rewrite Ewv, Earchs. apply Forall_upd; assumption.
    + intros h' l ai' Hv Hl Hai'. rewrite Earchs. rewrite Elocs in Hl.
      assert (Hv2 : is_valid s2 h' = true) by (rewrite <- Hv; symmetry; apply is_valid_slots; exact Eslots).
      destruct (Nat.eq_dec (N.to_nat (fst h')) (N.to_nat (fst h))) as [E|Hne].
      * rewrite E, nth_error_upd_same in Hl by exact Hlt. inversion Hl; subst l; clear Hl. cbn [l_arch l_idx] in *.
        inversion Hai'; subst ai'.
        assert (h' = h) by (apply (ver_match_eq s2); [apply is_valid_match; exact Hv2|exact Hvm|apply to_nat_inj; exact E]). subst h'.
        exists a3. split; [apply nth_error_upd_same; exact Hai|]. rewrite Hents3. apply nth_error_app_last.
      * rewrite nth_error_upd_other in Hl by congruence.
        destruct (I6 h' l ai' Hv2 Hl Hai') as (x & Hx1 & Hx2).
        destruct (Nat.eq_dec ai' ai) as [->|Hna].
        -- rewrite Ha in Hx1. inversion Hx1; subst x. exists a3. split; [apply nth_error_upd_same; exact Hai|].
           rewrite Hents3. apply nth_error_app_l. exact Hx2.
        -- exists x. split; [rewrite nth_error_upd_other by congruence; exact Hx1|exact Hx2].
    + intros k x idx e Hx He. rewrite Earchs in Hx. unfold ver_match. rewrite Eslots, Elocs.
      destruct (Nat.eq_dec k ai) as [->|Hnk].
      * rewrite nth_error_upd_same in Hx by exact Hai. inversion Hx; subst x; clear Hx. rewrite Hents3 in He.
        destruct (Nat.lt_ge_cases idx (length (am_ents a))) as [L|G].
        -- rewrite nth_error_app1 in He by exact L. pose proof (Hmem _ _ _ _ Ha He) as Hne.
           destruct (I7 _ _ _ _ Ha He) as (X & L'). split; [exact X|]. rewrite nth_error_upd_other by congruence. exact L'.
        -- assert (idx < length (am_ents a ++ [h])) by (apply nth_error_Some; congruence). rewrite app_length in H0. simpl in H0.
           assert (idx = length (am_ents a)) by lia. subst idx. rewrite nth_error_app_last in He. inversion He; subst e.
           split; [exact Hvm|]. apply nth_error_upd_same. exact Hlt.
      * rewrite nth_error_upd_other in Hx by congruence. pose proof (Hmem _ _ _ _ Hx He) as Hne.
        destruct (I7 _ _ _ _ Hx He) as (X & L'). split; [exact X|]. rewrite nth_error_upd_other by congruence. exact L'.
    + exists F. destruct HF as (N1 & N2 & N3 & N4). split; [exact N1|]. split; [congruence|]. split; [rewrite Eslots, Enext; exact N3|].
      intros i Hi. destruct (N4 i Hi) as (l & Hl & Hn). exists l. split; [|exact Hn]. rewrite Elocs.
      rewrite nth_error_upd_other; [exact Hl|]. intro E. apply to_nat_inj in E. subst i. contradiction.
    + rewrite Ewv. exact I9.
  - exists a3. repeat (split; [assumption|]). rewrite Elocs. apply nth_error_upd_same. exact Hlt.
Qed.

Lemma make_shared_info_next sids : forall s sh s' sh', fold_res (fun (x : mst * shared_info) sid =>
      let '(st, sh) := x in
      let '(st1, i) := new_inst st sid 0%Z in
      do sh' <- si_add sh sid i; Ok (st1, sh')) sids (s, sh) = Ok (s', sh') ->
  next_slot s' = next_slot s.
Proof.
  induction sids as [|sid t IH]; intros s sh s' sh' H.
  - simpl in H. inversion H; subst. reflexivity.
  - cbn [fold_res] in H. bd H r Hr. destruct r as [s1 sh1]. unfold new_inst in Hr. bd Hr sh2 Hsh. inversion Hr; subst s1 sh1; clear Hr.
    rewrite (IH _ _ _ _ H). reflexivity.
Qed.

(* createEntity while unlocked, fresh or recycled id: the invariant is kept; the new entity is appended to its archetype,
   the version chunk of its position is stamped with the world version in every component; every archetype keeps its
   entities in place *)
Theorem create_d s js tid m sids via s' out_ :
  VInvD (s, js) -> step s (OCreate tid m sids via) = Ok (s', out_) ->
  VInvD (s', js) /\ wv s' = wv s /\ sframe (s, js) (s', js) /\
  exists h ai a3 idx,
    out_ = RHandle h /\ nth_error (archs s') ai = Some a3 /\ S idx = length (am_ents a3) /\ nth_error (am_ents a3) idx = Some h /\
    (forall i, i < length (am_gver a3) -> nth (length (am_gver a3) * (idx / am_chunk a3) + i) (am_cver a3) 0%N = wv s) /\
    (forall k a i, nth_error (archs s) k = Some a -> nth_error (am_ents a) i = Some h -> False) /\
    nth_error (locs s') (N.to_nat (fst h)) = Some {| l_arch := Some ai; l_idx := idx |} /\
    (* where the stamps of the new state come from: the old state, or the version chunk of the new entity *)
    (forall ai0 a' k i, nth_error (archs s') ai0 = Some a' -> i < length (am_gver a') ->
       (nth (length (am_gver a') * k + i) (am_cver a') 0 <= stampof s ai0 k i)%N \/ (ai0 = ai /\ k = idx / am_chunk a3)).
Proof.
  intros HI H. cbn [step] in H. bd H r0 Hr0. destruct r0 as [s0 sh].
  unfold make_shared_info in Hr0. destruct (make_shared_info_core _ _ _ _ _ Hr0) as (Hcore0 & Harchs0).
  pose proof (make_shared_info_next _ _ _ _ _ Hr0) as Hnext0.
  pose proof Hcore0 as (_ & _ & _ & _ & _ & _ & W0).
  pose proof (VInvD_core _ _ _ (conj Hcore0 Hnext0) Harchs0 HI) as HI0. clear HI Hr0 Hcore0.
  pose proof HI0 as [I1 I2 I3 I4 I5 I6 I7 I8 I9]. cbn [fst snd] in *. rewrite I1 in H.
  bd H r Hr. destruct r as [s1 ai]. bd H r2 Hr2. destruct r2 as [s2 h]. bd H s3 Hs3. inversion H; subst s' out_; clear H.
  (* the archetype exists or is appended empty *)
  assert (HI1 : VInvD (s1, js)).
  { destruct (get_arch_effect _ _ _ _ _ Hr) as [->|(a0 & -> & -> & E1 & E2 & E3 & E4)]; [exact HI0|].
    constructor; cbn [fst snd lockc marked bufs locs slots archs wv set_archs]; try assumption.
    - apply Forall_app. split; [exact I5|]. constructor; [|constructor]. apply arch_ok_okd. apply fresh_arch_ok; assumption.
    - intros h' l ai' Hv Hl Hai'. destruct (I6 h' l ai' Hv Hl Hai') as (x & Hx1 & Hx2). exists x. split; [apply nth_error_app_l; assumption|assumption].
    - intros k x idx e Hx He. cbn [archs set_archs] in Hx.
      destruct (Nat.lt_ge_cases k (length (archs s0))) as [L|G].
      + rewrite nth_error_app1 in Hx by exact L. exact (I7 _ _ _ _ Hx He).
      + exfalso. rewrite nth_error_app2 in Hx by exact G. destruct (k - length (archs s0)) as [|n].
        * cbn [nth_error] in Hx. inversion Hx; subst x. rewrite E1 in He. destruct idx; discriminate.
        * destruct n; discriminate. }
  assert (Hga : wv s1 = wv s0 /\
                (archs s1 = archs s0 \/ exists a0, archs s1 = archs s0 ++ [a0] /\ am_cver a0 = [])).
  { destruct (get_arch_effect _ _ _ _ _ Hr) as [->|(a0 & -> & _ & _ & E2 & _)]; cbn [wv archs set_archs].
    - split; [reflexivity|left; reflexivity].
    - split; [reflexivity|right; exists a0; auto]. }
  destruct Hga as (W1 & Harchs1).
  assert (Hon : forall k x, nth_error (archs s1) k = Some x -> nth_error (archs s) k = Some x \/ am_cver x = []).
  { intros k x Hx. rewrite <- Harchs0. destruct Harchs1 as [E1'|(a0 & E1' & E0)]; rewrite E1' in Hx; [left; exact Hx|].
    destruct (Nat.lt_ge_cases k (length (archs s0))) as [L|G].
    - left. rewrite nth_error_app1 in Hx by exact L. exact Hx.
    - right. rewrite nth_error_app2 in Hx by exact G. destruct (k - length (archs s0)) as [|n0].
      + cbn [nth_error] in Hx. inversion Hx; subst x. exact E0.
      + destruct n0; discriminate. }
  assert (Hold : forall k a, nth_error (archs s) k = Some a -> nth_error (archs s1) k = Some a).
  { intros k a Hk. rewrite <- Harchs0 in Hk. destruct Harchs1 as [->|(a0 & -> & _)]; [exact Hk|apply nth_error_app_l; exact Hk]. }
  destruct (create_id_d _ _ _ _ HI1 Hr2) as (HI2 & A2 & W2 & Hvm & Hun & (F & HF & Hni) & Hnew).
  assert (Hex : exists a, nth_error (archs s2) ai = Some a).
  { pose proof Hs3 as Hx. unfold arch_insert, push_back in Hx. bd Hx rr Hrr. bd Hrr a Ha. apply nth_res_ok in Ha. eauto. }
  destruct Hex as (a & Ha2).
  destruct (place_d _ _ _ _ _ _ _ HI2 HF Hni Hvm Hun Ha2 Hs3) as (HI3 & W3 & a3 & A3 & Hents3 & Hfr3 & Hok3 & Em3 & Ek3 & Eg3 & Hrow3 & Hlow3 & Hhigh3 & Hloc3).
  assert (Hai : ai < length (archs s2)) by (apply nth_error_Some; congruence).
  split; [exact HI3|]. split; [congruence|]. split.
  { split; cbn [fst]; [|rewrite W3, W2, W1, W0; apply N.le_refl].
    intros k x Hx. apply Hold in Hx. rewrite <- A2 in Hx. rewrite A3. destruct (Nat.eq_dec k ai) as [->|Hne].
    - rewrite Ha2 in Hx. inversion Hx; subst x. exists a3. split; [apply nth_error_upd_same; exact Hai|exact Hfr3].
    - exists x. split; [rewrite nth_error_upd_other by congruence; exact Hx|apply aframe_refl]. }
  exists h, ai, a3, (length (am_ents a)).
  split; [reflexivity|]. split; [rewrite A3; apply nth_error_upd_same; exact Hai|].
  split; [rewrite Hents3, app_length; simpl; lia|]. split; [rewrite Hents3; apply nth_error_app_last|].
  split; [intros i Hi; rewrite Eg3, Ek3 in *; rewrite <- W0, <- W1, <- W2; apply Hrow3; exact Hi|].
  split; [intros k x i Hx He; apply Hold in Hx; exact (Hnew _ _ _ Hx He)|].
  split; [exact Hloc3|].
  assert (Hstamp0 : forall k0 x p, nth_error (archs s1) k0 = Some x ->
            (nth p (am_cver x) 0 <= match nth_error (archs s) k0 with Some a_ => nth p (am_cver a_) 0 | None => 0 end)%N /\
            match nth_error (archs s) k0 with Some a_ => length (am_gver a_) = length (am_gver x) | None => True end).
  { intros k0 x p Hx. destruct (Hon _ _ Hx) as [E|E].
    - rewrite E. split; [apply N.le_refl|reflexivity].
    - rewrite E. split; [destruct p; apply N.le_0_l|]. destruct (nth_error (archs s) k0) as [a_|] eqn:Ea_; [|exact I].
      apply Hold in Ea_. rewrite Hx in Ea_. inversion Ea_. reflexivity. }
  assert (Hsof : forall k0 x k i, nth_error (archs s1) k0 = Some x ->
            (nth (length (am_gver x) * k + i) (am_cver x) 0 <= stampof s k0 k i)%N).
  { intros k0 x k i Hx. unfold stampof. destruct (Hstamp0 k0 x (length (am_gver x) * k + i) Hx) as (P1 & P2).
    destruct (nth_error (archs s) k0) as [a_|]; [rewrite P2|]; exact P1. }
  intros ai0 x k i Hx Hi. rewrite A3 in Hx. destruct (Nat.eq_dec ai0 ai) as [->|Hne].
  - rewrite nth_error_upd_same in Hx by exact Hai. inversion Hx; subst x; clear Hx. rewrite Eg3 in *. rewrite Ek3.
    rewrite A2 in Ha2.
    destruct (lt_eq_lt_dec k (length (am_ents a) / am_chunk a)) as [[L|E]|G].
    + left. rewrite (Hlow3 k i L Hi). apply (Hsof ai a k i Ha2).
    + right. auto.
    + left. rewrite (Hhigh3 k i G). apply N.le_0_l.
  - left. rewrite nth_error_upd_other in Hx by congruence. rewrite A2 in Hx. apply (Hsof ai0 x k i Hx).
Qed.

(* ------------------------------------------------------------------------------------------ *)
(* Archetype::remove with its version stamps                                                   *)
Lemma fr2_more s s' : fr2 s' = fr2 s ->
  slots s' = slots s /\ next_slot s' = next_slot s /\ empty_slots s' = empty_slots s /\ lockc s' = lockc s /\
  marked s' = marked s /\ bufs s' = bufs s /\ wv s' = wv s /\ cached s' = cached s.
Proof.
  intro H. repeat split.
  - apply (f_equal slots) in H. exact H.
  - apply (f_equal next_slot) in H. exact H.
  - apply (f_equal empty_slots) in H. exact H.
  - apply (f_equal lockc) in H. exact H.
  - apply (f_equal marked) in H. exact H.
  - apply (f_equal bufs) in H. exact H.
  - apply (f_equal wv) in H. exact H.
  - apply (f_equal cached) in H. exact H.
Qed.

Lemma cols_only_upd ai s s1 a : cols_only ai s s1 -> nth_error (archs s) ai = Some a ->
  exists a1, archs s1 = upd (archs s) ai a1 /\ ab1 a1 = ab1 a /\ nth_error (archs s1) ai = Some a1.
Proof.
  intros (F & L & P) Ha. destruct (P _ _ Ha) as (a1 & Ha1 & Eab & _). exists a1. split; [|split; assumption].
  assert (Hai : ai < length (archs s)) by (apply nth_error_Some; congruence).
  apply nth_ext_error. intro k. destruct (Nat.eq_dec k ai) as [->|Hne].
  - rewrite Ha1. symmetry. apply nth_error_upd_same. exact Hai.
  - rewrite nth_error_upd_other by congruence.
    destruct (nth_error (archs s) k) as [x|] eqn:Ex.
    + destruct (P _ _ Ex) as (x' & Hx' & _ & Hsame). rewrite (Hsame Hne) in Hx'. exact Hx'.
    + apply nth_error_None. apply nth_error_None in Ex. rewrite L. exact Ex.
Qed.

(* the move loop of internalMove touches cells (and the event log) only *)
Lemma move_loop_cols s ai src dst (comps : list nat) s1 :
  fold_res (fun st (x : nat * nat) =>
      let '(ci, c) := x in
      do inf <- info_of st c;
      do a' <- nth_res (archs st) ai;
      let st1 := set_arch st ai (put_cell a' ci dst (get_cell a' ci src)) in
      Ok (if ci_move inf && ci_ev inf then emit st1 (EvMA (ci_pal inf) (PArch ai c dst) (PArch ai c src)) else st1))
    (combine (seq 0 (length comps)) comps) s = Ok s1 ->
  cols_only ai s s1.
Proof.
  intro H. eapply fold_cols_only; [|exact H]. intros st [ci c] st' Hf. bd Hf inf Hinf. bd Hf a' Ha'. cbv zeta in Hf.
  inversion Hf; subst st'; clear Hf. eapply cols_only_trans; [|apply cols_only_if_emit].
  apply (write_cell_cols st ai ci dst (get_cell a' ci src)). unfold write_cell. rewrite Ha'. reflexivity.
Qed.

(* internalMove(src, dst): the member at src takes slot dst, the last slot is dropped, the version chunks of both
   positions are stamped with the live world version *)
Lemma internal_move_effect s ai src dst s' a :
  nth_error (archs s) ai = Some a -> internal_move s ai src dst = Ok s' ->
  exists a' src_e dst_e, nth_error (am_ents a) src = Some src_e /\ nth_error (am_ents a) dst = Some dst_e /\
    fr2 s' = fr2 s /\ archs s' = upd (archs s) ai a' /\
    N.to_nat (fst dst_e) < length (locs s) /\ N.to_nat (fst src_e) < length (locs s) /\
    locs s' = upd (upd (locs s) (N.to_nat (fst dst_e)) default_loc) (N.to_nat (fst src_e)) {| l_arch := Some ai; l_idx := dst |} /\
    am_mask a' = am_mask a /\ am_chunk a' = am_chunk a /\ am_size a' = pred (am_size a) /\
    am_ents a' = removelast (upd (am_ents a) dst src_e) /\ 0 < am_chunk a /\
    restamped a a' (wv s) (fun ch => ch = src / am_chunk a \/ ch = dst / am_chunk a).
Proof.
  intros Ha H. assert (Hai : ai < length (archs s)) by (apply nth_error_Some; congruence).
  unfold internal_move in H. rewrite (nth_res_some _ _ _ Ha) in H. bok H. cbv zeta in H.
  bd H s1 Hs1. apply move_loop_cols in Hs1. destruct (cols_only_upd _ _ _ _ Hs1 Ha) as (a1 & A1 & B1 & Ha1). destruct Hs1 as (F1 & _).
  rewrite (nth_res_some _ _ _ Ha1) in H. bok H.
  destruct (ab1_fields _ _ B1) as (Em & Ee & Ez & Ech & Eg & Ec).
  bd H src_e Hsrc. apply nth_res_ok in Hsrc. bd H dst_e Hdst. apply nth_res_ok in Hdst. rewrite Ee in Hsrc, Hdst.
  bd H csrc Hcsrc. apply chunk_at_ok in Hcsrc. destruct Hcsrc as (Hcs & ->).
  bd H cdst Hcdst. apply chunk_at_ok in Hcdst. destruct Hcdst as (_ & ->).
  bd H a2 Ha2. bd H a3 Ha3. pose proof (set_chunk2_restamped _ _ _ _ _ _ Ha2 Ha3) as R.
  rewrite (fr1_wv _ _ F1), Ech in R.
  apply vs_set_chunk_ok in Ha2. destruct Ha2 as (g2 & c2 & ->). apply vs_set_chunk_ok in Ha3. destruct Ha3 as (g3 & c3 & ->).
  bd H s3 Hs3. apply update_location_ok in Hs3. destruct Hs3 as (Hlt3 & ->).
  bd H s4 Hs4. apply update_location_ok in Hs4. destruct Hs4 as (Hlt4 & ->).
  cbn [locs set_locs archs set_arch set_archs] in *.
  assert (Hai1 : ai < length (archs s1)) by (rewrite A1, upd_length; exact Hai).
  rewrite (nth_res_some _ _ _ (nth_error_upd_same (archs s1) ai _ Hai1)) in H. bok H.
  match type of H with call_destructor ?st _ _ = _ => set (s5 := st) in * end.
  assert (Ha5 : exists a5, nth_error (archs s5) ai = Some a5 /\ a5 = with_ents (with_vers (with_vers a1 g2 c2) g3 c3) (upd (am_ents a1) dst src_e)).
  { eexists. split; [|reflexivity]. unfold s5. cbn [archs set_arch set_archs set_locs]. apply nth_error_upd_same. rewrite !upd_length, A1, upd_length. exact Hai. }
  destruct Ha5 as (a5 & Ha5 & Ea5).
  destruct (call_destructor_ok _ _ _ _ _ Ha5 H) as (F6 & A6).
  assert (Hlocs1 : locs s1 = locs s) by (apply fr1_locs; exact F1).
  exists (with_size (with_ents a5 (removelast (am_ents a5))) (pred (am_size a5))), src_e, dst_e.
  split; [exact Hsrc|]. split; [exact Hdst|].
  split.
  { apply fr1_fr2 in F6. rewrite F6. unfold s5. change (fr2 s1 = fr2 s). apply fr1_fr2. exact F1. }
  split.
  { rewrite A6. unfold s5. cbn [archs set_arch set_archs set_locs]. rewrite A1, !upd_upd. reflexivity. }
  split; [rewrite <- Hlocs1; exact Hlt3|]. split; [rewrite <- Hlocs1; rewrite upd_length in Hlt4; exact Hlt4|].
  split.
  { rewrite (fr1_locs _ _ F6). unfold s5. cbn [locs set_arch set_archs set_locs]. rewrite Hlocs1. reflexivity. }
  subst a5. cbn [am_ents am_size am_cols am_mask am_chunk with_size with_ents with_vers].
  split; [exact Em|]. split; [exact Ech|]. split; [rewrite Ez; reflexivity|]. split; [rewrite Ee; reflexivity|].
  split; [rewrite <- Ech; exact Hcs|].
  eapply restamped_src; [exact Eg|exact Ec|]. eapply restamped_dst; [| |exact R]; reflexivity.
Qed.

Lemma restamped_ext a a' w (P Q : nat -> Prop) : (forall ch, P ch <-> Q ch) -> restamped a a' w P -> restamped a a' w Q.
Proof.
  intros E (R1 & R2 & R3 & R4 & R5). split; [exact R1|]. split; [exact R2|]. split; [|split; [|exact R5]].
  - intros ch i Hq. apply R3. apply E. exact Hq.
  - intros ch i Hq. apply R4. intro Hp. apply Hq. apply E. exact Hp.
Qed.

(* Archetype::remove(entity, idx): the last member is dropped; unless it was the one removed it takes slot idx; the version
   chunks of slot idx and of the last slot are stamped with the live world version; the locations follow *)
Lemma arch_remove_effect s ai idx h skip s' a :
  nth_error (archs s) ai = Some a -> am_size a = length (am_ents a) -> arch_remove s ai idx h skip = Ok s' ->
  exists a' last, length (am_ents a) = S last /\ fr2 s' = fr2 s /\ archs s' = upd (archs s) ai a' /\
    am_mask a' = am_mask a /\ am_chunk a' = am_chunk a /\ am_size a' = last /\ 0 < am_chunk a /\
    restamped a a' (wv s) (fun ch => ch = last / am_chunk a \/ ch = idx / am_chunk a) /\
    ((idx = last /\ am_ents a' = removelast (am_ents a) /\
      N.to_nat (fst h) < length (locs s) /\ locs s' = upd (locs s) (N.to_nat (fst h)) default_loc)
     \/
     (idx <> last /\ exists src dst, nth_error (am_ents a) last = Some src /\ nth_error (am_ents a) idx = Some dst /\
        am_ents a' = removelast (upd (am_ents a) idx src) /\
        N.to_nat (fst dst) < length (locs s) /\ N.to_nat (fst src) < length (locs s) /\
        locs s' = upd (upd (locs s) (N.to_nat (fst dst)) default_loc) (N.to_nat (fst src)) {| l_arch := Some ai; l_idx := idx |})).
Proof.
  intros Ha Hsz H. assert (Hai : ai < length (archs s)) by (apply nth_error_Some; congruence).
  unfold arch_remove in H. rewrite (nth_res_some _ _ _ Ha) in H. bok H. cbv zeta in H.
  bd H ent0 Hent. clear Hent. bd H s1 Hs1. apply fold_olog in Hs1.
  2:{ intros st c st' Hf. bd Hf inf Hinf. inversion Hf. apply olog_if. }
  destruct Hs1 as (F1 & A1). rewrite Hsz in H.
  destruct (length (am_ents a)) as [|last] eqn:El; [discriminate|].
  assert (Ha1 : nth_error (archs s1) ai = Some a) by (rewrite A1; exact Ha).
  assert (Hlocs1 : locs s1 = locs s) by (apply fr1_locs; exact F1).
  assert (Hwv1 : wv s1 = wv s) by (apply fr1_wv; exact F1).
  destruct (Nat.eqb_spec idx last) as [->|Hne].
  - bd H s2 Hs2.
    assert (K : fr1 s2 = fr1 s1 /\ archs s2 = upd (archs s1) ai (with_size (with_ents a (removelast (am_ents a))) (pred (am_size a)))).
    { destruct (any_destroy s1 (am_mask a)); [eapply call_destructor_ok|eapply pop_back_ok]; eassumption. }
    destruct K as (F2 & A2).
    rewrite A2 in H. rewrite (nth_res_some _ _ _ (nth_error_upd_same (archs s1) ai _ ltac:(rewrite A1; exact Hai))) in H. bok H.
    bd H ch Hch. apply chunk_at_ok in Hch. cbn [am_chunk with_size with_ents] in Hch. destruct Hch as (Hcs & ->).
    bd H a3 Ha3. pose proof (set_chunk_restamped _ _ _ _ Ha3) as R. rewrite (fr1_wv _ _ F2), Hwv1 in R.
    apply vs_set_chunk_ok in Ha3. destruct Ha3 as (g & c & ->).
    apply update_location_ok in H. destruct H as (Hlt & ->).
    eexists. exists last. cbn [locs set_locs archs set_arch set_archs].
    split; [reflexivity|].
    split; [change (fr2 s2 = fr2 s); rewrite (fr1_fr2 _ _ F2); apply fr1_fr2; exact F1|].
    split; [rewrite A2, A1, !upd_upd; reflexivity|].
    cbn [am_mask am_chunk am_size am_ents with_size with_ents with_vers].
    split; [reflexivity|]. split; [reflexivity|]. split; [rewrite Hsz; reflexivity|]. split; [exact Hcs|].
    split.
    { eapply restamped_ext; [|eapply restamped_src; [| |eapply restamped_dst; [| |exact R]]]; try reflexivity.
      intro ch. cbn [am_chunk with_size with_ents]. tauto. }
    left. split; [reflexivity|]. split; [reflexivity|].
    cbn [locs set_arch set_archs] in Hlt. rewrite (fr1_locs _ _ F2), Hlocs1 in *. split; [exact Hlt|reflexivity].
  - destruct (internal_move_effect _ _ _ _ _ _ Ha1 H)
      as (a' & src_e & dst_e & Hsrc & Hdst & F2 & A2 & Hl1 & Hl2 & EL & Em & Ek & Hz & Hen & Hcs & R).
    exists a', last. split; [reflexivity|]. split; [rewrite F2; apply fr1_fr2; exact F1|]. split; [rewrite A2, A1; reflexivity|].
    split; [exact Em|]. split; [exact Ek|]. split; [rewrite Hz, Hsz; reflexivity|]. split; [exact Hcs|].
    split; [rewrite <- Hwv1; exact R|].
    right. split; [exact Hne|]. exists src_e, dst_e. rewrite Hlocs1 in *.
    repeat (split; [assumption|]). exact EL.
Qed.

(* what a removal does to the archetype, position by position *)
Definition removal (a a' : archetype) (idx : nat) (w : N) : Prop :=
  exists last, length (am_ents a) = S last /\ idx <= last /\ am_mask a' = am_mask a /\ am_chunk a' = am_chunk a /\ 0 < am_chunk a /\
    length (am_ents a') = last /\ am_size a' = last /\
    (forall p, p < last -> p <> idx -> nth_error (am_ents a') p = nth_error (am_ents a) p) /\
    (idx < last -> nth_error (am_ents a') idx = nth_error (am_ents a) last) /\
    restamped a a' w (fun ch => ch = last / am_chunk a \/ ch = idx / am_chunk a).

Lemma removal_okd w a a' idx : arch_okd w a -> removal a a' idx w -> arch_okd w a'.
Proof.
  intros Hok (last & El & Hle & Em & Ek & Hcs & El' & Es & _ & _ & R).
  eapply removed_okd; try eassumption; [rewrite El', El; lia|rewrite El'; exact Es].
Qed.

(* ------------------------------------------------------------------------------------------ *)
(* destroyNow while unlocked: the removal from the archetype                                    *)
Lemma remove_d s js F (h : handle) l ai s1 :
  VInvD (s, js) -> free_okF s F -> is_valid s h = true ->
  nth_error (locs s) (N.to_nat (fst h)) = Some l -> l_arch l = Some ai ->
  arch_remove s ai (l_idx l) h 0%N = Ok s1 ->
  VInvD (s1, js) /\ free_okF s1 F /\ ~ In (fst h) F /\ is_valid s1 h = true /\ unlocated s1 (fst h) /\
  wv s1 = wv s /\ cached s1 = cached s /\
  exists a a', nth_error (archs s) ai = Some a /\ nth_error (am_ents a) (l_idx l) = Some h /\
               archs s1 = upd (archs s) ai a' /\ removal a a' (l_idx l) (wv s).
Proof.
  intros HI HF Hv Hl Hla H. pose proof HI as [I1 I2 I3 I4 I5 I6 I7 I8 I9]. cbn [fst snd] in *.
  destruct (I6 h l ai Hv Hl Hla) as (a & Ha & Hh). set (idx := l_idx l) in *.
  pose proof (Forall_nth_error _ _ _ _ I5 Ha) as Hoka.
  assert (Hai : ai < length (archs s)) by (apply nth_error_Some; congruence).
  destruct (arch_remove_effect _ _ _ _ _ _ _ Ha (ad_size _ _ Hoka) H)
    as (a' & last & El & F2 & A2 & Em & Ek & Es & Hcs & R & Hcases).
  destruct (fr2_more _ _ F2) as (Eslots & Enext & Eempty & Elock & Emarked & Ebufs & Ewv & Ecached).
  assert (Hidx : idx < S last) by (rewrite <- El; apply nth_error_Some; congruence).
  assert (Hni : ~ In (fst h) F) by (eapply located_not_free; eassumption).
  (* the removal, position by position, and the locations *)
  assert (Hdesc : removal a a' idx (wv s) /\ length (locs s1) = length (locs s) /\
            nth_error (locs s1) (N.to_nat (fst h)) = Some default_loc /\
            (forall src, idx < last -> nth_error (am_ents a) last = Some src ->
               nth_error (locs s1) (N.to_nat (fst src)) = Some {| l_arch := Some ai; l_idx := idx |}) /\
            (forall k, k <> N.to_nat (fst h) ->
               (forall src, idx < last -> nth_error (am_ents a) last = Some src -> k <> N.to_nat (fst src)) ->
               nth_error (locs s1) k = nth_error (locs s) k)).
  { destruct Hcases as [(Eidx & Ee & Hlt & Elocs)|(Hne & src & dst & Hsrc & Hdst & Ee & Hlt1 & Hlt2 & Elocs)].
    - split; [|split; [|split; [|split]]].
      + exists last. split; [exact El|]. split; [lia|]. split; [exact Em|]. split; [exact Ek|]. split; [exact Hcs|].
        split; [rewrite Ee, removelast_length, El; reflexivity|]. split; [exact Es|].
        split; [|split; [intro; lia|exact R]].
        intros p Hp _. rewrite Ee. apply nth_error_removelast. rewrite El. exact Hp.
      + rewrite Elocs. apply upd_length.
      + rewrite Elocs. apply nth_error_upd_same. exact Hlt.
      + intros src Hlt'. lia.
      + intros k Hk _. rewrite Elocs. apply nth_error_upd_other. congruence.
    - assert (dst = h) by congruence. subst dst.
      assert (Hil : idx < last) by lia.
      assert (Hids : N.to_nat (fst src) <> N.to_nat (fst h)).
      { intro E. apply to_nat_inj in E. destruct (mem_ok_inj _ _ _ _ _ _ _ _ _ I7 Ha Hsrc Ha Hdst E) as (_ & E'). lia. }
      split; [|split; [|split; [|split]]].
      + exists last. split; [exact El|]. split; [lia|]. split; [exact Em|]. split; [exact Ek|]. split; [exact Hcs|].
        split; [rewrite Ee, removelast_length, upd_length, El; reflexivity|]. split; [exact Es|].
        split; [|split; [|exact R]].
        * intros p Hp Hpi. rewrite Ee, nth_error_removelast by (rewrite upd_length, El; exact Hp).
          apply nth_error_upd_other. congruence.
        * intros _. rewrite Ee, nth_error_removelast by (rewrite upd_length, El; exact Hil).
          rewrite Hsrc. apply nth_error_upd_same. rewrite El. lia.
      + rewrite Elocs, !upd_length. reflexivity.
      + rewrite Elocs, nth_error_upd_other by exact Hids. apply nth_error_upd_same. exact Hlt1.
      + intros src' _ Hsrc'. rewrite Hsrc in Hsrc'. inversion Hsrc'; subst src'. rewrite Elocs. apply nth_error_upd_same.
        rewrite upd_length. exact Hlt2.
      + intros k Hk Hk2. rewrite Elocs, nth_error_upd_other by (intro E; apply (Hk2 src Hil Hsrc); congruence).
        apply nth_error_upd_other. congruence. }
  destruct Hdesc as (Hrem & Llen & L1 & L2 & L3).
  pose proof Hrem as (last' & El' & Hrest).
  assert (last' = last) by lia. subst last'. destruct Hrest as (Hle & _ & _ & _ & Elen' & _ & Hkeep & Hmoved & _).
  assert (Hvalid : forall h', is_valid s1 h' = is_valid s h') by (intro h'; apply is_valid_slots; exact Eslots).
  assert (Ha1 : nth_error (archs s1) ai = Some a') by (rewrite A2; apply nth_error_upd_same; exact Hai).
  split; [|split; [|split; [exact Hni|split; [rewrite Hvalid; exact Hv|split; [exists default_loc; auto|split; [exact Ewv|split; [exact Ecached|]]]]]]].
  - constructor; cbn [fst snd].
    + congruence.
    + congruence.
    + unfold bufs_empty. rewrite Ebufs. exact I3.
    + rewrite Llen, Eslots. exact I4.
    + rewrite Ewv, A2. apply Forall_upd; [exact I5|]. eapply removal_okd; eassumption.
    + (* loc_ok *)
      intros h'' l'' ai'' Hv'' Hl'' Hai''. rewrite Hvalid in Hv''.
      destruct (Nat.eq_dec (N.to_nat (fst h'')) (N.to_nat (fst h))) as [E|Hnh].
      { exfalso. rewrite E, L1 in Hl''. inversion Hl''; subst l''. discriminate. }
      destruct (nth_error (am_ents a) last) as [src|] eqn:Esrc.
      2:{ exfalso. apply nth_error_None in Esrc. lia. }
      destruct (Nat.eq_dec idx last) as [Eil|Nil].
      * (* the last one was removed *)
        rewrite (L3 _ Hnh) in Hl'' by (intros src' Hlt; lia).
        destruct (I6 _ _ _ Hv'' Hl'' Hai'') as (x & Hx & Hp).
        destruct (Nat.eq_dec ai'' ai) as [->|Hna].
        -- rewrite Ha in Hx. inversion Hx; subst x. exists a'. split; [exact Ha1|].
           assert (Hpl : l_idx l'' < S last) by (rewrite <- El; apply nth_error_Some; congruence).
           assert (l_idx l'' <> idx).
           { intro E. rewrite E, Hh in Hp. inversion Hp; subst h''. congruence. }
           rewrite Hkeep by lia. exact Hp.
        -- exists x. split; [rewrite A2, nth_error_upd_other by congruence; exact Hx|exact Hp].
      * assert (Hil : idx < last) by lia.
        destruct (Nat.eq_dec (N.to_nat (fst h'')) (N.to_nat (fst src))) as [E|Hns].
        -- rewrite E, (L2 src Hil eq_refl) in Hl''. inversion Hl''; subst l''. cbn [l_arch l_idx] in *. inversion Hai''; subst ai''.
           assert (h'' = src).
           { apply (ver_match_eq s); [apply is_valid_match; exact Hv''|exact (proj1 (I7 _ _ _ _ Ha Esrc))|apply to_nat_inj; exact E]. }
           subst h''. exists a'. split; [exact Ha1|]. rewrite (Hmoved Hil). reflexivity.
        -- rewrite (L3 _ Hnh) in Hl'' by (intros src' _ Hs'; inversion Hs'; subst src'; exact Hns).
           destruct (I6 _ _ _ Hv'' Hl'' Hai'') as (x & Hx & Hp).
           destruct (Nat.eq_dec ai'' ai) as [->|Hna].
           ++ rewrite Ha in Hx. inversion Hx; subst x. exists a'. split; [exact Ha1|].
              assert (Hpl : l_idx l'' < S last) by (rewrite <- El; apply nth_error_Some; congruence).
              assert (l_idx l'' <> idx).
              { intro E. rewrite E, Hh in Hp. inversion Hp; subst h''. congruence. }
              assert (l_idx l'' <> last).
              { intro E. rewrite E, Esrc in Hp. inversion Hp; subst h''. congruence. }
              rewrite Hkeep by lia. exact Hp.
           ++ exists x. split; [rewrite A2, nth_error_upd_other by congruence; exact Hx|exact Hp].
    + (* mem_ok *)
      intros k x p e Hx He. unfold ver_match. rewrite Eslots.
      assert (Hgen : forall k0 x0 p0, nth_error (archs s) k0 = Some x0 -> nth_error (am_ents x0) p0 = Some e ->
                (k0 <> ai \/ (p0 <> idx /\ p0 <> last)) ->
                ver_match s e /\ nth_error (locs s1) (N.to_nat (fst e)) = Some {| l_arch := Some k0; l_idx := p0 |}).
      { intros k0 x0 p0 Hx0 He0 Hor. destruct (I7 _ _ _ _ Hx0 He0) as (X & L). split; [exact X|]. rewrite L3; [exact L| |].
        - intro E. apply to_nat_inj in E. destruct (mem_ok_inj _ _ _ _ _ _ _ _ _ I7 Hx0 He0 Ha Hh E) as (E1 & E2). destruct Hor as [Hor|(Hor & _)]; contradiction.
        - intros src _ Hsrc E. apply to_nat_inj in E. destruct (mem_ok_inj _ _ _ _ _ _ _ _ _ I7 Hx0 He0 Ha Hsrc E) as (E1 & E2).
          destruct Hor as [Hor|(_ & Hor)]; contradiction. }
      rewrite A2 in Hx. destruct (Nat.eq_dec k ai) as [->|Hnk].
      * rewrite nth_error_upd_same in Hx by exact Hai. inversion Hx; subst x; clear Hx.
        assert (Hp : p < last) by (rewrite <- Elen'; apply nth_error_Some; congruence).
        destruct (Nat.eq_dec p idx) as [->|Hpi].
        -- rewrite (Hmoved Hp) in He. destruct (I7 _ _ _ _ Ha He) as (X & _). split; [exact X|]. apply (L2 e Hp He).
        -- rewrite (Hkeep p Hp Hpi) in He. apply (Hgen ai a p Ha He). right. split; [exact Hpi|lia].
      * rewrite nth_error_upd_other in Hx by congruence. apply (Hgen k x p Hx He). left. exact Hnk.
    + exists F. destruct HF as (N1 & N2 & N3 & N4). split; [exact N1|]. split; [congruence|]. split; [rewrite Eslots, Enext; exact N3|].
      intros i Hi. destruct (N4 i Hi) as (l0 & Hl0 & Hn0). exists l0. split; [|exact Hn0]. rewrite L3; [exact Hl0| |].
      * intro E. apply to_nat_inj in E. subst i. contradiction.
      * intros src _ Hsrc E. apply to_nat_inj in E. subst i. destruct (I7 _ _ _ _ Ha Hsrc) as (_ & Ls). rewrite Ls in Hl0.
        inversion Hl0; subst l0. discriminate.
    + rewrite Ewv. exact I9.
  - destruct HF as (N1 & N2 & N3 & N4). split; [exact N1|]. split; [congruence|]. split; [rewrite Eslots, Enext; exact N3|].
    intros i Hi. destruct (N4 i Hi) as (l0 & Hl0 & Hn0). exists l0. split; [|exact Hn0]. rewrite L3; [exact Hl0| |].
    + intro E. apply to_nat_inj in E. subst i. contradiction.
    + intros src _ Hsrc E. apply to_nat_inj in E. subst i. destruct (I7 _ _ _ _ Ha Hsrc) as (_ & Ls). rewrite Ls in Hl0.
      inversion Hl0; subst l0. discriminate.
  - exists a, a'. auto.
Qed.

(* destroyNow while unlocked: the id goes onto the free list, the version of its slot is bumped *)
Lemma release_d s1 js F (h : handle) :
  VInvD (s1, js) -> free_okF s1 F -> ~ In (fst h) F -> is_valid s1 h = true -> unlocated s1 (fst h) ->
  VInvD (release_id s1 h, js).
Proof.
  intros HI HF Hni Hv Hun. pose proof HI as [I1 I2 I3 I4 I5 I6 I7 I8 I9]. cbn [fst snd] in *.
  pose proof (is_valid_range _ _ Hv) as Hr. destruct Hun as (l0 & Hl0 & Hn0).
  unfold release_id. rewrite (proj2 (Nat.ltb_lt _ _) Hr).
  set (nxt := match empty_slots s1 with O => (fst h + 1)%N | S _ => next_slot s1 end).
  set (sl' := {| s_id := nxt; s_ver := ((snd h + 1) mod VER_MOD)%N |}).
  constructor; cbn [fst snd lockc marked bufs locs slots archs wv empty_slots next_slot set_free set_slots]; try assumption.
  - rewrite upd_length. exact I4.
  - intros h' l ai Hv' Hl Hai.
    destruct (Nat.eq_dec (N.to_nat (fst h')) (N.to_nat (fst h))) as [E|Hne].
    + exfalso. cbn [locs set_free set_slots] in Hl. rewrite E, Hl0 in Hl. inversion Hl; subst l0. congruence.
    + apply (I6 h' l ai); [|exact Hl|exact Hai]. rewrite <- Hv'. symmetry. apply is_valid_slot.
      cbn [slots set_free set_slots]. apply nth_error_upd_other. congruence.
  - intros ai a idx e Ha He. destruct (I7 _ _ _ _ Ha He) as ((x & X1 & X2) & L). split; [|exact L].
    exists x. split; [|exact X2]. cbn [slots set_free set_slots]. rewrite nth_error_upd_other; [exact X1|].
    intro E. rewrite <- E, Hl0 in L. inversion L; subst l0. discriminate.
  - destruct HF as (N1 & N2 & N3 & N4). exists (fst h :: F).
    split; [constructor; assumption|]. split; [cbn [length empty_slots set_free set_slots]; congruence|].
    split.
    + cbn [fchain slots next_slot set_free set_slots]. split; [reflexivity|]. exists sl'. split; [apply nth_error_upd_same; exact Hr|].
      cbn [s_id sl']. destruct F as [|i F']; [exact I|]. subst nxt. rewrite <- N2. cbn [length].
      apply fchain_upd; [|exact N3]. intros k Hk E. apply to_nat_inj in E. subst k. contradiction.
    + intros i [<-|Hi].
      * exists l0. auto.
      * exact (N4 i Hi).
Qed.

(* destroyNow while unlocked on a proper handle: nothing happens (not valid), or the entity leaves its archetype by a
   removal and its id is released *)
Theorem destroy_d s js tid (h : handle) s' out_ :
  VInvD (s, js) -> properb s (VDestroyNow tid h) = true -> step s (ODestroyNow tid h) = Ok (s', out_) ->
  VInvD (s', js) /\ wv s' = wv s /\ cached s' = cached s /\
  ((s' = s /\ is_valid s h = false) \/
   exists l ai a a', is_valid s h = true /\ nth_error (locs s) (N.to_nat (fst h)) = Some l /\ l_arch l = Some ai /\
     nth_error (archs s) ai = Some a /\ nth_error (am_ents a) (l_idx l) = Some h /\
     archs s' = upd (archs s) ai a' /\ removal a a' (l_idx l) (wv s)).
Proof.
  intros HI Hp H. pose proof HI as [I1 I2 I3 I4 I5 I6 I7 I8 I9]. cbn [fst snd] in *.
  cbn [step] in H. rewrite I1 in H. bd H s1 Hs1. inversion H; subst s' out_; clear H.
  unfold destroy_now_unlocked in Hs1. cbn [properb] in Hp.
  destruct (is_valid s h) eqn:Ev.
  2:{ inversion Hs1; subst s1. split; [exact HI|]. split; [reflexivity|]. split; [reflexivity|]. left. auto. }
  cbn [negb orb] in Hp. unfold locatedb in Hp. bd Hs1 l Hl. apply nth_res_ok in Hl. rewrite Hl in Hp.
  destruct (l_arch l) as [ai|] eqn:Ela; [|discriminate].
  bd Hs1 s2 Hs2. inversion Hs1; subst s1; clear Hs1.
  destruct I8 as (F & HF).
  destruct (remove_d _ _ _ _ _ _ _ HI HF Ev Hl Ela Hs2) as (HI2 & HF2 & Hni & Hv2 & Hun2 & Ewv & Ec & a & a' & Ha & Hh & A2 & Hrem).
  split; [apply (release_d _ _ F); assumption|]. split; [exact Ewv|]. split; [exact Ec|].
  right. exists l, ai, a, a'. repeat (split; [assumption|]). exact Hrem.
Qed.

(* ------------------------------------------------------------------------------------------ *)
(* every operation of the extended alphabet keeps the invariant                                 *)
Definition wv_effect_d (st : vstate) (o : vopd) (st' : vstate) (out_ : out) : Prop :=
  match o with
  | VOld o' => wv_effect st o' st' out_
  | VDestroyNow _ _ => wv (fst st') = wv (fst st) /\ cached (fst st') = cached (fst st) /\ snd st' = snd st
  end.

Lemma vstep_inv_d st o st' out_ :
  VInvD st -> (wv (fst st) + 1 < WV_NULL)%N -> vstep st o = Ok (st', out_) ->
  VInvD st' /\ sframe st st' /\ wv_effect st o st' out_.
Proof.
  intros HI Hb H. destruct o as [world|h c w|h c|h c|h c|jn par tov wk cap|tid m sids via];
    try (apply vstep_inv_nc; [assumption|assumption|exact I|assumption]).
  destruct st as [s js]. cbn [vstep] in H. bd H r Hr. destruct r as [s' o']. cbn [fst snd] in H. inversion H; subst st' out_; clear H.
  destruct (create_d _ _ _ _ _ _ _ _ HI Hr) as (G1 & Gw & Gf & _).
  split; [assumption|]. split; [assumption|]. unfold wv_effect. auto.
Qed.

Theorem dstep_inv st o st' out_ :
  VInvD st -> (wv (fst st) + 1 < WV_NULL)%N -> properb (fst st) o = true -> dstep st o = Ok (st', out_) ->
  VInvD st' /\ wv_effect_d st o st' out_.
Proof.
  intros HI Hb Hp H. destruct o as [o|tid h].
  - cbn [dstep] in H. destruct (vstep_inv_d _ _ _ _ HI Hb H) as (A & _ & C). auto.
  - destruct st as [s js]. cbn [dstep] in H. bd H r Hr. destruct r as [s' o']. cbn [fst snd] in H. inversion H; subst st' out_; clear H.
    destruct (destroy_d _ _ _ _ _ _ HI Hp Hr) as (A & B & C & _). split; [exact A|]. cbn [wv_effect_d fst snd]. auto.
Qed.

Lemma wv_effect_d_le st o st' out_ : wv_effect_d st o st' out_ -> (wv (fst st) <= wv (fst st') <= wv (fst st) + 1)%N.
Proof.
  destruct o as [o|tid h]; cbn [wv_effect_d].
  - destruct st as [s js], st' as [s' js']. unfold wv_effect. cbn [fst].
    destruct o as [[|]|h c w|h c|h c|h c|jn par tov wk cap|tid m sids via].
    + intros (E & _). lia.
    + intros (E & _). lia.
    + intros (E & _). lia.
    + intros (E & _). lia.
    + intros (E & _). lia.
    + intros (E & _). lia.
    + intros (j & _ & _ & [(_ & E & _)|(vis & _ & E & _)]); lia.
    + intros (E & _). lia.
  - intros (E & _). lia.
Qed.

Theorem drun_inv : forall ops st st',
  VInvD st -> (wv (fst st) + N.of_nat (length ops) < WV_NULL)%N -> proper_run ops st = true -> drun ops st = Ok st' ->
  VInvD st' /\ (wv (fst st) <= wv (fst st') <= wv (fst st) + N.of_nat (length ops))%N.
Proof.
  induction ops as [|o t IH]; intros st st' HI Hb Hp H.
  - simpl in H. inversion H; subst. split; [assumption|]. simpl. lia.
  - cbn [drun] in H. cbn [proper_run] in Hp. apply andb_true_iff in Hp. destruct Hp as (Hp1 & Hp2).
    bd H r Hr. destruct r as [st1 o1]. rewrite Hr in Hp2. cbn [fst] in H, Hp2. cbn [length] in Hb.
    destruct (dstep_inv _ _ _ _ HI ltac:(lia) Hp1 Hr) as (I1 & W1). apply wv_effect_d_le in W1.
    destruct (IH _ _ I1 ltac:(lia) Hp2 H) as (I2 & W2).
    split; [assumption|]. cbn [length]. lia.
Qed.
