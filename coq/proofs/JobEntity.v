(* C04/C07, entity level, step 3: on a state related to the abstract world by the invariant MInv (every state reached
   by a script of the unlocked alphabet, proofs/ManagerMain.v), a job that processes everything visits exactly the live
   entities of the SPECIFICATION that have all required components, each once, each with its own cells; the run
   keeps the invariant, so runs can be interleaved with the operations of the alphabet (scripts_inv). *)
Require Import Coq.Lists.List Coq.NArith.NArith Coq.ZArith.ZArith Coq.Arith.Arith Coq.Bool.Bool Coq.micromega.Lia.
From Mustache Require Import Res Iter Manager MgrSpec Refine.
From Mustache Require Skeleton.
From Mustache Require Import SkelSpec.
From Mustache.proofs Require Import ListLemmas SkelBasics SkelInv SkelSteps SkelMove SkelMain ClosureProofs
  ManagerBasics ManagerMoves ManagerProj ManagerInv ManagerMain IterProofs IterCover VersionProofs ManagerDeferred
  JobFilterFull JobVisits.
Import ListNotations.

(* ------------------------------------------------------------------------------------------ *)
(* masks *)
Lemma mmatch_spec m r : mmatch m r = true <-> forall c, mhas r c = true -> mhas m c = true.
Proof.
  unfold mmatch, mhas. rewrite N.eqb_eq. split.
  - intros H c Hc. rewrite <- H in Hc. rewrite N.land_spec in Hc. apply andb_true_iff in Hc. tauto.
  - intros H. apply N.bits_inj. intros n. rewrite N.land_spec. destruct (N.testbit r n) eqn:E; [|apply andb_false_r].
    rewrite andb_true_r. specialize (H (N.to_nat n)). rewrite N2Nat.id in H. apply H. exact E.
Qed.

Lemma req_mask_in_gen l : forall m0 c,
  mhas (fold_left (fun m (r : nat * bool * bool) => let '(c, _, req) := r in mset m c req) l m0) c = true ->
  mhas m0 c = true \/ exists cst, In (c, cst, true) l.
Proof.
  induction l as [|[[c0 cst0] req0] t IH]; intros m0 c H; [left; exact H|].
  cbn [fold_left] in H. apply IH in H. destruct H as [H|(cst & Hin)]; [|right; exists cst; right; exact Hin].
  unfold mset in H. destruct req0.
  - rewrite mhas_madd in H. apply orb_true_iff in H. destruct H as [H|H]; [|left; exact H].
    apply Nat.eqb_eq in H. subst c0. right. exists cst0. left. reflexivity.
  - rewrite mhas_mdel in H. apply andb_true_iff in H. left. tauto.
Qed.

(* the component ids a job names are below the mask width *)
Definition reqs_ok (j : job) : Prop := Forall (fun r : nat * bool * bool => fst (fst r) < MASK_BITS) (j_reqs j).

Lemma job_requires_lt j c : reqs_ok j -> mhas (job_required_mask j) c = true -> c < MASK_BITS.
Proof.
  intros Hok H. unfold job_required_mask in H. apply req_mask_in_gen in H.
  destruct H as [H|(cst & Hin)]; [rewrite mhas_zero in H; discriminate|].
  unfold reqs_ok in Hok. rewrite Forall_forall in Hok. apply (Hok _ Hin).
Qed.

(* ------------------------------------------------------------------------------------------ *)
(* lists *)
Lemma map_nth_seq_gen {A} (d : A) : forall l pre, map (fun i => nth i (pre ++ l) d) (seq (length pre) (length l)) = l.
Proof.
  induction l as [|a t IH]; intros pre; [reflexivity|]. cbn [length seq map]. rewrite nth_mid. f_equal.
  specialize (IH (pre ++ [a])). rewrite <- app_assoc, app_length in IH. cbn [app length] in IH. rewrite Nat.add_1_r in IH. exact IH.
Qed.

Lemma map_nth_seq {A} (l : list A) d : map (fun i => nth i l d) (seq 0 (length l)) = l.
Proof. apply (map_nth_seq_gen d l []). Qed.

Lemma NoDup_concat_pos {A} (ll : list (list A)) :
  (forall i1 i2 l1 l2 j1 j2 x, nth_error ll i1 = Some l1 -> nth_error ll i2 = Some l2 ->
     nth_error l1 j1 = Some x -> nth_error l2 j2 = Some x -> i1 = i2 /\ j1 = j2) -> NoDup (concat ll).
Proof.
  induction ll as [|l t IH]; intros H; [constructor|]. cbn [concat]. apply nodup_app_intro.
  - apply NoDup_nth_error. intros j1 j2 Hj1 E. destruct (nth_error l j1) as [x|] eqn:E1; [|apply nth_error_None in E1; lia].
    symmetry in E. destruct (H 0 0 l l j1 j2 x eq_refl eq_refl E1 E). assumption.
  - apply IH. intros i1 i2 l1 l2 j1 j2 x H1 H2 H3 H4. destruct (H (S i1) (S i2) l1 l2 j1 j2 x H1 H2 H3 H4) as (E & E').
    split; [lia|exact E'].
  - intros x Hx Hx'. apply In_nth_error in Hx. destruct Hx as (j1 & Hj1). apply in_concat in Hx'.
    destruct Hx' as (l2 & Hl2 & Hx2). apply In_nth_error in Hl2. destruct Hl2 as (i2 & Hi2).
    apply In_nth_error in Hx2. destruct Hx2 as (j2 & Hj2). destruct (H 0 (S i2) l l2 j1 j2 x eq_refl Hi2 Hj1 Hj2). discriminate.
Qed.

Lemma Forall_exists_Forall2 {A B} (R : A -> B -> Prop) l : Forall (fun a => exists b, R a b) l -> exists lb, Forall2 R l lb.
Proof.
  induction 1 as [|a t (b & Hb) _ (lb & IH)]; [exists []; constructor|]. exists (b :: lb). constructor; assumption.
Qed.

Lemma Forall_nth_error {A} (P : A -> Prop) l i a : Forall P l -> nth_error l i = Some a -> P a.
Proof. intros H Hn. rewrite Forall_forall in H. apply H. eapply nth_error_In. exact Hn. Qed.

(* ------------------------------------------------------------------------------------------ *)
(* the visits of the model, member by member *)
Lemma expected_in j l v : In v (expected_visits j l) <->
  exists ai a idx, nth_error l ai = Some a /\ jmatch j a = true /\ idx < length (am_ents a) /\ v = visit_of j a idx.
Proof.
  unfold expected_visits. rewrite in_flat_map. split.
  - intros (a & Ha & Hv). apply In_nth_error in Ha. destruct Ha as (ai & Ha). unfold arch_visits in Hv.
    destruct (jmatch j a) eqn:Em; [|destruct Hv]. apply in_map_iff in Hv. destruct Hv as (idx & <- & Hi). apply in_seq in Hi.
    exists ai, a, idx. repeat split; auto; lia.
  - intros (ai & a & idx & Ha & Hm & Hi & ->). exists a. split; [eapply nth_error_In; exact Ha|].
    unfold arch_visits. rewrite Hm. apply in_map. apply in_seq. lia.
Qed.

Definition visited_ents (j : job) (a : archetype) : list handle := if jmatch j a then am_ents a else [].

Lemma expected_handles j l : map fst (expected_visits j l) = concat (map (visited_ents j) l).
Proof.
  unfold expected_visits. induction l as [|a t IH]; [reflexivity|]. cbn [flat_map map concat]. rewrite map_app. f_equal; [|exact IH].
  unfold arch_visits, visited_ents. destruct (jmatch j a); [|reflexivity]. rewrite map_map. unfold visit_of. cbn [fst].
  apply map_nth_seq.
Qed.

Lemma visited_nodup cis s hs al x j : MInv cis s hs al x -> NoDup (map fst (expected_visits j (archs s))).
Proof.
  intros HI. rewrite expected_handles. apply NoDup_concat_pos. intros i1 i2 l1 l2 j1 j2 h H1 H2 H3 H4.
  rewrite nth_error_map in H1, H2.
  destruct (nth_error (archs s) i1) as [a1|] eqn:A1; [|discriminate]. destruct (nth_error (archs s) i2) as [a2|] eqn:A2; [|discriminate].
  simpl in H1, H2. inversion H1; inversion H2; subst l1 l2. unfold visited_ents in H3, H4.
  destruct (jmatch j a1); [|destruct j1; discriminate]. destruct (jmatch j a2); [|destruct j2; discriminate].
  exact (member_unique _ _ _ _ _ _ _ _ _ _ (mi_G _ _ _ _ _ HI) A1 H3 A2 H4).
Qed.

(* ------------------------------------------------------------------------------------------ *)
(* what the specification says about a visit *)
(* the specification entity has every required component of the job *)
Definition spec_selected (j : job) (e : ent) : Prop :=
  forall c, mhas (job_required_mask j) c = true -> has_comp (e_comps e) c = true.
(* what is handed over for the request r = (component, const?, required?): a cell that is the entity's own value of that
   component (up to indeterminate values: cell_le), or nothing when the entity lacks the (optional) component *)
Definition cell_ok (e : ent) (r : nat * bool * bool) (oc : option cell) : Prop :=
  match oc with
  | Some v => exists w, In (fst (fst r), w) (e_comps e) /\ cell_le w v = true
  | None => has_comp (e_comps e) (fst (fst r)) = false
  end.

Lemma vmatch_jmatch e a idx j : reqs_ok j -> vmatch e a idx -> idx < length (am_ents a) ->
  (jmatch j a = true <-> spec_selected j e).
Proof.
  intros Hok Hvm Hi. unfold jmatch. rewrite andb_true_iff, Nat.ltb_lt, mmatch_spec. unfold spec_selected. split.
  - intros (_ & H) c Hc. rewrite (vmatch_has _ _ _ _ Hvm (job_requires_lt j c Hok Hc)). apply H. exact Hc.
  - intros H. split; [lia|]. intros c Hc. rewrite <- (vmatch_has _ _ _ _ Hvm (job_requires_lt j c Hok Hc)). apply H. exact Hc.
Qed.

Lemma vmatch_cells e a idx j : reqs_ok j -> vmatch e a idx -> Forall2 (cell_ok e) (j_reqs j) (snd (visit_of j a idx)).
Proof.
  intros Hok Hvm. unfold visit_of. cbn [snd]. unfold reqs_ok in Hok. induction (j_reqs j) as [|[[c cst] req] t IH]; [constructor|].
  inversion Hok as [|? ? Hc Ht]; subst. cbn [map]. constructor; [|apply IH; exact Ht]. cbn [fst] in Hc. unfold cell_ok. cbn [fst].
  destruct (cindex (am_mask a) c) as [ci|] eqn:Eci.
  - pose proof (cindex_some_has _ _ _ Eci) as Hm. rewrite <- (vmatch_has _ _ _ _ Hvm Hc) in Hm. apply has_comp_in in Hm.
    apply in_map_iff in Hm. destruct Hm as ([c' w] & E & Hin). simpl in E. subst c'. exists w. split; [exact Hin|].
    destruct Hvm as (_ & _ & Hv). specialize (Hv c w Hin). unfold acell in Hv. rewrite Eci in Hv. exact Hv.
  - apply cindex_none_has in Eci. rewrite (vmatch_has _ _ _ _ Hvm Hc). exact Eci.
Qed.

(* every visit of the model is a visit of a selected specification entity, with its cells *)
Lemma visit_is_entity cis s hs al x j v : MInv cis s hs al x -> reqs_ok j -> In v (expected_visits j (archs s)) ->
  exists k e, k < length hs /\ fst v = hnd hs k /\ find_ent x k = Some e /\ spec_selected j e /\
              Forall2 (cell_ok e) (j_reqs j) (snd v).
Proof.
  intros HI Hok Hin. apply expected_in in Hin. destruct Hin as (ai & a & idx & Ha & Hm & Hi & ->).
  pose proof (List.nth_error_nth' (am_ents a) null_handle Hi) as Hh.
  destruct (mi_vals _ _ _ _ _ HI ai a idx _ Ha Hh) as (k & e & Hk & Eh & Hf & Hvm).
  exists k, e. split; [exact Hk|]. split; [symmetry; exact Eh|]. split; [exact Hf|].
  split; [apply (vmatch_jmatch e a idx j Hok Hvm Hi); exact Hm|apply vmatch_cells; assumption].
Qed.

(* every selected specification entity is visited *)
Lemma entity_is_visited cis s hs al x j k e : MInv cis s hs al x -> reqs_ok j -> find_ent x k = Some e -> spec_selected j e ->
  k < length hs /\ In (hnd hs k) (map fst (expected_visits j (archs s))).
Proof.
  intros HI Hok Hf Hsel.
  assert (Ha : alive al k) by (apply (mi_alive _ _ _ _ _ HI); apply alive_x_find; congruence).
  destruct (alive_in _ _ Ha) as (key & Hin).
  destruct (live_vmatch _ _ _ _ _ _ _ _ HI Hin Hf) as (Hk & ai & idx & a & _ & Harch & _ & Hent & Hvm).
  split; [exact Hk|].
  assert (Hi : idx < length (am_ents a)) by (apply nth_error_Some; congruence).
  apply in_map_iff. exists (visit_of j a idx). split.
  - unfold visit_of. cbn [fst]. apply (ListLemmas.nth_error_nth' _ _ _ null_handle Hent).
  - apply expected_in. exists ai, a, idx. split; [exact Harch|]. split; [|split; [exact Hi|reflexivity]].
    apply (vmatch_jmatch e a idx j Hok Hvm Hi). exact Hsel.
Qed.

(* ------------------------------------------------------------------------------------------ *)
(* what a job run needs of the state besides MInv: positive version-chunk sizes, empty command buffers (and, to keep
   this along scripts, the default chunk configuration) *)
Definition chunk_ok (a : archetype) : Prop := 0 < am_chunk a.
Record JReady (s : mst) : Prop := {
  jr_chunk : Forall chunk_ok (archs s);
  jr_bufs : Forall (fun b : list acmd => b = []) (bufs s);
  jr_def : 0 < def_chunk s;
  jr_fns : chunk_fns s = []
}.

Lemma run_ready_of cis s hs al x : MInv cis s hs al x -> JReady s -> run_ready s.
Proof.
  intros HI [A B _ _]. split; [|split; [apply (mi_lock _ _ _ _ _ HI)|exact B]].
  apply Forall_forall. intros a Ha. rewrite Forall_forall in A. split; [apply (A a Ha)|].
  pose proof (mi_awf _ _ _ _ _ HI) as W. rewrite Forall_forall in W. destruct (W a Ha) as (_ & Hz & _). exact Hz.
Qed.

Lemma Forall_av (P : archetype -> Prop) l l' : (forall a, P (av a) <-> P a) -> map av l' = map av l -> Forall P l -> Forall P l'.
Proof.
  intros HP Hm H.
  assert (E : forall l0, Forall P (map av l0) <-> Forall P l0).
  { intros l0. rewrite Forall_map. split; intros H0; (eapply Forall_impl; [|exact H0]); intros a Ha; apply HP; exact Ha. }
  apply E. rewrite Hm. apply E. exact H.
Qed.

(* the invariant reads nothing of the version stamps, the world version, the epoch, the buffers, the id counter *)
Lemma MInv_stamps cis s hs al x s' : MInv cis s hs al x ->
  slots s' = slots s -> locs s' = locs s -> next_slot s' = next_slot s -> empty_slots s' = empty_slots s ->
  map av (archs s') = map av (archs s) -> lockc s' = 0 -> deps s' = deps s -> cinfos s' = cinfos s -> MInv cis s' hs al x.
Proof.
  intros [HG Hawf Hl Hd Hc Hxl Hxd Hxc Hcnt Hsl Hal Hv] E1 E2 E3 E4 E5 E6 E7 E8.
  assert (Hpa : map parch (archs s') = map parch (archs s)).
  { transitivity (map parch (map av (archs s'))); [rewrite map_map; reflexivity|]. rewrite E5, map_map. reflexivity. }
  constructor; try assumption; try congruence.
  - apply (G_same_core (proj s) (proj s')); [simpl; rewrite E1; reflexivity|simpl; rewrite E2; reflexivity|exact E3|exact E4|exact Hpa|exact HG].
  - apply (Forall_av awf (archs s) (archs s')); [intros a; reflexivity|exact E5|exact Hawf].
  - intros ai a' idx h Ha' Hh. destruct (map_av_nth _ _ _ _ E5 Ha') as (a & Ha & Hav).
    destruct (av_fields _ _ Hav) as (Em & _ & Ee & Ec & _). rewrite Ee in Hh.
    destruct (Hv ai a idx h Ha Hh) as (k & e & Hk & Eh & Hf & Hvm). exists k, e. repeat (split; [assumption|]).
    eapply vmatch_transfer; [exact Hvm|exact Em|]. intros ci _. unfold get_cell. rewrite Ec. reflexivity.
Qed.

Lemma JReady_stamps s s' : JReady s -> map av (archs s') = map av (archs s) ->
  Forall (fun b : list acmd => b = []) (bufs s') -> def_chunk s' = def_chunk s -> chunk_fns s' = chunk_fns s -> JReady s'.
Proof.
  intros [A B C D] Hm Hb E1 E2. constructor; [|exact Hb|congruence|congruence].
  apply (Forall_av chunk_ok (archs s) (archs s')); [intros a; reflexivity|exact Hm|exact A].
Qed.

(* the state after a run (of any job, without callback actions) *)
Lemma after_run cis s hs al x s1 s' : MInv cis s hs al x -> JReady s -> stamps_only s s1 -> s' = s1 \/ s' = job_final s1 ->
  MInv cis s' hs al x /\ JReady s'.
Proof.
  intros HI HJ (Hfr & Hav) Hs'.
  assert (F : slots s1 = slots s /\ locs s1 = locs s /\ next_slot s1 = next_slot s /\ empty_slots s1 = empty_slots s /\
              lockc s1 = lockc s /\ deps s1 = deps s /\ cinfos s1 = cinfos s /\ bufs s1 = bufs s /\
              def_chunk s1 = def_chunk s /\ chunk_fns s1 = chunk_fns s).
  { repeat split; [apply (f_equal slots) in Hfr|apply (f_equal locs) in Hfr|apply (f_equal next_slot) in Hfr|
      apply (f_equal empty_slots) in Hfr|apply (f_equal lockc) in Hfr|apply (f_equal deps) in Hfr|apply (f_equal cinfos) in Hfr|
      apply (f_equal bufs) in Hfr|apply (f_equal def_chunk) in Hfr|apply (f_equal chunk_fns) in Hfr]; exact Hfr. }
  destruct F as (F1 & F2 & F3 & F4 & F5 & F6 & F7 & F8 & F9 & F10).
  pose proof (mi_lock _ _ _ _ _ HI) as Hl.
  destruct Hs' as [->| ->].
  - split; [apply (MInv_stamps cis s hs al x s1 HI); congruence|].
    apply (JReady_stamps s s1 HJ Hav); [rewrite F8; apply HJ|exact F9|exact F10].
  - split.
    + apply (MInv_stamps cis s hs al x (job_final s1) HI); try assumption. reflexivity.
    + apply (JReady_stamps s (job_final s1) HJ Hav); [|exact F9|exact F10].
      change (bufs (job_final s1)) with (resize (bufs s1) (nthreads s1) []). apply Forall_resize; [rewrite F8; apply HJ|reflexivity].
Qed.

(* ------------------------------------------------------------------------------------------ *)
(* ENTITY LEVEL *)
(* the visit v is of entity k: its handle, and per request the entity's own cell *)
Definition visit_of_entity (hs : list handle) (x : xst) (j : job) (k : nat) (v : visit) : Prop :=
  fst v = hnd hs k /\ exists e, find_ent x k = Some e /\ Forall2 (cell_ok e) (j_reqs j) (snd v).

Theorem entity_level cis s hs al x j parallel tov workers cap :
  MInv cis s hs al x -> JReady s -> jfull j -> reqs_ok j -> 0 < cap ->
  exists s' last arrays ks,
    step s (ORunJob j parallel tov workers cap [] false) = Ok (s', RJob last arrays) /\
    NoDup ks /\
    (forall k, In k ks <-> exists e, find_ent x k = Some e /\ spec_selected j e) /\
    Forall2 (visit_of_entity hs x j) ks (out_visits arrays) /\
    NoDup (map fst (out_visits arrays)) /\
    out_indices arrays = seq 0 (length ks) /\
    last = (match ks with [] => j_last j | _ => wv s end) /\
    MInv cis s' hs al x /\ JReady s'.
Proof.
  intros HI HJ Hf Hok Hcap.
  destruct (run_job_model s j parallel tov workers cap Hf Hcap (run_ready_of _ _ _ _ _ HI HJ))
    as (s1 & s' & last & arrays & Estep & Hso & Hs' & Evis & Eidx & Elast).
  pose proof (visited_nodup cis s hs al x j HI) as Hnd. rewrite <- Evis in Hnd.
  assert (HF : Forall (fun v => exists k, k < length hs /\ fst v = hnd hs k /\
                         exists e, find_ent x k = Some e /\ spec_selected j e /\ Forall2 (cell_ok e) (j_reqs j) (snd v)) (out_visits arrays)).
  { apply Forall_forall. intros v Hv. rewrite Evis in Hv.
    destruct (visit_is_entity cis s hs al x j v HI Hok Hv) as (k & e & H1 & H2 & H3 & H4 & H5). exists k. eauto 8. }
  apply Forall_exists_Forall2 in HF. destruct HF as (ks & HF2).
  assert (Ehs : map fst (out_visits arrays) = map (hnd hs) ks).
  { clear - HF2. revert HF2. generalize (out_visits arrays) as vs. intros vs HF2.
    induction HF2 as [|v k tv tk (_ & E & _) _ IH]; [reflexivity|]. cbn [map]. f_equal; [exact E|exact IH]. }
  assert (Hlen : length (out_visits arrays) = length ks) by (pose proof (f_equal (@length _) Ehs) as E0; rewrite !map_length in E0; exact E0).
  exists s', last, arrays, ks. split; [exact Estep|].
  split; [apply (NoDup_map_inv (hnd hs)); rewrite <- Ehs; exact Hnd|].
  split.
  { intros k. split.
    - intros Hk. destruct (Forall2_in_r _ _ _ _ HF2 Hk) as (v & _ & _ & _ & e & H3 & H4 & _). eauto.
    - intros (e & H3 & H4). destruct (entity_is_visited cis s hs al x j k e HI Hok H3 H4) as (Hk & Hin).
      rewrite <- Evis, Ehs in Hin. apply in_map_iff in Hin. destruct Hin as (k' & Ek & Hin').
      destruct (Forall2_in_r _ _ _ _ HF2 Hin') as (v & _ & Hk' & _).
      assert (k' = k) by (eapply (hnd_inj _ hs _ _ _ _ (mi_G _ _ _ _ _ HI)); eassumption). subst k'. exact Hin'. }
  split.
  { clear - HF2. revert HF2. generalize (out_visits arrays) as vs. intros vs HF2.
    induction HF2 as [|v k tv tk (_ & E & e & H3 & _ & H5) _ IH]; constructor; [|exact IH].
    split; [exact E|eauto]. }
  split; [exact Hnd|]. split; [rewrite Eidx, Hlen; reflexivity|]. split.
  { rewrite Elast. destruct (out_visits arrays), ks; try discriminate; reflexivity. }
  apply (after_run cis s hs al x s1 s' HI HJ Hso Hs').
Qed.

(* ------------------------------------------------------------------------------------------ *)
(* the operations of the unlocked alphabet keep JReady *)
Lemma fr3_jr s s' : fr3 s' = fr3 s -> bufs s' = bufs s /\ def_chunk s' = def_chunk s /\ chunk_fns s' = chunk_fns s.
Proof.
  intros H. repeat split; [apply (f_equal bufs) in H|apply (f_equal def_chunk) in H|apply (f_equal chunk_fns) in H]; exact H.
Qed.

Lemma JReady_frame s s' : JReady s -> fr3 s' = fr3 s -> Forall chunk_ok (archs s') -> JReady s'.
Proof. intros [A B C D] F H. destruct (fr3_jr _ _ F) as (E1 & E2 & E3). constructor; [exact H|rewrite E1; exact B|congruence|congruence]. Qed.

Lemma JReady_set_log s l : JReady s -> JReady (set_log s l).
Proof. intros [A B C D]. constructor; assumption. Qed.

Lemma JReady_emit s e : JReady s -> JReady (emit s e).
Proof. apply JReady_set_log. Qed.

Lemma resolve_chunk_nofns s m cs : chunk_fns s = [] -> resolve_chunk s m = Ok cs -> cs = def_chunk s.
Proof. unfold resolve_chunk. intros E. rewrite E. cbn. intros H. inversion H. reflexivity. Qed.

Lemma get_arch_jr s m sh s1 ai : deps s = [] -> JReady s -> get_arch s m sh = Ok (s1, ai) -> JReady s1.
Proof.
  intros Hd HJ H. unfold get_arch, extra_components in H. rewrite Hd in H. bok H. cbv zeta in H. rewrite munion_zero in H.
  destruct (find_arch (archs s) m sh 0) as [i|]; [inversion H; subst; exact HJ|].
  bd H cs Hcs. apply resolve_chunk_nofns in Hcs; [|apply HJ]. inversion H; subst s1 ai. destruct HJ as [A B C D].
  constructor; simpl; try assumption. apply Forall_app. split; [exact A|]. constructor; [|constructor].
  unfold chunk_ok. simpl. rewrite Hcs. exact C.
Qed.

Lemma chunk_upd l ai a a' : Forall chunk_ok l -> nth_error l ai = Some a -> am_chunk a' = am_chunk a -> Forall chunk_ok (upd l ai a').
Proof.
  intros H Hn E. apply Forall_upd; [exact H|]. unfold chunk_ok. rewrite E. apply (Forall_nth_error chunk_ok l ai a H Hn).
Qed.

Lemma removed_chunk ai idx h a a' l0 l' : removed ai idx h a a' l0 l' -> am_chunk a' = am_chunk a.
Proof. intros (last & _ & Hab & _). destruct (ab3_fields _ _ Hab) as (_ & _ & E). exact E. Qed.

Lemma external_move_jr cis s hs al x ai h pai pidx skip s' a pa :
  MInv cis s hs al x -> JReady s -> nth_error (archs s) ai = Some a -> nth_error (archs s) pai = Some pa ->
  external_move s ai h pai pidx skip = Ok s' -> JReady s'.
Proof.
  intros HI HJ Ha Hpa Hmv.
  destruct (awf_nth _ _ _ (mi_awf _ _ _ _ _ HI) Ha) as (_ & _ & Wt3). destruct (awf_nth _ _ _ (mi_awf _ _ _ _ _ HI) Hpa) as (_ & Wp2 & Wp3).
  destruct (external_move_ok _ _ _ _ _ _ _ _ _ Ha Hpa Wt3 Wp2 Wp3 Hmv)
    as (Hne & a2 & pa' & pent & l3 & F & A & _ & Hrm & _ & _ & Hab & _).
  destruct (ab3_fields _ _ Hab) as (_ & _ & Ech).
  apply (JReady_frame s); [exact HJ|apply fr2_fr3; exact F|]. rewrite A.
  apply (chunk_upd _ pai pa pa'); [apply (chunk_upd _ ai a a2); [apply HJ|exact Ha|exact Ech]| |eapply removed_chunk; exact Hrm].
  rewrite nth_error_upd_other by exact Hne. exact Hpa.
Qed.

Lemma JReady_create cis s hs al x tid m via s' out :
  MInv cis s hs al x -> JReady s -> step s (OCreate tid m [] via) = Ok (s', out) -> JReady s'.
Proof.
  intros HI HJ H. rewrite (step_create_unlocked _ _ _ _ (mi_lock _ _ _ _ _ HI)) in H.
  bd H r Hga. destruct r as (s1, ai). cbv beta iota in H. bd H r2 Hcid. destruct r2 as (s2, h). cbv beta iota in H.
  bd H s3 Hins. inversion H; subst s' out; clear H.
  pose proof (get_arch_jr _ _ _ _ _ (mi_deps _ _ _ _ _ HI) HJ Hga) as HJ1.
  destruct (MInv_get_arch _ _ _ _ _ _ _ _ HI Hga) as (HI1 & _ & _ & a & Ha & _).
  destruct (create_id_frame _ _ _ Hcid) as (A2 & F2).
  assert (Ha2 : nth_error (archs s2) ai = Some a) by (rewrite A2; exact Ha).
  destruct (awf_nth _ _ _ (mi_awf _ _ _ _ _ HI1) Ha) as (_ & _ & Wc).
  destruct (arch_insert_ok _ _ _ _ _ _ Ha2 Wc Hins) as (a3 & F3 & A3 & _ & _ & Hab & _).
  destruct (ab3_fields _ _ Hab) as (_ & _ & Ech).
  apply (JReady_frame s1); [exact HJ1|rewrite (fr2_fr3 _ _ F3); exact F2|].
  rewrite A3, A2. apply (chunk_upd _ ai a a3); [apply HJ1|exact Ha|exact Ech].
Qed.

Lemma JReady_destroy_now cis s hs al x tid h s' out :
  MInv cis s hs al x -> JReady s -> step s (ODestroyNow tid h) = Ok (s', out) -> JReady s'.
Proof.
  intros HI HJ H. rewrite (step_destroy_now_unlocked _ _ _ (mi_lock _ _ _ _ _ HI)) in H.
  bd H s1 Hd. inversion H; subst s' out; clear H. unfold destroy_now_unlocked in Hd.
  destruct (is_valid s h); [|inversion Hd; subst; exact HJ].
  bd Hd l Hl. bd Hd s2 Hrm. inversion Hd; subst s1; clear Hd.
  assert (HJ2 : JReady s2).
  { destruct (l_arch l) as [ai|]; [|inversion Hrm; subst; exact HJ].
    pose proof Hrm as Hrm'. unfold arch_remove in Hrm'. bd Hrm' a Ha. apply nth_res_ok in Ha. clear Hrm'.
    destruct (awf_nth _ _ _ (mi_awf _ _ _ _ _ HI) Ha) as (_ & W2 & W3).
    destruct (arch_remove_ok _ _ _ _ _ _ _ Ha W2 W3 Hrm) as (a' & F2 & A2 & Hrmd).
    apply (JReady_frame s); [exact HJ|apply fr2_fr3; exact F2|]. rewrite A2.
    apply (chunk_upd _ ai a a'); [apply HJ|exact Ha|eapply removed_chunk; exact Hrmd]. }
  apply (JReady_frame s2); [exact HJ2|reflexivity|exact (jr_chunk _ HJ2)].
Qed.

Lemma JReady_assign cis s hs al x tid h c v typed s' out :
  MInv cis s hs al x -> JReady s -> step s (OAssign tid h c v typed) = Ok (s', out) -> JReady s'.
Proof.
  intros HI HJ H. rewrite (step_assign_unlocked _ _ _ _ _ _ (mi_lock _ _ _ _ _ HI)) in H.
  bd H inf Hinf. bd H r Hr. destruct r as (s2, ((ai, ci), slot)). cbv beta iota in H.
  assert (HJ2 : JReady s2).
  { unfold assign_unlocked in Hr. bd Hr la Hla. destruct la as (pai, pidx). cbv beta iota in Hr.
    bd Hr pa Hpa. apply nth_res_ok in Hpa. cbv zeta in Hr.
    destruct (awf_nth _ _ _ (mi_awf _ _ _ _ _ HI) Hpa) as (Wp1 & _). rewrite Wp1 in Hr.
    bd Hr rg Hga. destruct rg as (s_g, ai'). cbv beta iota in Hr.
    destruct (MInv_get_arch _ _ _ _ _ _ _ _ HI Hga) as (HIg & _ & Hkeep & a_t & Hat & _).
    pose proof (get_arch_jr _ _ _ _ _ (mi_deps _ _ _ _ _ HI) HJ Hga) as HJg.
    bd Hr s2' Hmv. bd Hr a2' Ha2'. bd Hr l2 Hl2.
    destruct (cindex (am_mask a2') c) as [ci'|]; [|discriminate]. inversion Hr; subst s2' ai' ci' slot; clear Hr.
    eapply (external_move_jr cis s_g hs al x ai h pai pidx); [exact HIg|exact HJg|exact Hat|apply Hkeep; exact Hpa|exact Hmv]. }
  destruct v as [|z].
  - inversion H; subst; exact HJ2.
  - bd H s3 Hw.
    assert (HJ3 : JReady s3).
    { destruct (ci_hasval inf); [|inversion Hw; subst; exact HJ2]. apply write_cell_ok in Hw. destruct Hw as (a2 & Ha2 & ->).
      apply (JReady_frame s2); [exact HJ2|reflexivity|]. unfold set_arch. cbn [archs set_archs].
      apply (chunk_upd _ ai a2); [apply HJ2|exact Ha2|reflexivity]. }
    destruct typed; inversion H; subst s' out; [|exact HJ3].
    destruct (ci_aa inf), (ci_ev inf); repeat apply JReady_emit; exact HJ3.
Qed.

Lemma JReady_remove cis s hs al x tid h c typed s' out :
  MInv cis s hs al x -> JReady s -> step s (ORemove tid h c typed) = Ok (s', out) -> JReady s'.
Proof.
  intros HI HJ H. rewrite (step_remove_unlocked _ _ _ _ _ (mi_lock _ _ _ _ _ HI)) in H.
  destruct (typed && negb (is_valid s h)); [inversion H; subst; exact HJ|].
  bd H s1 Hr. inversion H; subst s' out; clear H. unfold remove_unlocked in Hr.
  bd Hr l Hl. destruct (l_arch l) as [pai|]; [|inversion Hr; subst; exact HJ].
  bd Hr pa Hpa. apply nth_res_ok in Hpa.
  destruct (negb (mhas (am_mask pa) c)); [inversion Hr; subst; exact HJ|].
  destruct (awf_nth _ _ _ (mi_awf _ _ _ _ _ HI) Hpa) as (Wp1 & _). rewrite Wp1 in Hr.
  bd Hr rg Hga. destruct rg as (s_g, ai). cbv beta iota in Hr.
  destruct (MInv_get_arch _ _ _ _ _ _ _ _ HI Hga) as (HIg & _ & Hkeep & a_t & Hat & _).
  pose proof (get_arch_jr _ _ _ _ _ (mi_deps _ _ _ _ _ HI) HJ Hga) as HJg.
  destruct (Nat.eqb ai pai); [inversion Hr; subst; exact HJg|].
  eapply (external_move_jr cis s_g hs al x ai h pai (l_idx l)); [exact HIg|exact HJg|exact Hat|apply Hkeep; exact Hpa|exact Hr].
Qed.

Lemma JReady_getmut cis s hs al x h c w s' out :
  MInv cis s hs al x -> JReady s -> step s (OGetMut h c w) = Ok (s', out) -> JReady s'.
Proof.
  intros HI HJ H. rewrite step_getmut in H.
  destruct (negb (is_valid s h)); [inversion H; subst; exact HJ|].
  bd H l Hl. destruct (l_arch l) as [ai|]; [|inversion H; subst; exact HJ].
  bd H a Ha. apply nth_res_ok in Ha. destruct (cindex (am_mask a) c) as [ci|]; [|inversion H; subst; exact HJ].
  bd H ch Hch. bd H a1 Ha1. apply vs_set_one_ok in Ha1. destruct Ha1 as (g & cv & ->). cbv zeta in H. inversion H; subst s' out; clear H.
  apply (JReady_frame s); [exact HJ|reflexivity|]. unfold set_arch. cbn [archs set_archs].
  apply (chunk_upd _ ai a); [apply HJ|exact Ha|]. destruct w; reflexivity.
Qed.

Lemma JReady_mstep cis typed s hs al x o s' hs' :
  MInv cis s hs al x -> JReady s -> alpha_b cis o = true -> mstep typed (s, hs) o = Ok (s', hs') -> JReady s'.
Proof.
  intros HI HJ Ha H. unfold mstep in H. bd H r Hst. destruct r as (s1, out). inversion H; subst s' hs'; clear H.
  apply JReady_set_log.
  destruct o; simpl in Ha; try discriminate; cbn [concretize] in Hst.
  - destruct sids; [|discriminate]. eapply JReady_create; eassumption.
  - eapply JReady_destroy_now; eassumption.
  - eapply JReady_assign; eassumption.
  - eapply JReady_remove; eassumption.
  - eapply JReady_getmut; eassumption.
Qed.

Lemma JReady_init n cis : JReady (init n cis).
Proof. constructor; simpl; [constructor|constructor|lia|reflexivity]. Qed.

(* ------------------------------------------------------------------------------------------ *)
(* scripts of the unlocked alphabet interleaved with job runs (any job; no callback actions; the run unlocks) *)
Inductive jop := JOp (o : xop) | JRun (j : job) (parallel : bool) (tov workers cap : nat).

Definition jstep (typed : bool) (st : mst * list handle) (o : jop) : res (mst * list handle) :=
  match o with
  | JOp o' => mstep typed st o'
  | JRun j parallel tov workers cap =>
    do r <- step (fst st) (ORunJob j parallel tov workers cap [] false); Ok (set_log (fst r) [], snd st)
  end.
Definition jrun (typed : bool) (n : nat) (cis : list cinfo) (ops : list jop) : res (mst * list handle) :=
  fold_res (jstep typed) ops (init n cis, []).
(* a job without callback actions means nothing to the abstract world *)
Definition jx_step (x : xst) (o : jop) : xst := match o with JOp o' => x_step x o' | JRun _ _ _ _ _ => x end.
Definition jxrun (n : nat) (cis : list cinfo) (ops : list jop) : xst := fold_left jx_step ops (x_init n cis).
Definition jalpha (cis : list cinfo) (o : jop) : bool := match o with JOp o' => alpha_b cis o' | JRun _ _ _ _ _ => true end.

Lemma jx_viol_run_mono cis : forall ops x, forallb (jalpha cis) ops = true -> x_viol x <= x_viol (fold_left jx_step ops x).
Proof.
  induction ops as [|o t IH]; intros x Ha; simpl in *; [lia|]. apply andb_true_iff in Ha. destruct Ha as (Ho & Ht).
  pose proof (IH (jx_step x o) Ht). destruct o as [o'|]; simpl in *; [|lia].
  pose proof (x_viol_step_mono cis x o' Ho). lia.
Qed.

Lemma jstep_mono typed s hs o s' hs' : jstep typed (s, hs) o = Ok (s', hs') -> length hs <= length hs'.
Proof.
  destruct o as [o'|j p t w c]; simpl; intros H; [eapply mstep_mono; exact H|]. bd H r Hr. inversion H; subst. lia.
Qed.

Lemma jrun_mono typed : forall ops s hs s' hs', fold_res (jstep typed) ops (s, hs) = Ok (s', hs') -> length hs <= length hs'.
Proof.
  induction ops as [|o t IH]; intros s hs s' hs' H; simpl in H.
  - inversion H. lia.
  - bd H r H1. destruct r as (s1, hs1). pose proof (jstep_mono _ _ _ _ _ _ H1). pose proof (IH _ _ _ _ H). lia.
Qed.

Lemma scripts_inv_gen cis typed : forall ops s hs al x s' hs',
  MInv cis s hs al x -> JReady s -> cis_ok cis -> forallb (jalpha cis) ops = true -> x_viol x = 0 ->
  x_viol (fold_left jx_step ops x) = 0 ->
  fold_res (jstep typed) ops (s, hs) = Ok (s', hs') -> within (length hs') ->
  exists al', MInv cis s' hs' al' (fold_left jx_step ops x) /\ JReady s'.
Proof.
  induction ops as [|o t IH]; intros s hs al x s' hs' HI HJ Hok Ha Hv0 Hv1 H Hb; simpl in *.
  - inversion H; subst. eauto.
  - apply andb_true_iff in Ha. destruct Ha as (Ho & Ht). bd H r H1. destruct r as (s1, hs1).
    assert (Hv1' : x_viol (jx_step x o) = 0).
    { pose proof (jx_viol_run_mono cis t (jx_step x o) Ht). lia. }
    assert (Hb1 : within (length hs1)) by (eapply within_le; [|exact Hb]; eapply jrun_mono; exact H).
    destruct o as [o'|j p tv w c]; cbn [jstep jx_step jalpha] in *.
    + destruct (MInv_step cis typed s hs al x o' s1 hs1 HI Hok Ho Hv0 Hv1' H1 Hb1) as (al1 & HI1).
      pose proof (JReady_mstep cis typed s hs al x o' s1 hs1 HI HJ Ho H1) as HJ1.
      apply (IH s1 hs1 al1 (x_step x o') s' hs' HI1 HJ1 Hok Ht Hv1' Hv1 H Hb).
    + bd H1 r Hr. destruct r as (s2, out). cbn [fst snd] in H1. inversion H1; subst s1 hs1; clear H1.
      destruct (runjob_state s j p tv w c s2 out (mi_lock _ _ _ _ _ HI) (jr_bufs _ HJ) Hr) as (sf & Hso & Hs2 & _).
      destruct (after_run cis s hs al x sf s2 HI HJ Hso Hs2) as (HI2 & HJ2).
      apply (IH (set_log s2 []) hs al x s' hs' (MInv_set_log _ _ _ _ _ _ HI2) (JReady_set_log _ _ HJ2) Hok Ht Hv0 Hv1 H Hb).
Qed.

Theorem scripts_inv typed n cis ops s hs :
  cis_ok cis -> forallb (jalpha cis) ops = true -> jrun typed n cis ops = Ok (s, hs) ->
  x_viol (jxrun n cis ops) = 0 -> within (length hs) ->
  exists al, MInv cis s hs al (jxrun n cis ops) /\ JReady s.
Proof.
  intros Hok Ha Hrun Hviol Hb.
  apply (scripts_inv_gen cis typed ops _ _ _ _ _ _ (MInv_init n cis) (JReady_init n cis) Hok Ha eq_refl Hviol Hrun Hb).
Qed.

(* the entity-level statement on the final state of every such script *)
Theorem entity_level_on_scripts typed n cis ops s hs j parallel tov workers cap :
  cis_ok cis -> forallb (jalpha cis) ops = true -> jrun typed n cis ops = Ok (s, hs) ->
  x_viol (jxrun n cis ops) = 0 -> within (length hs) ->
  jfull j -> reqs_ok j -> 0 < cap ->
  exists s' last arrays ks,
    step s (ORunJob j parallel tov workers cap [] false) = Ok (s', RJob last arrays) /\
    NoDup ks /\
    (forall k, In k ks <-> exists e, find_ent (jxrun n cis ops) k = Some e /\ spec_selected j e) /\
    Forall2 (visit_of_entity hs (jxrun n cis ops) j) ks (out_visits arrays) /\
    NoDup (map fst (out_visits arrays)) /\
    out_indices arrays = seq 0 (length ks).
Proof.
  intros Hok Ha Hrun Hviol Hb Hf Hr Hcap. destruct (scripts_inv typed n cis ops s hs Hok Ha Hrun Hviol Hb) as (al & HI & HJ).
  destruct (entity_level cis s hs al _ j parallel tov workers cap HI HJ Hf Hr Hcap)
    as (s' & last & arrays & ks & H1 & H2 & H3 & H4 & H5 & H6 & _).
  exists s', last, arrays, ks. auto 10.
Qed.

(* the two instances named in the property: a job without version filter; a version-filtered job on its first run *)
Theorem entity_level_nofilter cis s hs al x j parallel tov workers cap :
  MInv cis s hs al x -> JReady s -> j_check j = 0%N -> reqs_ok j -> 0 < cap ->
  exists s' last arrays ks,
    step s (ORunJob j parallel tov workers cap [] false) = Ok (s', RJob last arrays) /\
    NoDup ks /\
    (forall k, In k ks <-> exists e, find_ent x k = Some e /\ spec_selected j e) /\
    Forall2 (visit_of_entity hs x j) ks (out_visits arrays) /\
    NoDup (map fst (out_visits arrays)) /\
    out_indices arrays = seq 0 (length ks) /\
    last = (match ks with [] => j_last j | _ => wv s end) /\
    MInv cis s' hs al x /\ JReady s'.
Proof. intros HI HJ Hc. apply (entity_level cis s hs al x j parallel tov workers cap HI HJ (or_intror Hc)). Qed.

Theorem entity_level_first_run cis s hs al x j parallel tov workers cap :
  MInv cis s hs al x -> JReady s -> j_last j = WV_NULL -> reqs_ok j -> 0 < cap ->
  exists s' last arrays ks,
    step s (ORunJob j parallel tov workers cap [] false) = Ok (s', RJob last arrays) /\
    NoDup ks /\
    (forall k, In k ks <-> exists e, find_ent x k = Some e /\ spec_selected j e) /\
    Forall2 (visit_of_entity hs x j) ks (out_visits arrays) /\
    NoDup (map fst (out_visits arrays)) /\
    out_indices arrays = seq 0 (length ks) /\
    last = (match ks with [] => WV_NULL | _ => wv s end) /\
    MInv cis s' hs al x /\ JReady s'.
Proof.
  intros HI HJ Hl Hr Hcap. destruct (entity_level cis s hs al x j parallel tov workers cap HI HJ (or_introl Hl) Hr Hcap)
    as (s' & last & arrays & ks & H). rewrite Hl in H. exists s', last, arrays, ks. exact H.
Qed.

(* scripts without job runs are the scripts of ManagerMain *)
Lemma jrun_plain typed : forall ops st, fold_res (jstep typed) (map JOp ops) st = fold_res (mstep typed) ops st.
Proof. induction ops as [|o t IH]; intros st; [reflexivity|]. cbn [map fold_res jstep]. destruct (mstep typed st o); [apply IH|reflexivity]. Qed.
Lemma jxrun_plain : forall ops x, fold_left jx_step (map JOp ops) x = fold_left x_step ops x.
Proof. induction ops as [|o t IH]; intros x; [reflexivity|]. cbn [map fold_left jx_step]. apply IH. Qed.
Lemma jalpha_plain cis ops : forallb (jalpha cis) (map JOp ops) = forallb (alpha_b cis) ops.
Proof. induction ops as [|o t IH]; [reflexivity|]. cbn [map forallb jalpha]. rewrite IH. reflexivity. Qed.

(* the hypotheses of entity_level hold on the final state of every script of the unlocked alphabet *)
Theorem unlocked_scripts_inv typed n cis ops s hs :
  cis_ok cis -> forallb (alpha_b cis) ops = true -> mrun typed n cis ops = Ok (s, hs) ->
  x_viol (xrun n cis ops) = 0 -> within (length hs) ->
  exists al, MInv cis s hs al (xrun n cis ops) /\ JReady s.
Proof.
  intros Hok Ha Hrun Hviol Hb. unfold xrun in *. rewrite <- jxrun_plain in *.
  apply (scripts_inv typed n cis (map JOp ops) s hs Hok); [rewrite jalpha_plain; exact Ha| |exact Hviol|exact Hb].
  unfold jrun. rewrite jrun_plain. exact Hrun.
Qed.

(* the filter result on such a state is what IterCover asks for: one well-formed record per non-empty archetype with the
   required components, selecting all its members; nothing for the other archetypes *)
Theorem filter_on_reachable cis s hs al x j cap :
  MInv cis s hs al x -> JReady s -> jfull j -> 0 < cap ->
  exists s1 fas,
    job_filter s j = Ok (s1, fas) /\ stamps_only s s1 /\
    Forall fa_wf (map (with_cap cap) fas) /\ NoDup (map fa_arch fas) /\
    (forall fa, In fa fas -> exists a, nth_error (archs s) (fa_arch fa) = Some a /\ jmatch j a = true /\
                                       fa_count fa = length (am_ents a) /\ fa_size fa = length (am_ents a) /\
                                       selected_of_blocks (fa_blocks fa) = seq 0 (length (am_ents a))) /\
    (forall ai a, nth_error (archs s) ai = Some a -> jmatch j a = true -> exists fa, In fa fas /\ fa_arch fa = ai).
Proof.
  intros HI HJ Hf Hcap. destruct (run_ready_of _ _ _ _ _ HI HJ) as (Harch & _ & _).
  destruct (job_filter_full s j Hf (jr_chunk _ HJ)) as (s1 & E & Hso).
  exists s1, (full_list j 0 (archs s)). split; [exact E|]. split; [exact Hso|].
  split; [apply full_list_wf; assumption|]. split; [apply full_list_nodup|]. split.
  - intros fa Hin. apply full_list_in in Hin. destruct Hin as (ai & a & Ha & Hm & ->). cbn [Nat.add full_rec fa_arch fa_count fa_size fa_blocks].
    exists a. rewrite Forall_forall in Harch. destruct (Harch a (nth_error_In _ _ Ha)) as (Hc & Hz).
    repeat split; try assumption. apply fblocks_sel; [exact Hc|apply (jmatch_size _ _ Hm)].
  - intros ai a Ha Hm. exists (full_rec ai a). split; [|reflexivity]. apply full_list_in. exists ai, a. auto.
Qed.
