(* C07 over histories WITH ARCHETYPE MOVES, part 1: the functions.

   assign<C>(e) / removeComponent<C>(e) while unlocked move the entity to another archetype (Archetype::externalMove,
   archetype.cpp:147-177): the entity is appended to the target archetype (pushBack: ONE emplace of the version storage --
   the version chunk the entity lands in is stamped with the live world version in every component of the target, every
   global stamp of the target becomes that version, stale version chunks behind the population are cut off), its cells
   are moved or constructed, then it leaves the previous archetype by Archetype::remove (swap-remove: the last member of
   the previous archetype is relocated into the hole, both version chunks are stamped), then its location is set.

   This file: what pushBack does to arch_okd and to the stamps (pushed_okd, pushed_stamps, pushed_aframe), and the
   function-level description of externalMove with its version stamps (external_move_effect; the cells are ignored). *)
Require Import Coq.Lists.List Coq.NArith.NArith Coq.ZArith.ZArith Coq.Arith.Arith Coq.Bool.Bool Coq.micromega.Lia.
From Mustache Require Import Res Iter Manager.
From Mustache.proofs Require Import ListLemmas SkelBasics ClosureProofs ManagerBasics ManagerMoves ManagerDeferred
  IterProofs IterCover VersionProofs VersionHistory VersionDestroyArch VersionDestroyInv VersionDestroyStep.
Import ListNotations.

(* ------------------------------------------------------------------------------------------ *)
(* pushBack: one emplace, the entity appended                                                   *)
Lemma pushed_okd w a h a1 a2 :
  arch_okd w a -> vs_emplace a w (length (am_ents a)) = Ok a1 ->
  ab1 a2 = ab1 (with_size (with_ents a1 (am_ents a1 ++ [h])) (Nat.max (am_size a1) (S (length (am_ents a))))) ->
  arch_okd w a2 /\ am_ents a2 = am_ents a ++ [h].
Proof.
  intros [W1 W2 W3 W4 W5 W6 W7] H1 H2.
  destruct (vs_emplace_bounds _ _ _ _ H1 W3) as (Hb1 & Hc1).
  pose proof (vs_emplace_spec _ _ _ _ H1) as S1. cbv zeta in S1.
  destruct S1 as (c1 & Hch1 & _ & Eg1 & Hlen1 & _ & _ & _ & Em1 & Ee1 & Ek1 & _ & Es1).
  apply chunk_at_ok in Hch1. destruct Hch1 as (Hcs & ->).
  destruct (ab1_fields _ _ H2) as (Em2 & Ee2 & Es2 & Ek2 & Eg2 & Ec2).
  cbn [with_size with_ents am_mask am_ents am_size am_chunk am_gver am_cver] in Em2, Ee2, Es2, Ek2, Eg2, Ec2.
  assert (Hents : am_ents a2 = am_ents a ++ [h]) by (rewrite Ee2, Ee1; reflexivity).
  split; [|exact Hents]. constructor.
  - unfold ver_wf. rewrite Eg2, Eg1, map_length, Em2, Em1. exact W1.
  - unfold gver_bounds. rewrite Eg2, Ec2. exact Hb1.
  - unfold le_all. rewrite Ec2. exact Hc1.
  - intros _. rewrite Eg2, Eg1. apply le_all_const.
  - rewrite Es2, Es1, Hents, app_length, W5. simpl. lia.
  - intros _. rewrite Ek2, Ek1. exact Hcs.
  - intros _. rewrite Ec2, Hlen1, Eg2, Eg1, map_length, Ek2, Ek1, Hents, app_length. simpl length.
    replace (length (am_ents a) + 1 - 1) with (length (am_ents a)) by lia. lia.
Qed.

(* the stamps after pushBack: the version chunk of the new entity carries the world version in every component; the
   version chunks before it keep their stamps; those behind it are cut off *)
Lemma pushed_stamps w a h a1 a2 :
  arch_okd w a -> vs_emplace a w (length (am_ents a)) = Ok a1 ->
  ab1 a2 = ab1 (with_size (with_ents a1 (am_ents a1 ++ [h])) (Nat.max (am_size a1) (S (length (am_ents a))))) ->
  am_mask a2 = am_mask a /\ am_chunk a2 = am_chunk a /\ 0 < am_chunk a /\ length (am_gver a2) = length (am_gver a) /\
  am_gver a2 = map (fun _ => w) (am_gver a) /\
  length (am_cver a2) = length (am_gver a) * S (length (am_ents a) / am_chunk a) /\
  (forall i, i < length (am_gver a) -> nth (length (am_gver a) * (length (am_ents a) / am_chunk a) + i) (am_cver a2) 0%N = w) /\
  (forall ch i, ch < length (am_ents a) / am_chunk a -> i < length (am_gver a) ->
     nth (length (am_gver a) * ch + i) (am_cver a2) 0%N = nth (length (am_gver a) * ch + i) (am_cver a) 0%N) /\
  (forall ch i, length (am_ents a) / am_chunk a < ch -> nth (length (am_gver a) * ch + i) (am_cver a2) 0%N = 0%N).
Proof.
  intros [W1 W2 W3 W4 W5 W6 W7] H1 H2.
  pose proof (vs_emplace_spec _ _ _ _ H1) as S1. cbv zeta in S1.
  destruct S1 as (c1 & Hch1 & _ & Eg1 & Hlen1 & _ & Hrow1 & Hlow1 & Em1 & Ee1 & Ek1 & _ & Es1).
  apply chunk_at_ok in Hch1. destruct Hch1 as (Hcs & ->).
  destruct (ab1_fields _ _ H2) as (Em2 & Ee2 & Es2 & Ek2 & Eg2 & Ec2).
  cbn [with_size with_ents am_mask am_ents am_size am_chunk am_gver am_cver] in Em2, Ee2, Es2, Ek2, Eg2, Ec2.
  split; [congruence|]. split; [congruence|]. split; [exact Hcs|]. split; [rewrite Eg2, Eg1; apply map_length|].
  split; [rewrite Eg2; exact Eg1|]. split; [rewrite Ec2, Hlen1; lia|].
  rewrite Ec2. split; [exact Hrow1|]. split.
  - intros ch i Hch Hi. apply Hlow1.
    assert (length (am_gver a) * S ch <= length (am_gver a) * (length (am_ents a) / am_chunk a)) by (apply Nat.mul_le_mono_l; lia). lia.
  - intros ch i Hch. apply nth_overflow. rewrite Hlen1.
    assert (length (am_gver a) * S (length (am_ents a) / am_chunk a) <= length (am_gver a) * ch) by (apply Nat.mul_le_mono_l; lia). lia.
Qed.

Lemma pushed_aframe w a h a1 a2 :
  arch_okd w a -> vs_emplace a w (length (am_ents a)) = Ok a1 ->
  ab1 a2 = ab1 (with_size (with_ents a1 (am_ents a1 ++ [h])) (Nat.max (am_size a1) (S (length (am_ents a))))) ->
  aframe a a2.
Proof.
  intros Hok H1 H2.
  destruct (pushed_okd _ _ _ _ _ Hok H1 H2) as (_ & Hents).
  destruct (pushed_stamps _ _ _ _ _ Hok H1 H2) as (Em & Ek & Hcs & Eg & _ & _ & Hrow & Hlow & _).
  split.
  - repeat split; try assumption. exists [h]. exact Hents.
  - intros idx i Hidx Hi.
    assert (Hle : idx / am_chunk a <= length (am_ents a) / am_chunk a) by (apply Nat.div_le_mono; lia).
    destruct (Nat.eq_dec (idx / am_chunk a) (length (am_ents a) / am_chunk a)) as [E|Hn].
    + rewrite E, (Hrow i Hi). apply le_all_nth. exact (ad_cver _ _ Hok).
    + rewrite (Hlow (idx / am_chunk a) i) by (try assumption; lia). apply N.le_refl.
Qed.

(* ------------------------------------------------------------------------------------------ *)
(* Archetype::externalMove                                                                      *)
(* the loop over the components of the target touches cells of the target (and the event log) only *)
Lemma extmove_loop_cols s1 ai idx prev pidx (h : handle) skip (comps : list nat) s2 :
  fold_res (fun st (x : nat * nat) =>
      let '(ci, c) := x in
      do inf <- info_of st c;
      do pa' <- nth_res (archs st) prev;
      match cindex (am_mask pa') c with
      | Some pci =>
        if Nat.ltb pidx (am_size pa') then
          do st1 <- write_cell st ai ci idx (get_cell pa' pci pidx);
          Ok (if ci_mctor inf && ci_ev inf then emit st1 (EvMC (ci_pal inf) (PArch ai c idx) (PArch prev c pidx)) else st1)
        else Err OobIndex
      | None =>
        if ((match ci_create inf with Some _ => true | None => false end) ||
            (match ci_default inf with Some _ => true | None => false end) || ci_aa inf) && negb (mhas skip c)
        then construct_default st ai c ci idx h true else Ok st
      end) (combine (seq 0 (length comps)) comps) s1 = Ok s2 ->
  cols_only ai s1 s2.
Proof.
  intro H. eapply fold_cols_only; [|exact H]. intros st [ci c] st' Hf. bd Hf inf Hinf. bd Hf pa' Hpa'.
  destruct (cindex (am_mask pa') c) as [pci|].
  - destruct (Nat.ltb pidx (am_size pa')); [|discriminate]. bd Hf st1 Hw. inversion Hf; subst st'; clear Hf.
    eapply cols_only_trans; [eapply write_cell_cols; exact Hw|apply cols_only_if_emit].
  - match type of Hf with (if ?b then _ else _) = _ => destruct b end.
    + eapply construct_default_cols; exact Hf.
    + inversion Hf. apply cols_only_refl.
Qed.

(* externalMove(entity, prev, pidx): pushBack into the target ai (a -> a2), Archetype::remove from prev (pa -> pa'), the
   location of the entity *)
Lemma external_move_effect s ai (h : handle) prev pidx skip s' a pa :
  nth_error (archs s) ai = Some a -> nth_error (archs s) prev = Some pa -> am_size pa = length (am_ents pa) ->
  external_move s ai h prev pidx skip = Ok s' ->
  ai <> prev /\ exists a1 a2 pa' pent last l3,
    vs_emplace a (wv s) (length (am_ents a)) = Ok a1 /\
    ab1 a2 = ab1 (with_size (with_ents a1 (am_ents a1 ++ [h])) (Nat.max (am_size a1) (S (length (am_ents a))))) /\
    nth_error (am_ents pa) pidx = Some pent /\
    fr2 s' = fr2 s /\ archs s' = upd (upd (archs s) ai a2) prev pa' /\
    length (am_ents pa) = S last /\ am_mask pa' = am_mask pa /\ am_chunk pa' = am_chunk pa /\ am_size pa' = last /\ 0 < am_chunk pa /\
    restamped pa pa' (wv s) (fun ch => ch = last / am_chunk pa \/ ch = pidx / am_chunk pa) /\
    ((pidx = last /\ am_ents pa' = removelast (am_ents pa) /\
      N.to_nat (fst pent) < length (locs s) /\ l3 = upd (locs s) (N.to_nat (fst pent)) default_loc)
     \/
     (pidx <> last /\ exists src dst, nth_error (am_ents pa) last = Some src /\ nth_error (am_ents pa) pidx = Some dst /\
        am_ents pa' = removelast (upd (am_ents pa) pidx src) /\
        N.to_nat (fst dst) < length (locs s) /\ N.to_nat (fst src) < length (locs s) /\
        l3 = upd (upd (locs s) (N.to_nat (fst dst)) default_loc) (N.to_nat (fst src)) {| l_arch := Some prev; l_idx := pidx |})) /\
    N.to_nat (fst h) < length l3 /\
    locs s' = upd l3 (N.to_nat (fst h)) {| l_arch := Some ai; l_idx := length (am_ents a) |}.
Proof.
  intros Ha Hpa Hpsz H. assert (Hai : ai < length (archs s)) by (apply nth_error_Some; congruence).
  unfold external_move in H. destruct (Nat.eqb_spec ai prev) as [|Hne]; [discriminate|]. split; [exact Hne|].
  bd H r Hr. destruct r as (s1, idx).
  unfold push_back in Hr. rewrite (nth_res_some _ _ _ Ha) in Hr. bok Hr. bd Hr a1 Ha1. inversion Hr; subst s1 idx; clear Hr.
  cbv beta iota in H.
  set (a1' := with_size (with_ents a1 (am_ents a1 ++ [h])) (Nat.max (am_size a1) (S (length (am_ents a))))) in *.
  assert (Ha1' : nth_error (archs (set_arch s ai a1')) ai = Some a1') by (cbn [archs set_arch set_archs]; apply nth_error_upd_same; exact Hai).
  assert (Hpa1 : nth_error (archs (set_arch s ai a1')) prev = Some pa)
    by (cbn [archs set_arch set_archs]; rewrite nth_error_upd_other by exact Hne; exact Hpa).
  rewrite (nth_res_some _ _ _ Ha1') in H. bok H. rewrite (nth_res_some _ _ _ Hpa1) in H. bok H. cbv zeta in H.
  bd H s2 Hs2. apply extmove_loop_cols in Hs2.
  destruct (cols_only_upd _ _ _ _ Hs2 Ha1') as (a2 & A2 & B2 & Ha2). destruct Hs2 as (F2 & _).
  change (fr1 s2 = fr1 s) in F2. cbn [archs set_arch set_archs] in A2. rewrite upd_upd in A2.
  assert (Hpa2 : nth_error (archs s2) prev = Some pa) by (rewrite A2, nth_error_upd_other by exact Hne; exact Hpa).
  rewrite (nth_res_some _ _ _ Hpa2) in H. bok H. bd H pent Hpent. apply nth_res_ok in Hpent.
  bd H s3 Hs3.
  destruct (arch_remove_effect _ _ _ _ _ _ _ Hpa2 Hpsz Hs3) as (pa' & last & El & F3 & A3 & Em & Ek & Es & Hcs & R & Hcases).
  apply update_location_ok in H. destruct H as (Hlt & ->).
  rewrite (fr1_wv _ _ F2) in R. rewrite (fr1_locs _ _ F2) in Hcases.
  exists a1, a2, pa', pent, last, (locs s3). cbn [locs set_locs archs set_archs].
  split; [exact Ha1|]. split; [exact B2|]. split; [exact Hpent|].
  split; [change (fr2 s3 = fr2 s); rewrite F3; apply fr1_fr2; exact F2|].
  split; [rewrite A3, A2; reflexivity|].
  split; [exact El|]. split; [exact Em|]. split; [exact Ek|]. split; [exact Es|]. split; [exact Hcs|]. split; [exact R|].
  split; [|split; [exact Hlt|reflexivity]].
  destruct Hcases as [(E1 & E2 & E3 & E4)|(E1 & src & dst & E2 & E3 & E4 & E5 & E6 & E7)].
  - left. auto.
  - right. split; [exact E1|]. exists src, dst. repeat (split; [assumption|]). assumption.
Qed.
