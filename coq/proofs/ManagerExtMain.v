(* C02: the refinement theorem for the Manager on the EXTENDED unlocked alphabet
   (alpha_b of ManagerMain.v + destroy (deferred), update, clearArchetype, clear, clone, builder edits), by induction
   over scripts with the invariant MInvE of ManagerExtInv.v. *)
Require Import Coq.Lists.List Coq.NArith.NArith Coq.ZArith.ZArith Coq.Arith.Arith Coq.Bool.Bool Coq.micromega.Lia.
From Mustache Require Import Res Manager MgrSpec Refine.
From Mustache Require Skeleton.
From Mustache Require Import SkelSpec.
From Mustache.proofs Require Import ListLemmas SkelBasics SkelInv SkelSteps SkelMove SkelRefine ClosureProofs
  ManagerBasics ManagerMoves ManagerProj ManagerInv ManagerMain ManagerWorlds
  ManagerExtFrames ManagerExtInv ManagerExtClear ManagerExtClone ManagerExtBuild.
Import ListNotations.

(* ---- the alphabet ---- *)
Definition mask_lt (m : mask) : bool := (m <? 2 ^ 128)%N.
Definition assigns_okb (cis : list cinfo) (assigns : list (nat * Z)) : bool :=
  forallb (fun a : nat * Z => Nat.ltb (fst a) MASK_BITS &&
             match nth_error cis (fst a) with Some inf => ci_hasval inf | None => true end) assigns.

(* everything of alpha_b, with creation masks inside the 128-bit set, plus: deferred destroy, update, clearArchetype
   (no shared ids, mask inside the 128-bit set), clear, clone, and builder edits whose assignments name component ids
   below 128 of types whose value the driver can write *)
Definition alpha_e (cis : list cinfo) (o : xop) : bool :=
  match o with
  | XoCreate _ m _ _ => alpha_b cis o && mask_lt m
  | XoDestroy _ _ => true
  | XoUpdate => true
  | XoClearArch m sids => (match sids with [] => true | _ => false end) && mask_lt m
  | XoClear => true
  | XoClone _ => true
  | XoBuild _ _ assigns _ => assigns_okb cis assigns
  | _ => alpha_b cis o
  end.

Lemma mask_lt_mok m : mask_lt m = true -> mok m.
Proof. unfold mask_lt. intros H. apply N.ltb_lt in H. apply mok_lt. exact H. Qed.

Lemma assigns_okb_ok cis assigns : assigns_okb cis assigns = true -> assigns_ok cis assigns.
Proof.
  unfold assigns_okb, assigns_ok. rewrite forallb_forall. intros H c z Hin. specialize (H (c, z) Hin). simpl in H.
  apply andb_true_iff in H. destruct H as (H1 & H2). apply Nat.ltb_lt in H1. split; [exact H1|]. intros inf E. rewrite E in H2. exact H2.
Qed.

Lemma NoDup_b_sound l : NoDup_b l = true -> NoDup l.
Proof.
  induction l as [|x t IH]; simpl; intros H; [constructor|]. apply andb_true_iff in H. destruct H as (H1 & H2).
  constructor; [|apply IH; exact H2]. intros Hin. apply negb_true_iff in H1.
  assert (E : existsb (Nat.eqb x) t = true) by (apply existsb_exists; exists x; split; [exact Hin|apply Nat.eqb_refl]). congruence.
Qed.

(* ---- the violation counter never decreases ---- *)
Lemma fold_push_viol {A} (f : A -> xcmd) tid l : forall x, x_viol (fold_left (fun st a => x_push st tid (f a)) l x) = x_viol x.
Proof. induction l as [|a t IH]; intros x; simpl; [reflexivity|]. rewrite IH. reflexivity. Qed.

Lemma fold_kill_viol ks : forall x, x_viol (fold_left x_kill ks x) = x_viol x.
Proof. induction ks as [|k t IH]; intros x; simpl; [reflexivity|]. rewrite IH. apply x_viol_kill. Qed.

Lemma x_viol_step_mono_e cis x o : alpha_e cis o = true -> x_viol x <= x_viol (x_step x o).
Proof.
  intros Ha. destruct o; simpl in Ha;
    try (apply (x_viol_step_mono cis); exact Ha);
    try (apply andb_true_iff in Ha; destruct Ha as (Ha & _); apply (x_viol_step_mono cis); exact Ha);
    unfold x_step; (destruct (out_of_contract x _); [simpl; lia|]); unfold x_step_in.
  - destruct (negb (issued_b x k)); [lia|]. destruct (x_lock x); [simpl; lia|rewrite x_viol_push; lia].
  - destruct sids; simpl; lia.
  - simpl. lia.
  - simpl. rewrite fold_kill_viol. lia.
  - destruct (find_ent x k); simpl; lia.
  - destruct target as [k|].
    + destruct (x_lock x).
      * pose proof (xrmv_viol k removes (xasg k x assigns)) as E1. pose proof (xasg_viol_mono k assigns x) as E2. unfold xrmv, xasg in *. lia.
      * rewrite (fold_push_viol (fun c => XRemove k c)). rewrite (fold_push_viol (fun a : nat * Z => XAssign k (fst a) (Some (snd a)))). lia.
    + destruct (x_lock x).
      * pose proof (xasg_viol_mono (x_count x) assigns (x_create (xw_count x (S (x_count x))) (x_count x) 0%N [])) as E2.
        rewrite x_viol_create in E2. unfold xasg in E2. simpl in E2. exact E2.
      * rewrite (fold_push_viol (fun a : nat * Z => XAssign (x_count x) (fst a) (Some (snd a)))). rewrite x_viol_push. simpl. lia.
Qed.

Lemma x_viol_run_mono_e cis : forall ops x, forallb (alpha_e cis) ops = true -> x_viol x <= x_viol (fold_left x_step ops x).
Proof.
  induction ops as [|o t IH]; intros x Ha; simpl in *; [lia|]. apply andb_true_iff in Ha. destruct Ha as (Ho & Ht).
  pose proof (x_viol_step_mono_e cis x o Ho). pose proof (IH (x_step x o) Ht). lia.
Qed.

(* ---- the operations of alpha_b leave the marked entities alone ---- *)
Lemma x_marked_create s k m sh : x_marked (x_create s k m sh) = x_marked s.
Proof. unfold x_create. destruct (widen s k _) as [cs att]. reflexivity. Qed.
Lemma x_marked_kill s k : x_marked (x_kill s k) = x_marked s.
Proof. unfold x_kill. destruct (find_ent s k); reflexivity. Qed.
Lemma x_marked_assign s k c v : x_marked (x_assign s k c v) = x_marked s.
Proof.
  unfold x_assign. destruct (find_ent s k) as [e|]; [|reflexivity]. destruct (has_comp (e_comps e) c); [reflexivity|].
  destruct (widen s k _) as [cs att]. reflexivity.
Qed.
Lemma x_marked_remove s k c : x_marked (x_remove s k c) = x_marked s.
Proof.
  unfold x_remove. destruct (find_ent s k) as [e|]; [|reflexivity]. destruct (negb (has_comp (e_comps e) c)); [reflexivity|].
  destruct (mhas _ c); reflexivity.
Qed.

Lemma x_marked_old cis x o : alpha_b cis o = true -> x_marked (x_step x o) = x_marked x.
Proof.
  intros Ha. unfold x_step. destruct (out_of_contract x o); [reflexivity|].
  destruct o; simpl in Ha; try discriminate; unfold x_step_in.
  - destruct (x_lock x); [rewrite x_marked_create|]; reflexivity.
  - destruct (negb (issued_b x k)); [reflexivity|]. destruct (x_lock x); [apply x_marked_kill|reflexivity].
  - destruct (negb (issued_b x k)); [reflexivity|]. destruct (x_lock x); [apply x_marked_assign|reflexivity].
  - destruct (negb (issued_b x k)); [reflexivity|]. destruct (x_lock x); [apply x_marked_remove|reflexivity].
  - destruct (find_ent x k) as [e|]; [|reflexivity]. destruct (has_comp (e_comps e) c); reflexivity.
Qed.

(* ---- what a step of alpha_b leaves alone in the Manager ---- *)
Definition create_mok (o : xop) : Prop := match o with XoCreate _ m _ _ => mok m | _ => True end.

Lemma step_old_frame cis typed s hs o s' out : lockc s = 0 -> deps s = [] -> alpha_b cis o = true ->
  step s (concretize typed hs o) = Ok (s', out) ->
  marked s' = marked s /\ (Mok s -> create_mok o -> Mok s').
Proof.
  intros Hl Hd Ha H. destruct o; simpl in Ha; try discriminate; cbn [concretize] in H.
  - destruct sids; [|discriminate]. rewrite (step_create_unlocked _ _ _ _ Hl) in H.
    bd H r Hga. destruct r as (s1, ai). cbv beta iota in H. bd H r2 Hcid. destruct r2 as (s2, h). cbv beta iota in H.
    bd H s3 Hins. inversion H; subst s' out; clear H.
    destruct (get_arch_frame _ _ _ _ _ Hd Hga) as (M1 & K1 & _).
    pose proof (sim_trans _ _ _ (create_id_sim _ _ _ Hcid) (arch_insert_sim _ _ _ _ _ Hins)) as Hs.
    split; [rewrite (proj1 Hs); exact M1|]. intros HM Hm. eapply sim_Mok; [exact Hs|]. apply K1; assumption.
  - rewrite (step_destroy_now_unlocked _ _ _ Hl) in H. bd H s1 Hdn. inversion H; subst s' out.
    apply destroy_now_sim in Hdn. split; [apply (proj1 Hdn)|]. intros HM _. eapply sim_Mok; eassumption.
  - apply andb_true_iff in Ha. destruct Ha as (Hc & _). apply Nat.ltb_lt in Hc.
    rewrite (step_assign_unlocked _ _ _ _ _ _ Hl) in H. bd H inf Hinf. bd H r Hr. destruct r as (s1, ((ai, ci), slot)). cbv beta iota in H.
    destruct (assign_unlocked_frame _ _ _ _ _ _ Hd Hr) as (M1 & K1).
    assert (Hs : sim s1 s').
    { destruct v as [z|].
      - bd H s2 Hw. assert (S2 : sim s1 s2) by (destruct (ci_hasval inf); [eapply write_cell_sim; exact Hw|inversion Hw; apply sim_refl]).
        destruct typed; inversion H; subst s' out; [|exact S2].
        eapply sim_trans; [exact S2|]. eapply sim_trans; [apply (sim_if_emit (ci_ev inf))|apply (sim_if_emit (ci_aa inf))].
      - inversion H. apply sim_refl. }
    split; [rewrite (proj1 Hs); exact M1|]. intros HM _. eapply sim_Mok; [exact Hs|]. apply K1; assumption.
  - rewrite (step_remove_unlocked _ _ _ _ _ Hl) in H. destruct (typed0 && negb (is_valid s (resolve hs k))).
    + inversion H; subst s' out. auto.
    + bd H s1 Hr. inversion H; subst s' out. destruct (remove_unlocked_frame _ _ _ _ Hd Hr) as (M1 & K1). auto.
  - change (get_mut s (resolve hs k) c (Some v) = Ok (s', out)) in H. apply get_mut_sim in H.
    split; [apply (proj1 H)|]. intros HM _. eapply sim_Mok; eassumption.
Qed.

Lemma MInvE_old cis typed s hs al x o s' hs' :
  MInvE cis s hs al x -> cis_ok cis -> alpha_b cis o = true -> create_mok o -> x_viol x = 0 -> x_viol (x_step x o) = 0 ->
  mstep typed (s, hs) o = Ok (s', hs') -> within (length hs') ->
  exists al', MInvE cis s' hs' al' (x_step x o).
Proof.
  intros [HI HM Hw Hmi Hml Hmk] Hok Ha Hcm Hv0 Hv1 H Hb.
  destruct (MInv_step cis typed s hs al x o s' hs' HI Hok Ha Hv0 Hv1 H Hb) as (al' & HI').
  exists al'. unfold mstep in H. bd H r Hst. destruct r as (s1, out). inversion H; subst s' hs'; clear H.
  destruct (step_old_frame cis typed s hs o s1 out (mi_lock _ _ _ _ _ HI) (mi_deps _ _ _ _ _ HI) Ha Hst) as (Mk & K).
  pose proof (x_marked_old cis x o Ha) as Xm.
  assert (HM' : Mok (set_log s1 [])) by (apply (K HM Hcm)).
  assert (Hw' : xwf (x_step x o)) by (apply (xwf_step cis); assumption).
  assert (Mk' : marked (set_log s1 []) = marked s) by exact Mk.
  destruct out; try (constructor; try assumption; [rewrite Mk'; exact Hmi|rewrite Xm; exact Hml|intros k Hk; rewrite Mk', Xm; apply Hmk; exact Hk]).
  destruct (marked_extend s (set_log s1 []) hs al' x (x_step x o) h Hmi Hml Hmk Mk' Xm (mi_G _ _ _ _ _ HI')) as (M1 & M2 & M3).
  constructor; assumption.
Qed.

(* ---- one step of the extended alphabet ---- *)
Lemma find_none_beyond cis s hs al x k : MInvE cis s hs al x -> length hs <= k -> find_ent x k = None.
Proof.
  intros HE Hk. apply alive_x_false. destruct (alive_x x k) eqn:E; [exfalso|reflexivity].
  apply (mi_alive _ _ _ _ _ (me_inv _ _ _ _ _ HE)) in E. destruct (alive_in _ _ E) as (key & Hin).
  destruct (live_m _ _ _ _ _ (MInvE_G _ _ _ _ _ HE) Hin) as (Hlt & _). exact (Nat.lt_irrefl _ (Nat.lt_le_trans _ _ _ Hlt Hk)).
Qed.

Lemma MInvE_step cis typed s hs al x o s' hs' :
  MInvE cis s hs al x -> cis_ok cis -> alpha_e cis o = true -> x_viol x = 0 -> x_viol (x_step x o) = 0 ->
  mstep typed (s, hs) o = Ok (s', hs') -> within (length hs') ->
  exists al', MInvE cis s' hs' al' (x_step x o).
Proof.
  intros HE Hok Ha Hv0 Hv1 H Hb.
  pose proof (mi_xlock _ _ _ _ _ (me_inv _ _ _ _ _ HE)) as Hxl.
  destruct o; simpl in Ha; try discriminate;
    try (eapply MInvE_old; [exact HE|exact Hok|exact Ha|exact I|exact Hv0|exact Hv1|exact H|exact Hb]).
  - (* create *)
    apply andb_true_iff in Ha. destruct Ha as (Ha & Hm).
    eapply MInvE_old; [exact HE|exact Hok|exact Ha|exact (mask_lt_mok _ Hm)|exact Hv0|exact Hv1|exact H|exact Hb].
  - (* destroy *)
    unfold x_step in *. destruct (out_of_contract x (XoDestroy tid k)); [simpl in Hv1; lia|].
    unfold mstep in H. bd H r Hst. destruct r as (s1, out). cbn [concretize] in Hst. rewrite resolve_hnd in Hst.
    destruct (MInvE_destroy _ _ _ _ _ _ _ _ _ HE Hst) as (-> & HE'). inversion H; subst s' hs'. exists al. apply MInvE_set_log. exact HE'.
  - (* clearArchetype *)
    apply andb_true_iff in Ha. destruct Ha as (Hs & Hm). destruct sids; [|discriminate].
    unfold x_step in *. destruct (out_of_contract x (XoClearArch m [])); [simpl in Hv1; lia|].
    unfold mstep in H. bd H r Hst. destruct r as (s1, out). cbn [concretize] in Hst.
    assert (Hb0 : within (length hs)) by (eapply within_le; [|exact Hb]; inversion H; destruct out; rewrite ?app_length; simpl; lia).
    destruct (MInvE_clear_arch _ _ _ _ _ _ _ _ HE Hb0 (mask_lt_mok _ Hm) Hst) as (-> & al' & HE'). inversion H; subst s' hs'.
    exists al'. apply MInvE_set_log. exact HE'.
  - (* clear *)
    unfold x_step in *. destruct (out_of_contract x XoClear); [simpl in Hv1; lia|].
    unfold mstep in H. bd H r Hst. destruct r as (s1, out). cbn [concretize] in Hst.
    assert (Hb0 : within (length hs)) by (eapply within_le; [|exact Hb]; inversion H; destruct out; rewrite ?app_length; simpl; lia).
    destruct (MInvE_clear _ _ _ _ _ _ _ HE Hb0 Hst) as (-> & al' & HE'). inversion H; subst s' hs'.
    exists al'. apply MInvE_set_log. exact HE'.
  - (* update *)
    unfold x_step in *. destruct (out_of_contract x XoUpdate); [simpl in Hv1; lia|].
    unfold mstep in H. bd H r Hst. destruct r as (s1, out). cbn [concretize] in Hst.
    assert (Hb0 : within (length hs)) by (eapply within_le; [|exact Hb]; inversion H; destruct out; rewrite ?app_length; simpl; lia).
    destruct (MInvE_update _ _ _ _ _ _ _ HE Hb0 Hst) as (-> & al' & HE'). inversion H; subst s' hs'.
    exists al'. apply MInvE_set_log. exact HE'.
  - (* clone *)
    unfold x_step in *. destruct (out_of_contract x (XoClone k)); [simpl in Hv1; lia|].
    unfold mstep in H. bd H r Hst. destruct r as (s1, out). cbn [concretize] in Hst. rewrite resolve_hnd in Hst.
    inversion H; subst s' hs'; clear H.
    destruct (MInvE_clone cis s hs al x k s1 out HE) as [(-> & _ & HE')|(d & al' & -> & HE')]; [|exact Hst| |].
    + intros d ->. rewrite app_length in Hb. simpl in Hb. replace (length hs + 1) with (S (length hs)) in Hb by lia. exact Hb.
    + exists al. apply MInvE_set_log. exact HE'.
    + exists al'. apply MInvE_set_log. exact HE'.
  - (* builder *)
    pose proof (assigns_okb_ok _ _ Ha) as Hao.
    destruct target as [k|].
    + (* an existing entity *)
      unfold x_step in *. destruct (out_of_contract x (XoBuild tid (Some k) assigns removes)) eqn:Eooc; [simpl in Hv1; lia|].
      pose proof Eooc as Hooc.
      simpl in Eooc. rewrite Hxl in Eooc. apply orb_false_iff in Eooc. destruct Eooc as (Eooc & Etgt). apply orb_false_iff in Eooc. destruct Eooc as (_ & End).
      apply negb_false_iff in End. apply NoDup_b_sound in End.
      assert (Hax : alive_x x k = true) by (unfold alive_x; destruct (find_ent x k); [reflexivity|discriminate]).
      unfold mstep in H. bd H r Hst. destruct r as (s1, out). cbn [concretize] in Hst. rewrite resolve_hnd in Hst.
      destruct (MInvE_build_some cis s hs al x tid k assigns removes s1 out HE Hao End Hax Hooc) as (-> & al' & HE'); [lia|exact Hst|].
      inversion H; subst s' hs'. exists al'. apply MInvE_set_log. exact HE'.
    + destruct assigns as [|a0 assigns0].
      * (* create() *)
        rewrite (x_build_none_nil _ _ _ Hxl) in *.
        assert (H' : mstep typed (s, hs) (XoCreate tid 0%N [] false) = Ok (s', hs')).
        { unfold mstep in *. cbn [concretize] in *. rewrite <- (step_build_none_nil _ _ removes (mi_lock _ _ _ _ _ (me_inv _ _ _ _ _ HE))). exact H. }
        apply (MInvE_old cis typed s hs al x (XoCreate tid 0%N [] false) s' hs' HE Hok eq_refl mok_zero Hv0 Hv1 H' Hb).
      * (* a new entity with components *)
        unfold x_step in *. destruct (out_of_contract x (XoBuild tid None (a0 :: assigns0) removes)) eqn:Eooc; [simpl in Hv1; lia|].
        unfold out_of_contract in Eooc. rewrite Hxl in Eooc. apply orb_false_iff in Eooc. destruct Eooc as (Eooc & _). apply orb_false_iff in Eooc. destruct Eooc as (_ & End).
        apply negb_false_iff in End. apply NoDup_b_sound in End.
        unfold mstep in H. bd H r Hst. destruct r as (s1, out). cbn [concretize] in Hst.
        assert (Hout : exists d, out = RHandle d).
        { rewrite (step_build_none_cons _ _ _ _ _ (mi_lock _ _ _ _ _ (me_inv _ _ _ _ _ HE))) in Hst.
          bd Hst r0 H0. destruct r0 as (sa, d). cbv beta iota in Hst. bd Hst r1 H1. destruct r1 as (sb, ai). cbv beta iota in Hst.
          bd Hst sc H2. bd Hst sd H3. inversion Hst. eauto. }
        destruct Hout as (d0 & ->). inversion H; subst s' hs'; clear H.
        rewrite app_length in Hb. simpl in Hb. replace (length hs + 1) with (S (length hs)) in Hb by lia.
        destruct (MInvE_build_new cis s hs al x tid a0 assigns0 removes s1 (RHandle d0) HE Hao End Hb) as (d & al' & E & HE'); [lia|exact Hst|].
        inversion E; subst d. exists al'. apply MInvE_set_log. exact HE'.
Qed.

Lemma MInvE_run cis typed : forall ops s hs al x s' hs',
  MInvE cis s hs al x -> cis_ok cis -> forallb (alpha_e cis) ops = true -> x_viol x = 0 ->
  x_viol (fold_left x_step ops x) = 0 ->
  fold_res (mstep typed) ops (s, hs) = Ok (s', hs') -> within (length hs') ->
  exists al', MInvE cis s' hs' al' (fold_left x_step ops x).
Proof.
  induction ops as [|o t IH]; intros s hs al x s' hs' HI Hok Ha Hv0 Hv1 H Hb; simpl in *.
  - inversion H; subst. eauto.
  - apply andb_true_iff in Ha. destruct Ha as (Ho & Ht). bd H r H1. destruct r as (s1, hs1).
    assert (Hv1' : x_viol (x_step x o) = 0).
    { pose proof (x_viol_run_mono_e cis t (x_step x o) Ht). lia. }
    destruct (MInvE_step cis typed s hs al x o s1 hs1 HI Hok Ho Hv0 Hv1' H1) as (al1 & HI1).
    { eapply within_le; [|exact Hb]. eapply mrun_mono. exact H. }
    apply (IH s1 hs1 al1 (x_step x o) s' hs' HI1 Hok Ht Hv1' Hv1 H Hb).
Qed.

Lemma MInvE_init n cis : MInvE cis (init n cis) [] [] (x_init n cis).
Proof.
  constructor.
  - apply MInv_init.
  - constructor.
  - apply xwf_init.
  - intros h [].
  - intros k [].
  - intros k Hk. simpl in Hk. lia.
Qed.

(* ---- the theorems ---- *)
Theorem ext_refinement typed n cis ops s hs :
  cis_ok cis -> forallb (alpha_e cis) ops = true ->
  mrun typed n cis ops = Ok (s, hs) -> x_viol (xrun n cis ops) = 0 -> within (length hs) ->
  length hs = x_count (xrun n cis ops) /\
  forall k,
    match find_ent (xrun n cis ops) k with
    | Some e => exists e', abs_ent s k (nth k hs null_handle) = Some e' /\ ent_match e e' = true
    | None => abs_ent s k (nth k hs null_handle) = None
    end.
Proof.
  intros Hok Ha Hrun Hviol Hb. unfold mrun in Hrun. unfold xrun in *.
  destruct (MInvE_run cis typed ops _ _ _ _ _ _ (MInvE_init n cis) Hok Ha eq_refl Hviol Hrun Hb) as (al & HE).
  pose proof (me_inv _ _ _ _ _ HE) as HI.
  split; [symmetry; apply (mi_count _ _ _ _ _ HI)|]. intros k.
  destruct (find_ent (fold_left x_step ops (x_init n cis)) k) as [e|] eqn:Hfe.
  - apply (MInv_abs_alive _ _ _ _ _ _ _ HI Hfe).
  - apply (MInv_abs_dead _ _ _ _ _ _ HI Hfe).
Qed.

Theorem ext_refines_on typed n cis ops s hs :
  cis_ok cis -> forallb (alpha_e cis) ops = true ->
  mrun typed n cis ops = Ok (s, hs) -> x_viol (xrun n cis ops) = 0 -> within (length hs) ->
  refines_on typed n cis ops = true.
Proof.
  intros Hok Ha Hrun Hviol Hb. destruct (ext_refinement typed n cis ops s hs Hok Ha Hrun Hviol Hb) as (Hcnt & Hpt).
  assert (Hw : xwf (xrun n cis ops)).
  { unfold mrun in Hrun. unfold xrun in *.
    destruct (MInvE_run cis typed ops _ _ _ _ _ _ (MInvE_init n cis) Hok Ha eq_refl Hviol Hrun Hb) as (al & HE). apply (me_xwf _ _ _ _ _ HE). }
  unfold refines_on. rewrite Hrun, Hviol. simpl. unfold worlds_match.
  rewrite (sorted_is_ordered _ Hw), <- Hcnt. apply Forall2_worlds. unfold abs. apply abs_from_match.
  intros j Hj. simpl. apply Hpt.
Qed.

Theorem ext_observations typed n cis ops s hs :
  cis_ok cis -> forallb (alpha_e cis) ops = true ->
  mrun typed n cis ops = Ok (s, hs) -> x_viol (xrun n cis ops) = 0 -> within (length hs) ->
  forall k c, c < MASK_BITS ->
    step s (OHas (nth k hs null_handle) c) = Ok (s, RBool (spec_has (xrun n cis ops) k c)) /\
    exists v, step s (OGetConst (nth k hs null_handle) c) = Ok (s, RCell (spec_has (xrun n cis ops) k c) v) /\
              forall e w, find_ent (xrun n cis ops) k = Some e -> In (c, w) (e_comps e) -> cell_le w v = true.
Proof.
  intros Hok Ha Hrun Hviol Hb k c Hc. unfold mrun in Hrun. unfold xrun in *.
  destruct (MInvE_run cis typed ops _ _ _ _ _ _ (MInvE_init n cis) Hok Ha eq_refl Hviol Hrun Hb) as (al & HE).
  apply (MInv_observe _ _ _ _ _ k c (me_inv _ _ _ _ _ HE) Hc).
Qed.

(* the marked set: a deferred destroy takes effect exactly at the next update (C01 for the Manager model) *)
Theorem ext_marked typed n cis ops s hs :
  cis_ok cis -> forallb (alpha_e cis) ops = true ->
  mrun typed n cis ops = Ok (s, hs) -> x_viol (xrun n cis ops) = 0 -> within (length hs) ->
  forall k, k < length hs -> (In (nth k hs null_handle) (marked s) <-> In k (x_marked (xrun n cis ops))).
Proof.
  intros Hok Ha Hrun Hviol Hb k Hk. unfold mrun in Hrun. unfold xrun in *.
  destruct (MInvE_run cis typed ops _ _ _ _ _ _ (MInvE_init n cis) Hok Ha eq_refl Hviol Hrun Hb) as (al & HE).
  apply (me_marked _ _ _ _ _ HE k Hk).
Qed.
