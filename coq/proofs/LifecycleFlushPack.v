(* C03, history level, the flush at unlock -- one command pack, one buffer, the whole flush.
   The live set of the bracket checker during a flush is
       LS cis s T L:  the archetype cells in L are the occupied cells of tracked components (LifecycleHist.aplace),
                      the temporaries in L are those of T (the parked temporaries not destroyed yet).
   P_pack: under the hypotheses of ManagerFlush.F_pack (the flush invariant FInv, the commands of the pack related to
   the specification's, no violation counted by the specification) plus `ra_ok` on the pack, the events of
   applyCommandPack are accepted from L and lead to a live set with the same temporaries and the occupied cells of the
   new state.  P_packs / P_storage / P_buffers / P_flush lift this to a buffer (whose final pass destroys its
   temporaries) and to the flush (after which no temporary is alive). *)
Require Import Coq.Lists.List Coq.NArith.NArith Coq.ZArith.ZArith Coq.Arith.Arith Coq.Bool.Bool Coq.micromega.Lia.
From Mustache Require Import Res Manager MgrSpec Refine.
From Mustache Require Skeleton.
From Mustache Require Import SkelSpec.
From Mustache.proofs Require Import ListLemmas SkelBasics SkelInv SkelSteps SkelRefine SkelLocked SkelFlush SkelMove SkelMoveRem SkelMain ClosureProofs
  ManagerBasics ManagerMoves ManagerProj ManagerInv ManagerMain ManagerLInv ManagerPack ManagerFlush ManagerLocked ManagerLockedMain
  LifecycleProofs LifecycleLang LifecycleHist LifecycleLocked LifecycleFlushLang.
From Mustache.proofs Require ManagerDeferred.
Import ListNotations.

(* ------------------------------------------------------------------------------------------ *)
(* what x_viol = 0 says about a pack: every assign meets an entity without the component *)
Lemma pack_fresh_ok cis hs tl h k : NoDup hs -> k < length hs -> hnd hs k = h ->
  forall t xt fm x e,
  Forall2 (crel cis hs tl) t xt -> Forall (fun c => cmd_handle c = h) t -> Forall (fun c => is_create c = false) t ->
  x_deps x = [] -> x_cinfos x = cis -> find_ent x k = Some e -> map fst (e_comps e) = mitems fm ->
  x_viol (fold_left x_cmd xt x) = x_viol x -> pack_fresh fm t = true.
Proof.
  intros Hnd Hk Eh t. induction t as [|c t IH]; intros xt fm x e HR Hall Hnc Hxd Hxc Hfe Hkeys Hviol; [reflexivity|].
  inversion HR as [|c' xc t' xt' Hc HRt]; subst c' t' xt. inversion Hall as [|c1 t1 Hch Hallt]; subst c1 t1. inversion Hnc as [|c1 t1 Hcc Hnct]; subst c1 t1.
  simpl fold_left in *. destruct (viol_head _ _ _ Hviol) as (Hv1 & Hv2).
  assert (Ekey : xkey xc = k).
  { destruct (crel_key _ _ _ _ _ Hc) as (Hk' & E & _). apply (proj1 (NoDup_nth hs Skeleton.null_handle) Hnd); [exact Hk'|exact Hk|].
    fold (hnd hs (xkey xc)). fold (hnd hs k). congruence. }
  destruct c as [h' ha m sh|h'|h'|h' c|h' c n]; [discriminate| | | |]; destruct xc as [k0 m0 sh0|k0|k0|k0 c0 v0|k0 c0]; simpl in Hc; try contradiction;
    simpl in Ekey; subst k0.
  - simpl x_cmd in *. assert (Hal : alive_x x k = true) by (apply alive_x_find; congruence). rewrite Hal in *.
    simpl. apply (IH xt' fm (xw_marked x (k :: x_marked x)) e HRt Hallt Hnct Hxd Hxc Hfe Hkeys Hv2).
  - reflexivity.
  - destruct Hc as (_ & Eh' & -> & Hc128). simpl x_cmd in *. simpl.
    destruct (has_comp (e_comps e) c) eqn:Hhas.
    + destruct (x_remove_eq x k c e Hxd Hfe Hhas) as (Fx & Ex).
      set (e1 := {| e_k := k; e_comps := filter (fun p => negb (Nat.eqb (fst p) c)) (e_comps e); e_shared := e_shared e |}) in *.
      assert (Hf1 : find_ent (x_remove x k c) k = Some e1) by (rewrite find_ent_findk, Ex, findk_put; simpl; rewrite Nat.eqb_refl; reflexivity).
      destruct (xfr_fields _ _ Fx) as (X1 & X2 & X3 & X4 & X5).
      assert (Hkeys1 : map fst (e_comps e1) = mitems (mdel fm c)) by (simpl; rewrite map_fst_filter, Hkeys, mitems_mdel; reflexivity).
      apply (IH xt' (mdel fm c) (x_remove x k c) e1 HRt Hallt Hnct); [congruence|congruence|exact Hf1|exact Hkeys1|exact Hv2].
    + rewrite (x_remove_absent _ _ _ _ Hfe Hhas) in *.
      assert (Hkeys1 : map fst (e_comps e) = mitems (mdel fm c)).
      { rewrite mitems_mdel, <- Hkeys. symmetry. apply filter_notin. intros Hin. apply has_comp_in in Hin. congruence. }
      apply (IH xt' (mdel fm c) x e HRt Hallt Hnct Hxd Hxc Hfe Hkeys1 Hv2).
  - destruct Hc as (_ & Eh' & -> & Hc128 & Htmp). simpl x_cmd in *. simpl.
    assert (Hhas : has_comp (e_comps e) c = false).
    { destruct (has_comp (e_comps e) c) eqn:E; [|reflexivity]. exfalso. unfold x_assign in Hv1. rewrite Hfe, E in Hv1. simpl in Hv1. lia. }
    assert (Hm : mhas fm c = false).
    { destruct (mhas fm c) eqn:E; [|reflexivity]. exfalso. assert (Hin : In c (mitems fm)) by (apply mitems_in; auto).
      rewrite <- Hkeys in Hin. apply has_comp_in in Hin. congruence. }
    rewrite Hm. simpl.
    destruct (x_assign_eq x k c v0 e Hxd Hfe Hhas) as (Fx & Ex).
    set (e1 := {| e_k := k; e_comps := insert_comp (e_comps e) c (match v0 with Some z => Some z | None => default_cell (x_cinfos x) c end); e_shared := e_shared e |}) in *.
    assert (Hf1 : find_ent (x_assign x k c v0) k = Some e1) by (rewrite find_ent_findk, Ex, findk_put; simpl; rewrite Nat.eqb_refl; reflexivity).
    destruct (xfr_fields _ _ Fx) as (X1 & X2 & X3 & X4 & X5).
    assert (Hkeys1 : map fst (e_comps e1) = mitems (madd fm c)) by (simpl; rewrite map_fst_insert_comp, Hkeys, mitems_madd by exact Hc128; reflexivity).
    apply (IH xt' (madd fm c) (x_assign x k c v0) e1 HRt Hallt Hnct); [congruence|congruence|exact Hf1|exact Hkeys1|exact Hv2].
Qed.

(* ------------------------------------------------------------------------------------------ *)
(* the live set during a flush *)
Definition LS (cis : list cinfo) (s : mst) (T : place -> Prop) (L : list place) : Prop :=
  (forall p, is_parch p = true -> (In p L <-> aplace cis (archs s) p)) /\
  (forall p, is_parch p = false -> (In p L <-> T p)).

Lemma LS_shape cis s s' T L : (forall p, aplace cis (archs s') p <-> aplace cis (archs s) p) -> LS cis s T L -> LS cis s' T L.
Proof. intros H (A & B). split; [|exact B]. intros p Hp. rewrite H. apply A. exact Hp. Qed.

Lemma LS_archs cis s s' T L : archs s' = archs s -> LS cis s T L -> LS cis s' T L.
Proof. intros E. apply LS_shape. rewrite E. tauto. Qed.

Definition post (cis : list cinfo) (s s' : mst) (T : place -> Prop) (L : list place) : Prop :=
  exists evs L', log s' = rev evs ++ log s /\ lc_run (destroy_pals cis) L evs = Some L' /\ LS cis s' T L'.

Lemma post_same cis s s' T L : log s' = log s -> (forall p, aplace cis (archs s') p <-> aplace cis (archs s) p) -> LS cis s T L -> post cis s s' T L.
Proof. intros E H HL. exists [], L. split; [exact E|]. split; [reflexivity|]. eapply LS_shape; eassumption. Qed.

Lemma post_trans cis s s1 s2 T1 T L : post cis s s1 T1 L ->
  (forall L1, LS cis s1 T1 L1 -> post cis s1 s2 T L1) -> post cis s s2 T L.
Proof.
  intros (e1 & L1 & G1 & R1 & S1) H. destruct (H L1 S1) as (e2 & L2 & G2 & R2 & S2).
  exists (e1 ++ e2), L2. split; [rewrite G2, G1, rev_app_distr, app_assoc; reflexivity|]. split; [rewrite lc_run_app, R1; exact R2|exact S2].
Qed.

Lemma LS_T_ext cis s (T T' : place -> Prop) L : (forall p, is_parch p = false -> (T p <-> T' p)) -> LS cis s T L -> LS cis s T' L.
Proof. intros H (A & B). split; [exact A|]. intros p Hp. rewrite <- (H p Hp). apply B. exact Hp. Qed.

(* ------------------------------------------------------------------------------------------ *)
(* getArchetype *)
Lemma get_arch_ls cis s m s1 ai : deps s = [] -> Forall awf (archs s) -> get_arch s m si_null = Ok (s1, ai) ->
  fr1 s1 = fr1 s /\ log s1 = log s /\ Forall awf (archs s1) /\
  (forall j a', nth_error (archs s) j = Some a' -> nth_error (archs s1) j = Some a') /\
  (exists a, nth_error (archs s1) ai = Some a /\ am_mask a = m) /\
  forall p, aplace cis (archs s1) p <-> aplace cis (archs s) p.
Proof.
  intros Hd Hawf H. destruct (get_arch_awf _ _ _ _ Hd Hawf H) as (F & Hawf1 & Hk & Ha).
  destruct (get_arch_same _ _ _ _ _ H) as (_ & _ & G1 & _).
  split; [exact F|]. split; [exact G1|]. split; [exact Hawf1|]. split; [exact Hk|]. split; [exact Ha|].
  destruct (get_arch_ok _ _ _ _ _ Hd H) as [(-> & _)|(_ & _ & cs & ->)]; [tauto|].
  intros p. simpl. apply aplace_snoc_empty. reflexivity.
Qed.

(* ------------------------------------------------------------------------------------------ *)
(* Archetype::insert with a skip mask: the skipped cells of the new slot stay dead *)
Lemma lc_insert_sound_skip cis al al' ai a a3 h skip L : lc_cis_ok cis ->
  nth_error al ai = Some a -> nth_error al' ai = Some a3 -> (forall j, j <> ai -> nth_error al' j = nth_error al j) ->
  am_mask a3 = am_mask a -> length (am_ents a3) = S (length (am_ents a)) ->
  (forall p, In p L <-> aplace cis al p) ->
  exists L', lc_run (destroy_pals cis) L (if (skip =? am_mask a)%N then [] else insert_events cis ai (length (am_ents a)) h skip (mitems (am_mask a))) = Some L' /\
    forall p, In p L' <-> (aplace cis al' p /\ ~ exists c, p = PArch ai c (length (am_ents a)) /\ mhas skip c = true).
Proof.
  intros Hok Ha Ha3 Hoth Em Ee HL. set (n := length (am_ents a)) in *.
  assert (Hmain : forall L', (forall p, In p L' <-> (In p L \/ exists c, In c (mitems (am_mask a)) /\ tcomp cis c = true /\ mhas skip c = false /\ p = PArch ai c n)) ->
            forall p, In p L' <-> (aplace cis al' p /\ ~ exists c, p = PArch ai c n /\ mhas skip c = true)).
  { intros L' HL' p. rewrite HL'. split.
    - intros [Hp|(c & Hc & Ht & Hs & ->)].
      + apply HL in Hp. destruct p as [ai' c' i'|]; [|contradiction]. destruct Hp as (a0 & Ha0 & Hc' & Hi' & Ht').
        destruct (Nat.eq_dec ai' ai) as [->|Hne].
        * rewrite Ha in Ha0. inversion Ha0; subst a0. split.
          -- exists a3. rewrite Em, Ee. repeat split; try assumption. fold n in Hi'. lia.
          -- intros (c & E & _). inversion E. fold n in Hi'. lia.
        * split; [exists a0; rewrite Hoth by exact Hne; auto|]. intros (c & E & _). inversion E. congruence.
      + split; [exists a3; rewrite Em, Ee; repeat split; try assumption; lia|].
        intros (c0 & E & Hs0). inversion E; subst c0. congruence.
    - intros (Hp & Hno). destruct p as [ai' c' i'|]; [|contradiction]. destruct Hp as (a0 & Ha0 & Hc' & Hi' & Ht').
      destruct (Nat.eq_dec ai' ai) as [->|Hne].
      + rewrite Ha3 in Ha0. inversion Ha0; subst a0. rewrite Em in Hc'. rewrite Ee in Hi'.
        destruct (Nat.eq_dec i' n) as [->|Hni].
        * right. exists c'. split; [exact Hc'|]. split; [exact Ht'|]. split; [|reflexivity].
          destruct (mhas skip c') eqn:E; [|reflexivity]. exfalso. apply Hno. exists c'. auto.
        * left. apply HL. exists a. repeat split; try assumption. fold n. lia.
      + left. apply HL. exists a0. rewrite <- Hoth by exact Hne. auto. }
  destruct (N.eqb_spec skip (am_mask a)) as [Es|Es].
  - exists L. split; [reflexivity|]. apply Hmain. intros p. split; [auto|]. intros [Hp|(c & Hc & _ & Hs & _)]; [exact Hp|].
    apply mitems_in in Hc. rewrite Es in Hs. destruct Hc. congruence.
  - destruct (run_insert cis Hok ai n h skip (mitems (am_mask a)) L (mitems_NoDup _)) as (L' & Hr & HL').
    { intros c Hc Ht Hin. apply HL in Hin. destruct Hin as (a0 & Ha0 & _ & Hlt & _). rewrite Ha in Ha0. inversion Ha0; subst a0. unfold n in Hlt. lia. }
    exists L'. split; [exact Hr|]. apply Hmain. exact HL'.
Qed.

(* ------------------------------------------------------------------------------------------ *)
(* the last loop of applyCommandPack *)
Lemma wr_fold_tr cis tid h ai a idx : forall p st s', cinfos st = cis ->
  fold_res (wr_step tid h ai a idx) p st = Ok s' ->
  tr [ai] (wr_events cis (epoch st * 64 + tid) h ai idx p) st s' /\
  (forall q, aplace cis (archs s') q <-> aplace cis (archs st) q) /\
  (forall c, In c (asg_cids p) -> mhas (am_mask a) c = true).
Proof.
  induction p as [|c0 t IH]; intros st s' Hc H; simpl in H.
  - inversion H; subst s'. split; [apply tr_refl|]. split; [tauto|intros c []].
  - bd H st1 H1.
    assert (Hstep : tr [ai] (wr_one cis (epoch st * 64 + tid) h ai idx c0) st st1 /\
                    (forall q, aplace cis (archs st1) q <-> aplace cis (archs st) q) /\
                    (forall c, In c (asg_cids [c0]) -> mhas (am_mask a) c = true)).
    { destruct c0 as [h0 ha m0 sh0|h0|h0|h0 c|h0 cid n]; simpl in H1;
        try (inversion H1; subst st1; split; [apply tr_refl|]; split; [tauto|intros c' []]).
      bd H1 inf Hinf. apply info_of_ok in Hinf. rewrite Hc in Hinf.
      destruct (cindex (am_mask a) cid) as [ci|] eqn:Eci; [|discriminate].
      bd H1 tl' Htl'. bd H1 v Hv. bd H1 st2 Hw. inversion H1; subst st1; clear H1.
      split; [|split].
      - unfold wr_one, on_info. rewrite Hinf. eapply tr_trans; [|apply tr_if_emit].
        eapply tr_trans_nil_l; [eapply write_cell_tr; exact Hw|apply tr_if_emit].
      - intros q. rewrite <- (write_cell_aplace cis _ _ _ _ _ _ Hw q). destruct (ci_aa inf), (ci_mctor inf && ci_ev inf); reflexivity.
      - intros c [<-|[]]. eapply cindex_some_has. exact Eci. }
    destruct Hstep as (T1 & P1 & M1).
    destruct (IH st1 s') as (T2 & P2 & M2); [rewrite (tr_cis _ _ _ _ T1); exact Hc|exact H|].
    assert (Ee : epoch st1 = epoch st) by (destruct T1 as (_ & E & _); exact E). rewrite Ee in T2.
    split; [|split].
    + unfold wr_events. cbn [flat_map]. eapply tr_trans; [exact T1|exact T2].
    + intros q. rewrite P2. apply P1.
    + intros c Hin. unfold asg_cids in Hin. cbn [flat_map] in Hin. apply in_app_or in Hin. destruct Hin as [Hin|Hin].
      * apply M1. unfold asg_cids. cbn [flat_map]. rewrite app_nil_r. exact Hin.
      * apply M2. exact Hin.
Qed.

(* ------------------------------------------------------------------------------------------ *)
(* Archetype::externalMove on a state with well-formed archetypes (LifecycleHist.LStep_move without the unlocked invariant) *)
Lemma LS_move cis s pai pidx pa ai a_t h skip s2 T L :
  lc_cis_ok cis -> Forall awf (archs s) -> cinfos s = cis ->
  nth_error (archs s) pai = Some pa -> nth_error (archs s) ai = Some a_t ->
  external_move s ai h pai pidx skip = Ok s2 -> LS cis s T L ->
  exists evs L', tr [ai; pai] evs s s2 /\ lc_run (destroy_pals cis) L evs = Some L' /\
    (forall p, is_parch p = true -> (In p L' <-> (aplace cis (archs s2) p /\
        ~ exists c, p = PArch ai c (length (am_ents a_t)) /\ mhas (am_mask pa) c = false /\ mhas skip c = true))) /\
    (forall p, is_parch p = false -> (In p L' <-> T p)) /\
    (exists a2, nth_error (archs s2) ai = Some a2 /\ am_mask a2 = am_mask a_t /\ length (am_ents a2) = S (length (am_ents a_t))) /\
    nth_error (locs s2) (N.to_nat (fst h)) = Some {| l_arch := Some ai; l_idx := length (am_ents a_t) |} /\
    fr2 s2 = fr2 s /\ Forall awf (archs s2).
Proof.
  intros Hok Hawf Hc Hpa Hat Hmv (HLa & HLt).
  assert (Hwt : awf a_t) by (eapply awf_nth; eassumption).
  assert (Hwp : awf pa) by (eapply awf_nth; eassumption).
  destruct (external_move_fr _ _ _ _ _ _ _ Hawf Hmv) as (F2 & Hawf2).
  destruct (external_move_tr _ _ _ _ _ _ _ Hmv) as (a0 & pa0 & last & pent & Hne & Ha0 & Hpa0 & Hsz & Hpent & Tr).
  rewrite Hat in Ha0. inversion Ha0; subst a0. rewrite Hpa in Hpa0. inversion Hpa0; subst pa0. clear Ha0 Hpa0.
  destruct (external_move_ok _ _ _ _ _ _ _ _ _ Hat Hpa (proj2 (proj2 Hwt)) (proj1 (proj2 Hwp)) (proj2 (proj2 Hwp)) Hmv)
    as (_ & a2 & pa' & pent' & l3 & _ & A & _ & Hrm & Hlt & Lc & Hab & He & _).
  destruct (ab3_fields _ _ Hab) as (Em & _).
  destruct (removed_shape _ _ _ _ _ _ _ Hwp Hrm) as (Emp & Eep).
  assert (El : length (am_ents pa) = S last) by (rewrite <- (proj1 (proj2 Hwp)); exact Hsz).
  assert (Hai : ai < length (archs s)) by (apply nth_error_Some; congruence).
  assert (Hpai : pai < length (archs s)) by (apply nth_error_Some; congruence).
  destruct (upd2_nth (archs s) ai pai a2 pa' Hai Hpai Hne) as (N1 & N2 & N3). rewrite <- A in N1, N2, N3.
  rewrite Hc in Tr.
  assert (Ee2 : length (am_ents a2) = S (length (am_ents a_t))) by (rewrite He, app_length; simpl; lia).
  assert (Hpl : pidx <= last) by (assert (pidx < length (am_ents pa)) by (apply nth_error_Some; congruence); lia).
  assert (Hll : length (am_ents pa') = last) by lia.
  destruct (frame_apply (destroy_pals cis) (aplace cis (archs s))
     (fun p => aplace cis (archs s2) p /\ ~ exists c, p = PArch ai c (length (am_ents a_t)) /\ mhas (am_mask pa) c = false /\ mhas skip c = true)
     _ L (extmove_events_ao cis ai (length (am_ents a_t)) pai pidx h skip (am_mask pa) (mitems (am_mask a_t)) pent
            (minter (am_mask pa) (minverse (am_mask a_t))) (mitems (am_mask pa)) last)
     (aplace_parch cis (archs s)) HLa) as (L' & Hr & HA' & HT').
  { intros LA HLA. apply (lc_move_sound cis Hok (archs s) (archs s2) ai pai a_t pa a2 pa' pidx last h skip pent LA Hne Hat Hpa N1 N2 N3 Em Ee2 Emp El Hll Hpl HLA). }
  eexists. exists L'. split; [exact Tr|]. split; [exact Hr|]. split; [exact HA'|]. split; [intros p Hp; rewrite (HT' p Hp); apply HLt; exact Hp|].
  split; [exists a2; auto|]. split; [rewrite Lc; apply nth_error_upd_same; exact Hlt|]. split; [exact F2|exact Hawf2].
Qed.

(* destroyNow of an issued handle, in any lock state *)
Lemma LS_destroy_now cis s hs al rem x k s' T L :
  lc_cis_ok cis -> LInv cis s hs al rem x -> k < length hs -> destroy_now_unlocked s (hnd hs k) = Ok s' ->
  LS cis s T L -> post cis s s' T L.
Proof.
  intros Hok HI Hk Hd HL. pose proof HI as [HG Hawf Hdp Hc Hxd Hxc Hcnt Hsl Hal Hv].
  unfold destroy_now_unlocked in Hd. destruct (is_valid s (hnd hs k)) eqn:Ev.
  - assert (Ha : alive al k) by (apply (valid_l _ _ _ _ _ HG Hk); exact Ev).
    destruct (alive_in _ _ Ha) as (key & Hin).
    destruct (live_l _ _ _ _ _ _ HG Hin) as (_ & ai & idx & a & Hloc & Harch & Hkey & Hent).
    rewrite (nth_res_some _ _ _ Hloc) in Hd. bok Hd. simpl l_arch in Hd. cbv iota in Hd. simpl l_idx in Hd.
    bd Hd s2 Hrm. inversion Hd; subst s'; clear Hd.
    assert (Hwa : awf a) by (eapply awf_nth; eassumption).
    destruct (arch_remove_tr _ _ _ _ _ _ Hrm) as (a' & last & Ha' & Hsz & Tr). rewrite Harch in Ha'. inversion Ha'; subst a'. clear Ha'.
    destruct (arch_remove_ok _ _ _ _ _ _ _ Harch (proj1 (proj2 Hwa)) (proj2 (proj2 Hwa)) Hrm) as (a1 & _ & A2 & Hrmd).
    destruct (removed_shape _ _ _ _ _ _ _ Hwa Hrmd) as (Em & Ee).
    assert (El : length (am_ents a) = S last) by (rewrite <- (proj1 (proj2 Hwa)); exact Hsz).
    rewrite Hc in Tr. destruct HL as (HLa & HLt).
    assert (Hai : ai < length (archs s)) by (apply nth_error_Some; congruence).
    assert (Hil : idx <= last) by (assert (idx < length (am_ents a)) by (apply nth_error_Some; congruence); lia).
    assert (Hll : length (am_ents a1) = last) by lia.
    destruct (frame_apply (destroy_pals cis) (aplace cis (archs s)) (aplace cis (archs s2)) _ L
       (remove_events_ao cis ai idx (br_ent cis a idx (hnd hs k)) (minter (am_mask a) (minverse 0%N)) last (am_mask a) (mitems (am_mask a)))
       (aplace_parch cis (archs s)) HLa) as (L' & Hr & HA' & HT').
    { intros LA HLA. apply (lc_remove_sound cis Hok (archs s) (archs s2) ai a a1 idx last _ _ LA Harch); try assumption.
      - rewrite A2. apply nth_error_upd_same. exact Hai.
      - intros j Hj. rewrite A2. apply nth_error_upd_other. congruence. }
    eexists. exists L'. change (log (release_id s2 (hnd hs k))) with (log s2). split; [exact (tr_log _ _ _ _ Tr)|]. split; [exact Hr|].
    split; [exact HA'|]. intros p Hp. rewrite (HT' p Hp). apply HLt. exact Hp.
  - inversion Hd; subst s'. apply post_same; [reflexivity|tauto|exact HL].
Qed.

Lemma minstall_log s h s2 : minstall s h = Ok s2 -> log s2 = log s /\ deps s2 = deps s /\ cinfos s2 = cinfos s /\ epoch s2 = epoch s.
Proof.
  unfold minstall. intros H. bd H sl Hu. inversion H; subst s2. destruct (Nat.ltb _ _); repeat split.
Qed.

(* ------------------------------------------------------------------------------------------ *)
(* the temporaries of the assign commands of p (tracked types) are alive: they are in T *)
Definition tmps_in (cis : list cinfo) (k : nat) (p : list acmd) (T : place -> Prop) : Prop :=
  forall h c n, In (AAssign h c n) p -> tcomp cis c = true -> T (PTmp k n).

Lemma asg_cids_bound p : Forall asg_ok p -> forall c, In c (asg_cids p) -> c < MASK_BITS.
Proof.
  induction 1 as [|c0 t H0 Ht IH]; intros c Hin; [contradiction|]. unfold asg_cids in Hin. cbn [flat_map] in Hin.
  apply in_app_or in Hin. destruct Hin as [Hin|Hin]; [|apply IH; exact Hin].
  destruct c0; try contradiction. destruct Hin as [<-|[]]. exact H0.
Qed.

(* the insertion / the move left the cells `hole` of slot (ai, idx) dead; the assigned temporaries fill exactly those *)
Lemma fill_holes cis tid h ai a idx p s5 s' T L (hole : nat -> bool) :
  lc_cis_ok cis -> cinfos s5 = cis -> Forall asg_ok p -> NoDup (asg_cids p) ->
  tmps_in cis (epoch s5 * 64 + tid) p T ->
  (exists a5, nth_error (archs s5) ai = Some a5 /\ am_mask a5 = am_mask a /\ idx < length (am_ents a5)) ->
  (forall c, In c (asg_cids p) -> hole c = true) ->
  (forall c, hole c = true -> mhas (am_mask a) c = true -> In c (asg_cids p)) ->
  (forall q, is_parch q = true -> (In q L <-> (aplace cis (archs s5) q /\ ~ exists c, q = PArch ai c idx /\ hole c = true))) ->
  (forall q, is_parch q = false -> (In q L <-> T q)) ->
  fold_res (wr_step tid h ai a idx) p s5 = Ok s' ->
  post cis s5 s' T L.
Proof.
  intros Hok Hc Hasg Hnd Htin (a5 & Ha5 & Em5 & Hidx) Hh1 Hh2 HLa HLt H.
  destruct (wr_fold_tr cis tid h ai a idx p s5 s' Hc H) as (Tr & Pl & Hmask).
  destruct (run_wr cis (epoch s5 * 64 + tid) h ai idx Hok p L Hnd) as (L' & Hr & HL').
  - intros h' c n Hin Ht. apply (HLt (PTmp _ n) eq_refl). eapply Htin; eassumption.
  - intros c Hc' Ht Hin. apply (HLa (PArch ai c idx) eq_refl) in Hin. destruct Hin as (_ & Hno). apply Hno. exists c. split; [reflexivity|apply Hh1; exact Hc'].
  - exists (wr_events cis (epoch s5 * 64 + tid) h ai idx p), L'. split; [exact (tr_log _ _ _ _ Tr)|]. split; [exact Hr|]. split.
    + intros q Hq. rewrite HL', Pl. split.
      * intros [Hin|(c & Hc' & Ht & ->)]; [apply (HLa q Hq) in Hin; tauto|].
        exists a5. split; [exact Ha5|]. split; [|split; [exact Hidx|exact Ht]]. rewrite Em5. apply mitems_in.
        split; [eapply asg_cids_bound; eassumption|apply Hmask; exact Hc'].
      * intros Hpl. destruct q as [ai' c' i'|]; [|discriminate].
        destruct (Nat.eq_dec ai' ai) as [->|Hna]; [destruct (Nat.eq_dec i' idx) as [->|Hni]; [destruct (hole c') eqn:Eh|]|].
        -- right. exists c'. destruct Hpl as (a0 & Ha0 & Hc0 & _ & Ht0). rewrite Ha5 in Ha0. inversion Ha0; subst a0.
           rewrite Em5 in Hc0. apply mitems_in in Hc0. split; [apply Hh2; tauto|auto].
        -- left. apply (HLa _ Hq). split; [exact Hpl|]. intros (c & E & Hc0). inversion E; subst c. congruence.
        -- left. apply (HLa _ Hq). split; [exact Hpl|]. intros (c & E & _). inversion E. congruence.
        -- left. apply (HLa _ Hq). split; [exact Hpl|]. intros (c & E & _). inversion E. congruence.
    + intros q Hq. rewrite HL'. rewrite (HLt q Hq). split; [|auto]. intros [Hin|(c & _ & _ & ->)]; [exact Hin|discriminate].
Qed.

(* ---- a pack that begins with the creation of its entity ---- *)
Lemma P_pack_create cis tid tl s hs x k m ha sh h t xt rem' s' T L :
  FInv cis s hs x (SCreate k m :: rem') -> cis_ok cis -> lc_cis_ok cis -> nth_error (tmps s) tid = Some tl ->
  k < length hs -> hnd hs k = h -> sh = si_null -> ha = negb (m =? 0)%N ->
  Forall2 (crel cis hs tl) t xt -> Forall (fun c => cmd_handle c = h) t -> Forall (fun c => is_create c = false) t ->
  x_viol (fold_left x_cmd xt (x_cmd x (XCreate k m []))) = x_viol x ->
  ra_ok [] t = true -> tmps_in cis (epoch s * 64 + tid) t T ->
  apply_pack tid s (ACreate h ha m sh :: t) = Ok s' ->
  LS cis s T L -> post cis s s' T L.
Proof.
  intros [(al & HI) Hcr Hmr Hids] Hok Hlok Htl Hk Eh -> Eha HR Hall Hnc Hviol Hra Htin H HL.
  rewrite (x_cmd_create x k m []) in Hviol.
  pose proof HI as [HG Hawf Hdp Hc Hxd Hxc Hcnt Hsl Hal Hv].
  (* the specification: the entity exists after the creation command *)
  destruct (x_create_eq x k m [] Hxd) as (Fx & Ex). rewrite Hxc in Ex.
  remember {| e_k := k; e_comps := map (fun c => (c, default_cell cis c)) (mitems m); e_shared := [] |} as e0 eqn:Ee0 in *.
  set (x1 := x_create x k m []) in *.
  assert (Hf1 : find_ent x1 k = Some e0).
  { rewrite find_ent_findk, Ex, findk_put. rewrite Ee0 at 1. rewrite e_k_mk, Nat.eqb_refl. reflexivity. }
  destruct (xfr_fields _ _ Fx) as (X1 & X2 & X3 & X4 & X5).
  assert (Hkeys0 : map fst (e_comps e0) = mitems m) by (rewrite Ee0, e_comps_mk; apply map_fst_pair).
  assert (Hviol1 : x_viol (fold_left x_cmd xt x1) = x_viol x1) by (unfold x1 at 2; rewrite x_viol_create; exact Hviol).
  assert (Hfresh : pack_fresh m t = true).
  { apply (pack_fresh_ok cis hs tl h k (g_hs_nodup HG) Hk Eh t xt m x1 e0 HR Hall Hnc); [congruence|congruence|exact Hf1|exact Hkeys0|exact Hviol1]. }
  assert (Honce : pack_once m t = true) by (apply (fresh_ra_once t m [] m Hfresh Hra); auto).
  (* the model *)
  rewrite apply_pack_create_eq in H. bd H s2 Hinst.
  assert (Eex : (if ha then extra_components s m else Ok 0%N) = Ok 0%N) by (destruct ha; [apply extra_nil; exact Hdp|reflexivity]).
  rewrite Eex, bind_Ok in H.
  assert (Em0 : (if ha then munion m 0%N else 0%N) = m).
  { destruct ha; [apply munion_zero|]. symmetry in Eha. apply negb_false_iff in Eha. apply N.eqb_eq in Eha. congruence. }
  assert (Esh0 : (if ha then si_null else si_null) = si_null) by (destruct ha; reflexivity).
  rewrite Em0, Esh0 in H. bd H r Hloop. destruct r as (((s3, final), assigned), fin).
  assert (Hlen : length (locs s) = length (slots s)).
  { pose proof (g_len HG) as E. simpl in E. rewrite !map_length in E. exact E. }
  destruct (minstall_facts s h s2 Hlen Hinst) as (_ & _ & _ & _ & _ & _ & _ & _ & _ & Ia2 & If2 & _).
  destruct (minstall_log _ _ _ Hinst) as (G2 & D2 & C2 & P2).
  destruct (fr4_fields _ _ If2) as (_ & _ & _ & _ & _ & _ & T2 & _).
  destruct fin.
  - destruct (pack_loop_fin _ _ _ _ _ _ _ _ _ Hloop) as (m' & ->). inversion H; subst s'. apply post_same; [exact G2| |exact HL].
    change (archs (release_id (set_marked s2 m') h)) with (archs s2). rewrite Ia2. tauto.
  - destruct (pack_loop_nf _ _ _ _ _ _ _ _ _ Hloop) as ((m' & ->) & Hdn & Hfin & Has1 & Has2).
    destruct (pack_once_spec t m Hdn Honce) as (Hnd & _).
    bd H ra Hga. destruct ra as (s4, ai). cbv beta iota in H. bd H s5 Hins.
    assert (Hawf3 : Forall awf (archs (set_marked s2 m'))) by (simpl; rewrite Ia2; exact Hawf).
    destruct (get_arch_ls cis (set_marked s2 m') final s4 ai) as (F4 & G4 & Hawf4 & _ & (a & Ha4 & Hma) & P4); [simpl; congruence|exact Hawf3|exact Hga|].
    assert (C4 : cinfos s4 = cis).
    { destruct (fr3_ctl _ _ (fr2_fr3 _ _ (fr1_fr2 _ _ F4))) as (_ & _ & E & _). rewrite E. simpl. congruence. }
    assert (E4 : epoch s4 = epoch s).
    { destruct (fr4_fields _ _ (fr1_fr4 _ _ F4)) as (_ & _ & _ & _ & _ & _ & _ & E & _). rewrite E. simpl. exact P2. }
    assert (HL4 : LS cis s4 T L).
    { apply (LS_shape cis s); [|exact HL]. intros p. rewrite P4. simpl. rewrite Ia2. tauto. }
    destruct (awf_nth _ _ _ Hawf4 Ha4) as (Wsh & Wsz & Wcl).
    destruct (arch_insert_tr _ _ _ _ _ Hins) as (a' & Ha' & Tr). rewrite Ha4 in Ha'. inversion Ha'; subst a'. clear Ha'. rewrite C4 in Tr.
    destruct (arch_insert_ok _ _ _ _ _ _ Ha4 Wcl Hins) as (a3 & F5 & A5 & Hlt5 & L5 & Hab & He & _).
    destruct (ab3_fields _ _ Hab) as (Em3 & _).
    assert (Hai : ai < length (archs s4)) by (apply nth_error_Some; congruence).
    assert (Ha5 : nth_error (archs s5) ai = Some a3) by (rewrite A5; apply nth_error_upd_same; exact Hai).
    assert (Hloc5 : nth_error (locs s5) (N.to_nat (fst h)) = Some {| l_arch := Some ai; l_idx := length (am_ents a) |}).
    { rewrite L5. apply nth_error_upd_same. exact Hlt5. }
    rewrite (nth_res_some _ _ _ Hloc5), bind_Ok, (nth_res_some _ _ _ Ha5), bind_Ok in H. simpl l_idx in H.
    assert (C5 : cinfos s5 = cis) by (rewrite (tr_cis _ _ _ _ Tr); exact C4).
    assert (E5 : epoch s5 = epoch s) by (destruct Tr as (_ & E & _); congruence).
    destruct HL4 as (HLa & HLt).
    (* the insertion *)
    destruct (frame_apply (destroy_pals cis) (aplace cis (archs s4))
       (fun p => aplace cis (archs s5) p /\ ~ exists c, p = PArch ai c (length (am_ents a)) /\ mhas assigned c = true)
       (if (assigned =? am_mask a)%N then [] else insert_events cis ai (length (am_ents a)) h assigned (mitems (am_mask a))) L) as (L2 & Hr2 & HA2 & HT2).
    { destruct (assigned =? am_mask a)%N; [constructor|apply insert_events_ao]. }
    { apply aplace_parch. }
    { exact HLa. }
    { intros LA HLA. apply (lc_insert_sound_skip cis (archs s4) (archs s5) ai a a3 h assigned LA Hlok Ha4 Ha5); try assumption.
      - intros j Hj. rewrite A5. apply nth_error_upd_other. congruence.
      - rewrite He, app_length. simpl. lia. }
    destruct (fill_holes cis tid h ai a3 (length (am_ents a)) (ACreate h ha m si_null :: t) s5 s' T L2 (mhas assigned) Hlok C5) as (evs3 & L3 & G3 & Hr3 & HL3).
    { constructor; [exact I|eapply crel_asg_ok; exact HR]. }
    { exact Hnd. }
    { rewrite E5. intros h' c n [E|Hin] Ht; [discriminate|]. eapply Htin; eassumption. }
    { exists a3. split; [exact Ha5|]. split; [reflexivity|]. rewrite He, app_length. simpl. lia. }
    { intros c Hin. apply Has1. exact Hin. }
    { intros c Hc1 _. destruct (Has2 c Hc1) as [E|E]; [rewrite mhas_zero in E; discriminate|exact E]. }
    { exact HA2. }
    { intros q Hq. rewrite (HT2 q Hq). apply HLt. exact Hq. }
    { exact H. }
    eexists. exists L3. split; [rewrite G3, (tr_log _ _ _ _ Tr), G4; simpl; rewrite G2, app_assoc, <- rev_app_distr; reflexivity|].
    split; [rewrite lc_run_app, Hr2; exact Hr3|exact HL3].
Qed.

Lemma wr_events_nil cis k h ai idx : forall p, asg_cids p = [] -> wr_events cis k h ai idx p = [].
Proof.
  induction p as [|c0 t IH]; intros E; [reflexivity|]. unfold wr_events. cbn [flat_map]. fold (wr_events cis k h ai idx t).
  destruct c0; try (simpl in *; apply IH; exact E). discriminate.
Qed.

(* ---- a pack on an entity that exists already (or a handle that is not alive any more) ---- *)
Lemma P_pack_other cis tid tl s hs x k h c0 t xp rem' s' T L :
  FInv cis s hs x rem' -> lc_cis_ok cis -> nth_error (tmps s) tid = Some tl ->
  k < length hs -> hnd hs k = h ->
  Forall2 (crel cis hs tl) (c0 :: t) xp -> Forall (fun c => cmd_handle c = h) (c0 :: t) -> Forall (fun c => is_create c = false) (c0 :: t) ->
  x_viol (fold_left x_cmd xp x) = x_viol x ->
  ra_ok [] (c0 :: t) = true -> tmps_in cis (epoch s * 64 + tid) (c0 :: t) T ->
  apply_pack tid s (c0 :: t) = Ok s' ->
  LS cis s T L -> post cis s s' T L.
Proof.
  intros [(al & HI) Hcr Hmr Hids] Hlok Htl Hk Eh HR Hall Hnc Hviol Hra Htin H HL.
  pose proof HI as [HG Hawf Hdp Hc Hxd Hxc Hcnt Hsl Hal Hv].
  assert (Hc0 : cmd_handle c0 = h) by (inversion Hall; assumption).
  assert (Hc0c : is_create c0 = false) by (inversion Hnc; assumption).
  rewrite (apply_pack_other_eq _ _ _ _ Hc0c), Hc0 in H.
  destruct (is_valid s h) eqn:Ev.
  2:{ inversion H; subst s'. apply post_same; [reflexivity|tauto|exact HL]. }
  rewrite <- Eh in Ev. destruct (valid_find_l _ _ _ _ _ _ _ HI Ev) as (_ & Ha & _). destruct (alive_in _ _ Ha) as (key & Hin).
  destruct (live_vmatch_l _ _ _ _ _ _ _ _ HI Hin) as (_ & e0 & pai & pidx & pa & Hfe & Hloc & Hpa & Hkey & Hent & Hvm).
  rewrite Eh in Hloc, Hent.
  rewrite (loc_arch_some _ _ _ _ Hloc), bind_Ok in H. simpl fst in H. rewrite (nth_res_some _ _ _ Hpa), bind_Ok in H.
  bd H r Hloop. destruct r as (((s3, final), assigned), fin).
  destruct Hvm as (Hkeys0 & _ & _).
  assert (Hfresh : pack_fresh (am_mask pa) (c0 :: t) = true).
  { apply (pack_fresh_ok cis hs tl h k (g_hs_nodup HG) Hk Eh (c0 :: t) xp (am_mask pa) x e0 HR Hall Hnc Hxd Hxc Hfe Hkeys0 Hviol). }
  assert (Honce : pack_once (am_mask pa) (c0 :: t) = true) by (apply (fresh_ra_once (c0 :: t) (am_mask pa) [] (am_mask pa) Hfresh Hra); auto).
  destruct fin.
  - destruct (pack_loop_fin _ _ _ _ _ _ _ _ _ Hloop) as (m' & Hd). inversion H; subst s3; clear H. rewrite <- Eh in Hd.
    assert (HIm : LInv cis (set_marked s m') hs al rem' x) by (eapply LInv_frame; [| | | | | | |exact HI]; reflexivity).
    apply (LS_destroy_now cis (set_marked s m') hs al rem' x k s' T L Hlok HIm Hk Hd). apply (LS_archs cis s); [reflexivity|exact HL].
  - destruct (pack_loop_nf _ _ _ _ _ _ _ _ _ Hloop) as ((m' & ->) & Hdn & Hfin & Has1 & Has2).
    destruct (pack_once_spec (c0 :: t) (am_mask pa) Hdn Honce) as (Hnd & Hnew).
    destruct (awf_nth _ _ _ Hawf Hpa) as (Wsh & _). rewrite Wsh in H.
    bd H ra Hga. destruct ra as (s4, ai). cbv beta iota in H. bd H s5 Hmv.
    destruct (get_arch_ls cis (set_marked s m') final s4 ai) as (F4 & G4 & Hawf4 & Hkeep & (a_t & Hat & Hmt) & P4); [exact Hdp|exact Hawf|exact Hga|].
    assert (C4 : cinfos s4 = cis).
    { destruct (fr3_ctl _ _ (fr2_fr3 _ _ (fr1_fr2 _ _ F4))) as (_ & _ & E & _). rewrite E. exact Hc. }
    assert (E4 : epoch s4 = epoch s).
    { destruct (fr4_fields _ _ (fr1_fr4 _ _ F4)) as (_ & _ & _ & _ & _ & _ & _ & E & _). rewrite E. reflexivity. }
    assert (HL4 : LS cis s4 T L) by (apply (LS_shape cis s); [exact P4|exact HL]).
    assert (Hpa4 : nth_error (archs s4) pai = Some pa) by (apply Hkeep; exact Hpa).
    assert (Hloc4 : nth_error (locs s4) (N.to_nat (fst h)) = Some {| l_arch := Some pai; l_idx := pidx |}) by (rewrite (fr1_locs _ _ F4); exact Hloc).
    assert (Hasg : Forall asg_ok (c0 :: t)) by (eapply crel_asg_ok; exact HR).
    destruct (N.eqb_spec (am_mask pa) final) as [Emf|Emf]; simpl negb in Hmv; cbv iota in Hmv.
    + (* the component set is unchanged: then the pack assigns nothing *)
      inversion Hmv; subst s5; clear Hmv.
      rewrite (nth_res_some _ _ _ Hloc4), bind_Ok, (nth_res_some _ _ _ Hat), bind_Ok in H. simpl l_idx in H.
      destruct (wr_fold_tr cis tid h ai a_t pidx (c0 :: t) s4 s' C4 H) as (Tr & Pl & Hmask).
      assert (Enil : asg_cids (c0 :: t) = []).
      { destruct (asg_cids (c0 :: t)) as [|c l] eqn:E; [reflexivity|]. exfalso.
        assert (H1 : mhas (am_mask a_t) c = true) by (apply Hmask; left; reflexivity).
        assert (H2 : mhas (am_mask pa) c = false) by (apply Hnew; left; reflexivity). congruence. }
      rewrite (wr_events_nil _ _ _ _ _ _ Enil) in Tr.
      apply post_same; [rewrite (tr_log _ _ _ _ Tr), G4; reflexivity| |exact HL]. intros p. rewrite Pl. apply P4.
    + (* the entity moves to the archetype of the final component set *)
      rewrite (loc_arch_some _ _ _ _ Hloc4), bind_Ok in Hmv. simpl fst in Hmv. simpl snd in Hmv.
      destruct (Nat.eqb_spec pai ai) as [<-|Hnai].
      { exfalso. rewrite Hpa4 in Hat. inversion Hat; subst a_t. congruence. }
      destruct (LS_move cis s4 pai pidx pa ai a_t h final s5 T L Hlok Hawf4 C4 Hpa4 Hat Hmv HL4)
        as (evs2 & L2 & Tr & Hr2 & HA2 & HT2 & (a2 & Ha2 & Em2 & Ee2) & Hloc5 & F5 & Hawf5).
      rewrite (nth_res_some _ _ _ Hloc5), bind_Ok, (nth_res_some _ _ _ Ha2), bind_Ok in H. simpl l_idx in H.
      assert (C5 : cinfos s5 = cis) by (rewrite (tr_cis _ _ _ _ Tr); exact C4).
      assert (E5 : epoch s5 = epoch s) by (destruct Tr as (_ & E & _); congruence).
      destruct (wr_fold_tr cis tid h ai a2 (length (am_ents a_t)) (c0 :: t) s5 s' C5 H) as (_ & _ & Hmask).
      destruct (fill_holes cis tid h ai a2 (length (am_ents a_t)) (c0 :: t) s5 s' T L2
                  (fun c => negb (mhas (am_mask pa) c) && mhas final c) Hlok C5 Hasg Hnd) as (evs3 & L3 & G3 & Hr3 & HL3).
      { rewrite E5. exact Htin. }
      { exists a2. split; [exact Ha2|]. split; [reflexivity|lia]. }
      { intros c Hci. rewrite (Hnew c Hci). simpl. rewrite <- Hmt, <- Em2. apply Hmask. exact Hci. }
      { intros c Hh _. apply andb_true_iff in Hh. destruct Hh as (H1 & H2). apply negb_true_iff in H1.
        destruct (Hfin c H2) as [E|E]; [congruence|exact E]. }
      { intros q Hq. rewrite (HA2 q Hq). split; intros (Hp & Hno); (split; [exact Hp|]); intros (c & E & Hh); apply Hno; exists c; (split; [exact E|]).
        - apply andb_true_iff in Hh. destruct Hh as (H1 & H2). apply negb_true_iff in H1. auto.
        - destruct Hh as (H1 & H2). rewrite H1, H2. reflexivity. }
      { exact HT2. }
      { exact H. }
      eexists. exists L3. split; [rewrite G3, (tr_log _ _ _ _ Tr), G4; simpl; rewrite app_assoc, <- rev_app_distr; reflexivity|].
      split; [rewrite lc_run_app, Hr2; exact Hr3|exact HL3].
Qed.

(* ---- one pack ---- *)
Lemma P_pack cis tid tl s hs x h p xp rem' s' T L :
  FInv cis s hs x (xrem xp ++ rem') -> cis_ok cis -> lc_cis_ok cis -> nth_error (tmps s) tid = Some tl ->
  p <> [] -> allh h p -> brel cis hs tl p xp -> mcf p ->
  x_viol (fold_left x_cmd xp x) = x_viol x ->
  pack_ra p = true -> tmps_in cis (epoch s * 64 + tid) p T ->
  apply_pack tid s p = Ok s' ->
  LS cis s T L -> post cis s s' T L.
Proof.
  intros HF Hok Hlok Htl Hne Hall HB Hcf Hviol Hra0 Htin H HL. destruct p as [|c0 t]; [congruence|].
  pose proof HF as [(al & HI) _ _ _]. pose proof (li_G _ _ _ _ _ _ HI) as HG.
  destruct (handle_null_dec h) as [->|Hnn].
  - assert (Hc0 : is_create c0 = false).
    { destruct c0 as [h' ha m sh|h'|h'|h' c|h' c n]; try reflexivity. exfalso.
      assert (Eh0 : cmd_handle (ACreate h' ha m sh) = null_handle) by (inversion Hall; assumption).
      inversion HB as [|c' b' xb' Hn Hc Hb|c' xc b' xb' Hc Hb]; subst; [discriminate|].
      destruct (crel_key _ _ _ _ _ Hc) as (Hk & E & _).
      apply (hnd_not_null _ _ _ _ _ HG Hk). rewrite E. exact Eh0. }
    assert (Eh0 : cmd_handle c0 = null_handle) by (inversion Hall; assumption).
    rewrite (apply_pack_other_eq _ _ _ _ Hc0), Eh0, is_valid_null_m in H. inversion H; subst s'. apply post_same; [reflexivity|tauto|exact HL].
  - pose proof (brel_issued cis hs tl h Hnn _ _ Hall HB) as HR.
    inversion HR as [|c' xc0 t' xt Hc0 HRt]; subst c' t' xp.
    destruct (crel_key _ _ _ _ _ Hc0) as (Hk & Eh & Ecr).
    assert (Eh0 : cmd_handle c0 = h) by (inversion Hall; assumption). rewrite Eh0 in Eh.
    assert (Hra : ra_ok [] (c0 :: t) = true).
    { unfold pack_ra in Hra0. rewrite Eh0 in Hra0. unfold is_null in Hra0.
      rewrite (proj2 (ManagerDeferred.handle_eqb_neq h null_handle) Hnn) in Hra0. exact Hra0. }
    pose proof (mcf_tail _ _ _ Hcf Hall) as Hnct.
    assert (Hallt : allh h t) by (inversion Hall; assumption).
    pose proof (crel_on cis hs tl h (xkey xc0) (g_hs_nodup HG) Hk Eh _ _ HRt Hallt Hnct) as Hont.
    assert (Ext : xrem xt = []).
    { apply xrem_nocreate. eapply Forall_impl; [|exact Hont]. simpl. intros a (A & _). exact A. }
    assert (Hother : is_create c0 = false -> post cis s s' T L).
    { intros Hcc. assert (Hnc : Forall (fun c => is_create c = false) (c0 :: t)) by (constructor; [exact Hcc|exact Hnct]).
      assert (Exp : xrem (xc0 :: xt) = []).
      { apply xrem_nocreate. constructor; [congruence|]. eapply Forall_impl; [|exact Hont]. simpl. intros a (A & _). exact A. }
      rewrite Exp in HF. simpl app in HF.
      apply (P_pack_other cis tid tl s hs x (xkey xc0) h c0 t _ rem' s' T L HF Hlok Htl Hk Eh HR Hall Hnc Hviol Hra Htin H HL). }
    destruct c0 as [h' ha m sh|h'|h'|h' c|h' c n]; try (apply Hother; reflexivity).
    destruct xc0 as [k m0 sh0|k|k|k c1 v1|k c1]; simpl in Hc0; try contradiction.
    destruct Hc0 as (_ & _ & -> & -> & -> & Eha). simpl in Eh0. subst h'. simpl xkey in *.
    rewrite fold_left_cons in Hviol. rewrite xrem_create, Ext in HF. rewrite <- app_comm_cons, app_nil_l in HF.
    apply (P_pack_create cis tid tl s hs x k m ha si_null h t xt rem' s' T L HF Hok Hlok Htl Hk Eh eq_refl Eha HRt Hallt Hnct Hviol); [exact Hra| |exact H|exact HL].
    intros h' c n Hin Ht. apply (Htin h' c n); [right; exact Hin|exact Ht].
Qed.

(* ---- the packs of one buffer, in log order ---- *)
Lemma P_packs cis tid tl hs ep T : forall ps s x xb rem' s' L,
  Forall (fun p => p <> [] /\ exists h, allh h p) ps -> mcf (concat ps) -> brel cis hs tl (concat ps) xb ->
  cis_ok cis -> lc_cis_ok cis -> within (length hs) -> nth_error (tmps s) tid = Some tl ->
  FInv cis s hs x (xrem xb ++ rem') -> x_viol (fold_left x_cmd xb x) = x_viol x ->
  forallb pack_ra ps = true -> epoch s = ep -> tmps_in cis (ep * 64 + tid) (concat ps) T ->
  fold_res (apply_pack tid) ps s = Ok s' ->
  LS cis s T L -> post cis s s' T L.
Proof.
  induction ps as [|p ps IH]; intros s x xb rem' s' L Hu Hcf HB Hok Hlok Hb Htl HF Hviol Hra Hep Htin H HL.
  - simpl in H. inversion H; subst s'. apply post_same; [reflexivity|tauto|exact HL].
  - simpl in H. bd H s1 Hp. inversion Hu as [|p' ps' (Hne & h & Hall) Hu']; subst p' ps'. simpl in Hcf, HB, Hra, Htin.
    apply andb_true_iff in Hra. destruct Hra as (Hra1 & Hra2).
    destruct (brel_app_inv _ _ _ _ _ _ HB) as (xp & xr & -> & HBp & HBr).
    rewrite xrem_app, <- app_assoc in HF. destruct (viol_app _ _ _ Hviol) as (V1 & V2).
    destruct (F_pack cis tid tl s hs x h p xp (xrem xr ++ rem') s1 HF Hok Hb Htl Hne Hall HBp (mcf_app_l _ _ Hcf) V1 Hp) as (HF1 & F1).
    destruct (fr4_fields _ _ F1) as (_ & _ & _ & _ & _ & _ & T1 & E1 & _).
    apply (post_trans cis s s1 s' T T L).
    + apply (P_pack cis tid tl s hs x h p xp (xrem xr ++ rem') s1 T L HF Hok Hlok Htl Hne Hall HBp (mcf_app_l _ _ Hcf) V1 Hra1); [|exact Hp|exact HL].
      rewrite Hep. intros h' c n Hin Ht. apply (Htin h' c n); [apply in_or_app; left; exact Hin|exact Ht].
    + intros L1 HL1. apply (IH s1 (fold_left x_cmd xp x) xr rem' s' L1 Hu' (mcf_app_r _ _ Hcf) HBr Hok Hlok Hb); try assumption; [congruence|congruence|].
      intros h' c n Hin Ht. apply (Htin h' c n); [apply in_or_app; right; exact Hin|exact Ht].
Qed.

Lemma aplace_nth_ext cis al al' : (forall i, nth_error al' i = nth_error al i) -> forall p, aplace cis al' p <-> aplace cis al p.
Proof. intros H p. destruct p as [ai c i|]; simpl; [|tauto]. rewrite H. tauto. Qed.

(* the parked temporaries (of tracked types) of buffer b of thread tid *)
Definition buf_tmps (cis : list cinfo) (k : nat) (b : list acmd) (p : place) : Prop :=
  exists h cid n, In (AAssign h cid n) b /\ tcomp cis cid = true /\ p = PTmp k n.

(* ---- applyStorage: the packs, then the destructor pass over the buffer ---- *)
Lemma P_storage cis tid tl hs b s x xb rem' s' (T : place -> Prop) L :
  mcf b -> brel cis hs tl b xb -> cis_ok cis -> lc_cis_ok cis -> within (length hs) -> nth_error (tmps s) tid = Some tl ->
  FInv cis s hs x (xrem xb ++ rem') -> x_viol (fold_left x_cmd xb x) = x_viol x ->
  forallb pack_ra (split_packs b []) = true -> NoDup (assign_nums b) ->
  (forall p, buf_tmps cis (epoch s * 64 + tid) b p -> T p) ->
  apply_storage s (tid, b) = Ok s' ->
  LS cis s T L -> post cis s s' (fun p => T p /\ ~ buf_tmps cis (epoch s * 64 + tid) b p) L.
Proof.
  intros Hcf HB Hok Hlok Hb Htl HF Hviol Hra Hnd HT H HL. unfold apply_storage in H. bd H s1 Hp.
  destruct (ManagerDeferred.split_packs_correct b) as (Ec & Hu & _).
  assert (Hu' : Forall (fun p => p <> [] /\ exists h, allh h p) (split_packs b [])).
  { eapply Forall_impl; [|exact Hu]. simpl. intros p (Hne & Hun). split; [exact Hne|apply uniform_allh; assumption]. }
  pose proof Hcf as Hcf'. pose proof HB as HB'. rewrite <- Ec in Hcf', HB'.
  destruct (F_packs cis tid tl hs _ s x xb rem' s1 Hu' Hcf' HB' Hok Hb Htl HF Hviol Hp) as (_ & F1).
  destruct (P_packs cis tid tl hs (epoch s) T _ s x xb rem' s1 L Hu' Hcf' HB' Hok Hlok Hb Htl HF Hviol Hra eq_refl) as (evs1 & L1 & G1 & R1 & (HA1 & HT1)); [|exact Hp|exact HL|].
  { rewrite Ec. intros h c n Hin Ht. apply HT. exists h, c, n. auto. }
  destruct (fr4_fields _ _ F1) as (_ & _ & C1 & _ & _ & _ & _ & E1 & _).
  apply tmp_pass_tr in H. rewrite C1, E1 in H.
  assert (Hc : cinfos s = cis) by (destruct HF as [(al & HI) _ _ _]; exact (li_cis _ _ _ _ _ _ HI)). rewrite Hc in H.
  destruct (run_tmp_dtor_buf cis (epoch s * 64 + tid) Hlok b L1 Hnd) as (L2 & R2 & HL2).
  { intros h cid n Hin Ht. apply (HT1 (PTmp _ n) eq_refl). apply HT. exists h, cid, n. auto. }
  exists (evs1 ++ tmp_dtor_events cis (epoch s * 64 + tid) b), L2.
  split; [rewrite (tr_log _ _ _ _ H), G1, rev_app_distr, app_assoc; reflexivity|]. split; [rewrite lc_run_app, R1; exact R2|].
  assert (Ea : forall i, nth_error (archs s') i = nth_error (archs s1) i) by (intros i; destruct H as (_ & _ & _ & Hfr & _); apply Hfr; intros []).
  split.
  - intros p Hpp. rewrite HL2, (HA1 p Hpp), (aplace_nth_ext cis _ _ Ea p). split; [tauto|]. intros Hpl. split; [exact Hpl|].
    intros (h & cid & n & _ & _ & E). subst p. discriminate.
  - intros p Hpp. rewrite HL2, (HT1 p Hpp). unfold buf_tmps. tauto.
Qed.

(* ---- all buffers, in thread order ---- *)
(* the parked temporaries of the buffers bs, which are the buffers of threads n, n+1, ... *)
Definition TB (cis : list cinfo) (ep : nat) (bs : list (list acmd)) (n : nat) (p : place) : Prop :=
  exists j b, nth_error bs j = Some b /\ buf_tmps cis (ep * 64 + (n + j)) b p.

Lemma P_buffers cis hs ep : forall bs tls xbs n s x s' L,
  F3 (brel cis hs) tls bs xbs -> Forall mcf bs ->
  (forall j tl, nth_error tls j = Some tl -> nth_error (tmps s) (n + j) = Some tl) ->
  cis_ok cis -> lc_cis_ok cis -> within (length hs) ->
  FInv cis s hs x (xrem (concat xbs)) -> x_viol (fold_left (fun st b => fold_left x_cmd b st) xbs x) = x_viol x ->
  Forall (fun b => forallb pack_ra (split_packs b []) = true /\ NoDup (assign_nums b)) bs ->
  epoch s = ep ->
  fold_res apply_storage (combine (seq n (length bs)) bs) s = Ok s' ->
  LS cis s (TB cis ep bs n) L -> post cis s s' (fun _ => False) L.
Proof.
  induction bs as [|b bs IH]; intros tls xbs n s x s' L H3 Hcf Ht Hok Hlok Hb HF Hviol Hra Hep H HL.
  - simpl in H. inversion H; subst s'. apply post_same; [reflexivity|tauto|].
    eapply LS_T_ext; [|exact HL]. intros p _. split; [intros (j & b & Hj & _); destruct j; discriminate|intros []].
  - inversion H3 as [|tl b' xb tls' bs' xbs' HB H3']; subst. inversion Hcf as [|? ? Hcfb Hcfr]; subst.
    inversion Hra as [|? ? (Hra1 & Hnd1) Hra2]; subst.
    cbn [length seq combine fold_res] in H. bd H s1 Hst. cbn [fold_left concat] in HF, Hviol. rewrite xrem_app in HF.
    assert (V : x_viol (fold_left x_cmd xb x) = x_viol x /\
                x_viol (fold_left (fun st b => fold_left x_cmd b st) xbs' (fold_left x_cmd xb x)) = x_viol (fold_left x_cmd xb x)).
    { pose proof (x_viol_fold_le xb x). pose proof (x_viol_bufs_le xbs' (fold_left x_cmd xb x)). lia. }
    destruct V as (V1 & V2).
    assert (Htl : nth_error (tmps s) n = Some tl) by (rewrite <- (Nat.add_0_r n); apply Ht; reflexivity).
    destruct (F_storage cis n tl hs b s x xb _ s1 Hcfb HB Hok Hb Htl HF V1 Hst) as (HF1 & F1).
    destruct (fr4_fields _ _ F1) as (_ & _ & _ & _ & _ & _ & T1 & E1 & _).
    eapply post_trans.
    + apply (P_storage cis n tl hs b s x xb _ s1 (TB cis (epoch s) (b :: bs) n) L Hcfb HB Hok Hlok Hb Htl HF V1 Hra1 Hnd1); [|exact Hst|exact HL].
      intros p Hp. exists 0, b. split; [reflexivity|]. rewrite Nat.add_0_r. exact Hp.
    + intros L1 HL1. apply (IH tls' xbs' (S n) s1 (fold_left x_cmd xb x) s' L1 H3' Hcfr); try assumption.
      * intros j tl' Hj. rewrite T1. replace (S n + j) with (n + S j) by lia. apply Ht. exact Hj.
      * eapply LS_T_ext; [|exact HL1]. intros p _. split.
        -- intros ((j & b0 & Hj & Hp) & Hno). destruct j as [|j]; [simpl in Hj; inversion Hj; subst b0; rewrite Nat.add_0_r in Hp; contradiction|].
           exists j, b0. split; [exact Hj|]. replace (S n + j) with (n + S j) by lia. exact Hp.
        -- intros (j & b0 & Hj & Hp). split; [exists (S j), b0; split; [exact Hj|]; replace (n + S j) with (S n + j) by lia; exact Hp|].
           intros (h1 & c1 & n1 & _ & _ & E). destruct Hp as (h2 & c2 & n2 & _ & _ & E2). rewrite E2 in E. inversion E. lia.
Qed.

(* ---- the flush ---- *)
Definition packs_ok (s : mst) : bool := forallb (fun b => forallb pack_ra (split_packs b [])) (bufs s).

Definition parked (cis : list cinfo) (s : mst) (p : place) : Prop := exists k n, p = PTmp k n /\ tmp_live cis s k n.

Theorem P_flush cis s hs x s' L :
  LR cis s hs x -> cis_ok cis -> lc_cis_ok cis -> within (length hs) -> x_viol (x_flush (xw_lock x 0)) = x_viol x ->
  tmps_wf s -> packs_ok s = true ->
  flush (set_lock s 0) = Ok s' ->
  LS cis s (parked cis s) L -> post cis s s' (fun _ => False) L.
Proof.
  intros HR Hok Hlok Hb Hviol Hwf Hpk H HL. pose proof HR as [(al & HI) Hlk Hn H3 Hux Hum Hcr Hmr He Hcf].
  pose proof (LR_FInv _ _ _ _ HR) as HF.
  unfold flush in H. bd H s1 Hfold. inversion H; subst s'; clear H.
  change (bufs (set_lock s 0)) with (bufs s) in Hfold.
  unfold x_flush in Hviol. change (x_bufs (xw_lock x 0)) with (x_bufs x) in Hviol.
  assert (Hra : Forall (fun b => forallb pack_ra (split_packs b []) = true /\ NoDup (assign_nums b)) (bufs s)).
  { apply Forall_forall. intros b Hin. split; [exact (proj1 (forallb_forall _ _) Hpk b Hin)|].
    apply In_nth_error in Hin. destruct Hin as (tid & Hb'). eapply tmps_wf_nodup; eassumption. }
  destruct (P_buffers cis hs (epoch s) (bufs s) (tmps s) (x_bufs x) 0 (set_lock s 0) (xw_lock x 0) s1 L H3 Hcf) as (evs & L' & G & R & HL'); try assumption.
  - intros j tl Hj. exact Hj.
  - reflexivity.
  - apply (LS_archs cis s); [reflexivity|]. eapply LS_T_ext; [|exact HL]. intros p _. unfold parked, TB, tmp_live, buf_tmps. split.
    + intros (k & n & -> & tid & b & h & cid & Ek & Hb' & Hin & Ht). exists tid, b. split; [exact Hb'|]. exists h, cid, n. rewrite Ek. auto.
    + intros (tid & b & Hb' & h & cid & n & Hin & Ht & ->). exists (epoch s * 64 + (0 + tid)), n. split; [reflexivity|]. exists tid, b, h, cid. auto.
  - exists evs, L'. split; [exact G|]. split; [exact R|]. apply (LS_archs cis s1); [reflexivity|exact HL'].
Qed.
