(* Proofs about the version stamps of archetypes and the version filter of jobs (C07, C11).
   Model: Manager.v (check_and_set, filter_chunks, job_filter, vs_set_chunk, vs_emplace, vs_set_one), Iter.v (filter_blocks). *)
Require Import Coq.Lists.List Coq.NArith.NArith Coq.Arith.Arith Coq.Bool.Bool Coq.micromega.Lia.
From Mustache Require Import Res Iter Manager.
From Mustache.proofs Require Import ListLemmas IterProofs.
Import ListNotations.

(* ------------------------------------------------------------------------------------------ *)
(* lists: nth after upd / firstn / skipn / resize                                             *)
Lemma nth_upd {A} (l : list A) i j x d :
  nth j (upd l i x) d = if (i =? j) && (i <? length l) then x else nth j l d.
Proof.
  revert i j. induction l as [|a t IH]; intros [|i] [|j]; simpl; try reflexivity.
  - rewrite andb_false_r. reflexivity.
  - rewrite IH. reflexivity.
Qed.

Lemma upd_oob {A} (l : list A) i x : length l <= i -> upd l i x = l.
Proof. revert i. induction l as [|a t IH]; intros [|i] H; simpl in *; try reflexivity; try lia. f_equal. apply IH. lia. Qed.

Lemma nth_firstn_lt {A} (l : list A) n i d : i < n -> nth i (firstn n l) d = nth i l d.
Proof.
  revert n i. induction l as [|a t IH]; intros [|n] [|i] H; simpl; try reflexivity; try lia. apply IH. lia.
Qed.

Lemma nth_skipn' {A} (l : list A) b i d : nth i (skipn b l) d = nth (b + i) l d.
Proof.
  revert l. induction b as [|b IH]; intro l; [reflexivity|]. destruct l as [|a t]; simpl; [destruct i; reflexivity|apply IH].
Qed.

Lemma nth_repeat' {A} (x : A) n i d : i < n -> nth i (repeat x n) d = x.
Proof. revert i. induction n as [|n IH]; intros [|i] H; simpl; try lia; [reflexivity|apply IH; lia]. Qed.

Lemma nth_resize {A} (l : list A) n x i d : i < n -> nth i (resize l n x) d = if i <? length l then nth i l d else x.
Proof.
  intro H. unfold resize. destruct (Nat.ltb_spec i (length l)) as [Hl|Hl].
  - rewrite app_nth1 by (rewrite firstn_length; lia). apply nth_firstn_lt. assumption.
  - rewrite app_nth2 by (rewrite firstn_length; lia). rewrite firstn_length. apply nth_repeat'. lia.
Qed.

Lemma resize_length {A} (l : list A) n x : length (resize l n x) = n.
Proof. unfold resize. rewrite app_length, firstn_length, repeat_length. lia. Qed.

Lemma nth_Forall_le (l : list N) (v : N) i : Forall (fun x => (x <= v)%N) l -> (nth i l 0 <= v)%N.
Proof.
  intro H. destruct (Nat.lt_ge_cases i (length l)) as [Hi|Hi].
  - rewrite Forall_forall in H. apply H. apply nth_In. assumption.
  - rewrite nth_overflow by assumption. apply N.le_0_l.
Qed.

(* ------------------------------------------------------------------------------------------ *)
(* check_and_set = (stamp the set_ positions if needed, needed)                                *)
Definition stamp_set (vers : list N) (base : nat) (set_ : list nat) (cur : N) : list N :=
  fold_left (fun v i => upd v (base + i) cur) set_ vers.

Definition need_flag (vers : list N) (base : nat) (check : list nat) (last : N) : bool :=
  (last =? WV_NULL)%N || (match check with [] => true | _ => false end) ||
  existsb (fun i => (last <? nth (base + i) vers 0)%N) check.

Lemma check_and_set_unfold vers base check set_ last cur :
  check_and_set vers base check set_ last cur =
  (if need_flag vers base check last then stamp_set vers base set_ cur else vers, need_flag vers base check last).
Proof. reflexivity. Qed.

Lemma stamp_set_length vers base set_ cur : length (stamp_set vers base set_ cur) = length vers.
Proof.
  unfold stamp_set. revert vers. induction set_ as [|i t IH]; intro vers; simpl; [reflexivity|]. rewrite IH. apply upd_length.
Qed.

(* position p carries cur afterwards iff it is base + i for some i in set_ and lies inside the vector *)
Lemma stamp_set_nth vers base set_ cur p d :
  nth p (stamp_set vers base set_ cur) d =
  if existsb (fun i => base + i =? p) set_ && (p <? length vers) then cur else nth p vers d.
Proof.
  unfold stamp_set. revert vers. induction set_ as [|i t IH]; intro vers; simpl; [reflexivity|].
  rewrite IH, upd_length, nth_upd.
  destruct (Nat.eqb_spec (base + i) p) as [E|E]; simpl.
  - subst p. destruct (base + i <? length vers); simpl; [|rewrite andb_false_r; reflexivity].
    destruct (existsb (fun i0 => base + i0 =? base + i) t); reflexivity.
  - reflexivity.
Qed.

Lemma stamp_set_Forall (P : N -> Prop) vers base set_ cur : Forall P vers -> P cur -> Forall P (stamp_set vers base set_ cur).
Proof.
  unfold stamp_set. revert vers. induction set_ as [|i t IH]; intros vers Hv Hc; simpl; [assumption|].
  apply IH; [apply Forall_upd; assumption|assumption].
Qed.

Lemma check_and_set_length vers base check set_ last cur :
  length (fst (check_and_set vers base check set_ last cur)) = length vers.
Proof. rewrite check_and_set_unfold. simpl. destruct (need_flag vers base check last); [apply stamp_set_length|reflexivity]. Qed.

Lemma check_and_set_Forall (P : N -> Prop) vers base check set_ last cur :
  Forall P vers -> P cur -> Forall P (fst (check_and_set vers base check set_ last cur)).
Proof.
  intros Hv Hc. rewrite check_and_set_unfold. simpl. destruct (need_flag vers base check last); [apply stamp_set_Forall; assumption|assumption].
Qed.

(* (1a) the flag *)
Lemma need_flag_true vers base check last :
  need_flag vers base check last = true <->
  last = WV_NULL \/ check = [] \/ exists i, In i check /\ (last < nth (base + i) vers 0)%N.
Proof.
  unfold need_flag. rewrite !orb_true_iff, N.eqb_eq, existsb_exists. split.
  - intros [[H|H]|(i & Hi & Hlt)]; [left; assumption| |].
    + right; left. destruct check; [reflexivity|discriminate].
    + right; right. exists i. split; [assumption|]. apply N.ltb_lt. assumption.
  - intros [H|[H|(i & Hi & Hlt)]]; [left; left; assumption| |].
    + left; right. subst check. reflexivity.
    + right. exists i. split; [assumption|]. apply N.ltb_lt. assumption.
Qed.

Lemma need_flag_false vers base check last :
  need_flag vers base check last = false <->
  last <> WV_NULL /\ check <> [] /\ forall i, In i check -> (nth (base + i) vers 0 <= last)%N.
Proof.
  split.
  - intro H. repeat split.
    + intro E. assert (T : need_flag vers base check last = true) by (apply need_flag_true; left; assumption). congruence.
    + intro E. assert (T : need_flag vers base check last = true) by (apply need_flag_true; right; left; assumption). congruence.
    + intros i Hi. apply N.le_ngt. intro Hlt.
      assert (T : need_flag vers base check last = true) by (apply need_flag_true; right; right; exists i; split; assumption). congruence.
  - intros (H1 & H2 & H3). destruct (need_flag vers base check last) eqn:E; [|reflexivity].
    apply need_flag_true in E. destruct E as [E|[E|(i & Hi & Hlt)]]; [contradiction|contradiction|].
    specialize (H3 i Hi). apply N.le_ngt in H3. contradiction.
Qed.

Lemma need_flag_ext v1 v2 b1 b2 check last :
  (forall i, In i check -> nth (b1 + i) v1 0%N = nth (b2 + i) v2 0%N) -> need_flag v1 b1 check last = need_flag v2 b2 check last.
Proof.
  intro H. unfold need_flag. f_equal. induction check as [|i t IH]; [reflexivity|]. simpl.
  rewrite (H i) by (left; reflexivity). f_equal. apply IH. intros j Hj. apply H. right. assumption.
Qed.

(* (1) the specification of check_and_set *)
Theorem check_and_set_spec vers base check set_ last cur :
  let r := check_and_set vers base check set_ last cur in
  (snd r = true <-> last = WV_NULL \/ check = [] \/ exists i, In i check /\ (last < nth (base + i) vers 0)%N) /\
  length (fst r) = length vers /\
  (snd r = true -> forall p d,
     ((exists i, In i set_ /\ p = base + i) -> p < length vers -> nth p (fst r) d = cur) /\
     ((forall i, In i set_ -> p <> base + i) -> nth p (fst r) d = nth p vers d)) /\
  (snd r = false -> fst r = vers).
Proof.
  intro r. subst r. split; [|split; [|split]].
  - rewrite check_and_set_unfold. simpl. apply need_flag_true.
  - apply check_and_set_length.
  - rewrite check_and_set_unfold. simpl. intros Hn p d. rewrite Hn, stamp_set_nth. split.
    + intros (i & Hi & Hp) Hlt. apply Nat.ltb_lt in Hlt. rewrite Hlt, andb_true_r.
      assert (E : existsb (fun i0 => base + i0 =? p) set_ = true).
      { apply existsb_exists. exists i. split; [assumption|]. apply Nat.eqb_eq. auto. }
      rewrite E. reflexivity.
    + intro Hno. assert (E : existsb (fun i0 => base + i0 =? p) set_ = false).
      { destruct (existsb (fun i0 => base + i0 =? p) set_) eqn:E; [|reflexivity]. apply existsb_exists in E.
        destruct E as (i & Hi & Hp). apply Nat.eqb_eq in Hp. exfalso. apply (Hno i Hi). auto. }
      rewrite E. reflexivity.
  - rewrite check_and_set_unfold. simpl. intro Hn. rewrite Hn. reflexivity.
Qed.

(* (4) quiescence of one row: nothing checked is newer than last => flag false, nothing written *)
Theorem check_and_set_quiet vers base check set_ last cur :
  last <> WV_NULL -> check <> [] -> (forall i, In i check -> (nth (base + i) vers 0 <= last)%N) ->
  check_and_set vers base check set_ last cur = (vers, false).
Proof.
  intros H1 H2 H3. rewrite check_and_set_unfold.
  assert (E : need_flag vers base check last = false) by (apply need_flag_false; auto). rewrite E. reflexivity.
Qed.

(* run, then run again as a caught-up job (last' = the cur of the first run), whatever the new current version:
   provided no checked stamp was ahead of cur before the first run, the second run sees nothing, writes nothing.
   In particular the job's own stamps (set_ positions = cur) do not re-trigger it. *)
Theorem check_and_set_twice_quiet vers base check set_ last cur cur2 :
  cur <> WV_NULL -> check <> [] -> (forall i, In i check -> (nth (base + i) vers 0 <= cur)%N) ->
  let v1 := fst (check_and_set vers base check set_ last cur) in
  check_and_set v1 base check set_ cur cur2 = (v1, false).
Proof.
  intros H1 H2 H3 v1. apply check_and_set_quiet; try assumption.
  intros i Hi. subst v1. rewrite check_and_set_unfold. simpl.
  destruct (need_flag vers base check last); [|apply H3; assumption].
  rewrite stamp_set_nth. destruct (existsb _ set_ && _); [apply N.le_refl|apply H3; assumption].
Qed.

(* ------------------------------------------------------------------------------------------ *)
(* (2) filter_chunks: each version chunk is decided on its own row                               *)
Definition cas_row (vers : list N) (base : nat) (check set_ : list nat) (last cur : N) : list N :=
  fst (check_and_set vers base check set_ last cur).

Definition lt_all (nc : nat) (l : list nat) : Prop := Forall (fun i => i < nc) l.

Lemma lt_all_in nc l i : lt_all nc l -> In i l -> i < nc.
Proof. unfold lt_all. rewrite Forall_forall. auto. Qed.

Lemma filter_chunks_S nc check set_ last cur chunk t cv :
  filter_chunks nc check set_ last cur chunk (S t) cv =
  (fst (filter_chunks nc check set_ last cur (S chunk) t (cas_row cv (nc * chunk) check set_ last cur)),
   need_flag cv (nc * chunk) check last :: snd (filter_chunks nc check set_ last cur (S chunk) t (cas_row cv (nc * chunk) check set_ last cur))).
Proof.
  cbn [filter_chunks]. unfold cas_row. rewrite check_and_set_unfold. cbn [fst snd].
  destruct (filter_chunks nc check set_ last cur (S chunk) t _). reflexivity.
Qed.

Lemma cas_row_length vers base check set_ last cur : length (cas_row vers base check set_ last cur) = length vers.
Proof. apply check_and_set_length. Qed.

Lemma cas_row_nth_outside nc vers base check set_ last cur p d :
  lt_all nc set_ -> p < base \/ base + nc <= p -> nth p (cas_row vers base check set_ last cur) d = nth p vers d.
Proof.
  intros Hs Hp. unfold cas_row. rewrite check_and_set_unfold. simpl. destruct (need_flag vers base check last); [|reflexivity].
  rewrite stamp_set_nth.
  assert (E : existsb (fun i => base + i =? p) set_ = false).
  { destruct (existsb (fun i => base + i =? p) set_) eqn:E; [|reflexivity]. apply existsb_exists in E.
    destruct E as (i & Hi & Hpi). apply Nat.eqb_eq in Hpi. pose proof (lt_all_in _ _ _ Hs Hi). lia. }
  rewrite E. reflexivity.
Qed.

(* the result on a row depends on that row only (and on whether the positions exist) *)
Lemma cas_row_congr nc v1 v2 b1 b2 check set_ last cur :
  lt_all nc check ->
  (forall i, i < nc -> nth (b1 + i) v1 0%N = nth (b2 + i) v2 0%N) ->
  (forall i, i < nc -> (b1 + i <? length v1) = (b2 + i <? length v2)) ->
  forall i, i < nc -> nth (b1 + i) (cas_row v1 b1 check set_ last cur) 0%N = nth (b2 + i) (cas_row v2 b2 check set_ last cur) 0%N.
Proof.
  intros Hc Hv Hl i Hi. unfold cas_row. rewrite !check_and_set_unfold. simpl.
  assert (E : need_flag v1 b1 check last = need_flag v2 b2 check last).
  { apply need_flag_ext. intros k Hk. apply Hv. apply (lt_all_in _ _ _ Hc Hk). }
  rewrite E. destruct (need_flag v2 b2 check last); [|apply Hv; assumption].
  rewrite !stamp_set_nth. rewrite (Hl i Hi), (Hv i Hi).
  assert (E2 : existsb (fun k => b1 + k =? b1 + i) set_ = existsb (fun k => b2 + k =? b2 + i) set_).
  { clear. induction set_ as [|k t IH]; [reflexivity|]. simpl. rewrite IH. f_equal.
    destruct (Nat.eqb_spec (b1 + k) (b1 + i)), (Nat.eqb_spec (b2 + k) (b2 + i)); try reflexivity; lia. }
  rewrite E2. reflexivity.
Qed.

Lemma filter_chunks_spec nc check set_ last cur :
  lt_all nc check -> lt_all nc set_ ->
  forall todo chunk cv,
  let r := filter_chunks nc check set_ last cur chunk todo cv in
  length (snd r) = todo /\ length (fst r) = length cv /\
  (forall k, k < todo -> nth k (snd r) false = need_flag cv (nc * (chunk + k)) check last) /\
  (forall k i, k < todo -> i < nc ->
     nth (nc * (chunk + k) + i) (fst r) 0%N = nth (nc * (chunk + k) + i) (cas_row cv (nc * (chunk + k)) check set_ last cur) 0%N) /\
  (forall p, p < nc * chunk \/ nc * (chunk + todo) <= p -> nth p (fst r) 0%N = nth p cv 0%N).
Proof.
  intros Hc Hs. induction todo as [|t IH]; intros chunk cv.
  - simpl. repeat split; try reflexivity; intros; lia.
  - cbv zeta. rewrite filter_chunks_S. cbn [fst snd].
    set (cv1 := cas_row cv (nc * chunk) check set_ last cur).
    specialize (IH (S chunk) cv1). cbv zeta in IH. destruct IH as (IH1 & IH2 & IH3 & IH4 & IH5).
    assert (Hlen1 : length cv1 = length cv) by apply cas_row_length.
    assert (Hout : forall p, nc * S chunk <= p -> nth p cv1 0%N = nth p cv 0%N).
    { intros p Hp. apply (cas_row_nth_outside nc); [assumption|]. right. lia. }
    split; [simpl; rewrite IH1; reflexivity|]. split; [rewrite IH2; exact Hlen1|]. split; [|split].
    + intros [|k] Hk; simpl.
      * rewrite Nat.add_0_r. reflexivity.
      * rewrite IH3 by lia. replace (S chunk + k) with (chunk + S k) by lia.
        apply need_flag_ext. intros i Hi. apply Hout. pose proof (lt_all_in _ _ _ Hc Hi). lia.
    + intros [|k] i Hk Hi.
      * rewrite Nat.add_0_r. apply IH5. left. lia.
      * replace (chunk + S k) with (S chunk + k) by lia. rewrite IH4 by lia.
        apply (cas_row_congr nc); try assumption.
        -- intros i' Hi'. apply Hout. lia.
        -- intros i' Hi'. rewrite Hlen1. reflexivity.
    + intros p Hp. rewrite IH5 by lia. apply (cas_row_nth_outside nc); [assumption|]. lia.
Qed.

(* the row of chunk c as a list *)
Definition row (nc c : nat) (cv : list N) : list N := firstn nc (skipn (nc * c) cv).

Lemma nth_row nc c cv i : i < nc -> nth i (row nc c cv) 0%N = nth (nc * c + i) cv 0%N.
Proof. intro H. unfold row. rewrite nth_firstn_lt by assumption. apply nth_skipn'. Qed.

Lemma row_length nc c cv : length (row nc c cv) = Nat.min nc (length cv - nc * c).
Proof. unfold row. rewrite firstn_length, skipn_length. reflexivity. Qed.

(* chunk-precise: flag k and row k of the result are check_and_set of the INPUT row k alone *)
Theorem filter_chunks_chunk_precise nc check set_ last cur todo chunk cv k :
  lt_all nc check -> lt_all nc set_ -> k < todo ->
  let r := filter_chunks nc check set_ last cur chunk todo cv in
  let r0 := check_and_set (row nc (chunk + k) cv) 0 check set_ last cur in
  nth k (snd r) false = snd r0 /\ row nc (chunk + k) (fst r) = fst r0.
Proof.
  intros Hc Hs Hk r r0. subst r r0.
  destruct (filter_chunks_spec nc check set_ last cur Hc Hs todo chunk cv) as (H1 & H2 & H3 & H4 & H5).
  split.
  - rewrite H3 by assumption. rewrite check_and_set_unfold. simpl. apply need_flag_ext.
    intros i Hi. simpl. symmetry. apply nth_row. apply (lt_all_in _ _ _ Hc Hi).
  - apply nth_ext with (d := 0%N) (d' := 0%N).
    + rewrite check_and_set_length, !row_length, H2. reflexivity.
    + intros i Hi. rewrite row_length in Hi. assert (Hi' : i < nc) by lia.
      rewrite nth_row by assumption. rewrite H4 by assumption.
      change (fst (check_and_set (row nc (chunk + k) cv) 0 check set_ last cur)) with (cas_row (row nc (chunk + k) cv) 0 check set_ last cur).
      change i with (0 + i) at 2.
      apply (cas_row_congr nc); try assumption.
      * intros j Hj. simpl. symmetry. apply nth_row. assumption.
      * intros j Hj. simpl. rewrite row_length.
        destruct (Nat.ltb_spec (nc * (chunk + k) + j) (length cv)), (Nat.ltb_spec j (Nat.min nc (length cv - nc * (chunk + k)))); try reflexivity; lia.
Qed.

Lemma filter_chunks_Forall (P : N -> Prop) nc check set_ last cur : forall todo chunk cv,
  Forall P cv -> P cur -> Forall P (fst (filter_chunks nc check set_ last cur chunk todo cv)).
Proof.
  induction todo as [|t IH]; intros chunk cv Hv Hc; [assumption|].
  rewrite filter_chunks_S. cbn [fst]. apply IH; [|assumption]. apply check_and_set_Forall; assumption.
Qed.

(* (3) no miss, one archetype: a checked component whose stamp in chunk c is newer than last => chunk c is flagged *)
Theorem filter_chunks_no_miss nc check set_ last cur todo chunk cv c i :
  lt_all nc check -> lt_all nc set_ -> chunk <= c < chunk + todo ->
  In i check -> (last < nth (nc * c + i) cv 0)%N ->
  nth (c - chunk) (snd (filter_chunks nc check set_ last cur chunk todo cv)) false = true.
Proof.
  intros Hc Hs Hr Hi Hlt.
  destruct (filter_chunks_spec nc check set_ last cur Hc Hs todo chunk cv) as (_ & _ & H3 & _).
  rewrite H3 by lia. replace (chunk + (c - chunk)) with c by lia.
  apply need_flag_true. right; right. exists i. split; assumption.
Qed.

(* (4) lifted: a caught-up job with nothing newer than last in any chunk: all flags false, stamps untouched *)
Theorem filter_chunks_quiet nc check set_ last cur : forall todo chunk cv,
  last <> WV_NULL -> check <> [] ->
  (forall k i, k < todo -> In i check -> (nth (nc * (chunk + k) + i) cv 0 <= last)%N) ->
  filter_chunks nc check set_ last cur chunk todo cv = (cv, repeat false todo).
Proof.
  induction todo as [|t IH]; intros chunk cv H1 H2 H3; [reflexivity|].
  rewrite filter_chunks_S. unfold cas_row.
  rewrite (check_and_set_quiet cv (nc * chunk) check set_ last cur H1 H2).
  - cbn [fst]. assert (E : need_flag cv (nc * chunk) check last = false).
    { apply need_flag_false. repeat split; try assumption. intros i Hi. specialize (H3 0 i ltac:(lia) Hi). rewrite Nat.add_0_r in H3. exact H3. }
    rewrite E, IH; try assumption; [reflexivity|].
    intros k i Hk Hi. replace (S chunk + k) with (chunk + S k) by lia. apply H3; [lia|assumption].
  - intros i Hi. specialize (H3 0 i ltac:(lia) Hi). rewrite Nat.add_0_r in H3. exact H3.
Qed.

(* ------------------------------------------------------------------------------------------ *)
(* (3b) global-then-chunk                                                                      *)
(* every chunk stamp of a component is bounded by the component's global stamp *)
Definition gver_bounds (a : archetype) : Prop :=
  forall c i, i < length (am_gver a) -> (nth (length (am_gver a) * c + i) (am_cver a) 0 <= nth i (am_gver a) 0)%N.

Theorem global_test_no_skip a check set_ last cur c i :
  gver_bounds a -> lt_all (length (am_gver a)) check -> In i check ->
  (last < nth (length (am_gver a) * c + i) (am_cver a) 0)%N ->
  snd (check_and_set (am_gver a) 0 check set_ last cur) = true.
Proof.
  intros Hb Hc Hi Hlt. rewrite check_and_set_unfold. simpl. apply need_flag_true. right; right. exists i.
  split; [assumption|]. simpl. eapply N.lt_le_trans; [exact Hlt|]. apply Hb. apply (lt_all_in _ _ _ Hc Hi).
Qed.

(* ------------------------------------------------------------------------------------------ *)
(* (5) the stamping primitives                                                                 *)
Lemma set_range_length {A} (l : list A) from n x : length (set_range l from n x) = length l.
Proof. revert l from. induction n as [|n IH]; intros l from; simpl; [reflexivity|]. rewrite IH. apply upd_length. Qed.

Lemma set_range_nth {A} (l : list A) from n x p d :
  nth p (set_range l from n x) d = if (from <=? p) && (p <? from + n) && (p <? length l) then x else nth p l d.
Proof.
  revert l from. induction n as [|n IH]; intros l from; cbn [set_range].
  - repeat match goal with
    | |- context [?a <=? ?b] => destruct (Nat.leb_spec a b)
    | |- context [?a <? ?b] => destruct (Nat.ltb_spec a b)
    end; try reflexivity; lia.
  - rewrite IH, upd_length, nth_upd.
    repeat match goal with
    | |- context [?a <=? ?b] => destruct (Nat.leb_spec a b)
    | |- context [?a <? ?b] => destruct (Nat.ltb_spec a b)
    | |- context [?a =? ?b] => destruct (Nat.eqb_spec a b)
    end; try reflexivity; lia.
Qed.

Lemma set_range_Forall {A} (P : A -> Prop) (l : list A) from n x : Forall P l -> P x -> Forall P (set_range l from n x).
Proof. revert l from. induction n as [|n IH]; intros l from Hl Hx; simpl; [assumption|]. apply IH; [apply Forall_upd; assumption|assumption]. Qed.

Lemma nth_map_const (l : list N) (v : N) i : i < length l -> nth i (map (fun _ => v) l) 0%N = v.
Proof. revert i. induction l as [|a t IH]; intros [|i] H; simpl in *; try reflexivity; try lia. apply IH; lia. Qed.

(* setVersion(v, chunk): every component's stamp of the chunk and every global stamp become v; nothing else moves *)
Theorem vs_set_chunk_spec a v c a' :
  vs_set_chunk a v c = Ok a' ->
  let nc := length (am_gver a) in
  nc * c + nc <= length (am_cver a) /\
  am_gver a' = map (fun _ => v) (am_gver a) /\ length (am_cver a') = length (am_cver a) /\
  (forall i, i < nc -> nth i (am_gver a') 0%N = v) /\
  (forall i, i < nc -> nth (nc * c + i) (am_cver a') 0%N = v) /\
  (forall p, p < nc * c \/ nc * c + nc <= p -> nth p (am_cver a') 0%N = nth p (am_cver a) 0%N) /\
  am_mask a' = am_mask a /\ am_ents a' = am_ents a /\ am_chunk a' = am_chunk a /\ am_cols a' = am_cols a /\ am_size a' = am_size a.
Proof.
  intros H nc. unfold vs_set_chunk in H. fold nc in H.
  destruct (Nat.ltb_spec (length (am_cver a)) (nc * c + nc)) as [Hl|Hl]; [discriminate|].
  inversion H; subst a'; clear H. simpl.
  split; [assumption|]. split; [reflexivity|]. split; [apply set_range_length|]. split; [|split; [|split]].
  - intros i Hi. apply nth_map_const. assumption.
  - intros i Hi. rewrite set_range_nth.
    destruct (Nat.leb_spec (nc * c) (nc * c + i)); [|lia]. destruct (Nat.ltb_spec (nc * c + i) (nc * c + nc)); [|lia].
    destruct (Nat.ltb_spec (nc * c + i) (length (am_cver a))); [|lia]. reflexivity.
  - intros p Hp. rewrite set_range_nth.
    destruct (Nat.leb_spec (nc * c) p), (Nat.ltb_spec p (nc * c + nc)); simpl; try reflexivity; lia.
  - repeat split.
Qed.

(* emplace(v, idx): the stamp vector is cut or grown to end with the chunk of idx, then that chunk is set *)
Theorem vs_emplace_spec a v idx a' :
  vs_emplace a v idx = Ok a' ->
  let nc := length (am_gver a) in
  exists c, chunk_at a idx = Ok c /\ nc * c <= length (am_cver a) /\
  am_gver a' = map (fun _ => v) (am_gver a) /\ length (am_cver a') = S c * nc /\
  (forall i, i < nc -> nth i (am_gver a') 0%N = v) /\
  (forall i, i < nc -> nth (nc * c + i) (am_cver a') 0%N = v) /\
  (forall p, p < nc * c -> nth p (am_cver a') 0%N = nth p (am_cver a) 0%N) /\
  am_mask a' = am_mask a /\ am_ents a' = am_ents a /\ am_chunk a' = am_chunk a /\ am_cols a' = am_cols a /\ am_size a' = am_size a.
Proof.
  intros H nc. unfold vs_emplace in H. fold nc in H.
  destruct (chunk_at a idx) as [c|e] eqn:Ec; [|discriminate]. cbn [bind] in H. exists c. split; [reflexivity|].
  destruct (Nat.leb_spec (c * nc) (length (am_cver a))) as [Hl|Hl].
  - apply vs_set_chunk_spec in H. cbn [am_gver am_cver with_vers am_mask am_ents am_chunk am_cols am_size] in H. fold nc in H.
    destruct H as (H0 & H1 & H2 & H3 & H4 & H5 & H6). rewrite resize_length in H2, H0.
    split; [lia|]. split; [assumption|]. split; [assumption|]. split; [assumption|]. split; [assumption|]. split; [|assumption].
    intros p Hp. rewrite H5 by (left; assumption). rewrite nth_resize by lia.
    destruct (Nat.ltb_spec p (length (am_cver a))); [reflexivity|lia].
  - exfalso. unfold vs_set_chunk in H. fold nc in H.
    destruct (Nat.ltb_spec (length (am_cver a)) (nc * c + nc)); [discriminate|lia].
Qed.

(* setVersion(v, chunk, component): one chunk stamp and the component's global stamp *)
Theorem vs_set_one_spec a v c ci a' :
  vs_set_one a v c ci = Ok a' ->
  let nc := length (am_gver a) in
  ci < nc /\ nc * c + ci < length (am_cver a) /\
  am_gver a' = upd (am_gver a) ci v /\ am_cver a' = upd (am_cver a) (nc * c + ci) v /\
  nth ci (am_gver a') 0%N = v /\ nth (nc * c + ci) (am_cver a') 0%N = v /\
  (forall p, p <> nc * c + ci -> nth p (am_cver a') 0%N = nth p (am_cver a) 0%N) /\
  (forall i, i <> ci -> nth i (am_gver a') 0%N = nth i (am_gver a) 0%N).
Proof.
  intros H nc. unfold vs_set_one in H. fold nc in H. unfold upd_res in H.
  destruct (Nat.ltb_spec (nc * c + ci) (length (am_cver a))) as [H1|H1]; [|discriminate]. cbn [bind] in H.
  destruct (Nat.ltb_spec ci (length (am_gver a))) as [H2|H2]; [|discriminate]. cbn [bind] in H.
  inversion H; subst a'; clear H. simpl.
  split; [assumption|]. split; [assumption|]. split; [reflexivity|]. split; [reflexivity|].
  split; [apply nth_upd_same; assumption|]. split; [apply nth_upd_same; assumption|]. split.
  - intros p Hp. rewrite nth_upd. destruct (Nat.eqb_spec (nc * c + ci) p); [congruence|reflexivity].
  - intros i Hi. rewrite nth_upd. destruct (Nat.eqb_spec ci i); [congruence|reflexivity].
Qed.

(* gver_bounds is (re-)established by a stamp that is at least every chunk stamp present *)
Theorem vs_set_chunk_bounds a v c a' :
  vs_set_chunk a v c = Ok a' -> Forall (fun x => (x <= v)%N) (am_cver a) -> gver_bounds a' /\ Forall (fun x => (x <= v)%N) (am_cver a').
Proof.
  intros H Hle. pose proof (vs_set_chunk_spec _ _ _ _ H) as S. cbv zeta in S. destruct S as (_ & Hg & _ & Hg' & _).
  assert (Hc : Forall (fun x => (x <= v)%N) (am_cver a')).
  { unfold vs_set_chunk in H. destruct (Nat.ltb _ _); [discriminate|]. inversion H; subst a'. simpl.
    apply set_range_Forall; [assumption|apply N.le_refl]. }
  split; [|assumption]. intros k i Hi. rewrite Hg, map_length in Hi. rewrite (Hg' i Hi). apply nth_Forall_le. assumption.
Qed.

Theorem vs_emplace_bounds a v idx a' :
  vs_emplace a v idx = Ok a' -> Forall (fun x => (x <= v)%N) (am_cver a) -> gver_bounds a' /\ Forall (fun x => (x <= v)%N) (am_cver a').
Proof.
  intros H Hle. pose proof (vs_emplace_spec _ _ _ _ H) as S. cbv zeta in S.
  destruct S as (c & Hc & Hl & Hg & Hlen & Hg' & Hrow & Hlow & _).
  set (nc := length (am_gver a)) in *.
  assert (Hall : forall p, (nth p (am_cver a') 0 <= v)%N).
  { intro p. destruct (Nat.lt_ge_cases p (nc * c)) as [Hp|Hp].
    - rewrite Hlow by assumption. apply nth_Forall_le. assumption.
    - destruct (Nat.lt_ge_cases p (S c * nc)) as [Hp2|Hp2].
      + replace p with (nc * c + (p - nc * c)) by lia. rewrite Hrow by lia. apply N.le_refl.
      + rewrite nth_overflow by lia. apply N.le_0_l. }
  split.
  - intros k i Hi. rewrite Hg, map_length in Hi. fold nc in Hi. rewrite (Hg' i Hi). apply Hall.
  - apply Forall_forall. intros x Hx. destruct (In_nth _ _ 0%N Hx) as (p & _ & Hp). rewrite <- Hp. apply Hall.
Qed.

Theorem vs_set_one_bounds a v c ci a' :
  vs_set_one a v c ci = Ok a' -> gver_bounds a ->
  (forall k, (nth (length (am_gver a) * k + ci) (am_cver a) 0 <= v)%N) -> gver_bounds a'.
Proof.
  intros H Hb Hle. pose proof (vs_set_one_spec _ _ _ _ _ H) as S. cbv zeta in S.
  destruct S as (Hci & Hpos & Hg & Hcv & _). set (nc := length (am_gver a)) in *.
  intros k i Hi. rewrite Hg, upd_length in Hi. fold nc in Hi. rewrite Hg, Hcv, upd_length. fold nc.
  rewrite !nth_upd.
  destruct (Nat.ltb_spec ci (length (am_gver a))) as [_|F]; [|unfold nc in Hci; lia].
  destruct (Nat.ltb_spec (nc * c + ci) (length (am_cver a))) as [_|F]; [|lia]. rewrite !andb_true_r.
  destruct (Nat.eqb_spec ci i) as [E|E].
  - subst i. destruct (Nat.eqb_spec (nc * c + ci) (nc * k + ci)); [apply N.le_refl|apply Hle].
  - destruct (Nat.eqb_spec (nc * c + ci) (nc * k + i)) as [E2|E2]; [|apply Hb; assumption].
    exfalso. apply E.
    assert (M1 : (nc * c + ci) mod nc = ci) by (rewrite Nat.mul_comm, Nat.add_comm, Nat.mod_add by lia; apply Nat.mod_small; assumption).
    assert (M2 : (nc * k + i) mod nc = i) by (rewrite Nat.mul_comm, Nat.add_comm, Nat.mod_add by lia; apply Nat.mod_small; assumption).
    rewrite E2 in M1. congruence.
Qed.

(* a write stamped v into (chunk c, component ci) is seen by a job checking ci exactly when v is newer than the job's
   last run (or the job never ran): stamps overwrite, so a stale v hides the write -- the mechanism behind C07 *)
Theorem write_detected_iff a v c ci a' set_ last cur :
  vs_set_one a v c ci = Ok a' ->
  snd (check_and_set (am_cver a') (length (am_gver a') * c) [ci] set_ last cur) = true <-> last = WV_NULL \/ (last < v)%N.
Proof.
  intro H. pose proof (vs_set_one_spec _ _ _ _ _ H) as S. cbv zeta in S. destruct S as (_ & _ & Hg & _ & _ & Hv & _).
  rewrite check_and_set_unfold. cbn [snd]. rewrite need_flag_true. rewrite Hg, upd_length. split.
  - intros [E|[E|(i & [Hi|[]] & Hlt)]]; [left; assumption|discriminate|]. subst i. rewrite Hv in Hlt. right. assumption.
  - intros [E|Hlt]; [left; assumption|]. right; right. exists ci. split; [left; reflexivity|]. rewrite Hv. assumption.
Qed.

(* ------------------------------------------------------------------------------------------ *)
(* (6) blocks                                                                                  *)
Lemma blocks_count_acc bl : forall n, fold_left (fun n be => n + (snd be - fst be)) bl n = n + length (selected_of_blocks bl).
Proof.
  induction bl as [|be t IH]; intro n; simpl; [lia|]. rewrite IH. rewrite app_length, seq_length. unfold selected_of_blocks. lia.
Qed.

Lemma blocks_count_length bl : blocks_count bl = length (selected_of_blocks bl).
Proof. unfold blocks_count. rewrite blocks_count_acc. reflexivity. Qed.

(* the number of selected entities is the number of positions below size lying in flagged chunks *)
Theorem blocks_count_spec cs size ms :
  0 < cs -> 0 < size -> length ms = S ((size - 1) / cs) ->
  blocks_count (filter_blocks cs size ms) = length (filter (fun i => nth (i / cs) ms false) (seq 0 size)).
Proof. intros H1 H2 H3. rewrite blocks_count_length, blocks_exact by assumption. reflexivity. Qed.

Lemma selected_spec_in cs size ms idx : In idx (selected_spec cs size ms) <-> idx < size /\ nth (idx / cs) ms false = true.
Proof. unfold selected_spec. rewrite filter_In, in_seq. split; intros (H1 & H2); split; try assumption; lia. Qed.

Lemma selected_spec_all_false cs size n : selected_spec cs size (repeat false n) = [].
Proof.
  unfold selected_spec. induction (seq 0 size) as [|a t IH]; [reflexivity|]. simpl.
  assert (E : nth (a / cs) (repeat false n) false = false).
  { destruct (Nat.lt_ge_cases (a / cs) n); [apply nth_repeat'; assumption|apply nth_overflow; rewrite repeat_length; assumption]. }
  rewrite E. exact IH.
Qed.

(* ------------------------------------------------------------------------------------------ *)
(* component indices of a job inside an archetype are below the number of components           *)
Lemma filter_count_lt (f : nat -> bool) n c : c < n -> f c = true -> length (filter f (seq 0 c)) < length (filter f (seq 0 n)).
Proof.
  intros Hc Hf. replace n with (c + S (n - S c)) by lia. rewrite seq_app, filter_app, app_length. simpl. rewrite Hf. simpl. lia.
Qed.

Lemma comp_indices_in am m i : In i (comp_indices am m) -> exists c, In c (mitems m) /\ cindex am c = Some i.
Proof.
  unfold comp_indices. induction (mitems m) as [|c t IH]; simpl; [intros []|].
  destruct (cindex am c) as [k|] eqn:E.
  - intros [H|H]; [subst k; exists c; split; [left; reflexivity|assumption]|].
    destruct (IH H) as (c' & H1 & H2). exists c'. split; [right; assumption|assumption].
  - intro H. destruct (IH H) as (c' & H1 & H2). exists c'. split; [right; assumption|assumption].
Qed.

Lemma mitems_lt m c : In c (mitems m) -> c < MASK_BITS.
Proof. unfold mitems. intro H. apply filter_In in H. destruct H as (H & _). apply in_seq in H. exact (proj2 H). Qed.

Lemma cindex_lt am c i : c < MASK_BITS -> cindex am c = Some i -> i < mcount am.
Proof.
  unfold mcount, mitems. generalize MASK_BITS. intros n Hc Hci.
  unfold cindex in Hci. destruct (mhas am c) eqn:E; [|discriminate]. inversion Hci; subst i.
  apply filter_count_lt; assumption.
Qed.

Lemma comp_indices_lt am m : lt_all (mcount am) (comp_indices am m).
Proof.
  apply Forall_forall. intros i Hi. destruct (comp_indices_in _ _ _ Hi) as (c & Hc & Hci).
  apply (cindex_lt am c i); [apply (mitems_lt m); assumption|assumption].
Qed.

(* ------------------------------------------------------------------------------------------ *)
(* job_filter: one step per archetype                                                          *)
Definition jf_step (j : job) (acc : mst * list farch) (ai : nat) : res (mst * list farch) :=
  let req := job_required_mask j in
  let upm := job_update_mask j in
  let '(st, fas) := acc in
  do a <- nth_res (archs st) ai;
  let size := length (am_ents a) in
  if negb (Nat.ltb 0 size && mmatch (am_mask a) req) then Ok acc else
  let check := comp_indices (am_mask a) (j_check j) in
  let set_ := comp_indices (am_mask a) upm in
  let '(gv, need) := check_and_set (am_gver a) 0 check set_ (j_last j) (wv st) in
  if negb need then Ok (set_arch st ai (with_vers a gv (am_cver a)), fas) else
  match am_chunk a with
  | O => Err DivZero
  | cs =>
    let nchunks := S ((size - 1) / cs) in
    let '(cv, ms) := filter_chunks (length (am_gver a)) check set_ (j_last j) (wv st) 0 nchunks (am_cver a) in
    let bl := filter_blocks cs size ms in
    let cnt := blocks_count bl in
    let st1 := set_arch st ai (with_vers a gv cv) in
    Ok (st1, match cnt with O => fas
             | _ => fas ++ [{| fa_arch := ai; fa_blocks := bl; fa_count := cnt; fa_size := am_size a; fa_cap := 0 |}] end)
  end.

Lemma job_filter_unfold s j : job_filter s j = fold_res (jf_step j) (seq 0 (length (archs s))) (s, []).
Proof. reflexivity. Qed.

Definition jcheck (j : job) (a : archetype) : list nat := comp_indices (am_mask a) (j_check j).
Definition jset (j : job) (a : archetype) : list nat := comp_indices (am_mask a) (job_update_mask j).
Definition jmatch (j : job) (a : archetype) : bool := Nat.ltb 0 (length (am_ents a)) && mmatch (am_mask a) (job_required_mask j).
(* the version chunks of archetype a seen by the job, its flags, and the new chunk stamps *)
Definition jchunks (j : job) (cur : N) (a : archetype) : list N * list bool :=
  filter_chunks (length (am_gver a)) (jcheck j a) (jset j a) (j_last j) cur 0 (S ((length (am_ents a) - 1) / am_chunk a)) (am_cver a).
Definition jblocks (j : job) (cur : N) (a : archetype) : list (nat * nat) :=
  filter_blocks (am_chunk a) (length (am_ents a)) (snd (jchunks j cur a)).

Lemma jf_step_eq j st fas ai :
  jf_step j (st, fas) ai =
  match nth_error (archs st) ai with
  | None => Err OobIndex
  | Some a =>
    if negb (jmatch j a) then Ok (st, fas) else
    if negb (need_flag (am_gver a) 0 (jcheck j a) (j_last j)) then Ok (set_arch st ai (with_vers a (am_gver a) (am_cver a)), fas) else
    match am_chunk a with
    | O => Err DivZero
    | S _ =>
      Ok (set_arch st ai (with_vers a (stamp_set (am_gver a) 0 (jset j a) (wv st)) (fst (jchunks j (wv st) a))),
          match blocks_count (jblocks j (wv st) a) with
          | O => fas
          | S _ => fas ++ [{| fa_arch := ai; fa_blocks := jblocks j (wv st) a; fa_count := blocks_count (jblocks j (wv st) a);
                              fa_size := am_size a; fa_cap := 0 |}]
          end)
    end
  end.
Proof.
  unfold jblocks, jchunks, jmatch, jcheck, jset, jf_step, nth_res.
  destruct (nth_error (archs st) ai) as [a|]; [|reflexivity]. cbn [bind].
  match goal with |- (if ?c then _ else _) = _ => destruct c end; [reflexivity|].
  rewrite check_and_set_unfold.
  match goal with |- context [need_flag ?x ?y ?z ?w] => destruct (need_flag x y z w) end; cbn [negb]; [|reflexivity].
  destruct (am_chunk a) as [|k]; [reflexivity|].
  match goal with |- context [filter_chunks ?a1 ?a2 ?a3 ?a4 ?a5 ?a6 ?a7 ?a8] => destruct (filter_chunks a1 a2 a3 a4 a5 a6 a7 a8) as [cv ms] end.
  reflexivity.
Qed.

Lemma fold_res_app {A S} (f : S -> A -> res S) l1 l2 s :
  fold_res f (l1 ++ l2) s = bind (fold_res f l1 s) (fun s' => fold_res f l2 s').
Proof. revert s. induction l1 as [|a t IH]; intro s; simpl; [reflexivity|]. destruct (f s a); simpl; [apply IH|reflexivity]. Qed.

Lemma nth_error_upd_ne {A} (l : list A) i k x : k <> i -> nth_error (upd l i x) k = nth_error l k.
Proof. revert i k. induction l as [|a t IH]; intros [|i] [|k] H; simpl; try reflexivity; try lia. apply IH. lia. Qed.

(* a step touches only its own archetype and only appends records of its own archetype *)
Lemma jf_step_frame j st fas ai st1 fas1 :
  jf_step j (st, fas) ai = Ok (st1, fas1) ->
  wv st1 = wv st /\ length (archs st1) = length (archs st) /\
  (forall k, k <> ai -> nth_error (archs st1) k = nth_error (archs st) k) /\
  exists ext, fas1 = fas ++ ext /\ Forall (fun fa => fa_arch fa = ai) ext.
Proof.
  rewrite jf_step_eq. destruct (nth_error (archs st) ai) as [a|]; [|discriminate].
  assert (Hset : forall x, wv (set_arch st ai x) = wv st /\ length (archs (set_arch st ai x)) = length (archs st) /\
                 (forall k, k <> ai -> nth_error (archs (set_arch st ai x)) k = nth_error (archs st) k)).
  { intro x. split; [reflexivity|]. split; [apply upd_length|]. intros k Hk. apply nth_error_upd_ne. assumption. }
  destruct (negb (jmatch j a)).
  { intro H; inversion H; subst. repeat split; try reflexivity. exists []. rewrite app_nil_r. split; [reflexivity|constructor]. }
  destruct (negb (need_flag _ _ _ _)).
  { intro H; inversion H; subst. destruct (Hset (with_vers a (am_gver a) (am_cver a))) as (H1 & H2 & H3).
    repeat split; try assumption. exists []. rewrite app_nil_r. split; [reflexivity|constructor]. }
  destruct (am_chunk a); [discriminate|].
  intro H; inversion H; subst.
  destruct (Hset (with_vers a (stamp_set (am_gver a) 0 (jset j a) (wv st)) (fst (jchunks j (wv st) a)))) as (H1 & H2 & H3).
  repeat split; try assumption.
  destruct (blocks_count _); [exists []; rewrite app_nil_r; split; [reflexivity|constructor]|].
  eexists. split; [reflexivity|]. constructor; [reflexivity|constructor].
Qed.

Lemma jf_fold_frame j : forall l st fas st1 fas1,
  fold_res (jf_step j) l (st, fas) = Ok (st1, fas1) ->
  wv st1 = wv st /\ length (archs st1) = length (archs st) /\
  (forall k, ~ In k l -> nth_error (archs st1) k = nth_error (archs st) k) /\
  exists ext, fas1 = fas ++ ext /\ Forall (fun fa => In (fa_arch fa) l) ext.
Proof.
  induction l as [|ai t IH]; intros st fas st1 fas1 H.
  - simpl in H. inversion H; subst. repeat split; try reflexivity. exists []. rewrite app_nil_r. split; [reflexivity|constructor].
  - cbn [fold_res] in H. destruct (jf_step j (st, fas) ai) as [[st' fas']|e] eqn:E; [|discriminate]. cbn [bind] in H.
    apply jf_step_frame in E. destruct E as (E1 & E2 & E3 & ext1 & E4 & E5).
    apply IH in H. destruct H as (H1 & H2 & H3 & ext2 & H4 & H5).
    split; [congruence|]. split; [congruence|]. split.
    + intros k Hk. rewrite H3, E3; [reflexivity| |]; intro F; apply Hk; [left; auto|right; assumption].
    + exists (ext1 ++ ext2). split; [subst; rewrite app_assoc; reflexivity|]. apply Forall_app. split.
      * eapply Forall_impl; [|exact E5]. intros fa Hfa. left. auto.
      * eapply Forall_impl; [|exact H5]. intros fa Hfa. right. assumption.
Qed.

(* which entity positions of an archetype a job processes: the global test passes and the position's chunk is flagged *)
Definition processed (j : job) (a : archetype) (idx : nat) : Prop :=
  idx < length (am_ents a) /\
  need_flag (am_gver a) 0 (jcheck j a) (j_last j) = true /\
  need_flag (am_cver a) (length (am_gver a) * (idx / am_chunk a)) (jcheck j a) (j_last j) = true.

(* archetype shape assumed of a (reachable) state: one global stamp per component *)
Definition ver_wf (a : archetype) : Prop := length (am_gver a) = mcount (am_mask a).

Lemma jblocks_in j cur a idx :
  ver_wf a -> 0 < am_chunk a -> 0 < length (am_ents a) ->
  In idx (selected_of_blocks (jblocks j cur a)) <->
  idx < length (am_ents a) /\ need_flag (am_cver a) (length (am_gver a) * (idx / am_chunk a)) (jcheck j a) (j_last j) = true.
Proof.
  intros Hwf Hcs Hsize. unfold jblocks, jchunks.
  assert (Hc : lt_all (length (am_gver a)) (jcheck j a)) by (rewrite Hwf; apply comp_indices_lt).
  assert (Hs : lt_all (length (am_gver a)) (jset j a)) by (rewrite Hwf; apply comp_indices_lt).
  destruct (filter_chunks_spec _ _ _ (j_last j) cur Hc Hs (S ((length (am_ents a) - 1) / am_chunk a)) 0 (am_cver a)) as (H1 & _ & H3 & _).
  rewrite blocks_exact by (try assumption). rewrite selected_spec_in.
  split; intros (Hi & Hf); (split; [assumption|]).
  - rewrite H3 in Hf; [exact Hf|]. apply Nat.lt_succ_r. apply Nat.div_le_mono; lia.
  - rewrite H3; [exact Hf|]. apply Nat.lt_succ_r. apply Nat.div_le_mono; lia.
Qed.

(* one step: the record appended for archetype ai selects exactly the processed positions *)
Theorem jf_step_char j st fas ai a :
  nth_error (archs st) ai = Some a -> jmatch j a = true -> 0 < am_chunk a -> ver_wf a ->
  exists st1 ext, jf_step j (st, fas) ai = Ok (st1, fas ++ ext) /\
  forall idx, (exists fa, In fa ext /\ In idx (selected_of_blocks (fa_blocks fa))) <-> processed j a idx.
Proof.
  intros Hn Hm Hcs Hwf. rewrite jf_step_eq, Hn, Hm. cbn [negb].
  assert (Hsize : 0 < length (am_ents a)).
  { unfold jmatch in Hm. apply andb_true_iff in Hm. destruct Hm as (Hm & _). apply Nat.ltb_lt in Hm. exact Hm. }
  unfold processed.
  destruct (need_flag (am_gver a) 0 (jcheck j a) (j_last j)) eqn:Eg; cbn [negb].
  - destruct (am_chunk a) as [|k] eqn:Ek; [lia|]. rewrite <- Ek in *.
    destruct (blocks_count (jblocks j (wv st) a)) as [|n] eqn:Ec.
    + eexists. exists []. rewrite app_nil_r. split; [reflexivity|]. intro idx. split; [intros (fa & [] & _)|].
      intros (H1 & _ & H3). exfalso.
      assert (Hin : In idx (selected_of_blocks (jblocks j (wv st) a))) by (apply jblocks_in; auto).
      rewrite blocks_count_length in Ec. destruct (selected_of_blocks (jblocks j (wv st) a)); [destruct Hin|discriminate].
    + eexists. eexists [_]. split; [reflexivity|]. intro idx. split.
      * intros (fa & [Hfa|[]] & Hin). subst fa. cbn [fa_blocks] in Hin. apply jblocks_in in Hin; try assumption.
        destruct Hin as (H1 & H3). auto.
      * intros (H1 & _ & H3). eexists. split; [left; reflexivity|]. cbn [fa_blocks]. apply jblocks_in; auto.
  - eexists. exists []. rewrite app_nil_r. split; [reflexivity|]. intro idx. split; [intros (fa & [] & _)|].
    intros (_ & F & _). discriminate.
Qed.

(* the whole filter: for every matching archetype, the records of the result with that archetype number select exactly
   the processed positions -- no miss (<-) and chunk-precise (->) *)
Theorem job_filter_char s j s1 fas ai a :
  job_filter s j = Ok (s1, fas) ->
  nth_error (archs s) ai = Some a -> jmatch j a = true -> 0 < am_chunk a -> ver_wf a ->
  forall idx, (exists fa, In fa fas /\ fa_arch fa = ai /\ In idx (selected_of_blocks (fa_blocks fa))) <-> processed j a idx.
Proof.
  intros H Hn Hm Hcs Hwf idx. rewrite job_filter_unfold in H.
  assert (Hai : ai < length (archs s)) by (apply nth_error_Some; congruence).
  replace (length (archs s)) with (ai + S (length (archs s) - S ai)) in H by lia.
  rewrite seq_app in H. cbn [seq] in H. rewrite fold_res_app in H.
  destruct (fold_res (jf_step j) (seq 0 ai) (s, [])) as [[sa fa_a]|e] eqn:Ea; [|discriminate]. cbn [bind fold_res] in H.
  apply jf_fold_frame in Ea. destruct Ea as (_ & _ & Ea3 & exta & Ea4 & Ea5). simpl in Ea4. subst fa_a.
  assert (Hna : nth_error (archs sa) (0 + ai) = Some a).
  { rewrite Ea3; [assumption|]. intro F. apply in_seq in F. lia. }
  destruct (jf_step_char j sa exta (0 + ai) a Hna Hm Hcs Hwf) as (sb & extb & Eb & Hchar).
  rewrite Eb in H. cbn [bind] in H.
  pose proof (jf_step_frame _ _ _ _ _ _ Eb) as Fb. destruct Fb as (_ & _ & _ & extb' & Eb4 & Eb5).
  apply app_inv_head in Eb4. subst extb'.
  apply jf_fold_frame in H. destruct H as (_ & _ & _ & extc & Ec4 & Ec5). subst fas.
  rewrite <- Hchar. split.
  - intros (fa & Hin & Harch & Hsel). exists fa. split; [|assumption].
    apply in_app_or in Hin. destruct Hin as [Hin|Hin]; [apply in_app_or in Hin; destruct Hin as [Hin|Hin]; [|assumption]|]; exfalso.
    + rewrite Forall_forall in Ea5. specialize (Ea5 fa Hin). apply in_seq in Ea5. simpl in *. lia.
    + rewrite Forall_forall in Ec5. specialize (Ec5 fa Hin). apply in_seq in Ec5. simpl in *. lia.
  - intros (fa & Hin & Hsel). exists fa. split; [apply in_or_app; left; apply in_or_app; right; assumption|].
    split; [|assumption]. rewrite Forall_forall in Eb5. apply (Eb5 fa Hin).
Qed.

(* C07 at the level of the filter: an entity position whose chunk carries, for a checked component, a stamp newer than
   the job's last run is handed to the job *)
Theorem job_filter_no_miss s j s1 fas ai a idx i :
  job_filter s j = Ok (s1, fas) ->
  nth_error (archs s) ai = Some a -> jmatch j a = true -> 0 < am_chunk a -> ver_wf a -> gver_bounds a ->
  idx < length (am_ents a) -> In i (jcheck j a) ->
  (j_last j < nth (length (am_gver a) * (idx / am_chunk a) + i) (am_cver a) 0)%N ->
  exists fa, In fa fas /\ fa_arch fa = ai /\ In idx (selected_of_blocks (fa_blocks fa)).
Proof.
  intros H Hn Hm Hcs Hwf Hb Hidx Hi Hlt. apply (job_filter_char s j s1 fas ai a H Hn Hm Hcs Hwf idx).
  assert (Hc : lt_all (length (am_gver a)) (jcheck j a)) by (rewrite Hwf; apply comp_indices_lt).
  split; [assumption|]. split.
  - pose proof (global_test_no_skip a (jcheck j a) [] (j_last j) 0%N _ i Hb Hc Hi Hlt) as G.
    rewrite check_and_set_unfold in G. exact G.
  - apply need_flag_true. right; right. exists i. split; assumption.
Qed.

(* a job that never ran (last = null) or checks no component of the archetype processes every position *)
Theorem job_filter_first_run s j s1 fas ai a idx :
  job_filter s j = Ok (s1, fas) ->
  nth_error (archs s) ai = Some a -> jmatch j a = true -> 0 < am_chunk a -> ver_wf a ->
  j_last j = WV_NULL \/ jcheck j a = [] -> idx < length (am_ents a) ->
  exists fa, In fa fas /\ fa_arch fa = ai /\ In idx (selected_of_blocks (fa_blocks fa)).
Proof.
  intros H Hn Hm Hcs Hwf Hor Hidx. apply (job_filter_char s j s1 fas ai a H Hn Hm Hcs Hwf idx).
  split; [assumption|]. split; apply need_flag_true; destruct Hor; auto.
Qed.

(* C11 at the level of the filter: whatever is handed to the job lies in a chunk where a checked stamp is newer than last
   (or the job never ran / checks nothing there) *)
Theorem job_filter_precise s j s1 fas ai a idx fa :
  job_filter s j = Ok (s1, fas) ->
  nth_error (archs s) ai = Some a -> jmatch j a = true -> 0 < am_chunk a -> ver_wf a ->
  In fa fas -> fa_arch fa = ai -> In idx (selected_of_blocks (fa_blocks fa)) ->
  idx < length (am_ents a) /\
  (j_last j = WV_NULL \/ jcheck j a = [] \/
   exists i, In i (jcheck j a) /\ (j_last j < nth (length (am_gver a) * (idx / am_chunk a) + i) (am_cver a) 0)%N).
Proof.
  intros H Hn Hm Hcs Hwf Hin Harch Hsel.
  assert (P : processed j a idx) by (apply (job_filter_char s j s1 fas ai a H Hn Hm Hcs Hwf idx); exists fa; auto).
  destruct P as (P1 & _ & P3). split; [assumption|]. apply need_flag_true in P3. exact P3.
Qed.

(* ------------------------------------------------------------------------------------------ *)
(* (4) quiescence of the whole filter                                                          *)
Definition stamps_le (v : N) (a : archetype) : Prop :=
  Forall (fun x => (x <= v)%N) (am_gver a) /\ Forall (fun x => (x <= v)%N) (am_cver a).
(* for the archetypes the job looks at: it checks at least one of their components and no stamp is ahead of v *)
Definition caught_up (j : job) (v : N) (a : archetype) : Prop := jmatch j a = true -> jcheck j a <> [] /\ stamps_le v a.
(* the job after a run that had work at world version v *)
Definition relast (j : job) (v : N) : job := {| j_reqs := j_reqs j; j_check := j_check j; j_last := v |}.

Lemma jcheck_with_vers j a g c : jcheck j (with_vers a g c) = jcheck j a.
Proof. unfold jcheck. cbn [with_vers am_mask]. reflexivity. Qed.
Lemma jmatch_with_vers j a g c : jmatch j (with_vers a g c) = jmatch j a.
Proof. unfold jmatch. cbn [with_vers am_mask am_ents]. reflexivity. Qed.
Lemma jcheck_relast j w a : jcheck (relast j w) a = jcheck j a.
Proof. unfold jcheck. cbn [relast j_check]. reflexivity. Qed.
Lemma jmatch_relast j w a : jmatch (relast j w) a = jmatch j a.
Proof. unfold jmatch, job_required_mask. cbn [relast j_reqs]. reflexivity. Qed.

Lemma caught_up_with_vers j v a g c :
  caught_up j v a -> (stamps_le v a -> Forall (fun x => (x <= v)%N) g /\ Forall (fun x => (x <= v)%N) c) ->
  caught_up j v (with_vers a g c).
Proof.
  intros H Hgc Hm. rewrite jmatch_with_vers in Hm. destruct (H Hm) as (H1 & H2). split; [rewrite jcheck_with_vers; exact H1|].
  unfold stamps_le. cbn [with_vers am_gver am_cver]. exact (Hgc H2).
Qed.

Lemma caught_up_relast j w v a : caught_up (relast j w) v a <-> caught_up j v a.
Proof. unfold caught_up. rewrite jmatch_relast, jcheck_relast. reflexivity. Qed.

Lemma archs_set_arch st ai x : archs (set_arch st ai x) = upd (archs st) ai x.
Proof. reflexivity. Qed.

(* a run stamps with the current world version only: it keeps "no stamp ahead of wv" *)
Lemma jf_step_caught_up j st fas ai st1 fas1 :
  jf_step j (st, fas) ai = Ok (st1, fas1) ->
  Forall (caught_up j (wv st)) (archs st) -> Forall (caught_up j (wv st)) (archs st1).
Proof.
  rewrite jf_step_eq. intros H HF. destruct (nth_error (archs st) ai) as [a|] eqn:En; [|discriminate].
  assert (Ha : caught_up j (wv st) a) by (rewrite Forall_forall in HF; apply HF; eapply nth_error_In; exact En).
  destruct (negb (jmatch j a)); [inversion H; subst; assumption|].
  destruct (negb (need_flag _ _ _ _)).
  - inversion H; subst. rewrite archs_set_arch. apply Forall_upd; [assumption|].
    apply caught_up_with_vers; [assumption|]. intros (H1 & H2). split; assumption.
  - destruct (am_chunk a); [discriminate|]. inversion H; subst. rewrite archs_set_arch. apply Forall_upd; [assumption|].
    apply caught_up_with_vers; [assumption|]. intros (H1 & H2). split.
    + apply stamp_set_Forall; [assumption|apply N.le_refl].
    + unfold jchunks. apply filter_chunks_Forall; [assumption|apply N.le_refl].
Qed.

Lemma jf_fold_caught_up j : forall l st fas st1 fas1,
  fold_res (jf_step j) l (st, fas) = Ok (st1, fas1) ->
  Forall (caught_up j (wv st)) (archs st) -> Forall (caught_up j (wv st)) (archs st1).
Proof.
  induction l as [|ai t IH]; intros st fas st1 fas1 H HF.
  - simpl in H. inversion H; subst. assumption.
  - cbn [fold_res] in H. destruct (jf_step j (st, fas) ai) as [[st' fas']|e] eqn:E; [|discriminate]. cbn [bind] in H.
    pose proof (jf_step_caught_up _ _ _ _ _ _ E HF) as HF'. apply jf_step_frame in E. destruct E as (E1 & _).
    rewrite <- E1 in *. eapply IH; eassumption.
Qed.

(* a caught-up job: every step leaves the result list alone *)
Lemma jf_step_quiet j st fas ai :
  j_last j <> WV_NULL -> Forall (caught_up j (j_last j)) (archs st) -> ai < length (archs st) ->
  exists st1, jf_step j (st, fas) ai = Ok (st1, fas) /\ Forall (caught_up j (j_last j)) (archs st1) /\
              length (archs st1) = length (archs st).
Proof.
  intros Hnn HF Hai. rewrite jf_step_eq. destruct (nth_error (archs st) ai) as [a|] eqn:En.
  2:{ apply nth_error_None in En. lia. }
  assert (Ha : caught_up j (j_last j) a) by (rewrite Forall_forall in HF; apply HF; eapply nth_error_In; exact En).
  destruct (jmatch j a) eqn:Em; cbn [negb]; [|exists st; auto].
  destruct (Ha Em) as (Hne & Hg & Hc).
  assert (E : need_flag (am_gver a) 0 (jcheck j a) (j_last j) = false).
  { apply need_flag_false. repeat split; try assumption. intros i _. apply nth_Forall_le. assumption. }
  rewrite E. cbn [negb]. eexists. split; [reflexivity|]. rewrite archs_set_arch. split; [|apply upd_length].
  apply Forall_upd; [assumption|]. apply caught_up_with_vers; [assumption|]. intros (H1 & H2). split; assumption.
Qed.

Lemma jf_fold_quiet j : forall l st fas,
  j_last j <> WV_NULL -> Forall (caught_up j (j_last j)) (archs st) -> (forall k, In k l -> k < length (archs st)) ->
  exists st1, fold_res (jf_step j) l (st, fas) = Ok (st1, fas).
Proof.
  induction l as [|ai t IH]; intros st fas Hnn HF Hl; [exists st; reflexivity|].
  cbn [fold_res]. destruct (jf_step_quiet j st fas ai Hnn HF (Hl ai (or_introl eq_refl))) as (st' & E & HF' & Hlen).
  rewrite E. cbn [bind]. apply IH; try assumption. intros k Hk. rewrite Hlen. apply Hl. right. assumption.
Qed.

(* a job whose last run is not older than any stamp of the archetypes it looks at is handed nothing *)
Theorem job_filter_caught_up_quiet s j :
  j_last j <> WV_NULL -> Forall (caught_up j (j_last j)) (archs s) -> exists s1, job_filter s j = Ok (s1, []).
Proof.
  intros Hnn HF. rewrite job_filter_unfold. apply jf_fold_quiet; try assumption. intros k Hk. apply in_seq in Hk. lia.
Qed.

Theorem job_filter_keeps_caught_up s j s1 fas :
  job_filter s j = Ok (s1, fas) -> Forall (caught_up j (wv s)) (archs s) ->
  Forall (caught_up j (wv s)) (archs s1) /\ wv s1 = wv s.
Proof.
  intros H HF. rewrite job_filter_unfold in H. split; [eapply jf_fold_caught_up; eassumption|].
  apply jf_fold_frame in H. destruct H as (H & _). exact H.
Qed.

(* run the filter, remember the world version of that run as the job's last version (BaseJob::run does so when the run
   had work), and run the filter again on any state with the same archetypes (so: no write access, dirty mark or
   structural change in between; the world version may have moved): the second run is handed nothing *)
Theorem job_filter_twice_quiet s j s1 fas s1' :
  job_filter s j = Ok (s1, fas) -> wv s <> WV_NULL -> Forall (caught_up j (wv s)) (archs s) ->
  archs s1' = archs s1 ->
  exists s2, job_filter s1' (relast j (wv s)) = Ok (s2, []).
Proof.
  intros H Hnn HF Ha. destruct (job_filter_keeps_caught_up _ _ _ _ H HF) as (HF1 & _).
  apply job_filter_caught_up_quiet; [exact Hnn|]. rewrite Ha. cbn [relast j_last].
  eapply Forall_impl; [|exact HF1]. intros a Hc. apply caught_up_relast. exact Hc.
Qed.
