(* Basic lemmas about the Skeleton: lists with update, the free-list walk, version arithmetic. *)
Require Import Coq.Lists.List Coq.NArith.NArith Coq.Arith.Arith Coq.Bool.Bool Coq.micromega.Lia.
From Mustache Require Import Res Skeleton.
From Mustache.proofs Require Import ListLemmas.
Import ListNotations.

Lemma nth_error_upd {A} (l : list A) i j x :
  nth_error (upd l i x) j = if Nat.eqb i j && Nat.ltb i (length l) then Some x else nth_error l j.
Proof.
  revert i j; induction l as [|h t IH]; intros i j; simpl.
  - rewrite andb_false_r. destruct i; reflexivity.
  - destruct i as [|i], j as [|j]; simpl; try reflexivity. rewrite IH. reflexivity.
Qed.

Lemma nth_error_upd_same {A} (l : list A) i x : i < length l -> nth_error (upd l i x) i = Some x.
Proof. intros H. rewrite nth_error_upd, Nat.eqb_refl. apply Nat.ltb_lt in H. rewrite H. reflexivity. Qed.

Lemma nth_error_upd_other {A} (l : list A) i j x : i <> j -> nth_error (upd l i x) j = nth_error l j.
Proof. intros H. rewrite nth_error_upd. apply Nat.eqb_neq in H. rewrite H. reflexivity. Qed.

Lemma upd_res_ok {A} (l : list A) i x l' : upd_res l i x = Ok l' -> i < length l /\ l' = upd l i x.
Proof. unfold upd_res. destruct (Nat.ltb_spec i (length l)) as [Hlt|Hge]; intros E; inversion E; auto. Qed.

Lemma nth_res_ok {A} (l : list A) i a : nth_res l i = Ok a -> nth_error l i = Some a.
Proof. unfold nth_res. destruct (nth_error l i); intros H; inversion H; reflexivity. Qed.

Lemma nth_res_some {A} (l : list A) i a : nth_error l i = Some a -> nth_res l i = Ok a.
Proof. unfold nth_res. intros ->. reflexivity. Qed.

Lemma nth_error_app_last {A} (l : list A) x : nth_error (l ++ [x]) (length l) = Some x.
Proof. rewrite nth_error_app2 by lia. rewrite Nat.sub_diag. reflexivity. Qed.

(* ---- the free-list walk ---- *)
Lemma walk_length n h sl : length (walk n h sl) = n.
Proof. revert h; induction n as [|n IH]; intro h; simpl; [reflexivity|]. rewrite IH. reflexivity. Qed.

(* a slot the walk does not visit can be changed without changing the walk *)
Lemma walk_upd n : forall h sl j x,
  (forall i, In i (walk n h sl) -> N.to_nat i <> j) -> walk n h (upd sl j x) = walk n h sl.
Proof.
  induction n as [|n IH]; intros h sl j x H; simpl; [reflexivity|].
  assert (Hh : N.to_nat h <> j) by (apply H; left; reflexivity).
  rewrite nth_error_upd_other by congruence. f_equal. apply IH.
  intros i Hi. apply H. right. exact Hi.
Qed.

(* appending slots does not change a walk that stays in range *)
Lemma walk_app n : forall h sl ext,
  (forall i, In i (walk n h sl) -> N.to_nat i < length sl) -> walk n h (sl ++ ext) = walk n h sl.
Proof.
  induction n as [|n IH]; intros h sl ext H; simpl; [reflexivity|].
  assert (Hh : N.to_nat h < length sl) by (apply H; left; reflexivity).
  rewrite nth_error_app1 by assumption. f_equal. apply IH.
  intros i Hi. apply H. right. exact Hi.
Qed.

Lemma walk_S n h sl : walk (S n) h sl = h :: walk n (match nth_error sl (N.to_nat h) with Some x => s_id x | None => 0%N end) sl.
Proof. reflexivity. Qed.

(* ---- versions ---- *)
Lemma ver_succ_nowrap v : (v < NULL_VER)%N -> ((v + 1) mod VER_MOD = v + 1)%N.
Proof. unfold NULL_VER, VER_MOD. intros H. apply N.mod_small. lia. Qed.

Lemma handle_eqb_eq a b : handle_eqb a b = true <-> a = b.
Proof.
  unfold handle_eqb. destruct a as [a1 a2], b as [b1 b2]. simpl. rewrite andb_true_iff, !N.eqb_eq. split; [intros (-> & ->); reflexivity|intros H; inversion H; auto].
Qed.

Lemma is_null_ver h : (snd h < NULL_VER)%N -> is_null h = false.
Proof.
  unfold is_null. intros H. apply andb_false_iff. right. apply N.eqb_neq. lia.
Qed.

(* is_valid unfolded for a handle that is not null *)
Lemma is_valid_spec s i v : (v < NULL_VER)%N ->
  is_valid s (i, v) = match nth_error (slots s) (N.to_nat i) with Some sl => N.eqb (s_ver sl) v | None => false end.
Proof. intros H. unfold is_valid. rewrite is_null_ver by assumption. reflexivity. Qed.

(* ---- set_insert (the std::set of marked entities) ---- *)
Lemma set_insert_in l h x : In x (set_insert l h) <-> x = h \/ In x l.
Proof.
  induction l as [|a t IH]; simpl; [intuition|].
  destruct (handle_eqb a h) eqn:E.
  - apply handle_eqb_eq in E. subst. simpl. intuition.
  - destruct (handle_ltb h a); simpl; [intuition|]. rewrite IH. intuition.
Qed.

(* ---- archetypes ---- *)
Lemma find_arch_some l key k i : find_arch l key k = Some i ->
  k <= i /\ exists a, nth_error l (i - k) = Some a /\ a_key a = key.
Proof.
  revert k; induction l as [|a t IH]; intros k H; simpl in H; [discriminate|].
  destruct (N.eqb_spec (a_key a) key).
  - inversion H; subst. split; [lia|]. exists a. rewrite Nat.sub_diag. auto.
  - destruct (IH _ H) as (Hle & a' & Hn & Hk). split; [lia|]. exists a'. replace (i - k) with (S (i - S k)) by lia. auto.
Qed.

Lemma find_arch_none l key k : find_arch l key k = None -> forall a, In a l -> a_key a <> key.
Proof.
  revert k; induction l as [|a t IH]; intros k H a' Ha; simpl in *; [contradiction|].
  destruct (N.eqb_spec (a_key a) key); [discriminate|]. destruct Ha as [<-|Ha]; [assumption|eapply IH; eassumption].
Qed.

Lemma removelast_length {A} (l : list A) : length (removelast l) = pred (length l).
Proof. induction l as [|a t IH]; [reflexivity|]. destruct t; [reflexivity|]. simpl in *. rewrite IH. reflexivity. Qed.

Lemma nth_error_removelast {A} (l : list A) i : i < pred (length l) -> nth_error (removelast l) i = nth_error l i.
Proof.
  revert i; induction l as [|a t IH]; intros i H; [simpl in H; lia|].
  destruct t as [|b t']; [simpl in H; lia|].
  destruct i as [|i]; [reflexivity|]. simpl removelast. simpl nth_error at 1. rewrite IH by (simpl in *; lia). reflexivity.
Qed.

(* two slot tables that agree on the visited positions give the same walk *)
Lemma walk_ext n : forall h sl sl',
  (forall x, In x (walk n h sl) -> nth_error sl' (N.to_nat x) = nth_error sl (N.to_nat x)) -> walk n h sl' = walk n h sl.
Proof.
  induction n as [|n IH]; intros h sl sl' H; simpl; [reflexivity|].
  assert (Hh : nth_error sl' (N.to_nat h) = nth_error sl (N.to_nat h)) by (apply H; left; reflexivity).
  rewrite Hh. f_equal. apply IH. intros x Hx. apply H. right. exact Hx.
Qed.
