(* Proofs about the system ordering (Systems.v): the greedy placement returns a permutation that satisfies every
   constraint between present systems and the priority rule; it throws exactly when the constraints contain a knot
   (a non-empty set of systems each waiting for another member of the set), i.e. a cycle. *)
Require Import Coq.Lists.List Coq.ZArith.ZArith Coq.Arith.Arith Coq.Bool.Bool Coq.micromega.Lia Coq.Sorting.Permutation.
From Mustache Require Import Res Systems.
From Mustache.proofs Require Import ListLemmas.
Import ListNotations.

(* ---- membership helpers ---- *)
Lemma mem_in n l : mem n l = true <-> In n l.
Proof.
  unfold mem. rewrite existsb_exists. split.
  - intros (x & Hx & E). apply Nat.eqb_eq in E. subst. assumption.
  - intros H. exists n. split; [assumption|apply Nat.eqb_refl].
Qed.

Lemma remove_name_in l n x : In x (remove_name l n) <-> In x l /\ x <> n.
Proof.
  unfold remove_name. rewrite filter_In. rewrite negb_true_iff, Nat.eqb_neq. tauto.
Qed.

Lemma can_place_spec U y : can_place U y = true <-> (forall d, In d (c_after (s_cfg y)) -> ~ In d U).
Proof.
  unfold can_place. rewrite forallb_forall. split.
  - intros H d Hd Hu. specialize (H d Hd). rewrite negb_true_iff in H. apply mem_in in Hu. congruence.
  - intros H d Hd. rewrite negb_true_iff. destruct (mem d U) eqn:E; [|reflexivity]. apply mem_in in E. exfalso. eapply H; eassumption.
Qed.

(* ---- take_first: the first placeable element, the rest in the same order ---- *)
Lemma take_first_spec U l y rest :
  take_first U l = Some (y, rest) ->
  exists l1 l2, l = l1 ++ y :: l2 /\ rest = l1 ++ l2 /\ can_place U y = true /\ (forall z, In z l1 -> can_place U z = false).
Proof.
  revert y rest. induction l as [|a t IH]; intros y rest H; simpl in H; [discriminate|].
  destruct (can_place U a) eqn:Ea.
  - inversion H; subst. exists [], rest. repeat split; auto. intros z [].
  - destruct (take_first U t) as [[z r]|] eqn:Et; [|discriminate]. inversion H; subst.
    destruct (IH _ _ eq_refl) as (l1 & l2 & E1 & E2 & Hc & Hn). exists (a :: l1), l2. subst. repeat split; auto.
    intros z [E|E]; [subst; assumption|apply Hn; assumption].
Qed.

Lemma take_first_none U l : take_first U l = None -> forall z, In z l -> can_place U z = false.
Proof.
  induction l as [|a t IH]; intros H z Hz; simpl in *; [contradiction|].
  destruct (can_place U a) eqn:Ea; [discriminate|].
  destruct (take_first U t) as [[z' r]|] eqn:Et; [discriminate|].
  destruct Hz as [E|E]; [subst; assumption|apply IH; auto].
Qed.

(* ---- a valid order, as a proposition: at every step the placed system is placeable and no placeable system
        has a strictly larger priority key ---- *)
Fixpoint valid_order (s : smst) (U : list nat) (l : list sys) (out : list nat) : Prop :=
  match out with
  | [] => l = []
  | n :: rest =>
    exists l1 y l2, l = l1 ++ y :: l2 /\ s_name y = n /\ can_place U y = true /\
      (forall z, In z l -> can_place U z = true -> key_gt s z y = false) /\
      valid_order s (remove_name U n) (l1 ++ l2) rest
  end.

(* l is sorted by decreasing key: no later element is strictly greater than an earlier one *)
Fixpoint desc_sorted (s : smst) (l : list sys) : Prop :=
  match l with
  | [] => True
  | a :: t => (forall z, In z t -> key_gt s z a = false) /\ desc_sorted s t
  end.

Lemma desc_sorted_remove s l1 y l2 : desc_sorted s (l1 ++ y :: l2) -> desc_sorted s (l1 ++ l2).
Proof.
  induction l1 as [|a t IH]; simpl; intros H.
  - tauto.
  - destruct H as (H1 & H2). split; [|apply IH; assumption].
    intros z Hz. apply H1. apply in_app_or in Hz. apply in_or_app. destruct Hz; [left; assumption|right; right; assumption].
Qed.

Lemma desc_sorted_mid s l1 y l2 : desc_sorted s (l1 ++ y :: l2) -> forall z, In z l2 -> key_gt s z y = false.
Proof.
  induction l1 as [|a t IH]; simpl; intros H z Hz.
  - apply H; assumption.
  - apply IH; tauto.
Qed.

Lemma key_gt_irrefl s y : key_gt s y y = false.
Proof. unfold key_gt. rewrite Z.eqb_refl. rewrite Z.gtb_ltb. apply Z.ltb_irrefl. Qed.

(* the greedy loop produces a valid order of exactly the systems it was given *)
Lemma place_all_valid s : forall fuel U l acc out,
  desc_sorted s l -> place_all fuel U l acc = Ok out ->
  exists out', out = rev acc ++ out' /\ valid_order s U l out'.
Proof.
  induction fuel as [|f IH]; intros U l acc out Hs H.
  - destruct l; simpl in H; [|discriminate]. inversion H; subst. exists []. rewrite app_nil_r. split; reflexivity.
  - destruct l as [|a t]; [simpl in H; inversion H; subst; exists []; rewrite app_nil_r; split; reflexivity|].
    cbn [place_all] in H. destruct (take_first U (a :: t)) as [[y rest]|] eqn:Et; [|discriminate].
    destruct (take_first_spec _ _ _ _ Et) as (l1 & l2 & E1 & E2 & Hc & Hn). subst rest.
    assert (Hs' : desc_sorted s (l1 ++ l2)) by (rewrite E1 in Hs; eapply desc_sorted_remove; eassumption).
    destruct (IH _ _ _ _ Hs' H) as (out' & Eo & Hv).
    exists (s_name y :: out'). split.
    + rewrite Eo. simpl. rewrite <- app_assoc. reflexivity.
    + simpl. exists l1, y, l2. repeat split; auto.
      intros z Hz Hpz. change (In z (a :: t)) in Hz. rewrite E1 in Hz, Hs. apply in_app_or in Hz. destruct Hz as [Hz|[Hz|Hz]].
      * rewrite (Hn z Hz) in Hpz. discriminate.
      * subst. apply key_gt_irrefl.
      * eapply desc_sorted_mid; eassumption.
Qed.

(* ---- consequences of a valid order ---- *)
Lemma valid_order_perm s : forall out U l, valid_order s U l out -> Permutation out (map s_name l).
Proof.
  induction out as [|n rest IH]; intros U l H; simpl in H.
  - subst. constructor.
  - destruct H as (l1 & y & l2 & E & En & _ & _ & Hv). subst. apply IH in Hv.
    rewrite map_app. simpl. rewrite map_app in Hv. apply Permutation_cons_app. assumption.
Qed.

(* position-free formulation of "d runs before n": d is not among the names still to be placed when n is placed *)
Lemma valid_order_constraints s : forall out U l,
  valid_order s U l out ->
  forall pre n post, out = pre ++ n :: post ->
  forall y, In y l -> s_name y = n -> NoDup (map s_name l) ->
  forall d, In d (c_after (s_cfg y)) -> In d U -> In d pre.
Proof.
  induction out as [|m rest IH]; intros U l Hv pre n post Eo y Hy Hn Hnd d Hd HdU.
  - destruct pre; discriminate.
  - simpl in Hv. destruct Hv as (l1 & y0 & l2 & El & Em & Hc & _ & Hv').
    destruct pre as [|p pre'].
    + (* n is placed now: it is y0, which is placeable, so d is not in U *)
      simpl in Eo. injection Eo as Emn Erest.
      assert (Enames : s_name y = s_name y0) by congruence.
      assert (y = y0).
      { rewrite El in Hy, Hnd. apply in_app_or in Hy. rewrite map_app in Hnd. simpl in Hnd.
        apply NoDup_remove_2 in Hnd.
        destruct Hy as [Hy|[Hy|Hy]]; [|auto|].
        - exfalso. apply Hnd. apply in_or_app. left. rewrite <- Enames. apply in_map. assumption.
        - exfalso. apply Hnd. apply in_or_app. right. rewrite <- Enames. apply in_map. assumption. }
      subst y0. exfalso. rewrite can_place_spec in Hc. eapply Hc; eassumption.
    + simpl in Eo. injection Eo as Ep Erest.
      destruct (Nat.eq_dec d (s_name y0)) as [Ed|Hne]; [left; congruence|]. right.
      assert (Hy' : In y (l1 ++ l2)).
      { rewrite El in Hy. apply in_app_or in Hy. apply in_or_app. destruct Hy as [Hy|[Hy|Hy]]; [left; assumption| |right; assumption].
        subst y0. exfalso.
        (* the name of y occurs later in the output, but names are unique and y is consumed now *)
        apply valid_order_perm in Hv'. rewrite El in Hnd. rewrite map_app in Hnd. simpl in Hnd. apply NoDup_remove_2 in Hnd. apply Hnd.
        rewrite <- map_app. eapply Permutation_in; [exact Hv'|]. rewrite Erest, Hn. apply in_or_app. right. left. reflexivity. }
      eapply IH with (y := y) (pre := pre') (n := n) (post := post); try eassumption.
      * rewrite El in Hnd. rewrite map_app in Hnd |- *. simpl in Hnd. eapply NoDup_remove_1. eassumption.
      * apply remove_name_in. split; [assumption|]. congruence.
Qed.

(* the priority rule, position by position *)
Lemma valid_order_priority s : forall out U l,
  valid_order s U l out ->
  forall pre n post, out = pre ++ n :: post ->
  exists U' l' y, In y l' /\ s_name y = n /\ (forall z, In z l' -> can_place U' z = true -> key_gt s z y = false) /\
                  Permutation (n :: post) (map s_name l').
Proof.
  induction out as [|m rest IH]; intros U l Hv pre n post Eo.
  - destruct pre; discriminate.
  - destruct pre as [|p pre'].
    + simpl in Eo. inversion Eo; subst. pose proof (valid_order_perm _ _ _ _ Hv) as Hp.
      simpl in Hv. destruct Hv as (l1 & y0 & l2 & El & Em & Hc & Hk & Hv').
      exists U, l, y0. repeat split; auto. subst l. apply in_or_app. right. left. reflexivity.
    + simpl in Eo. inversion Eo; subst. simpl in Hv. destruct Hv as (l1 & y0 & l2 & El & Em & Hc & Hk & Hv').
      eapply IH; [eassumption|reflexivity].
Qed.

(* ---- stuck exactly on a knot ---- *)
Definition knot (l : list sys) (R : list sys) : Prop :=
  R <> [] /\ incl R l /\ forall y, In y R -> exists d, In d (c_after (s_cfg y)) /\ In d (map s_name R).

Lemma names_after_removal (l1 l2 : list sys) (y : sys) :
  NoDup (map s_name (l1 ++ y :: l2)) ->
  forall n, In n (map s_name (l1 ++ l2)) <-> In n (map s_name (l1 ++ y :: l2)) /\ n <> s_name y.
Proof.
  intros Hnd n. rewrite !map_app. simpl. rewrite !in_app_iff. simpl.
  rewrite map_app in Hnd. simpl in Hnd. apply NoDup_remove_2 in Hnd. rewrite in_app_iff in Hnd.
  split.
  - intros [H|H]; (split; [tauto|]); intros ->; tauto.
  - intros ([H|[H|H]] & Hne); [left; assumption|congruence|right; assumption].
Qed.

Lemma place_all_stuck_knot : forall fuel U l acc,
  NoDup (map s_name l) -> (forall n, In n U <-> In n (map s_name l)) ->
  length l < fuel ->
  (exists k, place_all fuel U l acc = Err (Throw k)) -> exists R, knot l R.
Proof.
  induction fuel as [|f IH]; intros U l acc Hnd HU Hf (k & H); [lia|].
  destruct l as [|a t]; [simpl in H; discriminate|].
  cbn [place_all] in H. destruct (take_first U (a :: t)) as [[y rest]|] eqn:Et.
  - destruct (take_first_spec _ _ _ _ Et) as (l1 & l2 & E1 & E2 & Hc & Hn). subst rest.
    assert (Hlen : length (l1 ++ l2) < f).
    { assert (length (a :: t) = length (l1 ++ y :: l2)) by (rewrite E1; reflexivity). rewrite app_length in *. simpl in *. lia. }
    rewrite E1 in Hnd, HU.
    destruct (IH (remove_name U (s_name y)) (l1 ++ l2) (s_name y :: acc)) as (R & Hne & Hin & Hk); auto.
    + rewrite map_app in Hnd |- *. simpl in Hnd. eapply NoDup_remove_1. eassumption.
    + intros n. rewrite remove_name_in, HU. symmetry. apply names_after_removal. assumption.
    + exists k. exact H.
    + exists R. split; [assumption|]. split; [|assumption].
      intros z Hz. apply Hin in Hz. rewrite E1. apply in_app_or in Hz. apply in_or_app. destruct Hz; [left|right; right]; assumption.
  - (* nothing is placeable: the whole remainder is a knot *)
    exists (a :: t). split; [discriminate|]. split; [apply incl_refl|].
    intros y Hy. pose proof (take_first_none _ _ Et y Hy) as Hc.
    destruct (forallb (fun d => negb (mem d U)) (c_after (s_cfg y))) eqn:Ef; [unfold can_place in Hc; congruence|].
    clear Hc. apply not_true_iff_false in Ef. rewrite forallb_forall in Ef.
    assert (exists d, In d (c_after (s_cfg y)) /\ In d U) as (d & Hd & HdU).
    { induction (c_after (s_cfg y)) as [|d ds IHd]; [exfalso; apply Ef; intros x []|].
      destruct (mem d U) eqn:Em; [exists d; split; [left; reflexivity|apply mem_in; assumption]|].
      destruct IHd as (d' & Hd' & HU'); [|exists d'; split; [right; assumption|assumption]].
      intros Hall. apply Ef. intros x [E|E]; [subst; rewrite Em; reflexivity|apply Hall; assumption]. }
    exists d. split; [assumption|apply HU; assumption].
Qed.

(* conversely: with a knot among the systems, the placement cannot succeed *)
Lemma knot_never_placed : forall fuel U l acc out R,
  NoDup (map s_name l) -> (forall n, In n U <-> In n (map s_name l)) ->
  knot l R -> place_all fuel U l acc = Ok out -> False.
Proof.
  induction fuel as [|f IH]; intros U l acc out R Hnd HU (Hne & Hin & Hk) H.
  - destruct l; simpl in H; [|discriminate]. destruct R as [|r R']; [congruence|]. exact (Hin r (or_introl eq_refl)).
  - destruct l as [|a t]; [destruct R as [|r R']; [congruence|exact (Hin r (or_introl eq_refl))]|].
    cbn [place_all] in H. destruct (take_first U (a :: t)) as [[y rest]|] eqn:Et; [|discriminate].
    destruct (take_first_spec _ _ _ _ Et) as (l1 & l2 & E1 & E2 & Hc & Hn). subst rest.
    rewrite E1 in Hnd, HU, Hin.
    (* y is not a member of the knot: every member waits for a name still unplaced *)
    assert (HyR : ~ In y R).
    { intros HyR. destruct (Hk y HyR) as (d & Hd & HdR). rewrite can_place_spec in Hc. apply (Hc d Hd).
      apply HU. apply in_map_iff in HdR. destruct HdR as (z & Ez & Hz). rewrite <- Ez. apply in_map. apply Hin. assumption. }
    eapply (IH (remove_name U (s_name y)) (l1 ++ l2) (s_name y :: acc) out R); try eassumption.
    + rewrite map_app in Hnd |- *. simpl in Hnd. eapply NoDup_remove_1. eassumption.
    + intros n. rewrite remove_name_in, HU. symmetry. apply names_after_removal. assumption.
    + split; [assumption|]. split; [|assumption].
      intros z Hz. specialize (Hin z Hz). apply in_app_or in Hin. apply in_or_app.
      destruct Hin as [Hi|[Hi|Hi]]; [left; assumption| |right; assumption]. subst. contradiction.
Qed.

(* the fuel given by reorder always suffices *)
Lemma place_all_fuel : forall fuel U l acc, length l < fuel -> place_all fuel U l acc <> Err OutOfFuel.
Proof.
  induction fuel as [|f IH]; intros U l acc Hf; [lia|].
  destruct l as [|a t]; [simpl; discriminate|].
  cbn [place_all]. destruct (take_first U (a :: t)) as [[y rest]|] eqn:Et; [|discriminate].
  destruct (take_first_spec _ _ _ _ Et) as (l1 & l2 & E1 & E2 & _ & _). subst rest.
  apply IH. assert (length (a :: t) = length (l1 ++ y :: l2)) by (rewrite E1; reflexivity). rewrite app_length in *. simpl in *. lia.
Qed.

Lemma place_all_err : forall fuel U l acc e, place_all fuel U l acc = Err e -> e = Throw 11 \/ e = OutOfFuel.
Proof.
  induction fuel as [|f IH]; intros U l acc e H.
  - destruct l; simpl in H; [discriminate|]. inversion H; auto.
  - destruct l as [|a t]; [simpl in H; discriminate|].
    cbn [place_all] in H. destruct (take_first U (a :: t)) as [[y rest]|]; [eapply IH; eassumption|inversion H; auto].
Qed.

(* ---- the sort ---- *)
Definition key (s : smst) (y : sys) : Z * Z := (group_priority s (c_group (s_cfg y)), c_prio (s_cfg y)).
Lemma key_gt_lex s a b : key_gt s a b = true <->
  (fst (key s a) > fst (key s b) \/ (fst (key s a) = fst (key s b) /\ snd (key s a) > snd (key s b)))%Z.
Proof.
  unfold key_gt, key. simpl. destruct (Z.eqb_spec (group_priority s (c_group (s_cfg a))) (group_priority s (c_group (s_cfg b)))) as [E|E].
  - rewrite Z.gtb_ltb, Z.ltb_lt. lia.
  - rewrite Z.gtb_ltb, Z.ltb_lt. lia.
Qed.

Lemma insert_sorted_in s y l z : In z (insert_sorted s y l) <-> z = y \/ In z l.
Proof.
  induction l as [|a t IH]; simpl; [intuition|].
  destruct (key_gt s y a); simpl; [intuition|]. rewrite IH. intuition.
Qed.

Lemma insert_sorted_desc s y l : desc_sorted s l -> desc_sorted s (insert_sorted s y l).
Proof.
  induction l as [|a t IH]; simpl; intros H.
  - split; [intros z []|exact I].
  - destruct H as (H1 & H2). destruct (key_gt s y a) eqn:E; simpl.
    + split; [|split; assumption].
      intros z [Hz|Hz].
      * subst. destruct (key_gt s z y) eqn:E2; [|reflexivity]. apply key_gt_lex in E, E2. lia.
      * specialize (H1 z Hz). destruct (key_gt s z y) eqn:E2; [|reflexivity].
        apply key_gt_lex in E, E2. apply not_true_iff_false in H1. exfalso. apply H1. apply key_gt_lex. lia.
    + split; [|apply IH; assumption].
      intros z Hz. apply insert_sorted_in in Hz. destruct Hz as [->|Hz]; [assumption|apply H1; assumption].
Qed.

Lemma sort_sys_desc s l : desc_sorted s (sort_sys s l).
Proof. induction l as [|a t IH]; simpl; [exact I|apply insert_sorted_desc; assumption]. Qed.

Lemma insert_sorted_perm s y l : Permutation (insert_sorted s y l) (y :: l).
Proof.
  induction l as [|a t IH]; simpl; [apply Permutation_refl|].
  destruct (key_gt s y a); [apply Permutation_refl|].
  eapply Permutation_trans; [apply perm_skip; exact IH|apply perm_swap].
Qed.

Lemma sort_sys_perm s l : Permutation (sort_sys s l) l.
Proof.
  induction l as [|a t IH]; simpl; [constructor|].
  eapply Permutation_trans; [apply insert_sorted_perm|apply perm_skip; assumption].
Qed.

(* ---- reorder as a whole ---- *)
Lemma upd_sys_names l n f : (forall y, s_name (f y) = s_name y) -> map s_name (upd_sys l n f) = map s_name l.
Proof.
  intros Hf. induction l as [|a t IH]; simpl; [reflexivity|].
  destruct (Nat.eqb (s_name a) n); simpl; [rewrite Hf; reflexivity|rewrite IH; reflexivity].
Qed.

Lemma fold_before_names l : map s_name (fold_before l) = map s_name l.
Proof.
  unfold fold_before.
  assert (G : forall (xs : list sys) acc, map s_name acc = map s_name l ->
     map s_name (fold_left (fun acc0 (y : sys) =>
        fold_left (fun acc2 b => upd_sys acc2 b (fun z =>
            set_sys z {| c_before := c_before (s_cfg z); c_after := add_set (c_after (s_cfg z)) (s_name y);
                         c_group := c_group (s_cfg z); c_prio := c_prio (s_cfg z) |} (s_state z)))
          (c_before (s_cfg y)) acc0) xs acc) = map s_name l).
  { induction xs as [|y ys IH]; intros acc Hacc; simpl; [assumption|]. apply IH.
    generalize (c_before (s_cfg y)) as bs. intros bs. revert acc Hacc. induction bs as [|b bs IHb]; intros acc Hacc; simpl; [assumption|].
    apply IHb. rewrite upd_sys_names; [assumption|reflexivity]. }
  apply G. reflexivity.
Qed.

Theorem reorder_sound s s' :
  reorder s = Ok s' -> NoDup (map s_name (infos s)) ->
  let present := fold_before (infos s) in
  let s1 := with_infos s present in
  Permutation (ordered s') (map s_name (infos s)) /\
  valid_order s1 (map s_name present) (sort_sys s1 present) (ordered s') /\
  infos s' = present.
Proof.
  intros H Hnd present s1. unfold reorder, bind in H. fold present in H. fold s1 in H.
  destruct (place_all (S (length present)) (map s_name present) (sort_sys s1 present) []) as [o|] eqn:Ep; [|discriminate].
  inversion H; subst; clear H. simpl.
  destruct (place_all_valid s1 _ _ _ _ _ (sort_sys_desc s1 present) Ep) as (out' & Eo & Hv). simpl in Eo. subst o.
  split; [|split; [assumption|reflexivity]].
  eapply Permutation_trans; [apply (valid_order_perm _ _ _ _ Hv)|].
  eapply Permutation_trans; [apply Permutation_map; apply sort_sys_perm|]. unfold present. rewrite fold_before_names. apply Permutation_refl.
Qed.

(* reorder throws exactly when the (folded) constraints between present systems contain a knot *)
Theorem reorder_throws_iff_knot s :
  NoDup (map s_name (infos s)) ->
  let present := fold_before (infos s) in
  ((exists k, reorder s = Err (Throw k)) <-> exists R, knot (sort_sys (with_infos s present) present) R).
Proof.
  intros Hnd present. set (s1 := with_infos s present).
  assert (Hnd' : NoDup (map s_name (sort_sys s1 present))).
  { eapply Permutation_NoDup; [apply Permutation_sym; apply Permutation_map; apply sort_sys_perm|]. unfold present. rewrite fold_before_names. assumption. }
  assert (HU : forall n, In n (map s_name present) <-> In n (map s_name (sort_sys s1 present))).
  { intros n. split; intros Hn; (eapply Permutation_in; [|exact Hn]); [apply Permutation_sym|]; apply Permutation_map; apply sort_sys_perm. }
  assert (Hlen : length (sort_sys s1 present) < S (length present)).
  { rewrite (Permutation_length (sort_sys_perm s1 present)). lia. }
  unfold reorder, bind. fold present. fold s1. split.
  - intros (k & H). destruct (place_all (S (length present)) (map s_name present) (sort_sys s1 present) []) as [o|e] eqn:Ep; [discriminate|].
    inversion H; subst. eapply place_all_stuck_knot; try eassumption. exists k. exact Ep.
  - intros (R & HR). destruct (place_all (S (length present)) (map s_name present) (sort_sys s1 present) []) as [o|e] eqn:Ep.
    + exfalso. eapply knot_never_placed; eassumption.
    + destruct (place_all_err _ _ _ _ _ Ep) as [->| ->]; [exists 11; reflexivity|].
      exfalso. exact (place_all_fuel _ _ _ _ Hlen Ep).
Qed.
