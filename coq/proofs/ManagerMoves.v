(* Function-level lemmas about the Manager model (C02): what pushBack, the cell writes, Archetype::insert,
   internalMove / remove (swap-remove) and externalMove do to the entity lists, the locations and the VALUES
   stored in the columns.  Each lemma describes the state after the call by equations. *)
Require Import Coq.Lists.List Coq.NArith.NArith Coq.ZArith.ZArith Coq.Arith.Arith Coq.Bool.Bool Coq.micromega.Lia.
From Mustache Require Import Res Manager MgrSpec Refine.
From Mustache.proofs Require Import ListLemmas SkelBasics ClosureProofs ManagerBasics.
Import ListNotations.

Ltac bd H x Hx := apply bindE in H; destruct H as (x & Hx & H).
Lemma bind_Ok {A B} (a : A) (f : A -> res B) : bind (Ok a) f = f a.
Proof. reflexivity. Qed.
Ltac bok H := rewrite bind_Ok in H; cbv beta in H.

(* ---------------------------------------------------------------------------------------- *)
(* frames: a state with some fields blanked; equality of frames = equality of all the other fields *)
Definition fr1 (s : mst) : mst := set_log (set_archs s []) [].                (* all but archs, log *)
Definition fr2 (s : mst) : mst := set_locs (fr1 s) [].                        (* ... and locs *)
Definition fr3 (s : mst) : mst := set_free (set_slots (fr2 s) []) 0 0.        (* ... and slots, free list *)

Lemma fr1_fr2 s s' : fr1 s' = fr1 s -> fr2 s' = fr2 s.
Proof. unfold fr2. intros ->. reflexivity. Qed.
Lemma fr2_fr3 s s' : fr2 s' = fr2 s -> fr3 s' = fr3 s.
Proof. unfold fr3. intros ->. reflexivity. Qed.
Lemma fr1_locs s s' : fr1 s' = fr1 s -> locs s' = locs s.
Proof. intros H. apply (f_equal locs) in H. exact H. Qed.
Lemma fr2_slots s s' : fr2 s' = fr2 s -> slots s' = slots s /\ next_slot s' = next_slot s /\ empty_slots s' = empty_slots s.
Proof.
  intros H. repeat split.
  - apply (f_equal slots) in H. exact H.
  - apply (f_equal next_slot) in H. exact H.
  - apply (f_equal empty_slots) in H. exact H.
Qed.
Lemma fr3_ctl s s' : fr3 s' = fr3 s ->
  lockc s' = lockc s /\ deps s' = deps s /\ cinfos s' = cinfos s /\ wv s' = wv s /\ next_eid s' = next_eid s /\
  marked s' = marked s /\ nthreads s' = nthreads s /\ def_chunk s' = def_chunk s /\ chunk_fns s' = chunk_fns s.
Proof.
  intros H. repeat split.
  - apply (f_equal lockc) in H. exact H.
  - apply (f_equal deps) in H. exact H.
  - apply (f_equal cinfos) in H. exact H.
  - apply (f_equal wv) in H. exact H.
  - apply (f_equal next_eid) in H. exact H.
  - apply (f_equal marked) in H. exact H.
  - apply (f_equal nthreads) in H. exact H.
  - apply (f_equal def_chunk) in H. exact H.
  - apply (f_equal chunk_fns) in H. exact H.
Qed.
Lemma fr1_cinfos s s' : fr1 s' = fr1 s -> cinfos s' = cinfos s.
Proof. intros H. apply (f_equal cinfos) in H. exact H. Qed.
Lemma fr1_wv s s' : fr1 s' = fr1 s -> wv s' = wv s.
Proof. intros H. apply (f_equal wv) in H. exact H. Qed.

(* the header of an archetype: mask, shared values, version-chunk size *)
Definition ab3 (a : archetype) : archetype := with_size (with_ents (ab2 a) []) 0.
Lemma ab2_ab3 a a' : ab2 a' = ab2 a -> ab3 a' = ab3 a.
Proof. unfold ab3. intros ->. reflexivity. Qed.
Lemma ab3_fields a a' : ab3 a' = ab3 a -> am_mask a' = am_mask a /\ am_shared a' = am_shared a /\ am_chunk a' = am_chunk a.
Proof.
  intros H. repeat split.
  - apply (f_equal am_mask) in H. exact H.
  - apply (f_equal am_shared) in H. exact H.
  - apply (f_equal am_chunk) in H. exact H.
Qed.

(* only the event log differs *)
Definition olog (s s' : mst) : Prop := fr1 s' = fr1 s /\ archs s' = archs s.
Lemma olog_refl s : olog s s. Proof. split; reflexivity. Qed.
Lemma olog_trans a b c : olog a b -> olog b c -> olog a c.
Proof. intros (A1 & A2) (B1 & B2). split; congruence. Qed.
Lemma olog_emit s e : olog s (emit s e). Proof. split; reflexivity. Qed.
Lemma olog_if (b : bool) s e : olog s (if b then emit s e else s).
Proof. destruct b; [apply olog_emit|apply olog_refl]. Qed.

Lemma fold_olog {A} (f : mst -> A -> res mst) l s s' :
  (forall st x st', f st x = Ok st' -> olog st st') -> fold_res f l s = Ok s' -> olog s s'.
Proof.
  intros Hf H. apply (fold_res_inv f (fun st => olog s st) l s s'); [apply olog_refl| |assumption].
  intros x st st' _ HP Hx. eapply olog_trans; [exact HP|]. eapply Hf. eassumption.
Qed.

Lemma info_of_ok s c inf : info_of s c = Ok inf -> nth_error (cinfos s) c = Some inf.
Proof. unfold info_of. destruct (nth_error (cinfos s) c); intros H; inversion H; reflexivity. Qed.

(* ---------------------------------------------------------------------------------------- *)
(* version stamps never touch anything else *)
Lemma vs_set_chunk_ok a v ch a' : vs_set_chunk a v ch = Ok a' -> exists g c, a' = with_vers a g c.
Proof.
  unfold vs_set_chunk. destruct (Nat.ltb _ _); [discriminate|]. intros E. inversion E. eauto.
Qed.

Lemma vs_emplace_ok a v idx a' : vs_emplace a v idx = Ok a' -> exists g c, a' = with_vers a g c.
Proof.
  unfold vs_emplace. intros H. bd H ch Hch.
  match type of H with vs_set_chunk ?x _ _ = _ => assert (E1 : exists g c, x = with_vers a g c) end.
  { destruct (Nat.leb _ _); [eauto|]. exists (am_gver a), (am_cver a). destruct a; reflexivity. }
  destruct E1 as (g1 & c1 & E1). rewrite E1 in H. apply vs_set_chunk_ok in H. destruct H as (g & c & ->). exists g, c. reflexivity.
Qed.

Lemma vs_set_one_ok a v ch ci a' : vs_set_one a v ch ci = Ok a' -> exists g c, a' = with_vers a g c.
Proof. unfold vs_set_one. intros H. bd H cv Hcv. bd H gv Hgv. inversion H. eauto. Qed.

Lemma update_location_ok s h l s' : update_location s h l = Ok s' ->
  N.to_nat (fst h) < length (locs s) /\ s' = set_locs s (upd (locs s) (N.to_nat (fst h)) l).
Proof.
  unfold update_location. intros H. bd H ls Hls. apply upd_res_ok in Hls. destruct Hls as (Hlt & ->).
  inversion H. auto.
Qed.

(* ---------------------------------------------------------------------------------------- *)
(* pushBack *)
Lemma push_back_ok s ai h s1 idx a : nth_error (archs s) ai = Some a -> push_back s ai h = Ok (s1, idx) ->
  idx = length (am_ents a) /\ exists a1, s1 = set_arch s ai a1 /\ ab3 a1 = ab3 a /\ am_cols a1 = am_cols a /\
    am_ents a1 = am_ents a ++ [h] /\ am_size a1 = Nat.max (am_size a) (S (length (am_ents a))).
Proof.
  intros Ha H. unfold push_back in H. rewrite (nth_res_some _ _ _ Ha) in H. bok H.
  bd H a1 Ha1. apply vs_emplace_ok in Ha1. destruct Ha1 as (g & c & ->). inversion H; subst; clear H.
  split; [reflexivity|]. eexists. split; [reflexivity|]. repeat split.
Qed.

Lemma write_cell_ok s ai ci slot v s' : write_cell s ai ci slot v = Ok s' ->
  exists a, nth_error (archs s) ai = Some a /\ s' = set_arch s ai (put_cell a ci slot v).
Proof. unfold write_cell. intros H. bd H a Ha. apply nth_res_ok in Ha. inversion H. eauto. Qed.

(* ---------------------------------------------------------------------------------------- *)
(* a state st reached from s by rewriting cells of slot idx of archetype ai (whose value in s is a) and logging *)
Definition cells_of (s : mst) (ai idx : nat) (a : archetype) (st : mst) (a_st : archetype) : Prop :=
  fr1 st = fr1 s /\ archs st = upd (archs s) ai a_st /\ ab1 a_st = ab1 a /\ length (am_cols a_st) = length (am_cols a) /\
  forall ci slot, slot <> idx -> get_cell a_st ci slot = get_cell a ci slot.

Lemma cells_of_refl s ai idx a : nth_error (archs s) ai = Some a -> cells_of s ai idx a s a.
Proof. intros Ha. split; [reflexivity|]. split; [symmetry; apply upd_same_id; assumption|]. repeat split. Qed.

Lemma cells_of_nth s ai idx a st a_st : nth_error (archs s) ai = Some a -> cells_of s ai idx a st a_st ->
  nth_error (archs st) ai = Some a_st.
Proof. intros Ha (_ & E & _). rewrite E. apply nth_error_upd_same. apply nth_error_Some. congruence. Qed.

Lemma cells_of_other s ai idx a st a_st j : cells_of s ai idx a st a_st -> j <> ai -> nth_error (archs st) j = nth_error (archs s) j.
Proof. intros (_ & E & _) Hj. rewrite E. apply nth_error_upd_other. congruence. Qed.

Lemma cells_of_olog s ai idx a st a_st st' : cells_of s ai idx a st a_st -> olog st st' -> cells_of s ai idx a st' a_st.
Proof. intros (A & B & C) (D & E). split; [congruence|]. split; [congruence|exact C]. Qed.

Lemma cells_of_put s ai idx a st a_st ci v : cells_of s ai idx a st a_st ->
  cells_of s ai idx a (set_arch st ai (put_cell a_st ci idx v)) (put_cell a_st ci idx v).
Proof.
  intros (A & B & C & D & E). split; [exact A|]. split; [simpl; rewrite B, upd_upd; reflexivity|].
  split; [rewrite ab1_put; exact C|]. split; [rewrite put_cell_cols_length; exact D|].
  intros ci' slot Hs. rewrite get_put_other_slot by congruence. apply E. assumption.
Qed.

Lemma cells_of_write s ai idx a st a_st ci v st' : nth_error (archs s) ai = Some a -> cells_of s ai idx a st a_st ->
  write_cell st ai ci idx v = Ok st' -> st' = set_arch st ai (put_cell a_st ci idx v) /\ cells_of s ai idx a st' (put_cell a_st ci idx v).
Proof.
  intros Ha Hc H. apply write_cell_ok in H. destruct H as (a0 & Ha0 & ->).
  rewrite (cells_of_nth _ _ _ _ _ _ Ha Hc) in Ha0. inversion Ha0; subst a0. split; [reflexivity|]. apply cells_of_put. assumption.
Qed.

(* a fold over the components of an archetype in which the step for (ci, c) rewrites at most cell (ci, idx) *)
Lemma fold_cols (f : mst -> nat * nat -> res mst) (Pre Post : nat -> nat -> cell -> Prop) s ai idx a comps :
  nth_error (archs s) ai = Some a ->
  (forall st a_st ci c st', cells_of s ai idx a st a_st -> nth_error comps ci = Some c -> f st (ci, c) = Ok st' ->
     exists a', cells_of s ai idx a st' a' /\ (forall ci', ci' <> ci -> get_cell a' ci' idx = get_cell a_st ci' idx) /\
                (Pre ci c (get_cell a_st ci idx) -> Post ci c (get_cell a' ci idx))) ->
  forall st0 a0 st', cells_of s ai idx a st0 a0 ->
  (forall ci c, nth_error comps ci = Some c -> Pre ci c (get_cell a0 ci idx)) ->
  fold_res f (combine (seq 0 (length comps)) comps) st0 = Ok st' ->
  exists a', cells_of s ai idx a st' a' /\ (forall ci c, nth_error comps ci = Some c -> Post ci c (get_cell a' ci idx)) /\
             (forall ci, length comps <= ci -> get_cell a' ci idx = get_cell a0 ci idx).
Proof.
  intros Ha Hstep st0 a0 st' H0 Hpre H.
  set (l := combine (seq 0 (length comps)) comps) in *.
  assert (Hnd : NoDup (map fst l)) by (unfold l; rewrite map_fst_combine_seq; apply seq_NoDup).
  pose (P := fun (done : list (nat * nat)) st => exists a_st, cells_of s ai idx a st a_st /\
                (forall ci c, In (ci, c) done -> Post ci c (get_cell a_st ci idx)) /\
                (forall ci, ~ In ci (map fst done) -> get_cell a_st ci idx = get_cell a0 ci idx)).
  assert (HP : P l st').
  { apply (fold_res_ind f P l st0 st'); [| |exact H].
    - exists a0. split; [exact H0|]. split; [intros ci c []|reflexivity].
    - intros done (ci, c) rest st st1 El (a_st & Hc & Hpost & Hun) Hf.
      assert (Hin : In (ci, c) l) by (rewrite El; apply in_or_app; right; left; reflexivity).
      assert (Hn : nth_error comps ci = Some c) by (apply in_combine_seq0; exact Hin).
      assert (Hnot : ~ In ci (map fst done)).
      { rewrite El, map_app in Hnd. simpl in Hnd. apply NoDup_remove_2 in Hnd. intros Hd. apply Hnd. apply in_or_app. left. exact Hd. }
      destruct (Hstep st a_st ci c st1 Hc Hn Hf) as (a' & Hc' & Hoth & Hpp).
      exists a'. split; [exact Hc'|]. split.
      + intros ci' c' Hin'. apply in_app_or in Hin'. destruct Hin' as [Hin'|[E|[]]].
        * assert (ci' <> ci) by (intros ->; apply Hnot; apply in_map_iff; exists (ci, c'); auto).
          rewrite Hoth by assumption. apply Hpost. exact Hin'.
        * inversion E; subst ci' c'. apply Hpp. rewrite Hun by exact Hnot. apply Hpre. exact Hn.
      + intros ci' Hni. rewrite map_app in Hni. simpl in Hni.
        assert (ci' <> ci) by (intros ->; apply Hni; apply in_or_app; right; left; reflexivity).
        rewrite Hoth by assumption. apply Hun. intros Hd. apply Hni. apply in_or_app. left. exact Hd. }
  destruct HP as (a' & Hc & Hpost & Hun). exists a'. split; [exact Hc|]. split.
  - intros ci c Hn. apply Hpost. apply in_combine_seq0. exact Hn.
  - intros ci Hci. apply Hun. unfold l. rewrite map_fst_combine_seq. intros Hin. apply in_seq in Hin. lia.
Qed.

(* ---------------------------------------------------------------------------------------- *)
(* the value a default construction leaves: functions.create, else the registered default value *)
Definition default_of (inf : cinfo) : cell := match ci_create inf with Some v => Some v | None => ci_default inf end.

Lemma default_cell_of cis c inf : nth_error cis c = Some inf -> default_cell cis c = default_of inf.
Proof. unfold default_cell, default_of. intros ->. reflexivity. Qed.

Lemma cell_le_refl_some v : cell_le (Some v) (Some v) = true.
Proof. simpl. apply Z.eqb_refl. Qed.
Lemma cell_le_none v : cell_le None v = true.
Proof. reflexivity. Qed.

(* InsertInfo::constructor / ExternalMoveInfo::constructorAndAfterAssign *)
Lemma construct_default_ok s ai idx a st a_st c ci h udv st' :
  nth_error (archs s) ai = Some a -> cells_of s ai idx a st a_st -> ci < length (am_cols a) ->
  construct_default st ai c ci idx h udv = Ok st' ->
  exists inf a', nth_error (cinfos s) c = Some inf /\ cells_of s ai idx a st' a' /\
    (forall ci', ci' <> ci -> get_cell a' ci' idx = get_cell a_st ci' idx) /\
    get_cell a' ci idx = match ci_create inf with
                         | Some v => Some v
                         | None => match ci_default inf with
                                   | Some v => if udv then Some v else get_cell a_st ci idx
                                   | None => get_cell a_st ci idx
                                   end
                         end.
Proof.
  intros Ha Hc Hci H. unfold construct_default in H. bd H inf Hinf. apply info_of_ok in Hinf.
  rewrite (fr1_cinfos _ _ (proj1 Hc)) in Hinf. bd H s1 Hs1. inversion H; subst st'; clear H.
  assert (Hlen : ci < length (am_cols a_st)) by (destruct Hc as (_ & _ & _ & E & _); lia).
  exists inf.
  assert (K : exists a', cells_of s ai idx a s1 a' /\ (forall ci', ci' <> ci -> get_cell a' ci' idx = get_cell a_st ci' idx) /\
              get_cell a' ci idx = match ci_create inf with
                         | Some v => Some v
                         | None => match ci_default inf with
                                   | Some v => if udv then Some v else get_cell a_st ci idx
                                   | None => get_cell a_st ci idx
                                   end
                         end).
  { destruct (ci_create inf) as [v|].
    - bd Hs1 s2 Hs2. inversion Hs1; subst s1; clear Hs1.
      destruct (cells_of_write _ _ _ _ _ _ _ _ _ Ha Hc Hs2) as (-> & Hc2).
      exists (put_cell a_st ci idx (Some v)). split; [eapply cells_of_olog; [exact Hc2|apply olog_if]|].
      split; [intros ci' Hne; apply get_put_other_col; congruence|apply get_put_same; exact Hlen].
    - destruct (ci_default inf) as [v|].
      + destruct udv.
        * destruct (cells_of_write _ _ _ _ _ _ _ _ _ Ha Hc Hs1) as (-> & Hc2).
          exists (put_cell a_st ci idx (Some v)). split; [exact Hc2|].
          split; [intros ci' Hne; apply get_put_other_col; congruence|apply get_put_same; exact Hlen].
        * inversion Hs1; subst s1. exists a_st. split; [exact Hc|]. split; reflexivity.
      + inversion Hs1; subst s1. exists a_st. split; [exact Hc|]. split; reflexivity. }
  destruct K as (a' & K1 & K2 & K3). exists a'. split; [exact Hinf|]. split; [|split; assumption].
  eapply cells_of_olog; [exact K1|apply olog_if].
Qed.

(* ---------------------------------------------------------------------------------------- *)
(* Archetype::insert: the new member gets the last slot, its location, and default-constructed cells *)
Lemma get_cell_cols a a' ci slot : am_cols a' = am_cols a -> get_cell a' ci slot = get_cell a ci slot.
Proof. unfold get_cell. intros ->. reflexivity. Qed.

(* the two constructor loops of Archetype::insert, over any component list *)
Lemma insert_loops s1 ai idx a1 h skip comps (sall : bool) s2 :
  nth_error (archs s1) ai = Some a1 -> length (am_cols a1) = length comps ->
  (sall = true -> forall c, In c comps -> mhas skip c = true) ->
  (if sall then Ok s1 else
    do s' <- fold_res (fun st (x : nat * nat) =>
        let '(ci, c) := x in
        do inf <- info_of st c;
        if (match ci_create inf with Some _ => true | None => false end) || ci_aa inf then
          if (skip =? 0)%N || negb (mhas skip c) then construct_default st ai c ci idx h false else Ok st
        else Ok st) (combine (seq 0 (length comps)) comps) s1;
    fold_res (fun st (x : nat * nat) =>
        let '(ci, c) := x in
        do inf <- info_of st c;
        if (match ci_create inf with Some _ => true | None => false end) || ci_aa inf then Ok st else
        match ci_default inf with
        | Some v => if (skip =? 0)%N || negb (mhas skip c) then write_cell st ai ci idx (Some v) else Ok st
        | None => Ok st
        end) (combine (seq 0 (length comps)) comps) s') = Ok s2 ->
  exists a2, cells_of s1 ai idx a1 s2 a2 /\
     forall ci c inf, nth_error comps ci = Some c -> mhas skip c = false -> nth_error (cinfos s1) c = Some inf ->
       match ci_create inf with
       | Some x => get_cell a2 ci idx = Some x
       | None => ci_aa inf = false -> forall x, ci_default inf = Some x -> get_cell a2 ci idx = Some x
       end.
Proof.
  intros Ha1 Hlen1 Hsall Hs2. destruct sall.
  - inversion Hs2; subst s2. exists a1. split; [apply cells_of_refl; exact Ha1|].
    intros ci c inf Hn Hsk. exfalso. assert (Hin : In c comps) by (eapply nth_error_In; eassumption).
    rewrite (Hsall eq_refl c Hin) in Hsk. discriminate.
  - bd Hs2 s15 Hf1.
    pose (Post1 := fun (ci c : nat) (v : cell) => mhas skip c = false -> forall inf, nth_error (cinfos s1) c = Some inf ->
                     forall x, ci_create inf = Some x -> v = Some x).
    pose (Post2 := fun (ci c : nat) (v : cell) => mhas skip c = false -> forall inf, nth_error (cinfos s1) c = Some inf ->
                     match ci_create inf with
                     | Some x => v = Some x
                     | None => ci_aa inf = false -> forall x, ci_default inf = Some x -> v = Some x
                     end).
    match type of Hf1 with fold_res ?f _ _ = _ =>
      assert (Hstep1 : forall st a_st ci c st', cells_of s1 ai idx a1 st a_st -> nth_error comps ci = Some c -> f st (ci, c) = Ok st' ->
         exists a', cells_of s1 ai idx a1 st' a' /\ (forall ci', ci' <> ci -> get_cell a' ci' idx = get_cell a_st ci' idx) /\
                    (True -> Post1 ci c (get_cell a' ci idx))) end.
    { intros st a_st ci c st' Hc Hn Hf. cbv beta iota in Hf. bd Hf inf Hinf. apply info_of_ok in Hinf.
      rewrite (fr1_cinfos _ _ (proj1 Hc)) in Hinf.
      assert (Hci : ci < length (am_cols a1)) by (rewrite Hlen1; apply nth_error_Some; congruence).
      assert (Hsame : exists a', cells_of s1 ai idx a1 st a' /\ (forall ci', ci' <> ci -> get_cell a' ci' idx = get_cell a_st ci' idx) /\
                 (ci_create inf = None \/ mhas skip c = true -> True -> Post1 ci c (get_cell a' ci idx))).
      { exists a_st. split; [exact Hc|]. split; [reflexivity|]. intros Hor _ Hsk inf' Hinf' x Hx.
        rewrite Hinf in Hinf'. inversion Hinf'; subst inf'. destruct Hor; congruence. }
      destruct (match ci_create inf with Some _ => true | None => false end || ci_aa inf) eqn:Econd.
      - destruct ((skip =? 0)%N || negb (mhas skip c)) eqn:Esk2.
        + destruct (construct_default_ok _ _ _ _ _ _ _ _ _ _ _ Ha1 Hc Hci Hf) as (inf' & a' & Hinf' & Hc' & Hoth & Hval).
          rewrite Hinf in Hinf'. inversion Hinf'; subst inf'.
          exists a'. split; [exact Hc'|]. split; [exact Hoth|]. intros _ Hsk inf'' Hinf'' x Hx.
          rewrite Hinf in Hinf''. inversion Hinf''; subst inf''. rewrite Hval, Hx. reflexivity.
        + inversion Hf; subst st'. destruct Hsame as (a' & A & B & C). exists a'. split; [exact A|]. split; [exact B|].
          apply C. right. apply orb_false_iff in Esk2. destruct Esk2 as (_ & E2). apply negb_false_iff in E2. exact E2.
      - inversion Hf; subst st'. destruct Hsame as (a' & A & B & C). exists a'. split; [exact A|]. split; [exact B|].
        apply C. left. apply orb_false_iff in Econd. destruct Econd as (E1 & _). destruct (ci_create inf); [discriminate|reflexivity]. }
    destruct (fold_cols _ (fun _ _ _ => True) Post1 s1 ai idx a1 comps Ha1 Hstep1 s1 a1 s15 (cells_of_refl _ _ _ _ Ha1) (fun _ _ _ => I) Hf1)
      as (a15 & Hc15 & Hpost1 & _).
    match type of Hs2 with fold_res ?f _ _ = _ =>
      assert (Hstep2 : forall st a_st ci c st', cells_of s1 ai idx a1 st a_st -> nth_error comps ci = Some c -> f st (ci, c) = Ok st' ->
         exists a', cells_of s1 ai idx a1 st' a' /\ (forall ci', ci' <> ci -> get_cell a' ci' idx = get_cell a_st ci' idx) /\
                    (Post1 ci c (get_cell a_st ci idx) -> Post2 ci c (get_cell a' ci idx))) end.
    { intros st a_st ci c st' Hc Hn Hf. cbv beta iota in Hf. bd Hf inf Hinf. apply info_of_ok in Hinf.
      rewrite (fr1_cinfos _ _ (proj1 Hc)) in Hinf.
      assert (Hci : ci < length (am_cols a_st)) by (destruct Hc as (_ & _ & _ & E & _); rewrite E, Hlen1; apply nth_error_Some; congruence).
      destruct (match ci_create inf with Some _ => true | None => false end || ci_aa inf) eqn:Econd.
      - inversion Hf; subst st'. exists a_st. split; [exact Hc|]. split; [reflexivity|].
        intros Hp1 Hsk inf' Hinf'. rewrite Hinf in Hinf'. inversion Hinf'; subst inf'.
        destruct (ci_create inf) as [x|] eqn:Ecr; [apply (Hp1 Hsk inf Hinf x Ecr)|].
        simpl in Econd. intros Haa. congruence.
      - apply orb_false_iff in Econd. destruct Econd as (E1 & E2).
        assert (Ecr : ci_create inf = None) by (destruct (ci_create inf); [discriminate|reflexivity]).
        destruct (ci_default inf) as [v|] eqn:Edf.
        + destruct ((skip =? 0)%N || negb (mhas skip c)) eqn:Esk2.
          * destruct (cells_of_write _ _ _ _ _ _ _ _ _ Ha1 Hc Hf) as (-> & Hc2).
            exists (put_cell a_st ci idx (Some v)). split; [exact Hc2|].
            split; [intros ci' Hne; apply get_put_other_col; congruence|].
            intros _ Hsk inf' Hinf'. rewrite Hinf in Hinf'. inversion Hinf'; subst inf'. rewrite Ecr. intros _ x Hx.
            rewrite get_put_same by exact Hci. congruence.
          * inversion Hf; subst st'. exists a_st. split; [exact Hc|]. split; [reflexivity|].
            intros _ Hsk. apply orb_false_iff in Esk2. destruct Esk2 as (_ & E3). apply negb_false_iff in E3. congruence.
        + inversion Hf; subst st'. exists a_st. split; [exact Hc|]. split; [reflexivity|].
          intros _ Hsk inf' Hinf'. rewrite Hinf in Hinf'. inversion Hinf'; subst inf'. rewrite Ecr. intros _ x Hx. congruence. }
    destruct (fold_cols _ Post1 Post2 s1 ai idx a1 comps Ha1 Hstep2 s15 a15 s2 Hc15 Hpost1 Hs2) as (a2 & Hc2 & Hpost2 & _).
    exists a2. split; [exact Hc2|]. intros ci c inf Hn Hsk Hinf. apply (Hpost2 ci c Hn Hsk inf Hinf).
Qed.

Lemma arch_insert_ok s ai h skip s' a :
  nth_error (archs s) ai = Some a -> length (am_cols a) = length (mitems (am_mask a)) ->
  arch_insert s ai h skip = Ok s' ->
  exists a3, fr2 s' = fr2 s /\ archs s' = upd (archs s) ai a3 /\
    N.to_nat (fst h) < length (locs s) /\
    locs s' = upd (locs s) (N.to_nat (fst h)) {| l_arch := Some ai; l_idx := length (am_ents a) |} /\
    ab3 a3 = ab3 a /\ am_ents a3 = am_ents a ++ [h] /\ am_size a3 = Nat.max (am_size a) (S (length (am_ents a))) /\
    length (am_cols a3) = length (am_cols a) /\
    (forall ci slot, slot <> length (am_ents a) -> get_cell a3 ci slot = get_cell a ci slot) /\
    (forall ci c inf, nth_error (mitems (am_mask a)) ci = Some c -> mhas skip c = false -> nth_error (cinfos s) c = Some inf ->
       match ci_create inf with
       | Some x => get_cell a3 ci (length (am_ents a)) = Some x
       | None => ci_aa inf = false -> forall x, ci_default inf = Some x -> get_cell a3 ci (length (am_ents a)) = Some x
       end).
Proof.
  intros Ha Hcols H. assert (Hai : ai < length (archs s)) by (apply nth_error_Some; congruence).
  unfold arch_insert in H. bd H r Hr. destruct r as (s1, idx).
  destruct (push_back_ok _ _ _ _ _ _ Ha Hr) as (-> & a1 & -> & Hab & Hc1 & He1 & Hz1). clear Hr.
  assert (Ha1 : nth_error (archs (set_arch s ai a1)) ai = Some a1) by (simpl; apply nth_error_upd_same; exact Hai).
  cbv beta iota in H. rewrite (nth_res_some _ _ _ Ha1) in H. bok H.
  destruct (ab3_fields _ _ Hab) as (Hm1 & _).
  assert (Hlen1 : length (am_cols a1) = length (mitems (am_mask a1))).
  { rewrite Hc1. rewrite Hm1. exact Hcols. }
  bd H s2 Hs2.
  apply (insert_loops _ _ _ _ _ _ _ _ _ Ha1 Hlen1) in Hs2.
  2:{ intros E c Hin. apply N.eqb_eq in E. rewrite E. apply mitems_in in Hin. tauto. }
  destruct Hs2 as (a2 & Hc2 & Hdef).
  pose proof (cells_of_nth _ _ _ _ _ _ Ha1 Hc2) as Ha2. rewrite (nth_res_some _ _ _ Ha2) in H. bok H.
  bd H a3 Ha3. apply vs_emplace_ok in Ha3. destruct Ha3 as (g & cv & ->).
  apply update_location_ok in H. destruct H as (Hlt & ->).
  destruct Hc2 as (F2 & A2 & B2 & L2 & C2).
  assert (Hlocs : locs s2 = locs s) by (rewrite (fr1_locs _ _ F2); reflexivity).
  exists (with_vers a2 g cv). cbn [locs set_locs archs set_arch set_archs fst].
  split; [change (fr2 s2 = fr2 s); rewrite (fr1_fr2 _ _ F2); reflexivity|].
  split; [rewrite A2; simpl; rewrite !upd_upd; reflexivity|].
  split; [rewrite <- Hlocs; exact Hlt|]. split; [rewrite Hlocs; reflexivity|].
  assert (Hab2 : ab3 a2 = ab3 a) by (rewrite <- Hab; apply ab2_ab3; apply ab1_ab2; exact B2).
  split; [exact Hab2|].
  destruct (ab2_fields _ _ (ab1_ab2 _ _ B2)) as (_ & _ & Ee & Ez & _).
  split; [simpl; rewrite Ee; exact He1|]. split; [simpl; rewrite Ez; exact Hz1|].
  split; [simpl; rewrite L2, Hc1; reflexivity|].
  split.
  - intros ci slot Hs. change (get_cell a2 ci slot = get_cell a ci slot). rewrite C2 by exact Hs. apply get_cell_cols. exact Hc1.
  - intros ci c inf Hn Hsk Hinf. rewrite <- Hm1 in Hn. apply (Hdef ci c inf Hn Hsk Hinf).
Qed.

(* ---------------------------------------------------------------------------------------- *)
(* callDestructor / popBack: the last slot is dropped; nothing is erased *)
Lemma call_destructor_ok s ai slot s' a : nth_error (archs s) ai = Some a -> call_destructor s ai slot = Ok s' ->
  fr1 s' = fr1 s /\ archs s' = upd (archs s) ai (with_size (with_ents a (removelast (am_ents a))) (pred (am_size a))).
Proof.
  intros Ha H. unfold call_destructor in H. rewrite (nth_res_some _ _ _ Ha) in H. bok H. cbv zeta in H.
  bd H s1 Hs1. apply fold_olog in Hs1.
  2:{ intros st c st' Hf. bd Hf inf Hinf. inversion Hf. apply olog_if. }
  destruct Hs1 as (F1 & A1). rewrite A1, (nth_res_some _ _ _ Ha) in H. bok H. inversion H; subst s'. simpl. rewrite A1. split; [exact F1|reflexivity].
Qed.

Lemma pop_back_ok s ai s' a : nth_error (archs s) ai = Some a -> pop_back s ai = Ok s' ->
  fr1 s' = fr1 s /\ archs s' = upd (archs s) ai (with_size (with_ents a (removelast (am_ents a))) (pred (am_size a))).
Proof.
  intros Ha H. unfold pop_back in H. rewrite (nth_res_some _ _ _ Ha) in H. bok H. inversion H. split; reflexivity.
Qed.

(* the move loop of internalMove: every column copies slot src to slot dst *)
Lemma move_loop s ai src dst a comps s1 :
  nth_error (archs s) ai = Some a -> length (am_cols a) = length comps -> src <> dst ->
  fold_res (fun st (x : nat * nat) =>
      let '(ci, c) := x in
      do inf <- info_of st c;
      do a' <- nth_res (archs st) ai;
      let st1 := set_arch st ai (put_cell a' ci dst (get_cell a' ci src)) in
      Ok (if ci_move inf && ci_ev inf then emit st1 (EvMA (ci_pal inf) (PArch ai c dst) (PArch ai c src)) else st1))
    (combine (seq 0 (length comps)) comps) s = Ok s1 ->
  exists a1, cells_of s ai dst a s1 a1 /\ (forall ci, ci < length comps -> get_cell a1 ci dst = get_cell a ci src).
Proof.
  intros Ha Hlen Hsd H.
  match type of H with fold_res ?f _ _ = _ =>
    assert (Hstep : forall st a_st ci c st', cells_of s ai dst a st a_st -> nth_error comps ci = Some c -> f st (ci, c) = Ok st' ->
       exists a', cells_of s ai dst a st' a' /\ (forall ci', ci' <> ci -> get_cell a' ci' dst = get_cell a_st ci' dst) /\
                  (True -> (fun (ci c : nat) (v : cell) => v = get_cell a ci src) ci c (get_cell a' ci dst))) end.
  { intros st a_st ci c st' Hc Hn Hf. cbv beta iota in Hf. bd Hf inf Hinf.
    rewrite (nth_res_some _ _ _ (cells_of_nth _ _ _ _ _ _ Ha Hc)) in Hf. bok Hf. cbv zeta in Hf. inversion Hf; subst st'; clear Hf.
    exists (put_cell a_st ci dst (get_cell a_st ci src)).
    split; [eapply cells_of_olog; [apply cells_of_put; exact Hc|apply olog_if]|].
    split; [intros ci' Hne; apply get_put_other_col; congruence|].
    intros _. rewrite get_put_same.
    - destruct Hc as (_ & _ & _ & _ & E). apply E. exact Hsd.
    - destruct Hc as (_ & _ & _ & E & _). rewrite E, Hlen. apply nth_error_Some. congruence. }
  destruct (fold_cols _ (fun _ _ _ => True) _ s ai dst a comps Ha Hstep s a s1 (cells_of_refl _ _ _ _ Ha) (fun _ _ _ => I) H)
    as (a1 & Hc1 & Hpost & _).
  exists a1. split; [exact Hc1|]. intros ci Hci. destruct (nth_error comps ci) as [c|] eqn:En.
  - apply (Hpost ci c En).
  - apply nth_error_None in En. lia.
Qed.

(* internalMove(src, dst): the member at src takes slot dst with all its cells; the last slot is dropped *)
Lemma internal_move_ok s ai src dst s' a :
  nth_error (archs s) ai = Some a -> length (am_cols a) = length (mitems (am_mask a)) -> src <> dst ->
  internal_move s ai src dst = Ok s' ->
  exists a' src_e dst_e, nth_error (am_ents a) src = Some src_e /\ nth_error (am_ents a) dst = Some dst_e /\
    fr2 s' = fr2 s /\ archs s' = upd (archs s) ai a' /\
    N.to_nat (fst dst_e) < length (locs s) /\ N.to_nat (fst src_e) < length (locs s) /\
    locs s' = upd (upd (locs s) (N.to_nat (fst dst_e)) default_loc) (N.to_nat (fst src_e)) {| l_arch := Some ai; l_idx := dst |} /\
    ab3 a' = ab3 a /\ length (am_cols a') = length (am_cols a) /\ am_size a' = pred (am_size a) /\
    am_ents a' = removelast (upd (am_ents a) dst src_e) /\
    (forall ci slot, slot <> dst -> get_cell a' ci slot = get_cell a ci slot) /\
    (forall ci, ci < length (mitems (am_mask a)) -> get_cell a' ci dst = get_cell a ci src).
Proof.
  intros Ha Hlen Hsd H. assert (Hai : ai < length (archs s)) by (apply nth_error_Some; congruence).
  unfold internal_move in H. rewrite (nth_res_some _ _ _ Ha) in H. bok H. cbv zeta in H.
  bd H s1 Hs1. apply (move_loop _ _ _ _ _ _ _ Ha Hlen Hsd) in Hs1. destruct Hs1 as (a1 & Hc1 & Hcp).
  pose proof (cells_of_nth _ _ _ _ _ _ Ha Hc1) as Ha1. rewrite (nth_res_some _ _ _ Ha1) in H. bok H.
  destruct Hc1 as (F1 & A1 & B1 & L1 & C1).
  destruct (ab2_fields _ _ (ab1_ab2 _ _ B1)) as (Em & Esh & Ee & Ez & Ech).
  bd H src_e Hsrc. apply nth_res_ok in Hsrc. bd H dst_e Hdst. apply nth_res_ok in Hdst. rewrite Ee in Hsrc, Hdst.
  bd H csrc Hcsrc. bd H cdst Hcdst. bd H a2 Ha2. apply vs_set_chunk_ok in Ha2. destruct Ha2 as (g2 & c2 & ->).
  bd H a3 Ha3. apply vs_set_chunk_ok in Ha3. destruct Ha3 as (g3 & c3 & ->).
  bd H s3 Hs3. apply update_location_ok in Hs3. destruct Hs3 as (Hlt3 & ->).
  bd H s4 Hs4. apply update_location_ok in Hs4. destruct Hs4 as (Hlt4 & ->).
  cbn [locs set_locs archs set_arch set_archs] in *.
  assert (Hai1 : ai < length (archs s1)) by (rewrite A1, upd_length; exact Hai).
  rewrite (nth_res_some _ _ _ (nth_error_upd_same (archs s1) ai _ Hai1)) in H. bok H.
  match type of H with call_destructor ?st _ _ = _ => set (s5 := st) in * end.
  assert (Ha5 : exists a5, nth_error (archs s5) ai = Some a5 /\ a5 = with_ents (with_vers (with_vers a1 g2 c2) g3 c3) (upd (am_ents a1) dst src_e)).
  { eexists. split; [|reflexivity]. unfold s5. cbn [archs set_arch set_archs set_locs]. apply nth_error_upd_same. rewrite !upd_length, A1, upd_length. exact Hai. }
  destruct Ha5 as (a5 & Ha5 & Ea5).
  destruct (call_destructor_ok _ _ _ _ _ Ha5 H) as (F6 & A6).
  assert (Hlocs1 : locs s1 = locs s) by (apply fr1_locs; exact F1).
  exists (with_size (with_ents a5 (removelast (am_ents a5))) (pred (am_size a5))), src_e, dst_e.
  split; [exact Hsrc|]. split; [exact Hdst|].
  split.
  { apply fr1_fr2 in F6. rewrite F6. unfold s5. change (fr2 s1 = fr2 s). apply fr1_fr2. exact F1. }
  split.
  { rewrite A6. unfold s5. cbn [archs set_arch set_archs set_locs]. rewrite A1, !upd_upd. reflexivity. }
  split; [rewrite <- Hlocs1; exact Hlt3|]. split; [rewrite <- Hlocs1; rewrite upd_length in Hlt4; exact Hlt4|].
  split.
  { rewrite (fr1_locs _ _ F6). unfold s5. cbn [locs set_arch set_archs set_locs]. rewrite Hlocs1. reflexivity. }
  subst a5. cbn [am_ents am_size am_cols with_size with_ents with_vers].
  split; [rewrite <- (ab2_ab3 _ _ (ab1_ab2 _ _ B1)); reflexivity|].
  split; [exact L1|]. split; [rewrite Ez; reflexivity|]. split; [rewrite Ee; reflexivity|].
  split.
  - intros ci slot Hs. apply (C1 ci slot Hs).
  - intros ci Hci. apply (Hcp ci Hci).
Qed.

(* ---------------------------------------------------------------------------------------- *)
(* Archetype::remove (swap-remove).  removed ai idx h a a' l0 l': archetype a lost its member at idx and became a';
   the location table l0 became l'.  Either idx was the last slot, or the LAST member moved into slot idx with
   all its cells, and every other member keeps its slot and its cells. *)
Definition removed (ai idx : nat) (h : handle) (a a' : archetype) (l0 l' : list loc) : Prop :=
  exists last, length (am_ents a) = S last /\ ab3 a' = ab3 a /\ length (am_cols a') = length (am_cols a) /\ am_size a' = last /\
   ((idx = last /\ am_ents a' = removelast (am_ents a) /\ (forall ci slot, get_cell a' ci slot = get_cell a ci slot) /\
     N.to_nat (fst h) < length l0 /\ l' = upd l0 (N.to_nat (fst h)) default_loc)
    \/
    (idx <> last /\ exists src dst, nth_error (am_ents a) last = Some src /\ nth_error (am_ents a) idx = Some dst /\
       am_ents a' = removelast (upd (am_ents a) idx src) /\
       (forall ci slot, slot <> idx -> get_cell a' ci slot = get_cell a ci slot) /\
       (forall ci, ci < length (mitems (am_mask a)) -> get_cell a' ci idx = get_cell a ci last) /\
       N.to_nat (fst dst) < length l0 /\ N.to_nat (fst src) < length l0 /\
       l' = upd (upd l0 (N.to_nat (fst dst)) default_loc) (N.to_nat (fst src)) {| l_arch := Some ai; l_idx := idx |})).

Lemma arch_remove_ok s ai idx h skip s' a :
  nth_error (archs s) ai = Some a -> am_size a = length (am_ents a) -> length (am_cols a) = length (mitems (am_mask a)) ->
  arch_remove s ai idx h skip = Ok s' ->
  exists a', fr2 s' = fr2 s /\ archs s' = upd (archs s) ai a' /\ removed ai idx h a a' (locs s) (locs s').
Proof.
  intros Ha Hsz Hlen H. assert (Hai : ai < length (archs s)) by (apply nth_error_Some; congruence).
  unfold arch_remove in H. rewrite (nth_res_some _ _ _ Ha) in H. bok H. cbv zeta in H.
  bd H ent0 Hent. clear Hent. bd H s1 Hs1. apply fold_olog in Hs1.
  2:{ intros st c st' Hf. bd Hf inf Hinf. inversion Hf. apply olog_if. }
  destruct Hs1 as (F1 & A1). rewrite Hsz in H.
  destruct (length (am_ents a)) as [|last] eqn:El; [discriminate|].
  assert (Ha1 : nth_error (archs s1) ai = Some a) by (rewrite A1; exact Ha).
  assert (Hlocs1 : locs s1 = locs s) by (apply fr1_locs; exact F1).
  destruct (Nat.eqb_spec idx last) as [->|Hne].
  - bd H s2 Hs2.
    assert (K : fr1 s2 = fr1 s1 /\ archs s2 = upd (archs s1) ai (with_size (with_ents a (removelast (am_ents a))) (pred (am_size a)))).
    { destruct (any_destroy s1 (am_mask a)); [eapply call_destructor_ok|eapply pop_back_ok]; eassumption. }
    destruct K as (F2 & A2).
    rewrite A2 in H. rewrite (nth_res_some _ _ _ (nth_error_upd_same (archs s1) ai _ ltac:(rewrite A1; exact Hai))) in H. bok H.
    bd H ch Hch. bd H a3 Ha3. apply vs_set_chunk_ok in Ha3. destruct Ha3 as (g & c & ->).
    apply update_location_ok in H. destruct H as (Hlt & ->).
    eexists. cbn [locs set_locs archs set_arch set_archs].
    split; [change (fr2 s2 = fr2 s); rewrite (fr1_fr2 _ _ F2); apply fr1_fr2; exact F1|].
    split; [rewrite A2, A1, !upd_upd; reflexivity|].
    exists last. split; [exact El|]. split; [reflexivity|]. split; [reflexivity|].
    split; [cbn [am_size with_size with_ents with_vers]; rewrite Hsz; reflexivity|].
    left. split; [reflexivity|]. split; [reflexivity|]. split; [reflexivity|].
    cbn [locs set_arch set_archs] in Hlt. rewrite (fr1_locs _ _ F2), Hlocs1 in *. split; [exact Hlt|reflexivity].
  - destruct (internal_move_ok _ _ _ _ _ _ Ha1 Hlen (not_eq_sym Hne) H)
      as (a' & src_e & dst_e & Hsrc & Hdst & F2 & A2 & Hl1 & Hl2 & EL & Hab & Hcl & Hz & Hen & Hc1 & Hc2).
    exists a'. split; [rewrite F2; apply fr1_fr2; exact F1|]. split; [rewrite A2, A1; reflexivity|].
    exists last. split; [exact El|]. split; [exact Hab|]. split; [exact Hcl|]. split; [rewrite Hz, Hsz; reflexivity|].
    right. split; [exact Hne|]. exists src_e, dst_e. rewrite Hlocs1 in *.
    repeat (split; [assumption|]). exact EL.
Qed.

(* where the members of the archetype are after a removal: the member now at slot idx' was at slot old, with the same cells *)
Lemma removed_members ai idx h a a' l0 l' : removed ai idx h a a' l0 l' ->
  forall idx' h', nth_error (am_ents a') idx' = Some h' ->
  exists old, old <> idx /\ nth_error (am_ents a) old = Some h' /\
    (forall ci, ci < length (mitems (am_mask a)) -> get_cell a' ci idx' = get_cell a ci old) /\
    (old = idx' \/ (idx' = idx /\ S old = length (am_ents a))).
Proof.
  intros (last & El & Hab & Hcl & Hz & [(-> & He & Hc & _)|(Hne & src & dst & Hsrc & Hdst & He & Hc1 & Hc2 & _)]) idx' h' Hn.
  - rewrite He in Hn. assert (Hlt : idx' < last).
    { assert (idx' < length (removelast (am_ents a))) by (apply nth_error_Some; congruence). rewrite removelast_length, El in H. exact H. }
    rewrite nth_error_removelast in Hn by (rewrite El; exact Hlt).
    exists idx'. split; [lia|]. split; [exact Hn|]. split; [intros ci _; apply Hc|left; reflexivity].
  - rewrite He in Hn. assert (Hlt : idx' < last).
    { assert (idx' < length (removelast (upd (am_ents a) idx src))) by (apply nth_error_Some; congruence).
      rewrite removelast_length, upd_length, El in H. exact H. }
    rewrite nth_error_removelast in Hn by (rewrite upd_length, El; exact Hlt).
    rewrite nth_error_upd in Hn. destruct (Nat.eqb_spec idx idx') as [<-|Hni]; simpl in Hn.
    + assert (Hb : (idx <? length (am_ents a)) = true) by (apply Nat.ltb_lt; lia). rewrite Hb in Hn. inversion Hn; subst h'.
      exists last. split; [lia|]. split; [exact Hsrc|]. split; [exact Hc2|right; split; [reflexivity|lia]].
    + exists idx'. split; [congruence|]. split; [exact Hn|]. split; [intros ci _; apply Hc1; congruence|left; reflexivity].
Qed.

(* nobody else enters the archetype, and every other member stays *)
Lemma removed_keeps ai idx h a a' l0 l' : removed ai idx h a a' l0 l' ->
  forall old h', nth_error (am_ents a) old = Some h' -> old <> idx -> In h' (am_ents a').
Proof.
  intros (last & El & Hab & Hcl & Hz & [(-> & He & Hc & _)|(Hne & src & dst & Hsrc & Hdst & He & Hc1 & Hc2 & _)]) old h' Hn Hoi.
  - assert (old < S last) by (rewrite <- El; apply nth_error_Some; congruence).
    apply nth_error_In with old. rewrite He, nth_error_removelast by (rewrite El; simpl; lia). exact Hn.
  - assert (old < S last) by (rewrite <- El; apply nth_error_Some; congruence).
    assert (idx < S last) by (rewrite <- El; apply nth_error_Some; congruence).
    destruct (Nat.eq_dec old last) as [->|Hol].
    + rewrite Hsrc in Hn. inversion Hn; subst h'. apply nth_error_In with idx.
      rewrite He, nth_error_removelast by (rewrite upd_length, El; simpl; lia). apply nth_error_upd_same. lia.
    + apply nth_error_In with old. rewrite He, nth_error_removelast by (rewrite upd_length, El; simpl; lia).
      rewrite nth_error_upd_other by congruence. exact Hn.
Qed.

(* ---------------------------------------------------------------------------------------- *)
(* Archetype::externalMove: the loop over the components of the target archetype *)
Lemma extmove_loop s1 ai idx a1 prev pidx pa h skip comps s2 :
  nth_error (archs s1) ai = Some a1 -> nth_error (archs s1) prev = Some pa -> ai <> prev ->
  length (am_cols a1) = length comps ->
  fold_res (fun st (x : nat * nat) =>
      let '(ci, c) := x in
      do inf <- info_of st c;
      do pa' <- nth_res (archs st) prev;
      match cindex (am_mask pa') c with
      | Some pci =>
        if Nat.ltb pidx (am_size pa') then
          do st1 <- write_cell st ai ci idx (get_cell pa' pci pidx);
          Ok (if ci_mctor inf && ci_ev inf then emit st1 (EvMC (ci_pal inf) (PArch ai c idx) (PArch prev c pidx)) else st1)
        else Err OobIndex
      | None =>
        if ((match ci_create inf with Some _ => true | None => false end) ||
            (match ci_default inf with Some _ => true | None => false end) || ci_aa inf) && negb (mhas skip c)
        then construct_default st ai c ci idx h true else Ok st
      end) (combine (seq 0 (length comps)) comps) s1 = Ok s2 ->
  exists a2, cells_of s1 ai idx a1 s2 a2 /\
    forall ci c, nth_error comps ci = Some c ->
      (forall pci, cindex (am_mask pa) c = Some pci -> get_cell a2 ci idx = get_cell pa pci pidx) /\
      (cindex (am_mask pa) c = None -> mhas skip c = false -> cell_le (default_cell (cinfos s1) c) (get_cell a2 ci idx) = true).
Proof.
  intros Ha1 Hpa Hne Hlen H.
  pose (Post := fun (ci c : nat) (v : cell) =>
      (forall pci, cindex (am_mask pa) c = Some pci -> v = get_cell pa pci pidx) /\
      (cindex (am_mask pa) c = None -> mhas skip c = false -> cell_le (default_cell (cinfos s1) c) v = true)).
  match type of H with fold_res ?f _ _ = _ =>
    assert (Hstep : forall st a_st ci c st', cells_of s1 ai idx a1 st a_st -> nth_error comps ci = Some c -> f st (ci, c) = Ok st' ->
       exists a', cells_of s1 ai idx a1 st' a' /\ (forall ci', ci' <> ci -> get_cell a' ci' idx = get_cell a_st ci' idx) /\
                  (True -> Post ci c (get_cell a' ci idx))) end.
  { intros st a_st ci c st' Hc Hn Hf. cbv beta iota in Hf. bd Hf inf Hinf. apply info_of_ok in Hinf.
    rewrite (fr1_cinfos _ _ (proj1 Hc)) in Hinf.
    assert (Hpa' : nth_error (archs st) prev = Some pa) by (rewrite (cells_of_other _ _ _ _ _ _ prev Hc) by congruence; exact Hpa).
    rewrite (nth_res_some _ _ _ Hpa') in Hf. bok Hf.
    assert (Hci1 : ci < length (am_cols a1)) by (rewrite Hlen; apply nth_error_Some; congruence).
    assert (Hci : ci < length (am_cols a_st)) by (destruct Hc as (_ & _ & _ & E & _); rewrite E; exact Hci1).
    destruct (cindex (am_mask pa) c) as [pci|] eqn:Ecx.
    - destruct (Nat.ltb pidx (am_size pa)); [|discriminate]. bd Hf st1 Hw.
      destruct (cells_of_write _ _ _ _ _ _ _ _ _ Ha1 Hc Hw) as (-> & Hc2). inversion Hf; subst st'; clear Hf.
      eexists. split; [eapply cells_of_olog; [exact Hc2|apply olog_if]|].
      split; [intros ci' Hn'; apply get_put_other_col; congruence|].
      intros _. unfold Post. rewrite Ecx. split; [|discriminate]. intros pci' E. inversion E; subst pci'. apply get_put_same. exact Hci.
    - match type of Hf with (if ?b then _ else _) = _ => destruct b eqn:Econd end.
      + destruct (construct_default_ok _ _ _ _ _ _ _ _ _ _ _ Ha1 Hc Hci1 Hf) as (inf' & a' & Hinf' & Hc' & Hoth & Hval).
        rewrite Hinf in Hinf'. inversion Hinf'; subst inf'.
        exists a'. split; [exact Hc'|]. split; [exact Hoth|]. intros _. unfold Post. rewrite Ecx. split; [discriminate|]. intros _ _.
        rewrite Hval, (default_cell_of _ _ _ Hinf). unfold default_of.
        destruct (ci_create inf) as [x|]; [apply cell_le_refl_some|]. destruct (ci_default inf) as [x|]; [apply cell_le_refl_some|reflexivity].
      + inversion Hf; subst st'. exists a_st. split; [exact Hc|]. split; [reflexivity|]. intros _. unfold Post. rewrite Ecx. split; [discriminate|]. intros _ Hsk.
        rewrite Hsk in Econd. simpl in Econd. rewrite andb_true_r in Econd. apply orb_false_iff in Econd. destruct Econd as (Econd & _).
        apply orb_false_iff in Econd. destruct Econd as (E1 & E2).
        rewrite (default_cell_of _ _ _ Hinf). unfold default_of. destruct (ci_create inf); [discriminate|]. destruct (ci_default inf); [discriminate|]. reflexivity. }
  destruct (fold_cols _ (fun _ _ _ => True) Post s1 ai idx a1 comps Ha1 Hstep s1 a1 s2 (cells_of_refl _ _ _ _ Ha1) (fun _ _ _ => I) H)
    as (a2 & Hc2 & Hpost & _).
  exists a2. split; [exact Hc2|]. intros ci c Hn. apply (Hpost ci c Hn).
Qed.

(* externalMove: the entity gets the last slot of the target archetype; the cells of the components both archetypes have
   are those it had; the other components of the target are default-constructed (unless skipped); it leaves the previous
   archetype by swap-remove; its location is the new slot *)
Lemma external_move_ok s ai h prev pidx skip s' a pa :
  nth_error (archs s) ai = Some a -> nth_error (archs s) prev = Some pa ->
  length (am_cols a) = length (mitems (am_mask a)) ->
  am_size pa = length (am_ents pa) -> length (am_cols pa) = length (mitems (am_mask pa)) ->
  external_move s ai h prev pidx skip = Ok s' ->
  ai <> prev /\ exists a2 pa' pent l3,
    fr2 s' = fr2 s /\ archs s' = upd (upd (archs s) ai a2) prev pa' /\
    nth_error (am_ents pa) pidx = Some pent /\ removed prev pidx pent pa pa' (locs s) l3 /\
    N.to_nat (fst h) < length l3 /\ locs s' = upd l3 (N.to_nat (fst h)) {| l_arch := Some ai; l_idx := length (am_ents a) |} /\
    ab3 a2 = ab3 a /\ am_ents a2 = am_ents a ++ [h] /\ am_size a2 = Nat.max (am_size a) (S (length (am_ents a))) /\
    length (am_cols a2) = length (am_cols a) /\
    (forall ci slot, slot <> length (am_ents a) -> get_cell a2 ci slot = get_cell a ci slot) /\
    (forall ci c, nth_error (mitems (am_mask a)) ci = Some c ->
       (forall pci, cindex (am_mask pa) c = Some pci -> get_cell a2 ci (length (am_ents a)) = get_cell pa pci pidx) /\
       (cindex (am_mask pa) c = None -> mhas skip c = false ->
        cell_le (default_cell (cinfos s) c) (get_cell a2 ci (length (am_ents a))) = true)).
Proof.
  intros Ha Hpa Hcols Hpsz Hpcols H. assert (Hai : ai < length (archs s)) by (apply nth_error_Some; congruence).
  unfold external_move in H. destruct (Nat.eqb_spec ai prev) as [|Hne]; [discriminate|]. split; [exact Hne|].
  bd H r Hr. destruct r as (s1, idx).
  destruct (push_back_ok _ _ _ _ _ _ Ha Hr) as (-> & a1 & -> & Hab & Hc1 & He1 & Hz1). clear Hr.
  assert (Ha1 : nth_error (archs (set_arch s ai a1)) ai = Some a1) by (simpl; apply nth_error_upd_same; exact Hai).
  assert (Hpa1 : nth_error (archs (set_arch s ai a1)) prev = Some pa) by (simpl; rewrite nth_error_upd_other by exact Hne; exact Hpa).
  cbv beta iota in H. rewrite (nth_res_some _ _ _ Ha1) in H. bok H. rewrite (nth_res_some _ _ _ Hpa1) in H. bok H. cbv zeta in H.
  destruct (ab3_fields _ _ Hab) as (Hm1 & _).
  assert (Hlen1 : length (am_cols a1) = length (mitems (am_mask a1))).
  { rewrite Hc1. rewrite Hm1. exact Hcols. }
  bd H s2 Hs2. apply (extmove_loop _ _ _ _ _ _ _ _ _ _ _ Ha1 Hpa1 Hne Hlen1) in Hs2. destruct Hs2 as (a2 & Hc2 & Hval).
  assert (Hpa2 : nth_error (archs s2) prev = Some pa) by (rewrite (cells_of_other _ _ _ _ _ _ prev Hc2) by congruence; exact Hpa1).
  rewrite (nth_res_some _ _ _ Hpa2) in H. bok H. bd H pent Hpent. apply nth_res_ok in Hpent.
  bd H s3 Hs3. destruct (arch_remove_ok _ _ _ _ _ _ _ Hpa2 Hpsz Hpcols Hs3) as (pa' & F3 & A3 & Hrm).
  apply update_location_ok in H. destruct H as (Hlt & ->).
  destruct Hc2 as (F2 & A2 & B2 & L2 & C2).
  assert (Hlocs2 : locs s2 = locs s) by (rewrite (fr1_locs _ _ F2); reflexivity).
  exists a2, pa', pent, (locs s3). cbn [locs set_locs archs set_archs].
  split; [change (fr2 s3 = fr2 s); rewrite F3, (fr1_fr2 _ _ F2); reflexivity|].
  split; [rewrite A3, A2; simpl; rewrite upd_upd; reflexivity|].
  split; [exact Hpent|]. split; [rewrite <- Hlocs2; exact Hrm|]. split; [exact Hlt|]. split; [reflexivity|].
  split; [rewrite <- Hab; apply ab2_ab3; apply ab1_ab2; exact B2|].
  destruct (ab2_fields _ _ (ab1_ab2 _ _ B2)) as (_ & _ & Ee & Ez & _).
  split; [rewrite Ee; exact He1|]. split; [rewrite Ez; exact Hz1|]. split; [rewrite L2, Hc1; reflexivity|].
  split.
  - intros ci slot Hs. rewrite C2 by exact Hs. apply get_cell_cols. exact Hc1.
  - intros ci c Hn. rewrite <- Hm1 in Hn. apply (Hval ci c Hn).
Qed.

(* ---------------------------------------------------------------------------------------- *)
(* getArchetype without dependencies *)
Definition new_arch (m : mask) (sh : shared_info) (cs : nat) : archetype :=
  {| am_mask := m; am_shared := sh; am_ents := []; am_cols := repeat [] (mcount m); am_size := 0;
     am_chunk := cs; am_gver := repeat WV_NULL (mcount m); am_cver := [] |}.

Lemma find_arch_some l m sh : forall k i, find_arch l m sh k = Some i ->
  k <= i /\ exists a, nth_error l (i - k) = Some a /\ am_mask a = m /\ si_eqb (am_shared a) sh = true.
Proof.
  induction l as [|a t IH]; intros k i H; simpl in H; [discriminate|].
  destruct ((am_mask a =? m)%N && si_eqb (am_shared a) sh) eqn:E.
  - inversion H; subst. apply andb_true_iff in E. destruct E as (E1 & E2). apply N.eqb_eq in E1.
    split; [lia|]. exists a. rewrite Nat.sub_diag. auto.
  - destruct (IH _ _ H) as (Hle & a' & Hn & Hk). split; [lia|]. exists a'. replace (i - k) with (S (i - S k)) by lia. auto.
Qed.

Lemma find_arch_none l m sh : forall k, find_arch l m sh k = None ->
  forall a, In a l -> ~ (am_mask a = m /\ si_eqb (am_shared a) sh = true).
Proof.
  induction l as [|a t IH]; intros k H a' Ha; simpl in *; [contradiction|].
  destruct ((am_mask a =? m)%N && si_eqb (am_shared a) sh) eqn:E; [discriminate|].
  destruct Ha as [<-|Ha]; [|eapply IH; eassumption].
  intros (E1 & E2). apply N.eqb_eq in E1. rewrite E1, E2 in E. discriminate.
Qed.

Lemma get_arch_ok s m sh s1 ai : deps s = [] -> get_arch s m sh = Ok (s1, ai) ->
  (s1 = s /\ exists a, nth_error (archs s) ai = Some a /\ am_mask a = m /\ si_eqb (am_shared a) sh = true) \/
  (find_arch (archs s) m sh 0 = None /\ ai = length (archs s) /\ exists cs, s1 = set_archs s (archs s ++ [new_arch m sh cs])).
Proof.
  intros Hd H. unfold get_arch, extra_components in H. rewrite Hd in H. bok H. cbv zeta in H. rewrite munion_zero in H.
  destruct (find_arch (archs s) m sh 0) as [i|] eqn:Ef.
  - inversion H; subst s1 ai. left. split; [reflexivity|]. destruct (find_arch_some _ _ _ _ _ Ef) as (_ & a & Hn & Hk). rewrite Nat.sub_0_r in Hn. eauto.
  - bd H cs Hcs. inversion H; subst s1 ai. right. split; [reflexivity|]. split; [reflexivity|]. exists cs. reflexivity.
Qed.

(* ---------------------------------------------------------------------------------------- *)
(* the same facts by component id, as a user reads them *)
Lemma acell_eq a a' c slot slot' : am_mask a' = am_mask a -> c < MASK_BITS ->
  (forall ci, ci < length (mitems (am_mask a)) -> get_cell a' ci slot' = get_cell a ci slot) -> acell a' c slot' = acell a c slot.
Proof.
  intros Em Hc H. unfold acell. rewrite Em. destruct (cindex (am_mask a) c) as [ci|] eqn:E; [|reflexivity].
  apply H. apply (cindex_lt _ _ _ Hc E).
Qed.

(* externalMove: every component the two archetypes share keeps the entity's value; the others are default-constructed *)
Theorem external_move_keeps_values s ai h prev pidx skip s' a pa :
  nth_error (archs s) ai = Some a -> nth_error (archs s) prev = Some pa ->
  length (am_cols a) = length (mitems (am_mask a)) ->
  am_size pa = length (am_ents pa) -> length (am_cols pa) = length (mitems (am_mask pa)) ->
  external_move s ai h prev pidx skip = Ok s' ->
  exists a2, nth_error (archs s') ai = Some a2 /\ am_mask a2 = am_mask a /\ am_ents a2 = am_ents a ++ [h] /\
    nth_error (locs s') (N.to_nat (fst h)) = Some {| l_arch := Some ai; l_idx := length (am_ents a) |} /\
    (forall c, c < MASK_BITS -> mhas (am_mask a) c = true -> mhas (am_mask pa) c = true ->
       acell a2 c (length (am_ents a)) = acell pa c pidx) /\
    (forall c, c < MASK_BITS -> mhas (am_mask a) c = true -> mhas (am_mask pa) c = false -> mhas skip c = false ->
       cell_le (default_cell (cinfos s) c) (acell a2 c (length (am_ents a))) = true) /\
    (forall c slot, c < MASK_BITS -> slot < length (am_ents a) -> acell a2 c slot = acell a c slot).
Proof.
  intros Ha Hpa Hcols Hpsz Hpcols H.
  destruct (external_move_ok _ _ _ _ _ _ _ _ _ Ha Hpa Hcols Hpsz Hpcols H)
    as (Hne & a2 & pa' & pent & l3 & F & A & Hpent & Hrm & Hlt & L & Hab & He & Hz & Hcl & Hcells & Hval).
  destruct (ab3_fields _ _ Hab) as (Em & _).
  assert (Hai : ai < length (archs s)) by (apply nth_error_Some; congruence).
  exists a2. split; [rewrite A, nth_error_upd_other by congruence; apply nth_error_upd_same; exact Hai|].
  split; [exact Em|]. split; [exact He|]. split; [rewrite L; apply nth_error_upd_same; exact Hlt|].
  split; [|split].
  - intros c Hc Hm Hpm. unfold acell. rewrite Em.
    assert (E1 : cindex (am_mask a) c = Some (length (filter (mhas (am_mask a)) (seq 0 c)))) by (unfold cindex; rewrite Hm; reflexivity).
    assert (E2 : cindex (am_mask pa) c = Some (length (filter (mhas (am_mask pa)) (seq 0 c)))) by (unfold cindex; rewrite Hpm; reflexivity).
    rewrite E1, E2. apply (proj1 (Hval _ c (cindex_nth _ _ _ Hc E1)) _ E2).
  - intros c Hc Hm Hpm Hsk. unfold acell. rewrite Em.
    assert (E1 : cindex (am_mask a) c = Some (length (filter (mhas (am_mask a)) (seq 0 c)))) by (unfold cindex; rewrite Hm; reflexivity).
    rewrite E1. apply (proj2 (Hval _ c (cindex_nth _ _ _ Hc E1))); [apply cindex_none_has; exact Hpm|exact Hsk].
  - intros c slot Hc Hs. apply acell_eq; [exact Em|exact Hc|]. intros ci _. apply Hcells. lia.
Qed.

(* Archetype::remove: the member that was last takes the freed slot together with all its values and gets the new
   location; every other member keeps its slot and values; the removed member is gone *)
Theorem swap_remove_moves_values s ai idx h skip s' a :
  nth_error (archs s) ai = Some a -> am_size a = length (am_ents a) -> length (am_cols a) = length (mitems (am_mask a)) ->
  arch_remove s ai idx h skip = Ok s' ->
  exists a', nth_error (archs s') ai = Some a' /\ am_mask a' = am_mask a /\ S (length (am_ents a')) = length (am_ents a) /\
    (forall j, j <> ai -> nth_error (archs s') j = nth_error (archs s) j) /\
    forall idx' h', nth_error (am_ents a') idx' = Some h' ->
      exists old, old <> idx /\ nth_error (am_ents a) old = Some h' /\
        (forall c, c < MASK_BITS -> acell a' c idx' = acell a c old) /\
        (old = idx' \/ (idx' = idx /\ S old = length (am_ents a) /\
                        nth_error (locs s') (N.to_nat (fst h')) = Some {| l_arch := Some ai; l_idx := idx |})).
Proof.
  intros Ha Hsz Hcols H. destruct (arch_remove_ok _ _ _ _ _ _ _ Ha Hsz Hcols H) as (a' & F & A & Hrm).
  assert (Hai : ai < length (archs s)) by (apply nth_error_Some; congruence).
  exists a'. split; [rewrite A; apply nth_error_upd_same; exact Hai|].
  pose proof Hrm as (last & El & Hab & Hcl & Hz & Hcase). destruct (ab3_fields _ _ Hab) as (Em & _).
  split; [exact Em|]. split.
  { destruct Hcase as [(_ & He & _)|(_ & src & dst & _ & _ & He & _)]; rewrite He, removelast_length, ?upd_length, El; reflexivity. }
  split; [intros j Hj; rewrite A; apply nth_error_upd_other; congruence|].
  intros idx' h' Hn. destruct (removed_members _ _ _ _ _ _ _ Hrm idx' h' Hn) as (old & Ho & Hoe & Hoc & Hpos).
  exists old. split; [exact Ho|]. split; [exact Hoe|]. split; [intros c Hc; apply acell_eq; assumption|].
  destruct Hpos as [E|(E1 & E2)]; [left; exact E|right]. split; [exact E1|]. split; [exact E2|].
  destruct Hcase as [(El' & _)|(Hne & src & dst & Hsrc & Hdst & He & _ & _ & Hl1 & Hl2 & L)].
  - exfalso. apply Ho. rewrite El in E2. lia.
  - rewrite El in E2. inversion E2; subst old. rewrite Hsrc in Hoe. inversion Hoe; subst h'.
    rewrite L. apply nth_error_upd_same. rewrite upd_length. exact Hl2.
Qed.
