(* C02, extended unlocked alphabet, part (c): clone of a live entity.
   MInv_new_member: a new handle becomes the last member of an archetype (used by clone and by the builder's creation). *)
Require Import Coq.Lists.List Coq.NArith.NArith Coq.ZArith.ZArith Coq.Arith.Arith Coq.Bool.Bool Coq.micromega.Lia.
From Mustache Require Import Res Manager MgrSpec Refine.
From Mustache Require Skeleton.
From Mustache Require Import SkelSpec.
From Mustache.proofs Require Import ListLemmas SkelBasics SkelInv SkelSteps SkelMove SkelRefine ClosureProofs
  ManagerBasics ManagerMoves ManagerProj ManagerInv ManagerMain ManagerWorlds ManagerExtFrames ManagerExtInv.
Import ListNotations.

(* ---------------------------------------------------------------------------------------- *)
(* a new member *)
Lemma MInv_new_member cis s hs al x ai a s1 d s2 a3 e_new x' :
  MInv cis s hs al x -> within (S (length hs)) ->
  nth_error (archs s) ai = Some a -> create_id s = Ok (s1, d) ->
  fr2 s2 = fr2 s1 -> archs s2 = upd (archs s1) ai a3 -> N.to_nat (fst d) < length (locs s1) ->
  locs s2 = upd (locs s1) (N.to_nat (fst d)) {| l_arch := Some ai; l_idx := length (am_ents a) |} ->
  ab3 a3 = ab3 a -> am_ents a3 = am_ents a ++ [d] -> am_size a3 = Nat.max (am_size a) (S (length (am_ents a))) ->
  length (am_cols a3) = length (am_cols a) ->
  (forall ci slot, slot <> length (am_ents a) -> get_cell a3 ci slot = get_cell a ci slot) ->
  vmatch e_new a3 (length (am_ents a)) ->
  x_lock x' = x_lock x -> x_deps x' = x_deps x -> x_cinfos x' = x_cinfos x -> x_count x' = S (x_count x) ->
  (forall k, find_ent x' k = if Nat.eqb k (length hs) then Some e_new else find_ent x k) ->
  MInv cis s2 (hs ++ [d]) (al ++ [(length hs, am_mask a)]) x'.
Proof.
  intros HI Hb Ha Hcid F3 A3 Hlt L3 Hab He Hz Hcl Hcells Hvnew X1 X2 X3 X4 Hfind.
  destruct HI as [HG Hawf Hl Hd Hc Hxl Hxd Hxc Hcnt Hsl Hal Hv].
  destruct (create_id_frame _ _ _ Hcid) as (A2 & F2).
  assert (Ha2 : nth_error (archs s1) ai = Some a) by (rewrite A2; exact Ha).
  assert (Hwa : awf a) by (eapply awf_nth; eassumption).
  assert (HG3 : G (proj s2) (hs ++ [d]) (al ++ [(length hs, am_mask a)]) [] /\ length (Skeleton.slots (proj s2)) <= S (length (Skeleton.slots (proj s)))).
  { destruct (G_create (proj s) hs al ai (parch a) (am_mask a) (proj s1) d (proj s2) HG) as (A & _ & B & _).
    - simpl. apply map_nth_error. exact Ha.
    - reflexivity.
    - simpl. rewrite map_length. unfold within, BOUND, Skeleton.NULL_ID in *. lia.
    - apply proj_create_id. exact Hcid.
    - eapply proj_arch_insert; eassumption.
    - split; assumption. }
  destruct HG3 as (HG3 & Hsl3). simpl in Hsl3. rewrite !map_length in Hsl3.
  destruct (fr3_ctl _ _ (fr2_fr3 _ _ F3)) as (E1 & E2 & E3 & _). destruct (fr3_ctl _ _ F2) as (E4 & E5 & E6 & _).
  destruct (ab3_fields _ _ Hab) as (Em & _).
  constructor.
  - exact HG3.
  - rewrite A3. apply Forall_upd; [rewrite A2; exact Hawf|]. eapply awf_inserted; eassumption.
  - congruence.
  - congruence.
  - congruence.
  - congruence.
  - congruence.
  - congruence.
  - rewrite X4, Hcnt, app_length. simpl. lia.
  - rewrite app_length. simpl. lia.
  - intros k. unfold alive. rewrite map_app, in_app_iff. simpl. rewrite alive_x_find. rewrite Hfind.
    destruct (Nat.eqb_spec k (length hs)) as [->|Hne].
    + split; [intros _; discriminate|intros _; right; left; reflexivity].
    + rewrite <- alive_x_find, <- Hal. unfold alive. split; [intros [H|[H|[]]]; [exact H|congruence]|intros H; left; exact H].
  - intros ai' a' idx' h' Ha' Hh'. rewrite A3 in Ha'.
    assert (Hold : forall a0 idx0, nth_error (archs s) ai' = Some a0 -> nth_error (am_ents a0) idx0 = Some h' ->
              am_mask a' = am_mask a0 -> (forall ci, ci < length (mitems (am_mask a0)) -> get_cell a' ci idx' = get_cell a0 ci idx0) ->
              exists k e, k < length (hs ++ [d]) /\ hnd (hs ++ [d]) k = h' /\ find_ent x' k = Some e /\ vmatch e a' idx').
    { intros a0 idx0 Ha0 Hh0 Em0 Hc0. destruct (Hv ai' a0 idx0 h' Ha0 Hh0) as (k & e & Hk & Eh & Hf & Hvm).
      exists k, e. rewrite app_length, hnd_app1 by exact Hk. split; [lia|]. split; [exact Eh|].
      split; [rewrite Hfind; destruct (Nat.eqb_spec k (length hs)); [lia|exact Hf]|].
      eapply vmatch_transfer; eassumption. }
    destruct (Nat.eq_dec ai' ai) as [->|Hna].
    + rewrite nth_error_upd_same in Ha' by (apply nth_error_Some; congruence). inversion Ha'; subst a'.
      rewrite He in Hh'. destruct (Nat.lt_ge_cases idx' (length (am_ents a))) as [Hlt'|Hge].
      * rewrite nth_error_app1 in Hh' by exact Hlt'. apply (Hold a idx'); [exact Ha|exact Hh'|exact Em|].
        intros ci _. apply Hcells. lia.
      * assert (idx' = length (am_ents a)).
        { assert (idx' < length (am_ents a ++ [d])) by (apply nth_error_Some; congruence). rewrite app_length in H. simpl in H. lia. }
        subst idx'. rewrite nth_error_app_last in Hh'. inversion Hh'; subst h'.
        exists (length hs), e_new. rewrite app_length, hnd_app_last. split; [simpl; lia|]. split; [reflexivity|].
        split; [rewrite Hfind, Nat.eqb_refl; reflexivity|exact Hvnew].
    + rewrite nth_error_upd_other in Ha' by congruence. rewrite A2 in Ha'.
      apply (Hold a' idx' Ha' Hh' eq_refl). reflexivity.
Qed.

(* the marked entities when a handle is issued *)
Lemma marked_extend s s' hs al' x x' d :
  (forall h, In h (marked s) -> h = null_handle \/ In h hs) ->
  (forall k, In k (x_marked x) -> k < length hs) ->
  (forall k, k < length hs -> (In (hnd hs k) (marked s) <-> In k (x_marked x))) ->
  marked s' = marked s -> x_marked x' = x_marked x -> G (proj s') (hs ++ [d]) al' [] ->
  (forall h, In h (marked s') -> h = null_handle \/ In h (hs ++ [d])) /\
  (forall k, In k (x_marked x') -> k < length (hs ++ [d])) /\
  (forall k, k < length (hs ++ [d]) -> (In (hnd (hs ++ [d]) k) (marked s') <-> In k (x_marked x'))).
Proof.
  intros Hmi Hml Hm Mk Xm HG. rewrite Mk, Xm. split; [|split].
  - intros h Hin. destruct (Hmi h Hin); [left; assumption|right; apply in_or_app; auto].
  - intros k Hk. rewrite app_length. simpl. pose proof (Hml k Hk). lia.
  - intros k Hk. rewrite app_length in Hk. simpl in Hk. destruct (Nat.eq_dec k (length hs)) as [->|Hne].
    + rewrite hnd_app_last. split.
      * intros Hin. exfalso. destruct (Hmi d Hin) as [E|Hin'].
        -- eapply (null_not_in _ _ _ _ HG). change Skeleton.null_handle with null_handle. rewrite <- E. apply in_or_app. right. left. reflexivity.
        -- pose proof (g_hs_nodup HG) as Hnd. apply NoDup_remove_2 in Hnd. rewrite app_nil_r in Hnd. contradiction.
      * intros Hin. pose proof (Hml _ Hin). lia.
    + assert (Hk' : k < length hs) by lia. rewrite hnd_app1 by exact Hk'. apply Hm. exact Hk'.
Qed.

Lemma MInvE_new_member cis s hs al x ai a s1 d s2 a3 e_new x' :
  MInvE cis s hs al x -> within (S (length hs)) ->
  nth_error (archs s) ai = Some a -> create_id s = Ok (s1, d) ->
  fr2 s2 = fr2 s1 -> archs s2 = upd (archs s1) ai a3 -> N.to_nat (fst d) < length (locs s1) ->
  locs s2 = upd (locs s1) (N.to_nat (fst d)) {| l_arch := Some ai; l_idx := length (am_ents a) |} ->
  ab3 a3 = ab3 a -> am_ents a3 = am_ents a ++ [d] -> am_size a3 = Nat.max (am_size a) (S (length (am_ents a))) ->
  length (am_cols a3) = length (am_cols a) ->
  (forall ci slot, slot <> length (am_ents a) -> get_cell a3 ci slot = get_cell a ci slot) ->
  vmatch e_new a3 (length (am_ents a)) ->
  x_lock x' = x_lock x -> x_deps x' = x_deps x -> x_cinfos x' = x_cinfos x -> x_count x' = S (x_count x) ->
  x_marked x' = x_marked x -> xwf x' ->
  (forall k, find_ent x' k = if Nat.eqb k (length hs) then Some e_new else find_ent x k) ->
  MInvE cis s2 (hs ++ [d]) (al ++ [(length hs, am_mask a)]) x'.
Proof.
  intros [HI HM Hw Hmi Hml Hmk] Hb Ha Hcid F3 A3 Hlt L3 Hab He Hz Hcl Hcells Hvnew X1 X2 X3 X4 X5 Hw' Hfind.
  assert (HI' : MInv cis s2 (hs ++ [d]) (al ++ [(length hs, am_mask a)]) x') by (eapply MInv_new_member; eassumption).
  destruct (create_id_frame _ _ _ Hcid) as (A2 & F2).
  assert (Mk : marked s2 = marked s).
  { destruct (fr3_ctl _ _ (fr2_fr3 _ _ F3)) as (_ & _ & _ & _ & _ & E & _). destruct (fr3_ctl _ _ F2) as (_ & _ & _ & _ & _ & E' & _). congruence. }
  destruct (marked_extend s s2 hs _ x x' d Hmi Hml Hmk Mk X5 (mi_G _ _ _ _ _ HI')) as (M1 & M2 & M3).
  constructor; try assumption.
  unfold Mok. rewrite A3, A2. destruct (ab3_fields _ _ Hab) as (Em & _). rewrite (masks_upd _ _ a _ Ha Em). exact HM.
Qed.

(* ---------------------------------------------------------------------------------------- *)
(* Archetype::cloneEntity *)
Lemma clone_entity_ok s ai src dst sidx s' a :
  nth_error (archs s) ai = Some a -> length (am_cols a) = length (mitems (am_mask a)) -> sidx < length (am_ents a) ->
  clone_entity s ai src dst sidx = Ok s' ->
  exists a3, fr2 s' = fr2 s /\ archs s' = upd (archs s) ai a3 /\
    N.to_nat (fst dst) < length (locs s) /\
    locs s' = upd (locs s) (N.to_nat (fst dst)) {| l_arch := Some ai; l_idx := length (am_ents a) |} /\
    ab3 a3 = ab3 a /\ am_ents a3 = am_ents a ++ [dst] /\ am_size a3 = Nat.max (am_size a) (S (length (am_ents a))) /\
    length (am_cols a3) = length (am_cols a) /\
    (forall ci slot, slot <> length (am_ents a) -> get_cell a3 ci slot = get_cell a ci slot) /\
    (forall ci, ci < length (mitems (am_mask a)) -> get_cell a3 ci (length (am_ents a)) = get_cell a ci sidx).
Proof.
  intros Ha Hcols Hsidx H. assert (Hai : ai < length (archs s)) by (apply nth_error_Some; congruence).
  unfold clone_entity in H. bd H r Hr. destruct r as (s1, idx).
  destruct (push_back_ok _ _ _ _ _ _ Ha Hr) as (-> & a1 & -> & Hab & Hc1 & He1 & Hz1). clear Hr.
  cbv beta iota in H. bd H s2 Hs2. apply update_location_ok in Hs2. destruct Hs2 as (Hlt & ->).
  cbn [locs set_arch set_archs] in Hlt.
  match type of H with context [nth_res (archs ?S) ai] => set (s2 := S) in * end.
  assert (Ha1 : nth_error (archs s2) ai = Some a1) by (unfold s2; simpl; apply nth_error_upd_same; exact Hai).
  rewrite (nth_res_some _ _ _ Ha1) in H. bok H. cbv zeta in H.
  destruct (ab3_fields _ _ Hab) as (Hm1 & _).
  assert (Hlen1 : length (am_cols a1) = length (mitems (am_mask a1))) by (rewrite Hc1, Hm1; exact Hcols).
  set (didx := length (am_ents a)) in *.
  match type of H with fold_res ?f _ _ = _ =>
    assert (Hstep : forall st a_st ci c st', cells_of s2 ai didx a1 st a_st -> nth_error (mitems (am_mask a1)) ci = Some c -> f st (ci, c) = Ok st' ->
       exists a', cells_of s2 ai didx a1 st' a' /\ (forall ci', ci' <> ci -> get_cell a' ci' didx = get_cell a_st ci' didx) /\
                  (True -> (fun (ci c : nat) (v : cell) => v = get_cell a1 ci sidx) ci c (get_cell a' ci didx))) end.
  { intros st a_st ci c st' Hc Hn Hf. cbv beta iota in Hf. bd Hf inf Hinf.
    destruct (negb (ci_clone inf)); [discriminate|].
    rewrite (nth_res_some _ _ _ (cells_of_nth _ _ _ _ _ _ Ha1 Hc)) in Hf. bok Hf. bd Hf st1 Hw.
    destruct (cells_of_write _ _ _ _ _ _ _ _ _ Ha1 Hc Hw) as (-> & Hc2). inversion Hf; subst st'; clear Hf.
    eexists. split; [eapply cells_of_olog; [exact Hc2|apply olog_if]|].
    split; [intros ci' Hne; apply get_put_other_col; congruence|].
    intros _. rewrite get_put_same.
    - destruct Hc as (_ & _ & _ & _ & E). apply E. unfold didx. lia.
    - destruct Hc as (_ & _ & _ & E & _). rewrite E, Hlen1. apply nth_error_Some. congruence. }
  destruct (fold_cols _ (fun _ _ _ => True) _ s2 ai didx a1 (mitems (am_mask a1)) Ha1 Hstep s2 a1 s' (cells_of_refl _ _ _ _ Ha1) (fun _ _ _ => I) H)
    as (a2 & Hc2 & Hpost & _).
  destruct Hc2 as (F2 & A2 & B2 & L2 & C2).
  destruct (ab2_fields _ _ (ab1_ab2 _ _ B2)) as (_ & _ & Ee & Ez & _).
  exists a2.
  split; [rewrite (fr1_fr2 _ _ F2); reflexivity|].
  split; [rewrite A2; unfold s2; simpl; rewrite upd_upd; reflexivity|].
  split; [exact Hlt|]. split; [rewrite (fr1_locs _ _ F2); reflexivity|].
  split; [rewrite <- Hab; apply ab2_ab3; apply ab1_ab2; exact B2|].
  split; [rewrite Ee; exact He1|]. split; [rewrite Ez; exact Hz1|]. split; [rewrite L2, Hc1; reflexivity|].
  split.
  - intros ci slot Hs. rewrite C2 by exact Hs. apply get_cell_cols. exact Hc1.
  - intros ci Hci. rewrite <- Hm1 in Hci. destruct (nth_error (mitems (am_mask a1)) ci) as [c|] eqn:En.
    + rewrite (Hpost ci c En). apply get_cell_cols. exact Hc1.
    + apply nth_error_None in En. lia.
Qed.

Lemma step_clone_unlocked s h : lockc s = 0 ->
  step s (OClone h) =
  (if negb (is_valid s h) then Ok (s, RNullHandle) else
   do la <- loc_arch s h; let '(ai, idx) := la in
   do r <- create_id s; let '(s1, d) := r in
   do s2 <- clone_entity s1 ai h d idx; Ok (s2, RHandle d)).
Proof. intros Hl. unfold step. rewrite Hl. reflexivity. Qed.

Lemma xwf_put_new x x' e : xwf x -> x_lock x' = x_lock x -> x_deps x' = x_deps x -> x_count x' = S (x_count x) ->
  x_ents x' = put_ent (x_ents x) e -> e_k e = x_count x -> xwf x'.
Proof.
  intros (A & B & C & D) X1 X2 X4 E Hk. split; [congruence|]. split; [congruence|]. rewrite E, X4. split; [apply put_ent_nodup; exact C|].
  intros z Hz. apply put_ent_in in Hz. destruct Hz as [->|Hz]; [lia|]. pose proof (D z Hz). lia.
Qed.

Lemma MInvE_clone cis s hs al x k s' out :
  MInvE cis s hs al x -> (forall d, out = RHandle d -> within (S (length hs))) -> step s (OClone (hnd hs k)) = Ok (s', out) ->
  (out = RNullHandle /\ find_ent x k = None /\ MInvE cis s' hs al (x_step_in x (XoClone k))) \/
  (exists d al', out = RHandle d /\ MInvE cis s' (hs ++ [d]) al' (x_step_in x (XoClone k))).
Proof.
  intros HE Hb H. pose proof HE as [HI HM Hw Hmi Hml Hmk].
  rewrite (step_clone_unlocked _ _ (mi_lock _ _ _ _ _ HI)) in H.
  destruct (is_valid s (hnd hs k)) eqn:Ev; simpl negb in H; cbv iota in H.
  - right. destruct (valid_find _ _ _ _ _ _ HI Ev) as (Hk & Hal & e & Hfe). destruct (alive_in _ _ Hal) as (key & Hin).
    destruct (live_vmatch _ _ _ _ _ _ _ _ HI Hin Hfe) as (_ & ai & idx & a & Hloc & Harch & Hkey & Hent & Hvm).
    assert (Ela : loc_arch s (hnd hs k) = Ok (ai, idx)).
    { unfold loc_arch. rewrite (nth_res_some _ _ _ Hloc). reflexivity. }
    rewrite Ela in H. bok H. bd H r Hcid. destruct r as (s1, d). cbv beta iota in H. bd H s2 Hcl. inversion H; subst s' out; clear H.
    specialize (Hb d eq_refl).
    destruct (create_id_frame _ _ _ Hcid) as (A2 & F2).
    assert (Ha1 : nth_error (archs s1) ai = Some a) by (rewrite A2; exact Harch).
    destruct (awf_nth _ _ _ (mi_awf _ _ _ _ _ HI) Harch) as (W1 & W2 & W3).
    assert (Hidx : idx < length (am_ents a)) by (apply nth_error_Some; congruence).
    destruct (clone_entity_ok _ _ _ _ _ _ _ Ha1 W3 Hidx Hcl) as (a3 & F3 & A3 & Hlt & L3 & Hab & He & Hz & Hcols & Hcells & Hcopy).
    exists d. eexists. split; [reflexivity|].
    unfold x_step_in. rewrite Hfe.
    set (e_new := {| e_k := x_count x; e_comps := e_comps e; e_shared := e_shared e |}).
    destruct (ab3_fields _ _ Hab) as (Em & _).
    eapply (MInvE_new_member cis s hs al x ai a s1 d s2 a3 e_new); try eassumption; try reflexivity.
    + destruct Hvm as (Hm0 & Hs0 & Hv0). split; [simpl; rewrite Em; exact Hm0|]. split; [exact Hs0|].
      simpl. intros c v Hcv. specialize (Hv0 c v Hcv). unfold acell in *. rewrite Em.
      destruct (cindex (am_mask a) c) as [ci|] eqn:Eci; [|exact Hv0]. rewrite Hcopy; [exact Hv0|].
      assert (Hi : In c (mitems (am_mask a))) by (rewrite <- Hm0; apply in_map_iff; exists (c, v); auto).
      apply mitems_in in Hi. apply (cindex_lt _ _ _ (proj1 Hi) Eci).
    + eapply xwf_put_new; [exact Hw| | | | |]; reflexivity.
    + intros k'. rewrite find_ent_findk. cbn [x_ents xw_ents xw_count]. rewrite findk_put. cbn [e_k e_new].
      rewrite (mi_count _ _ _ _ _ HI). reflexivity.
  - left. inversion H; subst s' out. pose proof (dead_find _ _ _ _ _ _ HI Ev) as Hfe.
    split; [reflexivity|]. split; [exact Hfe|]. unfold x_step_in. rewrite Hfe. exact HE.
Qed.
