(* C12 under lock: one step (SLR_step), scripts (SLR_run), and what queries observe at the end: the statement of
   Refine.v over the alphabet with lock / unlock and shared components (locked_shared_refines_on), and the instances
   the live entities report (locked_shared_instances). *)
Require Import Coq.Lists.List Coq.NArith.NArith Coq.ZArith.ZArith Coq.Arith.Arith Coq.Bool.Bool Coq.micromega.Lia Coq.Sorting.Permutation.
Require Import Coq.Sorting.Sorted.
From Mustache Require Import Res Manager MgrSpec Refine.
From Mustache Require Skeleton.
From Mustache Require Import SkelSpec.
From Mustache.proofs Require Import ListLemmas SkelBasics SkelInv SkelSteps SkelRefine SkelLocked SkelFlush SkelMove SkelMoveRem SkelMain ClosureProofs
  ManagerBasics ManagerMoves ManagerProj ManagerInv ManagerMain ManagerWorlds ManagerLInv ManagerPack ManagerFlush ManagerLocked ManagerLockedMain
  DepsFrame DepsClosure DepsInv SharedProofs SharedKey SharedVals SharedFrame SharedInv SharedMain SharedLInv SharedFlush SharedCtl SharedLocked.
Import ListNotations.

Lemma x_viol_stepS_mono cis x o : alphaL_s cis o = true -> x_viol x <= x_viol (x_step x o).
Proof.
  intros Ha. destruct (is_shared o) eqn:Es.
  - destruct o; try discriminate; unfold x_step; destruct (out_of_contract x _); simpl; try lia; unfold x_step_in; destruct (find_ent x k); simpl; lia.
  - apply (x_viol_stepL_mono cis). apply alphaL_s_b; assumption.
Qed.

Lemma x_viol_runS_mono cis : forall ops x, forallb (alphaL_s cis) ops = true -> x_viol x <= x_viol (fold_left x_step ops x).
Proof.
  induction ops as [|o t IH]; intros x Ha; simpl in *; [lia|]. apply andb_true_iff in Ha. destruct Ha as (Ho & Ht).
  pose proof (x_viol_stepS_mono cis x o Ho). pose proof (IH (x_step x o) Ht). lia.
Qed.

(* ---- one step ---- *)
Lemma SLR_step cis typed s hs x o s' hs' :
  SLR cis s hs x -> cis_ok cis -> alphaL_s cis o = true -> x_viol x = 0 -> x_viol (x_step x o) = 0 ->
  mstep typed (s, hs) o = Ok (s', hs') -> within (length hs') -> SLR cis s' hs' (x_step x o).
Proof.
  intros HR Hok Ha Hv0 Hv1 H Hb.
  assert (Hb0 : within (length hs)) by (eapply within_le; [eapply mstep_mono; exact H|exact Hb]).
  assert (Hve : x_viol (x_step x o) = x_viol x) by congruence.
  assert (Hlk : lockc s = x_lock x) by exact (lr_lock _ _ _ _ (sr_L _ _ _ _ HR)).
  assert (Hca : match o with
                | XoDestroy _ _ | XoLock | XoSet _ _ _ => True
                | XoUnlock => exists n, lockc s = S (S n)
                | XoCreate _ _ sids via => lockc s <> 0 /\ via = false
                | XoDestroyNow _ _ | XoAssign _ _ _ _ | XoRemove _ _ _ _ => lockc s <> 0
                | _ => False
                end -> SLR cis s' hs' (x_step x o)).
  { intros Hc. apply (SLR_ca_step cis typed s hs x o s' hs' HR Hok Ha Hv0 Hv1 H Hb Hc). }
  assert (Hun : x_lock x = 0 -> uo o -> SLR cis s' hs' (x_step x o)).
  { intros El Hu. apply (SLR_unlocked_s cis typed s hs x o s' hs' HR Hok El Hu Ha Hv0 Hv1 H Hb). }
  assert (Hfl : o = XoUnlock -> pred (x_lock x) = 0 -> SLR cis s' hs' (x_step x o)).
  { intros -> Hp. destruct (SLR_unlock_flush cis typed s hs x s' hs' HR Hok Hp Hb0 Hve H) as (-> & HR'). exact HR'. }
  destruct (x_lock x) as [|n] eqn:El.
  - (* not locked *)
    destruct o; try (simpl in Ha; discriminate).
    + apply Hun; [reflexivity|exact I].
    + apply Hca. exact I.
    + apply Hun; [reflexivity|exact I].
    + destruct (SLR_update cis typed s hs x s' hs' HR Hok El Ha Hb0 H) as (-> & HR'). exact HR'.
    + apply Hca. exact I.
    + apply Hfl; reflexivity.
    + apply Hun; [reflexivity|exact I].
    + apply Hun; [reflexivity|exact I].
    + apply Hun; [reflexivity|exact I].
    + apply Hun; [reflexivity|exact I].
    + apply Hca. exact I.
  - (* locked *)
    assert (Hl : lockc s <> 0) by congruence.
    destruct o; try (simpl in Ha; discriminate).
    + pose proof Ha as Ha'. simpl in Ha'. apply andb_true_iff in Ha'. destruct Ha' as (Hs & Hlm). destruct sids; [|discriminate]. destruct via_arch.
      * apply (SLR_create_via cis typed s hs x tid m s' hs' n HR Hok El Hlm Hv0 Hv1 Hb H).
      * apply Hca. auto.
    + apply Hca. exact I.
    + apply Hca. exact Hl.
    + exfalso. unfold x_step in Hv1. simpl out_of_contract in Hv1. rewrite El in Hv1. simpl in Hv1. lia.
    + apply Hca. exact I.
    + destruct n as [|n]; [apply Hfl; reflexivity|]. apply Hca. exists n. congruence.
    + apply Hca. exact Hl.
    + apply Hca. exact Hl.
    + exfalso. unfold x_step in Hv1. simpl out_of_contract in Hv1. rewrite El in Hv1. simpl in Hv1. rewrite orb_true_r in Hv1. simpl in Hv1. lia.
    + exfalso. unfold x_step in Hv1. simpl out_of_contract in Hv1. rewrite El in Hv1. simpl in Hv1. lia.
    + apply Hca. exact I.
Qed.

Lemma SLR_run cis typed : forall ops s hs x s' hs',
  SLR cis s hs x -> cis_ok cis -> forallb (alphaL_s cis) ops = true -> x_viol x = 0 ->
  x_viol (fold_left x_step ops x) = 0 ->
  fold_res (mstep typed) ops (s, hs) = Ok (s', hs') -> within (length hs') ->
  SLR cis s' hs' (fold_left x_step ops x).
Proof.
  induction ops as [|o t IH]; intros s hs x s' hs' HR Hok Ha Hv0 Hv1 H Hb; simpl in *.
  - inversion H; subst. exact HR.
  - apply andb_true_iff in Ha. destruct Ha as (Ho & Ht). bd H r H1. destruct r as (s1, hs1).
    assert (Hv1' : x_viol (x_step x o) = 0).
    { pose proof (x_viol_runS_mono cis t (x_step x o) Ht). lia. }
    assert (HR1 : SLR cis s1 hs1 (x_step x o)).
    { apply (SLR_step cis typed s hs x o s1 hs1 HR Hok Ho Hv0 Hv1' H1). eapply within_le; [|exact Hb]. eapply mrun_mono. exact H. }
    apply (IH s1 hs1 (x_step x o) s' hs' HR1 Hok Ht Hv1' Hv1 H Hb).
Qed.

Lemma SLR_init n cis : SLR cis (init n cis) [] (x_init n cis).
Proof.
  constructor.
  - exact (LR_init n cis).
  - constructor; [reflexivity|constructor|apply init_pool_wf|].
    intros sid i Hi. rewrite pool_of_nil in Hi by reflexivity. destruct Hi.
  - intros k e Hfe. discriminate.
  - constructor.
Qed.

(* the relation holds after every script of the alphabet *)
Theorem locked_shared_run_related typed n cis ops s hs :
  cis_ok cis -> forallb (alphaL_s cis) ops = true ->
  mrun typed n cis ops = Ok (s, hs) -> x_viol (xrun n cis ops) = 0 -> within (length hs) ->
  SLR cis s hs (xrun n cis ops).
Proof.
  intros Hok Ha Hrun Hviol Hb. unfold mrun in Hrun. unfold xrun in *.
  apply (SLR_run cis typed ops _ _ _ _ _ (SLR_init n cis) Hok Ha eq_refl Hviol Hrun Hb).
Qed.

(* ---------------------------------------------------------------------------------------- *)
(* what queries observe *)
Lemma SLInv_abs_alive cis s hs al rem x k e : SLInv cis s hs al rem x -> find_ent x k = Some e ->
  exists e', abs_ent s k (hnd hs k) = Some e' /\ ent_match e e' = true.
Proof.
  intros HS Hfe. pose proof HS as (HL & _).
  assert (Ha : alive al k) by (apply (li_alive _ _ _ _ _ _ HL); rewrite alive_x_xns; apply alive_x_find; congruence).
  destruct (alive_in _ _ Ha) as (key & Hin).
  destruct (live_sl _ _ _ _ _ _ _ _ HS Hin) as (Hk & e1 & ai & idx & a & Hfe1 & Hloc & Harch & Hkey & Hent & (Hm & _ & Hv) & Hsh).
  rewrite Hfe in Hfe1. inversion Hfe1; subst e1.
  cbn [erase e_comps] in Hm, Hv. rewrite mitems_ha in Hm.
  assert (Ev : is_valid s (hnd hs k) = true) by (apply (valid_l (rk s) _ _ _ _ (li_G _ _ _ _ _ _ HL) Hk); exact Ha).
  unfold abs_ent. rewrite Ev, Hloc. simpl l_arch. cbv iota. rewrite Harch. simpl l_idx. cbv zeta.
  eexists. split; [reflexivity|]. unfold ent_match. simpl.
  rewrite (findk_key _ _ _ Hfe), Nat.eqb_refl. simpl. fold (shvals s (am_shared a)). rewrite Hsh, shared_match_refl, andb_true_r.
  rewrite abs_comps_acell. apply comps_match_ok; [exact Hm|]. intros c v Hcv. specialize (Hv c v Hcv).
  rewrite SharedLInv.acell_ha in Hv; [exact Hv|]. assert (Hi : In c (mitems (am_mask a))) by (rewrite <- Hm; apply in_map_iff; exists (c, v); auto).
  apply mitems_in in Hi. tauto.
Qed.

Lemma SLInv_abs_dead cis s hs al rem x k : SLInv cis s hs al rem x -> find_ent x k = None -> abs_ent s k (hnd hs k) = None.
Proof.
  intros HS Hfe. unfold abs_ent. destruct (is_valid s (hnd hs k)) eqn:Ev; [|reflexivity].
  destruct (valid_find_sl _ _ _ _ _ _ _ HS Ev) as (_ & _ & e & He). congruence.
Qed.

Theorem locked_shared_refinement typed n cis ops s hs :
  cis_ok cis -> forallb (alphaL_s cis) ops = true ->
  mrun typed n cis ops = Ok (s, hs) -> x_viol (xrun n cis ops) = 0 -> within (length hs) ->
  length hs = x_count (xrun n cis ops) /\
  forall k,
    match find_ent (xrun n cis ops) k with
    | Some e => exists e', abs_ent s k (nth k hs null_handle) = Some e' /\ ent_match e e' = true
    | None => abs_ent s k (nth k hs null_handle) = None
    end.
Proof.
  intros Hok Ha Hrun Hviol Hb. pose proof (locked_shared_run_related typed n cis ops s hs Hok Ha Hrun Hviol Hb) as HR.
  destruct (SLR_inv _ _ _ _ HR) as (al & HS).
  split; [symmetry; exact (li_count _ _ _ _ _ _ (proj1 HS))|]. intros k.
  destruct (find_ent (xrun n cis ops) k) as [e|] eqn:Hfe.
  - apply (SLInv_abs_alive _ _ _ _ _ _ _ _ HS Hfe).
  - apply (SLInv_abs_dead _ _ _ _ _ _ _ HS Hfe).
Qed.

(* ---- the entity table of the specification never holds two entities with one issue number ---- *)
Lemma xnd_step_s cis x o : ManagerLockedMain.xnd x -> alphaL_s cis o = true -> ManagerLockedMain.xnd (x_step x o).
Proof.
  intros H Ha. destruct (is_shared o) eqn:Es.
  - unfold x_step. destruct (out_of_contract x o); [exact H|].
    destruct o; try discriminate; unfold x_step_in; (destruct (find_ent x k) as [e|]; [|exact H]); unfold ManagerLockedMain.xnd; simpl; apply put_ent_nodup; exact H.
  - apply (ManagerLockedMain.xnd_step cis); [exact H|apply alphaL_s_b; assumption].
Qed.

Lemma xnd_run_s cis : forall ops x, ManagerLockedMain.xnd x -> forallb (alphaL_s cis) ops = true -> ManagerLockedMain.xnd (fold_left x_step ops x).
Proof.
  induction ops as [|o t IH]; intros x H Ha; simpl in *; [exact H|]. apply andb_true_iff in Ha. destruct Ha as (Ho & Ht).
  apply IH; [apply (xnd_step_s cis); assumption|exact Ht].
Qed.

(* the statement of Refine.v for the alphabet with lock / unlock and shared components *)
Theorem locked_shared_refines_on typed n cis ops s hs :
  cis_ok cis -> forallb (alphaL_s cis) ops = true ->
  mrun typed n cis ops = Ok (s, hs) -> x_viol (xrun n cis ops) = 0 -> within (length hs) ->
  refines_on typed n cis ops = true.
Proof.
  intros Hok Ha Hrun Hviol Hb. destruct (locked_shared_refinement typed n cis ops s hs Hok Ha Hrun Hviol Hb) as (Hcnt & Hpt).
  unfold refines_on. rewrite Hrun, Hviol. simpl. unfold worlds_match.
  assert (Hnd : ManagerLockedMain.xnd (xrun n cis ops)) by (apply (xnd_run_s cis); [constructor|exact Ha]).
  assert (Hlt : forall e, In e (x_ents (xrun n cis ops)) -> e_k e < x_count (xrun n cis ops)).
  { intros e He. pose proof (findk_nodup _ _ Hnd He) as Hf. specialize (Hpt (e_k e)). unfold find_ent in Hpt. fold (findk (x_ents (xrun n cis ops)) (e_k e)) in Hpt.
    rewrite Hf in Hpt. destruct Hpt as (e' & Habs & _). rewrite <- Hcnt.
    destruct (Nat.lt_ge_cases (e_k e) (length hs)) as [Hk|Hk]; [exact Hk|].
    rewrite nth_overflow in Habs by exact Hk. unfold abs_ent in Habs. rewrite is_valid_null_m in Habs. discriminate. }
  rewrite (sorted_is_ordered_l _ Hnd Hlt), <- Hcnt. apply Forall2_worlds. unfold abs. apply abs_from_match.
  intros j Hj. simpl. apply Hpt.
Qed.

(* ---- instances: what a live entity reports, and one instance per distinct value ---- *)
Lemma SLInv_instances cis s hs al rem x : SLInv cis s hs al rem x ->
  (forall k e, find_ent x k = Some e ->
     si_wf (shared_at s (hnd hs k)) /\
     forall sid v, In (sid, v) (e_shared e) <-> exists i, si_get (shared_at s (hnd hs k)) sid = Some i /\ inst_value s i = v) /\
  (forall k1 e1 k2 e2 sid i1 i2, find_ent x k1 = Some e1 -> find_ent x k2 = Some e2 ->
     si_get (shared_at s (hnd hs k1)) sid = Some i1 -> si_get (shared_at s (hnd hs k2)) sid = Some i2 ->
     (inst_value s i1 = inst_value s i2 <-> i1 = i2)).
Proof.
  intros HS. pose proof HS as (HL & HX).
  assert (Hat : forall k e, find_ent x k = Some e -> exists ai a, nth_error (archs s) ai = Some a /\ shared_at s (hnd hs k) = am_shared a /\
                 e_shared e = shvals s (am_shared a)).
  { intros k e Hfe. assert (Ha : alive al k) by (apply (li_alive _ _ _ _ _ _ HL); rewrite alive_x_xns; apply alive_x_find; congruence).
    destruct (alive_in _ _ Ha) as (key & Hin).
    destruct (live_sl _ _ _ _ _ _ _ _ HS Hin) as (_ & e1 & ai & idx & a & Hfe1 & Hloc & Harch & _ & _ & _ & Hsh).
    rewrite Hfe in Hfe1. inversion Hfe1; subst e1.
    exists ai, a. split; [exact Harch|]. split; [|exact Hsh]. unfold shared_at. rewrite Hloc. simpl. rewrite Harch. reflexivity. }
  split.
  - intros k e Hfe. destruct (Hat k e Hfe) as (ai & a & Harch & -> & Hsh). destruct (SL_hok _ _ _ _ _ _ _ _ HS Harch) as (_ & W & _).
    split; [exact W|]. intros sid v. rewrite Hsh. apply shvals_in. exact W.
  - intros k1 e1 k2 e2 sid i1 i2 Hf1 Hf2 G1 G2. split; [|intros ->; reflexivity]. intros Ev.
    destruct (Hat k1 e1 Hf1) as (ai1 & a1 & Ha1 & E1 & _). destruct (Hat k2 e2 Hf2) as (ai2 & a2 & Ha2 & E2 & _). rewrite E1 in G1. rewrite E2 in G2.
    destruct (SL_hok _ _ _ _ _ _ _ _ HS Ha1) as (_ & _ & T1 & P1). destruct (SL_hok _ _ _ _ _ _ _ _ HS Ha2) as (_ & _ & T2 & P2).
    assert (D1 : In i1 (si_data (am_shared a1))) by (rewrite si_get_lookup in G1; apply lookup_some_in in G1; tauto).
    assert (D2 : In i2 (si_data (am_shared a2))) by (rewrite si_get_lookup in G2; apply lookup_some_in in G2; tauto).
    specialize (P1 i1 D1). specialize (P2 i2 D2). rewrite (T1 _ _ G1) in P1. rewrite (T2 _ _ G2) in P2.
    destruct (sx_pool _ _ _ HX) as (Hinj & _). destruct (Hinj sid) as (_ & Hu). apply Hu; assumption.
Qed.

Theorem locked_shared_instances typed n cis ops s hs :
  cis_ok cis -> forallb (alphaL_s cis) ops = true ->
  mrun typed n cis ops = Ok (s, hs) -> x_viol (xrun n cis ops) = 0 -> within (length hs) ->
  (forall k e, find_ent (xrun n cis ops) k = Some e ->
     si_wf (shared_at s (nth k hs null_handle)) /\
     forall sid v, In (sid, v) (e_shared e) <-> exists i, si_get (shared_at s (nth k hs null_handle)) sid = Some i /\ inst_value s i = v) /\
  (forall k1 e1 k2 e2 sid i1 i2, find_ent (xrun n cis ops) k1 = Some e1 -> find_ent (xrun n cis ops) k2 = Some e2 ->
     si_get (shared_at s (nth k1 hs null_handle)) sid = Some i1 -> si_get (shared_at s (nth k2 hs null_handle)) sid = Some i2 ->
     (inst_value s i1 = inst_value s i2 <-> i1 = i2)).
Proof.
  intros Hok Ha Hrun Hviol Hb. pose proof (locked_shared_run_related typed n cis ops s hs Hok Ha Hrun Hviol Hb) as HR.
  destruct (SLR_inv _ _ _ _ HR) as (al & HS). exact (SLInv_instances _ _ _ _ _ _ HS).
Qed.

(* the alphabets of C12 (unlocked, with shared components) and of C05 (locked, without) are parts of this one *)
Lemma alpha_s_alphaL cis o : alpha_s cis o = true -> alphaL_s cis o = true.
Proof. destruct o; simpl; auto. Qed.
